(* C01 — every mutator implements bounded-deque sequence semantics.
   [refines_op o] (proofs/RefDefs.v): on every well-formed state of every
   capacity < 2^64, in every fault-free world and for every usize argument,
   [exec o] returns what [spec_step] returns on the abstract contents, leaves
   exactly the specified contents, emits exactly the specified events, keeps
   the state well formed; and panics (state unchanged) exactly when the
   specification demands it. This file only pins statements. *)
From CB Require Import Spec.
From CBP Require Import RefDefs RefPushPop RefTruncate RemoveSwap Views DrainP FillExtend.

Theorem C01_push_back : forall x, refines_op (OPushBack x).
Proof. exact push_back_op. Qed.
Print Assumptions C01_push_back.
Theorem C01_push_front : forall x, refines_op (OPushFront x).
Proof. exact push_front_op. Qed.
Print Assumptions C01_push_front.
Theorem C01_try_push_back : forall x, refines_op (OTryPushBack x).
Proof. exact try_push_back_op. Qed.
Print Assumptions C01_try_push_back.
Theorem C01_try_push_front : forall x, refines_op (OTryPushFront x).
Proof. exact try_push_front_op. Qed.
Print Assumptions C01_try_push_front.
Theorem C01_pop_back : refines_op OPopBack.
Proof. exact pop_back_op. Qed.
Print Assumptions C01_pop_back.
Theorem C01_pop_front : refines_op OPopFront.
Proof. exact pop_front_op. Qed.
Print Assumptions C01_pop_front.
Theorem C01_remove : forall i, refines_op (ORemove i).
Proof. exact remove_op. Qed.
Print Assumptions C01_remove.
Theorem C01_swap : forall i j, refines_op (OSwap i j).
Proof. exact swap_op. Qed.
Print Assumptions C01_swap.
Theorem C01_swap_remove_back : forall i, refines_op (OSwapRemoveBack i).
Proof. exact swap_remove_back_op. Qed.
Print Assumptions C01_swap_remove_back.
Theorem C01_swap_remove_front : forall i, refines_op (OSwapRemoveFront i).
Proof. exact swap_remove_front_op. Qed.
Print Assumptions C01_swap_remove_front.
Theorem C01_truncate_back : forall k, refines_op (OTruncateBack k).
Proof. exact truncate_back_op. Qed.
Print Assumptions C01_truncate_back.
Theorem C01_truncate_front : forall k, refines_op (OTruncateFront k).
Proof. exact truncate_front_op. Qed.
Print Assumptions C01_truncate_front.
Theorem C01_clear : refines_op OClear.
Proof. exact clear_op. Qed.
Print Assumptions C01_clear.
Theorem C01_extend : forall xs, refines_op (OExtend xs).
Proof. exact extend_op. Qed.
Print Assumptions C01_extend.
Theorem C01_extend_ref : forall xs, refines_op (OExtendRef xs).
Proof. exact extend_ref_op. Qed.
Print Assumptions C01_extend_ref.
Theorem C01_fill : forall v, refines_op (OFill v).
Proof. exact fill_op. Qed.
Print Assumptions C01_fill.
Theorem C01_fill_with : refines_op OFillWith.
Proof. exact fill_with_op. Qed.
Print Assumptions C01_fill_with.
Theorem C01_fill_spare : forall v, refines_op (OFillSpare v).
Proof. exact fill_spare_op. Qed.
Print Assumptions C01_fill_spare.
Theorem C01_fill_spare_with : refines_op OFillSpareWith.
Proof. exact fill_spare_with_op. Qed.
Print Assumptions C01_fill_spare_with.
Theorem C01_drain : forall sb eb script forget, refines_op (ODrain sb eb script forget).
Proof. exact drain_op. Qed.
Print Assumptions C01_drain.
Theorem C01_make_contiguous : forall ws, refines_op (OMakeContiguous ws).
Proof. exact make_contiguous_op. Qed.
Print Assumptions C01_make_contiguous.
Theorem C01_as_mut_slices_write : forall ws, refines_op (OAsMutSlicesSet ws).
Proof. exact as_mut_slices_set_op. Qed.
Print Assumptions C01_as_mut_slices_write.
