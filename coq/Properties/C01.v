(* C01 — every mutator implements bounded-deque sequence semantics.
   [refines_op o] (proofs/RefDefs.v): on every well-formed state of every
   capacity < 2^64, in every fault-free world, for every machine-value argument,
   [exec o] returns what [spec_step] (theories/Spec.v: the documented deque over
   plain lists) returns on the abstract contents [abs s], leaves exactly the
   specified contents, emits exactly the specified events, keeps the state well
   formed, and panics (state unchanged) exactly when the specification demands.
   [C01_history] lifts this to every finite history by induction.
   This file only pins statements; proofs are in coq/proofs/. *)
From CB Require Import Spec Unstable.
From Coq Require Import Permutation.
From CBP Require Import Step RefDefs C02Lemmas Arith AbsLemmas AllOps FaultDefs FaultPrims FaultDropA FaultDropB FaultUser
     Iters DrainP ExtendIo CmpHash Ctors PhysMoves MoreOps UnstableEq Access Views RefTruncate FillExtend FaultFrame SpecCorollaries ValueCorollaries FaultGeneric FaultHistory FaultConserve FaultDebugOps ContigAfter.


Theorem C01_step :
  forall o, refines_op o.
Proof. exact (exec_refines). Qed.
Print Assumptions C01_step.

Theorem C01_history :
  forall ops s w,
  WF s -> fault w = None -> ops_ok s ops ->
  let '(rs, s', w') := run_history ops s w in
  let '(srs, l', evs, nid') := spec_history (cap s) (abs s) ops (next_id w) in
  results_ok ops srs rs /\ abs s' = l' /\ WF s' /\ cap s' = cap s /\ w' = wev w evs nid'.
Proof. exact (history_refines). Qed.
Print Assumptions C01_history.

Theorem C01_push_back :
  forall x, refines_op (OPushBack x).
Proof. exact (fun x => exec_refines (OPushBack x)). Qed.
Print Assumptions C01_push_back.

Theorem C01_push_front :
  forall x, refines_op (OPushFront x).
Proof. exact (fun x => exec_refines (OPushFront x)). Qed.
Print Assumptions C01_push_front.

Theorem C01_try_push_back :
  forall x, refines_op (OTryPushBack x).
Proof. exact (fun x => exec_refines (OTryPushBack x)). Qed.
Print Assumptions C01_try_push_back.

Theorem C01_try_push_front :
  forall x, refines_op (OTryPushFront x).
Proof. exact (fun x => exec_refines (OTryPushFront x)). Qed.
Print Assumptions C01_try_push_front.

Theorem C01_pop_back :
  refines_op OPopBack.
Proof. exact (exec_refines (OPopBack)). Qed.
Print Assumptions C01_pop_back.

Theorem C01_pop_front :
  refines_op OPopFront.
Proof. exact (exec_refines (OPopFront)). Qed.
Print Assumptions C01_pop_front.

Theorem C01_remove :
  forall i, refines_op (ORemove i).
Proof. exact (fun i => exec_refines (ORemove i)). Qed.
Print Assumptions C01_remove.

Theorem C01_swap :
  forall i j, refines_op (OSwap i j).
Proof. exact (fun i j => exec_refines (OSwap i j)). Qed.
Print Assumptions C01_swap.

Theorem C01_swap_remove_back :
  forall i, refines_op (OSwapRemoveBack i).
Proof. exact (fun i => exec_refines (OSwapRemoveBack i)). Qed.
Print Assumptions C01_swap_remove_back.

Theorem C01_swap_remove_front :
  forall i, refines_op (OSwapRemoveFront i).
Proof. exact (fun i => exec_refines (OSwapRemoveFront i)). Qed.
Print Assumptions C01_swap_remove_front.

Theorem C01_truncate_back :
  forall k, refines_op (OTruncateBack k).
Proof. exact (fun k => exec_refines (OTruncateBack k)). Qed.
Print Assumptions C01_truncate_back.

Theorem C01_truncate_front :
  forall k, refines_op (OTruncateFront k).
Proof. exact (fun k => exec_refines (OTruncateFront k)). Qed.
Print Assumptions C01_truncate_front.

Theorem C01_clear :
  refines_op OClear.
Proof. exact (exec_refines (OClear)). Qed.
Print Assumptions C01_clear.

Theorem C01_extend :
  forall xs, refines_op (OExtend xs).
Proof. exact (fun xs => exec_refines (OExtend xs)). Qed.
Print Assumptions C01_extend.

Theorem C01_extend_ref :
  forall xs, refines_op (OExtendRef xs).
Proof. exact (fun xs => exec_refines (OExtendRef xs)). Qed.
Print Assumptions C01_extend_ref.

Theorem C01_extend_from_slice :
  forall xs, refines_op (OExtendFromSlice xs).
Proof. exact (fun xs => exec_refines (OExtendFromSlice xs)). Qed.
Print Assumptions C01_extend_from_slice.

Theorem C01_fill :
  forall v, refines_op (OFill v).
Proof. exact (fun v => exec_refines (OFill v)). Qed.
Print Assumptions C01_fill.

Theorem C01_fill_with :
  refines_op OFillWith.
Proof. exact (exec_refines (OFillWith)). Qed.
Print Assumptions C01_fill_with.

Theorem C01_fill_spare :
  forall v, refines_op (OFillSpare v).
Proof. exact (fun v => exec_refines (OFillSpare v)). Qed.
Print Assumptions C01_fill_spare.

Theorem C01_fill_spare_with :
  refines_op OFillSpareWith.
Proof. exact (exec_refines (OFillSpareWith)). Qed.
Print Assumptions C01_fill_spare_with.

Theorem C01_drain :
  forall sb eb script forget, refines_op (ODrain sb eb script forget).
Proof. exact (fun sb eb script forget => exec_refines (ODrain sb eb script forget)). Qed.
Print Assumptions C01_drain.

Theorem C01_make_contiguous :
  forall ws, refines_op (OMakeContiguous ws).
Proof. exact (fun ws => exec_refines (OMakeContiguous ws)). Qed.
Print Assumptions C01_make_contiguous.

Theorem C01_as_mut_slices_write :
  forall ws, refines_op (OAsMutSlicesSet ws).
Proof. exact (fun ws => exec_refines (OAsMutSlicesSet ws)). Qed.
Print Assumptions C01_as_mut_slices_write.

Theorem C01_iter_mut_write :
  forall script, refines_op (OIterMut script).
Proof. exact (fun script => exec_refines (OIterMut script)). Qed.
Print Assumptions C01_iter_mut_write.

Theorem C01_range_mut_write :
  forall sb eb script, refines_op (ORangeMut sb eb script).
Proof. exact (fun sb eb script => exec_refines (ORangeMut sb eb script)). Qed.
Print Assumptions C01_range_mut_write.

Theorem C01_get_mut_write :
  forall i v, refines_op (OGetMutSet i v).
Proof. exact (fun i v => exec_refines (OGetMutSet i v)). Qed.
Print Assumptions C01_get_mut_write.

Theorem C01_index_mut_write :
  forall i v, refines_op (OIndexMutSet i v).
Proof. exact (fun i v => exec_refines (OIndexMutSet i v)). Qed.
Print Assumptions C01_index_mut_write.
