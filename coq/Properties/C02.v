(* C02 — single-element insertion never loses an element silently.
   [returns m s w v l'] (proofs/C02Lemmas.v): m returns v, the contents
   afterwards are l', the state stays well formed, nothing else changes.
   Elements carry identities, so "the same element" is literal. *)
From CB Require Import Spec.
From CBP Require Import C02Lemmas.

Theorem C02_push_back_room : forall s w x,
  WF s -> size s < cap s -> returns (push_back x) s w None (abs s ++ [x]).
Proof. exact push_back_room. Qed.
Print Assumptions C02_push_back_room.
Theorem C02_push_back_full : forall s w x,
  WF s -> 0 < cap s -> size s = cap s ->
  exists old, hd_error (abs s) = Some old /\
              returns (push_back x) s w (Some old) (tl (abs s) ++ [x]).
Proof. exact push_back_full. Qed.
Print Assumptions C02_push_back_full.
Theorem C02_push_back_zero : forall s w x,
  WF s -> cap s = 0 -> push_back x s w = (Ok (Some x), s, w).
Proof. exact push_back_zero. Qed.
Print Assumptions C02_push_back_zero.
Theorem C02_push_front_room : forall s w x,
  WF s -> size s < cap s -> returns (push_front x) s w None (x :: abs s).
Proof. exact push_front_room. Qed.
Print Assumptions C02_push_front_room.
Theorem C02_push_front_full : forall s w x,
  WF s -> 0 < cap s -> size s = cap s ->
  exists old, last_error (abs s) = Some old /\
              returns (push_front x) s w (Some old) (x :: removelast (abs s)).
Proof. exact push_front_full. Qed.
Print Assumptions C02_push_front_full.
Theorem C02_push_front_zero : forall s w x,
  WF s -> cap s = 0 -> push_front x s w = (Ok (Some x), s, w).
Proof. exact push_front_zero. Qed.
Print Assumptions C02_push_front_zero.
(* try_push: None models Ok(()), Some e models Err(e) *)
Theorem C02_try_push_back_room : forall s w x,
  WF s -> size s < cap s -> returns (try_push_back x) s w None (abs s ++ [x]).
Proof. exact try_push_back_room. Qed.
Print Assumptions C02_try_push_back_room.
Theorem C02_try_push_back_full : forall s w x,
  WF s -> size s = cap s -> try_push_back x s w = (Ok (Some x), s, w).
Proof. exact try_push_back_full. Qed.
Print Assumptions C02_try_push_back_full.
Theorem C02_try_push_front_room : forall s w x,
  WF s -> size s < cap s -> returns (try_push_front x) s w None (x :: abs s).
Proof. exact try_push_front_room. Qed.
Print Assumptions C02_try_push_front_room.
Theorem C02_try_push_front_full : forall s w x,
  WF s -> size s = cap s -> try_push_front x s w = (Ok (Some x), s, w).
Proof. exact try_push_front_full. Qed.
Print Assumptions C02_try_push_front_full.
