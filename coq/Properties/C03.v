(* C03 — every element is dropped exactly once and never while reachable.
   (1) [C03_events_exact]: in a fault-free world the list of destructor, clone
   and closure events of every operation is exactly the specification's
   (part of [refines_op]). (2) The ledger theorems (proofs/LedgerSpec.v):
   per step, (contents before ++ taken from the caller ++ created) is a
   permutation of (contents after ++ handed to the caller ++ destroyed), and
   along every panic-free history the identities in buffer ++ caller ++
   destroyed stay pairwise distinct.
   This file only pins statements; proofs are in coq/proofs/. *)
From CB Require Import Spec Unstable.
From Coq Require Import Permutation.
From CBP Require Import Step RefDefs C02Lemmas Arith AbsLemmas AllOps FaultDefs FaultPrims FaultDropA FaultDropB FaultUser
     Iters DrainP ExtendIo CmpHash Ctors PhysMoves MoreOps UnstableEq Access Views RefTruncate FillExtend FaultFrame SpecCorollaries ValueCorollaries FaultGeneric FaultHistory FaultConserve FaultDebugOps ContigAfter LedgerSpec.


Theorem C03_events_exact :
  forall o, refines_op o.
Proof. exact (exec_refines). Qed.
Print Assumptions C03_events_exact.

Theorem C03_spec_conservation :
  forall N l o nid r,
  0 <= N -> zlen l <= N -> ledger_op o = true ->
  spec_step N l o nid = SRet r ->
  Permutation (l ++ taken o l (sr_out r) ++ created_of (sr_evs r))
              (sr_list r ++ handed o (sr_out r) ++ forgotten o l ++ dropped_of (sr_evs r)).
Proof. exact (spec_conservation). Qed.
Print Assumptions C03_spec_conservation.

Theorem C03_step_conservation :
  forall o s w v s' w',
  WF s -> fault w = None -> op_ok s o -> ledger_op o = true ->
  exec o s w = (Ok v, s', w') ->
  exists evs,
    log w' = log w ++ evs /\
    Permutation (abs s ++ taken o (abs s) (erase_out v) ++ created_of evs)
                (abs s' ++ handed o (erase_out v) ++ forgotten o (abs s) ++ dropped_of evs) /\
    next_id w <= next_id w' /\
    NoDup (ids (created_of evs)) /\
    (forall e, In e (created_of evs) -> next_id w <= eid e < next_id w') /\
    WF s' /\ cap s' = cap s /\ fault w' = fault w.
Proof. exact (fun o s w v s' w' HW Hf Hok Hl He => model_conservation o s w v s' w' (exec_refines o s w HW Hf Hok) HW Hl He). Qed.
Print Assumptions C03_step_conservation.

Theorem C03_history :
  forall (s0 : cbuf) (w0 : world),
  WF s0 -> fault w0 = None -> NoDup (ids (abs s0)) ->
  (forall e, In e (abs s0) -> eid e < next_id w0) ->
  forall ops s w L,
  ledger_run s0 w0 ops s w L ->
  NoDup (ids (abs s ++ lg_caller L ++ lg_destroyed L)) /\
  Permutation (abs s ++ lg_caller L ++ lg_destroyed L) (lg_entered L) /\
  NoDup (ids (lg_entered L)).
Proof. exact (ledger_history exec_refines). Qed.
Print Assumptions C03_history.
