(* C04 — unoccupied storage is never observed; only the logical contents
   matter. Two well-formed buffers of one capacity with equal [abs] — any front
   positions, any bytes in unoccupied slots, any history behind them — answer
   every history of operations with results meeting the same specification
   results (physical positions and the as_slices / fill_buf split point are not
   part of a logical result), emit the same events and end with equal contents.
   This file only pins statements; proofs are in coq/proofs/. *)
From CB Require Import Spec Unstable.
From Coq Require Import Permutation.
From CBP Require Import Step RefDefs C02Lemmas Arith AbsLemmas AllOps FaultDefs FaultPrims FaultDropA FaultDropB FaultUser
     Iters DrainP ExtendIo CmpHash Ctors PhysMoves MoreOps UnstableEq Access Views RefTruncate FillExtend FaultFrame SpecCorollaries ValueCorollaries FaultGeneric FaultHistory FaultConserve FaultDebugOps ContigAfter.


Theorem C04_layout_independent :
  forall ops s1 s2 w,
  WF s1 -> WF s2 -> cap s1 = cap s2 -> abs s1 = abs s2 ->
  fault w = None -> ops_ok s1 ops ->
  let '(rs1, s1', w1') := run_history ops s1 w in
  let '(rs2, s2', w2') := run_history ops s2 w in
  exists srs, results_ok ops srs rs1 /\ results_ok ops srs rs2 /\
              abs s1' = abs s2' /\ w1' = w2' /\ WF s1' /\ WF s2'.
Proof. exact (layout_independent). Qed.
Print Assumptions C04_layout_independent.

Theorem C04_garbage_independent :
  forall ops s1 s2 w,
  WF s1 -> WF s2 -> cap s1 = cap s2 -> start s1 = start s2 -> size s1 = size s2 ->
  (forall i, 0 <= i < size s1 -> items s1 (phys s1 i) = items s2 (phys s2 i)) ->
  fault w = None -> ops_ok s1 ops ->
  let '(rs1, s1', w1') := run_history ops s1 w in
  let '(rs2, s2', w2') := run_history ops s2 w in
  exists srs, results_ok ops srs rs1 /\ results_ok ops srs rs2 /\
              abs s1' = abs s2' /\ w1' = w2' /\ WF s1' /\ WF s2'.
Proof. exact (garbage_independent). Qed.
Print Assumptions C04_garbage_independent.
