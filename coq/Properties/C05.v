(* C05 — a panicking element destructor never causes a second drop or a
   corrupt buffer. [fault_safe o FDrop] (proofs/FaultDefs.v): with the k-th
   destructor call panicking (every k), from every well-formed state of distinct
   elements, [exec o] returns or unwinds with that panic (never an abort, never
   another panic), the buffer is well formed afterwards, the identities of
   (contents ++ handed back ++ destroyed) are pairwise distinct (nothing
   destroyed twice, nothing destroyed that is still reachable) and drawn from
   what existed. Afterwards the plan is spent, so all fault-free theorems apply
   to the state left behind ("behaves normally").
   This file only pins statements; proofs are in coq/proofs/. *)
From CB Require Import Spec Unstable.
From Coq Require Import Permutation.
From CBP Require Import Step RefDefs C02Lemmas Arith AbsLemmas AllOps FaultDefs FaultPrims FaultDropA FaultDropB FaultUser
     Iters DrainP ExtendIo CmpHash Ctors PhysMoves MoreOps UnstableEq Access Views RefTruncate FillExtend FaultFrame SpecCorollaries ValueCorollaries FaultGeneric FaultHistory FaultConserve FaultDebugOps ContigAfter.


Theorem C05_truncate_back :
  forall k, fault_safe (OTruncateBack k) FDrop.
Proof. exact (truncate_back_fault). Qed.
Print Assumptions C05_truncate_back.

Theorem C05_truncate_front :
  forall k, fault_safe (OTruncateFront k) FDrop.
Proof. exact (truncate_front_fault). Qed.
Print Assumptions C05_truncate_front.

Theorem C05_clear :
  fault_safe (OClear) FDrop.
Proof. exact (clear_fault). Qed.
Print Assumptions C05_clear.

Theorem C05_drop_buffer :
  fault_safe (ONew) FDrop.
Proof. exact (new_fault). Qed.
Print Assumptions C05_drop_buffer.

Theorem C05_boxed :
  fault_safe (OBoxed) FDrop.
Proof. exact (boxed_fault). Qed.
Print Assumptions C05_boxed.

Theorem C05_default :
  fault_safe (ODefault) FDrop.
Proof. exact (default_fault). Qed.
Print Assumptions C05_default.

Theorem C05_into_iter :
  forall script, fault_safe (OIntoIter script) FDrop.
Proof. exact (into_iter_fault). Qed.
Print Assumptions C05_into_iter.

Theorem C05_fill :
  forall v, fault_safe (OFill v) FDrop.
Proof. exact (fill_fault). Qed.
Print Assumptions C05_fill.

Theorem C05_fill_with :
  fault_safe (OFillWith) FDrop.
Proof. exact (fill_with_fault). Qed.
Print Assumptions C05_fill_with.

Theorem C05_fill_spare :
  forall v, fault_safe (OFillSpare v) FDrop.
Proof. exact (fill_spare_fault). Qed.
Print Assumptions C05_fill_spare.

Theorem C05_extend :
  forall xs, fault_safe (OExtend xs) FDrop.
Proof. exact (extend_fault). Qed.
Print Assumptions C05_extend.

Theorem C05_from_iter :
  forall xs, fault_safe (OFromIter xs) FDrop.
Proof. exact (from_iter_fault). Qed.
Print Assumptions C05_from_iter.

Theorem C05_from_array :
  forall xs, fault_safe (OFromArray xs) FDrop.
Proof. exact (from_array_fault). Qed.
Print Assumptions C05_from_array.

Theorem C05_clone_from :
  forall other, fault_safe (OCloneFrom other) FDrop.
Proof. exact (clone_from_fault). Qed.
Print Assumptions C05_clone_from.

Theorem C05_clone_keep :
  fault_safe (OCloneKeepClone) FDrop.
Proof. exact (clone_keep_fault). Qed.
Print Assumptions C05_clone_keep.

Theorem C05_clone_drop :
  fault_safe (OCloneDropClone) FDrop.
Proof. exact (clone_drop_fault). Qed.
Print Assumptions C05_clone_drop.

Theorem C05_extend_from_slice :
  forall xs, fault_safe (OExtendFromSlice xs) FDrop.
Proof. exact (extend_from_slice_fault). Qed.
Print Assumptions C05_extend_from_slice.

Theorem C05_drain_all :
  forall script, fault_safe (ODrain BUnb BUnb script false) FDrop.
Proof. exact (drain_all_fault). Qed.
Print Assumptions C05_drain_all.

Theorem C05_frame :
  forall o fk s w k,
  may_call o fk = false -> fault w = Some (fk, k) ->
  exec o s w =
    let '(r, s', w') := exec o s (w_fault w None) in (r, s', w_fault w' (Some (fk, k))).
Proof. exact (fault_frame). Qed.
Print Assumptions C05_frame.

Theorem C05_frame_refines :
  forall o fk s w k,
  may_call o fk = false -> WF s -> op_ok s o -> fault w = Some (fk, k) ->
  refines_at_armed o s w fk k.
Proof. exact (fault_frame_refines). Qed.
Print Assumptions C05_frame_refines.

Theorem C05_history :
  forall (s0 : cbuf) (w0 : world),
  WF s0 -> plan_nonneg (fault w0) -> NoDup (FaultDefs.ids (abs s0)) ->
  (forall e : elem, In e (abs s0) -> eid e < next_id w0) ->
  forall (ops : list op) (rs : list (outcome out)) (s : cbuf) (w : world) (L : fledger),
  fault_run s0 w0 ops rs s w L ->
  Forall outcome_ok rs /\
  (user_panics rs <= 1)%nat /\
  (user_panics rs = 1%nat -> fault w = None) /\
  (fault w0 = None -> user_panics rs = 0%nat) /\
  WF s /\ cap s = cap s0 /\
  NoDup (FaultDefs.ids (abs s ++ fl_caller L ++ fl_destroyed L)) /\
  incl (abs s ++ fl_caller L ++ fl_destroyed L) (fl_entered L) /\
  NoDup (FaultDefs.ids (fl_entered L)) /\
  (forall e : elem, In e (fl_entered L) -> eid e < next_id w) /\
  FaultGeneric.plan_step (fault w0) (fault w).
Proof. exact (fault_history). Qed.
Print Assumptions C05_history.

Theorem C05_drain :
  forall sb eb script, fault_safe_when (fun s => spec_bounds (size s) sb eb <> None) (ODrain sb eb script false) FDrop.
Proof. exact (drain_fault). Qed.
Print Assumptions C05_drain.
