(* C06 — a panic in user code (Clone, closure, iterator, eq, cmp, hash, fmt)
   leaves a valid buffer. [fault_safe o fk] as in C05, and for these kinds
   additionally: when the call unwinds, every element that was given to it or
   successfully created is in the buffer or has been destroyed (no leak).
   This file only pins statements; proofs are in coq/proofs/. *)
From CB Require Import Spec Unstable.
From Coq Require Import Permutation.
From CBP Require Import Step RefDefs C02Lemmas Arith AbsLemmas AllOps FaultDefs FaultPrims FaultDropA FaultDropB FaultUser
     Iters DrainP ExtendIo CmpHash Ctors PhysMoves MoreOps UnstableEq Access Views RefTruncate FillExtend FaultFrame SpecCorollaries ValueCorollaries FaultGeneric FaultHistory FaultConserve FaultDebugOps ContigAfter FaultClone LedgerSpec.


Theorem C06_fill_with :
  fault_safe (OFillWith) FCall.
Proof. exact (fill_with_call_fault). Qed.
Print Assumptions C06_fill_with.

Theorem C06_fill_spare_with :
  fault_safe (OFillSpareWith) FCall.
Proof. exact (fill_spare_with_call_fault). Qed.
Print Assumptions C06_fill_spare_with.

Theorem C06_extend :
  forall xs, fault_safe (OExtend xs) FNext.
Proof. exact (extend_next_fault). Qed.
Print Assumptions C06_extend.

Theorem C06_from_iter :
  forall xs, fault_safe (OFromIter xs) FNext.
Proof. exact (from_iter_next_fault). Qed.
Print Assumptions C06_from_iter.

Theorem C06_eq :
  forall other, fault_safe (OEq other) FEq.
Proof. exact (eq_fault). Qed.
Print Assumptions C06_eq.

Theorem C06_eq_slice :
  forall form xs, fault_safe (OEqSlice form xs) FEq.
Proof. exact (eq_slice_fault). Qed.
Print Assumptions C06_eq_slice.

Theorem C06_partial_cmp :
  forall other, fault_safe (OPartialCmp other) FCmp.
Proof. exact (partial_cmp_fault). Qed.
Print Assumptions C06_partial_cmp.

Theorem C06_cmp :
  forall other, fault_safe (OCmp other) FCmp.
Proof. exact (cmp_fault). Qed.
Print Assumptions C06_cmp.

Theorem C06_hash :
  fault_safe (OHash) FHash.
Proof. exact (hash_fault). Qed.
Print Assumptions C06_hash.

Theorem C06_debug :
  fault_safe (ODebug) FFmt.
Proof. exact (debug_fault). Qed.
Print Assumptions C06_debug.

Theorem C06_history :
  forall (s0 : cbuf) (w0 : world),
  WF s0 -> plan_nonneg (fault w0) -> NoDup (FaultDefs.ids (abs s0)) ->
  (forall e : elem, In e (abs s0) -> eid e < next_id w0) ->
  forall (ops : list op) (rs : list (outcome out)) (s : cbuf) (w : world) (L : fledger),
  fault_run s0 w0 ops rs s w L ->
  Forall outcome_ok rs /\
  (user_panics rs <= 1)%nat /\
  (user_panics rs = 1%nat -> fault w = None) /\
  (fault w0 = None -> user_panics rs = 0%nat) /\
  WF s /\ cap s = cap s0 /\
  NoDup (FaultDefs.ids (abs s ++ fl_caller L ++ fl_destroyed L)) /\
  incl (abs s ++ fl_caller L ++ fl_destroyed L) (fl_entered L) /\
  NoDup (FaultDefs.ids (fl_entered L)) /\
  (forall e : elem, In e (fl_entered L) -> eid e < next_id w) /\
  FaultGeneric.plan_step (fault w0) (fault w).
Proof. exact (fault_history). Qed.
Print Assumptions C06_history.

Theorem C06_history_no_leak :
  forall (s0 : cbuf) (w0 : world),
  WF s0 -> plan_nonneg (fault w0) -> NoDup (FaultDefs.ids (abs s0)) ->
  (forall e : elem, In e (abs s0) -> eid e < next_id w0) ->
  forall (ops : list op) (rs : list (outcome out)) (s : cbuf) (w : world) (L : fledger) (fk : fkind) (k : Z),
  fault_run s0 w0 ops rs s w L -> fault w0 = Some (fk, k) -> fk <> FDrop ->
  exists lost : list elem,
    Permutation (abs s ++ fl_caller L ++ fl_destroyed L ++ lost) (fl_entered L) /\
    incl lost (fl_at_risk L) /\ (user_panics rs = 0%nat -> lost = [] /\ fl_at_risk L = []).
Proof. exact (fault_history_no_leak). Qed.
Print Assumptions C06_history_no_leak.

Theorem C06_history_lookers_conserve :
  forall (s0 : cbuf) (w0 : world),
  WF s0 -> plan_nonneg (fault w0) -> NoDup (FaultDefs.ids (abs s0)) ->
  (forall e : elem, In e (abs s0) -> eid e < next_id w0) ->
  forall (ops : list op) (rs : list (outcome out)) (s : cbuf) (w : world) (L : fledger) (fk : fkind) (k : Z),
  fault_run s0 w0 ops rs s w L -> fault w0 = Some (fk, k) -> looks_only fk = true ->
  Permutation (abs s ++ fl_caller L ++ fl_destroyed L) (fl_entered L).
Proof. exact (fault_history_no_leak_looks). Qed.
Print Assumptions C06_history_lookers_conserve.

Theorem C06_history_nothing_lost :
  forall (s0 : cbuf) (w0 : world),
  WF s0 -> plan_nonneg (fault w0) -> NoDup (FaultDefs.ids (abs s0)) ->
  (forall e : elem, In e (abs s0) -> eid e < next_id w0) ->
  forall (ops : list op) (rs : list (outcome out)) (s : cbuf) (w : world) (L : fledger) (fk : fkind) (k : Z),
  fault_run s0 w0 ops rs s w L -> fault w0 = Some (fk, k) -> fk <> FDrop ->
  Permutation (abs s ++ fl_caller L ++ fl_destroyed L) (fl_entered L).
Proof. exact (fault_history_conserving). Qed.
Print Assumptions C06_history_nothing_lost.

Theorem C06_all_pairs :
  forall (o : op) (fk : fkind),
  ledger_op o = true -> may_call o fk = true -> covered' o fk = true ->
  fault_safe_when (fun s : cbuf => nopanic_spec o s /\ plain_pre o) o fk.
Proof. exact (fault_collect_all). Qed.
Print Assumptions C06_all_pairs.

Theorem C06_frame :
  forall o fk s w k,
  may_call o fk = false -> fault w = Some (fk, k) ->
  exec o s w =
    let '(r, s', w') := exec o s (w_fault w None) in (r, s', w_fault w' (Some (fk, k))).
Proof. exact (fault_frame). Qed.
Print Assumptions C06_frame.

Theorem C06_frame_refines :
  forall o fk s w k,
  may_call o fk = false -> WF s -> op_ok s o -> fault w = Some (fk, k) ->
  refines_at_armed o s w fk k.
Proof. exact (fault_frame_refines). Qed.
Print Assumptions C06_frame_refines.

Theorem C06_fill_spare_clone :
  forall v, fault_safe (OFillSpare v) FClone.
Proof. exact (fill_spare_clone_fault). Qed.
Print Assumptions C06_fill_spare_clone.

Theorem C06_fill_clone :
  forall v, fault_safe (OFill v) FClone.
Proof. exact (fill_clone_fault). Qed.
Print Assumptions C06_fill_clone.

Theorem C06_to_vec_clone :
  fault_safe (OToVec) FClone.
Proof. exact (to_vec_clone_fault). Qed.
Print Assumptions C06_to_vec_clone.

Theorem C06_clone_keep_clone :
  fault_safe (OCloneKeepClone) FClone.
Proof. exact (clone_keep_clone_fault). Qed.
Print Assumptions C06_clone_keep_clone.

Theorem C06_clone_drop_clone :
  fault_safe (OCloneDropClone) FClone.
Proof. exact (clone_drop_clone_fault). Qed.
Print Assumptions C06_clone_drop_clone.

Theorem C06_clone_from_clone :
  forall other, fault_safe (OCloneFrom other) FClone.
Proof. exact (clone_from_clone_fault). Qed.
Print Assumptions C06_clone_from_clone.

Theorem C06_extend_from_slice_clone :
  forall xs, fault_safe (OExtendFromSlice xs) FClone.
Proof. exact (extend_from_slice_clone_fault). Qed.
Print Assumptions C06_extend_from_slice_clone.
