(* C07 — all views of the contents agree; mutable views alias exactly those
   elements. Every accessor refines its list-level specification on [abs s]
   (nth_error / rev / hd / last; None or the documented panic outside [0, len),
   also for usize::MAX); iter, range, to_vec, Debug and as_slices (first slice
   followed by second) present [abs s]; the *_set forms write through the
   mutable reference and change exactly that position; make_contiguous returns
   everything in one slice. [C07_distinct_slots]: the slots of distinct
   positions are distinct, so no two mutable references alias.
   This file only pins statements; proofs are in coq/proofs/. *)
From CB Require Import Spec Unstable.
From Coq Require Import Permutation.
From CBP Require Import Step RefDefs C02Lemmas Arith AbsLemmas AllOps FaultDefs FaultPrims FaultDropA FaultDropB FaultUser
     Iters DrainP ExtendIo CmpHash Ctors PhysMoves MoreOps UnstableEq Access Views RefTruncate FillExtend FaultFrame SpecCorollaries ValueCorollaries FaultGeneric FaultHistory FaultConserve FaultDebugOps ContigAfter.


Theorem C07_get :
  forall i, refines_op (OGet i).
Proof. exact (fun i => exec_refines (OGet i)). Qed.
Print Assumptions C07_get.

Theorem C07_nth_front :
  forall i, refines_op (ONthFront i).
Proof. exact (fun i => exec_refines (ONthFront i)). Qed.
Print Assumptions C07_nth_front.

Theorem C07_nth_back :
  forall i, refines_op (ONthBack i).
Proof. exact (fun i => exec_refines (ONthBack i)). Qed.
Print Assumptions C07_nth_back.

Theorem C07_front :
  refines_op OFront.
Proof. exact (exec_refines (OFront)). Qed.
Print Assumptions C07_front.

Theorem C07_back :
  refines_op OBack.
Proof. exact (exec_refines (OBack)). Qed.
Print Assumptions C07_back.

Theorem C07_index :
  forall i, refines_op (OIndex i).
Proof. exact (fun i => exec_refines (OIndex i)). Qed.
Print Assumptions C07_index.

Theorem C07_iter :
  forall script, refines_op (OIter script).
Proof. exact (fun script => exec_refines (OIter script)). Qed.
Print Assumptions C07_iter.

Theorem C07_range :
  forall sb eb script, refines_op (ORange sb eb script).
Proof. exact (fun sb eb script => exec_refines (ORange sb eb script)). Qed.
Print Assumptions C07_range.

Theorem C07_as_slices :
  refines_op OAsSlices.
Proof. exact (exec_refines (OAsSlices)). Qed.
Print Assumptions C07_as_slices.

Theorem C07_to_vec :
  refines_op OToVec.
Proof. exact (exec_refines (OToVec)). Qed.
Print Assumptions C07_to_vec.

Theorem C07_debug :
  refines_op ODebug.
Proof. exact (exec_refines (ODebug)). Qed.
Print Assumptions C07_debug.

Theorem C07_get_mut :
  forall i v, refines_op (OGetMutSet i v).
Proof. exact (fun i v => exec_refines (OGetMutSet i v)). Qed.
Print Assumptions C07_get_mut.

Theorem C07_nth_front_mut :
  forall i v, refines_op (ONthFrontMutSet i v).
Proof. exact (fun i v => exec_refines (ONthFrontMutSet i v)). Qed.
Print Assumptions C07_nth_front_mut.

Theorem C07_nth_back_mut :
  forall i v, refines_op (ONthBackMutSet i v).
Proof. exact (fun i v => exec_refines (ONthBackMutSet i v)). Qed.
Print Assumptions C07_nth_back_mut.

Theorem C07_front_mut :
  forall v, refines_op (OFrontMutSet v).
Proof. exact (fun v => exec_refines (OFrontMutSet v)). Qed.
Print Assumptions C07_front_mut.

Theorem C07_back_mut :
  forall v, refines_op (OBackMutSet v).
Proof. exact (fun v => exec_refines (OBackMutSet v)). Qed.
Print Assumptions C07_back_mut.

Theorem C07_index_mut :
  forall i v, refines_op (OIndexMutSet i v).
Proof. exact (fun i v => exec_refines (OIndexMutSet i v)). Qed.
Print Assumptions C07_index_mut.

Theorem C07_iter_mut :
  forall script, refines_op (OIterMut script).
Proof. exact (fun script => exec_refines (OIterMut script)). Qed.
Print Assumptions C07_iter_mut.

Theorem C07_range_mut :
  forall sb eb script, refines_op (ORangeMut sb eb script).
Proof. exact (fun sb eb script => exec_refines (ORangeMut sb eb script)). Qed.
Print Assumptions C07_range_mut.

Theorem C07_as_mut_slices :
  forall ws, refines_op (OAsMutSlicesSet ws).
Proof. exact (fun ws => exec_refines (OAsMutSlicesSet ws)). Qed.
Print Assumptions C07_as_mut_slices.

Theorem C07_make_contiguous :
  forall ws, refines_op (OMakeContiguous ws).
Proof. exact (fun ws => exec_refines (OMakeContiguous ws)). Qed.
Print Assumptions C07_make_contiguous.

Theorem C07_sequence_views :
  forall s w,
  WF s -> fault w = None ->
  let l := abs s in
  (exists a b s', exec OAsSlices s w = (Ok (OutSlices a b), s', w) /\
                  map snd (a ++ b) = l /\ abs s' = l) /\
  (exists cs s' w', exec OToVec s w = (Ok (OutList cs), s', w') /\
                    map eval cs = map eval l /\ abs s' = l) /\
  (exists s' w', exec ODebug s w = (Ok OutUnit, s', w') /\
                 log w' = log w ++ map EvFmt l /\ abs s' = l) /\
  (exists rs s', exec (OIter (repeat SNext (length l))) s w = (Ok (OutScript rs), s', w) /\
                 map erase_sres rs = map (fun e => RItem (Some (epe e))) l /\ abs s' = l).
Proof. exact (exec_seq_views). Qed.
Print Assumptions C07_sequence_views.

Theorem C07_element_views :
  forall s w o e,
  WF s -> fault w = None -> ref_view (abs s) o e ->
  exists p s', exec o s w = (Ok (OutRef p), s', w) /\ option_map snd p = e /\
               abs s' = abs s /\ WF s' /\ cap s' = cap s.
Proof. exact (exec_ref_views). Qed.
Print Assumptions C07_element_views.

Theorem C07_distinct_slots :
  forall s i j,
  0 < cap s -> 0 <= start s < cap s -> 0 <= i < cap s -> 0 <= j < cap s ->
  phys s i = phys s j -> i = j.
Proof. exact (phys_inj). Qed.
Print Assumptions C07_distinct_slots.

Theorem C07_single_slice_after_make_contiguous :
  forall s w,
  WF s ->
  exists sl s1,
    make_contiguous s w = (Ok sl, s1, w) /\ WF s1 /\ abs s1 = abs s /\
    exists a b, as_slices s1 w = (Ok (a, b), s1, w) /\ slen b = 0 /\
                sl_elems (items s1) a = abs s.
Proof. exact (make_contiguous_then_single_slice). Qed.
Print Assumptions C07_single_slice_after_make_contiguous.

Theorem C07_as_mut_slices_distinct :
  forall ws s w a b s' w',
  WF s -> exec (OAsMutSlicesSet ws) s w = (Ok (OutSlices a b), s', w') ->
  map fst (a ++ b) = map (phys s) (zseq 0 (Z.to_nat (size s))) /\
  NoDup (map fst (a ++ b)) /\ map snd (a ++ b) = abs s.
Proof. exact (as_mut_slices_slots_distinct). Qed.
Print Assumptions C07_as_mut_slices_distinct.

Theorem C07_iter_mut_distinct :
  forall script s w rs s' w',
  WF s -> exec (OIterMut script) s w = (Ok (OutScript rs), s', w') ->
  NoDup (slots_of rs) /\ incl (slots_of rs) (map (phys s) (zseq 0 (Z.to_nat (size s)))).
Proof. exact (iter_mut_slots_distinct). Qed.
Print Assumptions C07_iter_mut_distinct.
