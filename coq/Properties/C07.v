(* C07 — all views of the contents agree; mutable views alias exactly those
   elements. Each accessor refines its list-level specification on [abs s]
   (nth_error / hd / last, None or the documented panic outside [0, len));
   the *_set operations write through the mutable reference and change
   exactly that position (set_nth). *)
From CB Require Import Spec.
From CBP Require Import RefDefs Access Views.
Theorem C07_get : forall i, refines_op (OGet i).
Proof. exact get_op. Qed.
Print Assumptions C07_get.
Theorem C07_nth_front : forall i, refines_op (ONthFront i).
Proof. exact nth_front_op. Qed.
Print Assumptions C07_nth_front.
Theorem C07_nth_back : forall i, refines_op (ONthBack i).
Proof. exact nth_back_op. Qed.
Print Assumptions C07_nth_back.
Theorem C07_front : refines_op OFront.
Proof. exact front_op. Qed.
Print Assumptions C07_front.
Theorem C07_back : refines_op OBack.
Proof. exact back_op. Qed.
Print Assumptions C07_back.
Theorem C07_index : forall i, refines_op (OIndex i).
Proof. exact index_op. Qed.
Print Assumptions C07_index.
Theorem C07_get_mut : forall i v, refines_op (OGetMutSet i v).
Proof. exact get_mut_set_op. Qed.
Print Assumptions C07_get_mut.
Theorem C07_nth_front_mut : forall i v, refines_op (ONthFrontMutSet i v).
Proof. exact nth_front_mut_set_op. Qed.
Print Assumptions C07_nth_front_mut.
Theorem C07_nth_back_mut : forall i v, refines_op (ONthBackMutSet i v).
Proof. exact nth_back_mut_set_op. Qed.
Print Assumptions C07_nth_back_mut.
Theorem C07_front_mut : forall v, refines_op (OFrontMutSet v).
Proof. exact front_mut_set_op. Qed.
Print Assumptions C07_front_mut.
Theorem C07_back_mut : forall v, refines_op (OBackMutSet v).
Proof. exact back_mut_set_op. Qed.
Print Assumptions C07_back_mut.
Theorem C07_index_mut : forall i v, refines_op (OIndexMutSet i v).
Proof. exact index_mut_set_op. Qed.
Print Assumptions C07_index_mut.
Theorem C07_as_slices : refines_op OAsSlices.
Proof. exact as_slices_op. Qed.
Print Assumptions C07_as_slices.
Theorem C07_as_mut_slices : forall ws, refines_op (OAsMutSlicesSet ws).
Proof. exact as_mut_slices_set_op. Qed.
Print Assumptions C07_as_mut_slices.
Theorem C07_make_contiguous : forall ws, refines_op (OMakeContiguous ws).
Proof. exact make_contiguous_op. Qed.
Print Assumptions C07_make_contiguous.
