(* C08 — borrowing and owning iterators obey the double-ended exact-size
   protocol: for every script over next / next_back / len / clone (and writes
   through IterMut), iter, range, iter_mut, range_mut and into_iter give the
   results of [spec_script]: the selected window of [abs s] consumed from both
   ends, each element exactly once, None forever after, len = what is left, a
   clone continuing independently. Ranges go through translate_range_bounds,
   advance_front_by, advance_back_by and slice_take without a bounds panic.
   (&buf).into_iter() is buf.iter(); Iter::default() and IterMut::default()
   are iterators over the empty window (None forever, len 0, nothing written).
   This file only pins statements; proofs are in coq/proofs/. *)
From CB Require Import Spec Unstable.
From Coq Require Import Permutation.
From CBP Require Import Step RefDefs C02Lemmas Arith AbsLemmas AllOps FaultDefs FaultPrims FaultDropA FaultDropB FaultUser
     Iters DrainP ExtendIo CmpHash Ctors PhysMoves MoreOps UnstableEq Access Views RefTruncate FillExtend FaultFrame SpecCorollaries ValueCorollaries FaultGeneric FaultHistory FaultConserve FaultDebugOps ContigAfter.


Theorem C08_iter :
  forall script, refines_op (OIter script).
Proof. exact (fun script => exec_refines (OIter script)). Qed.
Print Assumptions C08_iter.

Theorem C08_range :
  forall sb eb script, refines_op (ORange sb eb script).
Proof. exact (fun sb eb script => exec_refines (ORange sb eb script)). Qed.
Print Assumptions C08_range.

Theorem C08_iter_mut :
  forall script, refines_op (OIterMut script).
Proof. exact (fun script => exec_refines (OIterMut script)). Qed.
Print Assumptions C08_iter_mut.

Theorem C08_range_mut :
  forall sb eb script, refines_op (ORangeMut sb eb script).
Proof. exact (fun sb eb script => exec_refines (ORangeMut sb eb script)). Qed.
Print Assumptions C08_range_mut.

Theorem C08_into_iter :
  forall script, refines_op (OIntoIter script).
Proof. exact (fun script => exec_refines (OIntoIter script)). Qed.
Print Assumptions C08_into_iter.

Theorem C08_iter_default :
  forall script, refines_op (OIterDefault script).
Proof. exact (fun script => exec_refines (OIterDefault script)). Qed.
Print Assumptions C08_iter_default.

Theorem C08_iter_mut_default :
  forall script, refines_op (OIterMutDefault script).
Proof. exact (fun script => exec_refines (OIterMutDefault script)). Qed.
Print Assumptions C08_iter_mut_default.

Theorem C08_ref_into_iter :
  forall script, refines_op (ORefIntoIter script).
Proof. exact (fun script => exec_refines (ORefIntoIter script)). Qed.
Print Assumptions C08_ref_into_iter.

Theorem C08_protocol :
  forall l lo hi sc rs l' lo' hi',
  (lo <= hi <= length l)%nat -> plain_script sc = true ->
  spec_script l lo hi sc = (rs, l', (lo', hi')) ->
  l' = l /\
  de_protocol (sublist lo hi l) sc rs /\
  lo' = (lo + length (front_items sc rs))%nat /\
  hi' = (hi - length (back_items sc rs))%nat /\
  (lo' <= hi')%nat /\
  sublist lo' hi' l = unyielded (sublist lo hi l) sc rs.
Proof. exact (script_protocol). Qed.
Print Assumptions C08_protocol.

Theorem C08_iter_protocol :
  forall s w sc v s' w',
  WF s -> fault w = None -> plain_script sc = true ->
  exec (OIter sc) s w = (Ok v, s', w') ->
  exists rs, v = OutScript rs /\ de_protocol (abs s) sc (map erase_sres rs) /\
             abs s' = abs s /\ log w' = log w.
Proof. exact (exec_iter_protocol). Qed.
Print Assumptions C08_iter_protocol.
