(* C09 — drain removes exactly the requested range and keeps the rest in
   order: for every capacity (0 included), layout, range-bounds form and script,
   [exec (ODrain sb eb script false)] (create, run the script, drop) yields the
   window of [abs s] consumed from both ends with exact len, leaves
   firstn a ++ skipn b, and destroys exactly the un-yielded drained elements,
   once each, in order.
   This file only pins statements; proofs are in coq/proofs/. *)
From CB Require Import Spec Unstable.
From Coq Require Import Permutation.
From CBP Require Import Step RefDefs C02Lemmas Arith AbsLemmas AllOps FaultDefs FaultPrims FaultDropA FaultDropB FaultUser
     Iters DrainP ExtendIo CmpHash Ctors PhysMoves UnstableEq Access Views RefTruncate FillExtend.


Theorem C09_drain_drop :
  forall sb eb script, refines_op (ODrain sb eb script false).
Proof. exact (drain_drop_op). Qed.
Print Assumptions C09_drain_drop.
