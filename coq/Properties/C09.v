(* C09 — drain removes exactly the requested range and keeps the rest in
   order: for every capacity (0 included), layout, range bounds and script,
   [exec (ODrain sb eb script false)] (create, run script, drop) yields the
   window of [abs s] consumed from both ends with exact len, leaves
   firstn a ++ skipn b, and destroys exactly the un-yielded drained elements,
   once each, in order (see spec_step in theories/Spec.v). *)
From CB Require Import Spec.
From CBP Require Import RefDefs DrainP.
Theorem C09_drain_drop : forall sb eb script, refines_op (ODrain sb eb script false).
Proof. exact drain_drop_op. Qed.
Print Assumptions C09_drain_drop.
