(* C09 — drain removes exactly the requested range and keeps the rest in
   order: for every capacity (0 included), layout, range-bounds form and script,
   [exec (ODrain sb eb script false)] (create, run the script, drop) yields the
   window of [abs s] consumed from both ends with exact len, leaves
   firstn a ++ skipn b, and destroys exactly the un-yielded drained elements,
   once each, in order.
   This file only pins statements; proofs are in coq/proofs/. *)
From CB Require Import Spec Unstable.
From Coq Require Import Permutation.
From CBP Require Import Step RefDefs C02Lemmas Arith AbsLemmas AllOps FaultDefs FaultPrims FaultDropA FaultDropB FaultUser
     Iters DrainP ExtendIo CmpHash Ctors PhysMoves MoreOps UnstableEq Access Views RefTruncate FillExtend FaultFrame SpecCorollaries ValueCorollaries FaultGeneric FaultHistory FaultConserve FaultDebugOps ContigAfter.


Theorem C09_drain_drop :
  forall sb eb script, refines_op (ODrain sb eb script false).
Proof. exact (drain_drop_op). Qed.
Print Assumptions C09_drain_drop.

Theorem C09_drain_debug :
  forall sb eb pre, refines_op (ODrainDebug sb eb pre).
Proof. exact (drain_debug_op). Qed.
Print Assumptions C09_drain_debug.

Theorem C09_drain_protocol :
  forall s w sb eb sc v s' w',
  WF s -> fault w = None -> bound_ok sb -> bound_ok eb ->
  exec (ODrain sb eb sc false) s w = (Ok v, s', w') ->
  exists a b rs,
    spec_bounds (size s) sb eb = Some (a, b) /\ v = OutScript rs /\
    let win := sublist (nat_of a) (nat_of b) (abs s) in
    let sc' := map plain_step sc in
    let rs' := map erase_sres rs in
    de_protocol win sc' rs' /\
    abs s' = firstn (nat_of a) (abs s) ++ skipn (nat_of b) (abs s) /\
    log w' = log w ++ drops (unyielded win sc' rs').
Proof. exact (exec_drain_protocol). Qed.
Print Assumptions C09_drain_protocol.
