(* C10 — leaking a drain is safe: after mem::forget at any point of any
   script the state is well formed, its contents (the model: none) are drawn
   from the original ones and disjoint from what was yielded, and no
   destructor ran; all later behaviour is that of a well-formed buffer. *)
From CB Require Import Spec.
From CBP Require Import RefDefs DrainP.
Theorem C10_drain_forget : forall sb eb script, refines_op (ODrain sb eb script true).
Proof. exact drain_forget_op. Qed.
Print Assumptions C10_drain_forget.
