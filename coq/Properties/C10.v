(* C10 — leaking a drain is safe: after mem::forget at any point of any
   script the state is well formed, its contents (the model: none) are drawn
   from the original ones and disjoint from what was yielded, no destructor ran;
   every later operation is covered by the theorems for well-formed states.
   This file only pins statements; proofs are in coq/proofs/. *)
From CB Require Import Spec Unstable.
From Coq Require Import Permutation.
From CBP Require Import Step RefDefs C02Lemmas Arith AbsLemmas AllOps FaultDefs FaultPrims FaultDropA FaultDropB FaultUser
     Iters DrainP ExtendIo CmpHash Ctors PhysMoves MoreOps UnstableEq Access Views RefTruncate FillExtend FaultFrame SpecCorollaries.


Theorem C10_drain_forget :
  forall sb eb script, refines_op (ODrain sb eb script true).
Proof. exact (drain_forget_op). Qed.
Print Assumptions C10_drain_forget.
