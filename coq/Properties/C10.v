(* C10 — leaking a drain is safe: after mem::forget at any point of any
   script the state is well formed, its contents (the model: none) are drawn
   from the original ones and disjoint from what was yielded, no destructor ran;
   every later operation is covered by the theorems for well-formed states.
   This file only pins statements; proofs are in coq/proofs/. *)
From CB Require Import Spec Unstable.
From Coq Require Import Permutation.
From CBP Require Import Step RefDefs C02Lemmas Arith AbsLemmas AllOps FaultDefs FaultPrims FaultDropA FaultDropB FaultUser
     Iters DrainP ExtendIo CmpHash Ctors PhysMoves MoreOps UnstableEq Access Views RefTruncate FillExtend FaultFrame SpecCorollaries ValueCorollaries FaultGeneric FaultHistory FaultConserve FaultDebugOps ContigAfter LedgerSpec.


Theorem C10_drain_forget :
  forall sb eb script, refines_op (ODrain sb eb script true).
Proof. exact (drain_forget_op). Qed.
Print Assumptions C10_drain_forget.

Theorem C10_then_any_history :
  forall ops s w,
  WF s -> fault w = None -> ops_ok s ops ->
  let '(rs, s', w') := run_history ops s w in
  let '(srs, l', evs, nid') := spec_history (cap s) (abs s) ops (next_id w) in
  results_ok ops srs rs /\ abs s' = l' /\ WF s' /\ cap s' = cap s /\ w' = wev w evs nid'.
Proof. exact (history_refines). Qed.
Print Assumptions C10_then_any_history.

Theorem C10_never_destroyed_twice :
  forall (s0 : cbuf) (w0 : world),
  WF s0 -> fault w0 = None -> NoDup (ids (abs s0)) ->
  (forall e, In e (abs s0) -> eid e < next_id w0) ->
  forall ops s w L,
  ledger_run s0 w0 ops s w L ->
  NoDup (ids (abs s ++ lg_caller L ++ lg_destroyed L)) /\
  Permutation (abs s ++ lg_caller L ++ lg_destroyed L) (lg_entered L) /\
  NoDup (ids (lg_entered L)).
Proof. exact (ledger_history exec_refines). Qed.
Print Assumptions C10_never_destroyed_twice.
