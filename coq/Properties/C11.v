(* C11 — operations panic exactly when documented and are otherwise total.
   [C11_total_or_documented]: on every well-formed state, for every operation
   and machine-value argument: the call returns normally iff the specification
   does not demand a panic; a panic is an assert!/expect of the crate and leaves
   the state untouched. Hence never an overflow, division by zero, slice bounds
   panic, failed debug assertion, unimplemented!(), out-of-array access, abort
   or fuel exhaustion (= termination), for any capacity < 2^64 including 0.
   [C11_which_panic] says exactly which calls the specification makes panic.
   This file only pins statements; proofs are in coq/proofs/. *)
From CB Require Import Spec Unstable.
From Coq Require Import Permutation.
From CBP Require Import Step RefDefs C02Lemmas Arith AbsLemmas AllOps FaultDefs FaultPrims FaultDropA FaultDropB FaultUser
     Iters DrainP ExtendIo CmpHash Ctors PhysMoves MoreOps UnstableEq Access Views RefTruncate FillExtend FaultFrame SpecCorollaries ValueCorollaries FaultGeneric FaultHistory FaultConserve FaultDebugOps ContigAfter.


Theorem C11_total_or_documented :
  forall o s w,
  WF s -> fault w = None -> op_ok s o ->
  match spec_step (cap s) (abs s) o (next_id w) with
  | SRet _ => exists v s' w', exec o s w = (Ok v, s', w') /\ WF s' /\ cap s' = cap s
  | SPanic => exists k, exec o s w = (Panic k, s, w) /\ (k = PAssert \/ k = PExpect)
  end.
Proof. exact (total_or_documented). Qed.
Print Assumptions C11_total_or_documented.

Theorem C11_which_panic :
  forall N l o nid,
  spec_step N l o nid = SPanic <->
  match o with
  | OSwap i j => (i <? zlen l) && (j <? zlen l) = false
  | OIndex i | OIndexMutSet i _ => (i <? zlen l) = false
  | ODrain sb eb _ _ | ORange sb eb _ | ORangeMut sb eb _
  | OIterDebug sb eb _ | OIterMutDebug sb eb _ | ODrainDebug sb eb _ =>
    spec_bounds (zlen l) sb eb = None
  | _ => False
  end.
Proof. exact (spec_panics_iff). Qed.
Print Assumptions C11_which_panic.
