(* C12 — constructors and conversions give the specified contents,
   independently owned: new, default and boxed are empty (the harness moves the
   result into place and destroys the old buffer; boxed allocates once, first);
   from an array / iterator keeps the last N
   elements (same identities) and destroys the rest once; clone, clone_from and
   to_vec make element-wise clones with fresh identities, source unchanged;
   into_iter yields the original elements in order.
   This file only pins statements; proofs are in coq/proofs/. *)
From CB Require Import Spec Unstable.
From Coq Require Import Permutation.
From CBP Require Import Step RefDefs C02Lemmas Arith AbsLemmas AllOps FaultDefs FaultPrims FaultDropA FaultDropB FaultUser
     Iters DrainP ExtendIo CmpHash Ctors PhysMoves MoreOps UnstableEq Access Views RefTruncate FillExtend FaultFrame SpecCorollaries ValueCorollaries FaultGeneric FaultHistory FaultConserve FaultDebugOps ContigAfter.


Theorem C12_new :
  refines_op ONew.
Proof. exact (exec_refines (ONew)). Qed.
Print Assumptions C12_new.

Theorem C12_default :
  refines_op ODefault.
Proof. exact (exec_refines (ODefault)). Qed.
Print Assumptions C12_default.

Theorem C12_boxed :
  refines_op OBoxed.
Proof. exact (exec_refines (OBoxed)). Qed.
Print Assumptions C12_boxed.

Theorem C12_from_array :
  forall xs, refines_op (OFromArray xs).
Proof. exact (fun xs => exec_refines (OFromArray xs)). Qed.
Print Assumptions C12_from_array.

Theorem C12_from_iter :
  forall xs, refines_op (OFromIter xs).
Proof. exact (fun xs => exec_refines (OFromIter xs)). Qed.
Print Assumptions C12_from_iter.

Theorem C12_clone_then_drop :
  refines_op OCloneDropClone.
Proof. exact (exec_refines (OCloneDropClone)). Qed.
Print Assumptions C12_clone_then_drop.

Theorem C12_clone_then_keep :
  refines_op OCloneKeepClone.
Proof. exact (exec_refines (OCloneKeepClone)). Qed.
Print Assumptions C12_clone_then_keep.

Theorem C12_clone_from :
  forall other, refines_op (OCloneFrom other).
Proof. exact (fun other => exec_refines (OCloneFrom other)). Qed.
Print Assumptions C12_clone_from.

Theorem C12_to_vec :
  refines_op OToVec.
Proof. exact (exec_refines (OToVec)). Qed.
Print Assumptions C12_to_vec.

Theorem C12_into_iter :
  forall script, refines_op (OIntoIter script).
Proof. exact (fun script => exec_refines (OIntoIter script)). Qed.
Print Assumptions C12_into_iter.

Theorem C12_clone_shares_nothing :
  forall s w v s' w',
  WF s -> fault w = None -> allocated w (abs s) ->
  exec OCloneKeepClone s w = (Ok v, s', w') ->
  vals (abs s') = vals (abs s) /\ disjoint_ids (abs s') (abs s) /\ NoDup (ids (abs s')).
Proof. exact (clone_disjoint). Qed.
Print Assumptions C12_clone_shares_nothing.

Theorem C12_to_vec_shares_nothing :
  forall s w cs s' w',
  WF s -> fault w = None -> allocated w (abs s) ->
  exec OToVec s w = (Ok (OutList cs), s', w') ->
  vals cs = vals (abs s) /\ disjoint_ids cs (abs s) /\ NoDup (ids cs) /\ abs s' = abs s.
Proof. exact (to_vec_disjoint). Qed.
Print Assumptions C12_to_vec_shares_nothing.
