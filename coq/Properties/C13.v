(* C13 — equality, ordering, hashing and Debug depend only on the logical
   contents: the results and the element-level comparisons performed are those
   of [spec_eq] / [spec_cmp] on [abs a], [abs b] (any capacities, any layouts:
   the three-way segment alignment never goes out of bounds), hashing feeds the
   length then the elements of [abs a], Debug formats the elements of [abs a].
   Debug of an Iter / IterMut / Drain / IntoIter, after any script on it,
   formats exactly the elements it would still yield, front to back, and
   consumes nothing (the Drain / IntoIter then destroys them as usual).
   This file only pins statements; proofs are in coq/proofs/. *)
From CB Require Import Spec Unstable.
From Coq Require Import Permutation.
From CBP Require Import Step RefDefs C02Lemmas Arith AbsLemmas AllOps FaultDefs FaultPrims FaultDropA FaultDropB FaultUser
     Iters DrainP ExtendIo CmpHash Ctors PhysMoves MoreOps UnstableEq Access Views RefTruncate FillExtend FaultFrame SpecCorollaries.


Theorem C13_eq :
  forall other, refines_op (OEq other).
Proof. exact (fun other => exec_refines (OEq other)). Qed.
Print Assumptions C13_eq.

Theorem C13_eq_slice :
  forall form xs, refines_op (OEqSlice form xs).
Proof. exact (fun form xs => exec_refines (OEqSlice form xs)). Qed.
Print Assumptions C13_eq_slice.

Theorem C13_partial_cmp :
  forall other, refines_op (OPartialCmp other).
Proof. exact (fun other => exec_refines (OPartialCmp other)). Qed.
Print Assumptions C13_partial_cmp.

Theorem C13_cmp :
  forall other, refines_op (OCmp other).
Proof. exact (fun other => exec_refines (OCmp other)). Qed.
Print Assumptions C13_cmp.

Theorem C13_hash :
  refines_op OHash.
Proof. exact (exec_refines (OHash)). Qed.
Print Assumptions C13_hash.

Theorem C13_debug :
  refines_op ODebug.
Proof. exact (exec_refines (ODebug)). Qed.
Print Assumptions C13_debug.

Theorem C13_iter_debug :
  forall sb eb pre, refines_op (OIterDebug sb eb pre).
Proof. exact (fun sb eb pre => exec_refines (OIterDebug sb eb pre)). Qed.
Print Assumptions C13_iter_debug.

Theorem C13_iter_mut_debug :
  forall sb eb pre, refines_op (OIterMutDebug sb eb pre).
Proof. exact (fun sb eb pre => exec_refines (OIterMutDebug sb eb pre)). Qed.
Print Assumptions C13_iter_mut_debug.

Theorem C13_drain_debug :
  forall sb eb pre, refines_op (ODrainDebug sb eb pre).
Proof. exact (fun sb eb pre => exec_refines (ODrainDebug sb eb pre)). Qed.
Print Assumptions C13_drain_debug.

Theorem C13_into_iter_debug :
  forall pre, refines_op (OIntoIterDebug pre).
Proof. exact (fun pre => exec_refines (OIntoIterDebug pre)). Qed.
Print Assumptions C13_into_iter_debug.
