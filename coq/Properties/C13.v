(* C13 — equality, ordering, hashing and Debug depend only on the logical
   contents: the results and the element-level comparisons performed are those
   of [spec_eq] / [spec_cmp] on [abs a], [abs b] (any capacities, any layouts:
   the three-way segment alignment never goes out of bounds), hashing feeds the
   length then the elements of [abs a], Debug formats the elements of [abs a].
   The element type has one NaN-like value [nan_val]: it equals nothing (itself
   included) and is unordered against everything under partial_cmp, while
   Ord::cmp stays the total order on values; so a buffer containing it is not
   equal to itself (C13_nan_not_equal_to_itself: an "identical object =>
   equal" shortcut is excluded) and partial_cmp is [lex_partial].
   Debug of an Iter / IterMut / Drain / IntoIter, after any script on it,
   formats exactly the elements it would still yield, front to back, and
   consumes nothing (the Drain / IntoIter then destroys them as usual).
   This file only pins statements; proofs are in coq/proofs/. *)
From CB Require Import Spec Unstable.
From Coq Require Import Permutation.
From CBP Require Import Step RefDefs C02Lemmas Arith AbsLemmas AllOps FaultDefs FaultPrims FaultDropA FaultDropB FaultUser
     Iters DrainP ExtendIo CmpHash Ctors PhysMoves MoreOps UnstableEq Access Views RefTruncate FillExtend FaultFrame SpecCorollaries ValueCorollaries FaultGeneric FaultHistory FaultConserve FaultDebugOps ContigAfter.


Theorem C13_eq :
  forall other, refines_op (OEq other).
Proof. exact (fun other => exec_refines (OEq other)). Qed.
Print Assumptions C13_eq.

Theorem C13_eq_slice :
  forall form xs, refines_op (OEqSlice form xs).
Proof. exact (fun form xs => exec_refines (OEqSlice form xs)). Qed.
Print Assumptions C13_eq_slice.

Theorem C13_partial_cmp :
  forall other, refines_op (OPartialCmp other).
Proof. exact (fun other => exec_refines (OPartialCmp other)). Qed.
Print Assumptions C13_partial_cmp.

Theorem C13_cmp :
  forall other, refines_op (OCmp other).
Proof. exact (fun other => exec_refines (OCmp other)). Qed.
Print Assumptions C13_cmp.

Theorem C13_hash :
  refines_op OHash.
Proof. exact (exec_refines (OHash)). Qed.
Print Assumptions C13_hash.

Theorem C13_debug :
  refines_op ODebug.
Proof. exact (exec_refines (ODebug)). Qed.
Print Assumptions C13_debug.

Theorem C13_iter_debug :
  forall sb eb pre, refines_op (OIterDebug sb eb pre).
Proof. exact (fun sb eb pre => exec_refines (OIterDebug sb eb pre)). Qed.
Print Assumptions C13_iter_debug.

Theorem C13_iter_mut_debug :
  forall sb eb pre, refines_op (OIterMutDebug sb eb pre).
Proof. exact (fun sb eb pre => exec_refines (OIterMutDebug sb eb pre)). Qed.
Print Assumptions C13_iter_mut_debug.

Theorem C13_drain_debug :
  forall sb eb pre, refines_op (ODrainDebug sb eb pre).
Proof. exact (fun sb eb pre => exec_refines (ODrainDebug sb eb pre)). Qed.
Print Assumptions C13_drain_debug.

Theorem C13_into_iter_debug :
  forall pre, refines_op (OIntoIterDebug pre).
Proof. exact (fun pre => exec_refines (OIntoIterDebug pre)). Qed.
Print Assumptions C13_into_iter_debug.

Theorem C13_eq_iff_equal_sequences :
  forall a b w r a' w',
  WF a -> WF b -> fault w = None ->
  exec (OEq b) a w = (Ok (OutBool r), a', w') ->
  (r = true <-> vals (abs a) = vals (abs b) /\ ~ In nan_val (vals (abs a))) /\ abs a' = abs a.
Proof. exact (exec_eq_iff). Qed.
Print Assumptions C13_eq_iff_equal_sequences.

Theorem C13_eq_iff_equal_sequences_total :
  forall a b w r a' w',
  WF a -> WF b -> fault w = None -> ~ In nan_val (vals (abs a)) ->
  exec (OEq b) a w = (Ok (OutBool r), a', w') ->
  (r = true <-> vals (abs a) = vals (abs b)) /\ abs a' = abs a.
Proof. exact (exec_eq_iff_total). Qed.
Print Assumptions C13_eq_iff_equal_sequences_total.

Theorem C13_eq_slice_iff :
  forall form xs a w r a' w',
  WF a -> zlen xs < W -> fault w = None ->
  exec (OEqSlice form xs) a w = (Ok (OutBool r), a', w') ->
  (r = true <-> vals (abs a) = vals xs /\ ~ In nan_val (vals (abs a))) /\ abs a' = abs a.
Proof. exact (exec_eq_slice_iff). Qed.
Print Assumptions C13_eq_slice_iff.

Theorem C13_eq_slice_iff_total :
  forall form xs a w r a' w',
  WF a -> zlen xs < W -> fault w = None -> ~ In nan_val (vals (abs a)) ->
  exec (OEqSlice form xs) a w = (Ok (OutBool r), a', w') ->
  (r = true <-> vals (abs a) = vals xs) /\ abs a' = abs a.
Proof. exact (exec_eq_slice_iff_total). Qed.
Print Assumptions C13_eq_slice_iff_total.

Theorem C13_nan_not_equal_to_itself :
  forall a w,
  WF a -> fault w = None -> In nan_val (vals (abs a)) ->
  exists w', exec (OEq a) a w = (Ok (OutBool false), a, w').
Proof. exact (eq_self_nan). Qed.
Print Assumptions C13_nan_not_equal_to_itself.

Theorem C13_partial_ordering :
  forall a b w r a' w',
  WF a -> WF b -> fault w = None ->
  exec (OPartialCmp b) a w = (Ok (OutOrd r), a', w') ->
  r = lex_partial (vals (abs a)) (vals (abs b)) /\ abs a' = abs a.
Proof. exact (exec_cmp_partial). Qed.
Print Assumptions C13_partial_ordering.

Theorem C13_partial_ordering_undecided :
  forall a b w r a' w',
  WF a -> WF b -> fault w = None ->
  exec (OPartialCmp b) a w = (Ok (OutOrd r), a', w') ->
  (r = None <->
   exists p x xs' y ys', vals (abs a) = p ++ x :: xs' /\ vals (abs b) = p ++ y :: ys' /\
     ~ In nan_val p /\ (x = nan_val \/ y = nan_val)).
Proof. exact (exec_cmp_none). Qed.
Print Assumptions C13_partial_ordering_undecided.

Theorem C13_ordering_lexicographic :
  forall a b w r a' w',
  WF a -> WF b -> fault w = None ->
  ~ In nan_val (vals (abs a)) -> ~ In nan_val (vals (abs b)) ->
  exec (OPartialCmp b) a w = (Ok (OutOrd r), a', w') ->
  r = Some (lex_compare (vals (abs a)) (vals (abs b))) /\ abs a' = abs a.
Proof. exact (exec_cmp_lex). Qed.
Print Assumptions C13_ordering_lexicographic.

Theorem C13_total_ordering_lexicographic :
  forall a b w r a' w',
  WF a -> WF b -> cap b = cap a -> fault w = None ->
  exec (OCmp b) a w = (Ok (OutOrd r), a', w') ->
  r = Some (lex_compare (vals (abs a)) (vals (abs b))) /\ abs a' = abs a.
Proof. exact (exec_ord_cmp_lex). Qed.
Print Assumptions C13_total_ordering_lexicographic.

Theorem C13_nan_value :
  nan_val = 13.
Proof. exact (eq_refl). Qed.
Print Assumptions C13_nan_value.

Theorem C13_lex_partial_def :
  forall xs ys, lex_partial xs ys =
  match xs, ys with
  | [], [] => Some Eq
  | [], _ :: _ => Some Lt
  | _ :: _, [] => Some Gt
  | x :: xs', y :: ys' =>
    if (x =? nan_val) || (y =? nan_val) then None else
    match x ?= y with
    | Eq => lex_partial xs' ys'
    | c => Some c
    end
  end.
Proof. exact (fun xs ys => match xs, ys with [], [] | [], _ :: _ | _ :: _, [] | _ :: _, _ :: _ => eq_refl end). Qed.
Print Assumptions C13_lex_partial_def.

Theorem C13_equal_contents_hash_equally :
  forall a b w va a' wa vb b' wb,
  WF a -> WF b -> fault w = None -> abs a = abs b ->
  exec OHash a w = (Ok va, a', wa) -> exec OHash b w = (Ok vb, b', wb) ->
  log wa = log wb.
Proof. exact (exec_hash_same). Qed.
Print Assumptions C13_equal_contents_hash_equally.

Theorem C13_observers_layout_free :
  forall o a1 a2 w,
  observer o -> WF a1 -> WF a2 -> cap a1 = cap a2 -> abs a1 = abs a2 ->
  fault w = None -> op_ok a1 o ->
  fst (fst (exec o a1 w)) = fst (fst (exec o a2 w)) /\
  snd (exec o a1 w) = snd (exec o a2 w) /\
  exists v, fst (fst (exec o a1 w)) = Ok v.
Proof. exact (observers_layout_free). Qed.
Print Assumptions C13_observers_layout_free.
