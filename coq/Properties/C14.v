(* C14 — byte-stream I/O: write accepts everything and keeps the newest N
   bytes, read copies min(len) bytes from the front and removes them, fill_buf
   returns a non-empty prefix when non-empty, consume removes min(k, len); never
   an error or panic, any capacity including 0.
   This file only pins statements; proofs are in coq/proofs/. *)
From CB Require Import Spec Unstable.
From Coq Require Import Permutation.
From CBP Require Import Step RefDefs C02Lemmas Arith AbsLemmas AllOps FaultDefs FaultPrims FaultDropA FaultDropB FaultUser
     Iters DrainP ExtendIo CmpHash Ctors PhysMoves MoreOps UnstableEq Access Views RefTruncate FillExtend FaultFrame SpecCorollaries.


Theorem C14_write :
  forall src, refines_op (OWrite Std src).
Proof. exact (fun src => exec_refines (OWrite Std src)). Qed.
Print Assumptions C14_write.

Theorem C14_flush :
  refines_op (OFlush Std).
Proof. exact (exec_refines (OFlush Std)). Qed.
Print Assumptions C14_flush.

Theorem C14_read :
  forall dst, refines_op (ORead Std dst).
Proof. exact (fun dst => exec_refines (ORead Std dst)). Qed.
Print Assumptions C14_read.

Theorem C14_fill_buf :
  refines_op (OFillBuf Std).
Proof. exact (exec_refines (OFillBuf Std)). Qed.
Print Assumptions C14_fill_buf.

Theorem C14_consume :
  forall k, refines_op (OConsume Std k).
Proof. exact (fun k => exec_refines (OConsume Std k)). Qed.
Print Assumptions C14_consume.
