(* C14 — byte-stream I/O: write accepts everything and keeps the newest N
   bytes, read copies min(len) bytes from the front and removes them, fill_buf
   returns a non-empty prefix when non-empty, consume removes min(k, len); never
   an error or panic, any capacity including 0.
   This file only pins statements; proofs are in coq/proofs/. *)
From CB Require Import Spec Unstable.
From Coq Require Import Permutation.
From CBP Require Import Step RefDefs C02Lemmas Arith AbsLemmas AllOps FaultDefs FaultPrims FaultDropA FaultDropB FaultUser
     Iters DrainP ExtendIo CmpHash Ctors PhysMoves MoreOps UnstableEq Access Views RefTruncate FillExtend FaultFrame SpecCorollaries ValueCorollaries FaultGeneric FaultHistory FaultConserve FaultDebugOps ContigAfter.


Theorem C14_write :
  forall src, refines_op (OWrite Std src).
Proof. exact (fun src => exec_refines (OWrite Std src)). Qed.
Print Assumptions C14_write.

Theorem C14_flush :
  refines_op (OFlush Std).
Proof. exact (exec_refines (OFlush Std)). Qed.
Print Assumptions C14_flush.

Theorem C14_read :
  forall dst, refines_op (ORead Std dst).
Proof. exact (fun dst => exec_refines (ORead Std dst)). Qed.
Print Assumptions C14_read.

Theorem C14_fill_buf :
  refines_op (OFillBuf Std).
Proof. exact (exec_refines (OFillBuf Std)). Qed.
Print Assumptions C14_fill_buf.

Theorem C14_consume :
  forall k, refines_op (OConsume Std k).
Proof. exact (fun k => exec_refines (OConsume Std k)). Qed.
Print Assumptions C14_consume.

Theorem C14_write_keeps_newest :
  forall fam src s w v s' w',
  WF s -> fault w = None -> zlen src < W ->
  exec (OWrite fam src) s w = (Ok v, s', w') ->
  v = OutZ (zlen src) /\
  vals (abs s') = lastn (Z.to_nat (cap s)) (vals (abs s) ++ vals src) /\
  zlen (abs s') = Z.min (cap s) (zlen (abs s) + zlen src).
Proof. exact (exec_write_vals). Qed.
Print Assumptions C14_write_keeps_newest.

Theorem C14_read_from_front :
  forall fam dst s w n dst' s' w',
  WF s -> fault w = None -> zlen dst < W ->
  exec (ORead fam dst) s w = (Ok (OutRead n dst'), s', w') ->
  let k := Nat.min (length dst) (length (abs s)) in
  n = Z.of_nat k /\ dst' = firstn k (abs s) ++ skipn k dst /\ abs s' = skipn k (abs s).
Proof. exact (exec_read_vals). Qed.
Print Assumptions C14_read_from_front.

Theorem C14_fill_buf_prefix :
  forall fam s w p s' w',
  WF s -> fault w = None ->
  exec (OFillBuf fam) s w = (Ok (OutList p), s', w') ->
  (exists t, abs s = p ++ t) /\ (abs s <> [] -> p <> []) /\ abs s' = abs s /\ w' = w.
Proof. exact (exec_fill_buf_prefix). Qed.
Print Assumptions C14_fill_buf_prefix.

Theorem C14_consume_front :
  forall fam k s w v s' w',
  WF s -> fault w = None -> 0 <= k < W ->
  exec (OConsume fam k) s w = (Ok v, s', w') ->
  abs s' = skipn (Z.to_nat (Z.min k (zlen (abs s)))) (abs s).
Proof. exact (exec_consume_vals). Qed.
Print Assumptions C14_consume_front.

Theorem C14_never_fails :
  forall o s w,
  io_op o -> WF s -> fault w = None ->
  exists v s' w', exec o s w = (Ok v, s', w') /\ WF s' /\ cap s' = cap s.
Proof. exact (io_never_fails). Qed.
Print Assumptions C14_never_fails.
