(* C16 — the embedded-io and embedded-io-async impls behave exactly like the
   std::io impls: the three trait families are separate model definitions
   (mirroring separate source text) and are equal as functions; all of them
   refine the C14 specification. Never-Pending is observed by the harness (each
   future is polled once), not modelled.
   This file only pins statements; proofs are in coq/proofs/. *)
From CB Require Import Spec Unstable.
From Coq Require Import Permutation.
From CBP Require Import Step RefDefs C02Lemmas Arith AbsLemmas AllOps FaultDefs FaultPrims FaultDropA FaultDropB FaultUser
     Iters DrainP ExtendIo CmpHash Ctors PhysMoves MoreOps UnstableEq Access Views RefTruncate FillExtend FaultFrame SpecCorollaries ValueCorollaries FaultGeneric FaultHistory FaultConserve FaultDebugOps ContigAfter.


Theorem C16_eio_write_eq :
  eio_write = io_write.
Proof. exact (eio_write_eq). Qed.
Print Assumptions C16_eio_write_eq.

Theorem C16_eio_flush_eq :
  eio_flush = io_flush.
Proof. exact (eio_flush_eq). Qed.
Print Assumptions C16_eio_flush_eq.

Theorem C16_eio_read_eq :
  eio_read = io_read.
Proof. exact (eio_read_eq). Qed.
Print Assumptions C16_eio_read_eq.

Theorem C16_eio_fill_buf_eq :
  eio_fill_buf = io_fill_buf.
Proof. exact (eio_fill_buf_eq). Qed.
Print Assumptions C16_eio_fill_buf_eq.

Theorem C16_eio_consume_eq :
  eio_consume = io_consume.
Proof. exact (eio_consume_eq). Qed.
Print Assumptions C16_eio_consume_eq.

Theorem C16_aio_write_eq :
  aio_write = io_write.
Proof. exact (aio_write_eq). Qed.
Print Assumptions C16_aio_write_eq.

Theorem C16_aio_flush_eq :
  aio_flush = io_flush.
Proof. exact (aio_flush_eq). Qed.
Print Assumptions C16_aio_flush_eq.

Theorem C16_aio_read_eq :
  aio_read = io_read.
Proof. exact (aio_read_eq). Qed.
Print Assumptions C16_aio_read_eq.

Theorem C16_aio_fill_buf_eq :
  aio_fill_buf = io_fill_buf.
Proof. exact (aio_fill_buf_eq). Qed.
Print Assumptions C16_aio_fill_buf_eq.

Theorem C16_aio_consume_eq :
  aio_consume = io_consume.
Proof. exact (aio_consume_eq). Qed.
Print Assumptions C16_aio_consume_eq.

Theorem C16_write :
  forall fam src, refines_op (OWrite fam src).
Proof. exact (fun fam src => exec_refines (OWrite fam src)). Qed.
Print Assumptions C16_write.

Theorem C16_flush :
  forall fam, refines_op (OFlush fam).
Proof. exact (fun fam => exec_refines (OFlush fam)). Qed.
Print Assumptions C16_flush.

Theorem C16_read :
  forall fam dst, refines_op (ORead fam dst).
Proof. exact (fun fam dst => exec_refines (ORead fam dst)). Qed.
Print Assumptions C16_read.

Theorem C16_fill_buf :
  forall fam, refines_op (OFillBuf fam).
Proof. exact (fun fam => exec_refines (OFillBuf fam)). Qed.
Print Assumptions C16_fill_buf.

Theorem C16_consume :
  forall fam k, refines_op (OConsume fam k).
Proof. exact (fun fam k => exec_refines (OConsume fam k)). Qed.
Print Assumptions C16_consume.
