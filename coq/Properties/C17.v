(* C17 — no operation allocates, apart from to_vec and boxed: the capacity,
   hence the inline storage, never changes, and the only allocation events any
   returning call emits are the single one of to_vec on a non-empty buffer and
   the single one of boxed() (its Box). What decides the property on the
   real code is the allocation-counting correspondence and the no_std / alloc
   builds (see evidence); these theorems fix what the model predicts.
   This file only pins statements; proofs are in coq/proofs/. *)
From CB Require Import Spec Unstable.
From Coq Require Import Permutation.
From CBP Require Import Step RefDefs C02Lemmas Arith AbsLemmas AllOps FaultDefs FaultPrims FaultDropA FaultDropB FaultUser
     Iters DrainP ExtendIo CmpHash Ctors PhysMoves MoreOps UnstableEq Access Views RefTruncate FillExtend FaultFrame SpecCorollaries ValueCorollaries FaultGeneric FaultHistory FaultConserve FaultDebugOps ContigAfter.


Theorem C17_no_alloc :
  forall o s w v s' w',
  WF s -> fault w = None -> op_ok s o ->
  exec o s w = (Ok v, s', w') ->
  exists evs, log w' = log w ++ evs /\
    (o <> OToVec -> o <> OBoxed -> ~ In EvAlloc evs) /\ cap s' = cap s.
Proof. exact (exec_allocs). Qed.
Print Assumptions C17_no_alloc.

Theorem C17_alloc_only :
  forall N l o nid r,
  spec_step N l o nid = SRet r -> In EvAlloc (sr_evs r) -> o = OToVec \/ o = OBoxed.
Proof. exact (spec_alloc_only_to_vec). Qed.
Print Assumptions C17_alloc_only.

Theorem C17_boxed_allocs_once :
  forall s w v s' w',
  WF s -> fault w = None ->
  exec OBoxed s w = (Ok v, s', w') ->
  exists evs, log w' = log w ++ evs /\
    evs = EvAlloc :: drops (abs s) /\ count_occ event_eq_dec evs EvAlloc = 1%nat.
Proof. exact (exec_boxed_allocs). Qed.
Print Assumptions C17_boxed_allocs_once.

Theorem C17_to_vec_allocs_once :
  forall s w v s' w',
  WF s -> fault w = None ->
  exec OToVec s w = (Ok v, s', w') ->
  exists evs, log w' = log w ++ evs /\
    count_occ event_eq_dec evs EvAlloc = (if 0 <? size s then 1%nat else 0%nat).
Proof. exact (exec_to_vec_allocs). Qed.
Print Assumptions C17_to_vec_allocs_once.
