(* C18 — enabling the `unstable` feature does not change behaviour:
   theories/Unstable.v models every cfg(feature = "unstable") body; the whole
   API run through those bodies equals the stable model on every well-formed
   state, for every fault plan and build profile, and so for whole histories.
   This file only pins statements; proofs are in coq/proofs/. *)
From CB Require Import Spec Unstable.
From Coq Require Import Permutation.
From CBP Require Import Step RefDefs C02Lemmas Arith AbsLemmas AllOps FaultDefs FaultPrims FaultDropA FaultDropB FaultUser
     Iters DrainP ExtendIo CmpHash Ctors PhysMoves MoreOps UnstableEq Access Views RefTruncate FillExtend FaultFrame SpecCorollaries ValueCorollaries FaultGeneric FaultHistory FaultConserve FaultDebugOps ContigAfter.


Theorem C18_exec_unstable_eq :
  forall o s w, WF s -> exec_unstable o s w = exec o s w.
Proof. exact (exec_unstable_eq_WF). Qed.
Print Assumptions C18_exec_unstable_eq.

Theorem C18_exec_unstable_eq_cap :
  forall o s w, 0 <= cap s -> exec_unstable o s w = exec o s w.
Proof. exact (exec_unstable_eq). Qed.
Print Assumptions C18_exec_unstable_eq_cap.

Theorem C18_history :
  forall ops s w, caps_ok ops s w -> run_history_unstable ops s w = run_history ops s w.
Proof. exact (run_history_unstable_eq). Qed.
Print Assumptions C18_history.
