(* C19 — extreme capacities: position arithmetic is exact for every modulus
   up to usize::MAX, with no intermediate overflow, division by zero or failed
   debug assertion, in debug (dbg w = true) and release builds alike. *)
From CB Require Import Spec.
From CBP Require Import Arith.
Theorem C19_add_mod : forall x y m s w,
  0 < m < W -> 0 <= x <= m -> 0 <= y <= m ->
  add_mod x y m s w = (Ok ((x + y) mod m), s, w).
Proof. exact add_mod_ok. Qed.
Print Assumptions C19_add_mod.
Theorem C19_sub_mod : forall x y m s w,
  0 < m < W -> 0 <= x <= m -> 0 <= y <= m ->
  sub_mod x y m s w = (Ok ((x + (m - y)) mod m), s, w).
Proof. exact sub_mod_ok. Qed.
Print Assumptions C19_sub_mod.
