(* C19 — zero-sized elements and extreme capacities behave like any other.
   Position arithmetic is exact for every modulus up to usize::MAX, with no
   intermediate overflow, division by zero or failed debug assertion, in debug
   (dbg w = true) and release builds alike; and every theorem of this
   development quantifies over every capacity < 2^64 and never inspects the
   element type, so C01/C11 instantiate to usize::MAX and zero-sized elements.
   This file only pins statements; proofs are in coq/proofs/. *)
From CB Require Import Spec Unstable.
From Coq Require Import Permutation.
From CBP Require Import Step RefDefs C02Lemmas Arith AbsLemmas AllOps FaultDefs FaultPrims FaultDropA FaultDropB FaultUser
     Iters DrainP ExtendIo CmpHash Ctors PhysMoves MoreOps UnstableEq Access Views RefTruncate FillExtend FaultFrame SpecCorollaries ValueCorollaries FaultGeneric FaultHistory FaultConserve FaultDebugOps ContigAfter.


Theorem C19_add_mod :
  forall x y m s w,
  0 < m < W -> 0 <= x <= m -> 0 <= y <= m ->
  add_mod x y m s w = (Ok ((x + y) mod m), s, w).
Proof. exact (add_mod_ok). Qed.
Print Assumptions C19_add_mod.

Theorem C19_sub_mod :
  forall x y m s w,
  0 < m < W -> 0 <= x <= m -> 0 <= y <= m ->
  sub_mod x y m s w = (Ok ((x + (m - y)) mod m), s, w).
Proof. exact (sub_mod_ok). Qed.
Print Assumptions C19_sub_mod.

Theorem C19_all_capacities :
  forall o, refines_op o.
Proof. exact (exec_refines). Qed.
Print Assumptions C19_all_capacities.

Theorem C19_no_arith_panic :
  forall o s w,
  WF s -> fault w = None -> op_ok s o ->
  match spec_step (cap s) (abs s) o (next_id w) with
  | SRet _ => exists v s' w', exec o s w = (Ok v, s', w') /\ WF s' /\ cap s' = cap s
  | SPanic => exists k, exec o s w = (Panic k, s, w) /\ (k = PAssert \/ k = PExpect)
  end.
Proof. exact (total_or_documented). Qed.
Print Assumptions C19_no_arith_panic.
