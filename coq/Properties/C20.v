(* C20 — documented constant-time operations move O(1) elements.
   [relocated s s'] (proofs/PhysMoves.v): the logical positions of s whose
   element (by identity) is still in s' but in another physical slot.
   [moves_at_most o b]: for every returning call from a well-formed state of
   distinct elements, |relocated| <= b.
   This file only pins statements; proofs are in coq/proofs/. *)
From CB Require Import Spec Unstable.
From Coq Require Import Permutation.
From CBP Require Import Step RefDefs C02Lemmas Arith AbsLemmas AllOps FaultDefs FaultPrims FaultDropA FaultDropB FaultUser
     Iters DrainP ExtendIo CmpHash Ctors PhysMoves MoreOps UnstableEq Access Views RefTruncate FillExtend FaultFrame SpecCorollaries ValueCorollaries FaultGeneric FaultHistory FaultConserve FaultDebugOps ContigAfter.


Theorem C20_push_back :
  forall x, moves_at_most (OPushBack x) (fun _ => 2).
Proof. exact (push_back_moves). Qed.
Print Assumptions C20_push_back.

Theorem C20_push_front :
  forall x, moves_at_most (OPushFront x) (fun _ => 2).
Proof. exact (push_front_moves). Qed.
Print Assumptions C20_push_front.

Theorem C20_try_push_back :
  forall x, moves_at_most (OTryPushBack x) (fun _ => 2).
Proof. exact (try_push_back_moves). Qed.
Print Assumptions C20_try_push_back.

Theorem C20_try_push_front :
  forall x, moves_at_most (OTryPushFront x) (fun _ => 2).
Proof. exact (try_push_front_moves). Qed.
Print Assumptions C20_try_push_front.

Theorem C20_pop_back :
  moves_at_most (OPopBack) (fun _ => 2).
Proof. exact (pop_back_moves). Qed.
Print Assumptions C20_pop_back.

Theorem C20_pop_front :
  moves_at_most (OPopFront) (fun _ => 2).
Proof. exact (pop_front_moves). Qed.
Print Assumptions C20_pop_front.

Theorem C20_swap :
  forall i j, moves_at_most (OSwap i j) (fun _ => 2).
Proof. exact (swap_moves). Qed.
Print Assumptions C20_swap.

Theorem C20_swap_remove_back :
  forall i, moves_at_most (OSwapRemoveBack i) (fun _ => 2).
Proof. exact (swap_remove_back_moves). Qed.
Print Assumptions C20_swap_remove_back.

Theorem C20_swap_remove_front :
  forall i, moves_at_most (OSwapRemoveFront i) (fun _ => 2).
Proof. exact (swap_remove_front_moves). Qed.
Print Assumptions C20_swap_remove_front.

Theorem C20_get :
  forall i, moves_at_most (OGet i) (fun _ => 2).
Proof. exact (get_moves). Qed.
Print Assumptions C20_get.

Theorem C20_nth_front :
  forall i, moves_at_most (ONthFront i) (fun _ => 2).
Proof. exact (nth_front_moves). Qed.
Print Assumptions C20_nth_front.

Theorem C20_nth_back :
  forall i, moves_at_most (ONthBack i) (fun _ => 2).
Proof. exact (nth_back_moves). Qed.
Print Assumptions C20_nth_back.

Theorem C20_front :
  moves_at_most (OFront) (fun _ => 2).
Proof. exact (front_moves). Qed.
Print Assumptions C20_front.

Theorem C20_back :
  moves_at_most (OBack) (fun _ => 2).
Proof. exact (back_moves). Qed.
Print Assumptions C20_back.

Theorem C20_index :
  forall i, moves_at_most (OIndex i) (fun _ => 2).
Proof. exact (index_moves). Qed.
Print Assumptions C20_index.

Theorem C20_get_mut_set :
  forall i v, moves_at_most (OGetMutSet i v) (fun _ => 2).
Proof. exact (get_mut_set_moves). Qed.
Print Assumptions C20_get_mut_set.

Theorem C20_index_mut_set :
  forall i v, moves_at_most (OIndexMutSet i v) (fun _ => 2).
Proof. exact (index_mut_set_moves). Qed.
Print Assumptions C20_index_mut_set.

Theorem C20_front_mut_set :
  forall v, moves_at_most (OFrontMutSet v) (fun _ => 2).
Proof. exact (front_mut_set_moves). Qed.
Print Assumptions C20_front_mut_set.

Theorem C20_back_mut_set :
  forall v, moves_at_most (OBackMutSet v) (fun _ => 2).
Proof. exact (back_mut_set_moves). Qed.
Print Assumptions C20_back_mut_set.

Theorem C20_as_slices :
  moves_at_most (OAsSlices) (fun _ => 2).
Proof. exact (as_slices_moves). Qed.
Print Assumptions C20_as_slices.

Theorem C20_truncate_back :
  forall k, moves_at_most (OTruncateBack k) (fun _ => 2).
Proof. exact (truncate_back_moves). Qed.
Print Assumptions C20_truncate_back.

Theorem C20_truncate_front :
  forall k, moves_at_most (OTruncateFront k) (fun _ => 2).
Proof. exact (truncate_front_moves). Qed.
Print Assumptions C20_truncate_front.

Theorem C20_clear :
  moves_at_most (OClear) (fun _ => 2).
Proof. exact (clear_moves). Qed.
Print Assumptions C20_clear.

Theorem C20_remove :
  forall i, moves_at_most (ORemove i) (fun s => Z.max 0 (size s - i)).
Proof. exact (remove_moves). Qed.
Print Assumptions C20_remove.

Theorem C20_drain :
  forall sb eb script s w v s' w' a b,
  WF s -> op_ok s (ODrain sb eb script false) -> fault w = None ->
  NoDup (map eid (abs s ++ given (ODrain sb eb script false))) ->
  spec_bounds (size s) sb eb = Some (a, b) ->
  exec (ODrain sb eb script false) s w = (Ok v, s', w') ->
  zlen (relocated s s') <= size s - b.
Proof. exact (drain_moves). Qed.
Print Assumptions C20_drain.

Theorem C20_make_contiguous :
  forall s w v s' w',
  WF s -> op_ok s (OMakeContiguous []) -> fault w = None ->
  NoDup (map eid (abs s ++ given (OMakeContiguous []))) ->
  start s + size s <= cap s \/ size s = 0 ->
  exec (OMakeContiguous []) s w = (Ok v, s', w') ->
  relocated s s' = [].
Proof. exact (make_contiguous_moves). Qed.
Print Assumptions C20_make_contiguous.
