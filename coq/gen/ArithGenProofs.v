(* ArithGenProofs.v — the arithmetic theorems of proofs/Arith.v, re-checked on
   the definitions that tools/rs2coq_arith regenerates from src/lib.rs on every
   run (ArithGen.v: gen_add_mod, gen_sub_mod).

   This file is a template: it is never compiled in the tracked tree. The check
   (tools/c19arith.py) copies it next to the freshly generated ArithGen.v in a
   cache directory and compiles it there with
       coqc -Q coq/theories CB -Q coq/proofs CBP -Q <cachedir> CBG ArithGenProofs.v

   Two independent proof paths; the check passes when either compiles:

     path "eq"      the generated functions are the hand-written model functions
                    of theories/Buf.v (gen_*_eq), hence every theorem about the
                    model's add_mod / sub_mod — and about everything that calls
                    them — speaks about what the source says now;
     path "direct"  the proof of add_mod_ok / sub_mod_ok is replayed on the
                    generated definitions by a symbolic-execution tactic that
                    does not depend on the exact shape of the term.

   The markers (*@ ... *) delimit the parts; the check compiles common + eq and
   common + direct as two separate files, so that a failure of one path does
   not hide the other. On the unchanged source the file also compiles as a
   whole. *)

(*@ common *)
From CB Require Import Spec.
From CBP Require Import MonadLemmas Arith.
From CBG Require Import ArithGen.
From Coq Require Import ZifyBool.

(*@ eq *)
(* ---- path "eq": the generated term is the model's term ----------------- *)

(* second line of defence when the terms are not syntactically equal: open every
   machine operation and decide every test; both sides then compute the same
   triple, up to linear arithmetic on the value *)
Ltac eq_structural :=
  unfold bind, dassert, urem, uadd, usub, umul, ret, panic, overflowing_add,
         checked_add, checked_sub, b2z;
  repeat match goal with
         | |- context [if ?c then _ else _] =>
           let H := fresh "Hc" in
           destruct c eqn:H;
           try (exfalso; lia)
         | |- context [let '(_, _) := ?p in _] => destruct p
         end;
  first
    [ reflexivity
    | match goal with
      | |- (Ok ?a, ?s, ?w) = (Ok ?b, ?s, ?w) =>
        apply (f_equal (fun v => (Ok v, s, w)));
        first [ lia | f_equal; lia ]
      end ].

Lemma bind_ext {A B} (m : M A) (k k' : A -> M B) s w :
  (forall a s' w', k a s' w' = k' a s' w') -> bind m k s w = bind m k' s w.
Proof.
  intros H. unfold bind. destruct (m s w) as [[[a|p] s1] w1]; [apply H | reflexivity].
Qed.

Lemma gen_add_mod_eq : forall x y m s w, gen_add_mod x y m s w = add_mod x y m s w.
Proof.
  intros x y m s w.
  first
    [ reflexivity
    | unfold gen_add_mod, add_mod; reflexivity
    | unfold gen_add_mod, add_mod; destruct (overflowing_add x y); reflexivity
    | timeout 25 (unfold gen_add_mod, add_mod; eq_structural) ].
Qed.

Lemma gen_sub_mod_eq : forall x y m s w, gen_sub_mod x y m s w = sub_mod x y m s w.
Proof.
  intros x y m s w.
  first
    [ reflexivity
    | unfold gen_sub_mod, sub_mod; reflexivity
    | (* same sequence of operations, ending in a call of gen_add_mod *)
      unfold gen_sub_mod, sub_mod;
      repeat first [ apply gen_add_mod_eq | apply bind_ext; intros ];
      reflexivity
    | timeout 25 (unfold gen_sub_mod, sub_mod; rewrite ?gen_add_mod_eq;
                  unfold add_mod; eq_structural) ].
Qed.

Theorem gen_add_mod_ok : forall x y m s w,
  0 < m < W -> 0 <= x <= m -> 0 <= y <= m ->
  gen_add_mod x y m s w = (Ok ((x + y) mod m), s, w).
Proof. intros. rewrite gen_add_mod_eq. apply add_mod_ok; assumption. Qed.

Theorem gen_sub_mod_ok : forall x y m s w,
  0 < m < W -> 0 <= x <= m -> 0 <= y <= m ->
  gen_sub_mod x y m s w = (Ok ((x + (m - y)) mod m), s, w).
Proof. intros. rewrite gen_sub_mod_eq. apply sub_mod_ok; assumption. Qed.

Check gen_add_mod_eq.
Print Assumptions gen_add_mod_eq.
Check gen_sub_mod_eq.
Print Assumptions gen_sub_mod_eq.
Check gen_add_mod_ok.
Print Assumptions gen_add_mod_ok.
Check gen_sub_mod_ok.
Print Assumptions gen_sub_mod_ok.

(*@ direct *)
(* ---- path "direct": replay of proofs/Arith.v on the generated term ------ *)

(* the facts about usize::MAX % m on which the proof of add_mod_ok rests:
   W - 1 = m * q + r with 0 <= r < m and 1 <= q *)
Lemma max_rem_facts m :
  0 < m < W ->
  exists q r, (W - 1) mod m = r /\ W - 1 = m * q + r /\ 0 <= r < m /\ 1 <= q.
Proof.
  intros Hm. exists ((W - 1) / m), ((W - 1) mod m).
  split; [reflexivity|]. split; [apply Z.div_mod; lia|].
  split; [apply Z.mod_pos_bound; lia|]. apply Z.div_le_lower_bound; lia.
Qed.

Ltac side := solve [ lia | nia ].

(* run the first operation of a bind (or the last operation) under its
   no-panic condition *)
Ltac dstep :=
  first
    [ erewrite bind_ok by
        first [ apply dassert_ok; side | apply uadd_ok; side | apply usub_ok; side
              | apply umul_ok; side | apply urem_ok; side | reflexivity ]
    | rewrite urem_ok by side
    | rewrite uadd_ok by side
    | rewrite usub_ok by side
    | rewrite umul_ok by side ];
  cbv beta iota.

(* does a + b wrap around 2^64?  in whatever form the source asks:
   overflowing_add / checked_add (a test against W) or wrapping_add (mod W) *)
Ltac wrap_cases :=
  repeat match goal with
         | |- context [if ?a <? W then _ else _] =>
           let H := fresh "Hov" in destruct (a <? W) eqn:H
         | |- context [?a mod W] =>
           let H := fresh "Hov" in
           destruct (Z.ltb_spec a W) as [H|H];
           [ rewrite (Z.mod_small a W) by lia
           | replace (a mod W) with (a - W)
               by (apply Z.mod_unique with (q := 1); lia) ]
         end.

(* tests whose outcome follows from the hypotheses *)
Ltac decide_bools :=
  repeat match goal with
         | |- context [b2z ?c] =>
           lazymatch c with true => fail | false => fail | _ => idtac end;
           first [ replace c with true by (symmetry; lia)
                 | replace c with false by (symmetry; lia) ]
         | |- context [if ?c then _ else _] =>
           lazymatch c with true => fail | false => fail | _ => idtac end;
           first [ replace c with true by (symmetry; lia)
                 | replace c with false by (symmetry; lia) ]
         end.

(* E mod m = (x + y) mod m when E = x + y - k * m for the k at hand *)
Ltac mod_shift x y m q :=
  first
    [ side
    | f_equal; side
    | (* the source special-cases m = 1 *)
      assert (m = 1) as -> by lia; rewrite ?Z.mod_1_r; side
    | match goal with
      | |- ?E mod m = _ =>
        first [ replace E with (x + y + (- q) * m) by side
              | replace E with (x + y + (- 1) * m) by side
              | replace E with (x + y + 1 * m) by side
              | replace E with (x + y + q * m) by side ];
        apply Z.mod_add; lia
      end ].

Ltac add_mod_direct x y m :=
  let q := fresh "q" in let r := fresh "r" in
  let Hr := fresh "Hr" in let Hdm := fresh "Hdm" in
  let Hrb := fresh "Hrb" in let Hq := fresh "Hq" in
  match goal with
  | Hm : 0 < m < W |- _ =>
    destruct (max_rem_facts m Hm) as (q & r & Hr & Hdm & Hrb & Hq)
  end;
  unfold usize_max, overflowing_add, checked_add, checked_sub in *;
  wrap_cases;
  repeat first
    [ progress (cbv beta iota; cbn [b2z fst snd]; rewrite ?Hr)
    | dstep
    | rewrite bind_assoc
    | progress decide_bools
    | (* a test of the source that the hypotheses do not decide: both ways *)
      match goal with
      | |- context [if ?c then _ else _] =>
        let H := fresh "Hc" in destruct c eqn:H
      end ];
  cbv [ret];
  match goal with
  | |- (Ok ?a, ?s, ?w) = (Ok ?b, ?s, ?w) =>
    apply (f_equal (fun v => (Ok v, s, w)));
    mod_shift x y m q
  end.

Theorem gen_add_mod_ok_direct : forall x y m s w,
  0 < m < W -> 0 <= x <= m -> 0 <= y <= m ->
  gen_add_mod x y m s w = (Ok ((x + y) mod m), s, w).
Proof.
  intros x y m s w Hm Hx Hy. unfold gen_add_mod.
  timeout 40 (add_mod_direct x y m).
Qed.

Theorem gen_sub_mod_ok_direct : forall x y m s w,
  0 < m < W -> 0 <= x <= m -> 0 <= y <= m ->
  gen_sub_mod x y m s w = (Ok ((x + (m - y)) mod m), s, w).
Proof.
  intros x y m s w Hm Hx Hy. unfold gen_sub_mod.
  timeout 40
    (repeat first [ progress (cbv beta iota; cbn [b2z fst snd]) | dstep ];
     first
       [ (* the tail is a call of gen_add_mod *)
         rewrite gen_add_mod_ok_direct by lia;
         apply (f_equal (fun v => (Ok v, s, w))); f_equal; lia
       | (* add_mod was inlined by hand in the source *)
         unfold gen_add_mod;
         add_mod_direct x (m - y) m ]).
Qed.

Check gen_add_mod_ok_direct.
Print Assumptions gen_add_mod_ok_direct.
Check gen_sub_mod_ok_direct.
Print Assumptions gen_sub_mod_ok_direct.
