(* CoreGenProofs.v — the hand-written model of the crate (theories/Buf.v, Iter.v,
   Drain.v, Traits.v, Io.v) is the model that tools/rs2coq_core regenerates from the
   source text on every run (CoreGen.v: gen_add_mod, ..., gen_make_contiguous,
   gen_drop_range, gen_fill, gen_translate_range_bounds, gen_slice_take,
   gen_Iter_advance_back_by, ..., gen_Drain_drop, ..., gen_aio_consume).

   This file is a template: it is never compiled in the tracked tree. The check
   (tools/coregen.py) splits it at the markers (*@ ... *), and compiles, in a
   cache directory next to the freshly generated CoreGen.v,
       CGCommon.v       the part "common"  (tactics and frame lemmas; independent
                        of CoreGen.v)
       CG_<f>.v         Require of the CG_<g>.vo of the functions g that f calls
                        (and, among their callees, of the arithmetic functions and
                        of the functions with loops) + "prelude" + the section
                        "fn <f>", one file per translated function, so that a
                        failure names its function; a function is attempted when
                        the lemmas it imports exist
   with   coqc -Q coq/theories CB -Q <cachedir> CBG <file>.
   On the unchanged source the file also compiles as a whole (several minutes:
   every lemma is then a rewrite hint of every later proof).

   Every lemma is   gen_f args s w = f args s w   (or = ret (f args) s w where the
   model's f is a pure function) for all arguments, states and worlds: pointwise
   equality of the two state transformers, no functional extensionality, no
   axioms (each is followed by Print Assumptions). `&mut` parameters (an iterator,
   a `&mut &[T]`) are state-passing on both sides: the function takes the value and
   hands back the new one together with its result.

   How they are proved. Where the two terms are convertible, by reflexivity.
   Otherwise by symbolic execution (core_eq): the state and the world are split
   into their fields (and the records among the arguments into theirs), every
   definition of both sides is opened down to the machine operations, and then,
   repeatedly, the test on which the evaluation of either side is stuck is decided
   both ways (a test already decided is not decided again). uadd / usub / umul /
   add_mod / sub_mod are not opened: they leave state and world alone (frame
   lemmas, proved below once), so only their result is split into Ok / Panic.
   User code (drop_elem, drop_slice, clone_elem, call_closure) is not opened
   either: both sides run it in the same state, and its result is split. Every
   path ends in two closed triples (outcome, state, world), compared by
   reflexivity; when the two sides decided equivalent tests that are written
   differently (0 == self.size), the impossible combinations are closed by lia.
   No monad law is needed as a rewrite: bind, ret, finally, on_unwind and the
   accessors compute.

   The functions beyond the single-element core are first tried modularly
   (core_eq_mod): only gen_f and the model's f are opened; a call gen_g args s w
   is rewritten to g args s w by g's own lemma, and is then the same opaque
   computation on both sides. When the model is not built from the same calls,
   core_eq decides.

   A `while` loop is a Fixpoint on fuel on both sides; the generated one is
   identified with the model's by induction on the fuel (loop_eq), and callers
   rewrite with that lemma. *)

(*@ common *)
From CB Require Import Machine Buf Iter Drain Traits Io.
From Coq Require Import ZifyBool.
Open Scope Z_scope.

(* the result of a computation that neither reads (beyond cap and dbg) nor
   writes the state and the world *)
Definition pure_res {A} (m : M A) (n : Z) (d : bool) : outcome A :=
  fst (fst (m (mkB n 0 0 (fun _ => mkE 0 0)) (mkW d 0 [] None))).

(* the term on which the evaluation of t is stuck *)
Ltac cg_inner t :=
  lazymatch t with
  | match ?x with _ => _ end => cg_inner x
  | (match ?x with _ => _ end) _ _ => cg_inner x
  | (?a, _, _) => cg_inner a
  | _ => t
  end.

Ltac cg_is_stuck t :=
  lazymatch t with
  | match _ with _ => _ end => idtac
  | (match _ with _ => _ end) _ _ => idtac
  | (?a, _, _) => cg_is_stuck a
  end.

Ltac cg_rdx :=
  cbv beta iota zeta delta
    [ret cap size start items dbg next_id log fault fst snd soff slen
     it_right it_left d_buf_size d_rs d_re d_is d_ie c_len c_off].

(* the machine operations and the hand-written model, opened; not opened:
   uadd usub umul add_mod sub_mod (frame lemmas), the loops of the model
   (drain_fill_loop, fill_spare_loop, fill_spare_with_loop, wusc_loop: identified with
   the generated loops by induction on the fuel), the user code (drop_elem,
   drop_slice, drop_opt, clone_elem, call_closure: whatever they do, both sides do
   it in the same state) and the store functions s_write s_copy s_swap s_rotate_left *)
Ltac cg_open :=
  cbv beta iota zeta delta
    [bind ret panic get put get_cap get_size get_start set_size set_start set_items get_items
     dassert assert_ urem overflowing_add checked_add checked_sub b2z andb orb negb
     items_slice sl_range sl_split_at sl_index idx read_slot write_slot raw_copy empty_slice
     b_size b_start b_items cap size start items dbg next_id log fault soff slen fst snd
     len capacity is_empty is_full make_contiguous as_slices as_mut_slices
     front_maybe_uninit_mut front_maybe_uninit back_maybe_uninit back_maybe_uninit_mut
     get_maybe_uninit get_maybe_uninit_mut slices_uninit_mut inc_start dec_start inc_size dec_size
     back back_mut front front_mut get_ get_mut nth_front nth_front_mut nth_back nth_back_mut
     push_back try_push_back push_front try_push_front pop_back pop_front remove swap
     swap_remove_back swap_remove_front truncate_back truncate_front clear
     finally on_unwind drop_range fill fill_spare fill_with fill_spare_with drop_buf
     translate_range_bounds slice_take slice_take_mut slice_take_first slice_take_last
     slice_take_first_mut slice_take_last_mut iter_empty iter_new advance_front_by advance_back_by
     iter_over_range iter_next iter_next_back iter_len iter_clone iter_default
     iter_mut_new iter_mut_over_range iter_mut_empty iter_mut_default iter_mut_next iter_mut_next_back
     iter_mut_len into_iter_next into_iter_next_back into_iter_len into_iter_drop
     it_right it_left d_buf_size d_rs d_re d_is d_ie c_len c_off
     drain_over_range drain_read drain_as_slices drain_as_mut_slices drain_next drain_next_back
     range_len drain_len csp_new csp_as_ptr csp_available_len csp_add drain_drop
     index index_mut extend_from_slice new_buf default_buf ref_into_iter
     io_write io_flush io_read io_fill_buf io_consume eio_write eio_flush eio_read eio_fill_buf eio_consume
     aio_write aio_flush aio_read aio_fill_buf aio_consume].

(* ---- the capacity is a constant of the state: the computations that are never opened
   (user code, and the model's write_uninit_slice_cloned) leave it alone, so the state
   after them is a record with the same capacity and otherwise unknown fields ---------- *)
Definition keeps_cap {A} (m : M A) : Prop := forall s w, cap (snd (fst (m s w))) = cap s.

Lemma kc_split A (m : M A) : keeps_cap m ->
  forall s w, exists o sz st it w', m s w = (o, mkB (cap s) sz st it, w').
Proof.
  intros K s w. specialize (K s w). destruct (m s w) as [[o [c sz st it]] w'].
  cbn in K. subst. eauto 10.
Qed.

Lemma kc_ret A (a : A) : keeps_cap (ret a).
Proof. intros s w; reflexivity. Qed.
Lemma kc_panic A k : keeps_cap (@panic A k).
Proof. intros s w; reflexivity. Qed.
Lemma kc_bind A B (m : M A) (k : A -> M B) :
  keeps_cap m -> (forall a, keeps_cap (k a)) -> keeps_cap (bind m k).
Proof.
  intros Hm Hk s w. unfold bind. specialize (Hm s w).
  destruct (m s w) as [[[a|p] s'] w']; cbn in *; [rewrite Hk|]; assumption.
Qed.
Lemma kc_finally A (m : M A) c : keeps_cap m -> keeps_cap c -> keeps_cap (finally m c).
Proof.
  intros Hm Hc s w. unfold finally. specialize (Hm s w).
  destruct (m s w) as [[r s1] w1]; cbn in *. specialize (Hc s1 w1).
  destruct (c s1 w1) as [[[u|p] s2] w2]; cbn in *; [|destruct r]; cbn; congruence.
Qed.
Lemma kc_on_unwind A (m : M A) c : keeps_cap m -> keeps_cap c -> keeps_cap (on_unwind m c).
Proof.
  intros Hm Hc s w. unfold on_unwind. specialize (Hm s w).
  destruct (m s w) as [[[a|p] s1] w1]; cbn in *; [assumption|]. specialize (Hc s1 w1).
  destruct (c s1 w1) as [[[u|q] s2] w2]; cbn in *; congruence.
Qed.

Ltac kc_basic :=
  intros [c0 sz0 st0 it0] [d0 n0 l0 f0];
  cbv beta iota zeta delta
    [bind ret panic emit user_call fresh_id get_items set_items read_slot write_slot sl_index sl_range
     dassert assert_ w_log w_fault w_next b_items cap size start items dbg next_id log fault fst snd
     andb negb];
  repeat match goal with
         | |- context [match ?x with _ => _ end] =>
           lazymatch x with
           | context [match _ with _ => _ end] => fail
           | _ => destruct x
           end
         end; reflexivity.

Lemma kc_drop_elem e : keeps_cap (drop_elem e).
Proof. unfold drop_elem. kc_basic. Qed.
Lemma kc_drop_list es : keeps_cap (drop_list es).
Proof. induction es; cbn [drop_list]; [apply kc_ret | apply kc_finally; [apply kc_drop_elem | assumption]]. Qed.
Lemma kc_drop_slice sl : keeps_cap (drop_slice sl).
Proof. intros s w. unfold drop_slice, bind, get_items. apply kc_drop_list. Qed.
Lemma kc_drop_opt o : keeps_cap (drop_opt o).
Proof. destruct o; [apply kc_drop_elem | apply kc_ret]. Qed.
Lemma kc_clone_elem e : keeps_cap (clone_elem e).
Proof. unfold clone_elem. kc_basic. Qed.
Lemma kc_call_closure : keeps_cap call_closure.
Proof. unfold call_closure. kc_basic. Qed.
Lemma kc_sl_index sl i : keeps_cap (sl_index sl i).
Proof. unfold sl_index. kc_basic. Qed.
Lemma kc_sl_range sl a b : keeps_cap (sl_range sl a b).
Proof. unfold sl_range. kc_basic. Qed.
Lemma kc_write_slot p e : keeps_cap (write_slot p e).
Proof. kc_basic. Qed.
Lemma kc_dassert c : keeps_cap (dassert c).
Proof. kc_basic. Qed.
Lemma kc_wusc_loop dst src n : forall i, keeps_cap (wusc_loop dst src n i).
Proof.
  induction n; intro i; cbn [wusc_loop]; [apply kc_ret|].
  apply kc_bind; [|intro; apply IHn].
  apply kc_on_unwind.
  - apply kc_bind; [apply kc_sl_index|intro p].
    apply kc_bind; [destruct (nth_error src (Z.to_nat i)); [apply kc_ret|apply kc_panic]|intro e].
    apply kc_bind; [apply kc_clone_elem|intro c]. apply kc_write_slot.
  - apply kc_bind; [apply kc_sl_range|intro g; apply kc_drop_slice].
Qed.
Lemma kc_write_uninit_slice_cloned dst src : keeps_cap (write_uninit_slice_cloned dst src).
Proof. unfold write_uninit_slice_cloned. apply kc_bind; [apply kc_dassert|intro; apply kc_wusc_loop]. Qed.

Create HintDb cg_kc discriminated.
#[export] Hint Resolve kc_drop_elem kc_drop_list kc_drop_slice kc_drop_opt kc_clone_elem kc_call_closure
  kc_write_uninit_slice_cloned : cg_kc.

Ltac cg_kc_split c :=
  lazymatch c with
  | ?m ?s ?w =>
    let K := fresh "K" in
    assert (K : keeps_cap m) by (auto with cg_kc nocore);
    let E := fresh "E" in
    destruct (kc_split _ m K s w) as (? & ? & ? & ? & ? & E); rewrite E; clear K
  end.

(* ---- computations that leave the state (and the world) as they are: what they are run on is
   what comes out, so that a later read of the state sees what an earlier one saw -------------- *)
Definition reads_only {A} (m : M A) : Prop := forall s w, exists o, m s w = (o, s, w).
Definition keeps_state {A} (m : M A) : Prop := forall s w, exists o w', m s w = (o, s, w').

Lemma ks_ret A (a : A) : keeps_state (ret a).
Proof. intros s w; do 2 eexists; reflexivity. Qed.
Lemma ks_bind A B (m : M A) (k : A -> M B) :
  keeps_state m -> (forall a, keeps_state (k a)) -> keeps_state (bind m k).
Proof.
  intros Hm Hk s w. unfold bind. destruct (Hm s w) as (o & w' & E). rewrite E.
  destruct o as [a|p]; [apply Hk | do 2 eexists; reflexivity].
Qed.
Lemma ks_emit ev : keeps_state (emit ev).
Proof. intros s w; do 2 eexists; reflexivity. Qed.
Lemma ks_user_call k : keeps_state (user_call k).
Proof.
  intros s w. unfold user_call. destruct (fault w) as [[k' n]|]; [|do 2 eexists; reflexivity].
  destruct (fkind_eqb k k'); [destruct (n =? 0)|]; do 2 eexists; reflexivity.
Qed.
Lemma ks_list_eq_loop eqf : forall xs ys, keeps_state (list_eq_loop eqf xs ys).
Proof.
  induction xs as [|x xs IH]; intros [|y ys]; try apply ks_ret.
  cbn [list_eq_loop].
  apply ks_bind; [apply ks_emit|intros _].
  apply ks_bind; [apply ks_user_call|intros _].
  destruct (eqf x y); [apply IH|apply ks_ret].
Qed.
Lemma ks_slice_eq eqf xs ys : keeps_state (slice_eq eqf xs ys).
Proof.
  unfold slice_eq. destruct (zlen xs =? zlen ys); [apply ks_list_eq_loop|apply ks_ret].
Qed.

(* pointwise equal parts give pointwise equal wholes (no functional extensionality) *)
Lemma bind_ext A B (m m' : M A) (k k' : A -> M B) :
  (forall s w, m s w = m' s w) -> (forall a s w, k a s w = k' a s w) ->
  forall s w, bind m k s w = bind m' k' s w.
Proof.
  intros Hm Hk s w. unfold bind. rewrite Hm. destruct (m' s w) as [[[a|p] s'] w']; [apply Hk|reflexivity].
Qed.
Lemma on_unwind_ext A (m m' : M A) (c c' : M unit) :
  (forall s w, m s w = m' s w) -> (forall s w, c s w = c' s w) ->
  forall s w, on_unwind m c s w = on_unwind m' c' s w.
Proof.
  intros Hm Hc s w. unfold on_unwind. rewrite Hm. destruct (m' s w) as [[[a|p] s'] w']; [reflexivity|].
  rewrite Hc. reflexivity.
Qed.
Lemma with_buf_ext A (b : cbuf) (m m' : M A) :
  (forall s w, m s w = m' s w) -> forall s w, with_buf b m s w = with_buf b m' s w.
Proof. intros Hm s w. unfold with_buf. rewrite Hm. reflexivity. Qed.
Lemma cloned_for_each_ext (src : cbuf) (body body' : elem -> M unit) :
  (forall a s w, body a s w = body' a s w) ->
  forall fuel it s w, cloned_for_each fuel src it body s w = cloned_for_each fuel src it body' s w.
Proof.
  intros Hb fuel. induction fuel as [|fuel IH]; intros it s w; cbn [cloned_for_each]; [reflexivity|].
  destruct (iter_next it) as [it' [p|]]; [|reflexivity].
  apply bind_ext; [reflexivity|intros c s1 w1].
  apply bind_ext; [apply Hb|intros _ s2 w2; apply IH].
Qed.
Check bind_ext. Print Assumptions bind_ext.
Check on_unwind_ext. Print Assumptions on_unwind_ext.
Check with_buf_ext. Print Assumptions with_buf_ext.
Check cloned_for_each_ext. Print Assumptions cloned_for_each_ext.

Create HintDb cg_ks discriminated.
Create HintDb cg_ro discriminated.
#[export] Hint Resolve ks_slice_eq : cg_ks.

Ltac cg_ks_split c :=
  lazymatch c with
  | ?m ?s ?w =>
    first
      [ let K := fresh "K" in
        assert (K : reads_only m) by (auto with cg_ro nocore);
        let E := fresh "E" in
        destruct (K s w) as (? & E); rewrite E; clear K
      | let K := fresh "K" in
        assert (K : keeps_state m) by (auto with cg_ks nocore);
        let E := fresh "E" in
        destruct (K s w) as (? & ? & E); rewrite E; clear K ]
  end.

Check ks_slice_eq. Print Assumptions ks_slice_eq.
Check kc_split. Print Assumptions kc_split.
Check kc_write_uninit_slice_cloned. Print Assumptions kc_write_uninit_slice_cloned.

Create HintDb cg_eq discriminated.

Ltac cg_facts := idtac.      (* redefined after the frame lemmas *)

Ltac cg_split c :=
  lazymatch goal with
  | H : c = _ |- _ => rewrite H
  | _ => destruct c eqn:?; cg_facts
  end; cg_rdx.

Ltac cg_frame_rewrite c := fail.   (* redefined after the frame lemmas *)

(* an induction hypothesis about a loop (see loop_eq), where the evaluation reaches the loop *)
Ltac cg_ih_rewrite :=
  match goal with
  | IH : forall _, _ |- _ => rewrite IH
  end.

(* what is opened again in a term that a rewrite has just put there (redefined where needed) *)
Ltac cg_reopen := idtac.

Ltac cg_step_side t :=
  cg_is_stuck t;
  let c := cg_inner t in
  lazymatch type of c with
  | (outcome _ * cbuf * world)%type =>
    first [ cg_frame_rewrite c; cg_rdx
          | cg_ih_rewrite; cg_rdx
          | progress (autorewrite with cg_eq); cg_reopen; cg_rdx
          | lazymatch goal with H : c = _ |- _ => rewrite H end; cg_rdx
          | cg_ks_split c; cg_rdx
          | cg_kc_split c; cg_rdx
          | cg_split c ]
  | _ => cg_split c
  end.

Ltac cg_step :=
  lazymatch goal with
  | |- ?L = ?R => first [ cg_step_side L | cg_step_side R ]
  end.

Ltac cg_close :=
  first [ reflexivity
        | repeat match goal with u : unit |- _ => destruct u end; reflexivity
        | cg_ih_rewrite; reflexivity
        | progress (autorewrite with cg_eq); reflexivity
        | repeat match goal with
                 | x : iter |- _ => destruct x
                 | x : drain |- _ => destruct x
                 | x : csp |- _ => destruct x
                 | x : slice |- _ => destruct x
                 | x : (_ * _)%type |- _ => destruct x
                 end; reflexivity
        | exfalso; congruence
        | exfalso; lia
        | repeat f_equal; lia ].

Ltac cg_finish :=
  first [ cg_close
        | lazymatch goal with |- ?L = ?R => fail 1000 "the two sides differ on a path:" L "<>" R end ].

Ltac cg_run := tryif cg_step then cg_run else cg_finish.

(* the same, failing in a way that leaves room for another attempt *)
Ltac cg_run_soft := tryif cg_step then cg_run_soft else cg_close.

(* ---- frame lemmas: these operations leave state and world alone ---------- *)

Ltac cg_frame_tac :=
  intros;
  lazymatch goal with
  | s : cbuf, w : world |- _ =>
    destruct s as [cap0 size0 start0 items0]; destruct w as [dbg0 nid0 log0 fault0]
  end;
  unfold pure_res;
  cbv beta iota zeta delta
    [bind ret panic dassert urem uadd usub umul overflowing_add b2z andb orb negb fst snd dbg cap
     add_mod];
  cg_run.

Lemma uadd_frame x y s w : uadd x y s w = (pure_res (uadd x y) (cap s) (dbg w), s, w).
Proof. cg_frame_tac. Qed.
Lemma usub_frame x y s w : usub x y s w = (pure_res (usub x y) (cap s) (dbg w), s, w).
Proof. cg_frame_tac. Qed.
Lemma umul_frame x y s w : umul x y s w = (pure_res (umul x y) (cap s) (dbg w), s, w).
Proof. cg_frame_tac. Qed.
Lemma add_mod_frame x y m s w :
  add_mod x y m s w = (pure_res (add_mod x y m) (cap s) (dbg w), s, w).
Proof. cg_frame_tac. Qed.

Ltac cg_frame_rewrite c ::=
  lazymatch c with
  | uadd _ _ _ _ => rewrite uadd_frame
  | usub _ _ _ _ => rewrite usub_frame
  | umul _ _ _ _ => rewrite umul_frame
  | add_mod _ _ _ _ _ => rewrite add_mod_frame
  end.

Lemma sub_mod_frame x y m s w :
  sub_mod x y m s w = (pure_res (sub_mod x y m) (cap s) (dbg w), s, w).
Proof.
  intros. destruct s as [cap0 size0 start0 items0]; destruct w as [dbg0 nid0 log0 fault0].
  unfold pure_res, sub_mod.
  cbv beta iota zeta delta [bind ret panic dassert andb orb negb fst snd dbg cap].
  cg_run.
Qed.

Ltac cg_frame_rewrite c ::=
  lazymatch c with
  | uadd _ _ _ _ => rewrite uadd_frame
  | usub _ _ _ _ => rewrite usub_frame
  | umul _ _ _ _ => rewrite umul_frame
  | add_mod _ _ _ _ _ => rewrite add_mod_frame
  | sub_mod _ _ _ _ _ => rewrite sub_mod_frame
  end.

(* what a result of usub / uadd is (the frame lemmas forget it); used by lia where the two
   sides decided differently written tests *)
Lemma usub_val x y n d a : pure_res (usub x y) n d = Ok a -> a = x - y \/ (x < y /\ a = x - y + W).
Proof.
  unfold pure_res, usub; cbn. destruct (y <=? x) eqn:E; [|destruct d]; cbn; intro H; inversion H; lia.
Qed.
Lemma uadd_val x y n d a : pure_res (uadd x y) n d = Ok a -> a = x + y \/ (W <= x + y /\ a = x + y - W).
Proof.
  unfold pure_res, uadd; cbn. destruct (x + y <? W) eqn:E; [|destruct d]; cbn; intro H; inversion H; lia.
Qed.

Ltac cg_facts ::=
  try match goal with
      | H : pure_res (usub ?x ?y) ?n ?d = Ok ?a |- _ =>
        lazymatch goal with
        | _ : a = x - y \/ _ |- _ => fail
        | _ => pose proof (usub_val x y n d a H)
        end
      | H : pure_res (uadd ?x ?y) ?n ?d = Ok ?a |- _ =>
        lazymatch goal with
        | _ : a = x + y \/ _ |- _ => fail
        | _ => pose proof (uadd_val x y n d a H)
        end
      end.

Check uadd_frame. Print Assumptions uadd_frame.
Check usub_frame. Print Assumptions usub_frame.
Check umul_frame. Print Assumptions umul_frame.
Check add_mod_frame. Print Assumptions add_mod_frame.
Check sub_mod_frame. Print Assumptions sub_mod_frame.

(* the capacity is also left alone by the functions of the model that stay folded in the
   modular proof of extend_from_slice *)
Ltac kc_run cg_open_tac :=
  intros [cap0 size0 start0 items0] [dbg0 nid0 log0 fault0]; cg_open_tac;
  cbv beta iota zeta delta [cap fst snd];
  repeat (lazymatch goal with |- ?L = _ => cg_step_side L end);
  reflexivity.
Lemma kc_truncate_front k : keeps_cap (truncate_front k).
Proof. kc_run cg_open. Qed.
Lemma kc_clear : keeps_cap clear.
Proof. kc_run cg_open. Qed.
Lemma kc_slices_uninit_mut : keeps_cap slices_uninit_mut.
Proof. kc_run cg_open. Qed.
#[export] Hint Resolve kc_truncate_front kc_clear kc_slices_uninit_mut : cg_kc.

(* the functions of the model that only read, and stay folded in the proofs about the trait impls *)
Ltac ro_run cg_open_tac :=
  intros [cap0 size0 start0 items0] [dbg0 nid0 log0 fault0];
  repeat match goal with x : drain |- _ => destruct x end;
  cg_open_tac;
  repeat (lazymatch goal with |- exists o, ?L = _ => cg_step_side L end);
  eexists; reflexivity.
Lemma ro_as_slices : reads_only as_slices.
Proof. ro_run cg_open. Qed.
Lemma ro_drain_as_slices d : reads_only (drain_as_slices d).
Proof. ro_run cg_open. Qed.
#[export] Hint Resolve ro_as_slices ro_drain_as_slices : cg_ro.
Check ro_as_slices. Print Assumptions ro_as_slices.
Check ro_drain_as_slices. Print Assumptions ro_drain_as_slices.

(*@ prelude *)
(* in the whole-file build the common part is above; in the split build it is
   the compiled CGCommon.v *)
From CB Require Import Machine Buf Iter Drain Traits Io.
From Coq Require Import ZifyBool.
From CBG Require Import CoreGen.
Open Scope Z_scope.

(* gen_f = f for every argument, state and world. [coregen_unfold] (generated,
   at the end of CoreGen.v) opens every gen_ definition except the two
   arithmetic ones, which are rewritten to the model's (Hint Rewrite ... :
   cg_eq in their sections) when the evaluation reaches them. *)
(* a hypothesis about the capacity of the state (0 <= cap s), once the state is split *)
Ltac cg_state_hyps :=
  repeat match goal with
         | H : context [cap (mkB _ _ _ _)] |- _ => progress cbn [cap] in H
         end.

Ltac cg_records :=
  repeat match goal with
         | x : iter |- _ => destruct x
         | x : drain |- _ => destruct x
         | x : csp |- _ => destruct x
         | x : slice |- _ => destruct x
         end.

Ltac core_eq :=
  intros;
  first
    [ reflexivity
    | lazymatch goal with
      | s : cbuf, w : world |- _ =>
        destruct s as [cap0 size0 start0 items0]; destruct w as [dbg0 nid0 log0 fault0]
      end;
      cg_state_hyps;
      cg_records;
      timeout 200 (coregen_unfold; cg_open; cg_run) ].

(* a generated loop is the loop of the model: by induction on the fuel; one step of
   each is opened, the rest is core_eq with the induction hypothesis *)
Ltac loop_eq g h :=
  let f := fresh "fuel" in let IH := fresh "IH" in
  intro f; induction f as [|f IH]; intros;
  lazymatch goal with
  | s : cbuf, w : world |- _ =>
    destruct s as [cap0 size0 start0 items0]; destruct w as [dbg0 nid0 log0 fault0]
  end;
  cg_records;
  cbn [g h];
  timeout 200 (coregen_unfold; cg_open; cg_run).

(* the same, but the functions gen_f calls are not opened: where the evaluation reaches
   gen_g args s w it is rewritten to g args s w (g's own lemma, imported from g's file),
   the model's f is opened alone, and the call of g is then the same opaque computation on
   both sides. When the model of f is not built from the same calls this fails and core_eq
   (everything opened) decides. g: gen_f, h: the model's f. *)
Ltac cg_open_one h :=
  cbv beta iota zeta delta
    [bind ret panic get put get_cap get_size get_start set_size set_start set_items get_items
     dassert assert_ urem overflowing_add checked_add checked_sub b2z andb orb negb
     items_slice sl_range sl_split_at sl_index idx read_slot write_slot raw_copy empty_slice
     b_size b_start b_items cap size start items dbg next_id log fault soff slen fst snd
     finally on_unwind it_right it_left d_buf_size d_rs d_re d_is d_ie c_len c_off
     gen_mem_replace gen_swap_nonoverlapping gen_rotate_left gen_range_next gen_range_next_back
     gen_range_len range_len gen_split_first gen_split_last gen_repr_guard gen_bounds_check h].

Ltac core_eq_mod g h :=
  intros;
  first
    [ reflexivity
    | lazymatch goal with
      | s : cbuf, w : world |- _ =>
        destruct s as [cap0 size0 start0 items0]; destruct w as [dbg0 nid0 log0 fault0]
      end;
      cg_state_hyps;
      cg_records;
      first [ unfold g; progress (autorewrite with cg_eq); reflexivity
            | timeout 100 (unfold g; cg_open_one h; cg_run_soft) ]
    | core_eq ].

(* the trait impls (comparison, hashing, formatting): gen_f and the model's f are opened, together
   with the small functions in between (len, iter, Iter::new, ...); as_slices / drain_as_slices stay
   folded (a call gen_as_slices s w is rewritten to as_slices s w by its own lemma; they only read:
   reads_only), and so do the loops of Traits.v (slice_eq, which keeps the state; iter_for_each and
   iter_cmp_loop, which both sides apply to the same arguments at the end). gs: gen_f and the
   generated functions between it and the folded ones; hs: the model's. *)
Ltac cg_open_traits :=
  cbv beta iota zeta delta
    [bind ret panic get put get_cap get_size get_start set_size set_start set_items get_items
     dassert assert_ urem overflowing_add checked_add checked_sub b2z andb orb negb
     items_slice sl_range sl_split_at sl_index idx read_slot write_slot raw_copy empty_slice
     b_size b_start b_items cap size start items dbg next_id log fault soff slen fst snd
     finally on_unwind with_buf it_right it_left d_buf_size d_rs d_re d_is d_ie c_len c_off
     gen_bounds_check and_then sl_to sl_from emit w_log
     len iter_new iter_clone ref_into_iter
     buf_eq buf_eq_slice buf_eq_array buf_eq_slice_ref buf_eq_slice_mut buf_eq_array_ref buf_eq_array_mut
     buf_partial_cmp buf_cmp buf_hash buf_fmt iter_fmt iter_mut_fmt drain_fmt into_iter_fmt].
Ltac cg_reopen ::= cbv beta iota zeta delta [len iter_new iter_clone ref_into_iter get_size bind ret].
Ltac traits_eq gs :=
  intros;
  repeat match goal with x : cbuf |- _ => destruct x as [? ? ? ?] end;
  lazymatch goal with w : world |- _ => destruct w as [dbg0 nid0 log0 fault0] end;
  cg_records;
  timeout 300 (gs; cg_open_traits; cg_run).

Ltac body_eq :=
  intros;
  first [ reflexivity
        | unfold push_back_discard; cbv beta delta [bind]; autorewrite with cg_eq; reflexivity
        | unfold push_back_discard; core_eq ].
(*@ fn add_mod *)
Lemma gen_add_mod_eq : forall x y m s w, gen_add_mod x y m s w = add_mod x y m s w.
Proof.
  intros; first
    [ reflexivity
    | destruct s as [cap0 size0 start0 items0]; destruct w as [dbg0 nid0 log0 fault0];
      unfold gen_add_mod, add_mod;
      timeout 200 (cbv beta iota zeta delta
        [bind ret panic dassert urem overflowing_add checked_add checked_sub b2z andb orb negb
         fst snd dbg cap]; cg_run) ].
Qed.
#[export] Hint Rewrite gen_add_mod_eq : cg_eq.
Check gen_add_mod_eq.
Print Assumptions gen_add_mod_eq.

(*@ fn sub_mod *)
Lemma gen_sub_mod_eq : forall x y m s w, gen_sub_mod x y m s w = sub_mod x y m s w.
Proof.
  intros; first
    [ reflexivity
    | destruct s as [cap0 size0 start0 items0]; destruct w as [dbg0 nid0 log0 fault0];
      unfold gen_sub_mod, sub_mod;
      timeout 200 (cbv beta iota zeta delta
        [bind ret panic dassert urem overflowing_add checked_add checked_sub b2z andb orb negb
         fst snd dbg cap]; cg_run) ].
Qed.
#[export] Hint Rewrite gen_sub_mod_eq : cg_eq.
Check gen_sub_mod_eq.
Print Assumptions gen_sub_mod_eq.

(*@ fn len *)
Lemma gen_len_eq : forall s w, gen_len s w = len s w.
Proof. core_eq. Qed.
#[export] Hint Rewrite gen_len_eq : cg_eq.
Check gen_len_eq.
Print Assumptions gen_len_eq.

(*@ fn capacity *)
Lemma gen_capacity_eq : forall s w, gen_capacity s w = capacity s w.
Proof. core_eq. Qed.
#[export] Hint Rewrite gen_capacity_eq : cg_eq.
Check gen_capacity_eq.
Print Assumptions gen_capacity_eq.

(*@ fn is_empty *)
Lemma gen_is_empty_eq : forall s w, gen_is_empty s w = is_empty s w.
Proof. core_eq. Qed.
#[export] Hint Rewrite gen_is_empty_eq : cg_eq.
Check gen_is_empty_eq.
Print Assumptions gen_is_empty_eq.

(*@ fn is_full *)
Lemma gen_is_full_eq : forall s w, gen_is_full s w = is_full s w.
Proof. core_eq. Qed.
#[export] Hint Rewrite gen_is_full_eq : cg_eq.
Check gen_is_full_eq.
Print Assumptions gen_is_full_eq.

(*@ fn inc_start *)
Lemma gen_inc_start_eq : forall s w, gen_inc_start s w = inc_start s w.
Proof. core_eq. Qed.
#[export] Hint Rewrite gen_inc_start_eq : cg_eq.
Check gen_inc_start_eq.
Print Assumptions gen_inc_start_eq.

(*@ fn dec_start *)
Lemma gen_dec_start_eq : forall s w, gen_dec_start s w = dec_start s w.
Proof. core_eq. Qed.
#[export] Hint Rewrite gen_dec_start_eq : cg_eq.
Check gen_dec_start_eq.
Print Assumptions gen_dec_start_eq.

(*@ fn inc_size *)
Lemma gen_inc_size_eq : forall s w, gen_inc_size s w = inc_size s w.
Proof. core_eq. Qed.
#[export] Hint Rewrite gen_inc_size_eq : cg_eq.
Check gen_inc_size_eq.
Print Assumptions gen_inc_size_eq.

(*@ fn dec_size *)
Lemma gen_dec_size_eq : forall s w, gen_dec_size s w = dec_size s w.
Proof. core_eq. Qed.
#[export] Hint Rewrite gen_dec_size_eq : cg_eq.
Check gen_dec_size_eq.
Print Assumptions gen_dec_size_eq.

(*@ fn front_maybe_uninit *)
Lemma gen_front_maybe_uninit_eq : forall s w, gen_front_maybe_uninit s w = front_maybe_uninit s w.
Proof. core_eq. Qed.
#[export] Hint Rewrite gen_front_maybe_uninit_eq : cg_eq.
Check gen_front_maybe_uninit_eq.
Print Assumptions gen_front_maybe_uninit_eq.

(*@ fn front_maybe_uninit_mut *)
Lemma gen_front_maybe_uninit_mut_eq : forall s w, gen_front_maybe_uninit_mut s w = front_maybe_uninit_mut s w.
Proof. core_eq. Qed.
#[export] Hint Rewrite gen_front_maybe_uninit_mut_eq : cg_eq.
Check gen_front_maybe_uninit_mut_eq.
Print Assumptions gen_front_maybe_uninit_mut_eq.

(*@ fn back_maybe_uninit *)
Lemma gen_back_maybe_uninit_eq : forall s w, gen_back_maybe_uninit s w = back_maybe_uninit s w.
Proof. core_eq. Qed.
#[export] Hint Rewrite gen_back_maybe_uninit_eq : cg_eq.
Check gen_back_maybe_uninit_eq.
Print Assumptions gen_back_maybe_uninit_eq.

(*@ fn back_maybe_uninit_mut *)
Lemma gen_back_maybe_uninit_mut_eq : forall s w, gen_back_maybe_uninit_mut s w = back_maybe_uninit_mut s w.
Proof. core_eq. Qed.
#[export] Hint Rewrite gen_back_maybe_uninit_mut_eq : cg_eq.
Check gen_back_maybe_uninit_mut_eq.
Print Assumptions gen_back_maybe_uninit_mut_eq.

(*@ fn get_maybe_uninit *)
Lemma gen_get_maybe_uninit_eq : forall index s w, gen_get_maybe_uninit index s w = get_maybe_uninit index s w.
Proof. core_eq. Qed.
#[export] Hint Rewrite gen_get_maybe_uninit_eq : cg_eq.
Check gen_get_maybe_uninit_eq.
Print Assumptions gen_get_maybe_uninit_eq.

(*@ fn get_maybe_uninit_mut *)
Lemma gen_get_maybe_uninit_mut_eq : forall index s w, gen_get_maybe_uninit_mut index s w = get_maybe_uninit_mut index s w.
Proof. core_eq. Qed.
#[export] Hint Rewrite gen_get_maybe_uninit_mut_eq : cg_eq.
Check gen_get_maybe_uninit_mut_eq.
Print Assumptions gen_get_maybe_uninit_mut_eq.

(*@ fn back *)
Lemma gen_back_eq : forall s w, gen_back s w = back s w.
Proof. core_eq. Qed.
#[export] Hint Rewrite gen_back_eq : cg_eq.
Check gen_back_eq.
Print Assumptions gen_back_eq.

(*@ fn back_mut *)
Lemma gen_back_mut_eq : forall s w, gen_back_mut s w = back_mut s w.
Proof. core_eq. Qed.
#[export] Hint Rewrite gen_back_mut_eq : cg_eq.
Check gen_back_mut_eq.
Print Assumptions gen_back_mut_eq.

(*@ fn front *)
Lemma gen_front_eq : forall s w, gen_front s w = front s w.
Proof. core_eq. Qed.
#[export] Hint Rewrite gen_front_eq : cg_eq.
Check gen_front_eq.
Print Assumptions gen_front_eq.

(*@ fn front_mut *)
Lemma gen_front_mut_eq : forall s w, gen_front_mut s w = front_mut s w.
Proof. core_eq. Qed.
#[export] Hint Rewrite gen_front_mut_eq : cg_eq.
Check gen_front_mut_eq.
Print Assumptions gen_front_mut_eq.

(*@ fn get *)
Lemma gen_get_eq : forall index s w, gen_get index s w = get_ index s w.
Proof. core_eq. Qed.
#[export] Hint Rewrite gen_get_eq : cg_eq.
Check gen_get_eq.
Print Assumptions gen_get_eq.

(*@ fn get_mut *)
Lemma gen_get_mut_eq : forall index s w, gen_get_mut index s w = get_mut index s w.
Proof. core_eq. Qed.
#[export] Hint Rewrite gen_get_mut_eq : cg_eq.
Check gen_get_mut_eq.
Print Assumptions gen_get_mut_eq.

(*@ fn nth_front *)
Lemma gen_nth_front_eq : forall index s w, gen_nth_front index s w = nth_front index s w.
Proof. core_eq. Qed.
#[export] Hint Rewrite gen_nth_front_eq : cg_eq.
Check gen_nth_front_eq.
Print Assumptions gen_nth_front_eq.

(*@ fn nth_front_mut *)
Lemma gen_nth_front_mut_eq : forall index s w, gen_nth_front_mut index s w = nth_front_mut index s w.
Proof. core_eq. Qed.
#[export] Hint Rewrite gen_nth_front_mut_eq : cg_eq.
Check gen_nth_front_mut_eq.
Print Assumptions gen_nth_front_mut_eq.

(*@ fn nth_back *)
Lemma gen_nth_back_eq : forall index s w, gen_nth_back index s w = nth_back index s w.
Proof. core_eq. Qed.
#[export] Hint Rewrite gen_nth_back_eq : cg_eq.
Check gen_nth_back_eq.
Print Assumptions gen_nth_back_eq.

(*@ fn nth_back_mut *)
Lemma gen_nth_back_mut_eq : forall index s w, gen_nth_back_mut index s w = nth_back_mut index s w.
Proof. core_eq. Qed.
#[export] Hint Rewrite gen_nth_back_mut_eq : cg_eq.
Check gen_nth_back_mut_eq.
Print Assumptions gen_nth_back_mut_eq.

(*@ fn push_back *)
Lemma gen_push_back_eq : forall item s w, gen_push_back item s w = push_back item s w.
Proof. core_eq. Qed.
#[export] Hint Rewrite gen_push_back_eq : cg_eq.
Check gen_push_back_eq.
Print Assumptions gen_push_back_eq.

(*@ fn try_push_back *)
Lemma gen_try_push_back_eq : forall item s w, gen_try_push_back item s w = try_push_back item s w.
Proof. core_eq. Qed.
#[export] Hint Rewrite gen_try_push_back_eq : cg_eq.
Check gen_try_push_back_eq.
Print Assumptions gen_try_push_back_eq.

(*@ fn push_front *)
Lemma gen_push_front_eq : forall item s w, gen_push_front item s w = push_front item s w.
Proof. core_eq. Qed.
#[export] Hint Rewrite gen_push_front_eq : cg_eq.
Check gen_push_front_eq.
Print Assumptions gen_push_front_eq.

(*@ fn try_push_front *)
Lemma gen_try_push_front_eq : forall item s w, gen_try_push_front item s w = try_push_front item s w.
Proof. core_eq. Qed.
#[export] Hint Rewrite gen_try_push_front_eq : cg_eq.
Check gen_try_push_front_eq.
Print Assumptions gen_try_push_front_eq.

(*@ fn pop_back *)
Lemma gen_pop_back_eq : forall s w, gen_pop_back s w = pop_back s w.
Proof. core_eq. Qed.
#[export] Hint Rewrite gen_pop_back_eq : cg_eq.
Check gen_pop_back_eq.
Print Assumptions gen_pop_back_eq.

(*@ fn pop_front *)
Lemma gen_pop_front_eq : forall s w, gen_pop_front s w = pop_front s w.
Proof. core_eq. Qed.
#[export] Hint Rewrite gen_pop_front_eq : cg_eq.
Check gen_pop_front_eq.
Print Assumptions gen_pop_front_eq.

(*@ fn swap *)
Lemma gen_swap_eq : forall i j s w, gen_swap i j s w = swap i j s w.
Proof. core_eq. Qed.
#[export] Hint Rewrite gen_swap_eq : cg_eq.
Check gen_swap_eq.
Print Assumptions gen_swap_eq.

(*@ fn swap_remove_back *)
Lemma gen_swap_remove_back_eq : forall index s w, gen_swap_remove_back index s w = swap_remove_back index s w.
Proof. core_eq. Qed.
#[export] Hint Rewrite gen_swap_remove_back_eq : cg_eq.
Check gen_swap_remove_back_eq.
Print Assumptions gen_swap_remove_back_eq.

(*@ fn swap_remove_front *)
Lemma gen_swap_remove_front_eq : forall index s w, gen_swap_remove_front index s w = swap_remove_front index s w.
Proof. core_eq. Qed.
#[export] Hint Rewrite gen_swap_remove_front_eq : cg_eq.
Check gen_swap_remove_front_eq.
Print Assumptions gen_swap_remove_front_eq.

(*@ fn truncate_back *)
Lemma gen_truncate_back_eq : forall n s w, gen_truncate_back n s w = truncate_back n s w.
Proof. core_eq. Qed.
#[export] Hint Rewrite gen_truncate_back_eq : cg_eq.
Check gen_truncate_back_eq.
Print Assumptions gen_truncate_back_eq.

(*@ fn truncate_front *)
Lemma gen_truncate_front_eq : forall n s w, gen_truncate_front n s w = truncate_front n s w.
Proof. core_eq. Qed.
#[export] Hint Rewrite gen_truncate_front_eq : cg_eq.
Check gen_truncate_front_eq.
Print Assumptions gen_truncate_front_eq.

(*@ fn clear *)
Lemma gen_clear_eq : forall s w, gen_clear s w = clear s w.
Proof. core_eq. Qed.
#[export] Hint Rewrite gen_clear_eq : cg_eq.
Check gen_clear_eq.
Print Assumptions gen_clear_eq.

(*@ fn remove *)
Lemma gen_remove_eq : forall index s w, gen_remove index s w = remove index s w.
Proof. core_eq. Qed.
#[export] Hint Rewrite gen_remove_eq : cg_eq.
Check gen_remove_eq.
Print Assumptions gen_remove_eq.

(*@ fn as_slices *)
Lemma gen_as_slices_eq : forall s w, gen_as_slices s w = as_slices s w.
Proof. core_eq. Qed.
#[export] Hint Rewrite gen_as_slices_eq : cg_eq.
Check gen_as_slices_eq.
Print Assumptions gen_as_slices_eq.

(*@ fn as_mut_slices *)
Lemma gen_as_mut_slices_eq : forall s w, gen_as_mut_slices s w = as_mut_slices s w.
Proof. core_eq. Qed.
#[export] Hint Rewrite gen_as_mut_slices_eq : cg_eq.
Check gen_as_mut_slices_eq.
Print Assumptions gen_as_mut_slices_eq.

(*@ fn slices_uninit_mut *)
Lemma gen_slices_uninit_mut_eq : forall s w, gen_slices_uninit_mut s w = slices_uninit_mut s w.
Proof. core_eq. Qed.
#[export] Hint Rewrite gen_slices_uninit_mut_eq : cg_eq.
Check gen_slices_uninit_mut_eq.
Print Assumptions gen_slices_uninit_mut_eq.

(*@ fn make_contiguous *)
Lemma gen_make_contiguous_eq : forall s w, gen_make_contiguous s w = make_contiguous s w.
Proof. core_eq. Qed.
#[export] Hint Rewrite gen_make_contiguous_eq : cg_eq.
Check gen_make_contiguous_eq.
Print Assumptions gen_make_contiguous_eq.

(*@ fn drop_range *)
Lemma gen_drop_range_eq : forall x1 x2 s w, gen_drop_range x1 x2 s w = drop_range x1 x2 s w.
Proof. core_eq_mod gen_drop_range drop_range. Qed.
#[export] Hint Rewrite gen_drop_range_eq : cg_eq.
Check gen_drop_range_eq.
Print Assumptions gen_drop_range_eq.

(*@ fn fill_spare *)
Lemma gen_fill_spare_loop1_eq : forall fuel y1 s w, gen_fill_spare_loop1 fuel y1 s w = fill_spare_loop fuel y1 s w.
Proof. loop_eq gen_fill_spare_loop1 fill_spare_loop. Qed.
#[export] Hint Rewrite gen_fill_spare_loop1_eq : cg_eq.
Check gen_fill_spare_loop1_eq.
Print Assumptions gen_fill_spare_loop1_eq.

Lemma gen_fill_spare_eq : forall x1 s w, gen_fill_spare x1 s w = fill_spare x1 s w.
Proof. core_eq_mod gen_fill_spare fill_spare. Qed.
#[export] Hint Rewrite gen_fill_spare_eq : cg_eq.
Check gen_fill_spare_eq.
Print Assumptions gen_fill_spare_eq.

(*@ fn fill *)
Lemma gen_fill_eq : forall x1 s w, gen_fill x1 s w = fill x1 s w.
Proof. core_eq_mod gen_fill fill. Qed.
#[export] Hint Rewrite gen_fill_eq : cg_eq.
Check gen_fill_eq.
Print Assumptions gen_fill_eq.

(*@ fn fill_spare_with *)
Lemma gen_fill_spare_with_loop1_eq : forall fuel s w, gen_fill_spare_with_loop1 fuel s w = fill_spare_with_loop fuel s w.
Proof. loop_eq gen_fill_spare_with_loop1 fill_spare_with_loop. Qed.
#[export] Hint Rewrite gen_fill_spare_with_loop1_eq : cg_eq.
Check gen_fill_spare_with_loop1_eq.
Print Assumptions gen_fill_spare_with_loop1_eq.

Lemma gen_fill_spare_with_eq : forall s w, gen_fill_spare_with s w = fill_spare_with s w.
Proof. core_eq_mod gen_fill_spare_with fill_spare_with. Qed.
#[export] Hint Rewrite gen_fill_spare_with_eq : cg_eq.
Check gen_fill_spare_with_eq.
Print Assumptions gen_fill_spare_with_eq.

(*@ fn fill_with *)
Lemma gen_fill_with_eq : forall s w, gen_fill_with s w = fill_with s w.
Proof. core_eq_mod gen_fill_with fill_with. Qed.
#[export] Hint Rewrite gen_fill_with_eq : cg_eq.
Check gen_fill_with_eq.
Print Assumptions gen_fill_with_eq.

(*@ fn translate_range_bounds *)
Lemma gen_translate_range_bounds_eq : forall x1 x2 s w, gen_translate_range_bounds x1 x2 s w = translate_range_bounds x1 x2 s w.
Proof. core_eq_mod gen_translate_range_bounds translate_range_bounds. Qed.
#[export] Hint Rewrite gen_translate_range_bounds_eq : cg_eq.
Check gen_translate_range_bounds_eq.
Print Assumptions gen_translate_range_bounds_eq.

(*@ fn Drain_over_range *)
Lemma gen_Drain_over_range_eq : forall x1 x2 s w, gen_Drain_over_range x1 x2 s w = drain_over_range x1 x2 s w.
Proof. core_eq_mod gen_Drain_over_range drain_over_range. Qed.
#[export] Hint Rewrite gen_Drain_over_range_eq : cg_eq.
Check gen_Drain_over_range_eq.
Print Assumptions gen_Drain_over_range_eq.

(*@ fn drain *)
Lemma gen_drain_eq : forall x1 x2 s w, gen_drain x1 x2 s w = drain_over_range x1 x2 s w.
Proof. core_eq_mod gen_drain drain_over_range. Qed.
#[export] Hint Rewrite gen_drain_eq : cg_eq.
Check gen_drain_eq.
Print Assumptions gen_drain_eq.

(*@ fn Iter_empty *)
Lemma gen_Iter_empty_eq : forall s w, gen_Iter_empty s w = ret iter_empty s w.
Proof. core_eq_mod gen_Iter_empty iter_empty. Qed.
#[export] Hint Rewrite gen_Iter_empty_eq : cg_eq.
Check gen_Iter_empty_eq.
Print Assumptions gen_Iter_empty_eq.

(*@ fn Iter_new *)
Lemma gen_Iter_new_eq : forall s w, gen_Iter_new s w = iter_new s w.
Proof. core_eq_mod gen_Iter_new iter_new. Qed.
#[export] Hint Rewrite gen_Iter_new_eq : cg_eq.
Check gen_Iter_new_eq.
Print Assumptions gen_Iter_new_eq.

(*@ fn slice_take *)
Lemma gen_slice_take_eq : forall x1 x2 x3 s w, gen_slice_take x1 x2 x3 s w = slice_take x1 x2 x3 s w.
Proof. core_eq_mod gen_slice_take slice_take. Qed.
#[export] Hint Rewrite gen_slice_take_eq : cg_eq.
Check gen_slice_take_eq.
Print Assumptions gen_slice_take_eq.

(*@ fn Iter_advance_front_by *)
Lemma gen_Iter_advance_front_by_eq : forall x1 x2 s w, gen_Iter_advance_front_by x1 x2 s w = advance_front_by x1 x2 s w.
Proof. core_eq_mod gen_Iter_advance_front_by advance_front_by. Qed.
#[export] Hint Rewrite gen_Iter_advance_front_by_eq : cg_eq.
Check gen_Iter_advance_front_by_eq.
Print Assumptions gen_Iter_advance_front_by_eq.

(*@ fn Iter_advance_back_by *)
Lemma gen_Iter_advance_back_by_eq : forall x1 x2 s w, gen_Iter_advance_back_by x1 x2 s w = advance_back_by x1 x2 s w.
Proof. core_eq_mod gen_Iter_advance_back_by advance_back_by. Qed.
#[export] Hint Rewrite gen_Iter_advance_back_by_eq : cg_eq.
Check gen_Iter_advance_back_by_eq.
Print Assumptions gen_Iter_advance_back_by_eq.

(*@ fn Iter_over_range *)
Lemma gen_Iter_over_range_eq : forall x1 x2 s w, gen_Iter_over_range x1 x2 s w = iter_over_range x1 x2 s w.
Proof. core_eq_mod gen_Iter_over_range iter_over_range. Qed.
#[export] Hint Rewrite gen_Iter_over_range_eq : cg_eq.
Check gen_Iter_over_range_eq.
Print Assumptions gen_Iter_over_range_eq.

(*@ fn range *)
Lemma gen_range_eq : forall x1 x2 s w, gen_range x1 x2 s w = iter_over_range x1 x2 s w.
Proof. core_eq_mod gen_range iter_over_range. Qed.
#[export] Hint Rewrite gen_range_eq : cg_eq.
Check gen_range_eq.
Print Assumptions gen_range_eq.

(*@ fn IterMut_empty *)
Lemma gen_IterMut_empty_eq : forall s w, gen_IterMut_empty s w = ret iter_mut_empty s w.
Proof. core_eq_mod gen_IterMut_empty iter_mut_empty. Qed.
#[export] Hint Rewrite gen_IterMut_empty_eq : cg_eq.
Check gen_IterMut_empty_eq.
Print Assumptions gen_IterMut_empty_eq.

(*@ fn IterMut_new *)
Lemma gen_IterMut_new_eq : forall s w, gen_IterMut_new s w = iter_mut_new s w.
Proof. core_eq_mod gen_IterMut_new iter_mut_new. Qed.
#[export] Hint Rewrite gen_IterMut_new_eq : cg_eq.
Check gen_IterMut_new_eq.
Print Assumptions gen_IterMut_new_eq.

(*@ fn slice_take_mut *)
Lemma gen_slice_take_mut_eq : forall x1 x2 x3 s w, gen_slice_take_mut x1 x2 x3 s w = slice_take_mut x1 x2 x3 s w.
Proof. core_eq_mod gen_slice_take_mut slice_take_mut. Qed.
#[export] Hint Rewrite gen_slice_take_mut_eq : cg_eq.
Check gen_slice_take_mut_eq.
Print Assumptions gen_slice_take_mut_eq.

(*@ fn IterMut_advance_front_by *)
Lemma gen_IterMut_advance_front_by_eq : forall x1 x2 s w, gen_IterMut_advance_front_by x1 x2 s w = advance_front_by x1 x2 s w.
Proof. core_eq_mod gen_IterMut_advance_front_by advance_front_by. Qed.
#[export] Hint Rewrite gen_IterMut_advance_front_by_eq : cg_eq.
Check gen_IterMut_advance_front_by_eq.
Print Assumptions gen_IterMut_advance_front_by_eq.

(*@ fn IterMut_advance_back_by *)
Lemma gen_IterMut_advance_back_by_eq : forall x1 x2 s w, gen_IterMut_advance_back_by x1 x2 s w = advance_back_by x1 x2 s w.
Proof. core_eq_mod gen_IterMut_advance_back_by advance_back_by. Qed.
#[export] Hint Rewrite gen_IterMut_advance_back_by_eq : cg_eq.
Check gen_IterMut_advance_back_by_eq.
Print Assumptions gen_IterMut_advance_back_by_eq.

(*@ fn IterMut_over_range *)
Lemma gen_IterMut_over_range_eq : forall x1 x2 s w, gen_IterMut_over_range x1 x2 s w = iter_mut_over_range x1 x2 s w.
Proof. core_eq_mod gen_IterMut_over_range iter_mut_over_range. Qed.
#[export] Hint Rewrite gen_IterMut_over_range_eq : cg_eq.
Check gen_IterMut_over_range_eq.
Print Assumptions gen_IterMut_over_range_eq.

(*@ fn range_mut *)
Lemma gen_range_mut_eq : forall x1 x2 s w, gen_range_mut x1 x2 s w = iter_mut_over_range x1 x2 s w.
Proof. core_eq_mod gen_range_mut iter_mut_over_range. Qed.
#[export] Hint Rewrite gen_range_mut_eq : cg_eq.
Check gen_range_mut_eq.
Print Assumptions gen_range_mut_eq.

(*@ fn iter *)
Lemma gen_iter_eq : forall s w, gen_iter s w = iter_new s w.
Proof. core_eq_mod gen_iter iter_new. Qed.
#[export] Hint Rewrite gen_iter_eq : cg_eq.
Check gen_iter_eq.
Print Assumptions gen_iter_eq.

(*@ fn iter_mut *)
Lemma gen_iter_mut_eq : forall s w, gen_iter_mut s w = iter_mut_new s w.
Proof. core_eq_mod gen_iter_mut iter_mut_new. Qed.
#[export] Hint Rewrite gen_iter_mut_eq : cg_eq.
Check gen_iter_mut_eq.
Print Assumptions gen_iter_mut_eq.

(*@ fn slice_take_first *)
Lemma gen_slice_take_first_eq : forall x1 s w, gen_slice_take_first x1 s w = ret (slice_take_first x1) s w.
Proof. core_eq_mod gen_slice_take_first slice_take_first. Qed.
#[export] Hint Rewrite gen_slice_take_first_eq : cg_eq.
Check gen_slice_take_first_eq.
Print Assumptions gen_slice_take_first_eq.

(*@ fn slice_take_first_mut *)
Lemma gen_slice_take_first_mut_eq : forall x1 s w, gen_slice_take_first_mut x1 s w = ret (slice_take_first_mut x1) s w.
Proof. core_eq_mod gen_slice_take_first_mut slice_take_first_mut. Qed.
#[export] Hint Rewrite gen_slice_take_first_mut_eq : cg_eq.
Check gen_slice_take_first_mut_eq.
Print Assumptions gen_slice_take_first_mut_eq.

(*@ fn slice_take_last *)
Lemma gen_slice_take_last_eq : forall x1 s w, gen_slice_take_last x1 s w = ret (slice_take_last x1) s w.
Proof. core_eq_mod gen_slice_take_last slice_take_last. Qed.
#[export] Hint Rewrite gen_slice_take_last_eq : cg_eq.
Check gen_slice_take_last_eq.
Print Assumptions gen_slice_take_last_eq.

(*@ fn slice_take_last_mut *)
Lemma gen_slice_take_last_mut_eq : forall x1 s w, gen_slice_take_last_mut x1 s w = ret (slice_take_last_mut x1) s w.
Proof. core_eq_mod gen_slice_take_last_mut slice_take_last_mut. Qed.
#[export] Hint Rewrite gen_slice_take_last_mut_eq : cg_eq.
Check gen_slice_take_last_mut_eq.
Print Assumptions gen_slice_take_last_mut_eq.

(*@ fn Iter_next *)
Lemma gen_Iter_next_eq : forall x1 s w, gen_Iter_next x1 s w = ret (iter_next x1) s w.
Proof. core_eq_mod gen_Iter_next iter_next. Qed.
#[export] Hint Rewrite gen_Iter_next_eq : cg_eq.
Check gen_Iter_next_eq.
Print Assumptions gen_Iter_next_eq.

(*@ fn Iter_next_back *)
Lemma gen_Iter_next_back_eq : forall x1 s w, gen_Iter_next_back x1 s w = ret (iter_next_back x1) s w.
Proof. core_eq_mod gen_Iter_next_back iter_next_back. Qed.
#[export] Hint Rewrite gen_Iter_next_back_eq : cg_eq.
Check gen_Iter_next_back_eq.
Print Assumptions gen_Iter_next_back_eq.

(*@ fn Iter_len *)
Lemma gen_Iter_len_eq : forall x1 s w, gen_Iter_len x1 s w = iter_len x1 s w.
Proof. core_eq_mod gen_Iter_len iter_len. Qed.
#[export] Hint Rewrite gen_Iter_len_eq : cg_eq.
Check gen_Iter_len_eq.
Print Assumptions gen_Iter_len_eq.

(*@ fn Iter_clone *)
Lemma gen_Iter_clone_eq : forall x1 s w, gen_Iter_clone x1 s w = ret (iter_clone x1) s w.
Proof. core_eq_mod gen_Iter_clone iter_clone. Qed.
#[export] Hint Rewrite gen_Iter_clone_eq : cg_eq.
Check gen_Iter_clone_eq.
Print Assumptions gen_Iter_clone_eq.

(*@ fn Iter_default *)
Lemma gen_Iter_default_eq : forall s w, gen_Iter_default s w = ret iter_default s w.
Proof. core_eq_mod gen_Iter_default iter_default. Qed.
#[export] Hint Rewrite gen_Iter_default_eq : cg_eq.
Check gen_Iter_default_eq.
Print Assumptions gen_Iter_default_eq.

(*@ fn IterMut_next *)
Lemma gen_IterMut_next_eq : forall x1 s w, gen_IterMut_next x1 s w = ret (iter_mut_next x1) s w.
Proof. core_eq_mod gen_IterMut_next iter_mut_next. Qed.
#[export] Hint Rewrite gen_IterMut_next_eq : cg_eq.
Check gen_IterMut_next_eq.
Print Assumptions gen_IterMut_next_eq.

(*@ fn IterMut_next_back *)
Lemma gen_IterMut_next_back_eq : forall x1 s w, gen_IterMut_next_back x1 s w = ret (iter_mut_next_back x1) s w.
Proof. core_eq_mod gen_IterMut_next_back iter_mut_next_back. Qed.
#[export] Hint Rewrite gen_IterMut_next_back_eq : cg_eq.
Check gen_IterMut_next_back_eq.
Print Assumptions gen_IterMut_next_back_eq.

(*@ fn IterMut_len *)
Lemma gen_IterMut_len_eq : forall x1 s w, gen_IterMut_len x1 s w = iter_mut_len x1 s w.
Proof. core_eq_mod gen_IterMut_len iter_mut_len. Qed.
#[export] Hint Rewrite gen_IterMut_len_eq : cg_eq.
Check gen_IterMut_len_eq.
Print Assumptions gen_IterMut_len_eq.

(*@ fn IterMut_default *)
Lemma gen_IterMut_default_eq : forall s w, gen_IterMut_default s w = ret iter_mut_default s w.
Proof. core_eq_mod gen_IterMut_default iter_mut_default. Qed.
#[export] Hint Rewrite gen_IterMut_default_eq : cg_eq.
Check gen_IterMut_default_eq.
Print Assumptions gen_IterMut_default_eq.

(*@ fn IntoIter_next *)
Lemma gen_IntoIter_next_eq : forall s w, gen_IntoIter_next s w = into_iter_next s w.
Proof. core_eq_mod gen_IntoIter_next into_iter_next. Qed.
#[export] Hint Rewrite gen_IntoIter_next_eq : cg_eq.
Check gen_IntoIter_next_eq.
Print Assumptions gen_IntoIter_next_eq.

(*@ fn IntoIter_next_back *)
Lemma gen_IntoIter_next_back_eq : forall s w, gen_IntoIter_next_back s w = into_iter_next_back s w.
Proof. core_eq_mod gen_IntoIter_next_back into_iter_next_back. Qed.
#[export] Hint Rewrite gen_IntoIter_next_back_eq : cg_eq.
Check gen_IntoIter_next_back_eq.
Print Assumptions gen_IntoIter_next_back_eq.

(*@ fn IntoIter_len *)
Lemma gen_IntoIter_len_eq : forall s w, gen_IntoIter_len s w = into_iter_len s w.
Proof. core_eq_mod gen_IntoIter_len into_iter_len. Qed.
#[export] Hint Rewrite gen_IntoIter_len_eq : cg_eq.
Check gen_IntoIter_len_eq.
Print Assumptions gen_IntoIter_len_eq.

(*@ fn CircularSlicePtr_new *)
Lemma gen_CircularSlicePtr_new_eq : forall n s w, gen_CircularSlicePtr_new (mkS 0 n) s w = ret (csp_new n) s w.
Proof. core_eq_mod gen_CircularSlicePtr_new csp_new. Qed.
#[export] Hint Rewrite gen_CircularSlicePtr_new_eq : cg_eq.
Check gen_CircularSlicePtr_new_eq.
Print Assumptions gen_CircularSlicePtr_new_eq.

(*@ fn CircularSlicePtr_as_ptr *)
Lemma gen_CircularSlicePtr_as_ptr_eq : forall x1 s w, gen_CircularSlicePtr_as_ptr x1 s w = csp_as_ptr x1 s w.
Proof. core_eq_mod gen_CircularSlicePtr_as_ptr csp_as_ptr. Qed.
#[export] Hint Rewrite gen_CircularSlicePtr_as_ptr_eq : cg_eq.
Check gen_CircularSlicePtr_as_ptr_eq.
Print Assumptions gen_CircularSlicePtr_as_ptr_eq.

(*@ fn CircularSlicePtr_as_mut_ptr *)
Lemma gen_CircularSlicePtr_as_mut_ptr_eq : forall x1 s w, gen_CircularSlicePtr_as_mut_ptr x1 s w = csp_as_ptr x1 s w.
Proof. core_eq_mod gen_CircularSlicePtr_as_mut_ptr csp_as_ptr. Qed.
#[export] Hint Rewrite gen_CircularSlicePtr_as_mut_ptr_eq : cg_eq.
Check gen_CircularSlicePtr_as_mut_ptr_eq.
Print Assumptions gen_CircularSlicePtr_as_mut_ptr_eq.

(*@ fn CircularSlicePtr_available_len *)
Lemma gen_CircularSlicePtr_available_len_eq : forall x1 s w, gen_CircularSlicePtr_available_len x1 s w = csp_available_len x1 s w.
Proof. core_eq_mod gen_CircularSlicePtr_available_len csp_available_len. Qed.
#[export] Hint Rewrite gen_CircularSlicePtr_available_len_eq : cg_eq.
Check gen_CircularSlicePtr_available_len_eq.
Print Assumptions gen_CircularSlicePtr_available_len_eq.

(*@ fn CircularSlicePtr_add *)
Lemma gen_CircularSlicePtr_add_eq : forall x1 x2 s w, gen_CircularSlicePtr_add x1 x2 s w = csp_add x1 x2 s w.
Proof. core_eq_mod gen_CircularSlicePtr_add csp_add. Qed.
#[export] Hint Rewrite gen_CircularSlicePtr_add_eq : cg_eq.
Check gen_CircularSlicePtr_add_eq.
Print Assumptions gen_CircularSlicePtr_add_eq.

(*@ fn Drain_read *)
Lemma gen_Drain_read_eq : forall x1 x2 s w, gen_Drain_read x1 x2 s w = drain_read x1 x2 s w.
Proof. core_eq_mod gen_Drain_read drain_read. Qed.
#[export] Hint Rewrite gen_Drain_read_eq : cg_eq.
Check gen_Drain_read_eq.
Print Assumptions gen_Drain_read_eq.

(*@ fn Drain_as_slices *)
Lemma gen_Drain_as_slices_eq : forall x1 s w, gen_Drain_as_slices x1 s w = drain_as_slices x1 s w.
Proof. core_eq_mod gen_Drain_as_slices drain_as_slices. Qed.
#[export] Hint Rewrite gen_Drain_as_slices_eq : cg_eq.
Check gen_Drain_as_slices_eq.
Print Assumptions gen_Drain_as_slices_eq.

(*@ fn Drain_as_mut_slices *)
Lemma gen_Drain_as_mut_slices_eq : forall x1 s w, gen_Drain_as_mut_slices x1 s w = drain_as_mut_slices x1 s w.
Proof. core_eq_mod gen_Drain_as_mut_slices drain_as_mut_slices. Qed.
#[export] Hint Rewrite gen_Drain_as_mut_slices_eq : cg_eq.
Check gen_Drain_as_mut_slices_eq.
Print Assumptions gen_Drain_as_mut_slices_eq.

(*@ fn Drain_next *)
Lemma gen_Drain_next_eq : forall x1 s w, gen_Drain_next x1 s w = drain_next x1 s w.
Proof. core_eq_mod gen_Drain_next drain_next. Qed.
#[export] Hint Rewrite gen_Drain_next_eq : cg_eq.
Check gen_Drain_next_eq.
Print Assumptions gen_Drain_next_eq.

(*@ fn Drain_next_back *)
Lemma gen_Drain_next_back_eq : forall x1 s w, gen_Drain_next_back x1 s w = drain_next_back x1 s w.
Proof. core_eq_mod gen_Drain_next_back drain_next_back. Qed.
#[export] Hint Rewrite gen_Drain_next_back_eq : cg_eq.
Check gen_Drain_next_back_eq.
Print Assumptions gen_Drain_next_back_eq.

(*@ fn Drain_len *)
Lemma gen_Drain_len_eq : forall x1 s w, gen_Drain_len x1 s w = ret (drain_len x1) s w.
Proof. core_eq_mod gen_Drain_len drain_len. Qed.
#[export] Hint Rewrite gen_Drain_len_eq : cg_eq.
Check gen_Drain_len_eq.
Print Assumptions gen_Drain_len_eq.

(*@ fn Drain_drop *)
Lemma gen_Drain_drop_loop1_eq : forall fuel y1 y2 y3 s w, gen_Drain_drop_loop1 fuel y1 y2 y3 s w = drain_fill_loop fuel y2 y3 y1 s w.
Proof. loop_eq gen_Drain_drop_loop1 drain_fill_loop. Qed.
#[export] Hint Rewrite gen_Drain_drop_loop1_eq : cg_eq.
Check gen_Drain_drop_loop1_eq.
Print Assumptions gen_Drain_drop_loop1_eq.

Lemma gen_Drain_drop_eq : forall x1 s w, gen_Drain_drop x1 s w = drain_drop x1 s w.
Proof. core_eq_mod gen_Drain_drop drain_drop. Qed.
#[export] Hint Rewrite gen_Drain_drop_eq : cg_eq.
Check gen_Drain_drop_eq.
Print Assumptions gen_Drain_drop_eq.

(*@ fn index *)
Lemma gen_index_eq : forall x1 s w, gen_index x1 s w = index x1 s w.
Proof. core_eq_mod gen_index index. Qed.
#[export] Hint Rewrite gen_index_eq : cg_eq.
Check gen_index_eq.
Print Assumptions gen_index_eq.

(*@ fn index_mut *)
Lemma gen_index_mut_eq : forall x1 s w, gen_index_mut x1 s w = index_mut x1 s w.
Proof. core_eq_mod gen_index_mut index_mut. Qed.
#[export] Hint Rewrite gen_index_mut_eq : cg_eq.
Check gen_index_mut_eq.
Print Assumptions gen_index_mut_eq.

(*@ fn buf_drop *)
Lemma gen_buf_drop_eq : forall s w, gen_buf_drop s w = drop_buf s w.
Proof. core_eq_mod gen_buf_drop drop_buf. Qed.
#[export] Hint Rewrite gen_buf_drop_eq : cg_eq.
Check gen_buf_drop_eq.
Print Assumptions gen_buf_drop_eq.

(*@ fn extend_from_slice *)
Lemma gen_extend_from_slice_eq : forall x1 s w, 0 <= cap s -> gen_extend_from_slice x1 s w = extend_from_slice x1 s w.
Proof. core_eq_mod gen_extend_from_slice extend_from_slice. Qed.
#[export] Hint Rewrite gen_extend_from_slice_eq using (cbn [cap]; assumption) : cg_eq.
Check gen_extend_from_slice_eq.
Print Assumptions gen_extend_from_slice_eq.

(*@ fn io_write *)
Lemma gen_io_write_eq : forall x1 s w, 0 <= cap s -> gen_io_write x1 s w = io_write x1 s w.
Proof. core_eq_mod gen_io_write io_write. Qed.
#[export] Hint Rewrite gen_io_write_eq using (cbn [cap]; assumption) : cg_eq.
Check gen_io_write_eq.
Print Assumptions gen_io_write_eq.

(*@ fn io_flush *)
Lemma gen_io_flush_eq : forall s w, gen_io_flush s w = io_flush s w.
Proof. core_eq_mod gen_io_flush io_flush. Qed.
#[export] Hint Rewrite gen_io_flush_eq : cg_eq.
Check gen_io_flush_eq.
Print Assumptions gen_io_flush_eq.

(*@ fn io_read *)
Lemma gen_io_read_eq : forall x1 s w, gen_io_read x1 s w = (r <- io_read x1;; ret (snd r, fst r)) s w.
Proof. core_eq_mod gen_io_read io_read. Qed.
#[export] Hint Rewrite gen_io_read_eq : cg_eq.
Check gen_io_read_eq.
Print Assumptions gen_io_read_eq.

(*@ fn io_fill_buf *)
Lemma gen_io_fill_buf_eq : forall s w, gen_io_fill_buf s w = io_fill_buf s w.
Proof. core_eq_mod gen_io_fill_buf io_fill_buf. Qed.
#[export] Hint Rewrite gen_io_fill_buf_eq : cg_eq.
Check gen_io_fill_buf_eq.
Print Assumptions gen_io_fill_buf_eq.

(*@ fn io_consume *)
Lemma gen_io_consume_eq : forall x1 s w, gen_io_consume x1 s w = io_consume x1 s w.
Proof. core_eq_mod gen_io_consume io_consume. Qed.
#[export] Hint Rewrite gen_io_consume_eq : cg_eq.
Check gen_io_consume_eq.
Print Assumptions gen_io_consume_eq.

(*@ fn eio_write *)
Lemma gen_eio_write_eq : forall x1 s w, 0 <= cap s -> gen_eio_write x1 s w = eio_write x1 s w.
Proof. core_eq_mod gen_eio_write eio_write. Qed.
#[export] Hint Rewrite gen_eio_write_eq using (cbn [cap]; assumption) : cg_eq.
Check gen_eio_write_eq.
Print Assumptions gen_eio_write_eq.

(*@ fn eio_flush *)
Lemma gen_eio_flush_eq : forall s w, gen_eio_flush s w = eio_flush s w.
Proof. core_eq_mod gen_eio_flush eio_flush. Qed.
#[export] Hint Rewrite gen_eio_flush_eq : cg_eq.
Check gen_eio_flush_eq.
Print Assumptions gen_eio_flush_eq.

(*@ fn eio_read *)
Lemma gen_eio_read_eq : forall x1 s w, gen_eio_read x1 s w = (r <- eio_read x1;; ret (snd r, fst r)) s w.
Proof. core_eq_mod gen_eio_read eio_read. Qed.
#[export] Hint Rewrite gen_eio_read_eq : cg_eq.
Check gen_eio_read_eq.
Print Assumptions gen_eio_read_eq.

(*@ fn eio_fill_buf *)
Lemma gen_eio_fill_buf_eq : forall s w, gen_eio_fill_buf s w = eio_fill_buf s w.
Proof. core_eq_mod gen_eio_fill_buf eio_fill_buf. Qed.
#[export] Hint Rewrite gen_eio_fill_buf_eq : cg_eq.
Check gen_eio_fill_buf_eq.
Print Assumptions gen_eio_fill_buf_eq.

(*@ fn eio_consume *)
Lemma gen_eio_consume_eq : forall x1 s w, gen_eio_consume x1 s w = eio_consume x1 s w.
Proof. core_eq_mod gen_eio_consume eio_consume. Qed.
#[export] Hint Rewrite gen_eio_consume_eq : cg_eq.
Check gen_eio_consume_eq.
Print Assumptions gen_eio_consume_eq.

(*@ fn aio_write *)
Lemma gen_aio_write_eq : forall x1 s w, 0 <= cap s -> gen_aio_write x1 s w = aio_write x1 s w.
Proof. core_eq_mod gen_aio_write aio_write. Qed.
#[export] Hint Rewrite gen_aio_write_eq using (cbn [cap]; assumption) : cg_eq.
Check gen_aio_write_eq.
Print Assumptions gen_aio_write_eq.

(*@ fn aio_flush *)
Lemma gen_aio_flush_eq : forall s w, gen_aio_flush s w = aio_flush s w.
Proof. core_eq_mod gen_aio_flush aio_flush. Qed.
#[export] Hint Rewrite gen_aio_flush_eq : cg_eq.
Check gen_aio_flush_eq.
Print Assumptions gen_aio_flush_eq.

(*@ fn aio_read *)
Lemma gen_aio_read_eq : forall x1 s w, gen_aio_read x1 s w = (r <- aio_read x1;; ret (snd r, fst r)) s w.
Proof. core_eq_mod gen_aio_read aio_read. Qed.
#[export] Hint Rewrite gen_aio_read_eq : cg_eq.
Check gen_aio_read_eq.
Print Assumptions gen_aio_read_eq.

(*@ fn aio_fill_buf *)
Lemma gen_aio_fill_buf_eq : forall s w, gen_aio_fill_buf s w = aio_fill_buf s w.
Proof. core_eq_mod gen_aio_fill_buf aio_fill_buf. Qed.
#[export] Hint Rewrite gen_aio_fill_buf_eq : cg_eq.
Check gen_aio_fill_buf_eq.
Print Assumptions gen_aio_fill_buf_eq.

(*@ fn aio_consume *)
Lemma gen_aio_consume_eq : forall x1 s w, gen_aio_consume x1 s w = aio_consume x1 s w.
Proof. core_eq_mod gen_aio_consume aio_consume. Qed.
#[export] Hint Rewrite gen_aio_consume_eq : cg_eq.
Check gen_aio_consume_eq.
Print Assumptions gen_aio_consume_eq.

(*@ fn Iter_size_hint *)
Lemma gen_Iter_size_hint_eq : forall x1 s w, gen_Iter_size_hint x1 s w = (n <- iter_len x1;; ret (n, Some n)) s w.
Proof. core_eq_mod gen_Iter_size_hint iter_len. Qed.
#[export] Hint Rewrite gen_Iter_size_hint_eq : cg_eq.
Check gen_Iter_size_hint_eq.
Print Assumptions gen_Iter_size_hint_eq.

(*@ fn IterMut_size_hint *)
Lemma gen_IterMut_size_hint_eq : forall x1 s w, gen_IterMut_size_hint x1 s w = (n <- iter_mut_len x1;; ret (n, Some n)) s w.
Proof. core_eq_mod gen_IterMut_size_hint iter_mut_len. Qed.
#[export] Hint Rewrite gen_IterMut_size_hint_eq : cg_eq.
Check gen_IterMut_size_hint_eq.
Print Assumptions gen_IterMut_size_hint_eq.

(*@ fn IntoIter_size_hint *)
Lemma gen_IntoIter_size_hint_eq : forall s w, gen_IntoIter_size_hint s w = (n <- into_iter_len;; ret (n, Some n)) s w.
Proof. core_eq_mod gen_IntoIter_size_hint into_iter_len. Qed.
#[export] Hint Rewrite gen_IntoIter_size_hint_eq : cg_eq.
Check gen_IntoIter_size_hint_eq.
Print Assumptions gen_IntoIter_size_hint_eq.

(*@ fn Drain_size_hint *)
Lemma gen_Drain_size_hint_eq : forall x1 s w, gen_Drain_size_hint x1 s w = ret (drain_len x1, Some (drain_len x1)) s w.
Proof. core_eq_mod gen_Drain_size_hint drain_len. Qed.
#[export] Hint Rewrite gen_Drain_size_hint_eq : cg_eq.
Check gen_Drain_size_hint_eq.
Print Assumptions gen_Drain_size_hint_eq.

(*@ fn CircularSlicePtr_clone *)
Lemma gen_CircularSlicePtr_clone_eq : forall x1 s w, gen_CircularSlicePtr_clone x1 s w = ret x1 s w.
Proof. core_eq. Qed.
#[export] Hint Rewrite gen_CircularSlicePtr_clone_eq : cg_eq.
Check gen_CircularSlicePtr_clone_eq.
Print Assumptions gen_CircularSlicePtr_clone_eq.

(*@ fn slice_assume_init_ref *)
Lemma gen_slice_assume_init_ref_eq : forall x1 s w, gen_slice_assume_init_ref x1 s w = ret x1 s w.
Proof. core_eq. Qed.
#[export] Hint Rewrite gen_slice_assume_init_ref_eq : cg_eq.
Check gen_slice_assume_init_ref_eq.
Print Assumptions gen_slice_assume_init_ref_eq.

(*@ fn slice_assume_init_mut *)
Lemma gen_slice_assume_init_mut_eq : forall x1 s w, gen_slice_assume_init_mut x1 s w = ret x1 s w.
Proof. core_eq. Qed.
#[export] Hint Rewrite gen_slice_assume_init_mut_eq : cg_eq.
Check gen_slice_assume_init_mut_eq.
Print Assumptions gen_slice_assume_init_mut_eq.

(*@ fn new *)
(* a constructor runs on the memory that receives its result: a state of the capacity of the type
   whose size, start and items are whatever that memory holds *)
Lemma gen_new_eq : forall s w, gen_new s w = (Ok tt, new_buf (cap s) (items s), w).
Proof. core_eq. Qed.
#[export] Hint Rewrite gen_new_eq : cg_eq.
Check gen_new_eq.
Print Assumptions gen_new_eq.

(*@ fn default *)
Lemma gen_default_eq : forall s w, gen_default s w = (Ok tt, default_buf (cap s) (items s), w).
Proof. core_eq_mod gen_default default_buf. Qed.
#[export] Hint Rewrite gen_default_eq : cg_eq.
Check gen_default_eq.
Print Assumptions gen_default_eq.

(*@ fn ref_into_iter *)
Lemma gen_ref_into_iter_eq : forall s w, gen_ref_into_iter s w = ref_into_iter s w.
Proof. core_eq_mod gen_ref_into_iter ref_into_iter. Qed.
#[export] Hint Rewrite gen_ref_into_iter_eq : cg_eq.
Check gen_ref_into_iter_eq.
Print Assumptions gen_ref_into_iter_eq.

(*@ fn u_slice_take *)
(* the `cfg(feature = "unstable")` variant: equal to its image in theories/Unstable.v *)
From CB Require Import Unstable.
Lemma gen_u_slice_take_eq : forall x1 x2 s w, gen_u_slice_take x1 x2 s w = u_slice_take x1 x2 s w.
Proof.
  intros; coregen_unfold;
  cbv beta iota zeta delta
    [u_slice_take u_slice_take_mut u_slice_take_first u_slice_take_first_mut u_slice_take_last u_slice_take_last_mut
     sl_split_off sl_split_off_mut split_point_of osr_bound_of sl_split_first sl_split_last
     sl_split_off_first sl_split_off_last sl_split_off_first_mut sl_split_off_last_mut];
  core_eq.
Qed.
#[export] Hint Rewrite gen_u_slice_take_eq : cg_eq.
Check gen_u_slice_take_eq.
Print Assumptions gen_u_slice_take_eq.

(*@ fn u_slice_take_mut *)
(* the `cfg(feature = "unstable")` variant: equal to its image in theories/Unstable.v *)
From CB Require Import Unstable.
Lemma gen_u_slice_take_mut_eq : forall x1 x2 s w, gen_u_slice_take_mut x1 x2 s w = u_slice_take_mut x1 x2 s w.
Proof.
  intros; coregen_unfold;
  cbv beta iota zeta delta
    [u_slice_take u_slice_take_mut u_slice_take_first u_slice_take_first_mut u_slice_take_last u_slice_take_last_mut
     sl_split_off sl_split_off_mut split_point_of osr_bound_of sl_split_first sl_split_last
     sl_split_off_first sl_split_off_last sl_split_off_first_mut sl_split_off_last_mut];
  core_eq.
Qed.
#[export] Hint Rewrite gen_u_slice_take_mut_eq : cg_eq.
Check gen_u_slice_take_mut_eq.
Print Assumptions gen_u_slice_take_mut_eq.

(*@ fn u_slice_take_first *)
(* the `cfg(feature = "unstable")` variant: equal to its image in theories/Unstable.v *)
From CB Require Import Unstable.
Lemma gen_u_slice_take_first_eq : forall x1 s w, gen_u_slice_take_first x1 s w = ret (u_slice_take_first x1) s w.
Proof.
  intros; coregen_unfold;
  cbv beta iota zeta delta
    [u_slice_take u_slice_take_mut u_slice_take_first u_slice_take_first_mut u_slice_take_last u_slice_take_last_mut
     sl_split_off sl_split_off_mut split_point_of osr_bound_of sl_split_first sl_split_last
     sl_split_off_first sl_split_off_last sl_split_off_first_mut sl_split_off_last_mut];
  core_eq.
Qed.
#[export] Hint Rewrite gen_u_slice_take_first_eq : cg_eq.
Check gen_u_slice_take_first_eq.
Print Assumptions gen_u_slice_take_first_eq.

(*@ fn u_slice_take_first_mut *)
(* the `cfg(feature = "unstable")` variant: equal to its image in theories/Unstable.v *)
From CB Require Import Unstable.
Lemma gen_u_slice_take_first_mut_eq : forall x1 s w, gen_u_slice_take_first_mut x1 s w = ret (u_slice_take_first_mut x1) s w.
Proof.
  intros; coregen_unfold;
  cbv beta iota zeta delta
    [u_slice_take u_slice_take_mut u_slice_take_first u_slice_take_first_mut u_slice_take_last u_slice_take_last_mut
     sl_split_off sl_split_off_mut split_point_of osr_bound_of sl_split_first sl_split_last
     sl_split_off_first sl_split_off_last sl_split_off_first_mut sl_split_off_last_mut];
  core_eq.
Qed.
#[export] Hint Rewrite gen_u_slice_take_first_mut_eq : cg_eq.
Check gen_u_slice_take_first_mut_eq.
Print Assumptions gen_u_slice_take_first_mut_eq.

(*@ fn u_slice_take_last *)
(* the `cfg(feature = "unstable")` variant: equal to its image in theories/Unstable.v *)
From CB Require Import Unstable.
Lemma gen_u_slice_take_last_eq : forall x1 s w, gen_u_slice_take_last x1 s w = ret (u_slice_take_last x1) s w.
Proof.
  intros; coregen_unfold;
  cbv beta iota zeta delta
    [u_slice_take u_slice_take_mut u_slice_take_first u_slice_take_first_mut u_slice_take_last u_slice_take_last_mut
     sl_split_off sl_split_off_mut split_point_of osr_bound_of sl_split_first sl_split_last
     sl_split_off_first sl_split_off_last sl_split_off_first_mut sl_split_off_last_mut];
  core_eq.
Qed.
#[export] Hint Rewrite gen_u_slice_take_last_eq : cg_eq.
Check gen_u_slice_take_last_eq.
Print Assumptions gen_u_slice_take_last_eq.

(*@ fn u_slice_take_last_mut *)
(* the `cfg(feature = "unstable")` variant: equal to its image in theories/Unstable.v *)
From CB Require Import Unstable.
Lemma gen_u_slice_take_last_mut_eq : forall x1 s w, gen_u_slice_take_last_mut x1 s w = ret (u_slice_take_last_mut x1) s w.
Proof.
  intros; coregen_unfold;
  cbv beta iota zeta delta
    [u_slice_take u_slice_take_mut u_slice_take_first u_slice_take_first_mut u_slice_take_last u_slice_take_last_mut
     sl_split_off sl_split_off_mut split_point_of osr_bound_of sl_split_first sl_split_last
     sl_split_off_first sl_split_off_last sl_split_off_first_mut sl_split_off_last_mut];
  core_eq.
Qed.
#[export] Hint Rewrite gen_u_slice_take_last_mut_eq : cg_eq.
Check gen_u_slice_take_last_mut_eq.
Print Assumptions gen_u_slice_take_last_mut_eq.

(*@ fn buf_fmt *)
Lemma gen_buf_fmt_eq : forall  s w, gen_buf_fmt s w = buf_fmt s w.
Proof. traits_eq ltac:(cbv beta iota zeta delta [gen_buf_fmt gen_len gen_iter gen_Iter_new gen_ref_into_iter gen_Iter_clone]). Qed.
#[export] Hint Rewrite gen_buf_fmt_eq : cg_eq.
Check gen_buf_fmt_eq.
Print Assumptions gen_buf_fmt_eq.

(*@ fn buf_hash *)
Lemma gen_buf_hash_eq : forall  s w, gen_buf_hash s w = buf_hash s w.
Proof. traits_eq ltac:(cbv beta iota zeta delta [gen_buf_hash gen_len gen_iter gen_Iter_new gen_ref_into_iter gen_Iter_clone]). Qed.
#[export] Hint Rewrite gen_buf_hash_eq : cg_eq.
Check gen_buf_hash_eq.
Print Assumptions gen_buf_hash_eq.

(*@ fn buf_partial_cmp *)
Lemma gen_buf_partial_cmp_eq : forall x0 x1 s w, gen_buf_partial_cmp x0 x1 s w = buf_partial_cmp x0 x1 s w.
Proof. traits_eq ltac:(cbv beta iota zeta delta [gen_buf_partial_cmp gen_len gen_iter gen_Iter_new gen_ref_into_iter gen_Iter_clone]). Qed.
#[export] Hint Rewrite gen_buf_partial_cmp_eq : cg_eq.
Check gen_buf_partial_cmp_eq.
Print Assumptions gen_buf_partial_cmp_eq.

(*@ fn buf_cmp *)
Lemma gen_buf_cmp_eq : forall x0 x1 s w, gen_buf_cmp x0 x1 s w = buf_cmp x0 x1 s w.
Proof. traits_eq ltac:(cbv beta iota zeta delta [gen_buf_cmp gen_len gen_iter gen_Iter_new gen_ref_into_iter gen_Iter_clone]). Qed.
#[export] Hint Rewrite gen_buf_cmp_eq : cg_eq.
Check gen_buf_cmp_eq.
Print Assumptions gen_buf_cmp_eq.

(*@ fn buf_eq *)
Lemma gen_buf_eq_eq : forall x0 x1 s w, gen_buf_eq x0 x1 s w = buf_eq x0 x1 s w.
Proof. traits_eq ltac:(cbv beta iota zeta delta [gen_buf_eq gen_len gen_iter gen_Iter_new gen_ref_into_iter gen_Iter_clone]). Qed.
#[export] Hint Rewrite gen_buf_eq_eq : cg_eq.
Check gen_buf_eq_eq.
Print Assumptions gen_buf_eq_eq.

(*@ fn buf_eq_slice *)
Lemma gen_buf_eq_slice_eq : forall x0 x1 s w, gen_buf_eq_slice x0 x1 s w = buf_eq_slice x0 x1 s w.
Proof. traits_eq ltac:(cbv beta iota zeta delta [gen_buf_eq_slice gen_len gen_iter gen_Iter_new gen_ref_into_iter gen_Iter_clone]). Qed.
#[export] Hint Rewrite gen_buf_eq_slice_eq : cg_eq.
Check gen_buf_eq_slice_eq.
Print Assumptions gen_buf_eq_slice_eq.

(*@ fn buf_eq_array *)
Lemma gen_buf_eq_array_eq : forall x0 x1 s w, gen_buf_eq_array x0 x1 s w = buf_eq_array x0 x1 s w.
Proof. core_eq_mod gen_buf_eq_array buf_eq_array. Qed.
#[export] Hint Rewrite gen_buf_eq_array_eq : cg_eq.
Check gen_buf_eq_array_eq.
Print Assumptions gen_buf_eq_array_eq.

(*@ fn buf_eq_slice_ref *)
Lemma gen_buf_eq_slice_ref_eq : forall x0 x1 s w, gen_buf_eq_slice_ref x0 x1 s w = buf_eq_slice_ref x0 x1 s w.
Proof. core_eq_mod gen_buf_eq_slice_ref buf_eq_slice_ref. Qed.
#[export] Hint Rewrite gen_buf_eq_slice_ref_eq : cg_eq.
Check gen_buf_eq_slice_ref_eq.
Print Assumptions gen_buf_eq_slice_ref_eq.

(*@ fn buf_eq_slice_mut *)
Lemma gen_buf_eq_slice_mut_eq : forall x0 x1 s w, gen_buf_eq_slice_mut x0 x1 s w = buf_eq_slice_mut x0 x1 s w.
Proof. core_eq_mod gen_buf_eq_slice_mut buf_eq_slice_mut. Qed.
#[export] Hint Rewrite gen_buf_eq_slice_mut_eq : cg_eq.
Check gen_buf_eq_slice_mut_eq.
Print Assumptions gen_buf_eq_slice_mut_eq.

(*@ fn buf_eq_array_ref *)
Lemma gen_buf_eq_array_ref_eq : forall x0 x1 s w, gen_buf_eq_array_ref x0 x1 s w = buf_eq_array_ref x0 x1 s w.
Proof. core_eq_mod gen_buf_eq_array_ref buf_eq_array_ref. Qed.
#[export] Hint Rewrite gen_buf_eq_array_ref_eq : cg_eq.
Check gen_buf_eq_array_ref_eq.
Print Assumptions gen_buf_eq_array_ref_eq.

(*@ fn buf_eq_array_mut *)
Lemma gen_buf_eq_array_mut_eq : forall x0 x1 s w, gen_buf_eq_array_mut x0 x1 s w = buf_eq_array_mut x0 x1 s w.
Proof. core_eq_mod gen_buf_eq_array_mut buf_eq_array_mut. Qed.
#[export] Hint Rewrite gen_buf_eq_array_mut_eq : cg_eq.
Check gen_buf_eq_array_mut_eq.
Print Assumptions gen_buf_eq_array_mut_eq.

(*@ fn Iter_fmt *)
Lemma gen_Iter_fmt_eq : forall x1 s w, gen_Iter_fmt x1 s w = iter_fmt x1 s w.
Proof. traits_eq ltac:(cbv beta iota zeta delta [gen_Iter_fmt gen_len gen_iter gen_Iter_new gen_ref_into_iter gen_Iter_clone]). Qed.
#[export] Hint Rewrite gen_Iter_fmt_eq : cg_eq.
Check gen_Iter_fmt_eq.
Print Assumptions gen_Iter_fmt_eq.

(*@ fn IterMut_fmt *)
Lemma gen_IterMut_fmt_eq : forall x1 s w, gen_IterMut_fmt x1 s w = iter_mut_fmt x1 s w.
Proof. traits_eq ltac:(cbv beta iota zeta delta [gen_IterMut_fmt]). Qed.
#[export] Hint Rewrite gen_IterMut_fmt_eq : cg_eq.
Check gen_IterMut_fmt_eq.
Print Assumptions gen_IterMut_fmt_eq.

(*@ fn IntoIter_fmt *)
Lemma gen_IntoIter_fmt_eq : forall  s w, gen_IntoIter_fmt s w = into_iter_fmt s w.
Proof. core_eq_mod gen_IntoIter_fmt into_iter_fmt. Qed.
#[export] Hint Rewrite gen_IntoIter_fmt_eq : cg_eq.
Check gen_IntoIter_fmt_eq.
Print Assumptions gen_IntoIter_fmt_eq.

(*@ fn Drain_fmt *)
Lemma gen_Drain_fmt_eq : forall x1 s w, gen_Drain_fmt x1 s w = drain_fmt x1 s w.
Proof. traits_eq ltac:(cbv beta iota zeta delta [gen_Drain_fmt]). Qed.
#[export] Hint Rewrite gen_Drain_fmt_eq : cg_eq.
Check gen_Drain_fmt_eq.
Print Assumptions gen_Drain_fmt_eq.

(*@ fn extend *)
(* an `I: IntoIterator<Item = T>` is rendered as the function that runs a closure on every item (see
   CoreGen.v); the model's extend is about a user iterator that owns the items: gen_user_for_each *)
Lemma gen_user_for_each_push : forall body,
  (forall a s w, body a s w = push_back_discard a s w) ->
  forall xs s w, gen_user_for_each xs body s w = extend_loop xs s w.
Proof.
  intros body Hb. induction xs as [|x rest IH]; intros s w; cbn [gen_user_for_each extend_loop];
  (apply bind_ext; [reflexivity|intros _ s1 w1]); [reflexivity|].
  apply bind_ext; [|intros _ s2 w2; apply IH].
  apply on_unwind_ext; [apply Hb|reflexivity].
Qed.
Check gen_user_for_each_push. Print Assumptions gen_user_for_each_push.
Lemma gen_extend_eq : forall x1 s w, gen_extend (gen_user_for_each x1) s w = extend x1 s w.
Proof. intros. unfold gen_extend, extend. apply gen_user_for_each_push. body_eq. Qed.
Check gen_extend_eq.
Print Assumptions gen_extend_eq.

(*@ fn extend_ref *)
Lemma gen_extend_ref_eq : forall x1 s w, gen_extend_ref (gen_refs_for_each x1) s w = extend_ref x1 s w.
Proof.
  unfold gen_extend_ref. induction x1 as [|x rest IH]; intros s w; cbn [gen_refs_for_each extend_ref]; [reflexivity|].
  cbv beta delta [bind ret]. autorewrite with cg_eq.
  destruct (push_back x s w) as [[[a|p] s2] w2]; [apply IH|reflexivity].
Qed.
Check gen_extend_ref_eq.
Print Assumptions gen_extend_ref_eq.

(*@ fn clone_from *)
Lemma gen_clone_from_eq : forall x1 s w, gen_clone_from x1 s w = clone_from x1 s w.
Proof.
  intros. unfold gen_clone_from, clone_from.
  apply bind_ext; [apply gen_clear_eq|intros _ s1 w1].
  apply bind_ext; [apply with_buf_ext; apply gen_iter_eq|intros [it b] s2 w2].
  cbv zeta. unfold gen_extend. apply cloned_for_each_ext. body_eq.
Qed.
Check gen_clone_from_eq.
Print Assumptions gen_clone_from_eq.

(*@ fn from_iter *)
(* a constructor runs on the memory that receives its result, whatever it holds (sz, st, junk) *)
Lemma gen_from_iter_eq : forall n sz st junk x1 s w,
  ('(_, b) <- with_buf (mkB n sz st junk) (gen_from_iter (gen_user_for_each x1));; ret b) s w = from_iter n junk x1 s w.
Proof.
  intros. unfold from_iter. apply bind_ext; [|reflexivity].
  intros s1 w1. unfold with_buf, gen_from_iter. cbv beta delta [bind]. rewrite gen_new_eq.
  cbn [cap items].
  rewrite (on_unwind_ext _ _ (extend_loop x1) _ drop_buf);
    [reflexivity | apply gen_user_for_each_push; body_eq | apply gen_buf_drop_eq].
Qed.
Check gen_from_iter_eq.
Print Assumptions gen_from_iter_eq.

(*@ fn clone *)
(* the memory that receives the clone is a parameter; for memory of the capacity of the type,
   whatever it holds (sz, st, junk), the result is the model's *)
Lemma gen_clone_eq : forall sz st junk s w, gen_clone (mkB (cap s) sz st junk) s w = clone_buf junk s w.
Proof.
  intros. unfold gen_clone, clone_buf.
  cbv beta delta [bind get get_size]. rewrite gen_iter_eq. unfold iter_new. cbv beta delta [bind].
  destruct (ro_as_slices s w) as (o & E). rewrite E.
  destruct o as [[r l]|p]; [|reflexivity]. cbv beta iota zeta delta [ret].
  unfold with_buf, gen_from_iter. cbv beta delta [bind]. rewrite gen_new_eq. cbn [cap items].
  rewrite (on_unwind_ext _ _ (cloned_for_each (S (Z.to_nat (size s))) s (mkI r l) push_back_discard) _ drop_buf);
    [reflexivity | apply cloned_for_each_ext; body_eq | apply gen_buf_drop_eq].
Qed.
Check gen_clone_eq.
Print Assumptions gen_clone_eq.

