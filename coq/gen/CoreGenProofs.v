(* CoreGenProofs.v — the hand-written model of the core functions of src/lib.rs
   (theories/Buf.v) is the model that tools/rs2coq_core regenerates from the
   source text on every run (CoreGen.v: gen_add_mod, ..., gen_make_contiguous).

   This file is a template: it is never compiled in the tracked tree. The check
   (tools/coregen.py) splits it at the markers (*@ ... *), and compiles, in a
   cache directory next to the freshly generated CoreGen.v,
       CGCommon.v       the part "common"  (tactics and frame lemmas; independent
                        of CoreGen.v)
       CG_<f>.v         "prelude" + the sections of the arithmetic functions f
                        calls + the section "fn <f>", one file per translated
                        function, so that a failure names its function
   with   coqc -Q coq/theories CB -Q <cachedir> CBG <file>.
   On the unchanged source the file also compiles as a whole.

   Every lemma is   gen_f args s w = f args s w   for all arguments, states and
   worlds: pointwise equality of the two state transformers, no functional
   extensionality, no axioms (each is followed by Print Assumptions).

   How they are proved. Where the two terms are convertible, by reflexivity.
   Otherwise by symbolic execution (core_eq): the state and the world are split
   into their fields, every definition of both sides is opened down to the
   machine operations, and then, repeatedly, the test on which the evaluation of
   either side is stuck is decided both ways (a test already decided is not
   decided again). uadd / usub / umul / add_mod / sub_mod are not opened: they
   leave state and world alone (frame lemmas, proved below once), so only their
   result is split into Ok / Panic. Every path ends in two closed triples
   (outcome, state, world), compared by reflexivity; when the two sides decided
   equivalent tests that are written differently (0 == self.size), the
   impossible combinations are closed by lia. No monad law is needed as a
   rewrite: bind, ret and the accessors compute. *)

(*@ common *)
From CB Require Import Machine Buf.
From Coq Require Import ZifyBool.
Open Scope Z_scope.

(* the result of a computation that neither reads (beyond cap and dbg) nor
   writes the state and the world *)
Definition pure_res {A} (m : M A) (n : Z) (d : bool) : outcome A :=
  fst (fst (m (mkB n 0 0 (fun _ => mkE 0 0)) (mkW d 0 [] None))).

(* the term on which the evaluation of t is stuck *)
Ltac cg_inner t :=
  lazymatch t with
  | match ?x with _ => _ end => cg_inner x
  | (match ?x with _ => _ end) _ _ => cg_inner x
  | (?a, _, _) => cg_inner a
  | _ => t
  end.

Ltac cg_is_stuck t :=
  lazymatch t with
  | match _ with _ => _ end => idtac
  | (match _ with _ => _ end) _ _ => idtac
  | (?a, _, _) => cg_is_stuck a
  end.

Ltac cg_rdx :=
  cbv beta iota zeta delta [cap size start items dbg next_id log fault fst snd].

(* the machine operations and the hand-written model, opened; not opened:
   uadd usub umul add_mod sub_mod (frame lemmas), drop_range (no generated
   counterpart), and the store functions s_write s_copy s_swap s_rotate_left *)
Ltac cg_open :=
  cbv beta iota zeta delta
    [bind ret panic get put get_cap get_size get_start set_size set_start set_items get_items
     dassert assert_ urem overflowing_add checked_add checked_sub b2z andb orb negb
     items_slice sl_range sl_split_at sl_index idx read_slot write_slot raw_copy empty_slice
     b_size b_start b_items cap size start items dbg next_id log fault soff slen fst snd
     len capacity is_empty is_full make_contiguous as_slices as_mut_slices
     front_maybe_uninit_mut front_maybe_uninit back_maybe_uninit back_maybe_uninit_mut
     get_maybe_uninit get_maybe_uninit_mut slices_uninit_mut inc_start dec_start inc_size dec_size
     back back_mut front front_mut get_ get_mut nth_front nth_front_mut nth_back nth_back_mut
     push_back try_push_back push_front try_push_front pop_back pop_front remove swap
     swap_remove_back swap_remove_front truncate_back truncate_front clear].

Create HintDb cg_eq discriminated.

Ltac cg_split c :=
  lazymatch goal with
  | H : c = _ |- _ => rewrite H
  | _ => destruct c eqn:?
  end; cg_rdx.

Ltac cg_frame_rewrite c := fail.   (* redefined after the frame lemmas *)

Ltac cg_step_side t :=
  cg_is_stuck t;
  let c := cg_inner t in
  lazymatch type of c with
  | (outcome _ * cbuf * world)%type =>
    first [ cg_frame_rewrite c; cg_rdx
          | progress (autorewrite with cg_eq); cg_rdx
          | cg_split c ]
  | _ => cg_split c
  end.

Ltac cg_step :=
  lazymatch goal with
  | |- ?L = ?R => first [ cg_step_side L | cg_step_side R ]
  end.

Ltac cg_finish :=
  first [ reflexivity
        | repeat match goal with u : unit |- _ => destruct u end; reflexivity
        | exfalso; congruence
        | exfalso; lia
        | repeat f_equal; lia
        | lazymatch goal with |- ?L = ?R => fail 1000 "the two sides differ on a path:" L "<>" R end ].

Ltac cg_run := tryif cg_step then cg_run else cg_finish.

(* ---- frame lemmas: these operations leave state and world alone ---------- *)

Ltac cg_frame_tac :=
  intros;
  lazymatch goal with
  | s : cbuf, w : world |- _ =>
    destruct s as [cap0 size0 start0 items0]; destruct w as [dbg0 nid0 log0 fault0]
  end;
  unfold pure_res;
  cbv beta iota zeta delta
    [bind ret panic dassert urem uadd usub umul overflowing_add b2z andb orb negb fst snd dbg cap
     add_mod];
  cg_run.

Lemma uadd_frame x y s w : uadd x y s w = (pure_res (uadd x y) (cap s) (dbg w), s, w).
Proof. cg_frame_tac. Qed.
Lemma usub_frame x y s w : usub x y s w = (pure_res (usub x y) (cap s) (dbg w), s, w).
Proof. cg_frame_tac. Qed.
Lemma umul_frame x y s w : umul x y s w = (pure_res (umul x y) (cap s) (dbg w), s, w).
Proof. cg_frame_tac. Qed.
Lemma add_mod_frame x y m s w :
  add_mod x y m s w = (pure_res (add_mod x y m) (cap s) (dbg w), s, w).
Proof. cg_frame_tac. Qed.

Ltac cg_frame_rewrite c ::=
  lazymatch c with
  | uadd _ _ _ _ => rewrite uadd_frame
  | usub _ _ _ _ => rewrite usub_frame
  | umul _ _ _ _ => rewrite umul_frame
  | add_mod _ _ _ _ _ => rewrite add_mod_frame
  end.

Lemma sub_mod_frame x y m s w :
  sub_mod x y m s w = (pure_res (sub_mod x y m) (cap s) (dbg w), s, w).
Proof.
  intros. destruct s as [cap0 size0 start0 items0]; destruct w as [dbg0 nid0 log0 fault0].
  unfold pure_res, sub_mod.
  cbv beta iota zeta delta [bind ret panic dassert andb orb negb fst snd dbg cap].
  cg_run.
Qed.

Ltac cg_frame_rewrite c ::=
  lazymatch c with
  | uadd _ _ _ _ => rewrite uadd_frame
  | usub _ _ _ _ => rewrite usub_frame
  | umul _ _ _ _ => rewrite umul_frame
  | add_mod _ _ _ _ _ => rewrite add_mod_frame
  | sub_mod _ _ _ _ _ => rewrite sub_mod_frame
  end.

Check uadd_frame. Print Assumptions uadd_frame.
Check usub_frame. Print Assumptions usub_frame.
Check umul_frame. Print Assumptions umul_frame.
Check add_mod_frame. Print Assumptions add_mod_frame.
Check sub_mod_frame. Print Assumptions sub_mod_frame.

(*@ prelude *)
(* in the whole-file build the common part is above; in the split build it is
   the compiled CGCommon.v *)
From CB Require Import Machine Buf.
From Coq Require Import ZifyBool.
From CBG Require Import CoreGen.
Open Scope Z_scope.

(* gen_f = f for every argument, state and world. [coregen_unfold] (generated,
   at the end of CoreGen.v) opens every gen_ definition except the two
   arithmetic ones, which are rewritten to the model's (Hint Rewrite ... :
   cg_eq in their sections) when the evaluation reaches them. *)
Ltac core_eq :=
  intros;
  first
    [ reflexivity
    | lazymatch goal with
      | s : cbuf, w : world |- _ =>
        destruct s as [cap0 size0 start0 items0]; destruct w as [dbg0 nid0 log0 fault0]
      end;
      timeout 200 (coregen_unfold; cg_open; cg_run) ].

(*@ fn add_mod *)
Lemma gen_add_mod_eq : forall x y m s w, gen_add_mod x y m s w = add_mod x y m s w.
Proof.
  intros; first
    [ reflexivity
    | destruct s as [cap0 size0 start0 items0]; destruct w as [dbg0 nid0 log0 fault0];
      unfold gen_add_mod, add_mod;
      timeout 200 (cbv beta iota zeta delta
        [bind ret panic dassert urem overflowing_add checked_add checked_sub b2z andb orb negb
         fst snd dbg cap]; cg_run) ].
Qed.
#[export] Hint Rewrite gen_add_mod_eq : cg_eq.
Check gen_add_mod_eq.
Print Assumptions gen_add_mod_eq.

(*@ fn sub_mod *)
Lemma gen_sub_mod_eq : forall x y m s w, gen_sub_mod x y m s w = sub_mod x y m s w.
Proof.
  intros; first
    [ reflexivity
    | destruct s as [cap0 size0 start0 items0]; destruct w as [dbg0 nid0 log0 fault0];
      unfold gen_sub_mod, sub_mod;
      timeout 200 (cbv beta iota zeta delta
        [bind ret panic dassert urem overflowing_add checked_add checked_sub b2z andb orb negb
         fst snd dbg cap]; cg_run) ].
Qed.
#[export] Hint Rewrite gen_sub_mod_eq : cg_eq.
Check gen_sub_mod_eq.
Print Assumptions gen_sub_mod_eq.

(*@ fn len *)
Lemma gen_len_eq : forall s w, gen_len s w = len s w.
Proof. core_eq. Qed.
Check gen_len_eq.
Print Assumptions gen_len_eq.

(*@ fn capacity *)
Lemma gen_capacity_eq : forall s w, gen_capacity s w = capacity s w.
Proof. core_eq. Qed.
Check gen_capacity_eq.
Print Assumptions gen_capacity_eq.

(*@ fn is_empty *)
Lemma gen_is_empty_eq : forall s w, gen_is_empty s w = is_empty s w.
Proof. core_eq. Qed.
Check gen_is_empty_eq.
Print Assumptions gen_is_empty_eq.

(*@ fn is_full *)
Lemma gen_is_full_eq : forall s w, gen_is_full s w = is_full s w.
Proof. core_eq. Qed.
Check gen_is_full_eq.
Print Assumptions gen_is_full_eq.

(*@ fn inc_start *)
Lemma gen_inc_start_eq : forall s w, gen_inc_start s w = inc_start s w.
Proof. core_eq. Qed.
Check gen_inc_start_eq.
Print Assumptions gen_inc_start_eq.

(*@ fn dec_start *)
Lemma gen_dec_start_eq : forall s w, gen_dec_start s w = dec_start s w.
Proof. core_eq. Qed.
Check gen_dec_start_eq.
Print Assumptions gen_dec_start_eq.

(*@ fn inc_size *)
Lemma gen_inc_size_eq : forall s w, gen_inc_size s w = inc_size s w.
Proof. core_eq. Qed.
Check gen_inc_size_eq.
Print Assumptions gen_inc_size_eq.

(*@ fn dec_size *)
Lemma gen_dec_size_eq : forall s w, gen_dec_size s w = dec_size s w.
Proof. core_eq. Qed.
Check gen_dec_size_eq.
Print Assumptions gen_dec_size_eq.

(*@ fn front_maybe_uninit *)
Lemma gen_front_maybe_uninit_eq : forall s w, gen_front_maybe_uninit s w = front_maybe_uninit s w.
Proof. core_eq. Qed.
Check gen_front_maybe_uninit_eq.
Print Assumptions gen_front_maybe_uninit_eq.

(*@ fn front_maybe_uninit_mut *)
Lemma gen_front_maybe_uninit_mut_eq : forall s w, gen_front_maybe_uninit_mut s w = front_maybe_uninit_mut s w.
Proof. core_eq. Qed.
Check gen_front_maybe_uninit_mut_eq.
Print Assumptions gen_front_maybe_uninit_mut_eq.

(*@ fn back_maybe_uninit *)
Lemma gen_back_maybe_uninit_eq : forall s w, gen_back_maybe_uninit s w = back_maybe_uninit s w.
Proof. core_eq. Qed.
Check gen_back_maybe_uninit_eq.
Print Assumptions gen_back_maybe_uninit_eq.

(*@ fn back_maybe_uninit_mut *)
Lemma gen_back_maybe_uninit_mut_eq : forall s w, gen_back_maybe_uninit_mut s w = back_maybe_uninit_mut s w.
Proof. core_eq. Qed.
Check gen_back_maybe_uninit_mut_eq.
Print Assumptions gen_back_maybe_uninit_mut_eq.

(*@ fn get_maybe_uninit *)
Lemma gen_get_maybe_uninit_eq : forall index s w, gen_get_maybe_uninit index s w = get_maybe_uninit index s w.
Proof. core_eq. Qed.
Check gen_get_maybe_uninit_eq.
Print Assumptions gen_get_maybe_uninit_eq.

(*@ fn get_maybe_uninit_mut *)
Lemma gen_get_maybe_uninit_mut_eq : forall index s w, gen_get_maybe_uninit_mut index s w = get_maybe_uninit_mut index s w.
Proof. core_eq. Qed.
Check gen_get_maybe_uninit_mut_eq.
Print Assumptions gen_get_maybe_uninit_mut_eq.

(*@ fn back *)
Lemma gen_back_eq : forall s w, gen_back s w = back s w.
Proof. core_eq. Qed.
Check gen_back_eq.
Print Assumptions gen_back_eq.

(*@ fn back_mut *)
Lemma gen_back_mut_eq : forall s w, gen_back_mut s w = back_mut s w.
Proof. core_eq. Qed.
Check gen_back_mut_eq.
Print Assumptions gen_back_mut_eq.

(*@ fn front *)
Lemma gen_front_eq : forall s w, gen_front s w = front s w.
Proof. core_eq. Qed.
Check gen_front_eq.
Print Assumptions gen_front_eq.

(*@ fn front_mut *)
Lemma gen_front_mut_eq : forall s w, gen_front_mut s w = front_mut s w.
Proof. core_eq. Qed.
Check gen_front_mut_eq.
Print Assumptions gen_front_mut_eq.

(*@ fn get *)
Lemma gen_get_eq : forall index s w, gen_get index s w = get_ index s w.
Proof. core_eq. Qed.
Check gen_get_eq.
Print Assumptions gen_get_eq.

(*@ fn get_mut *)
Lemma gen_get_mut_eq : forall index s w, gen_get_mut index s w = get_mut index s w.
Proof. core_eq. Qed.
Check gen_get_mut_eq.
Print Assumptions gen_get_mut_eq.

(*@ fn nth_front *)
Lemma gen_nth_front_eq : forall index s w, gen_nth_front index s w = nth_front index s w.
Proof. core_eq. Qed.
Check gen_nth_front_eq.
Print Assumptions gen_nth_front_eq.

(*@ fn nth_front_mut *)
Lemma gen_nth_front_mut_eq : forall index s w, gen_nth_front_mut index s w = nth_front_mut index s w.
Proof. core_eq. Qed.
Check gen_nth_front_mut_eq.
Print Assumptions gen_nth_front_mut_eq.

(*@ fn nth_back *)
Lemma gen_nth_back_eq : forall index s w, gen_nth_back index s w = nth_back index s w.
Proof. core_eq. Qed.
Check gen_nth_back_eq.
Print Assumptions gen_nth_back_eq.

(*@ fn nth_back_mut *)
Lemma gen_nth_back_mut_eq : forall index s w, gen_nth_back_mut index s w = nth_back_mut index s w.
Proof. core_eq. Qed.
Check gen_nth_back_mut_eq.
Print Assumptions gen_nth_back_mut_eq.

(*@ fn push_back *)
Lemma gen_push_back_eq : forall item s w, gen_push_back item s w = push_back item s w.
Proof. core_eq. Qed.
Check gen_push_back_eq.
Print Assumptions gen_push_back_eq.

(*@ fn try_push_back *)
Lemma gen_try_push_back_eq : forall item s w, gen_try_push_back item s w = try_push_back item s w.
Proof. core_eq. Qed.
Check gen_try_push_back_eq.
Print Assumptions gen_try_push_back_eq.

(*@ fn push_front *)
Lemma gen_push_front_eq : forall item s w, gen_push_front item s w = push_front item s w.
Proof. core_eq. Qed.
Check gen_push_front_eq.
Print Assumptions gen_push_front_eq.

(*@ fn try_push_front *)
Lemma gen_try_push_front_eq : forall item s w, gen_try_push_front item s w = try_push_front item s w.
Proof. core_eq. Qed.
Check gen_try_push_front_eq.
Print Assumptions gen_try_push_front_eq.

(*@ fn pop_back *)
Lemma gen_pop_back_eq : forall s w, gen_pop_back s w = pop_back s w.
Proof. core_eq. Qed.
Check gen_pop_back_eq.
Print Assumptions gen_pop_back_eq.

(*@ fn pop_front *)
Lemma gen_pop_front_eq : forall s w, gen_pop_front s w = pop_front s w.
Proof. core_eq. Qed.
Check gen_pop_front_eq.
Print Assumptions gen_pop_front_eq.

(*@ fn swap *)
Lemma gen_swap_eq : forall i j s w, gen_swap i j s w = swap i j s w.
Proof. core_eq. Qed.
Check gen_swap_eq.
Print Assumptions gen_swap_eq.

(*@ fn swap_remove_back *)
Lemma gen_swap_remove_back_eq : forall index s w, gen_swap_remove_back index s w = swap_remove_back index s w.
Proof. core_eq. Qed.
Check gen_swap_remove_back_eq.
Print Assumptions gen_swap_remove_back_eq.

(*@ fn swap_remove_front *)
Lemma gen_swap_remove_front_eq : forall index s w, gen_swap_remove_front index s w = swap_remove_front index s w.
Proof. core_eq. Qed.
Check gen_swap_remove_front_eq.
Print Assumptions gen_swap_remove_front_eq.

(*@ fn truncate_back *)
Lemma gen_truncate_back_eq : forall n s w, gen_truncate_back n s w = truncate_back n s w.
Proof. core_eq. Qed.
Check gen_truncate_back_eq.
Print Assumptions gen_truncate_back_eq.

(*@ fn truncate_front *)
Lemma gen_truncate_front_eq : forall n s w, gen_truncate_front n s w = truncate_front n s w.
Proof. core_eq. Qed.
Check gen_truncate_front_eq.
Print Assumptions gen_truncate_front_eq.

(*@ fn clear *)
Lemma gen_clear_eq : forall s w, gen_clear s w = clear s w.
Proof. core_eq. Qed.
Check gen_clear_eq.
Print Assumptions gen_clear_eq.

(*@ fn remove *)
Lemma gen_remove_eq : forall index s w, gen_remove index s w = remove index s w.
Proof. core_eq. Qed.
Check gen_remove_eq.
Print Assumptions gen_remove_eq.

(*@ fn as_slices *)
Lemma gen_as_slices_eq : forall s w, gen_as_slices s w = as_slices s w.
Proof. core_eq. Qed.
Check gen_as_slices_eq.
Print Assumptions gen_as_slices_eq.

(*@ fn as_mut_slices *)
Lemma gen_as_mut_slices_eq : forall s w, gen_as_mut_slices s w = as_mut_slices s w.
Proof. core_eq. Qed.
Check gen_as_mut_slices_eq.
Print Assumptions gen_as_mut_slices_eq.

(*@ fn slices_uninit_mut *)
Lemma gen_slices_uninit_mut_eq : forall s w, gen_slices_uninit_mut s w = slices_uninit_mut s w.
Proof. core_eq. Qed.
Check gen_slices_uninit_mut_eq.
Print Assumptions gen_slices_uninit_mut_eq.

(*@ fn make_contiguous *)
Lemma gen_make_contiguous_eq : forall s w, gen_make_contiguous s w = make_contiguous s w.
Proof. core_eq. Qed.
Check gen_make_contiguous_eq.
Print Assumptions gen_make_contiguous_eq.

