(* AbsLemmas.v — the abstraction function [abs] and physical positions:
   length, pointwise reading, injectivity of [phys], and how the elementary
   state changes (write a slot, move an end) act on the abstract list. *)

From CB Require Import Spec.
From CBP Require Import MonadLemmas Arith.
From Coq Require Import ZifyBool.

Definition dflt : elem := mkE 0 0.

(* ---- zseq -------------------------------------------------------------------- *)

Lemma zseq_map_seq a n : zseq a n = map (fun i => a + Z.of_nat i) (seq 0 n).
Proof.
  revert a. induction n as [|n IH]; intros a; cbn [zseq seq map]; [reflexivity|].
  f_equal; [lia|]. rewrite IH, <- seq_shift, map_map. apply map_ext. intros. lia.
Qed.

Lemma zseq_length a n : length (zseq a n) = n.
Proof. rewrite zseq_map_seq. rewrite map_length, seq_length. reflexivity. Qed.

Lemma nth_map_lt {A B} (f : A -> B) l k d d0 :
  (k < length l)%nat -> nth k (map f l) d = f (nth k l d0).
Proof.
  revert k. induction l as [|x l IH]; intros k H; cbn in *; [lia|].
  destruct k; [reflexivity|]. apply IH. lia.
Qed.

Lemma zseq_nth a n i d : (i < n)%nat -> nth i (zseq a n) d = a + Z.of_nat i.
Proof.
  intros H. rewrite zseq_map_seq.
  rewrite nth_map_lt with (d0 := 0%nat) by (rewrite seq_length; exact H).
  rewrite seq_nth by exact H. reflexivity.
Qed.

Lemma zseq_S a n : zseq a (S n) = zseq a n ++ [a + Z.of_nat n].
Proof. rewrite !zseq_map_seq. rewrite seq_S, map_app. reflexivity. Qed.

Lemma zseq_cons a n : zseq a (S n) = a :: zseq (a + 1) n.
Proof. reflexivity. Qed.

(* ---- abs ------------------------------------------------------------------------ *)

Lemma abs_length s : length (abs s) = Z.to_nat (size s).
Proof. unfold abs. rewrite map_length, zseq_length. reflexivity. Qed.

Lemma abs_zlen s : 0 <= size s -> zlen (abs s) = size s.
Proof. intros. unfold zlen. rewrite abs_length. lia. Qed.

Lemma abs_nth s i d :
  (i < Z.to_nat (size s))%nat -> nth i (abs s) d = items s (phys s (Z.of_nat i)).
Proof.
  intros H. unfold abs.
  rewrite nth_map_lt with (d0 := 0) by (rewrite zseq_length; exact H).
  rewrite zseq_nth by exact H. reflexivity.
Qed.

Lemma abs_nth_error s i :
  (i < Z.to_nat (size s))%nat -> nth_error (abs s) i = Some (items s (phys s (Z.of_nat i))).
Proof.
  intros H. rewrite nth_error_nth' with (d := dflt) by (rewrite abs_length; exact H).
  rewrite abs_nth by exact H. reflexivity.
Qed.

(* two states with the same bookkeeping and the same occupied slots *)
Lemma abs_ext s1 s2 :
  size s1 = size s2 ->
  (forall i, 0 <= i < size s1 -> items s1 (phys s1 i) = items s2 (phys s2 i)) ->
  abs s1 = abs s2.
Proof.
  intros Hs H. unfold abs. rewrite <- Hs.
  apply map_ext_in. intros i Hi. rewrite zseq_map_seq in Hi. apply in_map_iff in Hi. destruct Hi as (k & <- & Hk).
  apply in_seq in Hk. apply H. lia.
Qed.

(* list equality from pointwise equality, in Z *)
Lemma list_ext_Z (l1 l2 : list elem) :
  length l1 = length l2 ->
  (forall i, 0 <= i < zlen l1 -> nth (Z.to_nat i) l1 dflt = nth (Z.to_nat i) l2 dflt) ->
  l1 = l2.
Proof.
  intros Hl H. apply nth_ext with (d := dflt) (d' := dflt); [exact Hl|].
  intros n Hn. specialize (H (Z.of_nat n)). rewrite Nat2Z.id in H. apply H.
  unfold zlen. lia.
Qed.

Lemma abs_nth_Z s i :
  0 <= i < size s -> nth (Z.to_nat i) (abs s) dflt = items s (phys s i).
Proof. intros H. rewrite abs_nth by lia. rewrite Z2Nat.id by lia. reflexivity. Qed.

(* ---- phys ------------------------------------------------------------------------ *)

Lemma phys_spec s i :
  0 < cap s -> 0 <= start s < cap s -> 0 <= i <= cap s ->
  (start s + i < cap s /\ phys s i = start s + i) \/
  (cap s <= start s + i /\ phys s i = start s + i - cap s).
Proof. intros. unfold phys. apply mod_small_or_wrap; lia. Qed.

Lemma phys_range s i : 0 < cap s -> 0 <= phys s i < cap s.
Proof. intros. unfold phys. apply Z.mod_pos_bound. lia. Qed.

Lemma phys_inj s i j :
  0 < cap s -> 0 <= start s < cap s -> 0 <= i < cap s -> 0 <= j < cap s ->
  phys s i = phys s j -> i = j.
Proof.
  intros Hc Hs Hi Hj H.
  destruct (phys_spec s i) as [[? Ei]|[? Ei]]; try lia;
    destruct (phys_spec s j) as [[? Ej]|[? Ej]]; try lia; lia.
Qed.

Lemma WF_start s : WF s -> 0 < cap s -> 0 <= start s < cap s.
Proof. intros (_ & _ & _ & H) Hc. auto. Qed.

Lemma WF_cap s : WF s -> 0 <= cap s < W.
Proof. intros (H & _). exact H. Qed.

Lemma WF_size s : WF s -> 0 <= size s <= cap s.
Proof. intros (_ & H & _). exact H. Qed.
