(* AbsOps.v — how the elementary state changes act on the abstract list:
   appending / removing at either end, overwriting one position. *)

From CB Require Import Spec.
From CBP Require Import MonadLemmas Arith AbsLemmas ListLemmas.
From Coq Require Import ZifyBool.
Ltac Zify.zify_post_hook ::= Z.div_mod_to_equations.

Ltac slia := cbn [size cap start items b_size b_items b_start]; unfold zlen; cbn [length]; lia.

Lemma phys_mkB c z st f i : phys (mkB c z st f) i = (st + i) mod c.
Proof. reflexivity. Qed.

Lemma phys_b_items s f i : phys (b_items s f) i = phys s i.
Proof. reflexivity. Qed.

Lemma phys_b_size s z i : phys (b_size s z) i = phys s i.
Proof. reflexivity. Qed.

Lemma phys_neq s i j :
  0 < cap s -> 0 <= start s < cap s -> 0 <= i < cap s -> 0 <= j < cap s -> i <> j ->
  (phys s i =? phys s j) = false.
Proof. intros. apply Z.eqb_neq. intro E. apply phys_inj in E; lia. Qed.

(* a new element behind the back *)
Lemma abs_push_back s x :
  0 < cap s -> 0 <= start s < cap s -> 0 <= size s < cap s ->
  abs (mkB (cap s) (size s + 1) (start s) (s_write (items s) (phys s (size s)) x))
  = abs s ++ [x].
Proof.
  intros Hc Hs Hz. apply zn_ext.
  - rewrite zlen_app, !abs_zlen by slia. slia.
  - intros i Hi. rewrite abs_zlen in Hi by slia. cbn [size] in Hi.
    rewrite zn_abs by slia. rewrite phys_mkB. fold (phys s i). cbn [items]. unfold s_write.
    destruct (Z.eq_dec i (size s)) as [->|Hne].
    + rewrite Z.eqb_refl. rewrite zn_app2 by (rewrite abs_zlen; lia).
      rewrite abs_zlen by lia. replace (size s - size s) with 0 by lia. reflexivity.
    + rewrite phys_neq by lia.
      rewrite zn_app1 by (rewrite abs_zlen; lia). rewrite zn_abs by lia. reflexivity.
Qed.

(* dropping the back *)
Lemma abs_pop_back s :
  0 < size s -> abs (b_size s (size s - 1)) = removelast (abs s).
Proof.
  intros Hz. apply zn_ext.
  - rewrite zlen_removelast, !abs_zlen by slia. slia.
  - intros i Hi. rewrite abs_zlen in Hi by slia. cbn [size b_size] in Hi.
    rewrite zn_abs by slia.
    rewrite zn_removelast by (rewrite abs_zlen; lia). rewrite zn_abs by lia. reflexivity.
Qed.

(* dropping the front *)
Lemma abs_pop_front s :
  0 < cap s -> 0 <= start s < cap s -> 0 < size s <= cap s ->
  abs (mkB (cap s) (size s - 1) ((start s + 1) mod cap s) (items s)) = tl (abs s).
Proof.
  intros Hc Hs Hz. apply zn_ext.
  - rewrite zlen_tl, !abs_zlen by slia. slia.
  - intros i Hi. rewrite abs_zlen in Hi by slia. cbn [size] in Hi.
    rewrite zn_abs by slia. rewrite phys_mkB. cbn [items].
    rewrite zn_tl by lia. rewrite zn_abs by lia. unfold phys.
    f_equal. rewrite Zplus_mod_idemp_l. f_equal. lia.
Qed.

(* a new element before the front *)
Lemma abs_push_front s x :
  0 < cap s -> 0 <= start s < cap s -> 0 <= size s < cap s ->
  let st' := (start s + (cap s - 1)) mod cap s in
  abs (mkB (cap s) (size s + 1) st' (s_write (items s) st' x)) = x :: abs s.
Proof.
  intros Hc Hs Hz st'. apply zn_ext.
  - rewrite zlen_cons, !abs_zlen by slia. slia.
  - intros i Hi. rewrite abs_zlen in Hi by slia. cbn [size] in Hi.
    rewrite zn_abs by slia. rewrite phys_mkB. cbn [items]. unfold s_write.
    destruct (Z.eq_dec i 0) as [->|Hne].
    + rewrite Z.add_0_r. subst st'. rewrite Z.mod_mod by lia. rewrite Z.eqb_refl. reflexivity.
    + rewrite zn_consS by lia. rewrite zn_abs by lia.
      assert (E : (st' + i) mod cap s = phys s (i - 1)).
      { subst st'. unfold phys. rewrite Zplus_mod_idemp_l.
        replace (start s + (cap s - 1) + i) with (start s + (i - 1) + 1 * cap s) by lia.
        apply Z.mod_add. lia. }
      rewrite E.
      assert (E0 : st' = phys s (cap s - 1)) by reflexivity.
      rewrite E0. clear E E0. clearbody st'. rewrite phys_neq by lia. reflexivity.
Qed.

(* overwriting one position *)
Lemma abs_set s i v :
  0 < cap s -> 0 <= start s < cap s -> 0 <= size s <= cap s -> 0 <= i < size s ->
  abs (b_items s (s_write (items s) (phys s i) v)) = set_nth (Z.to_nat i) v (abs s).
Proof.
  intros Hc Hs Hz Hi. unfold set_nth. rewrite abs_length.
  replace (Z.to_nat i <? Z.to_nat (size s))%nat with true by lia.
  apply zn_ext.
  - rewrite zlen_app, zlen_cons, zlen_firstn, zlen_skipn, !abs_zlen by slia. slia.
  - intros j Hj. rewrite abs_zlen in Hj by slia. cbn [size b_items] in Hj.
    rewrite zn_abs by slia. rewrite phys_b_items. cbn [items b_items]. unfold s_write.
    destruct (Z.compare_spec j i) as [->|Hlt|Hgt].
    + rewrite Z.eqb_refl.
      rewrite zn_app2 by (rewrite zlen_firstn, abs_zlen; lia).
      rewrite zlen_firstn, abs_zlen by lia.
      replace (i - Z.min (Z.of_nat (Z.to_nat i)) (size s)) with 0 by lia. reflexivity.
    + rewrite phys_neq by lia.
      rewrite zn_app1 by (rewrite zlen_firstn, abs_zlen; lia).
      rewrite zn_firstn by lia. rewrite zn_abs by lia. reflexivity.
    + rewrite phys_neq by lia.
      rewrite zn_app2 by (rewrite zlen_firstn, abs_zlen; lia).
      rewrite zlen_firstn, abs_zlen by lia.
      rewrite zn_consS by lia. rewrite zn_skipn by lia. rewrite zn_abs by lia.
      f_equal. f_equal. lia.
Qed.

(* writing outside the occupied range changes nothing *)
Lemma abs_write_free s p v :
  0 < cap s -> 0 <= start s < cap s -> 0 <= size s <= cap s ->
  (forall i, 0 <= i < size s -> phys s i <> p) ->
  abs (b_items s (s_write (items s) p v)) = abs s.
Proof.
  intros Hc Hs Hz Hfree. apply abs_ext; [reflexivity|].
  intros i Hi. cbn [size b_items] in Hi. rewrite phys_b_items. cbn [items b_items].
  unfold s_write.
  replace (phys s i =? p) with false; [reflexivity|].
  symmetry. apply Z.eqb_neq. apply Hfree. exact Hi.
Qed.

(* full buffer: overwrite the front slot and advance the front *)
Lemma abs_push_back_full s x :
  0 < cap s -> 0 <= start s < cap s -> size s = cap s ->
  abs (mkB (cap s) (size s) ((start s + 1) mod cap s) (s_write (items s) (start s) x))
  = tl (abs s) ++ [x].
Proof.
  intros Hc Hs Hz. apply zn_ext.
  - rewrite zlen_app, zlen_tl, !abs_zlen by slia. slia.
  - intros i Hi. rewrite abs_zlen in Hi by slia. cbn [size] in Hi.
    rewrite zn_abs by slia. rewrite phys_mkB. cbn [items]. unfold s_write.
    rewrite Zplus_mod_idemp_l.
    assert (E0 : start s = phys s 0).
    { unfold phys. rewrite Z.add_0_r. symmetry. apply Z.mod_small. lia. }
    destruct (Z.eq_dec i (cap s - 1)) as [->|Hne].
    + replace (start s + 1 + (cap s - 1)) with (start s + 1 * cap s) by lia.
      rewrite Z.mod_add by lia. rewrite Z.mod_small by lia. rewrite Z.eqb_refl.
      rewrite zn_app2 by (rewrite zlen_tl, abs_zlen; lia).
      rewrite zlen_tl, abs_zlen by lia.
      replace (cap s - 1 - Z.max 0 (size s - 1)) with 0 by lia. reflexivity.
    + replace (start s + 1 + i) with (start s + (i + 1)) by lia. fold (phys s (i + 1)).
      rewrite E0. rewrite phys_neq by lia.
      rewrite zn_app1 by (rewrite zlen_tl, abs_zlen; lia).
      rewrite zn_tl by lia. rewrite zn_abs by lia. reflexivity.
Qed.

(* full buffer: overwrite the back slot and move the front back onto it *)
Lemma abs_push_front_full s x :
  0 < cap s -> 0 <= start s < cap s -> size s = cap s ->
  abs (mkB (cap s) (size s) ((start s + (cap s - 1)) mod cap s)
           (s_write (items s) (phys s (size s - 1)) x))
  = x :: removelast (abs s).
Proof.
  intros Hc Hs Hz. apply zn_ext.
  - rewrite zlen_cons, zlen_removelast, !abs_zlen by slia. slia.
  - intros i Hi. rewrite abs_zlen in Hi by slia. cbn [size] in Hi.
    rewrite zn_abs by slia. rewrite phys_mkB. cbn [items]. unfold s_write.
    rewrite Zplus_mod_idemp_l. rewrite Hz.
    destruct (Z.eq_dec i 0) as [->|Hne].
    + rewrite Z.add_0_r. fold (phys s (cap s - 1)). rewrite Z.eqb_refl. reflexivity.
    + assert (E : (start s + (cap s - 1) + i) mod cap s = phys s (i - 1)).
      { unfold phys.
        replace (start s + (cap s - 1) + i) with (start s + (i - 1) + 1 * cap s) by lia.
        apply Z.mod_add. lia. }
      rewrite E. rewrite phys_neq by lia.
      rewrite zn_consS by lia.
      rewrite zn_removelast by (rewrite abs_zlen; lia). rewrite zn_abs by lia. reflexivity.
Qed.
