(* Access.v — operation-level refinement for the observers of the bookkeeping
   (len / is_empty / is_full / capacity) and for element access by position,
   shared and mutable (get / nth_front / nth_back / front / back / Index and
   their _mut forms followed by a write through the returned reference). *)

From CB Require Import Spec.
From CBP Require Import MonadLemmas Arith AbsLemmas ListLemmas AbsOps Core Step RefDefs.
From Coq Require Import ZifyBool.
Ltac Zify.zify_post_hook ::= Z.div_mod_to_equations.

Ltac blem_user ::=
  first [ apply add_mod_ok; mcbn; lia | apply sub_mod_ok; mcbn; lia
        | apply front_maybe_uninit_ok; mcbn; lia
        | apply front_maybe_uninit_mut_ok; mcbn; lia
        | apply back_maybe_uninit_ok; mcbn; lia
        | apply get_maybe_uninit_ok; mcbn; lia ].

(* ---- bookkeeping observers ------------------------------------------------ *)

Lemma out_ok_plain o a b :
  (forall fam, o <> OFillBuf fam) -> erase_out b = a -> out_ok o a b.
Proof. intros H E. destruct o; try exact E. exfalso. eapply H. reflexivity. Qed.

Theorem len_op : refines_op OLen.
Proof.
  intros s w HW Hf _. pose proof HW as HW'. wf HW'.
  unfold refines_at. cbn [spec_step]. rewrite abs_zlen by lia.
  exists (OutZ (size s)), s. cbn [sr_evs sr_nid sr_out sr_list]. rewrite wev_nil.
  split; [reflexivity|]. split; [reflexivity|]. auto.
Qed.

Theorem is_empty_op : refines_op OIsEmpty.
Proof.
  intros s w HW Hf _. pose proof HW as HW'. wf HW'.
  unfold refines_at. cbn [spec_step]. rewrite abs_zlen by lia.
  exists (OutBool (size s =? 0)), s. cbn [sr_evs sr_nid sr_out sr_list]. rewrite wev_nil.
  split; [reflexivity|]. split; [reflexivity|]. auto.
Qed.

Theorem is_full_op : refines_op OIsFull.
Proof.
  intros s w HW Hf _. pose proof HW as HW'. wf HW'.
  unfold refines_at. cbn [spec_step]. rewrite abs_zlen by lia.
  exists (OutBool (size s =? cap s)), s. cbn [sr_evs sr_nid sr_out sr_list]. rewrite wev_nil.
  split; [reflexivity|]. split; [reflexivity|]. auto.
Qed.

Theorem capacity_op : refines_op OCapacity.
Proof.
  intros s w HW Hf _. pose proof HW as HW'. wf HW'.
  unfold refines_at. cbn [spec_step].
  exists (OutZ (cap s)), s. cbn [sr_evs sr_nid sr_out sr_list]. rewrite wev_nil.
  split; [reflexivity|]. split; [reflexivity|]. auto.
Qed.

(* ---- what the accessors return: the slot of a logical position ------------- *)

(* the logical position an accessor resolves to, if any *)
Definition get_pos (s : cbuf) (i : Z) : option Z :=
  if i <? size s then Some i else None.

Definition nth_back_pos (s : cbuf) (i : Z) : option Z :=
  if i <? size s then Some (size s - 1 - i) else None.

Definition front_pos (s : cbuf) : option Z :=
  if size s =? 0 then None else Some 0.

Definition back_pos (s : cbuf) : option Z :=
  if size s =? 0 then None else Some (size s - 1).

Lemma get_ok s w i :
  WF s -> 0 <= i -> get_ i s w = (Ok (option_map (phys s) (get_pos s i)), s, w).
Proof.
  intros HW Hi. wf HW. unfold get_, get_pos. mcbn.
  destruct (Z.eq_dec (cap s) 0) as [Hc0|Hc0].
  - replace ((cap s =? 0) || (size s <=? i)) with true by lia.
    replace (i <? size s) with false by lia. reflexivity.
  - specialize (Hst ltac:(lia)).
    destruct (i <? size s) eqn:E.
    + replace ((cap s =? 0) || (size s <=? i)) with false by lia.
      bsteps.
    + replace ((cap s =? 0) || (size s <=? i)) with true by lia. reflexivity.
Qed.

Lemma get_mut_ok s w i :
  WF s -> 0 <= i -> get_mut i s w = (Ok (option_map (phys s) (get_pos s i)), s, w).
Proof. apply get_ok. Qed.

Lemma nth_front_ok s w i :
  WF s -> 0 <= i -> nth_front i s w = (Ok (option_map (phys s) (get_pos s i)), s, w).
Proof. apply get_ok. Qed.

Lemma nth_front_mut_ok s w i :
  WF s -> 0 <= i -> nth_front_mut i s w = (Ok (option_map (phys s) (get_pos s i)), s, w).
Proof. apply get_ok. Qed.

Lemma nth_back_ok s w i :
  WF s -> 0 <= i -> nth_back i s w = (Ok (option_map (phys s) (nth_back_pos s i)), s, w).
Proof.
  intros HW Hi. pose proof HW as HW'. wf HW'. unfold nth_back, nth_back_pos, checked_sub. mcbn.
  destruct (i <? size s) eqn:E.
  - replace (i <=? size s) with true by lia.
    replace (1 <=? size s - i) with true by lia.
    rewrite get_ok by (auto; lia). unfold get_pos.
    replace (size s - i - 1 <? size s) with true by lia.
    replace (size s - i - 1) with (size s - 1 - i) by lia. reflexivity.
  - destruct (i <=? size s) eqn:E2; [|reflexivity].
    replace (1 <=? size s - i) with false by lia. reflexivity.
Qed.

Lemma nth_back_mut_ok s w i :
  WF s -> 0 <= i -> nth_back_mut i s w = (Ok (option_map (phys s) (nth_back_pos s i)), s, w).
Proof. apply nth_back_ok. Qed.

Lemma front_ok s w :
  WF s -> front s w = (Ok (option_map (phys s) (front_pos s)), s, w).
Proof.
  intros HW. wf HW. unfold front, front_pos. mcbn.
  destruct (Z.eq_dec (size s) 0) as [Hz|Hz].
  - replace ((cap s =? 0) || (size s =? 0)) with true by lia.
    replace (size s =? 0) with true by lia. reflexivity.
  - specialize (Hst ltac:(lia)).
    replace ((cap s =? 0) || (size s =? 0)) with false by lia.
    replace (size s =? 0) with false by lia.
    cbn [option_map]. rewrite phys_0 by lia. bsteps.
Qed.

Lemma front_mut_ok s w :
  WF s -> front_mut s w = (Ok (option_map (phys s) (front_pos s)), s, w).
Proof.
  intros HW. wf HW. unfold front_mut, front_pos. mcbn.
  destruct (Z.eq_dec (size s) 0) as [Hz|Hz].
  - replace ((cap s =? 0) || (size s =? 0)) with true by lia.
    replace (size s =? 0) with true by lia. reflexivity.
  - specialize (Hst ltac:(lia)).
    replace ((cap s =? 0) || (size s =? 0)) with false by lia.
    replace (size s =? 0) with false by lia.
    cbn [option_map]. rewrite phys_0 by lia. bsteps.
Qed.

Lemma back_ok s w :
  WF s -> back s w = (Ok (option_map (phys s) (back_pos s)), s, w).
Proof.
  intros HW. wf HW. unfold back, back_pos. mcbn.
  destruct (Z.eq_dec (size s) 0) as [Hz|Hz].
  - replace ((cap s =? 0) || (size s =? 0)) with true by lia.
    replace (size s =? 0) with true by lia. reflexivity.
  - specialize (Hst ltac:(lia)).
    replace ((cap s =? 0) || (size s =? 0)) with false by lia.
    replace (size s =? 0) with false by lia.
    cbn [option_map]. bsteps.
Qed.

Lemma back_mut_ok s w :
  WF s -> back_mut s w = (Ok (option_map (phys s) (back_pos s)), s, w).
Proof. apply back_ok. Qed.

(* ---- reading / writing through the returned reference ------------------------ *)

Definition pos_ok (s : cbuf) (ok : option Z) : Prop :=
  match ok with Some k => 0 <= k < size s | None => True end.

(* what the specification reads at a resolved position *)
Definition pos_read (l : list elem) (ok : option Z) : option elem :=
  match ok with Some k => nth_error l (Z.to_nat k) | None => None end.

Definition pos_write (l : list elem) (ok : option Z) (v : elem) : list elem :=
  match ok with Some k => set_nth (Z.to_nat k) v l | None => l end.

Lemma abs_nth_error_Z s k :
  0 <= k < size s -> nth_error (abs s) (Z.to_nat k) = Some (items s (phys s k)).
Proof. intros H. rewrite abs_nth_error by lia. rewrite Z2Nat.id by lia. reflexivity. Qed.

Lemma deref_pos s w ok :
  pos_ok s ok ->
  exists v, deref (option_map (phys s) ok) s w = (Ok v, s, w) /\
            erase_out v = sref (pos_read (abs s) ok).
Proof.
  intros Hk. destruct ok as [k|]; cbn [option_map deref pos_read pos_ok] in *.
  - eexists. mcbn. split; [reflexivity|].
    cbn [erase_out option_map]. rewrite abs_nth_error_Z by lia. reflexivity.
  - eexists. split; reflexivity.
Qed.

Lemma deref_set_pos s w ok v :
  WF s -> pos_ok s ok ->
  exists r s', deref_set (option_map (phys s) ok) v s w = (Ok r, s', w) /\
               erase_out r = sref (pos_read (abs s) ok) /\
               abs s' = pos_write (abs s) ok v /\ WF s' /\ cap s' = cap s.
Proof.
  intros HW Hk. pose proof HW as HW'. wf HW'.
  destruct ok as [k|]; cbn [option_map deref_set pos_read pos_write pos_ok] in *.
  - specialize (Hst ltac:(lia)).
    eexists _, _. mcbn. split; [reflexivity|].
    split; [|split; [|split]].
    + cbn [erase_out option_map]. rewrite abs_nth_error_Z by lia. reflexivity.
    + apply abs_set; lia.
    + exact HW.
    + reflexivity.
  - eexists _, s. split; [reflexivity|]. auto.
Qed.

(* an accessor followed by a read through the reference *)
Lemma refines_read o s w (m : M (option Z)) ok :
  WF s -> pos_ok s ok ->
  exec o s w = bind m deref s w ->
  m s w = (Ok (option_map (phys s) ok), s, w) ->
  spec_step (cap s) (abs s) o (next_id w)
    = SRet (mkSR (sref (pos_read (abs s) ok)) (abs s) [] (next_id w)) ->
  (forall fam, o <> OFillBuf fam) ->
  refines_at o s w.
Proof.
  intros HW Hk He Hm Hs Ho. unfold refines_at. rewrite Hs.
  destruct (deref_pos s w ok Hk) as (v & Hd & Hv).
  exists v, s. rewrite He. erewrite bind_ok by exact Hm.
  cbn [sr_evs sr_nid sr_out sr_list]. rewrite wev_nil.
  split; [exact Hd|]. split; [apply out_ok_plain; assumption|]. auto.
Qed.

(* a _mut accessor followed by mem::replace through the reference *)
Lemma refines_write o s w (m : M (option Z)) ok v :
  WF s -> pos_ok s ok ->
  exec o s w = bind m (fun r => deref_set r v) s w ->
  m s w = (Ok (option_map (phys s) ok), s, w) ->
  spec_step (cap s) (abs s) o (next_id w)
    = SRet (mkSR (sref (pos_read (abs s) ok)) (pos_write (abs s) ok v) [] (next_id w)) ->
  (forall fam, o <> OFillBuf fam) ->
  refines_at o s w.
Proof.
  intros HW Hk He Hm Hs Ho. unfold refines_at. rewrite Hs.
  destruct (deref_set_pos s w ok v HW Hk) as (r & s' & Hd & Hv & Ha & HW2 & Hc).
  exists r, s'. rewrite He. erewrite bind_ok by exact Hm.
  cbn [sr_evs sr_nid sr_out sr_list]. rewrite wev_nil.
  split; [exact Hd|]. split; [apply out_ok_plain; assumption|]. auto.
Qed.

(* ---- the specification's positions -------------------------------------------- *)

Lemma pos_ok_get s i : 0 <= i -> pos_ok s (get_pos s i).
Proof. intros. unfold get_pos. destruct (i <? size s) eqn:E; cbn; lia. Qed.

Lemma pos_ok_nth_back s i : 0 <= i -> pos_ok s (nth_back_pos s i).
Proof. intros. unfold nth_back_pos. destruct (i <? size s) eqn:E; cbn; lia. Qed.

Lemma pos_ok_front s : 0 <= size s -> pos_ok s (front_pos s).
Proof. intros. unfold front_pos. destruct (size s =? 0) eqn:E; cbn; lia. Qed.

Lemma pos_ok_back s : 0 <= size s -> pos_ok s (back_pos s).
Proof. intros. unfold back_pos. destruct (size s =? 0) eqn:E; cbn; lia. Qed.

(* clipped index *)
Lemma read_clip s i :
  0 <= size s -> 0 <= i ->
  nth_error (abs s) (nat_of (Z.min i (zlen (abs s)))) = pos_read (abs s) (get_pos s i).
Proof.
  intros Hz Hi. rewrite abs_zlen by lia. unfold get_pos, nat_of.
  destruct (i <? size s) eqn:E; cbn [pos_read].
  - replace (Z.min i (size s)) with i by lia. reflexivity.
  - apply nth_error_None. rewrite abs_length. lia.
Qed.

Lemma set_nth_beyond {A} k (v : A) l : (length l <= k)%nat -> set_nth k v l = l.
Proof.
  intros H. unfold set_nth. replace (k <? length l)%nat with false; [reflexivity|].
  symmetry. apply Nat.ltb_ge. exact H.
Qed.

Lemma write_clip s i v :
  0 <= size s -> 0 <= i ->
  set_nth (nat_of (Z.min i (zlen (abs s)))) v (abs s) = pos_write (abs s) (get_pos s i) v.
Proof.
  intros Hz Hi. rewrite abs_zlen by lia. unfold get_pos, nat_of.
  destruct (i <? size s) eqn:E; cbn [pos_write].
  - replace (Z.min i (size s)) with i by lia. reflexivity.
  - apply set_nth_beyond. rewrite abs_length. lia.
Qed.

Lemma nth_error_rev {A} (l : list A) k :
  (k < length l)%nat -> nth_error (rev l) k = nth_error l (length l - 1 - k).
Proof.
  intros H. destruct l as [|d l0] eqn:El; [cbn in H; lia|]. rewrite <- El in *. clear El l0.
  rewrite nth_error_nth' with (d := d) by (rewrite rev_length; exact H).
  rewrite nth_error_nth' with (d := d) by lia.
  rewrite rev_nth by exact H. do 2 f_equal. lia.
Qed.

Lemma read_back_clip s i :
  0 <= size s -> 0 <= i ->
  nth_error (rev (abs s)) (nat_of (Z.min i (zlen (abs s))))
  = pos_read (abs s) (nth_back_pos s i).
Proof.
  intros Hz Hi. rewrite abs_zlen by lia. unfold nth_back_pos, nat_of.
  destruct (i <? size s) eqn:E; cbn [pos_read].
  - replace (Z.min i (size s)) with i by lia.
    rewrite nth_error_rev by (rewrite abs_length; lia).
    f_equal. rewrite abs_length. lia.
  - apply nth_error_None. rewrite rev_length, abs_length. lia.
Qed.

Lemma read_front s : 0 <= size s -> hd_error (abs s) = pos_read (abs s) (front_pos s).
Proof.
  intros Hz. unfold front_pos. destruct (size s =? 0) eqn:E; cbn [pos_read].
  - rewrite abs_empty by lia. reflexivity.
  - destruct (abs s); reflexivity.
Qed.

Lemma read_back s : 0 <= size s -> last_error (abs s) = pos_read (abs s) (back_pos s).
Proof.
  intros Hz. unfold back_pos. destruct (size s =? 0) eqn:E; cbn [pos_read].
  - rewrite abs_empty by lia. reflexivity.
  - rewrite abs_back by lia. rewrite abs_nth_error_Z by lia. reflexivity.
Qed.

Ltac not_fill := intros fam; discriminate.

(* ---- shared access -------------------------------------------------------------- *)

Theorem get_op i : refines_op (OGet i).
Proof.
  intros s w HW Hf [Hi _]. pose proof HW as HW'. wf HW'.
  eapply refines_read with (m := get_ i) (ok := get_pos s i).
  - exact HW.
  - apply pos_ok_get; lia.
  - reflexivity.
  - apply get_ok; auto.
  - cbn [spec_step]. rewrite read_clip by lia. reflexivity.
  - not_fill.
Qed.

Theorem nth_front_op i : refines_op (ONthFront i).
Proof.
  intros s w HW Hf [Hi _]. pose proof HW as HW'. wf HW'.
  eapply refines_read with (m := nth_front i) (ok := get_pos s i).
  - exact HW.
  - apply pos_ok_get; lia.
  - reflexivity.
  - apply nth_front_ok; auto.
  - cbn [spec_step]. rewrite read_clip by lia. reflexivity.
  - not_fill.
Qed.

Theorem nth_back_op i : refines_op (ONthBack i).
Proof.
  intros s w HW Hf [Hi _]. pose proof HW as HW'. wf HW'.
  eapply refines_read with (m := nth_back i) (ok := nth_back_pos s i).
  - exact HW.
  - apply pos_ok_nth_back; lia.
  - reflexivity.
  - apply nth_back_ok; auto.
  - cbn [spec_step]. rewrite read_back_clip by lia. reflexivity.
  - not_fill.
Qed.

Theorem front_op : refines_op OFront.
Proof.
  intros s w HW Hf _. pose proof HW as HW'. wf HW'.
  eapply refines_read with (m := front) (ok := front_pos s).
  - exact HW.
  - apply pos_ok_front; lia.
  - reflexivity.
  - apply front_ok; auto.
  - cbn [spec_step]. rewrite read_front by lia. reflexivity.
  - not_fill.
Qed.

Theorem back_op : refines_op OBack.
Proof.
  intros s w HW Hf _. pose proof HW as HW'. wf HW'.
  eapply refines_read with (m := back) (ok := back_pos s).
  - exact HW.
  - apply pos_ok_back; lia.
  - reflexivity.
  - apply back_ok; auto.
  - cbn [spec_step]. rewrite read_back by lia. reflexivity.
  - not_fill.
Qed.

Lemma index_ok s w i :
  WF s -> 0 <= i < size s -> index i s w = (Ok (phys s i), s, w).
Proof.
  intros HW Hi. unfold index. erewrite bind_ok by (apply get_ok; [exact HW|lia]).
  unfold get_pos. replace (i <? size s) with true by lia. reflexivity.
Qed.

Lemma index_panic s w i :
  WF s -> size s <= i -> index i s w = (Panic PExpect, s, w).
Proof.
  intros HW Hi. pose proof HW as HW'. wf HW'.
  unfold index. erewrite bind_ok by (apply get_ok; [exact HW|lia]).
  unfold get_pos. replace (i <? size s) with false by lia. reflexivity.
Qed.

Lemma index_mut_ok s w i :
  WF s -> 0 <= i < size s -> index_mut i s w = (Ok (phys s i), s, w).
Proof. apply index_ok. Qed.

Lemma index_mut_panic s w i :
  WF s -> size s <= i -> index_mut i s w = (Panic PExpect, s, w).
Proof. apply index_panic. Qed.

Theorem index_op i : refines_op (OIndex i).
Proof.
  intros s w HW Hf [Hi _]. pose proof HW as HW'. wf HW'.
  unfold refines_at. cbn [spec_step]. rewrite abs_zlen by lia.
  destruct (i <? size s) eqn:E.
  - destruct (deref_pos s w (Some i)) as (v & Hd & Hv); [cbn; lia|].
    exists v, s. cbn [exec]. erewrite bind_ok by (apply index_ok; [exact HW|lia]).
    cbn [sr_evs sr_nid sr_out sr_list]. rewrite wev_nil.
    split; [exact Hd|]. split; [exact Hv|]. auto.
  - exists PExpect. cbn [exec].
    erewrite bind_panic by (apply index_panic; [exact HW|lia]).
    split; [reflexivity|]. right. reflexivity.
Qed.

(* ---- mutable access followed by a write ------------------------------------------- *)

Theorem get_mut_set_op i v : refines_op (OGetMutSet i v).
Proof.
  intros s w HW Hf [Hi _]. pose proof HW as HW'. wf HW'.
  eapply refines_write with (m := get_mut i) (ok := get_pos s i).
  - exact HW.
  - apply pos_ok_get; lia.
  - reflexivity.
  - apply get_mut_ok; auto.
  - cbn [spec_step]. rewrite read_clip, write_clip by lia. reflexivity.
  - not_fill.
Qed.

Theorem nth_front_mut_set_op i v : refines_op (ONthFrontMutSet i v).
Proof.
  intros s w HW Hf [Hi _]. pose proof HW as HW'. wf HW'.
  eapply refines_write with (m := nth_front_mut i) (ok := get_pos s i).
  - exact HW.
  - apply pos_ok_get; lia.
  - reflexivity.
  - apply nth_front_mut_ok; auto.
  - cbn [spec_step]. rewrite read_clip, write_clip by lia. reflexivity.
  - not_fill.
Qed.

Theorem nth_back_mut_set_op i v : refines_op (ONthBackMutSet i v).
Proof.
  intros s w HW Hf [Hi _]. pose proof HW as HW'. wf HW'.
  eapply refines_write with (m := nth_back_mut i) (ok := nth_back_pos s i).
  - exact HW.
  - apply pos_ok_nth_back; lia.
  - reflexivity.
  - apply nth_back_mut_ok; auto.
  - cbn [spec_step]. rewrite abs_zlen by lia. unfold nth_back_pos, nat_of.
    destruct (i <? size s) eqn:E; cbn [pos_read pos_write]; [|reflexivity].
    rewrite nth_error_rev by (rewrite abs_length; lia). rewrite abs_length.
    replace (Z.to_nat (size s) - 1 - Z.to_nat i)%nat with (Z.to_nat (size s - 1 - i)) by lia.
    reflexivity.
  - not_fill.
Qed.

Theorem front_mut_set_op v : refines_op (OFrontMutSet v).
Proof.
  intros s w HW Hf _. pose proof HW as HW'. wf HW'.
  eapply refines_write with (m := front_mut) (ok := front_pos s).
  - exact HW.
  - apply pos_ok_front; lia.
  - reflexivity.
  - apply front_mut_ok; auto.
  - cbn [spec_step]. rewrite read_front by lia. unfold front_pos.
    destruct (size s =? 0) eqn:E; cbn [pos_read pos_write]; [|reflexivity].
    rewrite abs_empty by lia. reflexivity.
  - not_fill.
Qed.

Theorem back_mut_set_op v : refines_op (OBackMutSet v).
Proof.
  intros s w HW Hf _. pose proof HW as HW'. wf HW'.
  eapply refines_write with (m := back_mut) (ok := back_pos s).
  - exact HW.
  - apply pos_ok_back; lia.
  - reflexivity.
  - apply back_mut_ok; auto.
  - cbn [spec_step]. rewrite read_back by lia. unfold back_pos.
    destruct (size s =? 0) eqn:E; cbn [pos_read pos_write].
    + rewrite abs_empty by lia. reflexivity.
    + rewrite abs_length.
      replace (Z.to_nat (size s) - 1)%nat with (Z.to_nat (size s - 1)) by lia. reflexivity.
  - not_fill.
Qed.

Theorem index_mut_set_op i v : refines_op (OIndexMutSet i v).
Proof.
  intros s w HW Hf [Hi _]. pose proof HW as HW'. wf HW'.
  unfold refines_at. cbn [spec_step]. rewrite abs_zlen by lia.
  destruct (i <? size s) eqn:E.
  - destruct (deref_set_pos s w (Some i) v HW) as (r & s' & Hd & Hv & Ha & HW2 & Hc); [cbn; lia|].
    exists r, s'. cbn [exec]. erewrite bind_ok by (apply index_mut_ok; [exact HW|lia]).
    cbn [sr_evs sr_nid sr_out sr_list]. rewrite wev_nil.
    split; [exact Hd|]. split; [exact Hv|]. auto.
  - exists PExpect. cbn [exec].
    erewrite bind_panic by (apply index_mut_panic; [exact HW|lia]).
    split; [reflexivity|]. right. reflexivity.
Qed.
