(* AllOps.v — every operation of the public API refines the specification,
   and what follows from that for whole histories: refinement by induction
   (C01), independence of the internal layout and of the bytes in unoccupied
   slots (C04), panics exactly when documented and termination (C11). *)

From CB Require Import Spec.
From CBP Require Import MonadLemmas Arith AbsLemmas ListLemmas AbsOps Core Step RefDefs
     RefPushPop RefTruncate RemoveSwap Access Views DrainP FillExtend Ctors CmpHash
     ExtendSlice ExtendIo Iters MoreOps.
From Coq Require Import ZifyBool.
Ltac Zify.zify_post_hook ::= Z.div_mod_to_equations.

Theorem exec_refines : forall o, refines_op o.
Proof.
  destruct o.
  - exact len_op.
  - exact is_empty_op.
  - exact is_full_op.
  - exact capacity_op.
  - apply push_back_op.
  - apply push_front_op.
  - apply try_push_back_op.
  - apply try_push_front_op.
  - exact pop_back_op.
  - exact pop_front_op.
  - apply remove_op.
  - apply swap_op.
  - apply swap_remove_back_op.
  - apply swap_remove_front_op.
  - apply truncate_back_op.
  - apply truncate_front_op.
  - exact clear_op.
  - apply extend_op.
  - apply extend_ref_op.
  - apply extend_from_slice_op.
  - apply fill_op.
  - exact fill_with_op.
  - apply fill_spare_op.
  - exact fill_spare_with_op.
  - apply drain_op.
  - apply make_contiguous_op.
  - apply get_op.
  - apply nth_front_op.
  - apply nth_back_op.
  - exact front_op.
  - exact back_op.
  - apply index_op.
  - apply get_mut_set_op.
  - apply nth_front_mut_set_op.
  - apply nth_back_mut_set_op.
  - apply front_mut_set_op.
  - apply back_mut_set_op.
  - apply index_mut_set_op.
  - exact as_slices_op.
  - apply as_mut_slices_set_op.
  - apply iter_op.
  - apply range_op.
  - apply iter_mut_op.
  - apply range_mut_op.
  - apply into_iter_op.
  - exact to_vec_op.
  - exact debug_op.
  - exact new_op.
  - apply from_array_op.
  - apply from_iter_op.
  - exact clone_drop_op.
  - exact clone_keep_op.
  - apply clone_from_op.
  - apply eq_op.
  - apply eq_slice_op.
  - apply partial_cmp_op.
  - apply cmp_op.
  - exact hash_op.
  - apply write_op.
  - apply flush_op.
  - apply read_op.
  - apply fill_buf_op.
  - apply consume_op.
  - exact boxed_op.
  - exact default_op.
  - apply iter_default_op.
  - apply iter_mut_default_op.
  - apply ref_into_iter_op.
  - apply iter_debug_op.
  - apply iter_mut_debug_op.
  - apply drain_debug_op.
  - apply into_iter_debug_op.
Qed.

(* ---- one step, in the form the corollaries use ------------------------------------ *)

(* what a step did, as the caller can tell: the outcome and the state/world after *)
Lemma step_cases o s w :
  WF s -> fault w = None -> op_ok s o ->
  (exists r v s',
     spec_step (cap s) (abs s) o (next_id w) = SRet r /\
     exec o s w = (Ok v, s', wev w (sr_evs r) (sr_nid r)) /\
     out_ok o (sr_out r) v /\ abs s' = sr_list r /\ WF s' /\ cap s' = cap s) \/
  (exists k,
     spec_step (cap s) (abs s) o (next_id w) = SPanic /\
     exec o s w = (Panic k, s, w) /\ documented_kind k).
Proof.
  intros HW Hf Hok. pose proof (exec_refines o s w HW Hf Hok) as H.
  unfold refines_at in H.
  destruct (spec_step (cap s) (abs s) o (next_id w)) as [r|].
  - left. destruct H as (v & s' & H). exists r, v, s'. tauto.
  - right. destruct H as (k & H). exists k. tauto.
Qed.

(* ---- C11: panics exactly when documented, otherwise total ----------------------------- *)

(* the call returns normally iff the specification does not demand a panic;
   a panic is an assert!/expect of the crate and leaves the state untouched;
   in particular never an overflow, division by zero, bounds, debug assertion,
   unimplemented, memory fault, abort or fuel exhaustion (termination) *)
Theorem total_or_documented o s w :
  WF s -> fault w = None -> op_ok s o ->
  match spec_step (cap s) (abs s) o (next_id w) with
  | SRet _ => exists v s' w', exec o s w = (Ok v, s', w') /\ WF s' /\ cap s' = cap s
  | SPanic => exists k, exec o s w = (Panic k, s, w) /\ (k = PAssert \/ k = PExpect)
  end.
Proof.
  intros HW Hf Hok. destruct (step_cases o s w HW Hf Hok) as [(r & v & s' & Hs & He & _ & _ & HW' & Hc)|(k & Hs & He & Hk)];
    rewrite Hs.
  - eauto 8.
  - exists k. split; assumption.
Qed.

(* exactly which calls the specification makes panic *)
Lemma spec_panics_iff N l o nid :
  spec_step N l o nid = SPanic <->
  match o with
  | OSwap i j => (i <? zlen l) && (j <? zlen l) = false
  | OIndex i | OIndexMutSet i _ => (i <? zlen l) = false
  | ODrain sb eb _ _ | ORange sb eb _ | ORangeMut sb eb _
  | OIterDebug sb eb _ | OIterMutDebug sb eb _ | ODrainDebug sb eb _ =>
    spec_bounds (zlen l) sb eb = None
  | _ => False
  end.
Proof.
  destruct o; cbn [spec_step];
    repeat match goal with
           | |- context [let '(_, _) := ?x in _] => destruct x
           | |- context [match ?x with (_, _) => _ end] => destruct x
           end;
    try (split; [discriminate|intros []]).
  all: repeat match goal with
           | |- context [if ?c then _ else _] => destruct c eqn:?
           | |- context [match spec_bounds ?a ?b ?c with _ => _ end] => destruct (spec_bounds a b c) as [[? ?]|] eqn:?
           end;
    repeat match goal with
           | |- context [let '(_, _) := ?x in _] => destruct x
           | |- context [match ?x with (_, _) => _ end] => destruct x
           end;
    try (split; intros; congruence); try (split; [discriminate|intros []]).
Qed.

(* ---- histories ---------------------------------------------------------------------------- *)

(* the specification run over a history: results, final contents, events *)
Fixpoint spec_history (N : Z) (l : list elem) (ops : list op) (nid : Z)
  : list sresult * list elem * list event * Z :=
  match ops with
  | [] => ([], l, [], nid)
  | o :: rest =>
    match spec_step N l o nid with
    | SRet r =>
      let '(rs, l', evs, nid') := spec_history N (sr_list r) rest (sr_nid r) in
      (SRet r :: rs, l', sr_evs r ++ evs, nid')
    | SPanic =>
      let '(rs, l', evs, nid') := spec_history N l rest nid in
      (SPanic :: rs, l', evs, nid')
    end
  end.

(* every argument of every call is a machine value, judged at the state in
   which the call is made (op_ok only looks at the capacity, which never changes) *)
Definition ops_ok (s : cbuf) (ops : list op) : Prop := Forall (op_ok s) ops.

Lemma op_ok_cap s s' o : cap s' = cap s -> op_ok s o -> op_ok s' o.
Proof. intros Hc. destruct o; cbn; try tauto; rewrite Hc; tauto. Qed.

Definition result_ok (o : op) (sr : sresult) (r : outcome out) : Prop :=
  match sr, r with
  | SRet x, Ok v => out_ok o (sr_out x) v
  | SPanic, Panic k => documented_kind k
  | _, _ => False
  end.

Fixpoint results_ok (ops : list op) (srs : list sresult) (rs : list (outcome out)) : Prop :=
  match ops, srs, rs with
  | [], [], [] => True
  | o :: ops', sr :: srs', r :: rs' => result_ok o sr r /\ results_ok ops' srs' rs'
  | _, _, _ => False
  end.

(* C01 for whole histories: by induction on the list of operations *)
Theorem history_refines : forall ops s w,
  WF s -> fault w = None -> ops_ok s ops ->
  let '(rs, s', w') := run_history ops s w in
  let '(srs, l', evs, nid') := spec_history (cap s) (abs s) ops (next_id w) in
  results_ok ops srs rs /\ abs s' = l' /\ WF s' /\ cap s' = cap s /\
  w' = wev w evs nid'.
Proof.
  induction ops as [|o ops IH]; intros s w HW Hf Hok.
  - cbn. rewrite wev_nil. auto.
  - inversion Hok as [|? ? Ho Hrest]; subst.
    cbn [run_history spec_history].
    destruct (step_cases o s w HW Hf Ho)
      as [(r & v & s1 & Hs & He & Hout & Ha & HW1 & Hc1)|(k & Hs & He & Hk)]; rewrite Hs, He.
    + specialize (IH s1 (wev w (sr_evs r) (sr_nid r)) HW1).
      rewrite wev_fault in IH. specialize (IH Hf).
      assert (Hok1 : ops_ok s1 ops).
      { eapply Forall_impl; [|exact Hrest]. intros a. apply op_ok_cap. exact Hc1. }
      specialize (IH Hok1). rewrite wev_next, Ha, Hc1 in IH.
      destruct (run_history ops s1 _) as [[rs s'] w'].
      destruct (spec_history (cap s) (sr_list r) ops (sr_nid r)) as [[[srs l'] evs] nid'].
      destruct IH as (IH1 & IH2 & IH3 & IH4 & IH5).
      cbn [results_ok result_ok].
      split; [split; assumption|]. split; [assumption|]. split; [assumption|].
      split; [congruence|]. subst w'. rewrite wev_wev. reflexivity.
    + specialize (IH s w HW Hf Hrest).
      destruct (run_history ops s w) as [[rs s'] w'].
      destruct (spec_history (cap s) (abs s) ops (next_id w)) as [[[srs l'] evs] nid'].
      destruct IH as (IH1 & IH2 & IH3 & IH4 & IH5).
      cbn [results_ok result_ok].
      split; [split; assumption|]. split; [assumption|]. split; [assumption|].
      split; assumption.
Qed.

(* ---- C04: only the logical contents matter ------------------------------------------------ *)

(* Two well-formed buffers of the same capacity with the same logical
   contents — whatever their front positions, whatever lies in their
   unoccupied slots, however they got there — answer every history with
   results that meet the same specification results, emit the same events and
   end with the same contents. (Results are compared through [out_ok]: physical
   positions and the point where as_slices / fill_buf split are not part of the
   logical result.) *)
Theorem layout_independent : forall ops s1 s2 w,
  WF s1 -> WF s2 -> cap s1 = cap s2 -> abs s1 = abs s2 ->
  fault w = None -> ops_ok s1 ops ->
  let '(rs1, s1', w1') := run_history ops s1 w in
  let '(rs2, s2', w2') := run_history ops s2 w in
  exists srs, results_ok ops srs rs1 /\ results_ok ops srs rs2 /\
              abs s1' = abs s2' /\ w1' = w2' /\ WF s1' /\ WF s2'.
Proof.
  intros ops s1 s2 w HW1 HW2 Hc Ha Hf Hok.
  assert (Hok2 : ops_ok s2 ops).
  { eapply Forall_impl; [|exact Hok]. intros a. apply op_ok_cap. symmetry. exact Hc. }
  pose proof (history_refines ops s1 w HW1 Hf Hok) as H1.
  pose proof (history_refines ops s2 w HW2 Hf Hok2) as H2.
  rewrite <- Hc, <- Ha in H2.
  destruct (run_history ops s1 w) as [[rs1 s1'] w1'].
  destruct (run_history ops s2 w) as [[rs2 s2'] w2'].
  destruct (spec_history (cap s1) (abs s1) ops (next_id w)) as [[[srs l'] evs] nid'].
  destruct H1 as (A1 & A2 & A3 & A4 & A5). destruct H2 as (B1 & B2 & B3 & B4 & B5).
  exists srs. split; [assumption|]. split; [assumption|]. split; [congruence|].
  split; [congruence|]. split; assumption.
Qed.

(* unoccupied slots: states that differ only there have the same [abs] *)
Lemma same_occupied_same_abs s1 s2 :
  cap s1 = cap s2 -> start s1 = start s2 -> size s1 = size s2 ->
  (forall i, 0 <= i < size s1 -> items s1 (phys s1 i) = items s2 (phys s2 i)) ->
  abs s1 = abs s2.
Proof.
  intros Hc Hst Hsz Hit. unfold abs. rewrite <- Hsz.
  apply map_ext_in. intros i Hi. apply Hit.
  rewrite zseq_map_seq in Hi. apply in_map_iff in Hi. destruct Hi as (k & <- & Hk).
  apply in_seq in Hk. lia.
Qed.

Corollary garbage_independent : forall ops s1 s2 w,
  WF s1 -> WF s2 -> cap s1 = cap s2 -> start s1 = start s2 -> size s1 = size s2 ->
  (forall i, 0 <= i < size s1 -> items s1 (phys s1 i) = items s2 (phys s2 i)) ->
  fault w = None -> ops_ok s1 ops ->
  let '(rs1, s1', w1') := run_history ops s1 w in
  let '(rs2, s2', w2') := run_history ops s2 w in
  exists srs, results_ok ops srs rs1 /\ results_ok ops srs rs2 /\
              abs s1' = abs s2' /\ w1' = w2' /\ WF s1' /\ WF s2'.
Proof.
  intros ops s1 s2 w HW1 HW2 Hc Hst Hsz Hit Hf Hok.
  apply layout_independent; try assumption.
  apply same_occupied_same_abs; assumption.
Qed.

(* the hypotheses are satisfiable: two rotations of the same contents with
   different garbage *)
Example layout_hyps :
  let s1 := mkB 3 2 2 (fun p => mkE (100 + p) p) in
  let s2 := mkB 3 2 0 (fun p => if p =? 0 then mkE 102 2 else if p =? 1 then mkE 100 0 else mkE 7 7) in
  WF s1 /\ WF s2 /\ cap s1 = cap s2 /\ abs s1 = abs s2 /\ start s1 <> start s2.
Proof.
  assert (3 < W) by (rewrite W_eq; reflexivity).
  cbv zeta. split; [unfold WF; cbn; lia|]. split; [unfold WF; cbn; lia|].
  split; [reflexivity|]. split; [reflexivity|]. cbn. lia.
Qed.
