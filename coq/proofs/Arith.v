(* Arith.v — add_mod / sub_mod are exact modular arithmetic on every 64-bit
   input that meets their documented precondition, with no intermediate
   overflow, division by zero or failed debug assertion, in debug and release
   builds alike. *)

From CB Require Import Spec.
From CBP Require Import MonadLemmas.
From Coq Require Import ZifyBool.

Lemma add_mod_ok x y m s w :
  0 < m < W -> 0 <= x <= m -> 0 <= y <= m ->
  add_mod x y m s w = (Ok ((x + y) mod m), s, w).
Proof.
  intros Hm Hx Hy. unfold add_mod.
  do 3 bstep.
  unfold overflowing_add.
  destruct (x + y <? W) eqn:Hov.
  - (* no overflow *)
    unfold usize_max.
    erewrite bind_ok by (apply urem_ok; lia).
    assert (0 <= (W - 1) mod m < m) by (apply Z.mod_pos_bound; lia).
    erewrite bind_ok by (apply uadd_ok; lia).
    cbn [b2z].
    erewrite bind_ok by (apply umul_ok; lia).
    erewrite bind_ok by (apply uadd_ok; lia).
    rewrite urem_ok by lia. do 4 f_equal. lia.
  - (* x + y wrapped around 2^64 *)
    unfold usize_max.
    erewrite bind_ok by (apply urem_ok; lia).
    pose proof (Z.mod_pos_bound (W - 1) m ltac:(lia)) as Hr.
    pose proof (Z.div_mod (W - 1) m ltac:(lia)) as Hdm.
    set (q := (W - 1) / m) in *. set (r := (W - 1) mod m) in *.
    assert (Hq : 1 <= q).
    { subst q. apply Z.div_le_lower_bound; lia. }
    erewrite bind_ok by (apply uadd_ok; lia).
    cbn [b2z].
    erewrite bind_ok by (apply umul_ok; lia).
    assert (Hu : x + y - W + 1 * (r + 1) = x + y - q * m) by lia.
    assert (Hub : 0 <= x + y - q * m <= m) by nia.
    erewrite bind_ok by (apply uadd_ok; lia).
    rewrite urem_ok by lia. f_equal. f_equal. f_equal.
    rewrite Hu.
    replace (x + y - q * m) with (x + y + (- q) * m) by lia.
    apply Z.mod_add. lia.
Qed.

Lemma sub_mod_ok x y m s w :
  0 < m < W -> 0 <= x <= m -> 0 <= y <= m ->
  sub_mod x y m s w = (Ok ((x + (m - y)) mod m), s, w).
Proof.
  intros Hm Hx Hy. unfold sub_mod.
  do 3 bstep.
  erewrite bind_ok by (apply usub_ok; lia).
  apply add_mod_ok; lia.
Qed.

(* the two shapes in which callers use the results *)

Lemma mod_small_or_wrap a m :
  0 < m -> 0 <= a < 2 * m ->
  (a < m /\ a mod m = a) \/ (m <= a /\ a mod m = a - m).
Proof.
  intros Hm Ha. destruct (Z_lt_ge_dec a m).
  - left. split; [lia|]. apply Z.mod_small. lia.
  - right. split; [lia|]. symmetry. apply Z.mod_unique with (q := 1); lia.
Qed.
