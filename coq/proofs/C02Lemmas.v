(* C02Lemmas.v — the four single-element insertions in the three situations
   the property distinguishes, with element identities: room, full, zero
   capacity. Corollaries of the refinement theorems in PushPop.v. *)

From CB Require Import Spec.
From CBP Require Import MonadLemmas Arith AbsLemmas ListLemmas AbsOps Core Step PushPop.
From Coq Require Import ZifyBool.
Ltac Zify.zify_post_hook ::= Z.div_mod_to_equations.

(* what a caller can observe of a step: result, contents afterwards, nothing
   else in the world changed *)
Definition returns {A} (m : M A) (s : cbuf) (w : world) (v : A) (l' : list elem) : Prop :=
  exists s', m s w = (Ok v, s', w) /\ abs s' = l' /\ WF s' /\ cap s' = cap s.

Lemma hd_error_app1 {A} (l : list A) x : l <> [] -> hd_error (l ++ [x]) = hd_error l.
Proof. destruct l; [congruence|reflexivity]. Qed.

Lemma tl_app1 {A} (l : list A) x : l <> [] -> tl (l ++ [x]) = tl l ++ [x].
Proof. destruct l; [congruence|reflexivity]. Qed.

Lemma abs_nonempty_pos s : WF s -> 0 < size s -> abs s <> [].
Proof. intros _ H. apply abs_nonempty. exact H. Qed.

Lemma push_back_room s w x :
  WF s -> size s < cap s -> returns (push_back x) s w None (abs s ++ [x]).
Proof.
  intros HW H. pose proof HW as HW'. wf HW'.
  pose proof (push_back_refines s w x HW) as P.
  rewrite spec_push_back_cases in P by (rewrite ?abs_zlen; lia).
  rewrite abs_zlen in P by lia. replace (size s <? cap s) with true in P by lia. exact P.
Qed.

Lemma push_back_full s w x :
  WF s -> 0 < cap s -> size s = cap s ->
  exists old, hd_error (abs s) = Some old /\
              returns (push_back x) s w (Some old) (tl (abs s) ++ [x]).
Proof.
  intros HW Hc H. pose proof HW as HW'. wf HW'.
  pose proof (push_back_refines s w x HW) as P.
  rewrite spec_push_back_cases in P by (rewrite ?abs_zlen; lia).
  rewrite abs_zlen in P by lia. replace (size s <? cap s) with false in P by lia.
  assert (Hne : abs s <> []) by (apply abs_nonempty; lia).
  cbn [fst snd] in P. rewrite hd_error_app1, tl_app1 in P by exact Hne.
  destruct (abs s) as [|old t] eqn:E; [congruence|].
  exists old. split; [reflexivity|]. exact P.
Qed.

Lemma push_back_zero s w x :
  WF s -> cap s = 0 -> push_back x s w = (Ok (Some x), s, w).
Proof. intros HW Hc. unfold push_back. bsteps. Qed.

Lemma last_error_app1 (l : list elem) x : last_error (l ++ [x]) = Some x.
Proof. unfold last_error. rewrite rev_app_distr. reflexivity. Qed.

Lemma push_front_room s w x :
  WF s -> size s < cap s -> returns (push_front x) s w None (x :: abs s).
Proof.
  intros HW H. pose proof HW as HW'. wf HW'.
  pose proof (push_front_refines s w x HW) as P.
  rewrite spec_push_front_cases in P by (rewrite ?abs_zlen; lia).
  rewrite abs_zlen in P by lia. replace (size s <? cap s) with true in P by lia. exact P.
Qed.

Lemma removelast_cons {A} (x : A) l : l <> [] -> removelast (x :: l) = x :: removelast l.
Proof. destruct l; [congruence|reflexivity]. Qed.

Lemma push_front_full s w x :
  WF s -> 0 < cap s -> size s = cap s ->
  exists old, last_error (abs s) = Some old /\
              returns (push_front x) s w (Some old) (x :: removelast (abs s)).
Proof.
  intros HW Hc H. pose proof HW as HW'. wf HW'.
  pose proof (push_front_refines s w x HW) as P.
  rewrite spec_push_front_cases in P by (rewrite ?abs_zlen; lia).
  rewrite abs_zlen in P by lia. replace (size s <? cap s) with false in P by lia.
  assert (Hne : abs s <> []) by (apply abs_nonempty; lia).
  cbn [fst snd] in P. rewrite last_error_cons, removelast_cons in P by exact Hne.
  rewrite abs_back in * by lia.
  eexists. split; [reflexivity|]. exact P.
Qed.

Lemma push_front_zero s w x :
  WF s -> cap s = 0 -> push_front x s w = (Ok (Some x), s, w).
Proof. intros HW Hc. unfold push_front. bsteps. Qed.

(* try_push: Err(the very element), buffer untouched, exactly when full *)
Lemma try_push_back_room s w x :
  WF s -> size s < cap s -> returns (try_push_back x) s w None (abs s ++ [x]).
Proof.
  intros HW H. pose proof (try_push_back_refines s w x HW) as P.
  replace (size s <? cap s) with true in P by lia. exact P.
Qed.

Lemma try_push_back_full s w x :
  WF s -> size s = cap s -> try_push_back x s w = (Ok (Some x), s, w).
Proof.
  intros HW H. pose proof HW as HW'. wf HW'. unfold try_push_back.
  destruct (Z.eq_dec (cap s) 0); bsteps.
Qed.

Lemma try_push_front_room s w x :
  WF s -> size s < cap s -> returns (try_push_front x) s w None (x :: abs s).
Proof.
  intros HW H. pose proof (try_push_front_refines s w x HW) as P.
  replace (size s <? cap s) with true in P by lia. exact P.
Qed.

Lemma try_push_front_full s w x :
  WF s -> size s = cap s -> try_push_front x s w = (Ok (Some x), s, w).
Proof.
  intros HW H. pose proof HW as HW'. wf HW'. unfold try_push_front.
  destruct (Z.eq_dec (cap s) 0); bsteps.
Qed.

(* a state satisfying the hypotheses of the "full" lemmas: capacity 3, front at
   slot 2, so the contents wrap around the array end *)
Example full_wrapped_state :
  let s := mkB 3 3 2 (fun p => mkE (100 + p) p) in
  WF s /\ 0 < cap s /\ size s = cap s /\ abs s = [mkE 102 2; mkE 100 0; mkE 101 1].
Proof.
  assert (3 < W) by (rewrite W_eq; reflexivity).
  cbv zeta. split; [apply WF_mk; cbn; lia|]. repeat split.
Qed.
