(* CmpHash.v — operation-level refinement for the read-only traversals:
   to_vec, Debug, Hash, PartialEq (all forms), PartialOrd, Ord. *)

From CB Require Import Spec.
From CBP Require Import MonadLemmas Arith AbsLemmas ListLemmas AbsOps Core Step Slices
     RefDefs RefTruncate Views.
From Coq Require Import ZifyBool.
Ltac Zify.zify_post_hook ::= Z.div_mod_to_equations.

(* ---- the slots an iterator still has to visit ------------------------------- *)

Definition sl_slots (sl : slice) : list Z := zseq (soff sl) (Z.to_nat (slen sl)).

Definition it_slots (it : iter) : list Z := sl_slots (it_right it) ++ sl_slots (it_left it).

Lemma sl_slots_nil sl : slen sl <= 0 -> sl_slots sl = [].
Proof. intros H. unfold sl_slots. replace (Z.to_nat (slen sl)) with 0%nat by lia. reflexivity. Qed.

Lemma sl_slots_cons sl :
  0 < slen sl -> sl_slots sl = soff sl :: sl_slots (mkS (soff sl + 1) (slen sl - 1)).
Proof.
  intros H. unfold sl_slots. cbn [soff slen].
  replace (Z.to_nat (slen sl)) with (S (Z.to_nat (slen sl - 1))) by lia.
  apply zseq_cons.
Qed.

Lemma iter_next_spec it :
  match it_slots it with
  | [] => exists it', iter_next it = (it', None)
  | p :: rest => exists it', iter_next it = (it', Some p) /\ it_slots it' = rest
  end.
Proof.
  unfold it_slots, iter_next, slice_take_first.
  destruct (0 <? slen (it_right it)) eqn:E1.
  - rewrite (sl_slots_cons (it_right it)) by lia. cbn [app].
    eexists. split; [reflexivity|]. reflexivity.
  - rewrite (sl_slots_nil (it_right it)) by lia. cbn [app].
    destruct (0 <? slen (it_left it)) eqn:E2.
    + rewrite (sl_slots_cons (it_left it)) by lia.
      eexists. split; [reflexivity|]. unfold it_slots. cbn [it_right it_left].
      rewrite (sl_slots_nil (it_right it)) by lia. reflexivity.
    + rewrite (sl_slots_nil (it_left it)) by lia. eexists. reflexivity.
Qed.

Lemma iter_next_nil it : it_slots it = [] -> exists it', iter_next it = (it', None).
Proof. intros H. pose proof (iter_next_spec it) as Hs. rewrite H in Hs. exact Hs. Qed.

Lemma iter_next_cons it p rest :
  it_slots it = p :: rest -> exists it', iter_next it = (it', Some p) /\ it_slots it' = rest.
Proof. intros H. pose proof (iter_next_spec it) as Hs. rewrite H in Hs. exact Hs. Qed.

(* a fresh iterator visits the slots of the abstract contents *)
Lemma iter_new_ok s w :
  WF s ->
  exists it, iter_new s w = (Ok it, s, w) /\ map (items s) (it_slots it) = abs s.
Proof.
  intros HW. exists (mkI (fst (as_slices_val s)) (snd (as_slices_val s))). split.
  - unfold iter_new. erewrite bind_ok by (apply as_slices_ok; exact HW).
    destruct (as_slices_val s). reflexivity.
  - unfold it_slots. cbn [it_right it_left]. rewrite map_app.
    exact (as_slices_val_abs s HW).
Qed.

(* ---- for_each over an iterator (Hash, Debug) ---------------------------------- *)

Lemma iter_for_each_ok src (body : elem -> M unit) (evf : elem -> event) :
  (forall e s w, fault w = None -> body e s w = (Ok tt, s, wev w [evf e] (next_id w))) ->
  forall rest fuel it s w,
    fault w = None -> map (items src) (it_slots it) = rest -> (length rest < fuel)%nat ->
    iter_for_each fuel src it body s w = (Ok tt, s, wev w (map evf rest) (next_id w)).
Proof.
  intros Hb. induction rest as [|e rest IH]; intros fuel it s w Hf Hm Hl.
  - destruct fuel as [|fuel]; [cbn in Hl; lia|]. cbn [iter_for_each].
    destruct (iter_next_nil it) as (it' & ->).
    { destruct (it_slots it); [reflexivity|discriminate]. }
    cbn [map]. rewrite wev_nil. reflexivity.
  - destruct fuel as [|fuel]; [cbn in Hl; lia|]. cbn [iter_for_each].
    destruct (it_slots it) as [|p ps] eqn:Es; [discriminate|].
    cbn [map] in Hm. injection Hm as He Hr.
    destruct (iter_next_cons it p ps Es) as (it' & -> & Es').
    rewrite He. erewrite bind_ok by (apply Hb; exact Hf).
    rewrite IH; [|exact Hf|rewrite Es'; exact Hr|cbn in Hl; lia].
    rewrite wev_wev. reflexivity.
Qed.

Lemma ev_call_ok ev k s w :
  fault w = None -> (emit ev;; user_call k) s w = (Ok tt, s, wev w [ev] (next_id w)).
Proof.
  intros Hf. erewrite bind_ok by apply emit_eq. apply user_call_nofault. exact Hf.
Qed.

Theorem debug_op : refines_op ODebug.
Proof.
  intros s w HW Hf _. pose proof HW as HW'. wf HW'.
  unfold refines_at. cbn [spec_step]. exists OutUnit, s.
  cbn [sr_evs sr_nid sr_out sr_list].
  split; [|split; [reflexivity|auto]].
  cbn [exec]. unfold buf_fmt. rewrite bind_assoc. mcbn.
  destruct (iter_new_ok s w HW) as (it & Hi & Hm).
  rewrite bind_assoc. erewrite bind_ok by exact Hi.
  erewrite bind_ok.
  2:{ apply iter_for_each_ok with (evf := EvFmt) (rest := abs s).
      - intros e s0 w0 H0. apply ev_call_ok. exact H0.
      - exact Hf.
      - exact Hm.
      - rewrite abs_length. lia. }
  reflexivity.
Qed.

Theorem hash_op : refines_op OHash.
Proof.
  intros s w HW Hf _. pose proof HW as HW'. wf HW'.
  unfold refines_at. cbn [spec_step]. exists OutUnit, s.
  cbn [sr_evs sr_nid sr_out sr_list].
  split; [|split; [reflexivity|auto]].
  cbn [exec]. unfold buf_hash. rewrite bind_assoc. mcbn.
  rewrite bind_assoc. erewrite bind_ok by apply emit_eq.
  destruct (iter_new_ok s (wev w [EvHashLen (size s)] (next_id w)) HW) as (it & Hi & Hm).
  rewrite bind_assoc. erewrite bind_ok by exact Hi.
  erewrite bind_ok.
  2:{ apply iter_for_each_ok with (evf := EvHash) (rest := abs s).
      - intros e s0 w0 H0. apply ev_call_ok. exact H0.
      - exact Hf.
      - exact Hm.
      - rewrite abs_length. lia. }
  rewrite wev_wev. rewrite abs_zlen by lia. reflexivity.
Qed.

(* ---- to_vec ---------------------------------------------------------------------- *)

Lemma clones_zlen nid l : zlen (clones nid l) = zlen l.
Proof.
  revert nid. induction l as [|x l IH]; intros nid; [reflexivity|].
  cbn [clones]. rewrite !zlen_cons, IH. reflexivity.
Qed.

Lemma to_vec_loop_ok src :
  forall rest fuel it acc s w,
    fault w = None -> map (items src) (it_slots it) = rest -> (length rest < fuel)%nat ->
    to_vec_loop fuel src it acc s w =
      (Ok (acc ++ clones (next_id w) rest), s,
       wev w (clone_evs (next_id w) rest) (next_id w + zlen rest)).
Proof.
  induction rest as [|e rest IH]; intros fuel it acc s w Hf Hm Hl.
  - destruct fuel as [|fuel]; [cbn in Hl; lia|]. cbn [to_vec_loop].
    destruct (iter_next_nil it) as (it' & ->).
    { destruct (it_slots it); [reflexivity|discriminate]. }
    cbn [clones clone_evs]. rewrite app_nil_r, zlen_nil, Z.add_0_r, wev_nil. reflexivity.
  - destruct fuel as [|fuel]; [cbn in Hl; lia|]. cbn [to_vec_loop].
    destruct (it_slots it) as [|p ps] eqn:Es; [discriminate|].
    cbn [map] in Hm. injection Hm as He Hr.
    destruct (iter_next_cons it p ps Es) as (it' & -> & Es').
    rewrite He.
    erewrite bind_ok by (apply on_unwind_ok; apply clone_elem_nofault; exact Hf).
    rewrite IH; [|exact Hf|rewrite Es'; exact Hr|cbn in Hl; lia].
    rewrite wev_wev, wev_next. cbn [clones clone_evs app].
    rewrite <- app_assoc. cbn [app]. rewrite zlen_cons.
    replace (next_id w + 1 + zlen rest) with (next_id w + (1 + zlen rest)) by lia.
    reflexivity.
Qed.

Theorem to_vec_op : refines_op OToVec.
Proof.
  intros s w HW Hf _. pose proof HW as HW'. wf HW'.
  unfold refines_at. cbn [spec_step]. exists (OutList (clones (next_id w) (abs s))), s.
  cbn [sr_evs sr_nid sr_out sr_list].
  split; [|split; [reflexivity|auto]].
  cbn [exec]. unfold to_vec. rewrite bind_assoc. mcbn. rewrite abs_zlen by lia.
  set (w1 := wev w (if 0 <? size s then [EvAlloc] else []) (next_id w)).
  assert (H1 : (if 0 <? size s then emit EvAlloc else ret tt) s w = (Ok tt, s, w1)).
  { unfold w1. destruct (0 <? size s); [apply emit_eq|]. rewrite wev_nil. reflexivity. }
  rewrite bind_assoc. erewrite bind_ok by exact H1.
  assert (Hf1 : fault w1 = None) by exact Hf.
  destruct (iter_new_ok s w1 HW) as (it & Hi & Hm).
  rewrite bind_assoc. erewrite bind_ok by exact Hi.
  rewrite bind_assoc.
  erewrite bind_ok.
  2:{ apply to_vec_loop_ok with (rest := abs s).
      - exact Hf1.
      - exact Hm.
      - rewrite abs_length. lia. }
  cbn [app].
  rewrite bind_assoc. erewrite bind_ok by (apply dassert_ok; rewrite clones_zlen, abs_zlen by lia; lia).
  unfold w1. rewrite wev_wev, wev_next, abs_zlen by lia. reflexivity.
Qed.

(* ---- element-wise equality of slices ----------------------------------------------- *)

Section Eq.
Variable eqf : elem -> elem -> bool.

Lemma list_eq_loop_ok : forall xs ys s w,
  fault w = None ->
  list_eq_loop eqf xs ys s w =
    (Ok (fst (spec_list_eq eqf xs ys)), s,
     wev w (snd (spec_list_eq eqf xs ys)) (next_id w)).
Proof.
  induction xs as [|x xs IH]; intros ys s w Hf.
  - cbn. rewrite wev_nil. reflexivity.
  - destruct ys as [|y ys].
    + cbn. rewrite wev_nil. reflexivity.
    + cbn [list_eq_loop spec_list_eq].
      erewrite bind_ok by apply emit_eq.
      erewrite bind_ok by (apply user_call_nofault; exact Hf).
      destruct (eqf x y).
      * rewrite IH by exact Hf. destruct (spec_list_eq eqf xs ys) as [b evs].
        cbn [fst snd]. rewrite wev_wev. reflexivity.
      * reflexivity.
Qed.

Lemma spec_list_eq_app : forall x1 y1 x2 y2,
  length x1 = length y1 ->
  spec_list_eq eqf (x1 ++ x2) (y1 ++ y2) =
    if fst (spec_list_eq eqf x1 y1)
    then (fst (spec_list_eq eqf x2 y2),
          snd (spec_list_eq eqf x1 y1) ++ snd (spec_list_eq eqf x2 y2))
    else (false, snd (spec_list_eq eqf x1 y1)).
Proof.
  induction x1 as [|x x1 IH]; intros y1 x2 y2 Hl.
  - destruct y1; [|discriminate]. cbn. destruct (spec_list_eq eqf x2 y2). reflexivity.
  - destruct y1 as [|y y1]; [discriminate|]. cbn [app spec_list_eq].
    destruct (eqf x y); [|reflexivity].
    rewrite IH by (cbn in Hl; lia).
    destruct (spec_list_eq eqf x1 y1) as [b e]. cbn [fst snd].
    destruct b; reflexivity.
Qed.

(* "m compares xs with ys element by element and changes nothing else" *)
Definition eq_run (m : M bool) (xs ys : list elem) (s : cbuf) : Prop :=
  forall w, fault w = None ->
    m s w = (Ok (fst (spec_list_eq eqf xs ys)), s,
             wev w (snd (spec_list_eq eqf xs ys)) (next_id w)).

Lemma slice_eq_run xs ys s : length xs = length ys -> eq_run (slice_eq eqf xs ys) xs ys s.
Proof.
  intros Hl w Hf. unfold slice_eq, zlen. rewrite Hl, Z.eqb_refl.
  apply list_eq_loop_ok. exact Hf.
Qed.

Lemma and_then_run m1 m2 x1 y1 x2 y2 s :
  length x1 = length y1 -> eq_run m1 x1 y1 s -> eq_run m2 x2 y2 s ->
  eq_run (and_then m1 m2) (x1 ++ x2) (y1 ++ y2) s.
Proof.
  intros Hl H1 H2 w Hf. unfold and_then.
  erewrite bind_ok by (apply H1; exact Hf).
  rewrite spec_list_eq_app by exact Hl.
  destruct (fst (spec_list_eq eqf x1 y1)).
  - rewrite H2 by exact Hf. cbn [fst snd]. rewrite wev_wev. reflexivity.
  - reflexivity.
Qed.

Lemma bind_run {A} (m : M A) (k : A -> M bool) a xs ys s :
  (forall w, m s w = (Ok a, s, w)) -> eq_run (k a) xs ys s -> eq_run (bind m k) xs ys s.
Proof. intros Hm Hk w Hf. erewrite bind_ok by apply Hm. apply Hk. exact Hf. Qed.

(* ---- sub-slices ------------------------------------------------------------------------ *)

Lemma zseq_app n : forall a m, zseq a (n + m) = zseq a n ++ zseq (a + Z.of_nat n) m.
Proof.
  induction n as [|n IH]; intros a m.
  - cbn [plus]. rewrite Z.add_0_r. reflexivity.
  - cbn [plus]. rewrite !zseq_cons, IH. cbn [app]. do 3 f_equal. lia.
Qed.

Lemma sl_elems_split f sl k :
  0 <= k <= slen sl ->
  sl_elems f sl = sl_elems f (mkS (soff sl) k) ++ sl_elems f (mkS (soff sl + k) (slen sl - k)).
Proof.
  intros H. unfold sl_elems. cbn [soff slen]. rewrite <- map_app. f_equal.
  replace (Z.to_nat (slen sl)) with (Z.to_nat k + Z.to_nat (slen sl - k))%nat by lia.
  rewrite zseq_app. do 2 f_equal. lia.
Qed.

Lemma sl_to_ok sl x s w : 0 <= x <= slen sl -> sl_to sl x s w = (Ok (mkS (soff sl) x), s, w).
Proof.
  intros H. unfold sl_to. rewrite sl_range_ok by lia. rewrite Z.add_0_r, Z.sub_0_r. reflexivity.
Qed.

Lemma sl_from_ok sl x s w :
  0 <= x <= slen sl -> sl_from sl x s w = (Ok (mkS (soff sl + x) (slen sl - x)), s, w).
Proof. intros H. unfold sl_from. rewrite sl_range_ok by lia. reflexivity. Qed.

(* ---- PartialEq between two buffers: the three aligned comparisons -------------------- *)

Lemma buf_eq_core (fa fb : store) al ar bl br s :
  0 <= slen al -> 0 <= slen ar -> 0 <= slen bl -> 0 <= slen br ->
  slen al + slen ar = slen bl + slen br ->
  let ea := sl_elems fa in
  let eb := sl_elems fb in
  eq_run
    (match slen al ?= slen bl with
     | Lt =>
       let x := slen al in
       y <- usub (slen bl) x;;
       and_then (s2 <- sl_to bl x;; slice_eq eqf (ea al) (eb s2))
      (and_then (s1 <- sl_to ar y;; s2 <- sl_from bl x;; slice_eq eqf (ea s1) (eb s2))
                (s1 <- sl_from ar y;; slice_eq eqf (ea s1) (eb br)))
     | Gt =>
       let x := slen bl in
       y <- usub (slen al) x;;
       and_then (s1 <- sl_to al x;; slice_eq eqf (ea s1) (eb bl))
      (and_then (s1 <- sl_from al x;; s2 <- sl_to br y;; slice_eq eqf (ea s1) (eb s2))
                (s2 <- sl_from br y;; slice_eq eqf (ea ar) (eb s2)))
     | Eq =>
       dassert (slen al =? slen bl);;
       dassert (slen ar =? slen br);;
       and_then (slice_eq eqf (ea al) (eb bl)) (slice_eq eqf (ea ar) (eb br))
     end)
    (sl_elems fa al ++ sl_elems fa ar) (sl_elems fb bl ++ sl_elems fb br) s.
Proof.
  intros Hal Har Hbl Hbr Hsum ea eb. subst ea eb.
  destruct (Z.compare_spec (slen al) (slen bl)) as [He|Hlt|Hgt]; cbv zeta.
  - eapply bind_run; [intros; apply dassert_ok; lia|].
    eapply bind_run; [intros; apply dassert_ok; lia|].
    apply and_then_run.
    + rewrite !sl_elems_length. lia.
    + apply slice_eq_run. rewrite !sl_elems_length. lia.
    + apply slice_eq_run. rewrite !sl_elems_length. lia.
  - eapply bind_run; [intros; apply usub_ok; lia|].
    rewrite (sl_elems_split fb bl (slen al)) by lia.
    rewrite (sl_elems_split fa ar (slen bl - slen al)) by lia.
    rewrite <- (app_assoc (sl_elems fb _)).
    apply and_then_run.
    + rewrite !sl_elems_length. cbn [slen]. lia.
    + eapply bind_run; [intros; apply sl_to_ok; lia|].
      apply slice_eq_run. rewrite !sl_elems_length. cbn [slen]. lia.
    + apply and_then_run.
      * rewrite !sl_elems_length. cbn [slen]. lia.
      * eapply bind_run; [intros; apply sl_to_ok; lia|].
        eapply bind_run; [intros; apply sl_from_ok; lia|].
        apply slice_eq_run. rewrite !sl_elems_length. cbn [slen]. lia.
      * eapply bind_run; [intros; apply sl_from_ok; lia|].
        apply slice_eq_run. rewrite !sl_elems_length. cbn [slen]. lia.
  - eapply bind_run; [intros; apply usub_ok; lia|].
    rewrite (sl_elems_split fa al (slen bl)) by lia.
    rewrite (sl_elems_split fb br (slen al - slen bl)) by lia.
    rewrite <- (app_assoc (sl_elems fa _)).
    apply and_then_run.
    + rewrite !sl_elems_length. cbn [slen]. lia.
    + eapply bind_run; [intros; apply sl_to_ok; lia|].
      apply slice_eq_run. rewrite !sl_elems_length. cbn [slen]. lia.
    + apply and_then_run.
      * rewrite !sl_elems_length. cbn [slen]. lia.
      * eapply bind_run; [intros; apply sl_from_ok; lia|].
        eapply bind_run; [intros; apply sl_to_ok; lia|].
        apply slice_eq_run. rewrite !sl_elems_length. cbn [slen]. lia.
      * eapply bind_run; [intros; apply sl_from_ok; lia|].
        apply slice_eq_run. rewrite !sl_elems_length. cbn [slen]. lia.
Qed.

Lemma buf_eq_ok other s w :
  WF s -> WF other -> fault w = None ->
  buf_eq eqf other s w =
    (Ok (fst (spec_eq eqf (abs s) (abs other))), s,
     wev w (snd (spec_eq eqf (abs s) (abs other))) (next_id w)).
Proof.
  intros HW HWo Hf. pose proof HW as HW'. wf HW'.
  pose proof (WF_size other HWo) as Hso.
  unfold buf_eq, spec_eq. mcbn. rewrite !abs_zlen by lia.
  destruct (size s =? size other) eqn:E; cbn [negb].
  2:{ cbn [fst snd]. rewrite wev_nil. reflexivity. }
  erewrite bind_ok by (apply as_slices_ok; exact HW).
  pose proof (as_slices_val_ok s HW) as Hva.
  pose proof (as_slices_val_abs s HW) as Haa.
  destruct (as_slices_val s) as [al ar]. cbn [fst snd] in Haa.
  erewrite bind_ok by (apply with_buf_ok; apply as_slices_ok; exact HWo).
  pose proof (as_slices_val_ok other HWo) as Hvb.
  pose proof (as_slices_val_abs other HWo) as Hab.
  destruct (as_slices_val other) as [bl br]. cbn [fst snd] in Hab.
  unfold sl_ok in Hva, Hvb.
  rewrite <- Haa, <- Hab.
  apply (buf_eq_core (items s) (items other) al ar bl br s); try lia.
  exact Hf.
Qed.

Lemma buf_eq_slice_ok xs s w :
  WF s -> fault w = None ->
  buf_eq_slice eqf xs s w =
    (Ok (fst (spec_eq eqf (abs s) xs)), s,
     wev w (snd (spec_eq eqf (abs s) xs)) (next_id w)).
Proof.
  intros HW Hf. pose proof HW as HW'. wf HW'.
  unfold buf_eq_slice, spec_eq. mcbn. rewrite !abs_zlen by lia.
  destruct (size s =? zlen xs) eqn:E; cbn [negb].
  2:{ cbn [fst snd]. rewrite wev_nil. reflexivity. }
  erewrite bind_ok by (apply as_slices_ok; exact HW).
  pose proof (as_slices_val_ok s HW) as Hva.
  pose proof (as_slices_val_abs s HW) as Haa.
  destruct (as_slices_val s) as [al ar]. cbn [fst snd] in Haa.
  unfold sl_ok in Hva.
  replace (slen al <=? zlen xs) with true by lia.
  revert w Hf.
  match goal with |- forall w, fault w = None -> ?m0 s w = _ => set (m := m0) end.
  change (eq_run m (abs s) xs s).
  rewrite <- Haa. rewrite <- (firstn_skipn (Z.to_nat (slen al)) xs). subst m.
  change (eq_run
    ((ret tt);;
     dassert (slen al =? zlen (firstn (Z.to_nat (slen al)) xs));;
     dassert (slen ar =? zlen (skipn (Z.to_nat (slen al)) xs));;
     and_then (slice_eq eqf (sl_elems (items s) al) (firstn (Z.to_nat (slen al)) xs))
              (slice_eq eqf (sl_elems (items s) ar) (skipn (Z.to_nat (slen al)) xs)))
    (sl_elems (items s) al ++ sl_elems (items s) ar)
    (firstn (Z.to_nat (slen al)) xs ++ skipn (Z.to_nat (slen al)) xs) s).
  eapply bind_run; [intros; reflexivity|].
  eapply bind_run; [intros; apply dassert_ok; rewrite zlen_firstn; lia|].
  eapply bind_run; [intros; apply dassert_ok; rewrite zlen_skipn; lia|].
  unfold zlen in E.
  apply and_then_run.
  - rewrite sl_elems_length, firstn_length. lia.
  - apply slice_eq_run. rewrite sl_elems_length, firstn_length. lia.
  - apply slice_eq_run. rewrite sl_elems_length, skipn_length. lia.
Qed.

End Eq.

Theorem eq_op other : refines_op (OEq other).
Proof.
  intros s w HW Hf Ho. cbn [op_ok] in Ho.
  unfold refines_at. cbn [spec_step].
  pose proof (buf_eq_ok val_eqb other s w HW Ho Hf) as H.
  destruct (spec_eq val_eqb (abs s) (abs other)) as [b evs]. cbn [fst snd] in H.
  exists (OutBool b), s. cbn [sr_evs sr_nid sr_out sr_list].
  split; [|split; [reflexivity|auto]].
  cbn [exec]. erewrite bind_ok by exact H. reflexivity.
Qed.

Theorem eq_slice_op form xs : refines_op (OEqSlice form xs).
Proof.
  intros s w HW Hf Ho.
  unfold refines_at. cbn [spec_step].
  pose proof (buf_eq_slice_ok val_eqb xs s w HW Hf) as H.
  destruct (spec_eq val_eqb (abs s) xs) as [b evs]. cbn [fst snd] in H.
  exists (OutBool b), s. cbn [sr_evs sr_nid sr_out sr_list].
  split; [|split; [reflexivity|auto]].
  cbn [exec].
  assert (Hform : eq_form form = buf_eq_slice) by (destruct form; reflexivity).
  rewrite Hform. erewrite bind_ok by exact H. reflexivity.
Qed.

(* ---- PartialOrd / Ord: lexicographic comparison through two iterators ------------------ *)

Section Ord.
Variable cmpf : elem -> elem -> option comparison.

Lemma iter_cmp_loop_ok a b :
  forall xs ys fuel ia ib s w,
    fault w = None ->
    map (items a) (it_slots ia) = xs -> map (items b) (it_slots ib) = ys ->
    (length xs < fuel)%nat ->
    iter_cmp_loop cmpf fuel a b ia ib s w =
      (Ok (fst (spec_cmp cmpf xs ys)), s,
       wev w (snd (spec_cmp cmpf xs ys)) (next_id w)).
Proof.
  induction xs as [|x xs IH]; intros ys fuel ia ib s w Hf Hma Hmb Hl.
  - destruct fuel as [|fuel]; [cbn in Hl; lia|]. cbn [iter_cmp_loop].
    destruct (iter_next_nil ia) as (ia' & ->).
    { destruct (it_slots ia); [reflexivity|discriminate]. }
    destruct ys as [|y ys].
    + destruct (iter_next_nil ib) as (ib' & ->).
      { destruct (it_slots ib); [reflexivity|discriminate]. }
      cbn. rewrite wev_nil. reflexivity.
    + destruct (it_slots ib) as [|q qs] eqn:Eb; [discriminate|].
      destruct (iter_next_cons ib q qs Eb) as (ib' & -> & _).
      cbn. rewrite wev_nil. reflexivity.
  - destruct fuel as [|fuel]; [cbn in Hl; lia|]. cbn [iter_cmp_loop].
    destruct (it_slots ia) as [|p ps] eqn:Ea; [discriminate|].
    cbn [map] in Hma. injection Hma as Hx Hxs.
    destruct (iter_next_cons ia p ps Ea) as (ia' & -> & Ea').
    destruct ys as [|y ys].
    + destruct (iter_next_nil ib) as (ib' & ->).
      { destruct (it_slots ib); [reflexivity|discriminate]. }
      cbn. rewrite wev_nil. reflexivity.
    + destruct (it_slots ib) as [|q qs] eqn:Eb; [discriminate|].
      cbn [map] in Hmb. injection Hmb as Hy Hys.
      destruct (iter_next_cons ib q qs Eb) as (ib' & -> & Eb').
      rewrite Hx, Hy. cbn [spec_cmp].
      erewrite bind_ok by apply emit_eq.
      erewrite bind_ok by (apply user_call_nofault; exact Hf).
      destruct (cmpf x y) as [[| |]|]; try reflexivity.
      rewrite (IH ys); [|exact Hf|rewrite Ea'; exact Hxs|rewrite Eb'; exact Hys|cbn in Hl; lia].
      destruct (spec_cmp cmpf xs ys) as [r evs]. cbn [fst snd].
      rewrite wev_wev. reflexivity.
Qed.

Lemma buf_partial_cmp_ok other s w :
  WF s -> WF other -> fault w = None ->
  buf_partial_cmp cmpf other s w =
    (Ok (fst (spec_cmp cmpf (abs s) (abs other))), s,
     wev w (snd (spec_cmp cmpf (abs s) (abs other))) (next_id w)).
Proof.
  intros HW HWo Hf. pose proof HW as HW'. wf HW'.
  unfold buf_partial_cmp. mcbn.
  destruct (iter_new_ok s w HW) as (ia & Hia & Hma).
  erewrite bind_ok by exact Hia.
  destruct (iter_new_ok other w HWo) as (ib & Hib & Hmb).
  erewrite bind_ok by (apply with_buf_ok; exact Hib).
  apply iter_cmp_loop_ok; [exact Hf|exact Hma|exact Hmb|].
  rewrite abs_length. lia.
Qed.

End Ord.

Theorem partial_cmp_op other : refines_op (OPartialCmp other).
Proof.
  intros s w HW Hf Ho. cbn [op_ok] in Ho.
  unfold refines_at. cbn [spec_step].
  pose proof (buf_partial_cmp_ok val_cmp other s w HW Ho Hf) as H.
  destruct (spec_cmp val_cmp (abs s) (abs other)) as [r evs]. cbn [fst snd] in H.
  exists (OutOrd r), s. cbn [sr_evs sr_nid sr_out sr_list].
  split; [|split; [reflexivity|auto]].
  cbn [exec]. erewrite bind_ok by exact H. reflexivity.
Qed.

Theorem cmp_op other : refines_op (OCmp other).
Proof.
  intros s w HW Hf Ho. cbn [op_ok] in Ho. destruct Ho as [Ho _].
  unfold refines_at. cbn [spec_step].
  pose proof (buf_partial_cmp_ok val_ord other s w HW Ho Hf) as H.
  destruct (spec_cmp val_ord (abs s) (abs other)) as [r evs]. cbn [fst snd] in H.
  exists (OutOrd r), s. cbn [sr_evs sr_nid sr_out sr_list].
  split; [|split; [reflexivity|auto]].
  cbn [exec]. unfold buf_cmp. erewrite bind_ok by exact H. reflexivity.
Qed.
