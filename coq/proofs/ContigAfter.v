(* ContigAfter.v — after make_contiguous, as_slices reports a single slice (C07). *)

From CB Require Import Spec.
From CBP Require Import MonadLemmas Arith AbsLemmas ListLemmas AbsOps Core Step Slices Views.
From Coq Require Import ZifyBool.
Ltac Zify.zify_post_hook ::= Z.div_mod_to_equations.

Lemma contiguous_of_slots s sl :
  WF s -> 0 < size s ->
  zseq (soff sl) (Z.to_nat (slen sl)) = map (phys s) (zseq 0 (Z.to_nat (size s))) ->
  start s + size s <= cap s.
Proof.
  intros HW Hsz H. pose proof HW as HW'. wf HW'. specialize (Hst ltac:(lia)).
  assert (Hl : Z.to_nat (slen sl) = Z.to_nat (size s)).
  { apply (f_equal (@length Z)) in H. rewrite map_length, !zseq_length in H. exact H. }
  (* first and last slot *)
  assert (H0 : nth 0 (zseq (soff sl) (Z.to_nat (slen sl))) 0 = phys s 0).
  { rewrite H. rewrite nth_map_lt with (d0 := 0) by (rewrite zseq_length; lia).
    rewrite zseq_nth by lia. reflexivity. }
  rewrite zseq_nth in H0 by lia.
  assert (H1 : nth (Z.to_nat (size s) - 1) (zseq (soff sl) (Z.to_nat (slen sl))) 0 = phys s (size s - 1)).
  { rewrite H. rewrite nth_map_lt with (d0 := 0) by (rewrite zseq_length; lia).
    rewrite zseq_nth by lia. f_equal. lia. }
  rewrite zseq_nth in H1 by lia.
  destruct (phys_spec s 0) as [[? E0]|[? E0]]; try lia;
    destruct (phys_spec s (size s - 1)) as [[? E1]|[? E1]]; try lia; lia.
Qed.

(* the state make_contiguous leaves behind is one in which as_slices returns
   everything in its first slice and an empty second one *)
Theorem make_contiguous_then_single_slice s w :
  WF s ->
  exists sl s1,
    make_contiguous s w = (Ok sl, s1, w) /\ WF s1 /\ abs s1 = abs s /\
    exists a b, as_slices s1 w = (Ok (a, b), s1, w) /\ slen b = 0 /\
                sl_elems (items s1) a = abs s.
Proof.
  intros HW.
  destruct (make_contiguous_ok s w HW) as (sl & s1 & Hm & HW1 & Hc & Ha & Hsl).
  exists sl, s1. split; [exact Hm|]. split; [exact HW1|]. split; [exact Ha|].
  rewrite (as_slices_ok s1 w HW1).
  exists (fst (as_slices_val s1)), (snd (as_slices_val s1)).
  split; [destruct (as_slices_val s1); reflexivity|].
  pose proof HW1 as HW'. wf HW'.
  pose proof (as_slices_val_abs s1 HW1) as Hab.
  assert (Hb : slen (snd (as_slices_val s1)) = 0).
  { unfold as_slices_val.
    destruct ((cap s1 =? 0) || (size s1 =? 0)) eqn:E0; [reflexivity|].
    assert (Hpos : 0 < size s1) by lia.
    pose proof (contiguous_of_slots s1 sl HW1 Hpos Hsl) as Hcont.
    destruct (start s1 + size s1 <? cap s1) eqn:E1; cbn [snd slen]; [reflexivity|lia]. }
  split; [exact Hb|].
  rewrite <- Ha, <- Hab.
  rewrite (sl_elems_empty _ (snd (as_slices_val s1))) by lia.
  rewrite app_nil_r. reflexivity.
Qed.
