(* Core.v — the single-element bookkeeping: inc/dec start/size, the
   *_maybe_uninit accessors, push / try_push / pop, in the form
   "on a well-formed state the function returns this value and this state". *)

From CB Require Import Spec.
From CBP Require Import MonadLemmas Arith AbsLemmas.
From Coq Require Import ZifyBool.
Ltac Zify.zify_post_hook ::= Z.div_mod_to_equations.

Ltac wf H :=
  let Hc := fresh "Hcap" in let Hs := fresh "Hsize" in
  let H0 := fresh "Hst0" in let H1 := fresh "Hst" in
  destruct H as (Hc & Hs & H0 & H1).

Ltac blem_user ::=
  first [ apply add_mod_ok; mcbn; lia | apply sub_mod_ok; mcbn; lia ].

Lemma inc_start_ok s w :
  0 < cap s < W -> 0 <= start s < cap s ->
  inc_start s w = (Ok tt, b_start s ((start s + 1) mod cap s), w).
Proof. intros. unfold inc_start. bsteps. Qed.

Lemma dec_start_ok s w :
  0 < cap s < W -> 0 <= start s < cap s ->
  dec_start s w = (Ok tt, b_start s ((start s + (cap s - 1)) mod cap s), w).
Proof. intros. unfold dec_start. bsteps. Qed.

Lemma inc_size_ok s w :
  0 <= size s < cap s -> cap s < W ->
  inc_size s w = (Ok tt, b_size s (size s + 1), w).
Proof. intros. unfold inc_size. bsteps. Qed.

Lemma dec_size_ok s w :
  0 < size s -> dec_size s w = (Ok tt, b_size s (size s - 1), w).
Proof. intros. unfold dec_size. bsteps. Qed.

Lemma front_maybe_uninit_ok s w :
  0 < size s <= cap s -> 0 <= start s < cap s ->
  front_maybe_uninit s w = (Ok (start s), s, w).
Proof. intros. unfold front_maybe_uninit. bsteps. Qed.

Lemma front_maybe_uninit_mut_ok s w :
  0 < size s -> 0 <= start s < cap s ->
  front_maybe_uninit_mut s w = (Ok (start s), s, w).
Proof. intros. unfold front_maybe_uninit_mut. bsteps. Qed.

Lemma back_maybe_uninit_ok s w :
  0 < size s <= cap s -> cap s < W -> 0 <= start s < cap s ->
  back_maybe_uninit s w = (Ok (phys s (size s - 1)), s, w).
Proof.
  intros. unfold back_maybe_uninit, phys. bsteps.
Qed.

Lemma get_maybe_uninit_ok s w i :
  0 < size s -> 0 <= i < cap s -> cap s < W -> 0 <= start s < cap s ->
  get_maybe_uninit i s w = (Ok (phys s i), s, w).
Proof.
  intros. unfold get_maybe_uninit, phys. bsteps.
Qed.
