(* Ctors.v — operation-level refinement for the constructors and conversions
   From<[T; M]>, Clone::clone (clone dropped / clone kept) and
   Clone::clone_from. *)

From CB Require Import Spec.
From CBP Require Import MonadLemmas Arith AbsLemmas ListLemmas AbsOps Core Step PushPop
     Slices Truncate RefDefs RefTruncate Views FillExtend.
From Coq Require Import ZifyBool.
Ltac Zify.zify_post_hook ::= Z.div_mod_to_equations.

(* ---- From<[T; M]> ------------------------------------------------------------- *)

(* the body on a fresh buffer: the last min(n, |xs|) elements are kept, the
   discarded prefix is destroyed in order *)
Lemma from_array_body_ok n xs w :
  0 <= n < W -> fault w = None -> zlen xs < W ->
  exists b,
    from_array_body xs (new_buf n junk0) w =
      (Ok tt, b,
       wev w (drops (firstn (Z.to_nat (zlen xs - Z.min n (zlen xs))) xs)) (next_id w)) /\
    abs b = lastn (Z.to_nat (Z.min n (zlen xs))) xs /\ WF b /\ cap b = n.
Proof.
  intros Hn Hf Hx. pose proof (zlen_nonneg xs) as Hx0.
  set (sz := Z.min n (zlen xs)).
  set (k := zlen xs - sz).
  exists (mkB n sz 0
            (fun i => if (0 <=? i) && (i <? sz)
                      then nth (Z.to_nat (i + k)) xs (junk0 i) else junk0 i)).
  split; [|split; [|split]].
  - unfold from_array_body, new_buf. mcbn.
    assert (E : (if zlen xs <=? n then zlen xs else n) = sz)
      by (subst sz; destruct (zlen xs <=? n) eqn:E1; lia).
    rewrite E.
    erewrite bind_ok by (apply usub_ok; lia). mcbn. fold k.
    apply on_unwind_ok. apply drop_list_nofault. exact Hf.
  - apply zn_ext.
    + rewrite abs_zlen by (cbn [size]; lia). cbn [size]. unfold lastn.
      rewrite zlen_skipn. unfold zlen in *. lia.
    + intros i Hi. rewrite abs_zlen in Hi by (cbn [size]; lia). cbn [size] in Hi.
      rewrite zn_abs by (cbn [size]; lia). rewrite phys_mkB. cbn [items].
      rewrite Z.add_0_l, Z.mod_small by lia.
      replace ((0 <=? i) && (i <? sz)) with true by lia.
      unfold lastn. rewrite zn_skipn by lia. unfold zn.
      rewrite nth_indep with (d' := dflt) by (unfold zlen in *; lia).
      f_equal. unfold zlen in *. lia.
  - apply WF_mk; lia.
  - reflexivity.
Qed.

Lemma from_array_ok n xs s w :
  0 <= n < W -> fault w = None -> zlen xs < W ->
  exists b,
    from_array n junk0 xs s w =
      (Ok b, s,
       wev w (drops (firstn (Z.to_nat (zlen xs - Z.min n (zlen xs))) xs)) (next_id w)) /\
    abs b = lastn (Z.to_nat (Z.min n (zlen xs))) xs /\ WF b /\ cap b = n.
Proof.
  intros Hn Hf Hx.
  destruct (from_array_body_ok n xs w Hn Hf Hx) as (b & Hb & Ha & HWb & Hcb).
  exists b. unfold from_array.
  erewrite bind_ok by (apply with_buf_ok; exact Hb).
  unfold ret. auto.
Qed.

Theorem from_array_op xs : refines_op (OFromArray xs).
Proof.
  intros s w HW Hf Hx. cbn in Hx. pose proof HW as HW'. wf HW'.
  pose proof (zlen_nonneg xs) as Hx0.
  destruct (from_array_ok (cap s) xs s w Hcap Hf Hx) as (b & Hb & Ha & HWb & Hcb).
  unfold refines_at. cbn [spec_step exec].
  exists OutUnit, b. mcbn.
  erewrite bind_ok by exact Hb.
  erewrite bind_ok by (apply replace_buf_ok; [exact HW|exact Hf]).
  cbn [sr_evs sr_nid sr_out sr_list]. unfold ret. rewrite wev_wev, wev_next.
  unfold nat_of.
  split; [|split; [reflexivity|split; [exact Ha|auto]]].
  replace (length xs - length (lastn (Z.to_nat (Z.min (cap s) (zlen xs))) xs))%nat
    with (Z.to_nat (zlen xs - Z.min (cap s) (zlen xs))).
  - reflexivity.
  - unfold lastn. rewrite skipn_length. unfold zlen in *. lia.
Qed.

(* ---- stepping an Iter ---------------------------------------------------------- *)

(* the slots an Iter still has to yield, in order *)
Definition it_slots (it : iter) : list Z :=
  zseq (soff (it_right it)) (Z.to_nat (slen (it_right it))) ++
  zseq (soff (it_left it)) (Z.to_nat (slen (it_left it))).

Lemma zseq_nil_inv a n : zseq a n = [] -> n = 0%nat.
Proof. intros H. apply (f_equal (@length Z)) in H. rewrite zseq_length in H. exact H. Qed.

Lemma iter_next_nil it : it_slots it = [] -> snd (iter_next it) = None.
Proof.
  destruct it as [[ro rl] [lo ll]]. unfold it_slots. cbn [it_right it_left soff slen].
  intros H. apply app_eq_nil in H. destruct H as [H1 H2].
  apply zseq_nil_inv in H1. apply zseq_nil_inv in H2.
  unfold iter_next, slice_take_first. cbn [it_right it_left soff slen].
  replace (0 <? rl) with false by lia. replace (0 <? ll) with false by lia. reflexivity.
Qed.

Lemma iter_next_cons it p ps :
  it_slots it = p :: ps ->
  exists it', iter_next it = (it', Some p) /\ it_slots it' = ps.
Proof.
  destruct it as [[ro rl] [lo ll]]. unfold it_slots. cbn [it_right it_left soff slen].
  intros H. unfold iter_next, slice_take_first. cbn [it_right it_left soff slen].
  destruct (0 <? rl) eqn:E.
  - replace (Z.to_nat rl) with (S (Z.to_nat (rl - 1))) in H by lia.
    rewrite zseq_cons in H. cbn [app] in H. injection H as Hp Hps. subst p.
    eexists. split; [reflexivity|].
    cbn [it_right it_left soff slen]. exact Hps.
  - replace (Z.to_nat rl) with 0%nat in H by lia.
    change (zseq ro 0) with (@nil Z) in H. cbn [app] in H.
    destruct (0 <? ll) eqn:E2.
    + replace (Z.to_nat ll) with (S (Z.to_nat (ll - 1))) in H by lia.
      rewrite zseq_cons in H. injection H as Hp Hps. subst p.
      eexists. split; [reflexivity|].
      cbn [it_right it_left soff slen].
      replace (Z.to_nat rl) with 0%nat by lia. exact Hps.
    + replace (Z.to_nat ll) with 0%nat in H by lia. discriminate H.
Qed.

(* iter_new on a well-formed buffer *)
Lemma iter_new_ok s w :
  WF s ->
  iter_new s w = (Ok (mkI (fst (as_slices_val s)) (snd (as_slices_val s))), s, w).
Proof.
  intros HW. unfold iter_new.
  erewrite bind_ok by (apply as_slices_ok; exact HW).
  destruct (as_slices_val s); reflexivity.
Qed.

Lemma iter_new_slots s :
  WF s ->
  it_slots (mkI (fst (as_slices_val s)) (snd (as_slices_val s)))
  = map (phys s) (zseq 0 (Z.to_nat (size s))).
Proof. intros HW. unfold it_slots. cbn [it_right it_left]. apply as_slices_val_slots. exact HW. Qed.

(* ---- for_each over src.iter().cloned(), pushing into the current buffer --------- *)

Lemma cloned_loop_ok src : forall ps fuel it d w,
  it_slots it = ps -> (length ps < fuel)%nat -> WF d -> fault w = None ->
  size d + zlen ps <= cap d ->
  exists d',
    cloned_for_each fuel src it push_back_discard d w =
      (Ok tt, d',
       wev w (clone_evs (next_id w) (map (items src) ps)) (next_id w + zlen ps)) /\
    abs d' = abs d ++ clones (next_id w) (map (items src) ps) /\
    WF d' /\ cap d' = cap d.
Proof.
  induction ps as [|p ps IH]; intros fuel it d w Hsl Hfuel HW Hf Hroom.
  - destruct fuel as [|fuel]; [cbn in Hfuel; lia|].
    pose proof (iter_next_nil it Hsl) as Hn.
    exists d. cbn [cloned_for_each].
    destruct (iter_next it) as [it' o]. cbn [snd] in Hn. subst o.
    cbn [map clones clone_evs]. rewrite zlen_nil, Z.add_0_r, wev_nil, app_nil_r.
    unfold ret. auto.
  - destruct fuel as [|fuel]; [cbn in Hfuel; lia|].
    destruct (iter_next_cons it p ps Hsl) as (it' & Hn & Hsl').
    rewrite zlen_cons in Hroom. pose proof (zlen_nonneg ps) as Hps0.
    set (c := mkE (next_id w) (eval (items src p))).
    set (w1 := wev w [EvClone (items src p) c] (next_id w + 1)).
    destruct (push_back_room d w1 c HW ltac:(lia)) as (d1 & Hp & Ha1 & HW1 & Hc1 & Hz1).
    assert (Hpd : push_back_discard c d w1 = (Ok tt, d1, w1)).
    { unfold push_back_discard. erewrite bind_ok by exact Hp. reflexivity. }
    cbn [length] in Hfuel.
    destruct (IH fuel it' d1 w1 Hsl' ltac:(lia) HW1 Hf ltac:(lia))
      as (d2 & Hl & Ha2 & HW2 & Hc2).
    exists d2. cbn [cloned_for_each]. rewrite Hn.
    erewrite bind_ok by (apply clone_elem_nofault; exact Hf).
    fold c. fold w1.
    erewrite bind_ok by exact Hpd.
    rewrite Hl. subst w1. rewrite wev_wev, wev_next.
    cbn [map clones clone_evs]. fold c. rewrite zlen_cons.
    split; [|split; [|split]].
    + f_equal. f_equal. lia.
    + rewrite Ha2, Ha1, wev_next, <- app_assoc. reflexivity.
    + exact HW2.
    + congruence.
Qed.

(* the whole of [src] cloned into the buffer [d], which has room for it *)
Lemma cloned_all_ok src d w :
  WF src -> WF d -> fault w = None -> size d + size src <= cap d ->
  exists d',
    cloned_for_each (S (Z.to_nat (size src))) src
      (mkI (fst (as_slices_val src)) (snd (as_slices_val src))) push_back_discard d w =
      (Ok tt, d', wev w (clone_evs (next_id w) (abs src)) (next_id w + size src)) /\
    abs d' = abs d ++ clones (next_id w) (abs src) /\
    WF d' /\ cap d' = cap d.
Proof.
  intros HWs HW Hf Hroom. pose proof HWs as HWs'. wf HWs'.
  pose proof (cloned_loop_ok src (map (phys src) (zseq 0 (Z.to_nat (size src))))
                (S (Z.to_nat (size src))) _ d w (iter_new_slots src HWs)) as H.
  rewrite <- abs_map in H.
  assert (Hlen : length (map (phys src) (zseq 0 (Z.to_nat (size src)))) = Z.to_nat (size src))
    by (rewrite map_length, zseq_length; reflexivity).
  unfold zlen in H. rewrite Hlen in H.
  replace (Z.of_nat (Z.to_nat (size src))) with (size src) in H by lia.
  apply H; [lia|exact HW|exact Hf|lia].
Qed.

(* ---- Clone::clone ------------------------------------------------------------------ *)

Theorem clone_buf_ok s w :
  WF s -> fault w = None ->
  exists c,
    clone_buf junk0 s w =
      (Ok c, s, wev w (clone_evs (next_id w) (abs s)) (next_id w + size s)) /\
    abs c = clones (next_id w) (abs s) /\ WF c /\ cap c = cap s.
Proof.
  intros HW Hf. pose proof HW as HW'. wf HW'.
  destruct (cloned_all_ok s (new_buf (cap s) junk0) w HW (WF_new (cap s) junk0 Hcap) Hf)
    as (c & Hl & Ha & HWc & Hcc); [cbn [new_buf size cap]; lia|].
  rewrite (abs_empty (new_buf (cap s) junk0)) in Ha by reflexivity. cbn [app] in Ha.
  exists c. unfold clone_buf. mcbn.
  erewrite bind_ok by (apply iter_new_ok; exact HW).
  erewrite bind_ok by (apply with_buf_ok; apply on_unwind_ok; exact Hl).
  unfold ret. auto.
Qed.

Theorem clone_drop_op : refines_op OCloneDropClone.
Proof.
  intros s w HW Hf _. pose proof HW as HW'. wf HW'.
  destruct (clone_buf_ok s w HW Hf) as (c & Hc & Ha & HWc & Hcc).
  set (w1 := wev w (clone_evs (next_id w) (abs s)) (next_id w + size s)) in *.
  assert (Hin : (s0 <- get;; '(a, b) <- as_slices;;
                 ret (sl_elems (items s0) a ++ sl_elems (items s0) b)) c w1
                = (Ok (abs c), c, w1)).
  { mcbn. erewrite bind_ok by (apply as_slices_ok; exact HWc).
    pose proof (as_slices_val_abs c HWc) as H.
    destruct (as_slices_val c) as [a b]. cbn [fst snd] in H. rewrite H. reflexivity. }
  destruct (drop_buf_ok c w1 HWc Hf) as (c' & Hd & _).
  unfold refines_at. cbn [spec_step exec].
  exists (OutList (abs c)), s.
  erewrite bind_ok by exact Hc. fold w1.
  erewrite bind_ok by (apply with_buf_ok; exact Hin).
  cbv iota beta. erewrite bind_ok by (apply with_buf_ok; exact Hd).
  cbn [sr_evs sr_nid sr_out sr_list]. unfold ret.
  subst w1. rewrite wev_wev, wev_next, abs_zlen by lia. rewrite Ha.
  split; [reflexivity|]. split; [reflexivity|]. auto.
Qed.

Theorem clone_keep_op : refines_op OCloneKeepClone.
Proof.
  intros s w HW Hf _. pose proof HW as HW'. wf HW'.
  destruct (clone_buf_ok s w HW Hf) as (c & Hc & Ha & HWc & Hcc).
  unfold refines_at. cbn [spec_step exec].
  exists OutUnit, c.
  erewrite bind_ok by exact Hc.
  erewrite bind_ok by (apply replace_buf_ok; [exact HW|exact Hf]).
  cbn [sr_evs sr_nid sr_out sr_list]. unfold ret.
  rewrite wev_wev, wev_next, abs_zlen by lia.
  split; [reflexivity|]. split; [reflexivity|]. auto.
Qed.

(* ---- Clone::clone_from ---------------------------------------------------------------- *)

Theorem clone_from_ok other s w :
  WF s -> fault w = None -> WF other -> cap other = cap s ->
  ev_step (clone_from other) s w tt (clones (next_id w) (abs other))
          (drops (abs s) ++ clone_evs (next_id w) (abs other)) (next_id w + size other).
Proof.
  intros HW Hf HWo Hco. pose proof HWo as HWo'. wf HWo'.
  destruct (clear_ok s w HW Hf) as (s1 & Hc & Ha1 & HW1 & Hc1).
  pose proof (abs_nil_size s1 HW1 Ha1) as Hz1.
  set (w1 := wev w (drops (abs s)) (next_id w)) in *.
  destruct (cloned_all_ok other s1 w1 HWo HW1 Hf ltac:(lia)) as (s2 & Hl & Ha2 & HW2 & Hc2).
  exists s2. unfold clone_from.
  erewrite bind_ok by exact Hc.
  erewrite bind_ok by (apply with_buf_ok; apply iter_new_ok; exact HWo).
  cbv iota beta. fold w1. rewrite Hl. subst w1. rewrite wev_wev, !wev_next.
  split; [reflexivity|]. split; [|split; [exact HW2|congruence]].
  rewrite Ha2, Ha1, wev_next. reflexivity.
Qed.

Theorem clone_from_op other : refines_op (OCloneFrom other).
Proof.
  intros s w HW Hf Hop. cbn in Hop. destruct Hop as [HWo Hco].
  pose proof HWo as HWo'. wf HWo'.
  eapply refines_ev with (m := clone_from other) (f := fun _ => OutUnit) (v := tt);
    [reflexivity| |exact (clone_from_ok other s w HW Hf HWo Hco)|reflexivity].
  cbn [spec_step]. rewrite abs_zlen by lia. reflexivity.
Qed.
