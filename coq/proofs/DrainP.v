(* DrainP.v — operation-level refinement for drain: range translation, the
   script on the live Drain, mem::forget, and Drop for Drain (destroy the
   un-yielded elements, back-fill the hole with the circular memmove loop). *)

From CB Require Import Spec.
From CBP Require Import MonadLemmas Arith AbsLemmas ListLemmas AbsOps Core Step Slices RefDefs.
From Coq Require Import ZifyBool.
Ltac Zify.zify_post_hook ::= Z.div_mod_to_equations.

Ltac blem_user ::=
  first [ apply add_mod_ok; mcbn; lia | apply sub_mod_ok; mcbn; lia ].

(* ---- translate_range_bounds against spec_bounds ---------------------------- *)

Lemma translate_bounds_ok s w sb eb :
  bound_ok sb -> bound_ok eb -> 0 <= size s ->
  match spec_bounds (size s) sb eb with
  | Some (a, b) =>
    translate_range_bounds sb eb s w = (Ok (a, b), s, w) /\ 0 <= a <= b /\ b <= size s
  | None =>
    exists k, translate_range_bounds sb eb s w = (Panic k, s, w) /\ documented_kind k
  end.
Proof.
  intros Hsb Heb Hz.
  unfold translate_range_bounds, spec_bounds, checked_add, len, documented_kind.
  destruct sb as [x|x|], eb as [y|y|]; cbn [bound_ok] in *; unfold in_usize in *;
    repeat match goal with
           | |- context [?p + 1 <? W] => destruct (p + 1 <? W) eqn:?
           end;
    mcbn;
    try (eexists; split; [reflexivity|]; auto; fail);
    match goal with
    | |- context [(?b <=? ?n) && (?a <=? ?b)] =>
      destruct (b <=? n) eqn:?; destruct (a <=? b) eqn:?; cbn [andb]
    end;
    unfold assert_; mcbn;
    try (split; [reflexivity|lia]);
    try (eexists; split; [reflexivity|]; auto; fail).
Qed.

Lemma drain_over_range_ok s w sb eb a b :
  translate_range_bounds sb eb s w = (Ok (a, b), s, w) ->
  drain_over_range sb eb s w = (Ok (mkD (size s) a b a b), b_size s 0, w).
Proof.
  intros H. unfold drain_over_range. erewrite bind_ok by exact H. reflexivity.
Qed.

Lemma drain_over_range_panic s w sb eb k :
  translate_range_bounds sb eb s w = (Panic k, s, w) ->
  drain_over_range sb eb s w = (Panic k, s, w).
Proof.
  intros H. unfold drain_over_range. erewrite bind_panic by exact H. reflexivity.
Qed.

(* ---- reading through the live Drain ------------------------------------------ *)

(* the bookkeeping facts that hold while a Drain is alive (size is 0) *)
Definition geom (s : cbuf) : Prop :=
  0 <= cap s < W /\ (cap s = 0 -> start s = 0) /\ (0 < cap s -> 0 <= start s < cap s).

Lemma drain_read_ok s w n a b lo hi i :
  geom s -> 0 <= a <= i -> i < b -> b <= n -> n <= cap s -> (i < lo \/ hi <= i) ->
  drain_read (mkD n a b lo hi) i s w = (Ok (items s (phys s i)), s, w).
Proof.
  intros (Hc & H0 & Hst) Ha Hb Hn Hcap Hw. specialize (Hst ltac:(lia)).
  unfold drain_read. cbn [d_buf_size d_rs d_re d_is d_ie].
  bsteps.
Qed.

Lemma drain_next_ok s w n a b lo hi :
  geom s -> 0 <= a <= lo -> lo < hi -> hi <= b -> b <= n -> n <= cap s ->
  drain_next (mkD n a b lo hi) s w =
    (Ok (mkD n a b (lo + 1) hi, Some (items s (phys s lo))), s, w).
Proof.
  intros. unfold drain_next. cbn [d_buf_size d_rs d_re d_is d_ie].
  ifb. erewrite bind_ok by (apply drain_read_ok; auto; lia). reflexivity.
Qed.

Lemma drain_next_none s w n a b lo hi :
  hi <= lo -> drain_next (mkD n a b lo hi) s w = (Ok (mkD n a b lo hi, None), s, w).
Proof.
  intros. unfold drain_next. cbn [d_buf_size d_rs d_re d_is d_ie]. ifb. reflexivity.
Qed.

Lemma drain_next_back_ok s w n a b lo hi :
  geom s -> 0 <= a <= lo -> lo < hi -> hi <= b -> b <= n -> n <= cap s ->
  drain_next_back (mkD n a b lo hi) s w =
    (Ok (mkD n a b lo (hi - 1), Some (items s (phys s (hi - 1)))), s, w).
Proof.
  intros. unfold drain_next_back. cbn [d_buf_size d_rs d_re d_is d_ie].
  ifb. erewrite bind_ok by (apply drain_read_ok; auto; lia). reflexivity.
Qed.

Lemma drain_next_back_none s w n a b lo hi :
  hi <= lo -> drain_next_back (mkD n a b lo hi) s w = (Ok (mkD n a b lo hi, None), s, w).
Proof.
  intros. unfold drain_next_back. cbn [d_buf_size d_rs d_re d_is d_ie]. ifb. reflexivity.
Qed.

(* ---- the script on the live Drain ---------------------------------------------- *)

Lemma nth_error_zn_nat l k :
  Z.of_nat k < zlen l -> nth_error l k = Some (zn l (Z.of_nat k)).
Proof.
  intros H. rewrite <- (Nat2Z.id k) at 1. apply zn_nth_error. lia.
Qed.

Lemma drain_script_ok l0 s w n a b :
  geom s -> 0 <= a -> b <= n -> n <= cap s -> zlen l0 = n ->
  (forall i, 0 <= i < n -> zn l0 i = items s (phys s i)) ->
  forall script lo hi,
  a <= Z.of_nat lo -> (lo <= hi)%nat -> Z.of_nat hi <= b ->
  exists rs lo' hi',
    run_drain_script (mkD n a b (Z.of_nat lo) (Z.of_nat hi)) script s w
      = (Ok (mkD n a b (Z.of_nat lo') (Z.of_nat hi'), rs), s, w) /\
    spec_script l0 lo hi (map plain_step script) = (map erase_sres rs, l0, (lo', hi')) /\
    (lo <= lo')%nat /\ (lo' <= hi')%nat /\ (hi' <= hi)%nat.
Proof.
  intros Hg Ha Hb Hn Hl Hz.
  assert (Hfront : forall rest lo hi,
    (forall lo hi, a <= Z.of_nat lo -> (lo <= hi)%nat -> Z.of_nat hi <= b ->
      exists rs lo' hi',
        run_drain_script (mkD n a b (Z.of_nat lo) (Z.of_nat hi)) rest s w
          = (Ok (mkD n a b (Z.of_nat lo') (Z.of_nat hi'), rs), s, w) /\
        spec_script l0 lo hi (map plain_step rest) = (map erase_sres rs, l0, (lo', hi')) /\
        (lo <= lo')%nat /\ (lo' <= hi')%nat /\ (hi' <= hi)%nat) ->
    a <= Z.of_nat lo -> (lo <= hi)%nat -> Z.of_nat hi <= b ->
    exists rs lo' hi',
      ('(d', o) <- drain_next (mkD n a b (Z.of_nat lo) (Z.of_nat hi));;
       '(d'', rs) <- run_drain_script d' rest;; ret (d'', RItem (opt_pe o) :: rs)) s w
        = (Ok (mkD n a b (Z.of_nat lo') (Z.of_nat hi'), rs), s, w) /\
      (if Nat.ltb lo hi then
         let '(rs, l', w) := spec_script l0 (S lo) hi (map plain_step rest) in
         (RItem (option_map epe (nth_error l0 lo)) :: rs, l', w)
       else
         let '(rs, l', w) := spec_script l0 lo hi (map plain_step rest) in
         (RItem None :: rs, l', w)) = (map erase_sres rs, l0, (lo', hi')) /\
      (lo <= lo')%nat /\ (lo' <= hi')%nat /\ (hi' <= hi)%nat).
  { intros rest lo hi IH Hlo Hlh Hhi.
    destruct (Nat.ltb_spec lo hi) as [Hlt|Hge].
    - destruct (IH (S lo) hi ltac:(lia) ltac:(lia) ltac:(lia))
        as (rs & lo' & hi' & Hr & Hs & H1 & H2 & H3).
      exists (RItem (opt_pe (Some (items s (phys s (Z.of_nat lo))))) :: rs), lo', hi'.
      split; [|split; [|lia]].
      + erewrite bind_ok by (apply drain_next_ok; auto; lia). cbv beta iota.
        replace (Z.of_nat lo + 1) with (Z.of_nat (S lo)) by lia.
        erewrite bind_ok by exact Hr. reflexivity.
      + rewrite Hs. rewrite nth_error_zn_nat by lia. rewrite Hz by lia. reflexivity.
    - destruct (IH lo hi ltac:(lia) ltac:(lia) ltac:(lia))
        as (rs & lo' & hi' & Hr & Hs & H1 & H2 & H3).
      exists (RItem (opt_pe None) :: rs), lo', hi'.
      split; [|split; [|lia]].
      + erewrite bind_ok by (apply drain_next_none; lia). cbv beta iota.
        erewrite bind_ok by exact Hr. reflexivity.
      + rewrite Hs. reflexivity. }
  assert (Hback : forall rest lo hi,
    (forall lo hi, a <= Z.of_nat lo -> (lo <= hi)%nat -> Z.of_nat hi <= b ->
      exists rs lo' hi',
        run_drain_script (mkD n a b (Z.of_nat lo) (Z.of_nat hi)) rest s w
          = (Ok (mkD n a b (Z.of_nat lo') (Z.of_nat hi'), rs), s, w) /\
        spec_script l0 lo hi (map plain_step rest) = (map erase_sres rs, l0, (lo', hi')) /\
        (lo <= lo')%nat /\ (lo' <= hi')%nat /\ (hi' <= hi)%nat) ->
    a <= Z.of_nat lo -> (lo <= hi)%nat -> Z.of_nat hi <= b ->
    exists rs lo' hi',
      ('(d', o) <- drain_next_back (mkD n a b (Z.of_nat lo) (Z.of_nat hi));;
       '(d'', rs) <- run_drain_script d' rest;; ret (d'', RItem (opt_pe o) :: rs)) s w
        = (Ok (mkD n a b (Z.of_nat lo') (Z.of_nat hi'), rs), s, w) /\
      (if Nat.ltb lo hi then
         let '(rs, l', w) := spec_script l0 lo (hi - 1) (map plain_step rest) in
         (RItem (option_map epe (nth_error l0 (hi - 1))) :: rs, l', w)
       else
         let '(rs, l', w) := spec_script l0 lo hi (map plain_step rest) in
         (RItem None :: rs, l', w)) = (map erase_sres rs, l0, (lo', hi')) /\
      (lo <= lo')%nat /\ (lo' <= hi')%nat /\ (hi' <= hi)%nat).
  { intros rest lo hi IH Hlo Hlh Hhi.
    destruct (Nat.ltb_spec lo hi) as [Hlt|Hge].
    - destruct (IH lo (hi - 1)%nat ltac:(lia) ltac:(lia) ltac:(lia))
        as (rs & lo' & hi' & Hr & Hs & H1 & H2 & H3).
      exists (RItem (opt_pe (Some (items s (phys s (Z.of_nat (hi - 1)))))) :: rs), lo', hi'.
      split; [|split; [|lia]].
      + erewrite bind_ok by (apply drain_next_back_ok; auto; lia). cbv beta iota.
        replace (Z.of_nat hi - 1) with (Z.of_nat (hi - 1)) by lia.
        erewrite bind_ok by exact Hr. reflexivity.
      + rewrite Hs. rewrite nth_error_zn_nat by lia. rewrite Hz by lia. reflexivity.
    - destruct (IH lo hi ltac:(lia) ltac:(lia) ltac:(lia))
        as (rs & lo' & hi' & Hr & Hs & H1 & H2 & H3).
      exists (RItem (opt_pe None) :: rs), lo', hi'.
      split; [|split; [|lia]].
      + erewrite bind_ok by (apply drain_next_back_none; lia). cbv beta iota.
        erewrite bind_ok by exact Hr. reflexivity.
      + rewrite Hs. reflexivity. }
  assert (Hlen : forall rest lo hi,
    (forall lo hi, a <= Z.of_nat lo -> (lo <= hi)%nat -> Z.of_nat hi <= b ->
      exists rs lo' hi',
        run_drain_script (mkD n a b (Z.of_nat lo) (Z.of_nat hi)) rest s w
          = (Ok (mkD n a b (Z.of_nat lo') (Z.of_nat hi'), rs), s, w) /\
        spec_script l0 lo hi (map plain_step rest) = (map erase_sres rs, l0, (lo', hi')) /\
        (lo <= lo')%nat /\ (lo' <= hi')%nat /\ (hi' <= hi)%nat) ->
    a <= Z.of_nat lo -> (lo <= hi)%nat -> Z.of_nat hi <= b ->
    exists rs lo' hi',
      ('(d'', rs) <- run_drain_script (mkD n a b (Z.of_nat lo) (Z.of_nat hi)) rest;;
       ret (d'', RLen (drain_len (mkD n a b (Z.of_nat lo) (Z.of_nat hi))) :: rs)) s w
        = (Ok (mkD n a b (Z.of_nat lo') (Z.of_nat hi'), rs), s, w) /\
      (let '(rs, l', w) := spec_script l0 lo hi (map plain_step rest) in
       (RLen (Z.of_nat (hi - lo)) :: rs, l', w)) = (map erase_sres rs, l0, (lo', hi')) /\
      (lo <= lo')%nat /\ (lo' <= hi')%nat /\ (hi' <= hi)%nat).
  { intros rest lo hi IH Hlo Hlh Hhi.
    destruct (IH lo hi ltac:(lia) ltac:(lia) ltac:(lia))
      as (rs & lo' & hi' & Hr & Hs & H1 & H2 & H3).
    exists (RLen (Z.of_nat (hi - lo)) :: rs), lo', hi'.
    split; [|split; [|lia]].
    - erewrite bind_ok by exact Hr. unfold ret. cbv beta iota.
      unfold drain_len, range_len. cbn [d_is d_ie].
      replace (if Z.of_nat lo <? Z.of_nat hi then Z.of_nat hi - Z.of_nat lo else 0)
        with (Z.of_nat (hi - lo)); [reflexivity|].
      destruct (Z.of_nat lo <? Z.of_nat hi) eqn:E; lia.
    - rewrite Hs. reflexivity. }
  induction script as [|st rest IH]; intros lo hi Hlo Hlh Hhi.
  - exists [], lo, hi. cbn. repeat split; lia.
  - destruct st; cbn [map plain_step spec_script run_drain_script];
      [ apply Hfront | apply Hback | apply Hlen | apply Hlen | apply Hfront | apply Hback ];
      auto.
Qed.

(* ---- mem::forget of the Drain ----------------------------------------------------- *)

Lemma geom_b_size0 s : WF s -> geom (b_size s 0).
Proof. intros HW. wf HW. unfold geom. cbn. auto. Qed.

Theorem drain_forget_op sb eb script : refines_op (ODrain sb eb script true).
Proof.
  intros s w HW Hf (Hsb & Heb). pose proof HW as HW'. wf HW'.
  unfold refines_at. cbn [spec_step]. rewrite abs_zlen by lia.
  pose proof (translate_bounds_ok s w sb eb Hsb Heb ltac:(lia)) as Ht.
  destruct (spec_bounds (size s) sb eb) as [[a b]|].
  - destruct Ht as (Ht & Hab & Hbn).
    destruct (drain_script_ok (abs s) (b_size s 0) w (size s) a b (geom_b_size0 s HW)
                ltac:(lia) ltac:(lia) ltac:(cbn; lia) (abs_zlen s ltac:(lia))
                ltac:(intros i Hi; exact (zn_abs s i Hi)) script (Z.to_nat a) (Z.to_nat b)
                ltac:(lia) ltac:(lia) ltac:(lia))
      as (rs & lo' & hi' & Hr & Hs & H1 & H2 & H3).
    rewrite !Z2Nat.id in Hr by lia.
    unfold nat_of. rewrite Hs.
    exists (OutScript rs), (b_size s 0). cbn [exec].
    erewrite bind_ok by (apply drain_over_range_ok; exact Ht).
    erewrite bind_ok by exact Hr. cbv beta iota.
    cbn [sr_evs sr_nid sr_out sr_list]. rewrite wev_nil.
    split; [reflexivity|]. split; [reflexivity|].
    split; [apply abs_empty; reflexivity|].
    split; [apply WF_mk; cbn; lia|reflexivity].
  - destruct Ht as (k & Ht & Hk). exists k. split; [|exact Hk].
    cbn [exec]. erewrite bind_panic by (apply drain_over_range_panic; exact Ht). reflexivity.
Qed.

(* ---- physical positions of consecutive logical slots --------------------------- *)

Lemma phys_add s i d :
  0 < cap s -> 0 <= d -> phys s i + d < cap s -> phys s (i + d) = phys s i + d.
Proof.
  intros Hc Hd H. unfold phys in *.
  replace (start s + (i + d)) with (start s + i + d) by lia.
  rewrite <- Zplus_mod_idemp_l. apply Z.mod_small.
  pose proof (Z.mod_pos_bound (start s + i) (cap s) Hc). lia.
Qed.

Lemma phys_add_mod s i k : 0 < cap s -> (phys s i + k) mod cap s = phys s (i + k).
Proof. intros. unfold phys. rewrite Zplus_mod_idemp_l. f_equal. lia. Qed.

(* one memmove of the back-fill loop: k logical slots from i + g to i, both
   physically contiguous; overlapping is fine *)
Lemma copy_chunk s i g k :
  0 < cap s -> 0 <= start s < cap s -> 0 <= i -> 0 <= g -> 0 <= k -> i + k <= cap s ->
  phys s i + k <= cap s -> phys s (i + g) + k <= cap s ->
  (forall j, i <= j < i + k ->
     s_copy (items s) (phys s (i + g)) (phys s i) k (phys s j) = items s (phys s (j + g))) /\
  (forall j, 0 <= j < cap s -> ~ (i <= j < i + k) ->
     s_copy (items s) (phys s (i + g)) (phys s i) k (phys s j) = items s (phys s j)).
Proof.
  intros Hc Hs Hi Hg Hk Hik Hd Hsrc. split.
  - intros j Hj. unfold s_copy.
    pose proof (phys_add s i (j - i) ltac:(lia) ltac:(lia) ltac:(lia)) as E1.
    pose proof (phys_add s (i + g) (j - i) ltac:(lia) ltac:(lia) ltac:(lia)) as E2.
    replace (i + (j - i)) with j in E1 by lia.
    replace (i + g + (j - i)) with (j + g) in E2 by lia.
    rewrite E1, E2. ifb. f_equal. lia.
  - intros j Hj Hn. unfold s_copy.
    destruct ((phys s i <=? phys s j) && (phys s j <? phys s i + k)) eqn:E; [exfalso|reflexivity].
    pose proof (phys_add s i (phys s j - phys s i) ltac:(lia) ltac:(lia) ltac:(lia)) as E1.
    assert (i + (phys s j - phys s i) = j).
    { apply (phys_inj s); try lia. }
    lia.
Qed.

(* ---- CircularSlicePtr ----------------------------------------------------------------- *)

Lemma csp_available_len_ok c s w :
  0 <= c_off c < c_len c -> csp_available_len c s w = (Ok (c_len c - c_off c), s, w).
Proof. intros. unfold csp_available_len. bsteps. Qed.

Lemma csp_as_ptr_ok c s w :
  c_off c < c_len c -> csp_as_ptr c s w = (Ok (c_off c), s, w).
Proof. intros. unfold csp_as_ptr. bsteps. Qed.

Lemma csp_add_ok c k s w :
  0 <= c_off c < c_len c -> 0 <= k <= c_len c -> c_len c < W ->
  csp_add c k s w = (Ok (mkC (c_len c) ((c_off c + k) mod c_len c)), s, w).
Proof. intros. unfold csp_add. bsteps. Qed.

Ltac blem_user ::=
  first [ apply add_mod_ok; mcbn; lia | apply sub_mod_ok; mcbn; lia
        | apply csp_available_len_ok; cbn [c_len c_off]; lia
        | apply csp_as_ptr_ok; cbn [c_len c_off]; lia
        | apply csp_add_ok; cbn [c_len c_off]; lia ].

Lemma b_items_same s : b_items s (items s) = s.
Proof. destruct s. reflexivity. Qed.

(* ---- the back-fill loop ------------------------------------------------------------------ *)

Lemma fill_loop_ok n a b : forall fuel m s w ho bo rem,
  0 < cap s < W -> 0 <= start s < cap s ->
  0 <= a <= b -> b <= n -> n <= cap s -> 0 <= m <= n - b ->
  ho = phys s (a + m) -> bo = phys s (b + m) -> rem = n - b - m ->
  (Z.to_nat rem <= fuel)%nat ->
  exists f',
    drain_fill_loop fuel (mkC (cap s) ho) (mkC (cap s) bo) rem s w = (Ok tt, b_items s f', w) /\
    (forall j, 0 <= j < a + m -> f' (phys s j) = items s (phys s j)) /\
    (forall j, a + m <= j < a + (n - b) -> f' (phys s j) = items s (phys s (j + (b - a)))).
Proof.
  induction fuel as [|fuel IH]; intros m s w ho bo rem Hc Hs Hab Hbn Hn Hm Hho Hbo Hrem Hfuel.
  - exists (items s). cbn [drain_fill_loop]. ifb. rewrite b_items_same.
    split; [reflexivity|]. split; [reflexivity|]. intros j Hj. lia.
  - destruct (Z_le_gt_dec rem 0) as [Hr0|Hr0].
    + exists (items s). cbn [drain_fill_loop]. ifb. rewrite b_items_same.
      split; [reflexivity|]. split; [reflexivity|]. intros j Hj. lia.
    + pose proof (phys_range s (a + m) ltac:(lia)) as Rh.
      pose proof (phys_range s (b + m) ltac:(lia)) as Rb.
      rewrite <- Hho in Rh. rewrite <- Hbo in Rb.
      cbn [drain_fill_loop]. ifb.
      bsteps. cbn [c_len c_off].
      set (k := Z.min (Z.min (cap s - ho) (cap s - bo)) rem).
      assert (Hk : 1 <= k <= rem /\ ho + k <= cap s /\ bo + k <= cap s) by lia.
      clearbody k.
      erewrite bind_ok by (apply raw_copy_ok; lia).
      bsteps. cbn [c_len c_off].
      set (s1 := b_items s (s_copy (items s) bo ho k)).
      destruct (IH (m + k) s1 w ((ho + k) mod cap s) ((bo + k) mod cap s) (rem - k))
        as (f' & Hrun & HA & HB); try (cbn; lia).
      { subst ho. rewrite phys_add_mod by lia. change (phys s1) with (phys s). f_equal. lia. }
      { subst bo. rewrite phys_add_mod by lia. change (phys s1) with (phys s). f_equal. lia. }
      change (cap s1) with (cap s) in Hrun.
      change (phys s1) with (phys s) in HA, HB.
      change (items s1) with (s_copy (items s) bo ho k) in HA, HB.
      change (b_items s1 f') with (b_items s f') in Hrun.
      clearbody s1.
      destruct (copy_chunk s (a + m) (b - a) k) as (CA & CB); try lia.
      { replace (a + m + (b - a)) with (b + m) by lia. lia. }
      replace (a + m + (b - a)) with (b + m) in CA, CB by lia.
      rewrite <- Hho, <- Hbo in CA, CB.
      exists f'. split; [exact Hrun|]. split.
      * intros j Hj. rewrite HA by lia. apply CB; lia.
      * intros j Hj. destruct (Z_lt_ge_dec j (a + m + k)) as [Hlt|Hge].
        -- rewrite HA by lia. apply CA. lia.
        -- rewrite HB by lia. apply CB; lia.
Qed.

(* ---- the un-yielded elements as two views --------------------------------------------- *)

(* the logical slots lo, lo + 1, ..., lo + k - 1, whatever [size] says *)
Definition lslots (s : cbuf) (lo k : Z) : list elem :=
  map (fun i => items s (phys s i)) (zseq lo (Z.to_nat k)).

Lemma lslots_zlen s lo k : 0 <= k -> zlen (lslots s lo k) = k.
Proof. intros. unfold lslots, zlen. rewrite map_length, zseq_length. lia. Qed.

Lemma zn_lslots s lo k i : 0 <= i < k -> zn (lslots s lo k) i = items s (phys s (lo + i)).
Proof.
  intros H. unfold zn, lslots.
  rewrite nth_map_lt with (d0 := 0) by (rewrite zseq_length; lia).
  rewrite zseq_nth by lia. do 2 f_equal. lia.
Qed.

Definition drain_slices_val (s : cbuf) (n lo hi : Z) : slice * slice :=
  if (cap s =? 0) || (n =? 0) || (hi <=? lo) then (empty_slice, empty_slice)
  else if phys s lo <? phys s hi then (mkS (phys s lo) (phys s hi - phys s lo), empty_slice)
  else (mkS (phys s lo) (cap s - phys s lo), mkS 0 (phys s hi)).

Lemma drain_as_slices_ok s w n a b lo hi :
  geom s -> 0 <= lo -> hi <= n -> n <= cap s ->
  drain_as_slices (mkD n a b lo hi) s w = (Ok (drain_slices_val s n lo hi), s, w).
Proof.
  intros (Hc & H0 & Hst) Hlo Hhi Hn.
  unfold drain_as_slices, drain_slices_val. cbn [d_buf_size d_rs d_re d_is d_ie]. mcbn.
  destruct ((cap s =? 0) || (n =? 0) || (hi <=? lo)) eqn:E0; [reflexivity|].
  specialize (Hst ltac:(lia)).
  pose proof (phys_range s lo ltac:(lia)) as Rl.
  pose proof (phys_range s hi ltac:(lia)) as Rh.
  bstep. bstep. bstep. bstep. cbv beta. fold (phys s lo). fold (phys s hi).
  destruct (phys s lo <? phys s hi) eqn:E1.
  - bsteps.
  - bsteps. unfold ret.
    replace (0 + phys s hi + (phys s lo - phys s hi)) with (phys s lo) by lia.
    replace (cap s - phys s hi - (phys s lo - phys s hi)) with (cap s - phys s lo) by lia.
    reflexivity.
Qed.

Lemma drain_slices_elems s n lo hi :
  geom s -> 0 <= lo -> hi <= n -> n <= cap s ->
  sl_elems (items s) (fst (drain_slices_val s n lo hi)) ++
  sl_elems (items s) (snd (drain_slices_val s n lo hi)) = lslots s lo (hi - lo).
Proof.
  intros (Hc & H0 & Hst) Hlo Hhi Hn. unfold drain_slices_val.
  destruct ((cap s =? 0) || (n =? 0) || (hi <=? lo)) eqn:E0.
  - cbn. unfold lslots. replace (Z.to_nat (hi - lo)) with 0%nat by lia. reflexivity.
  - specialize (Hst ltac:(lia)).
    destruct (phys_spec s lo ltac:(lia) Hst ltac:(lia)) as [[Wl El]|[Wl El]];
      destruct (phys_spec s hi ltac:(lia) Hst ltac:(lia)) as [[Wh Eh]|[Wh Eh]];
      try (exfalso; lia);
      destruct (phys s lo <? phys s hi) eqn:E1; try (exfalso; lia); cbn [fst snd].
    + rewrite (sl_elems_empty _ empty_slice) by (cbn; lia). rewrite app_nil_r.
      apply zn_ext.
      * rewrite sl_elems_zlen, lslots_zlen by (cbn; lia). cbn. lia.
      * intros i Hi. rewrite sl_elems_zlen in Hi by (cbn; lia). cbn in Hi.
        rewrite zn_sl_elems by (cbn; lia). rewrite zn_lslots by lia. cbn [soff].
        rewrite phys_add by lia. reflexivity.
    + apply zn_ext.
      * rewrite zlen_app, !sl_elems_zlen, lslots_zlen by (cbn; lia). cbn. lia.
      * intros i Hi. rewrite zlen_app, !sl_elems_zlen in Hi by (cbn; lia). cbn in Hi.
        rewrite zn_lslots by lia.
        destruct (Z_lt_ge_dec i (cap s - phys s lo)) as [Hlt|Hge].
        -- rewrite zn_app1 by (rewrite sl_elems_zlen; cbn; lia).
           rewrite zn_sl_elems by (cbn; lia). cbn [soff].
           rewrite phys_add by lia. reflexivity.
        -- rewrite zn_app2 by (rewrite sl_elems_zlen; cbn; lia).
           rewrite sl_elems_zlen by (cbn; lia). cbn [slen].
           rewrite zn_sl_elems by (cbn; lia). cbn [soff].
           f_equal. rewrite El. unfold phys. apply Z.mod_unique with (q := 1); lia.
    + rewrite (sl_elems_empty _ empty_slice) by (cbn; lia). rewrite app_nil_r.
      apply zn_ext.
      * rewrite sl_elems_zlen, lslots_zlen by (cbn; lia). cbn. lia.
      * intros i Hi. rewrite sl_elems_zlen in Hi by (cbn; lia). cbn in Hi.
        rewrite zn_sl_elems by (cbn; lia). rewrite zn_lslots by lia. cbn [soff].
        rewrite phys_add by lia. reflexivity.
Qed.

(* ---- Drop for Drain ----------------------------------------------------------------------- *)

Lemma drops_app l1 l2 : drops l1 ++ drops l2 = drops (l1 ++ l2).
Proof. unfold drops. rewrite map_app. reflexivity. Qed.

Lemma drain_drop_ok s w n a b lo hi :
  geom s -> size s = 0 -> fault w = None ->
  0 <= a <= lo -> lo <= hi -> hi <= b -> b <= n -> n <= cap s ->
  exists f',
    drain_drop (mkD n a b lo hi) s w =
      (Ok tt, b_size (b_items s f') (n - (b - a)),
       wev w (drops (lslots s lo (hi - lo))) (next_id w)) /\
    (forall j, 0 <= j < a -> f' (phys s j) = items s (phys s j)) /\
    (forall j, a <= j < a + (n - b) -> f' (phys s j) = items s (phys s (j + (b - a)))).
Proof.
  intros Hg Hz Hf Ha Hlh Hb Hbn Hn.
  unfold drain_drop, drain_as_mut_slices.
  erewrite bind_ok by (apply drain_as_slices_ok; auto; lia).
  pose proof (drain_slices_elems s n lo hi Hg ltac:(lia) ltac:(lia) ltac:(lia)) as Hel.
  destruct (drain_slices_val s n lo hi) as [rgt lft]. cbn [fst snd] in Hel. cbv beta iota.
  erewrite bind_ok by
    (eapply finally_ok; [apply drop_slice_nofault; exact Hf
                        |apply drop_slice_nofault; rewrite wev_fault; exact Hf]).
  rewrite wev_wev, wev_next, drops_app, Hel.
  set (w1 := wev w (drops (lslots s lo (hi - lo))) (next_id w)).
  destruct Hg as (Hc & H0 & Hst). mcbn.
  destruct (Z.eq_dec (cap s) 0) as [Hc0|Hc0].
  - ifb. exists (items s). rewrite b_items_same.
    replace (n - (b - a)) with 0 by lia.
    split; [|split; [reflexivity|intros; lia]].
    unfold ret. do 2 f_equal. destruct s. cbn in *. subst. reflexivity.
  - ifb. specialize (Hst ltac:(lia)).
    cbn [d_buf_size d_rs d_re d_is d_ie].
    unfold csp_new.
    bsteps. cbn [c_len c_off].
    destruct (fill_loop_ok n a b (Z.to_nat (n - b)) 0 s w1
                (((0 + start s) mod cap s + a) mod cap s)
                (((0 + start s) mod cap s + b) mod cap s) (n - b))
      as (f' & Hrun & HA & HB); try lia.
    { unfold phys. rewrite Zplus_mod_idemp_l. f_equal. lia. }
    { unfold phys. rewrite Zplus_mod_idemp_l. f_equal. lia. }
    exists f'. erewrite bind_ok by exact Hrun.
    assert (Hrl : range_len a b = b - a).
    { unfold range_len. destruct (a <? b) eqn:E; lia. }
    rewrite Hrl. bsteps.
    split; [reflexivity|]. split.
    + intros j Hj. apply HA. lia.
    + intros j Hj. apply HB. lia.
Qed.

(* ---- assembling ------------------------------------------------------------------------------ *)

Lemma lslots_sublist s lo hi :
  0 <= size s -> (lo <= hi)%nat -> Z.of_nat hi <= size s ->
  lslots s (Z.of_nat lo) (Z.of_nat hi - Z.of_nat lo) = sublist lo hi (abs s).
Proof.
  intros Hz Hlh Hhi. unfold sublist. apply zn_ext.
  - rewrite lslots_zlen, zlen_firstn, zlen_skipn, abs_zlen by lia. lia.
  - intros i Hi. rewrite lslots_zlen in Hi by lia.
    rewrite zn_lslots by lia. rewrite zn_firstn by lia. rewrite zn_skipn by lia.
    rewrite zn_abs by lia. do 2 f_equal. lia.
Qed.

Lemma abs_after_drain s f' a b :
  0 <= size s -> 0 <= a <= b -> b <= size s ->
  (forall j, 0 <= j < a -> f' (phys s j) = items s (phys s j)) ->
  (forall j, a <= j < a + (size s - b) -> f' (phys s j) = items s (phys s (j + (b - a)))) ->
  abs (b_size (b_items s f') (size s - (b - a)))
  = firstn (Z.to_nat a) (abs s) ++ skipn (Z.to_nat b) (abs s).
Proof.
  intros Hz Hab Hb HA HB. apply zn_ext.
  - rewrite zlen_app, zlen_firstn, zlen_skipn, !abs_zlen by slia. slia.
  - intros i Hi. rewrite abs_zlen in Hi by slia. cbn [size b_size] in Hi.
    rewrite zn_abs by slia. rewrite phys_b_size, phys_b_items. cbn [items b_size b_items].
    destruct (Z_lt_ge_dec i a) as [Hlt|Hge].
    + rewrite zn_app1 by (rewrite zlen_firstn, abs_zlen; lia).
      rewrite zn_firstn by lia. rewrite zn_abs by lia. apply HA. lia.
    + rewrite zn_app2 by (rewrite zlen_firstn, abs_zlen; lia).
      rewrite zlen_firstn, abs_zlen by lia.
      rewrite zn_skipn by lia. rewrite zn_abs by lia.
      rewrite HB by lia. do 2 f_equal. lia.
Qed.

Theorem drain_drop_op sb eb script : refines_op (ODrain sb eb script false).
Proof.
  intros s w HW Hf (Hsb & Heb). pose proof HW as HW'. wf HW'.
  unfold refines_at. cbn [spec_step]. rewrite abs_zlen by lia.
  pose proof (translate_bounds_ok s w sb eb Hsb Heb ltac:(lia)) as Ht.
  destruct (spec_bounds (size s) sb eb) as [[a b]|].
  - destruct Ht as (Ht & Hab & Hbn).
    destruct (drain_script_ok (abs s) (b_size s 0) w (size s) a b (geom_b_size0 s HW)
                ltac:(lia) ltac:(lia) ltac:(cbn; lia) (abs_zlen s ltac:(lia))
                ltac:(intros i Hi; exact (zn_abs s i Hi)) script (Z.to_nat a) (Z.to_nat b)
                ltac:(lia) ltac:(lia) ltac:(lia))
      as (rs & lo' & hi' & Hr & Hs & H1 & H2 & H3).
    rewrite !Z2Nat.id in Hr by lia.
    unfold nat_of. rewrite Hs.
    destruct (drain_drop_ok (b_size s 0) w (size s) a b (Z.of_nat lo') (Z.of_nat hi')
                (geom_b_size0 s HW) eq_refl Hf)
      as (f' & Hd & HA & HB); try (cbn; lia).
    change (lslots (b_size s 0)) with (lslots s) in Hd.
    rewrite lslots_sublist in Hd by lia.
    exists (OutScript rs), (b_size (b_items (b_size s 0) f') (size s - (b - a))). cbn [exec].
    erewrite bind_ok by (apply drain_over_range_ok; exact Ht).
    erewrite bind_ok by exact Hr. cbv beta iota.
    erewrite bind_ok by exact Hd.
    cbn [sr_evs sr_nid sr_out sr_list].
    split; [reflexivity|]. split; [reflexivity|].
    split; [|split; [apply WF_mk; cbn; lia|reflexivity]].
    rewrite <- (abs_after_drain s f' a b) by (auto; lia). reflexivity.
  - destruct Ht as (k & Ht & Hk). exists k. split; [|exact Hk].
    cbn [exec]. erewrite bind_panic by (apply drain_over_range_panic; exact Ht). reflexivity.
Qed.

Theorem drain_op sb eb script forget : refines_op (ODrain sb eb script forget).
Proof.
  destruct forget; [apply drain_forget_op|apply drain_drop_op].
Qed.
