(* ExtendIo.v — byte I/O on the buffer: Write (= extend_from_slice), flush,
   Read (copy out of the two views, then truncate_front), BufRead::fill_buf
   (the first non-empty view) and consume (a drain of ..amt dropped at once),
   for the three trait families std::io, embedded-io, embedded-io-async.
   The operation-level theorem for extend_from_slice is in ExtendSlice.v. *)

From CB Require Import Spec.
From CBP Require Import MonadLemmas Arith AbsLemmas ListLemmas AbsOps Core Step Slices
     Truncate RefDefs RefTruncate DrainP FillExtend.
From CBP Require Export ExtendSlice.
From Coq Require Import ZifyBool.
Ltac Zify.zify_post_hook ::= Z.div_mod_to_equations.

Ltac blem_user ::=
  first [ apply add_mod_ok; mcbn; lia | apply sub_mod_ok; mcbn; lia ].

(* ---- the three families are the same functions --------------------------------- *)

Lemma eio_write_eq : eio_write = io_write.
Proof. reflexivity. Qed.
Lemma eio_flush_eq : eio_flush = io_flush.
Proof. reflexivity. Qed.
Lemma eio_read_eq : eio_read = io_read.
Proof. reflexivity. Qed.
Lemma eio_fill_buf_eq : eio_fill_buf = io_fill_buf.
Proof. reflexivity. Qed.
Lemma eio_consume_eq : eio_consume = io_consume.
Proof. reflexivity. Qed.

Lemma aio_write_eq : aio_write = io_write.
Proof. reflexivity. Qed.
Lemma aio_flush_eq : aio_flush = io_flush.
Proof. reflexivity. Qed.
Lemma aio_read_eq : aio_read = io_read.
Proof. reflexivity. Qed.
Lemma aio_fill_buf_eq : aio_fill_buf = io_fill_buf.
Proof. reflexivity. Qed.
Lemma aio_consume_eq : aio_consume = io_consume.
Proof. reflexivity. Qed.

Lemma fam_write_eq fam : fam_write fam = io_write.
Proof. destruct fam; [reflexivity|apply eio_write_eq|apply aio_write_eq]. Qed.
Lemma fam_flush_eq fam : fam_flush fam = io_flush.
Proof. destruct fam; [reflexivity|apply eio_flush_eq|apply aio_flush_eq]. Qed.
Lemma fam_read_eq fam : fam_read fam = io_read.
Proof. destruct fam; [reflexivity|apply eio_read_eq|apply aio_read_eq]. Qed.
Lemma fam_fill_buf_eq fam : fam_fill_buf fam = io_fill_buf.
Proof. destruct fam; [reflexivity|apply eio_fill_buf_eq|apply aio_fill_buf_eq]. Qed.
Lemma fam_consume_eq fam : fam_consume fam = io_consume.
Proof. destruct fam; [reflexivity|apply eio_consume_eq|apply aio_consume_eq]. Qed.

(* ---- write / flush ------------------------------------------------------------------ *)

Theorem write_op fam src : refines_op (OWrite fam src).
Proof.
  intros s w HW Hf _. pose proof HW as HW'. wf HW'.
  eapply refines_ev with (m := extend_from_slice src) (f := fun _ => OutZ (zlen src)) (v := tt);
    [ | |exact (extend_from_slice_ok src s w HW Hf)|reflexivity].
  - cbn [exec]. rewrite fam_write_eq. unfold io_write. rewrite bind_assoc. reflexivity.
  - cbn [spec_step]. unfold spec_extend_from_slice. rewrite abs_zlen by lia.
    destruct (cap s =? 0); reflexivity.
Qed.

Theorem flush_op fam : refines_op (OFlush fam).
Proof.
  intros s w HW Hf _.
  eapply refines_pure with (m := io_flush) (f := fun _ => OutUnit) (v := tt).
  - cbn [exec]. rewrite fam_flush_eq. reflexivity.
  - reflexivity.
  - exists s. unfold io_flush, ret. auto.
  - reflexivity.
Qed.

(* ---- fill_buf ------------------------------------------------------------------------- *)

Theorem fill_buf_op fam : refines_op (OFillBuf fam).
Proof.
  intros s w HW Hf _. pose proof HW as HW'. wf HW'.
  unfold refines_at. cbn [spec_step exec]. rewrite fam_fill_buf_eq. unfold io_fill_buf.
  pose proof (as_slices_val_ok s HW) as Hok. pose proof (as_slices_val_abs s HW) as Habs.
  rewrite bind_assoc. erewrite bind_ok by (apply as_slices_ok; exact HW).
  destruct (as_slices_val s) as [a b]. cbn [fst snd] in Habs.
  destruct Hok as ((_ & Ha & _) & (_ & Hb & _) & Hsum & Hz).
  cbv beta iota. mcbn. cbn [sr_evs sr_nid sr_out sr_list]. rewrite wev_nil.
  destruct (slen a =? 0) eqn:E; cbn [negb]; mcbn.
  - exists (OutList (sl_elems (items s) b)), s.
    rewrite (sl_elems_empty _ a) in Habs by lia. cbn [app] in Habs.
    split; [reflexivity|]. split; [|auto].
    cbn [out_ok]. rewrite Habs. split; [exists []; symmetry; apply app_nil_r|auto].
  - exists (OutList (sl_elems (items s) a)), s.
    split; [reflexivity|]. split; [|auto].
    cbn [out_ok]. split; [exists (sl_elems (items s) b); symmetry; exact Habs|].
    intros _ Hp. apply (f_equal (@zlen elem)) in Hp.
    rewrite sl_elems_zlen in Hp by lia. change (zlen (@nil elem)) with 0 in Hp. lia.
Qed.

(* ---- consume ---------------------------------------------------------------------------- *)

Theorem consume_op fam k : refines_op (OConsume fam k).
Proof.
  intros s w HW Hf Hk. cbn in Hk. unfold in_usize in Hk. pose proof HW as HW'. wf HW'.
  unfold refines_at. cbn [spec_step exec]. rewrite fam_consume_eq. rewrite abs_zlen by lia.
  unfold nat_of. set (m := Z.min k (size s)).
  pose proof (translate_bounds_ok s w BUnb (BExcl m) I ltac:(cbn; unfold in_usize; lia)
                ltac:(lia)) as Ht.
  assert (Hsb : spec_bounds (size s) BUnb (BExcl m) = Some (0, m)).
  { unfold spec_bounds. replace ((m <=? size s) && (0 <=? m)) with true by lia. reflexivity. }
  rewrite Hsb in Ht. destruct Ht as (Ht & _).
  destruct (drain_drop_ok (b_size s 0) w (size s) 0 m 0 m (geom_b_size0 s HW) eq_refl Hf)
    as (f' & Hd & HA & HB); try (cbn; lia).
  change (lslots (b_size s 0)) with (lslots s) in Hd.
  assert (El : lslots s 0 (m - 0) = firstn (Z.to_nat m) (abs s)).
  { rewrite <- sublist_from_0. rewrite <- lslots_sublist by lia. f_equal; lia. }
  rewrite El in Hd.
  exists OutUnit, (b_size (b_items (b_size s 0) f') (size s - (m - 0))).
  unfold io_consume, len. rewrite bind_assoc. mcbn. fold m. rewrite bind_assoc.
  erewrite bind_ok by (apply drain_over_range_ok; exact Ht).
  erewrite bind_ok by exact Hd.
  cbn [sr_evs sr_nid sr_out sr_list]. unfold ret.
  split; [reflexivity|]. split; [reflexivity|].
  split; [|split; [apply WF_mk; cbn; lia|reflexivity]].
  transitivity (firstn (Z.to_nat 0) (abs s) ++ skipn (Z.to_nat m) (abs s)); [|reflexivity].
  apply (abs_after_drain s f' 0 m); auto; lia.
Qed.

(* ---- read --------------------------------------------------------------------------------- *)

Lemma skipn_skipn_add {A} y : forall x (l : list A), skipn x (skipn y l) = skipn (y + x) l.
Proof.
  induction y as [|y IH]; intros x l; [reflexivity|].
  destruct l as [|h l]; [rewrite !skipn_nil; reflexivity|]. cbn [skipn Nat.add]. apply IH.
Qed.

(* two successive <&[u8] as Read>::read calls, from the two views *)
Lemma slice_read_two (A B D : list elem) :
  let '(_, dst1, c1) := slice_read A D in
  let '(_, tail2, c2) := slice_read B (skipn (Z.to_nat c1) dst1) in
  let k := Nat.min (length D) (length (A ++ B)) in
  c1 <= zlen dst1 /\ 0 <= c1 /\ 0 <= c2 /\ c1 + c2 = Z.of_nat k /\
  firstn (Z.to_nat c1) dst1 ++ tail2 = firstn k (A ++ B) ++ skipn k D.
Proof.
  unfold slice_read. cbv beta iota zeta. rewrite !Nat2Z.id.
  remember (Nat.min (length A) (length D)) as a1 eqn:Ea1.
  assert (L1 : length (firstn a1 A) = a1) by (rewrite firstn_length; lia).
  assert (S1 : skipn a1 (firstn a1 A ++ skipn a1 D) = skipn a1 D).
  { rewrite skipn_app, L1, Nat.sub_diag. rewrite skipn_all2 by lia. reflexivity. }
  assert (F1 : firstn a1 (firstn a1 A ++ skipn a1 D) = firstn a1 A).
  { rewrite firstn_app, L1, Nat.sub_diag. rewrite firstn_all2 by lia.
    cbn [firstn]. apply app_nil_r. }
  rewrite S1, F1.
  remember (Nat.min (length B) (length (skipn a1 D))) as a2 eqn:Ea2.
  rewrite skipn_length in Ea2.
  remember (Nat.min (length D) (length (A ++ B))) as k eqn:Ek.
  rewrite app_length in Ek.
  split; [unfold zlen; rewrite app_length, L1, skipn_length; lia|].
  split; [lia|]. split; [lia|]. split; [lia|].
  rewrite skipn_skipn_add, firstn_app, <- app_assoc.
  replace (a1 + a2)%nat with k by lia.
  destruct (le_lt_dec (length D) (length A)) as [Hle|Hgt].
  - replace k with a1 by lia. replace a2 with 0%nat by lia.
    replace (a1 - length A)%nat with 0%nat by lia. reflexivity.
  - rewrite (firstn_all2 (n := a1)) by lia. rewrite (firstn_all2 (n := k)) by lia.
    replace (k - length A)%nat with a2 by lia. reflexivity.
Qed.

Theorem io_read_ok dst s w :
  WF s -> fault w = None -> zlen dst < W ->
  let k := Nat.min (length dst) (length (abs s)) in
  ev_step (io_read dst) s w (Z.of_nat k, firstn k (abs s) ++ skipn k dst)
          (skipn k (abs s)) (drops (firstn k (abs s))) (next_id w).
Proof.
  intros HW Hf Hd k. pose proof HW as HW'. wf HW'.
  unfold ev_step, io_read.
  pose proof (as_slices_val_abs s HW) as Habs.
  erewrite bind_ok by (apply as_slices_ok; exact HW).
  destruct (as_slices_val s) as [a b]. cbn [fst snd] in Habs. cbv beta iota. mcbn.
  pose proof (slice_read_two (sl_elems (items s) a) (sl_elems (items s) b) dst) as H2.
  destruct (slice_read (sl_elems (items s) a) dst) as [[r1 dst1] c1].
  cbv beta iota in H2. mcbn.
  destruct (slice_read (sl_elems (items s) b) (skipn (Z.to_nat c1) dst1)) as [[r2 tail2] c2].
  cbv beta iota zeta in H2. rewrite Habs in H2. fold k in H2.
  destruct H2 as (Hc1 & H0c1 & H0c2 & Hsum & Hres).
  assert (Hk : Z.of_nat k <= size s /\ Z.of_nat k <= zlen dst).
  { subst k. rewrite abs_length. unfold zlen. lia. }
  replace (c1 <=? zlen dst1) with true by lia. mcbn.
  bstep. unfold len. mcbn. bstep.
  pose proof (truncate_front_ok s w (size s - (c1 + c2)) HW Hf ltac:(lia)) as Ht.
  cbv zeta in Ht.
  replace (Z.min (size s - (c1 + c2)) (size s)) with (size s - (c1 + c2)) in Ht by lia.
  assert (Ek : (length (abs s) - Z.to_nat (size s - (c1 + c2)))%nat = k).
  { rewrite abs_length. lia. }
  unfold lastn in Ht. rewrite Ek in Ht.
  destruct Ht as (s1 & Ht & Ha1 & HW1 & Hcap1).
  exists s1. erewrite bind_ok by exact Ht. unfold ret.
  rewrite Hres, Hsum. auto.
Qed.

Theorem read_op fam dst : refines_op (ORead fam dst).
Proof.
  intros s w HW Hf Hd. cbn in Hd.
  destruct (io_read_ok dst s w HW Hf Hd) as (s' & Hm & Ha & HW2 & Hc).
  unfold refines_at. cbn [spec_step exec]. rewrite fam_read_eq.
  eexists _, s'. erewrite bind_ok by exact Hm. cbv beta iota.
  cbn [sr_evs sr_nid sr_out sr_list]. unfold ret.
  split; [reflexivity|]. split; [reflexivity|]. auto.
Qed.
