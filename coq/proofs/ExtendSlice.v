(* ExtendSlice.v — extend_from_slice: the cloning loop of
   write_uninit_slice_cloned, the free space as two views
   (slices_uninit_mut), and the three cases of extend_from_slice (source at
   least as long as the capacity; source fits into the free space; source
   evicts from the front). Function-level result, then the operation-level
   theorem in the form of RefDefs.v. *)

From CB Require Import Spec.
From CBP Require Import MonadLemmas Arith AbsLemmas ListLemmas AbsOps Core Step Slices
     Truncate RefDefs RefTruncate DrainP FillExtend.
From Coq Require Import ZifyBool.
Ltac Zify.zify_post_hook ::= Z.div_mod_to_equations.

Ltac blem_user ::=
  first [ apply add_mod_ok; mcbn; lia | apply sub_mod_ok; mcbn; lia ].

(* ---- clones / clone_evs ------------------------------------------------------ *)

Lemma zlen_clones l : forall nid, zlen (clones nid l) = zlen l.
Proof.
  induction l as [|x l IH]; intros nid; [reflexivity|].
  cbn [clones]. rewrite !zlen_cons, IH. reflexivity.
Qed.

Lemma zn_clones l : forall nid j,
  0 <= j < zlen l -> zn (clones nid l) j = mkE (nid + j) (eval (zn l j)).
Proof.
  induction l as [|x l IH]; intros nid j H.
  - unfold zlen in H. cbn [length Z.of_nat] in H. lia.
  - rewrite zlen_cons in H. cbn [clones]. destruct (Z.eq_dec j 0) as [->|Hne].
    + rewrite !zn_cons0, Z.add_0_r. reflexivity.
    + rewrite !zn_consS by lia. rewrite IH by lia. f_equal. lia.
Qed.

Lemma clones_app a : forall nid b,
  clones nid (a ++ b) = clones nid a ++ clones (nid + zlen a) b.
Proof.
  induction a as [|x a IH]; intros nid b.
  - change (zlen (@nil elem)) with 0. rewrite Z.add_0_r. reflexivity.
  - cbn [app clones]. rewrite IH, zlen_cons. f_equal. f_equal. f_equal. lia.
Qed.

Lemma clone_evs_app a : forall nid b,
  clone_evs nid (a ++ b) = clone_evs nid a ++ clone_evs (nid + zlen a) b.
Proof.
  induction a as [|x a IH]; intros nid b.
  - change (zlen (@nil elem)) with 0. rewrite Z.add_0_r. reflexivity.
  - cbn [app clone_evs]. rewrite IH, zlen_cons. f_equal. f_equal. f_equal. lia.
Qed.

Lemma skipn_zn_cons l i :
  0 <= i < zlen l -> skipn (Z.to_nat i) l = zn l i :: skipn (Z.to_nat (i + 1)) l.
Proof.
  intros H. apply zn_ext.
  - rewrite zlen_cons, !zlen_skipn. lia.
  - intros j Hj. rewrite zlen_skipn in Hj.
    destruct (Z.eq_dec j 0) as [->|Hne].
    + rewrite zn_cons0, zn_skipn by lia. f_equal. lia.
    + rewrite zn_consS by lia. rewrite !zn_skipn by lia. f_equal. lia.
Qed.

(* ---- the cloning loop ----------------------------------------------------------- *)

(* it writes the clones of src[i..] into the slots soff dst + i, ..., and
   touches nothing else *)
Lemma wusc_loop_ok dst src : forall n i s w,
  fault w = None -> 0 <= i -> i + Z.of_nat n = slen dst -> zlen src = slen dst ->
  exists f',
    wusc_loop dst src n i s w =
      (Ok tt, b_items s f',
       wev w (clone_evs (next_id w) (skipn (Z.to_nat i) src)) (next_id w + Z.of_nat n)) /\
    (forall p, p < soff dst + i \/ soff dst + slen dst <= p -> f' p = items s p) /\
    (forall j, i <= j < slen dst ->
               f' (soff dst + j) = mkE (next_id w + (j - i)) (eval (zn src j))).
Proof.
  induction n as [|n IH]; intros i s w Hf Hi Hn Hl.
  - exists (items s). cbn [wusc_loop].
    rewrite skipn_all2 by (unfold zlen in *; lia). cbn [clone_evs Z.of_nat].
    rewrite Z.add_0_r, wev_nil, b_items_same.
    split; [reflexivity|]. split; [reflexivity|intros; lia].
  - set (e := zn src i). set (c := mkE (next_id w) (eval e)).
    set (s1 := b_items s (s_write (items s) (soff dst + i) c)).
    set (w1 := wev w [EvClone e c] (next_id w + 1)).
    destruct (IH (i + 1) s1 w1 Hf ltac:(lia) ltac:(lia) Hl) as (f' & Hrun & Hout & Hin).
    exists f'. cbn [wusc_loop].
    erewrite bind_ok.
    2:{ apply on_unwind_ok. erewrite bind_ok by (apply sl_index_ok; lia).
        rewrite zn_nth_error by lia. mcbn.
        erewrite bind_ok by (apply clone_elem_nofault; exact Hf). reflexivity. }
    fold e. fold c. fold s1. fold w1.
    rewrite Hrun. subst w1. rewrite wev_wev, wev_next.
    rewrite (skipn_zn_cons src i) by lia. cbn [clone_evs]. fold e c.
    split; [|split].
    + f_equal. f_equal. lia.
    + intros p Hp. rewrite Hout by lia. subst s1. cbn [items b_items]. unfold s_write.
      replace (p =? soff dst + i) with false by lia. reflexivity.
    + intros j Hj. destruct (Z.eq_dec j i) as [->|Hne].
      * rewrite Hout by lia. subst s1. cbn [items b_items]. unfold s_write.
        rewrite Z.eqb_refl. subst c e. f_equal. lia.
      * rewrite Hin by lia. rewrite wev_next. f_equal. lia.
Qed.

Lemma wusc_ok dst src s w :
  fault w = None -> 0 <= slen dst -> zlen src = slen dst ->
  exists f',
    write_uninit_slice_cloned dst src s w =
      (Ok tt, b_items s f', wev w (clone_evs (next_id w) src) (next_id w + zlen src)) /\
    (forall p, p < soff dst \/ soff dst + slen dst <= p -> f' p = items s p) /\
    (forall j, 0 <= j < slen dst -> f' (soff dst + j) = mkE (next_id w + j) (eval (zn src j))).
Proof.
  intros Hf Hn Hl.
  destruct (wusc_loop_ok dst src (Z.to_nat (slen dst)) 0 s w Hf ltac:(lia) ltac:(lia) Hl)
    as (f' & Hrun & Hout & Hin).
  exists f'. unfold write_uninit_slice_cloned.
  erewrite bind_ok by (apply dassert_ok; lia).
  rewrite Hrun. change (Z.to_nat 0) with 0%nat. cbn [skipn].
  rewrite Z2Nat.id by lia. rewrite Hl.
  split; [reflexivity|]. split.
  - intros p Hp. apply Hout. lia.
  - intros j Hj. rewrite Hin by lia. f_equal. lia.
Qed.

(* ---- the free space as two views -------------------------------------------------- *)

(* length of the first view: from the logical end up to the front or the array end *)
Definition Lnum (c st z : Z) : Z :=
  let en := (st + z) mod c in if en <? st then st - en else c - en.

Definition free_snd (s : cbuf) : slice :=
  if phys s (size s) <? start s then empty_slice else mkS 0 (start s).

Lemma slices_uninit_mut_ok s w :
  WF s -> 0 < cap s ->
  slices_uninit_mut s w =
    (Ok (mkS (phys s (size s)) (Lnum (cap s) (start s) (size s)), free_snd s), s, w).
Proof.
  intros HW Hc. wf HW. specialize (Hst Hc). unfold slices_uninit_mut, Lnum, free_snd. mcbn.
  replace (cap s =? 0) with false by lia.
  bstep. bstep. bstep. cbv beta zeta. fold (phys s (size s)).
  pose proof (phys_range s (size s) Hc) as R.
  destruct (phys s (size s) <? start s) eqn:E.
  - bsteps.
  - bsteps. unfold ret. rewrite ?Z.add_0_l, ?Z.sub_0_r. reflexivity.
Qed.

Ltac split_if :=
  match goal with |- context [if ?b then _ else _] => destruct b eqn:? end.

Lemma Lnum_facts c st z n :
  0 < c -> 0 <= st < c -> 0 <= z -> 0 <= n -> z + n <= c ->
  let wl := Z.min (Lnum c st z) n in
  0 <= wl <= n /\ (st + z) mod c + wl <= c /\
  n - wl <= Lnum c st (z + wl) /\ (st + (z + wl)) mod c + (n - wl) <= c.
Proof.
  intros Hc Hst Hz Hn Hfit. unfold Lnum. cbv zeta.
  destruct (mod_small_or_wrap (st + z) c Hc ltac:(lia)) as [[H1 E1]|[H1 E1]]; rewrite E1.
  - destruct (st + z <? st) eqn:T1; [lia|].
    destruct (mod_small_or_wrap (st + (z + Z.min (c - (st + z)) n)) c Hc ltac:(lia))
      as [[H2 E2]|[H2 E2]]; rewrite E2;
      split_if; lia.
  - destruct (st + z - c <? st) eqn:T1.
    + destruct (mod_small_or_wrap (st + (z + Z.min (st - (st + z - c)) n)) c Hc ltac:(lia))
        as [[H2 E2]|[H2 E2]]; rewrite E2;
        split_if; lia.
    + destruct (mod_small_or_wrap (st + (z + Z.min (c - (st + z - c)) n)) c Hc ltac:(lia))
        as [[H2 E2]|[H2 E2]]; rewrite E2;
        split_if; lia.
Qed.

(* ---- appending clones behind the back ---------------------------------------------- *)

Lemma abs_append s f' src nid :
  0 < cap s -> 0 <= start s < cap s -> 0 <= size s ->
  size s + zlen src <= cap s -> phys s (size s) + zlen src <= cap s ->
  (forall p, p < phys s (size s) \/ phys s (size s) + zlen src <= p -> f' p = items s p) ->
  (forall j, 0 <= j < zlen src ->
             f' (phys s (size s) + j) = mkE (nid + j) (eval (zn src j))) ->
  abs (mkB (cap s) (size s + zlen src) (start s) f') = abs s ++ clones nid src.
Proof.
  intros Hc Hs Hz Hfit Hnw Hout Hin.
  pose proof (zlen_nonneg src) as Hn.
  apply zn_ext.
  - rewrite zlen_app, zlen_clones, !abs_zlen by slia. slia.
  - intros i Hi. rewrite abs_zlen in Hi by slia. cbn [size] in Hi.
    rewrite zn_abs by (cbn [size]; lia). rewrite phys_mkB. cbn [items]. fold (phys s i).
    destruct (Z_lt_ge_dec i (size s)) as [Hlt|Hge].
    + rewrite zn_app1 by (rewrite abs_zlen; lia). rewrite zn_abs by lia.
      apply Hout.
      destruct (phys_spec s i Hc Hs ltac:(lia)) as [[? Ei]|[? Ei]];
        destruct (phys_spec s (size s) Hc Hs ltac:(lia)) as [[? Ez]|[? Ez]]; lia.
    + rewrite zn_app2 by (rewrite abs_zlen; lia). rewrite abs_zlen by lia.
      rewrite zn_clones by lia.
      assert (E : phys s i = phys s (size s) + (i - size s)).
      { replace i with (size s + (i - size s)) at 1 by lia. apply phys_add; lia. }
      rewrite E. apply Hin. lia.
Qed.

Definition append_m (dst : slice) (src : list elem) (n : Z) : M unit :=
  write_uninit_slice_cloned dst src;; sz <- get_size;; v <- uadd sz n;; set_size v.

Lemma append_bind {B} dst src n (k : M B) s w :
  (write_uninit_slice_cloned dst src;; sz <- get_size;; v <- uadd sz n;; set_size v;; k) s w
  = (append_m dst src n;; k) s w.
Proof.
  unfold append_m, bind, get_size.
  destruct (write_uninit_slice_cloned dst src s w) as [[[[]|p] s1] w1]; [|reflexivity].
  destruct (uadd (size s1) n s1 w1) as [[[v|p] s2] w2]; reflexivity.
Qed.

Lemma append_ok p n src s w :
  WF s -> fault w = None -> 0 < cap s -> zlen src = n -> p = phys s (size s) ->
  p + n <= cap s -> size s + n <= cap s ->
  exists s',
    append_m (mkS p n) src n s w =
      (Ok tt, s', wev w (clone_evs (next_id w) src) (next_id w + n)) /\
    abs s' = abs s ++ clones (next_id w) src /\
    WF s' /\ cap s' = cap s /\ start s' = start s /\ size s' = size s + n.
Proof.
  intros HW Hf Hc Hl Hp Hnw Hfit. pose proof HW as HW'. wf HW'. specialize (Hst Hc).
  pose proof (zlen_nonneg src) as Hn. subst n p.
  destruct (wusc_ok (mkS (phys s (size s)) (zlen src)) src s w Hf ltac:(cbn; lia) eq_refl)
    as (f' & Hw & Hout & Hin).
  cbn [soff slen] in Hout, Hin.
  exists (mkB (cap s) (size s + zlen src) (start s) f').
  unfold append_m. erewrite bind_ok by exact Hw. mcbn. bstep. mcbn.
  split; [reflexivity|]. split; [apply abs_append; auto; lia|].
  split; [apply WF_mk; lia|]. cbn. auto.
Qed.

(* ---- the common tail of extend_from_slice: fill the free space ------------------- *)

Definition ext_tail (other : list elem) (final_size : Z) : M unit :=
  let olen := zlen other in
  '(rgt, _) <- slices_uninit_mut;;
  let write_len := Z.min (slen rgt) olen in
  d <- sl_range rgt 0 write_len;;
  write_uninit_slice_cloned d (firstn (Z.to_nat write_len) other);;
  sz <- get_size;;
  v <- uadd sz write_len;;
  set_size v;;
  let other2 := skipn (Z.to_nat write_len) other in
  '(lft, _) <- slices_uninit_mut;;
  dassert (zlen other2 <=? slen lft);;
  let write_len2 := zlen other2 in
  d2 <- sl_range lft 0 write_len2;;
  write_uninit_slice_cloned d2 other2;;
  sz <- get_size;;
  v <- uadd sz write_len2;;
  set_size v;;
  sz <- get_size;;
  dassert (sz =? final_size).

Lemma extend_from_slice_unfold other s w :
  extend_from_slice other s w =
  (let olen := zlen other in
   if cap s =? 0 then ret tt else
   dassert (start s <? cap s);;
   dassert (size s <=? cap s);;
   if olen <? cap s then
     free_size <- usub (cap s) (size s);;
     final_size <-
       (if olen <? free_size then uadd (size s) olen
        else k <- usub (cap s) olen;; truncate_front k;; ret (cap s));;
     ext_tail other final_size
   else
     clear;;
     set_start 0;;
     k <- usub olen (cap s);;
     let other2 := skipn (Z.to_nat k) other in
     dassert (cap s =? zlen other2);;
     it <- items_slice;;
     write_uninit_slice_cloned it other2;;
     set_size (cap s)) s w.
Proof. reflexivity. Qed.

Lemma ext_tail_ok other s w :
  WF s -> fault w = None -> 0 < cap s -> size s + zlen other <= cap s ->
  ev_step (ext_tail other (size s + zlen other)) s w tt
          (abs s ++ clones (next_id w) other) (clone_evs (next_id w) other)
          (next_id w + zlen other).
Proof.
  intros HW Hf Hc Hfit. pose proof HW as HW'. wf HW'. specialize (Hst Hc).
  pose proof (zlen_nonneg other) as Hol.
  pose proof (Lnum_facts (cap s) (start s) (size s) (zlen other) Hc Hst ltac:(lia) Hol Hfit)
    as HL.
  cbv zeta in HL. fold (phys s (size s)) in HL.
  unfold ev_step, ext_tail. cbv zeta.
  erewrite bind_ok by (apply slices_uninit_mut_ok; assumption). cbv beta iota. mcbn.
  set (wl := Z.min (Lnum (cap s) (start s) (size s)) (zlen other)) in *.
  destruct HL as (Hwl & Hfit1 & HL2 & Hfit2).
  bstep. rewrite Z.add_0_r, Z.sub_0_r.
  set (src1 := firstn (Z.to_nat wl) other). set (src2 := skipn (Z.to_nat wl) other).
  assert (Hl1 : zlen src1 = wl) by (subst src1; rewrite zlen_firstn; lia).
  assert (Hl2 : zlen src2 = zlen other - wl) by (subst src2; rewrite zlen_skipn; lia).
  assert (Hsplit : other = src1 ++ src2) by (symmetry; apply firstn_skipn).
  rewrite append_bind.
  destruct (append_ok (phys s (size s)) wl src1 s w HW Hf Hc Hl1 eq_refl Hfit1 ltac:(lia))
    as (s2 & Hap1 & Ha2 & HW2 & Hc2 & Hst2 & Hz2).
  erewrite bind_ok by exact Hap1.
  set (w2 := wev w (clone_evs (next_id w) src1) (next_id w + wl)).
  assert (Hf2 : fault w2 = None) by exact Hf.
  erewrite bind_ok by (apply slices_uninit_mut_ok; [exact HW2|lia]). cbv beta iota. mcbn.
  rewrite Hc2, Hst2, Hz2.
  assert (Ep2 : phys s2 (size s + wl) = (start s + (size s + wl)) mod cap s).
  { unfold phys. rewrite Hc2, Hst2. reflexivity. }
  bstep. bstep. rewrite Z.add_0_r, Z.sub_0_r.
  rewrite append_bind.
  destruct (append_ok (phys s2 (size s + wl)) (zlen src2) src2 s2 w2 HW2 Hf2 ltac:(lia)
              eq_refl ltac:(rewrite Hz2; reflexivity) ltac:(lia) ltac:(lia))
    as (s3 & Hap2 & Ha3 & HW3 & Hc3 & Hst3 & Hz3).
  erewrite bind_ok by exact Hap2. mcbn.
  exists s3. rewrite dassert_ok by lia.
  subst w2. rewrite wev_wev, wev_next.
  split; [|split; [|split; [exact HW3|congruence]]].
  - replace (clone_evs (next_id w) other)
      with (clone_evs (next_id w) src1 ++ clone_evs (next_id w + wl) src2)
      by (rewrite Hsplit, clone_evs_app, Hl1; reflexivity).
    f_equal. f_equal. lia.
  - rewrite Ha3, Ha2, wev_next, <- app_assoc.
    replace (clones (next_id w) other)
      with (clones (next_id w) src1 ++ clones (next_id w + wl) src2)
      by (rewrite Hsplit, clones_app, Hl1; reflexivity).
    reflexivity.
Qed.

(* ---- extend_from_slice ---------------------------------------------------------------- *)

Lemma lastn_all {A} (l : list A) k : (length l <= k)%nat -> lastn k l = l.
Proof. intros H. unfold lastn. replace (length l - k)%nat with 0%nat by lia. reflexivity. Qed.

Theorem extend_from_slice_ok other s w :
  WF s -> fault w = None ->
  let N := cap s in
  let src := lastn (nat_of (Z.min N (zlen other))) other in
  let d := nat_of (size s + zlen src - N) in
  ev_step (extend_from_slice other) s w tt
          (if N =? 0 then abs s else skipn d (abs s) ++ clones (next_id w) src)
          (if N =? 0 then [] else drops (firstn d (abs s)) ++ clone_evs (next_id w) src)
          (if N =? 0 then next_id w else next_id w + zlen src).
Proof.
  intros HW Hf N src d. pose proof HW as HW'. wf HW'.
  pose proof (zlen_nonneg other) as Hol.
  unfold ev_step. rewrite extend_from_slice_unfold. cbv zeta. subst N.
  destruct (cap s =? 0) eqn:E0.
  - exists s. unfold ret. rewrite wev_nil. auto.
  - specialize (Hst ltac:(lia)).
    bstep. bstep.
    destruct (zlen other <? cap s) eqn:E1.
    + (* the whole source is retained *)
      assert (Esrc : src = other).
      { subst src. apply lastn_all. unfold nat_of, zlen in *. lia. }
      bstep.
      destruct (zlen other <? cap s - size s) eqn:E2.
      * (* it fits into the free space *)
        bstep.
        destruct (ext_tail_ok other s w HW Hf ltac:(lia) ltac:(lia))
          as (s' & Hrun & Ha & HW2 & Hc2).
        exists s'. rewrite Hrun.
        assert (Ed : d = 0%nat) by (subst d; rewrite Esrc; unfold nat_of; lia).
        rewrite Ed, Esrc. cbn [skipn firstn drops map app]. auto.
      * (* the front is evicted first *)
        rewrite bind_assoc. bstep. rewrite bind_assoc.
        pose proof (truncate_front_ok s w (cap s - zlen other) HW Hf ltac:(lia)) as Ht.
        cbv zeta in Ht.
        replace (Z.min (cap s - zlen other) (size s)) with (cap s - zlen other) in Ht by lia.
        destruct Ht as (s1 & Ht & Ha1 & HW1 & Hc1).
        erewrite bind_ok by exact Ht. mcbn.
        assert (Hz1 : size s1 = cap s - zlen other).
        { pose proof HW1 as HW1'. wf HW1'.
          rewrite <- (abs_zlen s1) by lia. rewrite Ha1. unfold lastn.
          rewrite zlen_skipn. unfold zlen. rewrite abs_length. unfold zlen in *. lia. }
        replace (ext_tail other (cap s)) with (ext_tail other (size s1 + zlen other))
          by (f_equal; lia).
        match goal with |- context [ext_tail _ _ s1 ?w1] =>
          destruct (ext_tail_ok other s1 w1 HW1 Hf ltac:(lia) ltac:(lia))
            as (s' & Hrun & Ha & HW2 & Hc2)
        end.
        exists s'. rewrite Hrun. rewrite wev_wev, wev_next.
        assert (Ed : (length (abs s) - Z.to_nat (cap s - zlen other))%nat = d).
        { subst d. rewrite Esrc, abs_length. unfold nat_of. lia. }
        rewrite Ed in *. rewrite Esrc.
        split; [reflexivity|]. split; [|split; [exact HW2|congruence]].
        rewrite Ha, Ha1, wev_next. unfold lastn. rewrite Ed. reflexivity.
    + (* only the last N elements of the source are retained *)
      destruct (clear_ok s w HW Hf) as (s1 & Hcl & Ha1 & HW1 & Hc1).
      pose proof (abs_nil_size s1 HW1 Ha1) as Hz1.
      erewrite bind_ok by exact Hcl. mcbn. bstep.
      assert (Esrc : src = skipn (Z.to_nat (zlen other - cap s)) other).
      { subst src. unfold lastn, nat_of. f_equal. unfold zlen in *. lia. }
      rewrite <- Esrc.
      assert (Hls : zlen src = cap s) by (rewrite Esrc, zlen_skipn; lia).
      bstep. mcbn. rewrite Hc1.
      set (w1 := wev w (drops (abs s)) (next_id w)).
      set (s0 := mkB (cap s) 0 0 (items s1)).
      assert (Es0 : b_start s1 0 = s0) by (subst s0; unfold b_start; rewrite Hc1, Hz1; reflexivity).
      rewrite Es0.
      destruct (wusc_ok (mkS 0 (cap s)) src s0 w1 Hf ltac:(cbn; lia) Hls)
        as (f' & Hw & Hout & Hin).
      cbn [soff slen] in Hout, Hin.
      erewrite bind_ok by exact Hw. mcbn.
      exists (mkB (cap s) (cap s) 0 f').
      subst w1. rewrite wev_wev, wev_next.
      assert (Ed : d = length (abs s)).
      { subst d. rewrite abs_length. unfold nat_of. lia. }
      rewrite Ed, firstn_all, skipn_all. cbn [app].
      split; [rewrite Hls; reflexivity|]. split; [|split; [apply WF_mk; lia|reflexivity]].
      assert (Hp0 : phys s0 (size s0) = 0).
      { subst s0. unfold phys. cbn [start size cap]. apply Z.mod_small. lia. }
      pose proof (abs_append s0 f' src (next_id w)) as Hap.
      rewrite Hp0, Hls in Hap. subst s0. cbn [cap size start items] in Hap.
      rewrite (abs_empty (mkB (cap s) 0 0 (items s1))) in Hap by reflexivity.
      rewrite Z.add_0_l in Hap. cbn [app] in Hap. apply Hap; try lia.
      * intros p Hp. apply Hout. lia.
      * intros j Hj. rewrite <- Hin by lia. f_equal.
Qed.

Theorem extend_from_slice_op xs : refines_op (OExtendFromSlice xs).
Proof.
  intros s w HW Hf _. pose proof HW as HW'. wf HW'.
  eapply refines_ev with (m := extend_from_slice xs) (f := fun _ => OutUnit) (v := tt);
    [reflexivity| |exact (extend_from_slice_ok xs s w HW Hf)|reflexivity].
  cbn [spec_step]. unfold spec_extend_from_slice. rewrite abs_zlen by lia.
  destruct (cap s =? 0); reflexivity.
Qed.
