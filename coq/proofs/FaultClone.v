(* FaultClone.v — panics injected into T::clone (fault kind FClone): the
   operations that clone elements (fill_spare, fill, to_vec, clone, clone_from,
   extend_from_slice) are fault safe in the sense of FaultDefs.v: they unwind
   with the injected panic only, never abort, keep the buffer well formed,
   destroy nothing twice and leak nothing. *)

From CB Require Import Spec.
From CBP Require Import MonadLemmas Arith AbsLemmas ListLemmas AbsOps Core Step PushPop
     Slices Truncate RefDefs RefTruncate Views FillExtend FaultDefs CmpHash.
From Coq Require Import ZifyBool Permutation.
Ltac Zify.zify_post_hook ::= Z.div_mod_to_equations.

Ltac blem_user ::=
  first [ apply add_mod_ok; mcbn; lia | apply sub_mod_ok; mcbn; lia ].

(* ---- worlds ------------------------------------------------------------------- *)

(* the world after emitting [evs], advancing the identity counter to [nid]
   and setting the fault plan to [f] *)
Definition wf_ (w : world) (evs : list event) (nid : Z) (f : option (fkind * Z)) : world :=
  mkW (dbg w) nid (log w ++ evs) f.

Lemma wev_wf_ w evs nid : wev w evs nid = wf_ w evs nid (fault w).
Proof. reflexivity. Qed.

Lemma wf_wf_ w e1 n1 f1 e2 n2 f2 : wf_ (wf_ w e1 n1 f1) e2 n2 f2 = wf_ w (e1 ++ e2) n2 f2.
Proof. unfold wf_. cbn. rewrite app_assoc. reflexivity. Qed.

Lemma wev_of_wf_ w e1 n1 f1 e2 n2 : wev (wf_ w e1 n1 f1) e2 n2 = wf_ w (e1 ++ e2) n2 f1.
Proof. unfold wev, wf_. cbn. rewrite app_assoc. reflexivity. Qed.

Lemma wf_of_wev w e1 n1 e2 n2 f2 : wf_ (wev w e1 n1) e2 n2 f2 = wf_ w (e1 ++ e2) n2 f2.
Proof. unfold wev, wf_. cbn. rewrite app_assoc. reflexivity. Qed.

Lemma wf_id w f : fault w = f -> wf_ w [] (next_id w) f = w.
Proof. intros <-. destruct w. unfold wf_. cbn. rewrite app_nil_r. reflexivity. Qed.

(* a world in which destructors do not panic *)
Definition calm (w : world) : Prop :=
  match fault w with Some (FDrop, _) => False | _ => True end.

Lemma calm_none w : fault w = None -> calm w.
Proof. intros H. unfold calm. rewrite H. exact I. Qed.

Lemma calm_clone w k : fault w = Some (FClone, k) -> calm w.
Proof. intros H. unfold calm. rewrite H. exact I. Qed.

Lemma calm_wev w evs nid : calm w -> calm (wev w evs nid).
Proof. intros H. exact H. Qed.

Lemma calm_wf_none w evs nid : calm (wf_ w evs nid None).
Proof. exact I. Qed.

Lemma calm_wf_clone w evs nid k : calm (wf_ w evs nid (Some (FClone, k))).
Proof. exact I. Qed.

(* ---- destructors in a calm world ---------------------------------------------- *)

Lemma user_call_drop_calm s w : calm w -> user_call FDrop s w = (Ok tt, s, w).
Proof.
  unfold calm, user_call. intros H.
  destruct (fault w) as [[[] n]|]; cbn [fkind_eqb]; try reflexivity. contradiction.
Qed.

Lemma drop_elem_calm e s w :
  calm w -> drop_elem e s w = (Ok tt, s, wev w [EvDrop e] (next_id w)).
Proof.
  intros H. unfold drop_elem. erewrite bind_ok by apply emit_eq.
  apply user_call_drop_calm. exact H.
Qed.

Lemma drop_list_calm es s w :
  calm w -> drop_list es s w = (Ok tt, s, wev w (drops es) (next_id w)).
Proof.
  revert w. induction es as [|e es IH]; intros w H.
  - cbn. rewrite wev_nil. reflexivity.
  - cbn [drop_list]. erewrite finally_ok.
    + reflexivity.
    + apply drop_elem_calm. exact H.
    + rewrite IH by exact H. rewrite wev_wev. reflexivity.
Qed.

Lemma drop_opt_calm o s w :
  calm w -> drop_opt o s w = (Ok tt, s, wev w (opt_drop o) (next_id w)).
Proof.
  intros H. destruct o; cbn.
  - apply drop_elem_calm. exact H.
  - rewrite wev_nil. reflexivity.
Qed.

Lemma drop_slice_calm sl s w :
  calm w ->
  drop_slice sl s w = (Ok tt, s, wev w (drops (sl_elems (items s) sl)) (next_id w)).
Proof. intros H. unfold drop_slice. mcbn. apply drop_list_calm. exact H. Qed.

Lemma drop_two_calm R L s w :
  calm w ->
  finally (drop_slice R) (drop_slice L) s w =
    (Ok tt, s, wev w (drops (sl_elems (items s) R ++ sl_elems (items s) L)) (next_id w)).
Proof.
  intros Hf. erewrite finally_ok.
  - reflexivity.
  - apply drop_slice_calm. exact Hf.
  - rewrite drop_slice_calm by exact Hf. rewrite wev_wev.
    unfold drops. rewrite map_app. reflexivity.
Qed.

Lemma on_unwind_panic {A} (body : M A) (cleanup : M unit) s w p s1 w1 s2 w2 :
  body s w = (Panic p, s1, w1) -> cleanup s1 w1 = (Ok tt, s2, w2) ->
  on_unwind body cleanup s w = (Panic p, s2, w2).
Proof. intros H1 H2. unfold on_unwind. rewrite H1, H2. reflexivity. Qed.

Lemma with_buf_panic {A} (b : cbuf) (m : M A) s w p b' w' :
  m b w = (Panic p, b', w') -> with_buf b m s w = (Panic p, s, w').
Proof. intros H. unfold with_buf. rewrite H. reflexivity. Qed.

(* drop_range, truncate_*, clear, drop_buf, replace_buf: as in Truncate.v, for
   calm worlds *)
Theorem drop_range_calm s w a b :
  WF s -> calm w -> 0 <= a < b -> b <= size s -> (a = 0 \/ b = size s) ->
  exists s',
    drop_range a b s w =
      (Ok tt, s', wev w (drops (sublist (Z.to_nat a) (Z.to_nat b) (abs s))) (next_id w)) /\
    abs s' = (if b =? size s then firstn (Z.to_nat a) (abs s) else skipn (Z.to_nat b) (abs s)) /\
    WF s' /\ cap s' = cap s.
Proof.
  intros HW Hf Hab Hb Hends. pose proof HW as HW'. wf HW'.
  specialize (Hst ltac:(lia)).
  pose proof (range_slices_elems s a b ltac:(lia) Hst ltac:(lia) Hab Hb) as Hrs.
  unfold range_slices in Hrs.
  pose proof (phys_range s a ltac:(lia)) as Hpa.
  assert (Hdt : 0 <= (start s + b) mod cap s < cap s) by (apply Z.mod_pos_bound; lia).
  unfold drop_range. replace (b <=? a) with false by lia.
  mcbn. do 6 bstep. bstep. bstep. fold (phys s a) in *.
  set (s1 := if b =? size s then b_size s a
             else mkB (cap s) (size s - b) ((start s + b) mod cap s) (items s)).
  assert (Hbody : (if b =? size s then set_size a
                   else set_start ((start s + b) mod cap s);; v <- usub (size s) b;; set_size v)
                    s w = (Ok tt, s1, w)).
  { subst s1. destruct (b =? size s) eqn:Eb; [reflexivity|]. bgo. reflexivity. }
  assert (Hitems : items s1 = items s) by (subst s1; destruct (b =? size s); reflexivity).
  assert (Habs1 : abs s1 = if b =? size s then firstn (Z.to_nat a) (abs s)
                           else skipn (Z.to_nat b) (abs s)).
  { subst s1. destruct (b =? size s) eqn:Eb.
    - apply abs_truncate_back. lia.
    - apply abs_truncate_front; lia. }
  assert (HW1 : WF s1 /\ cap s1 = cap s).
  { subst s1. destruct (b =? size s) eqn:Eb; (split; [apply WF_mk; cbn; lia|reflexivity]). }
  exists s1. split; [|tauto].
  destruct (phys s a <? (start s + b) mod cap s) eqn:Elt; destruct Hrs as (Hel & Hr & Hl).
  - bgo. eapply finally_ok; [exact Hbody|].
    rewrite drop_two_calm by exact Hf. rewrite Hitems.
    rewrite ?Z.add_0_l. rewrite Hel. reflexivity.
  - bgo. eapply finally_ok; [exact Hbody|].
    rewrite drop_two_calm by exact Hf. rewrite Hitems.
    rewrite ?Z.add_0_l, ?Z.sub_0_r. rewrite Hel. reflexivity.
Qed.

Theorem truncate_back_calm s w k :
  WF s -> calm w -> 0 <= k ->
  let m := Z.to_nat (Z.min k (size s)) in
  ev_step (truncate_back k) s w tt (firstn m (abs s)) (drops (skipn m (abs s))) (next_id w).
Proof.
  intros HW Hf Hk m. pose proof HW as HW'. wf HW'. unfold ev_step, truncate_back. mcbn.
  destruct ((cap s =? 0) || (size s <=? k)) eqn:E.
  - exists s. subst m. replace (Z.min k (size s)) with (size s) by lia.
    rewrite firstn_all2 by (rewrite abs_length; lia).
    rewrite skipn_all2 by (rewrite abs_length; lia).
    cbn [drops map]. rewrite wev_nil. auto.
  - destruct (drop_range_calm s w k (size s) HW Hf ltac:(lia) ltac:(lia) ltac:(lia))
      as (s' & Hd & Ha & HW2 & Hc).
    exists s'. rewrite Hd. subst m. replace (Z.min k (size s)) with k by lia.
    rewrite Z.eqb_refl in Ha.
    replace (Z.to_nat (size s)) with (length (abs s)) by (rewrite abs_length; reflexivity).
    rewrite sublist_to_end. auto.
Qed.

Theorem truncate_front_calm s w k :
  WF s -> calm w -> 0 <= k ->
  let m := Z.to_nat (Z.min k (size s)) in
  ev_step (truncate_front k) s w tt (lastn m (abs s))
          (drops (firstn (length (abs s) - m) (abs s))) (next_id w).
Proof.
  intros HW Hf Hk m. pose proof HW as HW'. wf HW'. unfold ev_step, truncate_front. mcbn.
  unfold lastn. rewrite abs_length.
  destruct ((cap s =? 0) || (size s <=? k)) eqn:E.
  - exists s. subst m. replace (Z.min k (size s)) with (size s) by lia.
    rewrite Nat.sub_diag. cbn [skipn firstn drops map]. rewrite wev_nil. auto.
  - bstep.
    destruct (drop_range_calm s w 0 (size s - k) HW Hf ltac:(lia) ltac:(lia) ltac:(lia))
      as (s' & Hd & Ha & HW2 & Hc).
    exists s'. rewrite Hd. subst m. replace (Z.min k (size s)) with k by lia.
    rewrite sublist_from_0.
    replace (Z.to_nat (size s) - Z.to_nat k)%nat with (Z.to_nat (size s - k)) by lia.
    split; [reflexivity|]. split; [|auto].
    rewrite Ha. destruct (size s - k =? size s) eqn:E2; [|reflexivity].
    assert (k = 0) as -> by lia. rewrite Z.sub_0_r.
    rewrite skipn_all2 by (rewrite abs_length; lia). reflexivity.
Qed.

Theorem clear_calm s w :
  WF s -> calm w -> ev_step clear s w tt [] (drops (abs s)) (next_id w).
Proof.
  intros HW Hf. pose proof (truncate_back_calm s w 0 HW Hf ltac:(lia)) as H.
  pose proof HW as HW'. wf HW'.
  cbv zeta in H. replace (Z.min 0 (size s)) with 0 in H by lia. exact H.
Qed.

Theorem drop_buf_calm s w :
  WF s -> calm w -> ev_step drop_buf s w tt [] (drops (abs s)) (next_id w).
Proof. apply clear_calm. Qed.

Lemma replace_buf_calm nb s w :
  WF s -> calm w ->
  replace_buf nb s w = (Ok tt, nb, wev w (drops (abs s)) (next_id w)).
Proof.
  intros HW Hf. unfold replace_buf. mcbn.
  destruct (drop_buf_calm s w HW Hf) as (s' & Hd & _).
  erewrite bind_ok by (apply with_buf_ok; exact Hd). reflexivity.
Qed.

(* ---- T::clone under an FClone plan ---------------------------------------------- *)

Lemma clone_elem_fault0 e s w :
  fault w = Some (FClone, 0) ->
  clone_elem e s w = (Panic PUser, s, wf_ w [] (next_id w) None).
Proof.
  intros H. unfold clone_elem, bind, user_call. rewrite H. cbn.
  unfold w_fault, wf_. rewrite app_nil_r. reflexivity.
Qed.

Lemma clone_elem_faultS e s w k :
  fault w = Some (FClone, k) -> k <> 0 ->
  clone_elem e s w =
    (Ok (mkE (next_id w) (eval e)), s,
     wf_ w [EvClone e (mkE (next_id w) (eval e))] (next_id w + 1) (Some (FClone, k - 1))).
Proof.
  intros H Hk. unfold clone_elem, bind, user_call. rewrite H. cbn [fkind_eqb].
  replace (k =? 0) with false by lia. reflexivity.
Qed.

(* ---- lists of events and identities ------------------------------------------------ *)

Lemma dropped_of_app a b : dropped_of (a ++ b) = dropped_of a ++ dropped_of b.
Proof. apply flat_map_app. Qed.

Lemma created_of_app a b : created_of (a ++ b) = created_of a ++ created_of b.
Proof. apply flat_map_app. Qed.

Lemma dropped_of_drops l : dropped_of (drops l) = l.
Proof. induction l as [|x l IH]; [reflexivity|]. cbn. f_equal. exact IH. Qed.

Lemma created_of_drops l : created_of (drops l) = [].
Proof. induction l as [|x l IH]; [reflexivity|]. cbn. exact IH. Qed.

Lemma dropped_of_clone_evs nid l : dropped_of (clone_evs nid l) = [].
Proof. revert nid. induction l as [|x l IH]; intros nid; [reflexivity|]. cbn. apply IH. Qed.

Lemma created_of_clone_evs nid l : created_of (clone_evs nid l) = clones nid l.
Proof.
  revert nid. induction l as [|x l IH]; intros nid; [reflexivity|]. cbn. f_equal. apply IH.
Qed.

Lemma clones_app nid l1 l2 :
  clones nid (l1 ++ l2) = clones nid l1 ++ clones (nid + zlen l1) l2.
Proof.
  revert nid. induction l1 as [|x l1 IH]; intros nid.
  - cbn [app clones]. rewrite zlen_nil, Z.add_0_r. reflexivity.
  - cbn [app clones]. rewrite IH, zlen_cons. do 3 f_equal. lia.
Qed.

Lemma clone_evs_app nid l1 l2 :
  clone_evs nid (l1 ++ l2) = clone_evs nid l1 ++ clone_evs (nid + zlen l1) l2.
Proof.
  revert nid. induction l1 as [|x l1 IH]; intros nid.
  - cbn [app clone_evs]. rewrite zlen_nil, Z.add_0_r. reflexivity.
  - cbn [app clone_evs]. rewrite IH, zlen_cons. do 3 f_equal. lia.
Qed.

Lemma clones_range nid l e : In e (clones nid l) -> nid <= eid e < nid + zlen l.
Proof.
  revert nid. induction l as [|x l IH]; intros nid H; [destruct H|].
  cbn [clones] in H. rewrite zlen_cons. pose proof (zlen_nonneg l).
  destruct H as [<-|H]; [cbn [eid]; lia|]. apply IH in H. lia.
Qed.

Lemma clones_NoDup nid l : NoDup (ids (clones nid l)).
Proof.
  revert nid. induction l as [|x l IH]; intros nid; [constructor|].
  cbn [clones ids map]. constructor; [|apply IH].
  intros H. apply in_map_iff in H. destruct H as (e & He & Hin).
  apply clones_range in Hin. cbn [eid] in He. lia.
Qed.

Lemma zlen_clones nid l : zlen (clones nid l) = zlen l.
Proof. apply clones_zlen. Qed.

(* permutations of concatenations of the same pieces *)
Lemma pull_step {A} (a x rest rest' : list A) :
  Permutation rest (a ++ rest') -> Permutation (x ++ rest) (a ++ x ++ rest').
Proof.
  intros H. rewrite H. rewrite !app_assoc. apply Permutation_app_tail. apply Permutation_app_comm.
Qed.

Lemma perm_step {A} (a r rhs rest' : list A) :
  Permutation rhs (a ++ rest') -> Permutation r rest' -> Permutation (a ++ r) rhs.
Proof. intros H1 H2. rewrite H1. apply Permutation_app_head. exact H2. Qed.

Ltac perm_find := repeat first [ apply Permutation_refl | apply pull_step ].

Ltac perm_solve :=
  match goal with
  | |- Permutation ?l ?r =>
    rewrite <- (app_nil_r l), <- (app_nil_r r); rewrite <- ?app_assoc
  end;
  repeat (eapply perm_step; [solve [perm_find]|]);
  apply Permutation_refl.

Lemma perm_shape {A} (K D V1 V2 C1 C2 C3 : list A) :
  Permutation ((K ++ C1 ++ V1) ++ C2 ++ (D ++ C3 ++ V2))
              ((D ++ K) ++ (V1 ++ V2) ++ (C1 ++ C2 ++ C3)).
Proof. perm_solve. Qed.

Lemma NoDup_app_intro {A} (l1 l2 : list A) :
  NoDup l1 -> NoDup l2 -> (forall x, In x l1 -> In x l2 -> False) -> NoDup (l1 ++ l2).
Proof.
  induction l1 as [|a l1 IH]; intros H1 H2 Hd; [exact H2|].
  inversion H1 as [|? ? Hn H1']; subst. cbn [app]. constructor.
  - rewrite in_app_iff. intros [H|H]; [exact (Hn H)|]. apply (Hd a); [left; reflexivity|exact H].
  - apply IH; [exact H1'|exact H2|]. intros x Hx1 Hx2. apply (Hd x); [right; exact Hx1|exact Hx2].
Qed.

(* ---- the common shape of the results ---------------------------------------------------

   Afterwards the buffer holds K ++ C1 ++ V1, the caller gets C2 and D ++ C3 ++ V2
   have been destroyed, where D and K make up the old contents, V1 and V2 the
   elements given by value, and C1 ++ C2 ++ C3 are the clones made. *)
Lemma fs_intro o s w (r : outcome out) s' evs nid' f' srcs K D V1 V2 C1 C2 C3 :
  NoDup (ids (abs s ++ given o)) ->
  (forall e, In e (abs s ++ given o) -> eid e < next_id w) ->
  exec o s w = (r, s', wf_ w evs nid' f') ->
  nid' = next_id w + zlen srcs ->
  clones (next_id w) srcs = C1 ++ C2 ++ C3 ->
  created_of evs = C1 ++ C2 ++ C3 ->
  dropped_of evs = D ++ C3 ++ V2 ->
  abs s' = K ++ C1 ++ V1 ->
  returned o r = C2 ->
  Permutation (D ++ K) (abs s) -> Permutation (V1 ++ V2) (given o) ->
  match r with Ok _ => True | Panic p => p = PUser /\ f' = None /\ C2 = [] end ->
  (f' = None \/ exists k', f' = Some (FClone, k') /\ 0 <= k') ->
  WF s' -> cap s' = cap s ->
  exists r s' w' evs,
      exec o s w = (r, s', w') /\
      log w' = log w ++ evs /\ dbg w' = dbg w /\ next_id w <= next_id w' /\
      (match r with Ok _ => True | Panic p => p = PUser /\ fault w' = None end) /\
      (fault w' = None \/ exists k', fault w' = Some (FClone, k') /\ 0 <= k') /\
      WF s' /\ cap s' = cap s /\
      NoDup (ids (abs s' ++ returned o r ++ dropped_of evs)) /\
      incl (abs s' ++ returned o r ++ dropped_of evs) (abs s ++ given o ++ created_of evs) /\
      (forall e, In e (abs s' ++ created_of evs) -> eid e < next_id w') /\
      (FClone <> FDrop ->
       match r with
       | Ok _ => True
       | Panic _ => incl (given o ++ created_of evs) (abs s' ++ dropped_of evs)
       end).
Proof.
  intros Hnd Hlt He Hnid Hcl Hcr Hdr Hab Hret HpK HpV Hr Hf HW Hc.
  pose proof (zlen_nonneg srcs) as Hs0.
  exists r, s', (wf_ w evs nid' f'), evs.
  set (X := (K ++ C1 ++ V1) ++ C2 ++ (D ++ C3 ++ V2)).
  set (Y := abs s ++ given o ++ (C1 ++ C2 ++ C3)).
  assert (HXY : Permutation X Y).
  { subst X Y. rewrite perm_shape. rewrite HpK, HpV. reflexivity. }
  assert (HYlt : forall e, In e Y -> eid e < nid').
  { intros e Hin. subst Y. rewrite app_assoc, in_app_iff in Hin. destruct Hin as [Hin|Hin].
    - apply Hlt in Hin. lia.
    - rewrite <- Hcl in Hin. apply clones_range in Hin. lia. }
  assert (HYnd : NoDup (ids Y)).
  { subst Y. rewrite app_assoc. unfold ids. rewrite map_app. apply NoDup_app_intro.
    - exact Hnd.
    - rewrite <- Hcl. apply clones_NoDup.
    - intros x H1 H2. apply in_map_iff in H1. destruct H1 as (e1 & E1 & H1).
      apply in_map_iff in H2. destruct H2 as (e2 & E2 & H2).
      apply Hlt in H1. rewrite <- Hcl in H2. apply clones_range in H2. lia. }
  rewrite Hab, Hret, Hdr, Hcr. fold X.
  split; [exact He|]. split; [reflexivity|]. split; [reflexivity|].
  split; [cbn [wf_ next_id]; lia|].
  split; [destruct r as [a|p]; [exact I|cbn [wf_ fault]; tauto]|].
  split; [exact Hf|]. split; [exact HW|]. split; [exact Hc|].
  split; [|split; [|split]].
  - apply Permutation_NoDup with (l := ids Y); [|exact HYnd].
    unfold ids. apply Permutation_map. symmetry. exact HXY.
  - intros e Hin. fold Y. apply Permutation_in with (l := X); assumption.
  - intros e Hin. cbn [wf_ next_id]. apply HYlt.
    apply Permutation_in with (l := X); [exact HXY|].
    subst X. rewrite !in_app_iff in *. tauto.
  - intros _. destruct r as [a|p]; [exact I|]. destruct Hr as (_ & _ & HC2).
    intros e Hin. rewrite HC2 in Hin.
    assert (Hg : In e (given o) -> In e (V1 ++ V2)).
    { apply Permutation_in. symmetry. exact HpV. }
    rewrite !in_app_iff in *. cbn [In] in *. tauto.
Qed.

Lemma wf_next w e n f : next_id (wf_ w e n f) = n.
Proof. reflexivity. Qed.

Lemma wf_fault w e n f : fault (wf_ w e n f) = f.
Proof. reflexivity. Qed.

Lemma firstn_Zcons {A} k (x : A) l :
  0 < k -> firstn (Z.to_nat k) (x :: l) = x :: firstn (Z.to_nat (k - 1)) l.
Proof. intros. replace (Z.to_nat k) with (S (Z.to_nat (k - 1))) by lia. reflexivity. Qed.

(* ---- fill_spare / fill ------------------------------------------------------------------ *)

(* the loop clones until the plan fires or the buffer has one free slot left *)
Lemma fill_spare_loop_fc v n : forall fuel s w k,
  WF s -> fault w = Some (FClone, k) -> 0 <= k -> 0 < cap s ->
  cap s - size s - 1 = Z.of_nat n -> (n <= fuel)%nat ->
  let srcs := firstn (Z.to_nat k) (repeat v n) in
  exists s',
    fill_spare_loop fuel v s w =
      (if k <? Z.of_nat n then Panic PUser else Ok tt, s',
       wf_ w (clone_evs (next_id w) srcs) (next_id w + zlen srcs)
           (if k <? Z.of_nat n then None else Some (FClone, k - Z.of_nat n))) /\
    abs s' = abs s ++ clones (next_id w) srcs /\ WF s' /\ cap s' = cap s /\
    (Z.of_nat n <= k -> size s' = cap s - 1).
Proof.
  induction n as [|n IH]; intros fuel s w k HW Hf Hk Hc Hn Hfuel srcs.
  - exists s. subst srcs. cbn [repeat]. rewrite firstn_nil. cbn [clones clone_evs].
    rewrite app_nil_r, (@zlen_nil elem), Z.add_0_r.
    replace (k <? Z.of_nat 0) with false by lia. rewrite Z.sub_0_r. rewrite wf_id by exact Hf.
    destruct fuel; cbn [fill_spare_loop]; mcbn;
      (erewrite bind_ok by (apply usub_ok; lia)); cbv beta;
      replace (size s <? cap s - 1) with false by lia;
      (split; [reflexivity|]); (split; [reflexivity|]); (split; [exact HW|]); split; lia.
  - destruct fuel as [|fuel]; [lia|].
    cbn [fill_spare_loop]. mcbn. erewrite bind_ok by (apply usub_ok; lia). cbv beta.
    replace (size s <? cap s - 1) with true by lia.
    destruct (Z.eq_dec k 0) as [->|Hk0].
    + exists s. subst srcs. cbn [Z.to_nat firstn clones clone_evs].
      erewrite bind_panic by (apply clone_elem_fault0; exact Hf).
      replace (0 <? Z.of_nat (S n)) with true by lia.
      rewrite (@zlen_nil elem), Z.add_0_r, app_nil_r.
      split; [reflexivity|]. split; [reflexivity|]. split; [exact HW|]. split; lia.
    + set (c := mkE (next_id w) (eval v)).
      set (w1 := wf_ w [EvClone v c] (next_id w + 1) (Some (FClone, k - 1))).
      destruct (push_back_room s w1 c HW ltac:(lia)) as (s1 & Hp & Ha1 & HW1 & Hc1 & Hz1).
      destruct (IH fuel s1 w1 (k - 1) HW1 eq_refl ltac:(lia) ltac:(lia) ltac:(lia) ltac:(lia))
        as (s2 & Hl & Ha2 & HW2 & Hc2 & Hz2).
      exists s2.
      erewrite bind_ok by (apply clone_elem_faultS; [exact Hf|exact Hk0]). fold c. fold w1.
      erewrite bind_ok by exact Hp. cbn [drop_opt]. mcbn. rewrite Hl.
      subst srcs. cbn [repeat]. rewrite firstn_Zcons by lia. cbn [clones clone_evs]. fold c.
      rewrite Ha2, Ha1. subst w1. rewrite wf_wf_, !wf_next. rewrite zlen_cons.
      replace (k <? Z.of_nat (S n)) with (k - 1 <? Z.of_nat n) by lia.
      replace (k - Z.of_nat (S n)) with (k - 1 - Z.of_nat n) by lia.
      replace (next_id w + (1 + zlen (firstn (Z.to_nat (k - 1)) (repeat v n))))
        with (next_id w + 1 + zlen (firstn (Z.to_nat (k - 1)) (repeat v n))) by lia.
      split; [reflexivity|]. split; [rewrite <- app_assoc; reflexivity|].
      split; [exact HW2|]. split; [congruence|]. intros. rewrite Hz2 by lia. lia.
Qed.

Lemma fill_spare_fc v s w k :
  WF s -> fault w = Some (FClone, k) -> 0 <= k ->
  exists (r : outcome unit) s' srcs V1 V2 f',
    fill_spare v s w =
      (r, s', wf_ w (clone_evs (next_id w) srcs ++ drops V2) (next_id w + zlen srcs) f') /\
    WF s' /\ cap s' = cap s /\ abs s' = abs s ++ clones (next_id w) srcs ++ V1 /\
    Permutation (V1 ++ V2) [v] /\
    (match r with Ok _ => True | Panic p => p = PUser /\ f' = None end) /\
    (f' = None \/ exists k', f' = Some (FClone, k') /\ 0 <= k').
Proof.
  intros HW Hf Hk. pose proof HW as HW'. wf HW'. unfold fill_spare. mcbn.
  destruct ((cap s =? 0) || (size s =? cap s)) eqn:E.
  - exists (Ok tt), s, [], [], [v], (Some (FClone, k)).
    rewrite drop_elem_calm by (eapply calm_clone; exact Hf).
    cbn [clone_evs clones app drops map]. rewrite (@zlen_nil elem), Z.add_0_r, app_nil_r.
    rewrite wev_wf_, Hf.
    split; [reflexivity|]. split; [exact HW|]. split; [reflexivity|]. split; [reflexivity|].
    split; [reflexivity|]. split; [exact I|]. right. exists k. split; [reflexivity|exact Hk].
  - set (n := Z.to_nat (cap s - size s - 1)).
    destruct (fill_spare_loop_fc v n (Z.to_nat (cap s - size s)) s w k HW Hf Hk
                ltac:(lia) ltac:(lia) ltac:(lia)) as (s1 & Hl & Ha1 & HW1 & Hc1 & Hz1).
    cbv zeta in Hl, Ha1. set (srcs := firstn (Z.to_nat k) (repeat v n)) in *.
    destruct (k <? Z.of_nat n) eqn:Ek.
    + erewrite bind_panic
        by (eapply on_unwind_panic; [exact Hl|apply drop_elem_calm; apply calm_wf_none]).
      exists (Panic PUser), s1, srcs, [], [v], None.
      rewrite wev_of_wf_, wf_next. rewrite app_nil_r. cbn [drops map app].
      split; [reflexivity|]. split; [exact HW1|]. split; [exact Hc1|]. split; [exact Ha1|].
      split; [reflexivity|]. split; [split; reflexivity|]. left. reflexivity.
    + erewrite bind_ok by (apply on_unwind_ok; exact Hl).
      match goal with |- context [bind (push_back v) _ s1 ?w1] =>
        destruct (push_back_room s1 w1 v HW1 ltac:(lia)) as (s2 & Hp & Ha2 & HW2 & Hc2 & Hz2)
      end.
      erewrite bind_ok by exact Hp. cbn [drop_opt]. unfold ret.
      exists (Ok tt), s2, srcs, [v], [], (Some (FClone, k - Z.of_nat n)).
      cbn [drops map]. rewrite !app_nil_r.
      split; [reflexivity|]. split; [exact HW2|]. split; [congruence|].
      split; [rewrite Ha2, Ha1, <- app_assoc; reflexivity|].
      split; [reflexivity|]. split; [exact I|]. right. eexists. split; [reflexivity|lia].
Qed.

Lemma bind_ret_out {A} (m : M A) (o : out) s w (r : outcome A) s' w' :
  m s w = (r, s', w') ->
  bind m (fun _ => ret o) s w =
    (match r with Ok _ => Ok o | Panic p => Panic p end, s', w').
Proof. intros H. unfold bind. rewrite H. destruct r; reflexivity. Qed.

Theorem fill_spare_clone_fault v : fault_safe (OFillSpare v) FClone.
Proof.
  intros s w k HW _ Hf Hk Hnd Hlt.
  destruct (fill_spare_fc v s w k HW Hf Hk)
    as (r & s' & srcs & V1 & V2 & f' & He & HW' & Hc & Ha & HpV & Hr & Hf').
  eapply fs_intro with (srcs := srcs) (K := abs s) (D := []) (V1 := V1) (V2 := V2)
                       (C1 := clones (next_id w) srcs) (C2 := []) (C3 := []).
  - exact Hnd.
  - exact Hlt.
  - cbn [exec]. apply bind_ret_out. exact He.
  - reflexivity.
  - rewrite !app_nil_r. reflexivity.
  - rewrite created_of_app, created_of_clone_evs, created_of_drops, !app_nil_r. reflexivity.
  - rewrite dropped_of_app, dropped_of_clone_evs, dropped_of_drops. reflexivity.
  - exact Ha.
  - destruct r; reflexivity.
  - reflexivity.
  - exact HpV.
  - destruct r; [exact I|]. tauto.
  - exact Hf'.
  - exact HW'.
  - exact Hc.
Qed.

Theorem fill_clone_fault v : fault_safe (OFill v) FClone.
Proof.
  intros s w k HW _ Hf Hk Hnd Hlt.
  destruct (clear_calm s w HW (calm_clone w k Hf)) as (s1 & Hcl & Ha1 & HW1 & Hc1).
  set (w1 := wev w (drops (abs s)) (next_id w)) in *.
  destruct (fill_spare_fc v s1 w1 k HW1 Hf Hk)
    as (r & s' & srcs & V1 & V2 & f' & He & HW' & Hc & Ha & HpV & Hr & Hf').
  subst w1. rewrite wf_of_wev, wev_next in He. rewrite wev_next in Ha. rewrite Ha1 in Ha.
  eapply fs_intro with (srcs := srcs) (K := []) (D := abs s) (V1 := V1) (V2 := V2)
                       (C1 := clones (next_id w) srcs) (C2 := []) (C3 := []).
  - exact Hnd.
  - exact Hlt.
  - cbn [exec]. apply bind_ret_out. unfold fill.
    erewrite bind_ok by (apply on_unwind_ok; exact Hcl). exact He.
  - reflexivity.
  - rewrite !app_nil_r. reflexivity.
  - rewrite !created_of_app, created_of_clone_evs, !created_of_drops, !app_nil_r. reflexivity.
  - rewrite !dropped_of_app, dropped_of_clone_evs, !dropped_of_drops. reflexivity.
  - exact Ha.
  - destruct r; reflexivity.
  - rewrite app_nil_r. reflexivity.
  - exact HpV.
  - destruct r; [exact I|]. tauto.
  - exact Hf'.
  - exact HW'.
  - congruence.
Qed.

(* ---- to_vec ------------------------------------------------------------------------------ *)

(* when a clone panics the partially built Vec destroys the clones made so far *)
Lemma to_vec_loop_fc src : forall rest fuel it acc s w k,
  fault w = Some (FClone, k) -> 0 <= k ->
  map (items src) (it_slots it) = rest -> (length rest < fuel)%nat ->
  to_vec_loop fuel src it acc s w =
    if k <? zlen rest then
      (Panic PUser, s,
       wf_ w (clone_evs (next_id w) (firstn (Z.to_nat k) rest) ++
              drops (acc ++ clones (next_id w) (firstn (Z.to_nat k) rest)))
           (next_id w + zlen (firstn (Z.to_nat k) rest)) None)
    else
      (Ok (acc ++ clones (next_id w) rest), s,
       wf_ w (clone_evs (next_id w) rest) (next_id w + zlen rest)
           (Some (FClone, k - zlen rest))).
Proof.
  induction rest as [|e rest IH]; intros fuel it acc s w k Hf Hk Hm Hl.
  - destruct fuel as [|fuel]; [cbn in Hl; lia|]. cbn [to_vec_loop].
    destruct (iter_next_nil it) as (it' & ->).
    { destruct (it_slots it); [reflexivity|discriminate]. }
    rewrite (@zlen_nil elem). replace (k <? 0) with false by lia.
    cbn [clones clone_evs]. rewrite app_nil_r, Z.add_0_r, Z.sub_0_r, wf_id by exact Hf.
    reflexivity.
  - destruct fuel as [|fuel]; [cbn in Hl; lia|]. cbn [to_vec_loop].
    destruct (it_slots it) as [|p ps] eqn:Es; [discriminate|].
    cbn [map] in Hm. injection Hm as He Hr.
    destruct (iter_next_cons it p ps Es) as (it' & -> & Es').
    rewrite He. rewrite zlen_cons. pose proof (zlen_nonneg rest) as Hr0.
    destruct (Z.eq_dec k 0) as [->|Hk0].
    + replace (0 <? 1 + zlen rest) with true by lia.
      erewrite bind_panic.
      2:{ eapply on_unwind_panic; [apply clone_elem_fault0; exact Hf|].
          apply drop_list_calm. apply calm_wf_none. }
      rewrite wev_of_wf_, wf_next. cbn [Z.to_nat firstn clones clone_evs].
      rewrite (@zlen_nil elem), Z.add_0_r, app_nil_r. reflexivity.
    + set (c := mkE (next_id w) (eval e)).
      set (w1 := wf_ w [EvClone e c] (next_id w + 1) (Some (FClone, k - 1))).
      erewrite bind_ok
        by (apply on_unwind_ok; apply clone_elem_faultS; [exact Hf|exact Hk0]).
      fold c. fold w1.
      rewrite (IH fuel it' (acc ++ [c]) s w1 (k - 1) eq_refl ltac:(lia));
        [|rewrite Es'; exact Hr|cbn in Hl; lia].
      replace (k <? 1 + zlen rest) with (k - 1 <? zlen rest) by lia.
      rewrite firstn_Zcons by lia. cbn [clones clone_evs]. fold c.
      subst w1. rewrite !wf_wf_, !wf_next, zlen_cons, <- !app_assoc. cbn [app].
      replace (k - (1 + zlen rest)) with (k - 1 - zlen rest) by lia.
      replace (next_id w + (1 + zlen rest)) with (next_id w + 1 + zlen rest) by lia.
      replace (next_id w + (1 + zlen (firstn (Z.to_nat (k - 1)) rest)))
        with (next_id w + 1 + zlen (firstn (Z.to_nat (k - 1)) rest)) by lia.
      reflexivity.
Qed.

Definition alloc_evs (s : cbuf) : list event := if 0 <? size s then [EvAlloc] else [].

Lemma created_of_alloc s : created_of (alloc_evs s) = [].
Proof. unfold alloc_evs. destruct (0 <? size s); reflexivity. Qed.

Lemma dropped_of_alloc s : dropped_of (alloc_evs s) = [].
Proof. unfold alloc_evs. destruct (0 <? size s); reflexivity. Qed.

Theorem to_vec_clone_fault : fault_safe OToVec FClone.
Proof.
  intros s w k HW _ Hf Hk Hnd Hlt. pose proof HW as HW'. wf HW'.
  set (w1 := wev w (alloc_evs s) (next_id w)).
  assert (H1 : (if 0 <? size s then emit EvAlloc else ret tt) s w = (Ok tt, s, w1)).
  { unfold w1, alloc_evs. destruct (0 <? size s); [apply emit_eq|]. rewrite wev_nil. reflexivity. }
  destruct (iter_new_ok s w1 HW) as (it & Hi & Hm).
  pose proof (to_vec_loop_fc s (abs s) (S (Z.to_nat (size s))) it [] s w1 k Hf Hk Hm
                ltac:(rewrite abs_length; lia)) as Hl.
  rewrite abs_zlen in Hl by lia. unfold w1 in Hl. rewrite !wf_of_wev, !wev_next in Hl.
  cbn [app] in Hl.
  assert (Hpre : forall (B : Type) (kont : list elem -> M B),
            bind to_vec kont s w =
            bind (to_vec_loop (S (Z.to_nat (size s))) s it [])
                 (fun v => dassert (zlen v =? size s);; kont v) s w1).
  { intros B kont. unfold to_vec. rewrite bind_assoc. mcbn.
    rewrite bind_assoc. erewrite bind_ok by exact H1.
    rewrite bind_assoc. erewrite bind_ok by exact Hi.
    unfold bind.
    destruct (to_vec_loop (S (Z.to_nat (size s))) s it [] s w1) as [[[v|p] s2] w2];
      [|reflexivity].
    destruct (dassert (zlen v =? size s) s2 w2) as [[[u|p] s3] w3]; reflexivity. }
  destruct (k <? size s) eqn:Ek.
  - set (srcs := firstn (Z.to_nat k) (abs s)) in *.
    eapply fs_intro with (srcs := srcs) (K := abs s) (D := []) (V1 := []) (V2 := [])
                         (C1 := []) (C2 := []) (C3 := clones (next_id w) srcs).
    + exact Hnd.
    + exact Hlt.
    + cbn [exec]. rewrite Hpre. erewrite bind_panic by exact Hl. reflexivity.
    + reflexivity.
    + reflexivity.
    + rewrite !created_of_app, created_of_alloc, created_of_clone_evs, created_of_drops.
      rewrite app_nil_r. reflexivity.
    + rewrite !dropped_of_app, dropped_of_alloc, dropped_of_clone_evs, dropped_of_drops.
      rewrite app_nil_r. reflexivity.
    + rewrite !app_nil_r. reflexivity.
    + reflexivity.
    + reflexivity.
    + reflexivity.
    + cbv iota. auto.
    + left. reflexivity.
    + exact HW.
    + reflexivity.
  - eapply fs_intro with (srcs := abs s) (K := abs s) (D := []) (V1 := []) (V2 := [])
                         (C1 := []) (C2 := clones (next_id w) (abs s)) (C3 := []).
    + exact Hnd.
    + exact Hlt.
    + cbn [exec]. rewrite Hpre. erewrite bind_ok by exact Hl.
      erewrite bind_ok by (apply dassert_ok; rewrite clones_zlen, abs_zlen by lia; lia).
      reflexivity.
    + rewrite abs_zlen by lia. reflexivity.
    + rewrite app_nil_r. reflexivity.
    + rewrite !created_of_app, created_of_alloc, created_of_clone_evs, app_nil_r. reflexivity.
    + rewrite !dropped_of_app, dropped_of_alloc, dropped_of_clone_evs. reflexivity.
    + rewrite !app_nil_r. reflexivity.
    + reflexivity.
    + reflexivity.
    + reflexivity.
    + exact I.
    + right. eexists. split; [reflexivity|lia].
    + exact HW.
    + reflexivity.
Qed.

(* ---- Clone::clone, Clone::clone_from ------------------------------------------------------- *)

(* for_each over src.iter().cloned(), pushing into a buffer with room: when a
   clone panics the clones made so far are in the buffer *)
Lemma cloned_loop_fc src : forall rest fuel it d w k,
  fault w = Some (FClone, k) -> 0 <= k ->
  map (items src) (it_slots it) = rest -> (length rest < fuel)%nat -> WF d ->
  size d + zlen rest <= cap d ->
  exists d',
    cloned_for_each fuel src it push_back_discard d w =
      (if k <? zlen rest then Panic PUser else Ok tt, d',
       wf_ w (clone_evs (next_id w) (firstn (Z.to_nat k) rest))
           (next_id w + zlen (firstn (Z.to_nat k) rest))
           (if k <? zlen rest then None else Some (FClone, k - zlen rest))) /\
    abs d' = abs d ++ clones (next_id w) (firstn (Z.to_nat k) rest) /\ WF d' /\ cap d' = cap d.
Proof.
  induction rest as [|e rest IH]; intros fuel it d w k Hf Hk Hm Hl HW Hroom.
  - destruct fuel as [|fuel]; [cbn in Hl; lia|]. cbn [cloned_for_each].
    destruct (iter_next_nil it) as (it' & ->).
    { destruct (it_slots it); [reflexivity|discriminate]. }
    exists d. rewrite (@zlen_nil elem). replace (k <? 0) with false by lia.
    rewrite firstn_nil. cbn [clones clone_evs].
    rewrite (@zlen_nil elem), app_nil_r, Z.add_0_r, Z.sub_0_r, wf_id by exact Hf.
    unfold ret. auto.
  - destruct fuel as [|fuel]; [cbn in Hl; lia|]. cbn [cloned_for_each].
    destruct (it_slots it) as [|p ps] eqn:Es; [discriminate|].
    cbn [map] in Hm. injection Hm as He Hr.
    destruct (iter_next_cons it p ps Es) as (it' & -> & Es').
    rewrite He. rewrite zlen_cons in *. pose proof (zlen_nonneg rest) as Hr0.
    destruct (Z.eq_dec k 0) as [->|Hk0].
    + exists d. replace (0 <? 1 + zlen rest) with true by lia.
      erewrite bind_panic by (apply clone_elem_fault0; exact Hf).
      cbn [Z.to_nat firstn clones clone_evs].
      rewrite (@zlen_nil elem), Z.add_0_r, app_nil_r. auto.
    + set (c := mkE (next_id w) (eval e)).
      set (w1 := wf_ w [EvClone e c] (next_id w + 1) (Some (FClone, k - 1))).
      destruct (push_back_room d w1 c HW ltac:(lia)) as (d1 & Hp & Ha1 & HW1 & Hc1 & Hz1).
      assert (Hpd : push_back_discard c d w1 = (Ok tt, d1, w1)).
      { unfold push_back_discard. erewrite bind_ok by exact Hp. reflexivity. }
      destruct (IH fuel it' d1 w1 (k - 1) eq_refl ltac:(lia)
                  ltac:(rewrite Es'; exact Hr) ltac:(cbn in Hl; lia) HW1 ltac:(lia))
        as (d2 & Hlp & Ha2 & HW2 & Hc2).
      exists d2.
      erewrite bind_ok by (apply clone_elem_faultS; [exact Hf|exact Hk0]). fold c. fold w1.
      erewrite bind_ok by exact Hpd. rewrite Hlp.
      replace (k <? 1 + zlen rest) with (k - 1 <? zlen rest) by lia.
      rewrite firstn_Zcons by lia. cbn [clones clone_evs]. fold c.
      rewrite Ha2, Ha1. subst w1. rewrite !wf_wf_, !wf_next, zlen_cons, <- !app_assoc.
      cbn [app].
      replace (k - (1 + zlen rest)) with (k - 1 - zlen rest) by lia.
      replace (next_id w + (1 + zlen (firstn (Z.to_nat (k - 1)) rest)))
        with (next_id w + 1 + zlen (firstn (Z.to_nat (k - 1)) rest)) by lia.
      split; [reflexivity|]. split; [reflexivity|]. split; [exact HW2|congruence].
Qed.

(* Clone::clone: on a panic the partial copy is destroyed, [self] is untouched *)
Lemma clone_buf_fc s w k :
  WF s -> fault w = Some (FClone, k) -> 0 <= k ->
  exists c,
    clone_buf junk0 s w =
      (if k <? size s then
         (Panic PUser, s,
          wf_ w (clone_evs (next_id w) (firstn (Z.to_nat k) (abs s)) ++
                 drops (clones (next_id w) (firstn (Z.to_nat k) (abs s))))
              (next_id w + zlen (firstn (Z.to_nat k) (abs s))) None)
       else
         (Ok c, s,
          wf_ w (clone_evs (next_id w) (abs s)) (next_id w + size s)
              (Some (FClone, k - size s)))) /\
    (size s <= k -> abs c = clones (next_id w) (abs s) /\ WF c /\ cap c = cap s).
Proof.
  intros HW Hf Hk. pose proof HW as HW'. wf HW'.
  destruct (iter_new_ok s w HW) as (it & Hi & Hm).
  destruct (cloned_loop_fc s (abs s) (S (Z.to_nat (size s))) it (new_buf (cap s) junk0) w k
              Hf Hk Hm ltac:(rewrite abs_length; lia) (WF_new (cap s) junk0 Hcap)
              ltac:(rewrite abs_zlen by lia; cbn [new_buf size cap]; lia))
    as (d & Hl & Ha & HWd & Hcd).
  rewrite (abs_empty (new_buf (cap s) junk0)) in Ha by reflexivity. cbn [app] in Ha.
  rewrite abs_zlen in Hl by lia. change (cap (new_buf (cap s) junk0)) with (cap s) in Hcd.
  exists d. unfold clone_buf. mcbn. erewrite bind_ok by exact Hi.
  destruct (k <? size s) eqn:Ek.
  - split; [|lia].
    match type of Hl with _ = (_, _, ?wp) =>
      destruct (drop_buf_calm d wp HWd I) as (d' & Hd & _) end.
    erewrite bind_panic
      by (eapply with_buf_panic; eapply on_unwind_panic; [exact Hl|exact Hd]).
    rewrite wev_of_wf_, wf_next, Ha. reflexivity.
  - erewrite bind_ok by (apply with_buf_ok; apply on_unwind_ok; exact Hl).
    unfold ret.
    rewrite firstn_all2 in * by (rewrite abs_length; lia).
    rewrite abs_zlen by lia. split; [reflexivity|]. auto.
Qed.

Theorem clone_keep_clone_fault : fault_safe OCloneKeepClone FClone.
Proof.
  intros s w k HW _ Hf Hk Hnd Hlt. pose proof HW as HW'. wf HW'.
  destruct (clone_buf_fc s w k HW Hf Hk) as (c & Hcb & Hc).
  destruct (k <? size s) eqn:Ek.
  - set (srcs := firstn (Z.to_nat k) (abs s)) in *.
    eapply fs_intro with (srcs := srcs) (K := abs s) (D := []) (V1 := []) (V2 := [])
                         (C1 := []) (C2 := []) (C3 := clones (next_id w) srcs).
    + exact Hnd.
    + exact Hlt.
    + cbn [exec]. erewrite bind_panic by exact Hcb. reflexivity.
    + reflexivity.
    + reflexivity.
    + rewrite !created_of_app, created_of_clone_evs, created_of_drops, app_nil_r. reflexivity.
    + rewrite !dropped_of_app, dropped_of_clone_evs, dropped_of_drops, app_nil_r. reflexivity.
    + rewrite !app_nil_r. reflexivity.
    + reflexivity.
    + reflexivity.
    + reflexivity.
    + cbv iota. auto.
    + left. reflexivity.
    + exact HW.
    + reflexivity.
  - destruct (Hc ltac:(lia)) as (Hac & HWc & Hcc).
    eapply fs_intro with (srcs := abs s) (K := []) (D := abs s) (V1 := []) (V2 := [])
                         (C1 := clones (next_id w) (abs s)) (C2 := []) (C3 := []).
    + exact Hnd.
    + exact Hlt.
    + cbn [exec]. erewrite bind_ok by exact Hcb.
      erewrite bind_ok by (apply replace_buf_calm; [exact HW|apply calm_wf_clone]).
      rewrite wev_of_wf_, wf_next. reflexivity.
    + rewrite abs_zlen by lia. reflexivity.
    + rewrite !app_nil_r. reflexivity.
    + rewrite !created_of_app, created_of_clone_evs, created_of_drops, !app_nil_r. reflexivity.
    + rewrite !dropped_of_app, dropped_of_clone_evs, dropped_of_drops, !app_nil_r. reflexivity.
    + rewrite Hac, app_nil_r. reflexivity.
    + reflexivity.
    + rewrite app_nil_r. reflexivity.
    + reflexivity.
    + exact I.
    + right. eexists. split; [reflexivity|lia].
    + exact HWc.
    + exact Hcc.
Qed.

Theorem clone_drop_clone_fault : fault_safe OCloneDropClone FClone.
Proof.
  intros s w k HW _ Hf Hk Hnd Hlt. pose proof HW as HW'. wf HW'.
  destruct (clone_buf_fc s w k HW Hf Hk) as (c & Hcb & Hc).
  destruct (k <? size s) eqn:Ek.
  - set (srcs := firstn (Z.to_nat k) (abs s)) in *.
    eapply fs_intro with (srcs := srcs) (K := abs s) (D := []) (V1 := []) (V2 := [])
                         (C1 := []) (C2 := []) (C3 := clones (next_id w) srcs).
    + exact Hnd.
    + exact Hlt.
    + cbn [exec]. erewrite bind_panic by exact Hcb. reflexivity.
    + reflexivity.
    + reflexivity.
    + rewrite !created_of_app, created_of_clone_evs, created_of_drops, app_nil_r. reflexivity.
    + rewrite !dropped_of_app, dropped_of_clone_evs, dropped_of_drops, app_nil_r. reflexivity.
    + rewrite !app_nil_r. reflexivity.
    + reflexivity.
    + reflexivity.
    + reflexivity.
    + cbv iota. auto.
    + left. reflexivity.
    + exact HW.
    + reflexivity.
  - destruct (Hc ltac:(lia)) as (Hac & HWc & Hcc).
    set (w1 := wf_ w (clone_evs (next_id w) (abs s)) (next_id w + size s)
                   (Some (FClone, k - size s))) in *.
    assert (Hin : (s0 <- get;; '(a, b) <- as_slices;;
                   ret (sl_elems (items s0) a ++ sl_elems (items s0) b)) c w1
                  = (Ok (abs c), c, w1)).
    { mcbn. erewrite bind_ok by (apply as_slices_ok; exact HWc).
      pose proof (as_slices_val_abs c HWc) as H.
      destruct (as_slices_val c) as [a b]. cbn [fst snd] in H. rewrite H. reflexivity. }
    destruct (drop_buf_calm c w1 HWc I) as (c' & Hd & _).
    eapply fs_intro with (srcs := abs s) (K := abs s) (D := []) (V1 := []) (V2 := [])
                         (C1 := []) (C2 := []) (C3 := clones (next_id w) (abs s)).
    + exact Hnd.
    + exact Hlt.
    + cbn [exec]. erewrite bind_ok by exact Hcb.
      erewrite bind_ok by (apply with_buf_ok; exact Hin).
      cbv iota beta. erewrite bind_ok by (apply with_buf_ok; exact Hd).
      unfold w1. rewrite wev_of_wf_, wf_next, Hac. reflexivity.
    + rewrite abs_zlen by lia. reflexivity.
    + reflexivity.
    + rewrite !created_of_app, created_of_clone_evs, created_of_drops, !app_nil_r. reflexivity.
    + rewrite !dropped_of_app, dropped_of_clone_evs, dropped_of_drops, !app_nil_r. reflexivity.
    + rewrite !app_nil_r. reflexivity.
    + reflexivity.
    + reflexivity.
    + reflexivity.
    + exact I.
    + right. eexists. split; [reflexivity|lia].
    + exact HW.
    + reflexivity.
Qed.

(* clone_from: [self] is emptied first; on a panic it keeps the clones made so far *)
Theorem clone_from_clone_fault other : fault_safe (OCloneFrom other) FClone.
Proof.
  intros s w k HW Hop Hf Hk Hnd Hlt. cbn in Hop. destruct Hop as [HWo Hco].
  pose proof HWo as HWo'. wf HWo'. pose proof HW as HW'. wf HW'.
  destruct (clear_calm s w HW (calm_clone w k Hf)) as (s1 & Hcl & Ha1 & HW1 & Hc1).
  pose proof (abs_nil_size s1 HW1 Ha1) as Hz1.
  set (w1 := wev w (drops (abs s)) (next_id w)) in *.
  destruct (iter_new_ok other w1 HWo) as (it & Hi & Hm).
  destruct (cloned_loop_fc other (abs other) (S (Z.to_nat (size other))) it s1 w1 k
              Hf Hk Hm ltac:(rewrite abs_length; lia) HW1
              ltac:(rewrite abs_zlen by lia; lia))
    as (s2 & Hl & Ha2 & HW2 & Hc2).
  rewrite abs_zlen in Hl by lia. unfold w1 in Hl, Ha2.
  rewrite wf_of_wev, wev_next in Hl. rewrite wev_next, Ha1 in Ha2. cbn [app] in Ha2.
  set (srcs := firstn (Z.to_nat k) (abs other)) in *.
  assert (He : clone_from other s w =
               (if k <? size other then Panic PUser else Ok tt, s2,
                wf_ w (drops (abs s) ++ clone_evs (next_id w) srcs) (next_id w + zlen srcs)
                    (if k <? size other then None else Some (FClone, k - size other)))).
  { unfold clone_from. erewrite bind_ok by exact Hcl.
    erewrite bind_ok by (apply with_buf_ok; exact Hi). cbv iota beta. exact Hl. }
  eapply fs_intro with (srcs := srcs) (K := []) (D := abs s) (V1 := []) (V2 := [])
                       (C1 := clones (next_id w) srcs) (C2 := []) (C3 := []).
  - exact Hnd.
  - exact Hlt.
  - cbn [exec]. apply bind_ret_out. exact He.
  - reflexivity.
  - rewrite !app_nil_r. reflexivity.
  - rewrite !created_of_app, created_of_clone_evs, created_of_drops, !app_nil_r. reflexivity.
  - rewrite !dropped_of_app, dropped_of_clone_evs, dropped_of_drops, !app_nil_r. reflexivity.
  - rewrite Ha2, app_nil_r. reflexivity.
  - destruct (k <? size other); reflexivity.
  - rewrite app_nil_r. reflexivity.
  - reflexivity.
  - destruct (k <? size other); cbv iota; auto.
  - destruct (k <? size other) eqn:Ek; [left; reflexivity|].
    right. eexists. split; [reflexivity|lia].
  - exact HW2.
  - congruence.
Qed.

(* ---- extend_from_slice ------------------------------------------------------------------------ *)

(* the store after writing the list l to the slots p, p+1, ... *)
Fixpoint write_list (f : store) (p : Z) (l : list elem) : store :=
  match l with
  | [] => f
  | x :: r => write_list (s_write f p x) (p + 1) r
  end.

Lemma write_list_out l : forall f p q,
  q < p \/ p + zlen l <= q -> write_list f p l q = f q.
Proof.
  induction l as [|x l IH]; intros f p q H; [reflexivity|].
  cbn [write_list]. rewrite zlen_cons in H. pose proof (zlen_nonneg l).
  rewrite IH by lia. unfold s_write. replace (q =? p) with false by lia. reflexivity.
Qed.

Lemma write_list_in l : forall f p t,
  0 <= t < zlen l -> write_list f p l (p + t) = zn l t.
Proof.
  induction l as [|x l IH]; intros f p t H.
  - rewrite (@zlen_nil elem) in H. lia.
  - rewrite zlen_cons in H. cbn [write_list].
    destruct (Z.eq_dec t 0) as [->|Ht].
    + rewrite write_list_out by lia. unfold s_write. rewrite Z.add_0_r, Z.eqb_refl. reflexivity.
    + replace (p + t) with (p + 1 + (t - 1)) by lia. rewrite IH by lia.
      rewrite zn_consS by lia. reflexivity.
Qed.

Lemma sl_elems_write_list f p l : sl_elems (write_list f p l) (mkS p (zlen l)) = l.
Proof.
  pose proof (zlen_nonneg l). apply zn_ext.
  - rewrite sl_elems_zlen by (cbn; lia). reflexivity.
  - intros i Hi. rewrite sl_elems_zlen in Hi by (cbn; lia). cbn [slen] in Hi.
    rewrite zn_sl_elems by (cbn; lia). cbn [soff]. apply write_list_in. lia.
Qed.

Lemma skipn_nth_error {A} (l : list A) : forall i e,
  nth_error l i = Some e -> skipn i l = e :: skipn (S i) l.
Proof.
  induction l as [|x l IH]; intros i e H; [destruct i; discriminate|].
  destruct i as [|i]; [cbn in H; injection H as ->; reflexivity|].
  cbn [nth_error] in H. cbn [skipn]. apply IH. exact H.
Qed.

Lemma b_items_id s : b_items s (items s) = s.
Proof. destruct s. reflexivity. Qed.

(* the cloning loop: when the clone for slot i+k panics, the Guard destroys
   dst[0 .. i+k) *)
Lemma wusc_loop_fc dst src : forall n i s w k,
  fault w = Some (FClone, k) -> 0 <= k -> 0 <= i -> i + Z.of_nat n = slen dst ->
  zlen src = slen dst ->
  let srcs := firstn (Z.to_nat k) (skipn (Z.to_nat i) src) in
  let f' := write_list (items s) (soff dst + i) (clones (next_id w) srcs) in
  wusc_loop dst src n i s w =
    (if k <? Z.of_nat n then Panic PUser else Ok tt, b_items s f',
     wf_ w (clone_evs (next_id w) srcs ++
            (if k <? Z.of_nat n then drops (sl_elems f' (mkS (soff dst) (i + k))) else []))
         (next_id w + zlen srcs)
         (if k <? Z.of_nat n then None else Some (FClone, k - Z.of_nat n))).
Proof.
  induction n as [|n IH]; intros i s w k Hf Hk Hi Hn Hlen srcs f'.
  - subst f' srcs. cbn [wusc_loop]. replace (k <? Z.of_nat 0) with false by lia.
    rewrite skipn_all2 by (unfold zlen in Hlen; lia). rewrite firstn_nil.
    cbn [clones clone_evs write_list app]. rewrite (@zlen_nil elem), Z.add_0_r, Z.sub_0_r.
    rewrite b_items_id, wf_id by exact Hf. reflexivity.
  - cbn [wusc_loop].
    destruct (nth_error src (Z.to_nat i)) as [e|] eqn:En.
    2:{ apply nth_error_None in En. unfold zlen in Hlen. lia. }
    pose proof (skipn_nth_error src _ _ En) as Hsk.
    replace (S (Z.to_nat i)) with (Z.to_nat (i + 1)) in Hsk by lia.
    destruct (Z.eq_dec k 0) as [->|Hk0].
    + subst f' srcs. replace (0 <? Z.of_nat (S n)) with true by lia.
      cbn [Z.to_nat firstn clones clone_evs write_list app].
      erewrite bind_panic.
      2:{ eapply on_unwind_panic.
          - erewrite bind_ok by (apply sl_index_ok; lia).
            erewrite bind_ok by reflexivity.
            erewrite bind_panic by (apply clone_elem_fault0; exact Hf). reflexivity.
          - erewrite bind_ok by (apply sl_range_ok; lia).
            apply drop_slice_calm. apply calm_wf_none. }
      rewrite wev_of_wf_, wf_next, b_items_id, (@zlen_nil elem), !Z.add_0_r, Z.sub_0_r.
      reflexivity.
    + set (c := mkE (next_id w) (eval e)).
      set (w1 := wf_ w [EvClone e c] (next_id w + 1) (Some (FClone, k - 1))).
      set (s1 := b_items s (s_write (items s) (soff dst + i) c)).
      erewrite bind_ok.
      2:{ apply on_unwind_ok.
          erewrite bind_ok by (apply sl_index_ok; lia).
          erewrite bind_ok by reflexivity.
          erewrite bind_ok by (apply clone_elem_faultS; [exact Hf|exact Hk0]).
          reflexivity. }
      fold c. fold w1. fold s1.
      rewrite (IH (i + 1) s1 w1 (k - 1) eq_refl ltac:(lia) ltac:(lia) ltac:(lia) Hlen).
      subst f' srcs. rewrite Hsk. rewrite firstn_Zcons by lia. cbn [clones clone_evs write_list].
      fold c. subst w1 s1. rewrite !wf_wf_, !wf_next. cbn [items b_items].
      replace (k <? Z.of_nat (S n)) with (k - 1 <? Z.of_nat n) by lia.
      replace (k - Z.of_nat (S n)) with (k - 1 - Z.of_nat n) by lia.
      replace (soff dst + (i + 1)) with (soff dst + i + 1) by lia.
      replace (i + 1 + (k - 1)) with (i + k) by lia.
      rewrite zlen_cons.
      match goal with |- context [zlen (firstn ?a ?b)] => set (zz := zlen (firstn a b)) end.
      replace (next_id w + (1 + zz)) with (next_id w + 1 + zz) by lia.
      reflexivity.
Qed.

(* new elements in the free slots behind the back *)
Lemma abs_extend s f' l :
  0 < cap s -> 0 <= start s < cap s -> 0 <= size s -> size s + zlen l <= cap s ->
  (forall i, 0 <= i < size s -> f' (phys s i) = items s (phys s i)) ->
  (forall t, 0 <= t < zlen l -> f' (phys s (size s + t)) = zn l t) ->
  abs (mkB (cap s) (size s + zlen l) (start s) f') = abs s ++ l.
Proof.
  intros Hc Hs Hz Hl H1 H2. pose proof (zlen_nonneg l) as Hl0. apply zn_ext.
  - rewrite zlen_app, !abs_zlen by (cbn [size]; lia). reflexivity.
  - intros i Hi. rewrite abs_zlen in Hi by (cbn [size]; lia). cbn [size] in Hi.
    rewrite zn_abs by (cbn [size]; lia). rewrite phys_mkB.
    change ((start s + i) mod cap s) with (phys s i). cbn [items].
    destruct (Z_lt_ge_dec i (size s)) as [Hlt|Hge].
    + rewrite zn_app1 by (rewrite abs_zlen; lia). rewrite zn_abs by lia. apply H1. lia.
    + rewrite zn_app2 by (rewrite abs_zlen; lia). rewrite abs_zlen by lia.
      replace i with (size s + (i - size s)) at 1 by lia. apply H2. lia.
Qed.

Lemma write_list_free s f p l i :
  0 < cap s -> 0 <= start s < cap s -> size s + zlen l <= cap s ->
  (forall t, 0 <= t < zlen l -> p + t = phys s (size s + t)) ->
  0 <= i < size s -> write_list f p l (phys s i) = f (phys s i).
Proof.
  intros Hc Hs Hl Hp Hi. apply write_list_out.
  destruct (Z_lt_ge_dec (phys s i) p) as [H1|H1]; [left; exact H1|].
  destruct (Z_lt_ge_dec (phys s i) (p + zlen l)) as [H2|H2]; [|right; lia].
  exfalso. pose proof (Hp (phys s i - p) ltac:(lia)) as E.
  replace (p + (phys s i - p)) with (phys s i) in E by lia.
  apply phys_inj in E; lia.
Qed.

(* cloning src into the free slots p, p+1, ... = the slots behind the back *)
Lemma seg_wusc_fc s w k p src :
  0 < cap s -> 0 <= start s < cap s -> 0 <= size s ->
  fault w = Some (FClone, k) -> 0 <= k ->
  size s + zlen src <= cap s ->
  (forall t, 0 <= t < zlen src -> p + t = phys s (size s + t)) ->
  let srcs := firstn (Z.to_nat k) src in
  exists f',
    write_uninit_slice_cloned (mkS p (zlen src)) src s w =
      (if k <? zlen src then Panic PUser else Ok tt, b_items s f',
       wf_ w (clone_evs (next_id w) srcs ++
              (if k <? zlen src then drops (clones (next_id w) srcs) else []))
           (next_id w + zlen srcs)
           (if k <? zlen src then None else Some (FClone, k - zlen src))) /\
    abs (b_items s f') = abs s /\
    (zlen src <= k ->
     abs (mkB (cap s) (size s + zlen src) (start s) f') = abs s ++ clones (next_id w) src).
Proof.
  intros Hc Hs Hz Hf Hk Hroom Hp srcs. pose proof (zlen_nonneg src) as Hs0.
  set (f' := write_list (items s) p (clones (next_id w) srcs)).
  assert (Hsl : zlen srcs = Z.min k (zlen src)) by (subst srcs; rewrite zlen_firstn; lia).
  exists f'. split; [|split].
  - unfold write_uninit_slice_cloned.
    erewrite bind_ok by (apply dassert_ok; cbn [slen]; lia).
    pose proof (wusc_loop_fc (mkS p (zlen src)) src (Z.to_nat (zlen src)) 0 s w k Hf Hk
                  ltac:(lia) ltac:(cbn [slen]; lia) eq_refl) as H.
    cbv zeta in H. change (Z.to_nat 0) with 0%nat in H. cbn [slen soff skipn] in H.
    cbn [slen]. rewrite H. clear H.
    rewrite Z2Nat.id by lia. rewrite !Z.add_0_r, !Z.add_0_l. fold srcs. fold f'.
    destruct (k <? zlen src) eqn:Ek; [|reflexivity].
    replace (mkS p k) with (mkS p (zlen (clones (next_id w) srcs)))
      by (rewrite zlen_clones; f_equal; lia).
    unfold f'. rewrite sl_elems_write_list. reflexivity.
  - apply abs_ext; [reflexivity|]. intros i Hi. cbn [size b_items] in Hi.
    rewrite phys_b_items. cbn [items b_items]. unfold f'.
    apply write_list_free; try assumption.
    + rewrite zlen_clones. lia.
    + intros t Ht. rewrite zlen_clones in Ht. apply Hp. lia.
  - intros Hge. assert (Hall : srcs = src).
    { subst srcs. apply firstn_all2. unfold zlen in *. lia. }
    rewrite <- (zlen_clones (next_id w) src). apply abs_extend; try assumption.
    + rewrite zlen_clones. exact Hroom.
    + intros i Hi. unfold f'. apply write_list_free; try assumption.
      * rewrite zlen_clones. lia.
      * intros t Ht. rewrite zlen_clones in Ht. apply Hp. lia.
    + intros t Ht. rewrite zlen_clones in Ht. rewrite <- Hp by lia. unfold f'. rewrite Hall.
      apply write_list_in. rewrite zlen_clones. lia.
Qed.

(* the first of the two free segments starts behind the back and extends to
   the end of the array or of the free space *)
Lemma sum_first s w :
  WF s -> 0 < cap s ->
  exists rgt x,
    slices_uninit_mut s w = (Ok (rgt, x), s, w) /\
    0 <= soff rgt /\ 0 <= slen rgt /\ soff rgt + slen rgt <= cap s /\
    (size s < cap s ->
     soff rgt = phys s (size s) /\
     slen rgt = Z.min (cap s - phys s (size s)) (cap s - size s)).
Proof.
  intros HW Hc. wf HW. specialize (Hst ltac:(lia)).
  unfold slices_uninit_mut. mcbn. replace (cap s =? 0) with false by lia.
  do 3 bstep. unfold phys.
  destruct (mod_small_or_wrap (start s + size s) (cap s) Hc ltac:(lia)) as [[H1 E1]|[H1 E1]];
    rewrite E1.
  - replace (start s + size s <? start s) with false by lia.
    bsteps. unfold ret. eexists. eexists. split; [reflexivity|]. cbn [soff slen]. lia.
  - destruct (start s + size s - cap s <? start s) eqn:E.
    + bsteps. unfold ret. eexists. eexists. split; [reflexivity|]. cbn [soff slen]. lia.
    + bsteps. unfold ret. eexists. eexists. split; [reflexivity|]. cbn [soff slen]. lia.
Qed.

Lemma mod_compl a m : 0 < m -> (a + (m - a mod m)) mod m = 0.
Proof.
  intros Hm. rewrite (Z.div_mod a m) at 1 by lia.
  replace (m * (a / m) + a mod m + (m - a mod m)) with ((a / m + 1) * m) by lia.
  apply Z.mod_mul. lia.
Qed.

Lemma mod_wrap_to a m t : 0 < m -> a mod m = 0 -> 0 <= t < m -> (a + t) mod m = t.
Proof.
  intros Hm H Ht. rewrite <- Zplus_mod_idemp_l, H. apply Z.mod_small. lia.
Qed.

Lemma mod_add_small a t m :
  0 < m -> 0 <= t -> a mod m + t < m -> (a + t) mod m = a mod m + t.
Proof.
  intros Hm Ht H. rewrite <- Zplus_mod_idemp_l. apply Z.mod_small.
  pose proof (Z.mod_pos_bound a m Hm). lia.
Qed.

Lemma extend_from_slice_fc xs s w k :
  WF s -> zlen xs < W -> fault w = Some (FClone, k) -> 0 <= k ->
  exists (r : outcome unit) s' evs f' D K src1 src3,
    extend_from_slice xs s w =
      (r, s', wf_ w evs (next_id w + zlen (src1 ++ src3)) f') /\
    created_of evs = clones (next_id w) src1 ++ clones (next_id w + zlen src1) src3 /\
    dropped_of evs = D ++ clones (next_id w + zlen src1) src3 /\
    abs s' = K ++ clones (next_id w) src1 /\
    Permutation (D ++ K) (abs s) /\
    (match r with Ok _ => True | Panic p => p = PUser /\ f' = None end) /\
    (f' = None \/ exists k', f' = Some (FClone, k') /\ 0 <= k') /\
    WF s' /\ cap s' = cap s.
Proof.
  intros HW Hx Hf Hk. pose proof HW as HW'. wf HW'. pose proof (zlen_nonneg xs) as Hx0.
  unfold extend_from_slice. mcbn.
  destruct (Z.eq_dec (cap s) 0) as [Hc0|Hc0].
  - replace (cap s =? 0) with true by lia. unfold ret.
    exists (Ok tt), s, [], (Some (FClone, k)), [], (abs s), [], [].
    cbn [app clones created_of dropped_of flat_map]. rewrite (@zlen_nil elem), Z.add_0_r.
    rewrite wf_id by exact Hf. rewrite app_nil_r.
    split; [reflexivity|]. split; [reflexivity|]. split; [reflexivity|]. split; [reflexivity|].
    split; [reflexivity|]. split; [exact I|]. split; [right; exists k; auto|]. auto.
  - replace (cap s =? 0) with false by lia. specialize (Hst ltac:(lia)).
    do 2 bstep.
    destruct (zlen xs <? cap s) eqn:Eo.
    + bstep.
      (* the final size, after making room at the front *)
      assert (Hfin : exists s1 d,
        (if zlen xs <? cap s - size s then uadd (size s) (zlen xs)
         else k0 <- usub (cap s) (zlen xs);; truncate_front k0;; ret (cap s)) s w =
          (Ok (size s1 + zlen xs), s1, wev w (drops (firstn d (abs s))) (next_id w)) /\
        WF s1 /\ cap s1 = cap s /\ abs s1 = skipn d (abs s) /\ size s1 + zlen xs <= cap s).
      { destruct (zlen xs <? cap s - size s) eqn:Efree.
        - exists s, 0%nat. rewrite uadd_ok by lia. cbn [firstn skipn drops map].
          rewrite wev_nil.
          split; [reflexivity|]. split; [exact HW|]. split; [reflexivity|].
          split; [reflexivity|lia].
        - destruct (truncate_front_calm s w (cap s - zlen xs) HW (calm_clone w k Hf)
                      ltac:(lia)) as (s1 & Ht & Ha & HW1 & Hc1).
          cbv zeta in Ht, Ha.
          replace (Z.min (cap s - zlen xs) (size s)) with (cap s - zlen xs) in * by lia.
          unfold lastn in Ha.
          exists s1, (length (abs s) - Z.to_nat (cap s - zlen xs))%nat.
          assert (Hz1 : size s1 = cap s - zlen xs).
          { pose proof HW1 as (_ & Hsz1 & _). rewrite <- (abs_zlen s1) by lia.
            rewrite Ha, zlen_skipn, abs_length, abs_zlen by lia. lia. }
          erewrite bind_ok by (apply usub_ok; lia). erewrite bind_ok by exact Ht.
          unfold ret. rewrite Hz1. replace (cap s - zlen xs + zlen xs) with (cap s) by lia.
          split; [reflexivity|]. split; [exact HW1|]. split; [exact Hc1|].
          split; [exact Ha|lia]. }
      destruct Hfin as (s1 & d & Hfin & HW1 & Hc1 & Ha1 & Hroom).
      erewrite bind_ok by exact Hfin. clear Hfin.
      set (w1 := wev w (drops (firstn d (abs s))) (next_id w)).
      set (D := firstn d (abs s)) in *.
      assert (HpK : Permutation (D ++ abs s1) (abs s)).
      { rewrite Ha1. unfold D. rewrite firstn_skipn. reflexivity. }
      pose proof HW1 as (Hcap1 & Hsize1 & _ & Hst1). specialize (Hst1 ltac:(lia)).
      (* first segment *)
      destruct (sum_first s1 w1 HW1 ltac:(lia)) as (rgt & x1 & Hsum & Hr1 & Hr2 & Hr3 & Hr4).
      erewrite bind_ok by exact Hsum. cbv iota beta.
      set (wl := Z.min (slen rgt) (zlen xs)).
      set (src1 := firstn (Z.to_nat wl) xs).
      set (src2 := skipn (Z.to_nat wl) xs).
      assert (Hl1 : zlen src1 = wl) by (unfold src1; rewrite zlen_firstn; lia).
      assert (Hl2 : zlen src2 = zlen xs - wl) by (unfold src2; rewrite zlen_skipn; lia).
      bstep.
      replace (mkS (soff rgt + 0) (wl - 0)) with (mkS (soff rgt) (zlen src1))
        by (f_equal; lia).
      assert (Hp1 : forall t, 0 <= t < zlen src1 -> soff rgt + t = phys s1 (size s1 + t)).
      { intros t Ht. destruct (Hr4 ltac:(lia)) as (E1 & E2). rewrite E1.
        unfold phys in *. rewrite Z.add_assoc. symmetry. apply mod_add_small; lia. }
      destruct (seg_wusc_fc s1 w1 k (soff rgt) src1 ltac:(lia) Hst1 ltac:(lia) Hf Hk
                  ltac:(lia) Hp1) as (f1 & Hw1 & Hab1 & Hab1').
      cbv zeta in Hw1. unfold w1 in Hw1. rewrite wf_of_wev, wev_next in Hw1.
      unfold w1 in Hab1'. rewrite wev_next in Hab1'.
      destruct (k <? zlen src1) eqn:Ek1.
      { (* the first segment unwinds *)
        erewrite bind_panic by exact Hw1.
        set (srcs := firstn (Z.to_nat k) src1) in *.
        exists (Panic PUser), (b_items s1 f1),
          (drops D ++ clone_evs (next_id w) srcs ++ drops (clones (next_id w) srcs)),
          None, D, (abs s1), [], srcs.
        cbn [app clones]. rewrite (@zlen_nil elem), Z.add_0_r.
        rewrite !created_of_app, !dropped_of_app, created_of_clone_evs, !created_of_drops,
          dropped_of_clone_evs, !dropped_of_drops, !app_nil_r. cbn [app].
        split; [reflexivity|]. split; [reflexivity|]. split; [reflexivity|].
        split; [exact Hab1|]. split; [exact HpK|]. split; [auto|]. split; [left; reflexivity|].
        split; [apply WF_mk; cbn; lia|exact Hc1]. }
      (* the first segment is complete: its clones now belong to the buffer *)
      assert (Hall1 : firstn (Z.to_nat k) src1 = src1)
        by (apply firstn_all2; unfold zlen in *; lia).
      rewrite Hall1 in Hw1. rewrite app_nil_r in Hw1.
      specialize (Hab1' ltac:(lia)). rewrite Hl1 in Hab1'.
      erewrite bind_ok by exact Hw1. mcbn.
      erewrite bind_ok by (apply uadd_ok; lia). mcbn.
      set (s2 := mkB (cap s1) (size s1 + wl) (start s1) f1) in *.
      set (w2 := wf_ w (drops D ++ clone_evs (next_id w) src1) (next_id w + zlen src1)
                     (Some (FClone, k - zlen src1))).
      assert (HW2 : WF s2) by (apply WF_mk; cbn; lia).
      destruct (sum_first s2 w2 HW2 ltac:(cbn; lia))
        as (lft & x2 & Hsum2 & Hq1 & Hq2 & Hq3 & Hq4).
      erewrite bind_ok by exact Hsum2. cbv iota beta.
      assert (Hgeo : zlen src2 <= slen lft /\
                     forall t, 0 <= t < zlen src2 -> soff lft + t = phys s2 (size s2 + t)).
      { destruct (Z.eq_dec (zlen src2) 0) as [E0|E0]; [split; lia|].
        destruct (Hr4 ltac:(lia)) as (E1 & E2).
        assert (Ewl : wl = cap s1 - phys s1 (size s1)) by lia.
        assert (P0 : phys s2 (size s2) = 0).
        { unfold phys, s2. cbn [size cap start]. rewrite Ewl. unfold phys.
          rewrite Z.add_assoc. apply mod_compl. lia. }
        destruct (Hq4 ltac:(cbn [size cap s2]; lia)) as (F1 & F2).
        rewrite P0 in F1, F2. cbn [size cap s2] in F2.
        split; [lia|]. intros t Ht. rewrite F1.
        assert (Hc2 : 0 < cap s2) by (unfold s2; cbn [cap]; lia).
        assert (Ht2 : 0 <= t < cap s2) by (unfold s2; cbn [cap]; lia).
        unfold phys in P0 |- *. rewrite Z.add_assoc, Z.add_0_l. symmetry.
        exact (mod_wrap_to (start s2 + size s2) (cap s2) t Hc2 P0 Ht2). }
      destruct Hgeo as (Hg1 & Hp2).
      bstep. bstep.
      replace (mkS (soff lft + 0) (zlen src2 - 0)) with (mkS (soff lft) (zlen src2))
        by (f_equal; lia).
      destruct (seg_wusc_fc s2 w2 (k - zlen src1) (soff lft) src2 ltac:(cbn; lia)
                  ltac:(cbn; lia) ltac:(cbn; lia) eq_refl ltac:(lia) ltac:(cbn; lia) Hp2)
        as (f2 & Hw2 & Hab2 & Hab2').
      cbv zeta in Hw2. unfold w2 in Hw2, Hab2'. rewrite wf_wf_, !wf_next in Hw2.
      rewrite wf_next in Hab2'.
      destruct (k - zlen src1 <? zlen src2) eqn:Ek2.
      { (* the second segment unwinds: its clones are destroyed *)
        erewrite bind_panic by exact Hw2.
        set (srcs := firstn (Z.to_nat (k - zlen src1)) src2) in *.
        exists (Panic PUser), (b_items s2 f2),
          ((drops D ++ clone_evs (next_id w) src1) ++
           clone_evs (next_id w + zlen src1) srcs ++
           drops (clones (next_id w + zlen src1) srcs)),
          None, D, (abs s1), src1, srcs.
        rewrite zlen_app, Z.add_assoc.
        rewrite !created_of_app, !dropped_of_app, !created_of_clone_evs, !created_of_drops,
          !dropped_of_clone_evs, !dropped_of_drops, !app_nil_r. cbn [app].
        split; [reflexivity|]. split; [reflexivity|]. split; [reflexivity|].
        split; [rewrite Hab2; exact Hab1'|]. split; [exact HpK|]. split; [auto|].
        split; [left; reflexivity|].
        split; [apply WF_mk; cbn; lia|exact Hc1]. }
      (* both segments are complete *)
      assert (Hall2 : firstn (Z.to_nat (k - zlen src1)) src2 = src2)
        by (apply firstn_all2; unfold zlen in *; lia).
      rewrite Hall2 in Hw2. rewrite app_nil_r in Hw2.
      specialize (Hab2' ltac:(lia)).
      erewrite bind_ok by exact Hw2. mcbn.
      erewrite bind_ok by (apply uadd_ok; cbn; lia). mcbn.
      rewrite dassert_ok by (unfold s2; cbn [size]; lia).
      exists (Ok tt), (mkB (cap s1) (size s1 + wl + zlen src2) (start s1) f2),
        ((drops D ++ clone_evs (next_id w) src1) ++ clone_evs (next_id w + zlen src1) src2),
        (Some (FClone, k - zlen src1 - zlen src2)), D, (abs s1), (src1 ++ src2), [].
      rewrite app_nil_r, zlen_app, Z.add_assoc. cbn [clones]. rewrite !app_nil_r.
      rewrite !created_of_app, !dropped_of_app, !created_of_clone_evs, !created_of_drops,
        !dropped_of_clone_evs, !dropped_of_drops, !app_nil_r. cbn [app].
      rewrite clones_app.
      split; [reflexivity|]. split; [reflexivity|]. split; [reflexivity|].
      split; [|split; [exact HpK|split; [exact I|split; [|split]]]].
      * rewrite Hab1' in Hab2'. unfold s2 in Hab2'. cbn [cap size start] in Hab2'.
        rewrite Hab2', <- app_assoc. reflexivity.
      * right. eexists. split; [reflexivity|lia].
      * apply WF_mk; cbn; lia.
      * exact Hc1.
    + (* the source fills the whole buffer: clear, then clone the tail of xs *)
      destruct (clear_calm s w HW (calm_clone w k Hf)) as (s1 & Hcl & Ha1 & HW1 & Hc1).
      pose proof (abs_nil_size s1 HW1 Ha1) as Hz1.
      erewrite bind_ok by exact Hcl. mcbn.
      erewrite bind_ok by (apply usub_ok; lia). 
      set (src := skipn (Z.to_nat (zlen xs - cap s)) xs).
      assert (Hl : zlen src = cap s) by (unfold src; rewrite zlen_skipn; lia).
      erewrite bind_ok by (apply dassert_ok; lia). mcbn.
      set (s2 := b_start s1 0).
      set (w1 := wev w (drops (abs s)) (next_id w)).
      replace (mkS 0 (cap s1)) with (mkS 0 (zlen src)) by (f_equal; lia).
      assert (Hp : forall t, 0 <= t < zlen src -> 0 + t = phys s2 (size s2 + t)).
      { intros t Ht. unfold phys, s2. cbn [cap size start b_start]. rewrite Hz1, !Z.add_0_l.
        symmetry. apply Z.mod_small. lia. }
      destruct (seg_wusc_fc s2 w1 k 0 src ltac:(unfold s2; cbn [cap b_start]; lia)
                  ltac:(unfold s2; cbn [cap start b_start]; lia)
                  ltac:(unfold s2; cbn [size b_start]; lia) Hf Hk
                  ltac:(unfold s2; cbn [cap size b_start]; lia) Hp)
        as (f2 & Hw2 & Hab2 & Hab2').
      cbv zeta in Hw2. unfold w1 in Hw2, Hab2'. rewrite wf_of_wev, !wev_next in Hw2.
      rewrite wev_next in Hab2'.
      assert (Ha2 : abs s2 = []) by (apply abs_empty; unfold s2; cbn [size b_start]; exact Hz1).
      rewrite Ha2 in Hab2, Hab2'. cbn [app] in Hab2'.
      destruct (k <? zlen src) eqn:Ek.
      { erewrite bind_panic by exact Hw2.
        set (srcs := firstn (Z.to_nat k) src) in *.
        exists (Panic PUser), (b_items s2 f2),
          (drops (abs s) ++ clone_evs (next_id w) srcs ++ drops (clones (next_id w) srcs)),
          None, (abs s), [], [], srcs.
        cbn [app clones]. rewrite (@zlen_nil elem), Z.add_0_r.
        rewrite !created_of_app, !dropped_of_app, created_of_clone_evs, !created_of_drops,
          dropped_of_clone_evs, !dropped_of_drops, ?app_nil_r. cbn [app].
        split; [reflexivity|]. split; [reflexivity|]. split; [reflexivity|].
        split; [exact Hab2|]. split; [reflexivity|]. split; [auto|]. split; [left; reflexivity|].
        split; [apply WF_mk; unfold s2; cbn; lia|exact Hc1]. }
      assert (Hall : firstn (Z.to_nat k) src = src)
        by (apply firstn_all2; unfold zlen in *; lia).
      rewrite Hall in Hw2. rewrite app_nil_r in Hw2. specialize (Hab2' ltac:(lia)).
      erewrite bind_ok by exact Hw2. mcbn.
      exists (Ok tt), (mkB (cap s1) (cap s) 0 f2),
        (drops (abs s) ++ clone_evs (next_id w) src),
        (Some (FClone, k - zlen src)), (abs s), [], src, [].
      rewrite app_nil_r. cbn [app clones].
      rewrite !created_of_app, !dropped_of_app, created_of_clone_evs, !created_of_drops,
        dropped_of_clone_evs, !dropped_of_drops, ?app_nil_r. cbn [app].
      split; [reflexivity|]. split; [reflexivity|]. split; [reflexivity|].
      split; [|split; [reflexivity|split; [exact I|split; [|split]]]].
      * rewrite <- Hab2'. unfold s2. cbn [cap size start b_start]. rewrite Hz1, Hl.
        reflexivity.
      * right. eexists. split; [reflexivity|lia].
      * apply WF_mk; cbn; lia.
      * exact Hc1.
Qed.

(* the Guard destroys the clones of the segment being written; the clones of a
   completed first segment already belong to the buffer; nothing leaks *)
Theorem extend_from_slice_clone_fault xs : fault_safe (OExtendFromSlice xs) FClone.
Proof.
  intros s w k HW Hop Hf Hk Hnd Hlt. cbn in Hop.
  destruct (extend_from_slice_fc xs s w k HW Hop Hf Hk)
    as (r & s' & evs & f' & D & K & src1 & src3 & He & Hcr & Hdr & Hab & HpK & Hr & Hf' & HW' & Hc).
  eapply fs_intro with (srcs := src1 ++ src3) (K := K) (D := D) (V1 := []) (V2 := [])
                       (C1 := clones (next_id w) src1) (C2 := [])
                       (C3 := clones (next_id w + zlen src1) src3).
  - exact Hnd.
  - exact Hlt.
  - cbn [exec]. apply bind_ret_out. exact He.
  - reflexivity.
  - rewrite clones_app. reflexivity.
  - exact Hcr.
  - rewrite app_nil_r. exact Hdr.
  - rewrite app_nil_r. exact Hab.
  - destruct r; reflexivity.
  - exact HpK.
  - reflexivity.
  - destruct r; [exact I|]. tauto.
  - exact Hf'.
  - exact HW'.
  - exact Hc.
Qed.

