(* FaultConserve.v — property C06 in full: CONSERVATION on the unwinding path.

   [fault_safe] (FaultDefs.v) says, for a call that unwinds with the injected
   panic of a kind other than a destructor, only that no argument and no
   created element is leaked. The proofs of the per-operation theorems all
   establish more: everything that was in the buffer, was given or was
   created is afterwards in the buffer or destroyed, exactly once. This file
   states that ([fault_conserving]), re-derives it from the function-level
   lemmas of FaultClone.v / FaultUser.v for every pair (operation, kind) with
   a kind other than FDrop that [fault_run] allows, and lifts it to histories:
   [fault_history_conserving] is [fault_history_no_leak] with [lost = []]. *)

From CB Require Import Spec.
From CBP Require Import MonadLemmas Arith AbsLemmas ListLemmas AbsOps Core Step PushPop
     Slices Truncate RefDefs RefTruncate Views FillExtend CmpHash DrainP Iters
     FaultDefs FaultPrims FaultDropA FaultDropB MoreOps AllOps LedgerSpec FaultFrame
     FaultGeneric FaultHistory FaultUser FaultClone.
From Coq Require Import Permutation ZifyBool.
Ltac Zify.zify_post_hook ::= Z.div_mod_to_equations.

Ltac blem_user ::=
  first [ apply add_mod_ok; mcbn; lia | apply sub_mod_ok; mcbn; lia ].

(* ======================================================================== *)
(* 1. the statement                                                           *)

(* Under the premises of [fault_safe o fk]: if the call unwinds with the
   injected panic, the contents afterwards and the elements destroyed during
   the call (unwinding included) are, as multisets, the contents before, the
   by-value arguments and the elements created during the call. Nothing is
   lost, nothing is duplicated, nothing comes from nowhere. *)
Definition fault_conserving (o : op) (fk : fkind) : Prop :=
  forall s w k,
    WF s -> op_ok s o -> fault w = Some (fk, k) -> 0 <= k ->
    NoDup (ids (abs s ++ given o)) ->
    (forall e, In e (abs s ++ given o) -> eid e < next_id w) ->
    forall r s' w' evs,
      exec o s w = (r, s', w') -> log w' = log w ++ evs ->
      r = Panic PUser ->
      Permutation (abs s' ++ dropped_of evs) (abs s ++ given o ++ created_of evs).

(* ======================================================================== *)
(* 2. the three ways the per-operation proofs end, with a permutation         *)

(* as [fs_intro] of FaultClone.v (same premises, so that the proofs there can
   be replayed word for word) *)
Lemma fs_conserve o s w (r : outcome out) s' evs nid' f' srcs K D V1 V2 C1 C2 C3 :
  NoDup (ids (abs s ++ given o)) ->
  (forall e, In e (abs s ++ given o) -> eid e < next_id w) ->
  exec o s w = (r, s', wf_ w evs nid' f') ->
  nid' = next_id w + zlen srcs ->
  clones (next_id w) srcs = C1 ++ C2 ++ C3 ->
  created_of evs = C1 ++ C2 ++ C3 ->
  dropped_of evs = D ++ C3 ++ V2 ->
  abs s' = K ++ C1 ++ V1 ->
  returned o r = C2 ->
  Permutation (D ++ K) (abs s) -> Permutation (V1 ++ V2) (given o) ->
  match r with Ok _ => True | Panic p => p = PUser /\ f' = None /\ C2 = [] end ->
  (f' = None \/ exists k', f' = Some (FClone, k') /\ 0 <= k') ->
  WF s' -> cap s' = cap s ->
  forall r0 s0' w0' evs0,
    exec o s w = (r0, s0', w0') -> log w0' = log w ++ evs0 ->
    r0 = Panic PUser ->
    Permutation (abs s0' ++ dropped_of evs0) (abs s ++ given o ++ created_of evs0).
Proof.
  intros _ _ He _ _ Hcr Hdr Hab _ HpK HpV Hr _ _ _ r0 s0' w0' evs0 He0 Hl0 Hr0.
  rewrite He in He0. injection He0 as <- <- <-.
  assert (evs0 = evs) by (cbn [wf_ log] in Hl0; apply app_inv_head in Hl0; auto).
  subst evs0 r. destruct Hr as (_ & _ & ->).
  rewrite Hab, Hdr, Hcr. clear - HpK HpV. perm.
Qed.

(* as [safe_fault_safe] of FaultUser.v *)
Lemma safe_conserve o fk :
  (forall r, returned o r = []) ->
  (forall s w, WF s -> op_ok s o -> armed fk w ->
     exists r s' w' evs,
       exec o s w = (r, s', w') /\ wrel fk w w' evs /\ okp r w' /\ WF s' /\ cap s' = cap s /\
       Permutation (abs s' ++ dropped_of evs) (abs s ++ given o ++ created_of evs) /\
       NoDup (ids (created_of evs)) /\
       (forall e, In e (created_of evs) -> next_id w <= eid e < next_id w')) ->
  fault_conserving o fk.
Proof.
  intros _ Hq s w k HW Ho Hf Hk _ _ r0 s0' w0' evs0 He0 Hl0 _.
  assert (Ha : armed fk w) by (right; exists k; split; assumption).
  destruct (Hq s w HW Ho Ha) as (r & s' & w' & evs & E & (L & _) & _ & _ & _ & P & _).
  rewrite E in He0. injection He0 as <- <- <-.
  assert (evs0 = evs) by (rewrite L in Hl0; apply app_inv_head in Hl0; auto).
  subst evs0. exact P.
Qed.

(* as [quiet_fault_safe] of FaultUser.v: user code that only looks *)
Lemma quiet_conserve o fk :
  given o = [] ->
  (forall s, WF s -> op_ok s o -> FaultUser.quiet fk (exec o) s) ->
  fault_conserving o fk.
Proof.
  intros Hg Hq s w k HW Ho Hf Hk _ _ r0 s0' w0' evs0 He0 Hl0 _.
  assert (Ha : armed fk w) by (right; exists k; split; assumption).
  destruct (Hq s HW Ho w Ha) as (r & w' & evs & E & (L & _) & _ & (Sd & Sc) & _).
  rewrite E in He0. injection He0 as <- <- <-.
  assert (evs0 = evs) by (rewrite L in Hl0; apply app_inv_head in Hl0; auto).
  subst evs0. rewrite Hg, Sd, Sc. cbn [app]. rewrite app_nil_r. reflexivity.
Qed.

(* ======================================================================== *)
(* 3. T::clone panics (FClone)                                                *)

Theorem fill_spare_clone_conserve v : fault_conserving (OFillSpare v) FClone.
Proof.
  intros s w k HW _ Hf Hk Hnd Hlt.
  destruct (fill_spare_fc v s w k HW Hf Hk)
    as (r & s' & srcs & V1 & V2 & f' & He & HW' & Hc & Ha & HpV & Hr & Hf').
  eapply fs_conserve with (srcs := srcs) (K := abs s) (D := []) (V1 := V1) (V2 := V2)
                          (C1 := clones (next_id w) srcs) (C2 := []) (C3 := []).
  - exact Hnd.
  - exact Hlt.
  - cbn [exec]. apply bind_ret_out. exact He.
  - reflexivity.
  - rewrite !app_nil_r. reflexivity.
  - rewrite created_of_app, created_of_clone_evs, created_of_drops, !app_nil_r. reflexivity.
  - rewrite dropped_of_app, dropped_of_clone_evs, dropped_of_drops. reflexivity.
  - exact Ha.
  - destruct r; reflexivity.
  - reflexivity.
  - exact HpV.
  - destruct r; [exact I|]. tauto.
  - exact Hf'.
  - exact HW'.
  - exact Hc.
Qed.

Theorem fill_clone_conserve v : fault_conserving (OFill v) FClone.
Proof.
  intros s w k HW _ Hf Hk Hnd Hlt.
  destruct (clear_calm s w HW (calm_clone w k Hf)) as (s1 & Hcl & Ha1 & HW1 & Hc1).
  set (w1 := wev w (drops (abs s)) (next_id w)) in *.
  destruct (fill_spare_fc v s1 w1 k HW1 Hf Hk)
    as (r & s' & srcs & V1 & V2 & f' & He & HW' & Hc & Ha & HpV & Hr & Hf').
  subst w1. rewrite wf_of_wev, wev_next in He. rewrite wev_next in Ha. rewrite Ha1 in Ha.
  eapply fs_conserve with (srcs := srcs) (K := []) (D := abs s) (V1 := V1) (V2 := V2)
                          (C1 := clones (next_id w) srcs) (C2 := []) (C3 := []).
  - exact Hnd.
  - exact Hlt.
  - cbn [exec]. apply bind_ret_out. unfold fill.
    erewrite bind_ok by (apply on_unwind_ok; exact Hcl). exact He.
  - reflexivity.
  - rewrite !app_nil_r. reflexivity.
  - rewrite !created_of_app, created_of_clone_evs, !created_of_drops, !app_nil_r. reflexivity.
  - rewrite !dropped_of_app, dropped_of_clone_evs, !dropped_of_drops. reflexivity.
  - exact Ha.
  - destruct r; reflexivity.
  - rewrite app_nil_r. reflexivity.
  - exact HpV.
  - destruct r; [exact I|]. tauto.
  - exact Hf'.
  - exact HW'.
  - congruence.
Qed.

Theorem to_vec_clone_conserve : fault_conserving OToVec FClone.
Proof.
  intros s w k HW _ Hf Hk Hnd Hlt. pose proof HW as HW'. wf HW'.
  set (w1 := wev w (alloc_evs s) (next_id w)).
  assert (H1 : (if 0 <? size s then emit EvAlloc else ret tt) s w = (Ok tt, s, w1)).
  { unfold w1, alloc_evs. destruct (0 <? size s); [apply emit_eq|]. rewrite wev_nil. reflexivity. }
  destruct (CmpHash.iter_new_ok s w1 HW) as (it & Hi & Hm).
  pose proof (to_vec_loop_fc s (abs s) (S (Z.to_nat (size s))) it [] s w1 k Hf Hk Hm
                ltac:(rewrite abs_length; lia)) as Hl.
  rewrite abs_zlen in Hl by lia. unfold w1 in Hl. rewrite !wf_of_wev, !wev_next in Hl.
  cbn [app] in Hl.
  assert (Hpre : forall (B : Type) (kont : list elem -> M B),
            bind to_vec kont s w =
            bind (to_vec_loop (S (Z.to_nat (size s))) s it [])
                 (fun v => dassert (zlen v =? size s);; kont v) s w1).
  { intros B kont. unfold to_vec. rewrite bind_assoc. mcbn.
    rewrite bind_assoc. erewrite bind_ok by exact H1.
    rewrite bind_assoc. erewrite bind_ok by exact Hi.
    unfold bind.
    destruct (to_vec_loop (S (Z.to_nat (size s))) s it [] s w1) as [[[v|p] s2] w2];
      [|reflexivity].
    destruct (dassert (zlen v =? size s) s2 w2) as [[[u|p] s3] w3]; reflexivity. }
  destruct (k <? size s) eqn:Ek.
  - set (srcs := firstn (Z.to_nat k) (abs s)) in *.
    eapply fs_conserve with (srcs := srcs) (K := abs s) (D := []) (V1 := []) (V2 := [])
                            (C1 := []) (C2 := []) (C3 := clones (next_id w) srcs).
    + exact Hnd.
    + exact Hlt.
    + cbn [exec]. rewrite Hpre. erewrite bind_panic by exact Hl. reflexivity.
    + reflexivity.
    + reflexivity.
    + rewrite !created_of_app, created_of_alloc, created_of_clone_evs, created_of_drops.
      rewrite app_nil_r. reflexivity.
    + rewrite !dropped_of_app, dropped_of_alloc, dropped_of_clone_evs, dropped_of_drops.
      rewrite app_nil_r. reflexivity.
    + rewrite !app_nil_r. reflexivity.
    + reflexivity.
    + reflexivity.
    + reflexivity.
    + cbv iota. auto.
    + left. reflexivity.
    + exact HW.
    + reflexivity.
  - eapply fs_conserve with (srcs := abs s) (K := abs s) (D := []) (V1 := []) (V2 := [])
                            (C1 := []) (C2 := clones (next_id w) (abs s)) (C3 := []).
    + exact Hnd.
    + exact Hlt.
    + cbn [exec]. rewrite Hpre. erewrite bind_ok by exact Hl.
      erewrite bind_ok by (apply dassert_ok; rewrite clones_zlen, abs_zlen by lia; lia).
      reflexivity.
    + rewrite abs_zlen by lia. reflexivity.
    + rewrite app_nil_r. reflexivity.
    + rewrite !created_of_app, created_of_alloc, created_of_clone_evs, app_nil_r. reflexivity.
    + rewrite !dropped_of_app, dropped_of_alloc, dropped_of_clone_evs. reflexivity.
    + rewrite !app_nil_r. reflexivity.
    + reflexivity.
    + reflexivity.
    + reflexivity.
    + exact I.
    + right. eexists. split; [reflexivity|lia].
    + exact HW.
    + reflexivity.
Qed.

Theorem clone_keep_clone_conserve : fault_conserving OCloneKeepClone FClone.
Proof.
  intros s w k HW _ Hf Hk Hnd Hlt. pose proof HW as HW'. wf HW'.
  destruct (clone_buf_fc s w k HW Hf Hk) as (c & Hcb & Hc).
  destruct (k <? size s) eqn:Ek.
  - set (srcs := firstn (Z.to_nat k) (abs s)) in *.
    eapply fs_conserve with (srcs := srcs) (K := abs s) (D := []) (V1 := []) (V2 := [])
                            (C1 := []) (C2 := []) (C3 := clones (next_id w) srcs).
    + exact Hnd.
    + exact Hlt.
    + cbn [exec]. erewrite bind_panic by exact Hcb. reflexivity.
    + reflexivity.
    + reflexivity.
    + rewrite !created_of_app, created_of_clone_evs, created_of_drops, app_nil_r. reflexivity.
    + rewrite !dropped_of_app, dropped_of_clone_evs, dropped_of_drops, app_nil_r. reflexivity.
    + rewrite !app_nil_r. reflexivity.
    + reflexivity.
    + reflexivity.
    + reflexivity.
    + cbv iota. auto.
    + left. reflexivity.
    + exact HW.
    + reflexivity.
  - destruct (Hc ltac:(lia)) as (Hac & HWc & Hcc).
    eapply fs_conserve with (srcs := abs s) (K := []) (D := abs s) (V1 := []) (V2 := [])
                            (C1 := clones (next_id w) (abs s)) (C2 := []) (C3 := []).
    + exact Hnd.
    + exact Hlt.
    + cbn [exec]. erewrite bind_ok by exact Hcb.
      erewrite bind_ok by (apply replace_buf_calm; [exact HW|apply calm_wf_clone]).
      rewrite wev_of_wf_, wf_next. reflexivity.
    + rewrite abs_zlen by lia. reflexivity.
    + rewrite !app_nil_r. reflexivity.
    + rewrite !created_of_app, created_of_clone_evs, created_of_drops, !app_nil_r. reflexivity.
    + rewrite !dropped_of_app, dropped_of_clone_evs, dropped_of_drops, !app_nil_r. reflexivity.
    + rewrite Hac, app_nil_r. reflexivity.
    + reflexivity.
    + rewrite app_nil_r. reflexivity.
    + reflexivity.
    + exact I.
    + right. eexists. split; [reflexivity|lia].
    + exact HWc.
    + exact Hcc.
Qed.

Theorem clone_drop_clone_conserve : fault_conserving OCloneDropClone FClone.
Proof.
  intros s w k HW _ Hf Hk Hnd Hlt. pose proof HW as HW'. wf HW'.
  destruct (clone_buf_fc s w k HW Hf Hk) as (c & Hcb & Hc).
  destruct (k <? size s) eqn:Ek.
  - set (srcs := firstn (Z.to_nat k) (abs s)) in *.
    eapply fs_conserve with (srcs := srcs) (K := abs s) (D := []) (V1 := []) (V2 := [])
                            (C1 := []) (C2 := []) (C3 := clones (next_id w) srcs).
    + exact Hnd.
    + exact Hlt.
    + cbn [exec]. erewrite bind_panic by exact Hcb. reflexivity.
    + reflexivity.
    + reflexivity.
    + rewrite !created_of_app, created_of_clone_evs, created_of_drops, app_nil_r. reflexivity.
    + rewrite !dropped_of_app, dropped_of_clone_evs, dropped_of_drops, app_nil_r. reflexivity.
    + rewrite !app_nil_r. reflexivity.
    + reflexivity.
    + reflexivity.
    + reflexivity.
    + cbv iota. auto.
    + left. reflexivity.
    + exact HW.
    + reflexivity.
  - destruct (Hc ltac:(lia)) as (Hac & HWc & Hcc).
    set (w1 := wf_ w (clone_evs (next_id w) (abs s)) (next_id w + size s)
                   (Some (FClone, k - size s))) in *.
    assert (Hin : (s0 <- get;; '(a, b) <- as_slices;;
                   ret (sl_elems (items s0) a ++ sl_elems (items s0) b)) c w1
                  = (Ok (abs c), c, w1)).
    { mcbn. erewrite bind_ok by (apply as_slices_ok; exact HWc).
      pose proof (as_slices_val_abs c HWc) as H.
      destruct (as_slices_val c) as [a b]. cbn [fst snd] in H. rewrite H. reflexivity. }
    destruct (drop_buf_calm c w1 HWc I) as (c' & Hd & _).
    eapply fs_conserve with (srcs := abs s) (K := abs s) (D := []) (V1 := []) (V2 := [])
                            (C1 := []) (C2 := []) (C3 := clones (next_id w) (abs s)).
    + exact Hnd.
    + exact Hlt.
    + cbn [exec]. erewrite bind_ok by exact Hcb.
      erewrite bind_ok by (apply with_buf_ok; exact Hin).
      cbv iota beta. erewrite bind_ok by (apply with_buf_ok; exact Hd).
      unfold w1. rewrite wev_of_wf_, wf_next, Hac. reflexivity.
    + rewrite abs_zlen by lia. reflexivity.
    + reflexivity.
    + rewrite !created_of_app, created_of_clone_evs, created_of_drops, !app_nil_r. reflexivity.
    + rewrite !dropped_of_app, dropped_of_clone_evs, dropped_of_drops, !app_nil_r. reflexivity.
    + rewrite !app_nil_r. reflexivity.
    + reflexivity.
    + reflexivity.
    + reflexivity.
    + exact I.
    + right. eexists. split; [reflexivity|lia].
    + exact HW.
    + reflexivity.
Qed.

Theorem clone_from_clone_conserve other : fault_conserving (OCloneFrom other) FClone.
Proof.
  intros s w k HW Hop Hf Hk Hnd Hlt. cbn in Hop. destruct Hop as [HWo Hco].
  pose proof HWo as HWo'. wf HWo'. pose proof HW as HW'. wf HW'.
  destruct (clear_calm s w HW (calm_clone w k Hf)) as (s1 & Hcl & Ha1 & HW1 & Hc1).
  pose proof (abs_nil_size s1 HW1 Ha1) as Hz1.
  set (w1 := wev w (drops (abs s)) (next_id w)) in *.
  destruct (CmpHash.iter_new_ok other w1 HWo) as (it & Hi & Hm).
  destruct (cloned_loop_fc other (abs other) (S (Z.to_nat (size other))) it s1 w1 k
              Hf Hk Hm ltac:(rewrite abs_length; lia) HW1
              ltac:(rewrite abs_zlen by lia; lia))
    as (s2 & Hl & Ha2 & HW2 & Hc2).
  rewrite abs_zlen in Hl by lia. unfold w1 in Hl, Ha2.
  rewrite wf_of_wev, wev_next in Hl. rewrite wev_next, Ha1 in Ha2. cbn [app] in Ha2.
  set (srcs := firstn (Z.to_nat k) (abs other)) in *.
  assert (He : clone_from other s w =
               (if k <? size other then Panic PUser else Ok tt, s2,
                wf_ w (drops (abs s) ++ clone_evs (next_id w) srcs) (next_id w + zlen srcs)
                    (if k <? size other then None else Some (FClone, k - size other)))).
  { unfold clone_from. erewrite bind_ok by exact Hcl.
    erewrite bind_ok by (apply with_buf_ok; exact Hi). cbv iota beta. exact Hl. }
  eapply fs_conserve with (srcs := srcs) (K := []) (D := abs s) (V1 := []) (V2 := [])
                          (C1 := clones (next_id w) srcs) (C2 := []) (C3 := []).
  - exact Hnd.
  - exact Hlt.
  - cbn [exec]. apply bind_ret_out. exact He.
  - reflexivity.
  - rewrite !app_nil_r. reflexivity.
  - rewrite !created_of_app, created_of_clone_evs, created_of_drops, !app_nil_r. reflexivity.
  - rewrite !dropped_of_app, dropped_of_clone_evs, dropped_of_drops, !app_nil_r. reflexivity.
  - rewrite Ha2, app_nil_r. reflexivity.
  - destruct (k <? size other); reflexivity.
  - rewrite app_nil_r. reflexivity.
  - reflexivity.
  - destruct (k <? size other); cbv iota; auto.
  - destruct (k <? size other) eqn:Ek; [left; reflexivity|].
    right. eexists. split; [reflexivity|lia].
  - exact HW2.
  - congruence.
Qed.

Theorem extend_from_slice_clone_conserve xs : fault_conserving (OExtendFromSlice xs) FClone.
Proof.
  intros s w k HW Hop Hf Hk Hnd Hlt. cbn in Hop.
  destruct (extend_from_slice_fc xs s w k HW Hop Hf Hk)
    as (r & s' & evs & f' & D & K & src1 & src3 & He & Hcr & Hdr & Hab & HpK & Hr & Hf' & HW' & Hc).
  eapply fs_conserve with (srcs := src1 ++ src3) (K := K) (D := D) (V1 := []) (V2 := [])
                          (C1 := clones (next_id w) src1) (C2 := [])
                          (C3 := clones (next_id w + zlen src1) src3).
  - exact Hnd.
  - exact Hlt.
  - cbn [exec]. apply bind_ret_out. exact He.
  - reflexivity.
  - rewrite clones_app. reflexivity.
  - exact Hcr.
  - rewrite app_nil_r. exact Hdr.
  - rewrite app_nil_r. exact Hab.
  - destruct r; reflexivity.
  - exact HpK.
  - reflexivity.
  - destruct r; [exact I|]. tauto.
  - exact Hf'.
  - exact HW'.
  - exact Hc.
Qed.

(* ======================================================================== *)
(* 4. the closure panics (FCall), the user iterator panics (FNext)            *)

Theorem fill_spare_with_call_conserve : fault_conserving OFillSpareWith FCall.
Proof.
  apply safe_conserve; [intros r; reflexivity|].
  intros s w HW _ Ha.
  destruct (fill_spare_with_armed s w HW Ha) as (r & s' & w' & j & E & R & O & N & Hab & HW' & Hc).
  exists (out_unit r), s', w', (map EvCall (calls (next_id w) j)).
  split; [cbn [exec]; apply exec_unit; exact E|]. split; [exact R|].
  split; [apply okp_unit; exact O|]. split; [exact HW'|]. split; [exact Hc|].
  rewrite FaultUser.dropped_of_calls, FaultUser.created_of_calls, Hab. cbn [given app].
  rewrite app_nil_r.
  split; [apply Permutation_refl|]. split; [apply calls_NoDup|].
  intros e He. pose proof (calls_ids _ _ _ He). lia.
Qed.

Theorem fill_with_call_conserve : fault_conserving OFillWith FCall.
Proof.
  apply safe_conserve; [intros r; reflexivity|].
  intros s w HW _ Ha.
  assert (Hnd : nodrop w) by (apply (armed_nodrop FCall); [discriminate|exact Ha]).
  destruct (clear_nd s w HW Hnd) as (s1 & Hcl & Ha1 & HW1 & Hc1).
  set (w1 := wev w (drops (abs s)) (next_id w)) in *.
  assert (Ha' : armed FCall w1) by exact Ha.
  destruct (fill_spare_with_armed s1 w1 HW1 Ha')
    as (r & s' & w' & j & E & R & O & N & Hab & HW' & Hc).
  change (next_id w1) with (next_id w) in *.
  exists (out_unit r), s', w', (drops (abs s) ++ map EvCall (calls (next_id w) j)).
  split.
  { cbn [exec]. apply exec_unit. unfold fill_with. erewrite bind_ok by exact Hcl. exact E. }
  split.
  { eapply wrel_trans; [|exact R]. apply wrel_wev; [exact Ha|lia]. }
  split; [apply okp_unit; exact O|]. split; [exact HW'|]. split; [congruence|].
  rewrite dropped_of_app, created_of_app, dropped_of_drops, created_of_drops.
  rewrite FaultUser.dropped_of_calls, FaultUser.created_of_calls, Hab, Ha1. cbn [given app].
  rewrite app_nil_r.
  split; [apply Permutation_app_comm|]. split; [apply calls_NoDup|].
  intros e He. pose proof (calls_ids _ _ _ He). lia.
Qed.

Theorem extend_next_conserve xs : fault_conserving (OExtend xs) FNext.
Proof.
  apply safe_conserve; [intros r; reflexivity|].
  intros s w HW _ Ha.
  destruct (extend_loop_armed xs s w HW Ha) as (r & s' & w' & evs & E & R & O & HW' & Hc & Cr & P).
  exists (out_unit r), s', w', evs.
  split; [cbn [exec]; apply exec_unit; exact E|]. split; [exact R|].
  split; [apply okp_unit; exact O|]. split; [exact HW'|]. split; [exact Hc|].
  rewrite Cr. cbn [given]. rewrite app_nil_r.
  split; [exact P|]. split; [constructor|]. intros e [].
Qed.

Theorem from_iter_next_conserve xs : fault_conserving (OFromIter xs) FNext.
Proof.
  apply safe_conserve; [intros r; reflexivity|].
  intros s w HW _ Ha. pose proof HW as HWs. wf HWs.
  set (b0 := new_buf (cap s) junk0).
  assert (HW0 : WF b0) by (apply WF_new; lia).
  destruct (extend_loop_armed xs b0 w HW0 Ha)
    as (r & b1 & w1 & evs & E & R & O & HW1 & Hc1 & Cr & P).
  rewrite (abs_empty b0) in P by reflexivity. cbn [app] in P.
  pose proof (wrel_armed _ _ _ _ R) as Ha1.
  assert (Hnd1 : nodrop w1) by (apply (armed_nodrop FNext); [discriminate|exact Ha1]).
  cbn [exec]. mcbn. unfold from_iter. fold b0.
  destruct r as [[]|p].
  - exists (Ok OutUnit), b1, (wev w1 (drops (abs s)) (next_id w1)), (evs ++ drops (abs s)).
    split.
    { rewrite bind_assoc.
      erewrite bind_ok by (apply with_buf_ok; apply on_unwind_ok; exact E).
      mcbn. erewrite bind_ok by (apply replace_buf_nd; [exact HW|exact Hnd1]).
      reflexivity. }
    split; [eapply wrel_trans; [exact R|]; apply wrel_wev; [exact Ha1|lia]|].
    split; [exact I|]. split; [exact HW1|]. split; [exact Hc1|].
    rewrite dropped_of_app, created_of_app, dropped_of_drops, created_of_drops, Cr.
    cbn [given app]. rewrite app_nil_r.
    split.
    { rewrite app_assoc. apply Permutation_trans with (l' := xs ++ abs s).
      - apply Permutation_app_tail. exact P.
      - apply Permutation_app_comm. }
    split; [constructor|]. intros e [].
  - destruct O as [-> F].
    destruct (clear_nd b1 w1 HW1 Hnd1) as (b2 & Hcl & _).
    exists (Panic PUser), s, (wev w1 (drops (abs b1)) (next_id w1)), (evs ++ drops (abs b1)).
    split.
    { rewrite bind_assoc.
      erewrite bind_panic; [reflexivity|].
      eapply with_buf_panic. eapply on_unwind_panic; [exact E|exact Hcl]. }
    split; [eapply wrel_trans; [exact R|]; apply wrel_wev; [exact Ha1|lia]|].
    split; [split; [reflexivity|exact F]|]. split; [exact HW|]. split; [reflexivity|].
    rewrite dropped_of_app, created_of_app, dropped_of_drops, created_of_drops, Cr.
    cbn [given app]. rewrite app_nil_r.
    split.
    { apply Permutation_app_head.
      apply Permutation_trans with (l' := abs b1 ++ dropped_of evs); [apply Permutation_app_comm|exact P]. }
    split; [constructor|]. intros e [].
Qed.

(* ======================================================================== *)
(* 5. user code that only looks (FEq, FCmp, FHash, FFmt)                      *)

Theorem eq_conserve other : fault_conserving (OEq other) FEq.
Proof.
  apply quiet_conserve; [reflexivity|].
  intros s HW Ho. cbn [op_ok] in Ho. cbn [exec].
  apply quiet_map. apply buf_eq_quiet; assumption.
Qed.

Theorem eq_slice_conserve form xs : fault_conserving (OEqSlice form xs) FEq.
Proof.
  apply quiet_conserve; [reflexivity|].
  intros s HW Ho. cbn [exec].
  assert (Hform : eq_form form = buf_eq_slice) by (destruct form; reflexivity).
  rewrite Hform. apply quiet_map. apply buf_eq_slice_quiet. exact HW.
Qed.

Theorem partial_cmp_conserve other : fault_conserving (OPartialCmp other) FCmp.
Proof.
  apply quiet_conserve; [reflexivity|].
  intros s HW Ho. cbn [op_ok] in Ho. cbn [exec].
  apply quiet_map. apply buf_partial_cmp_quiet; assumption.
Qed.

Theorem cmp_conserve other : fault_conserving (OCmp other) FCmp.
Proof.
  apply quiet_conserve; [reflexivity|].
  intros s HW Ho. cbn [op_ok] in Ho. destruct Ho as [Ho _]. cbn [exec].
  apply quiet_map. unfold buf_cmp. apply buf_partial_cmp_quiet; assumption.
Qed.

Theorem hash_conserve : fault_conserving OHash FHash.
Proof.
  apply quiet_conserve; [reflexivity|].
  intros s HW _. cbn [exec].
  change (FaultUser.quiet FHash (x <- buf_hash;; ret ((fun _ : unit => OutUnit) x)) s).
  apply quiet_map. unfold buf_hash.
  apply quiet_bind_det with (a := s); [reflexivity|].
  apply quiet_bind; [apply quiet_emit; split; reflexivity|]. intros _.
  destruct (iter_new_det s HW) as (it & Hi & Hl).
  apply quiet_bind_det with (a := it); [exact Hi|].
  apply iter_for_each_quiet; [|lia].
  intros e. apply quiet_emit_call. split; reflexivity.
Qed.

Theorem debug_conserve : fault_conserving ODebug FFmt.
Proof.
  apply quiet_conserve; [reflexivity|].
  intros s HW _. cbn [exec].
  change (FaultUser.quiet FFmt (x <- buf_fmt;; ret ((fun _ : unit => OutUnit) x)) s).
  apply quiet_map. unfold buf_fmt.
  apply quiet_bind_det with (a := s); [reflexivity|].
  destruct (iter_new_det s HW) as (it & Hi & Hl).
  apply quiet_bind_det with (a := it); [exact Hi|].
  apply iter_for_each_quiet; [|lia].
  intros e. apply quiet_emit_call. split; reflexivity.
Qed.

(* ======================================================================== *)
(* 6. collected                                                               *)

(* the pairs (operation, kind other than FDrop) with a conservation theorem *)
Definition conserve_pair (o : op) (fk : fkind) : bool :=
  match fk, o with
  | FClone, (OFill _ | OFillSpare _ | OExtendFromSlice _
            | OCloneDropClone | OCloneKeepClone | OCloneFrom _ | OToVec) => true
  | FCall, (OFillWith | OFillSpareWith) => true
  | FNext, (OExtend _ | OFromIter _) => true
  | FEq, (OEq _ | OEqSlice _ _) => true
  | FCmp, (OPartialCmp _ | OCmp _) => true
  | FHash, OHash => true
  | FFmt, ODebug => true
  | _, _ => false
  end.

Theorem conserve_collect o fk : conserve_pair o fk = true -> fault_conserving o fk.
Proof.
  intros H. destruct fk; destruct o; cbn in H; try discriminate H.
  - apply extend_from_slice_clone_conserve.
  - apply fill_clone_conserve.
  - apply fill_spare_clone_conserve.
  - exact to_vec_clone_conserve.
  - exact clone_drop_clone_conserve.
  - exact clone_keep_clone_conserve.
  - apply clone_from_clone_conserve.
  - exact fill_with_call_conserve.
  - exact fill_spare_with_call_conserve.
  - apply extend_next_conserve.
  - apply from_iter_next_conserve.
  - apply eq_conserve.
  - apply eq_slice_conserve.
  - apply partial_cmp_conserve.
  - apply cmp_conserve.
  - exact hash_conserve.
  - exact debug_conserve.
Qed.

(* these are ALL the pairs a step of [fault_run] can meet when the plan's kind
   is not FDrop: every ledger operation that can reach user code of such a
   kind and has a per-operation theorem ([covered]) *)
Lemma conserve_pair_all o fk :
  ledger_op o = true -> may_call o fk = true -> covered o fk = true -> fk <> FDrop ->
  conserve_pair o fk = true.
Proof.
  intros Hl Hm Hc Hne.
  destruct fk; try congruence; destruct o; cbn in Hl, Hm, Hc |- *;
    try discriminate; reflexivity.
Qed.

(* ======================================================================== *)
(* 7. the Panic path of one step, with conservation                           *)

(* [step_safe] (f), strengthened: a call of a ledger operation that unwinds
   with the injected panic of a kind other than FDrop conserves everything *)
Theorem step_conserving o s w r s' w' evs fk k :
  ledger_op o = true -> op_ok s o -> WF s ->
  fault w = Some (fk, k) -> 0 <= k -> fk <> FDrop -> covered_in o w ->
  NoDup (ids (abs s ++ args o)) ->
  (forall e, In e (abs s ++ args o) -> eid e < next_id w) ->
  exec o s w = (r, s', w') -> log w' = log w ++ evs ->
  r = Panic PUser ->
  Permutation (abs s' ++ dropped_of evs) (abs s ++ args o ++ created_of evs).
Proof.
  intros Hop Hok HW Hf Hk Hne Hcov Hnd Hid He Hlog ->.
  (* the plan was spent in this call: a documented panic leaves the world as it was *)
  assert (Hf' : fault w' = None).
  { assert (Hk0 : plan_nonneg (fault w)) by (rewrite Hf; exact Hk).
    destruct (step_safe o s w _ s' w' Hop Hok HW Hk0 Hcov Hnd Hid He)
      as (_ & _ & _ & _ & Ha & _).
    destruct Ha as [(v & E)|[(_ & _ & E)|(p & E & Hdoc & _)]];
      [discriminate E|exact E|].
    injection E as <-. destruct Hdoc; discriminate. }
  assert (Hmc : may_call o fk = true).
  { destruct (may_call o fk) eqn:E; [reflexivity|exfalso].
    rewrite (fault_frame o fk s w k E Hf) in He.
    destruct (exec o s (w_fault w None)) as [[r1 s1] w1]. injection He as _ _ <-.
    discriminate Hf'. }
  pose proof (Hcov fk k Hf Hmc) as Hc.
  rewrite <- (given_args o fk Hmc Hc) in *.
  exact (conserve_collect o fk (conserve_pair_all o fk Hop Hmc Hc Hne)
           s w k HW Hok Hf Hk Hnd Hid _ _ _ _ He Hlog eq_refl).
Qed.

(* ======================================================================== *)
(* 8. histories                                                               *)

Section FaultConserveHistory.

Variables (s0 : cbuf) (w0 : world).
Hypothesis WF0 : WF s0.
Hypothesis plan0 : plan_nonneg (fault w0).
Hypothesis distinct0 : NoDup (ids (abs s0)).
Hypothesis old0 : forall e, In e (abs s0) -> eid e < next_id w0.

(* C06 along histories, in full. If the plan's kind is not FDrop, then after
   every history ([fault_run] of FaultHistory.v, unchanged), whether or not a
   call unwound with the injected panic, everything that ever entered (the
   initial contents, every by-value argument, everything created) is in
   exactly one place: in the buffer, with the caller, or destroyed. Nothing
   is lost: this is [fault_history_no_leak] with [lost = []]. *)
Theorem fault_history_conserving ops rs s w L fk k :
  fault_run s0 w0 ops rs s w L -> fault w0 = Some (fk, k) -> fk <> FDrop ->
  Permutation (abs s ++ fl_caller L ++ fl_destroyed L) (fl_entered L).
Proof.
  intros Hrun F0 Hne.
  induction Hrun as [|ops rs s w L o r s' w' evs Hr IH Hop Hok Hcv Hfr He Hlog].
  - cbn [fl_caller fl_destroyed fl_entered app]. rewrite app_nil_r. reflexivity.
  - destruct (fault_inv_run s0 w0 WF0 plan0 distinct0 old0 _ _ _ _ _ Hr)
      as (_ & HW & _ & Hn0 & Hp0 & Hnd & Hlt & _).
    destruct Hfr as [And Afresh].
    set (A := abs s) in *. set (C := fl_caller L) in *. set (D := fl_destroyed L) in *.
    set (E := fl_entered L) in *.
    assert (HndP : NoDup (ids (A ++ C ++ D)))
      by exact (NoDup_ids_perm _ _ (Permutation_sym IH) Hnd).
    assert (HAE : incl A E).
    { intros e Hi. apply (Permutation_in _ IH). apply in_or_app. auto. }
    assert (Hnd1 : NoDup (ids (A ++ args o))).
    { rewrite ids_app'. apply LedgerSpec.NoDup_app_intro.
      - rewrite ids_app' in HndP. exact (LedgerSpec.NoDup_app_l _ _ HndP).
      - exact And.
      - intros x Hx Hx'. apply in_ids' in Hx' as (e & Hi & <-). apply Afresh in Hi as [_ Hi].
        apply Hi. apply in_ids' in Hx as (a & Ha & Hae). apply in_ids'. exists a. auto. }
    assert (Hid1 : forall e, In e (A ++ args o) -> eid e < next_id w).
    { intros e Hi. apply in_app_or in Hi as [Hi|Hi]; [apply Hlt, HAE, Hi|].
      apply Afresh in Hi. lia. }
    assert (Hk0 : plan_nonneg (fault w)) by exact (plan_nonneg_step _ _ Hp0 plan0).
    destruct (step_safe o s w r s' w' Hop Hok HW Hk0 Hcv Hnd1 Hid1 He)
      as (evs' & Hlog' & _ & _ & Ha & _ & _ & _ & _ & _ & _ & _ & _ & Hg & _).
    assert (evs' = evs) by (rewrite Hlog in Hlog'; apply app_inv_head in Hlog'; auto).
    subst evs'. fold A in Hg.
    destruct Ha as [(v & ->)|[(-> & Hfw & Hfw')|(p & -> & Hdoc & -> & ->)]].
    + (* the call returns *)
      specialize (Hg v eq_refl).
      unfold fledger_step. cbn [fl_caller fl_destroyed fl_entered]. fold A C D E.
      clear - IH Hg. perm.
    + (* the call unwinds with the injected panic *)
      assert (Hkind : exists k', fault w = Some (fk, k')).
      { rewrite F0 in Hp0. cbn in Hp0. destruct Hp0 as [Hp0|(k' & Hp0 & _)]; [contradiction|eauto]. }
      destruct Hkind as (k' & Hfk).
      assert (Hk' : 0 <= k') by (rewrite Hfk in Hk0; exact Hk0).
      pose proof (step_conserving o s w _ s' w' evs fk k' Hop Hok HW Hfk Hk' Hne Hcv
                    Hnd1 Hid1 He Hlog eq_refl) as P.
      fold A in P.
      unfold fledger_step. cbn [is_documented fl_caller fl_destroyed fl_entered]. fold A C D E.
      clear - IH P. perm.
    + (* a documented panic: nothing happened *)
      assert (Hdp : is_documented p = true) by (destruct Hdoc as [->| ->]; reflexivity).
      unfold fledger_step. rewrite Hdp. exact IH.
Qed.

(* in the vocabulary of [fault_history_no_leak] *)
Corollary fault_history_nothing_lost ops rs s w L fk k :
  fault_run s0 w0 ops rs s w L -> fault w0 = Some (fk, k) -> fk <> FDrop ->
  exists lost,
    Permutation (abs s ++ fl_caller L ++ fl_destroyed L ++ lost) (fl_entered L) /\ lost = [].
Proof.
  intros Hr F0 Hne. exists []. rewrite app_nil_r. split; [|reflexivity].
  exact (fault_history_conserving _ _ _ _ _ _ _ Hr F0 Hne).
Qed.

End FaultConserveHistory.

Check fault_history_conserving :
  forall (s0 : cbuf) (w0 : world),
  WF s0 -> plan_nonneg (fault w0) -> NoDup (ids (abs s0)) ->
  (forall e, In e (abs s0) -> eid e < next_id w0) ->
  forall ops rs s w L fk k,
  fault_run s0 w0 ops rs s w L -> fault w0 = Some (fk, k) -> fk <> FDrop ->
  Permutation (abs s ++ fl_caller L ++ fl_destroyed L) (fl_entered L).

Print Assumptions conserve_collect.
Print Assumptions step_conserving.
Print Assumptions fault_history_conserving.
