(* FaultDebugOps.v — the six pairs (operation, kind) that [covered] of
   FaultHistory.v leaves out: the Debug impls of the iterators under a
   panicking fmt (FFmt) and, for the two that own elements (Drain, IntoIter),
   under a panicking destructor (FDrop).

   1. fmt in any world: explicit when the plan is not about fmt, [quiet] when
      it is;
   2. ODrainDebug, OIntoIterDebug under FDrop and FFmt: [fault_safe(_when)];
      a fmt panic unwinds through the destructor of the Drain / IntoIter,
      which cannot panic again (the plan is one-shot): never PAbort;
   3. OIterDebug, OIterMutDebug under FFmt: [fault_safe] is FALSE when the
      script writes ([iter_debug_fmt_writes_false]: [given] does not list the
      written values); true for scripts without writes, and true in the
      vocabulary of the ledger ([args], [out_of]) for all scripts;
   4. [covered'], [fault_collect_all]. *)

From CB Require Import Spec.
From CBP Require Import MonadLemmas Arith AbsLemmas ListLemmas AbsOps Core Step PushPop
     Slices Truncate RefDefs RefTruncate Views FillExtend CmpHash DrainP Iters
     FaultDefs FaultPrims FaultDropA FaultDropB FaultClone MoreOps AllOps LedgerSpec FaultFrame
     FaultGeneric FaultUser FaultHistory RemoveSwap.
From Coq Require Import Permutation ZifyBool.
Ltac Zify.zify_post_hook ::= Z.div_mod_to_equations.

Ltac blem_user ::=
  first [ apply add_mod_ok; mcbn; lia | apply sub_mod_ok; mcbn; lia ].

(* ======================================================================== *)
(* 0. assembling [fault_safe] when elements are lost with the unwinding caller *)

(* as [fault_safe_assemble] of FaultPrims.v, but the no-leak clause is a
   premise of its own: what is lost ([X]) need not be empty after a panic of a
   kind other than FDrop, as long as it is neither given nor created *)
Lemma fault_safe_assemble_leak (o : op) (fk : fkind) s w r s' w' evs X :
  NoDup (ids (abs s ++ given o)) ->
  (forall e, In e (abs s ++ given o) -> eid e < next_id w) ->
  exec o s w = (r, s', w') ->
  log w' = log w ++ evs -> dbg w' = dbg w -> next_id w <= next_id w' ->
  (match r with Ok _ => True | Panic p => p = PUser /\ fault w' = None end) ->
  (fault w' = None \/ exists k', fault w' = Some (fk, k') /\ 0 <= k') ->
  WF s' -> cap s' = cap s ->
  NoDup (ids (created_of evs)) ->
  (forall e, In e (created_of evs) -> next_id w <= eid e < next_id w') ->
  Permutation (abs s' ++ returned o r ++ dropped_of evs ++ X)
              (abs s ++ given o ++ created_of evs) ->
  (fk <> FDrop ->
   match r with
   | Ok _ => True
   | Panic _ => incl (given o ++ created_of evs) (abs s' ++ dropped_of evs)
   end) ->
  exists r s' w' evs,
    exec o s w = (r, s', w') /\
    log w' = log w ++ evs /\ dbg w' = dbg w /\ next_id w <= next_id w' /\
    (match r with Ok _ => True | Panic p => p = PUser /\ fault w' = None end) /\
    (fault w' = None \/ exists k', fault w' = Some (fk, k') /\ 0 <= k') /\
    WF s' /\ cap s' = cap s /\
    NoDup (ids (abs s' ++ returned o r ++ dropped_of evs)) /\
    incl (abs s' ++ returned o r ++ dropped_of evs) (abs s ++ given o ++ created_of evs) /\
    (forall e, In e (abs s' ++ created_of evs) -> eid e < next_id w') /\
    (fk <> FDrop ->
     match r with
     | Ok _ => True
     | Panic _ => incl (given o ++ created_of evs) (abs s' ++ dropped_of evs)
     end).
Proof.
  intros Hnd Hid He Hlog Hdbg Hnid Hr Hfault HW Hcap Hcnd Hcid Hperm Hleak.
  exists r, s', w', evs.
  assert (Hall : NoDup (ids (abs s ++ given o ++ created_of evs))).
  { rewrite app_assoc. unfold ids. rewrite map_app. apply FaultPrims.NoDup_app_intro.
    - exact Hnd.
    - exact Hcnd.
    - intros x H1 H2. apply in_map_iff in H1. destruct H1 as (e1 & <- & H1).
      apply in_map_iff in H2. destruct H2 as (e2 & E & H2).
      specialize (Hid e1 H1). specialize (Hcid e2 H2). lia. }
  assert (Hin : forall e, In e (abs s' ++ returned o r ++ dropped_of evs) ->
                          In e (abs s ++ given o ++ created_of evs)).
  { intros e H. eapply Permutation_in; [exact Hperm|].
    rewrite !app_assoc. apply in_or_app. left. rewrite <- !app_assoc. exact H. }
  repeat (split; [assumption|]).
  split; [|split; [|split]].
  - apply (Permutation_NoDup (Permutation_map eid (Permutation_sym Hperm))) in Hall.
    rewrite !app_assoc in Hall. unfold ids in *. rewrite map_app in Hall.
    apply FaultPrims.NoDup_app_l in Hall. rewrite <- !app_assoc in Hall. exact Hall.
  - exact Hin.
  - intros e H. apply in_app_or in H. destruct H as [H|H].
    + assert (H' : In e (abs s ++ given o ++ created_of evs)).
      { apply Hin. apply in_or_app. left. exact H. }
      rewrite app_assoc in H'. apply in_app_or in H'. destruct H' as [H'|H'].
      * specialize (Hid e H'). lia.
      * specialize (Hcid e H'). lia.
    + specialize (Hcid e H). lia.
  - exact Hleak.
Qed.

(* ======================================================================== *)
(* 1. fmt in any world                                                        *)

Lemma dropped_of_fmts l : dropped_of (map EvFmt l) = [].
Proof. induction l as [|e l IH]; [reflexivity|]. cbn. exact IH. Qed.

Lemma created_of_fmts l : created_of (map EvFmt l) = [].
Proof. induction l as [|e l IH]; [reflexivity|]. cbn. exact IH. Qed.

(* ---- the plan is not about fmt: as without a plan ------------------------------ *)

Lemma fmt_call_q e s w :
  FaultPrims.quiet FFmt w ->
  (emit (EvFmt e);; user_call FFmt) s w = (Ok tt, s, wev w [EvFmt e] (next_id w)).
Proof.
  intros H. erewrite bind_ok by apply emit_eq. apply user_call_quiet. exact H.
Qed.

Lemma iter_for_each_q src (body : elem -> M unit) (evf : elem -> event) fk :
  (forall e s w, FaultPrims.quiet fk w -> body e s w = (Ok tt, s, wev w [evf e] (next_id w))) ->
  forall rest fuel it s w,
    FaultPrims.quiet fk w -> map (items src) (it_slots it) = rest -> (length rest < fuel)%nat ->
    iter_for_each fuel src it body s w = (Ok tt, s, wev w (map evf rest) (next_id w)).
Proof.
  intros Hb. induction rest as [|e rest IH]; intros fuel it s w Hf Hm Hl.
  - destruct fuel as [|fuel]; [cbn in Hl; lia|]. cbn [iter_for_each].
    destruct (iter_next_nil it) as (it' & ->).
    { destruct (it_slots it); [reflexivity|discriminate]. }
    cbn [map]. rewrite wev_nil. reflexivity.
  - destruct fuel as [|fuel]; [cbn in Hl; lia|]. cbn [iter_for_each].
    destruct (it_slots it) as [|p ps] eqn:Es; [discriminate|].
    cbn [map] in Hm. injection Hm as He Hr.
    destruct (iter_next_cons it p ps Es) as (it' & -> & Es').
    rewrite He. erewrite bind_ok by (apply Hb; exact Hf).
    rewrite IH; [|exact Hf|rewrite Es'; exact Hr|cbn in Hl; lia].
    rewrite wev_wev. reflexivity.
Qed.

Lemma it_slots_length it :
  0 <= slen (it_right it) -> 0 <= slen (it_left it) ->
  length (it_slots it) = Z.to_nat (slen (it_right it) + slen (it_left it)).
Proof.
  intros Hr Hl. unfold it_slots, sl_slots. rewrite app_length, !zseq_length. lia.
Qed.

Lemma iter_fmt_q s w it rest :
  FaultPrims.quiet FFmt w -> 0 <= slen (it_right it) -> 0 <= slen (it_left it) ->
  map (items s) (it_slots it) = rest ->
  iter_fmt it s w = (Ok tt, s, wev w (map EvFmt rest) (next_id w)).
Proof.
  intros Hf Hr Hl Hm. unfold iter_fmt. mcbn.
  apply iter_for_each_q with (evf := EvFmt) (fk := FFmt).
  - intros e s0 w0 H0. apply fmt_call_q. exact H0.
  - exact Hf.
  - rewrite it_slots_clone. exact Hm.
  - rewrite <- Hm, map_length. rewrite it_slots_length by assumption.
    destruct it as [r l]. cbn [iter_clone it_right it_left] in *. lia.
Qed.

Lemma buf_fmt_q s w :
  WF s -> FaultPrims.quiet FFmt w ->
  buf_fmt s w = (Ok tt, s, wev w (map EvFmt (abs s)) (next_id w)).
Proof.
  intros HW Hf. pose proof HW as HW'. wf HW'.
  unfold buf_fmt. mcbn.
  destruct (CmpHash.iter_new_ok s w HW) as (it & Hi & Hm).
  erewrite bind_ok by exact Hi.
  apply iter_for_each_q with (evf := EvFmt) (fk := FFmt) (rest := abs s).
  - intros e s0 w0 H0. apply fmt_call_q. exact H0.
  - exact Hf.
  - exact Hm.
  - rewrite abs_length. lia.
Qed.

Lemma drain_fmt_q s w n a b lo hi :
  geom s -> FaultPrims.quiet FFmt w -> 0 <= lo -> hi <= n -> n <= cap s ->
  drain_fmt (mkD n a b lo hi) s w =
    (Ok tt, s, wev w (map EvFmt (lslots s lo (hi - lo))) (next_id w)).
Proof.
  intros Hg Hf Hlo Hhi Hn. unfold drain_fmt.
  erewrite bind_ok by (apply drain_as_slices_ok; auto).
  pose proof (drain_slices_elems s n lo hi Hg Hlo Hhi Hn) as Hel.
  pose proof (drain_slices_nonneg s n lo hi Hg Hlo Hhi Hn) as (N1 & N2).
  destruct (drain_slices_val s n lo hi) as [rgt lft]. cbn [fst snd] in *. cbv beta iota.
  apply iter_fmt_q; try assumption.
  rewrite it_slots_elems. exact Hel.
Qed.

Lemma quiet_fmt_drop w k : fault w = Some (FDrop, k) -> FaultPrims.quiet FFmt w.
Proof. intros H. eapply quiet_other; [exact H|reflexivity]. Qed.

(* ---- the plan is about fmt (or spent): [quiet] of FaultUser.v -------------------- *)

Lemma iter_fmt_quiet it s :
  0 <= slen (it_right it) -> 0 <= slen (it_left it) -> FaultUser.quiet FFmt (iter_fmt it) s.
Proof.
  intros Hr Hl. unfold iter_fmt.
  apply quiet_bind_det with (a := s); [reflexivity|].
  apply iter_for_each_quiet.
  - intros e. apply quiet_emit_call. split; reflexivity.
  - rewrite it_slots_clone, it_slots_length by assumption.
    destruct it as [r l]. cbn [iter_clone it_right it_left] in *. lia.
Qed.

Lemma buf_fmt_quiet s : WF s -> FaultUser.quiet FFmt buf_fmt s.
Proof.
  intros HW. unfold buf_fmt.
  apply quiet_bind_det with (a := s); [reflexivity|].
  destruct (iter_new_det s HW) as (it & Hi & Hl).
  apply quiet_bind_det with (a := it); [exact Hi|].
  apply iter_for_each_quiet; [|lia].
  intros e. apply quiet_emit_call. split; reflexivity.
Qed.

Lemma drain_fmt_quiet s n a b lo hi :
  geom s -> 0 <= lo -> hi <= n -> n <= cap s ->
  FaultUser.quiet FFmt (drain_fmt (mkD n a b lo hi)) s.
Proof.
  intros Hg Hlo Hhi Hn. unfold drain_fmt.
  eapply quiet_bind_det; [intros w; apply drain_as_slices_ok; auto|].
  pose proof (drain_slices_nonneg s n lo hi Hg Hlo Hhi Hn) as (N1 & N2).
  destruct (drain_slices_val s n lo hi) as [rgt lft]. cbn [fst snd] in *. cbv beta iota.
  apply iter_fmt_quiet; assumption.
Qed.

(* destructors in a world whose plan is not about them *)
Lemma drops_nodrop w D :
  nodrop w -> rdrops w D = Ok tt /\ wdrops w D = wev w (drops D) (next_id w).
Proof.
  intros H. unfold rdrops, wdrops, wev, fires, fault_after.
  destruct (fault w) as [[fk k]|] eqn:E; [|auto].
  destruct fk; auto. exfalso. exact (H k E).
Qed.

Lemma armed_fmt_nodrop w : armed FFmt w -> nodrop w.
Proof. apply armed_nodrop. discriminate. Qed.

(* ======================================================================== *)
(* 2a. drain, script, {:?} of the Drain, drop                                 *)

(* a destructor of an un-yielded element panics when the Drain is dropped
   after it was formatted: as for [drain_fault] *)
Theorem drain_debug_drop_fault sb eb pre :
  fault_safe_when (fun s => spec_bounds (size s) sb eb <> None) (ODrainDebug sb eb pre) FDrop.
Proof.
  intros s w k Hvalid HW (Hsb & Heb) Hf Hk Hnd Hid. pose proof HW as HW'. wf HW'.
  pose proof (translate_bounds_ok s w sb eb Hsb Heb ltac:(lia)) as Ht.
  destruct (spec_bounds (size s) sb eb) as [[a b]|]; [|congruence].
  destruct Ht as (Ht & Hab & Hbn).
  destruct (drain_script_ok (abs s) (b_size s 0) w (size s) a b (geom_b_size0 s HW)
              ltac:(lia) ltac:(lia) ltac:(cbn; lia) (abs_zlen s ltac:(lia))
              ltac:(intros i Hi; exact (zn_abs s i Hi)) pre (Z.to_nat a) (Z.to_nat b)
              ltac:(lia) ltac:(lia) ltac:(lia))
    as (rs & lo' & hi' & Hr & Hs & H1 & H2 & H3).
  rewrite !Z2Nat.id in Hr by lia.
  pose proof (spec_script_items (abs s) pre (Z.to_nat a) (Z.to_nat b) _ _ _ _
                ltac:(lia) ltac:(rewrite abs_length; lia) Hs) as Hitems.
  rewrite FaultDropA.sres_items_erase in Hitems.
  pose proof (drain_fmt_q (b_size s 0) w (size s) a b (Z.of_nat lo') (Z.of_nat hi')
                (geom_b_size0 s HW) (quiet_fmt_drop w k Hf) ltac:(lia) ltac:(lia)
                ltac:(cbn; lia)) as Hfmt.
  set (w1 := wev w (map EvFmt (lslots (b_size s 0) (Z.of_nat lo') (Z.of_nat hi' - Z.of_nat lo')))
                 (next_id w)) in *.
  destruct (drain_drop_gen (b_size s 0) w1 (size s) a b (Z.of_nat lo') (Z.of_nat hi')
              (geom_b_size0 s HW) eq_refl ltac:(lia) ltac:(lia) ltac:(lia) ltac:(lia)
              ltac:(cbn; lia)) as (Hpanic & Hok).
  unfold w1 in *. clear w1.
  change (lslots (b_size s 0)) with (lslots s) in *.
  rewrite lslots_sublist in * by lia.
  set (D := sublist lo' hi' (abs s)) in *.
  set (w1 := wev w (map EvFmt D) (next_id w)) in *.
  set (F := firstn (Z.to_nat a) (abs s)).
  set (S := skipn (Z.to_nat b) (abs s)).
  assert (Hsplit : abs s = F ++ sublist (Z.to_nat a) (Z.to_nat b) (abs s) ++ S)
    by (apply list_split3; lia).
  assert (Hf1 : fault w1 = Some (FDrop, k)) by exact Hf.
  assert (Hlog1 : log (wdrops w1 D) = log w ++ map EvFmt D ++ drops D).
  { cbn. rewrite <- app_assoc. reflexivity. }
  cbn [given] in *.
  destruct (drops_cases w1 D k Hf1 Hk) as [[Hro Hfa]|[Hro Hfa]].
  - (* a destructor panics: nothing is moved back, the buffer stays empty *)
    apply (fault_safe_assemble (ODrainDebug sb eb pre) FDrop s w (Panic PUser)
             (b_size s 0) (wdrops w1 D) (map EvFmt D ++ drops D) (sres_items rs ++ F ++ S)
             Hnd Hid).
    + cbn [exec].
      erewrite bind_ok by (apply drain_over_range_ok; exact Ht).
      erewrite bind_ok by exact Hr. cbv beta iota.
      erewrite bind_panic; [reflexivity|].
      eapply finally_body_ok; [exact Hfmt|]. apply Hpanic. exact Hro.
    + exact Hlog1.
    + reflexivity.
    + cbn. lia.
    + auto.
    + left. exact Hfa.
    + apply WF_mk; cbn; lia.
    + reflexivity.
    + rewrite created_of_app, created_of_fmts, created_of_drops. constructor.
    + rewrite created_of_app, created_of_fmts, created_of_drops. intros e [].
    + rewrite (abs_empty (b_size s 0)) by reflexivity.
      rewrite created_of_app, created_of_fmts, created_of_drops,
        dropped_of_app, dropped_of_fmts, dropped_of_drops. cbn [given returned app].
      rewrite ?app_nil_r. rewrite Hsplit at 1.
      rewrite app_assoc.
      eapply Permutation_trans;
        [apply Permutation_app_tail; eapply Permutation_trans;
           [apply Permutation_app_comm|exact Hitems]|].
      eapply Permutation_trans; [apply Permutation_app_comm|].
      rewrite <- app_assoc. apply Permutation_app_head. apply Permutation_app_comm.
    + intros H. congruence.
  - destruct (Hok Hro) as (f' & Hd & HA & HB).
    assert (Habs' : abs (b_size (b_items (b_size s 0) f') (size s - (b - a))) = F ++ S).
    { unfold F, S. rewrite <- (abs_after_drain s f' a b) by (auto; lia). reflexivity. }
    apply (fault_safe_assemble (ODrainDebug sb eb pre) FDrop s w (Ok (OutScript rs))
             (b_size (b_items (b_size s 0) f') (size s - (b - a))) (wdrops w1 D)
             (map EvFmt D ++ drops D) [] Hnd Hid).
    + cbn [exec].
      erewrite bind_ok by (apply drain_over_range_ok; exact Ht).
      erewrite bind_ok by exact Hr. cbv beta iota.
      erewrite bind_ok by (eapply finally_body_ok; [exact Hfmt|exact Hd]). reflexivity.
    + exact Hlog1.
    + reflexivity.
    + cbn. lia.
    + exact I.
    + right. exact Hfa.
    + apply WF_mk; cbn; lia.
    + reflexivity.
    + rewrite created_of_app, created_of_fmts, created_of_drops. constructor.
    + rewrite created_of_app, created_of_fmts, created_of_drops. intros e [].
    + rewrite Habs', created_of_app, created_of_fmts, created_of_drops,
        dropped_of_app, dropped_of_fmts, dropped_of_drops. cbn [given returned app].
      rewrite ?app_nil_r. rewrite Hsplit at 1.
      rewrite <- app_assoc. apply Permutation_app_head.
      eapply Permutation_trans; [apply Permutation_app_comm|].
      apply Permutation_app_tail. exact Hitems.
    + intros H. exact I.
Qed.

(* fmt panics while the Drain is a live local: its destructor runs during the
   unwinding — the un-yielded elements are destroyed, the tail is moved back —
   and cannot panic again (the plan is spent): no abort. The elements the
   script had yielded are lost with the unwinding caller; they are neither
   given nor created, so the no-leak clause holds. *)
Theorem drain_debug_fmt_fault sb eb pre :
  fault_safe_when (fun s => spec_bounds (size s) sb eb <> None) (ODrainDebug sb eb pre) FFmt.
Proof.
  intros s w k Hvalid HW (Hsb & Heb) Hf Hk Hnd Hid. pose proof HW as HW'. wf HW'.
  pose proof (translate_bounds_ok s w sb eb Hsb Heb ltac:(lia)) as Ht.
  destruct (spec_bounds (size s) sb eb) as [[a b]|]; [|congruence].
  destruct Ht as (Ht & Hab & Hbn).
  destruct (drain_script_ok (abs s) (b_size s 0) w (size s) a b (geom_b_size0 s HW)
              ltac:(lia) ltac:(lia) ltac:(cbn; lia) (abs_zlen s ltac:(lia))
              ltac:(intros i Hi; exact (zn_abs s i Hi)) pre (Z.to_nat a) (Z.to_nat b)
              ltac:(lia) ltac:(lia) ltac:(lia))
    as (rs & lo' & hi' & Hr & Hs & H1 & H2 & H3).
  rewrite !Z2Nat.id in Hr by lia.
  pose proof (spec_script_items (abs s) pre (Z.to_nat a) (Z.to_nat b) _ _ _ _
                ltac:(lia) ltac:(rewrite abs_length; lia) Hs) as Hitems.
  rewrite FaultDropA.sres_items_erase in Hitems.
  assert (Ha : armed FFmt w) by (right; exists k; split; assumption).
  destruct (drain_fmt_quiet (b_size s 0) (size s) a b (Z.of_nat lo') (Z.of_nat hi')
              (geom_b_size0 s HW) ltac:(lia) ltac:(lia) ltac:(cbn; lia) w Ha)
    as (rf & w1 & evf & Hfmt & (L1 & D1 & N1 & A1) & O1 & (Sd & Sc) & Nid1).
  destruct (drops_nodrop w1 (lslots (b_size s 0) (Z.of_nat lo') (Z.of_nat hi' - Z.of_nat lo'))
              (armed_fmt_nodrop w1 A1)) as (Hro & Hwd).
  destruct (drain_drop_gen (b_size s 0) w1 (size s) a b (Z.of_nat lo') (Z.of_nat hi')
              (geom_b_size0 s HW) eq_refl ltac:(lia) ltac:(lia) ltac:(lia) ltac:(lia)
              ltac:(cbn; lia)) as (_ & Hok).
  destruct (Hok Hro) as (f' & Hd & HA & HB). clear Hok. rewrite Hwd in Hd. clear Hro Hwd.
  change (lslots (b_size s 0)) with (lslots s) in *.
  rewrite lslots_sublist in * by lia.
  set (D := sublist lo' hi' (abs s)) in *.
  set (w2 := wev w1 (drops D) (next_id w1)) in *.
  set (F := firstn (Z.to_nat a) (abs s)).
  set (S := skipn (Z.to_nat b) (abs s)).
  assert (Hsplit : abs s = F ++ sublist (Z.to_nat a) (Z.to_nat b) (abs s) ++ S)
    by (apply list_split3; lia).
  assert (Habs' : abs (b_size (b_items (b_size s 0) f') (size s - (b - a))) = F ++ S).
  { unfold F, S. rewrite <- (abs_after_drain s f' a b) by (auto; lia). reflexivity. }
  assert (Hlog2 : log w2 = log w ++ evf ++ drops D).
  { unfold w2. cbn [wev log]. rewrite L1, <- app_assoc. reflexivity. }
  assert (Hcr : created_of (evf ++ drops D) = []).
  { rewrite created_of_app, Sc, created_of_drops. reflexivity. }
  assert (Hdr : dropped_of (evf ++ drops D) = D).
  { rewrite dropped_of_app, Sd, dropped_of_drops. reflexivity. }
  cbn [given] in *.
  destruct rf as [[]|p].
  - (* fmt returns *)
    apply (fault_safe_assemble_leak (ODrainDebug sb eb pre) FFmt s w (Ok (OutScript rs))
             (b_size (b_items (b_size s 0) f') (size s - (b - a))) w2 (evf ++ drops D) []
             Hnd Hid).
    + cbn [exec].
      erewrite bind_ok by (apply drain_over_range_ok; exact Ht).
      erewrite bind_ok by exact Hr. cbv beta iota.
      erewrite bind_ok by (eapply finally_body_ok; [exact Hfmt|exact Hd]). reflexivity.
    + exact Hlog2.
    + exact D1.
    + unfold w2. cbn [wev next_id]. lia.
    + exact I.
    + exact A1.
    + apply WF_mk; cbn; lia.
    + reflexivity.
    + rewrite Hcr. constructor.
    + rewrite Hcr. intros e [].
    + rewrite Habs', Hcr, Hdr. cbn [given returned app].
      rewrite ?app_nil_r. rewrite Hsplit at 1.
      rewrite <- app_assoc. apply Permutation_app_head.
      eapply Permutation_trans; [apply Permutation_app_comm|].
      apply Permutation_app_tail. exact Hitems.
    + intros _. exact I.
  - (* fmt panics: the Drain is dropped during unwinding *)
    destruct O1 as [-> F1].
    apply (fault_safe_assemble_leak (ODrainDebug sb eb pre) FFmt s w (Panic PUser)
             (b_size (b_items (b_size s 0) f') (size s - (b - a))) w2 (evf ++ drops D)
             (sres_items rs) Hnd Hid).
    + cbn [exec].
      erewrite bind_ok by (apply drain_over_range_ok; exact Ht).
      erewrite bind_ok by exact Hr. cbv beta iota.
      erewrite bind_panic; [reflexivity|].
      eapply finally_panic_ok; [exact Hfmt|exact Hd].
    + exact Hlog2.
    + exact D1.
    + unfold w2. cbn [wev next_id]. lia.
    + split; [reflexivity|exact F1].
    + left. exact F1.
    + apply WF_mk; cbn; lia.
    + reflexivity.
    + rewrite Hcr. constructor.
    + rewrite Hcr. intros e [].
    + rewrite Habs', Hcr, Hdr. cbn [given returned app].
      rewrite ?app_nil_r. rewrite Hsplit at 1.
      rewrite <- app_assoc. apply Permutation_app_head.
      eapply Permutation_trans; [apply Permutation_app_comm|].
      apply Permutation_app_tail.
      eapply Permutation_trans; [apply Permutation_app_comm|exact Hitems].
    + intros _. rewrite Hcr. intros e [].
Qed.

(* ======================================================================== *)
(* 2b. into_iter, script, {:?} of the IntoIter, drop                          *)

Theorem into_iter_debug_drop_fault pre : fault_safe (OIntoIterDebug pre) FDrop.
Proof.
  intros s w k HW Hop Hf Hk Hnd Hid. pose proof HW as HW'. wf HW'.
  destruct (into_iter_script_gen pre s w HW) as (rs & s1 & Hr & HW1 & Hc1 & Hperm).
  pose proof (buf_fmt_q s1 w HW1 (quiet_fmt_drop w k Hf)) as Hfmt.
  set (w1 := wev w (map EvFmt (abs s1)) (next_id w)) in *.
  destruct (drop_buf_gen s1 w1 HW1) as (s2 & Hd & Ha2 & HW2 & Hc2).
  assert (HWn : WF (new_buf (cap s) junk0)) by (apply WF_new; lia).
  assert (Han : abs (new_buf (cap s) junk0) = []) by (apply abs_empty; reflexivity).
  assert (Hf1 : fault w1 = Some (FDrop, k)) by exact Hf.
  assert (Hlog1 : log (wdrops w1 (abs s1)) = log w ++ map EvFmt (abs s1) ++ drops (abs s1)).
  { cbn. rewrite <- app_assoc. reflexivity. }
  destruct (drops_cases w1 (abs s1) k Hf1 Hk) as [[Hro Hfa]|[Hro Hfa]].
  - apply (fault_safe_assemble (OIntoIterDebug pre) FDrop s w (Panic PUser)
             (new_buf (cap s) junk0) (wdrops w1 (abs s1))
             (map EvFmt (abs s1) ++ drops (abs s1)) (sres_items rs) Hnd Hid).
    + cbn [exec]. mcbn.
      erewrite bind_panic; [reflexivity|].
      eapply with_buf_panic. erewrite bind_ok by exact Hr.
      unfold into_iter_fmt, into_iter_drop.
      erewrite bind_panic; [reflexivity|].
      eapply finally_body_ok; [exact Hfmt|]. rewrite Hd, Hro. reflexivity.
    + exact Hlog1.
    + reflexivity.
    + cbn. lia.
    + auto.
    + left. exact Hfa.
    + exact HWn.
    + reflexivity.
    + rewrite created_of_app, created_of_fmts, created_of_drops. constructor.
    + rewrite created_of_app, created_of_fmts, created_of_drops. intros e [].
    + rewrite Han, created_of_app, created_of_fmts, created_of_drops,
        dropped_of_app, dropped_of_fmts, dropped_of_drops. cbn [given returned app].
      rewrite ?app_nil_r. eapply Permutation_trans; [apply Permutation_app_comm|exact Hperm].
    + intros H. congruence.
  - apply (fault_safe_assemble (OIntoIterDebug pre) FDrop s w (Ok (OutScript rs))
             (new_buf (cap s) junk0) (wdrops w1 (abs s1))
             (map EvFmt (abs s1) ++ drops (abs s1)) [] Hnd Hid).
    + cbn [exec]. mcbn.
      erewrite bind_ok by
        (eapply with_buf_ok; erewrite bind_ok by exact Hr;
         unfold into_iter_fmt, into_iter_drop;
         erewrite bind_ok by (eapply finally_body_ok; [exact Hfmt|rewrite Hd, Hro; reflexivity]);
         reflexivity).
      reflexivity.
    + exact Hlog1.
    + reflexivity.
    + cbn. lia.
    + exact I.
    + right. exact Hfa.
    + exact HWn.
    + reflexivity.
    + rewrite created_of_app, created_of_fmts, created_of_drops. constructor.
    + rewrite created_of_app, created_of_fmts, created_of_drops. intros e [].
    + rewrite Han, created_of_app, created_of_fmts, created_of_drops,
        dropped_of_app, dropped_of_fmts, dropped_of_drops. cbn [given returned app].
      rewrite ?app_nil_r. exact Hperm.
    + intros H. exact I.
Qed.

Theorem into_iter_debug_fmt_fault pre : fault_safe (OIntoIterDebug pre) FFmt.
Proof.
  intros s w k HW Hop Hf Hk Hnd Hid. pose proof HW as HW'. wf HW'.
  destruct (into_iter_script_gen pre s w HW) as (rs & s1 & Hr & HW1 & Hc1 & Hperm).
  assert (Ha : armed FFmt w) by (right; exists k; split; assumption).
  destruct (buf_fmt_quiet s1 HW1 w Ha)
    as (rf & w1 & evf & Hfmt & (L1 & D1 & N1 & A1) & O1 & (Sd & Sc) & Nid1).
  destruct (drop_buf_gen s1 w1 HW1) as (s2 & Hd & Ha2 & HW2 & Hc2).
  destruct (drops_nodrop w1 (abs s1) (armed_fmt_nodrop w1 A1)) as (Hro & Hwd).
  rewrite Hro, Hwd in Hd. clear Hro Hwd.
  set (D := abs s1) in *.
  set (w2 := wev w1 (drops D) (next_id w1)) in *.
  assert (HWn : WF (new_buf (cap s) junk0)) by (apply WF_new; lia).
  assert (Han : abs (new_buf (cap s) junk0) = []) by (apply abs_empty; reflexivity).
  assert (Hlog2 : log w2 = log w ++ evf ++ drops D).
  { unfold w2. cbn [wev log]. rewrite L1, <- app_assoc. reflexivity. }
  assert (Hcr : created_of (evf ++ drops D) = []).
  { rewrite created_of_app, Sc, created_of_drops. reflexivity. }
  assert (Hdr : dropped_of (evf ++ drops D) = D).
  { rewrite dropped_of_app, Sd, dropped_of_drops. reflexivity. }
  destruct rf as [[]|p].
  - apply (fault_safe_assemble_leak (OIntoIterDebug pre) FFmt s w (Ok (OutScript rs))
             (new_buf (cap s) junk0) w2 (evf ++ drops D) [] Hnd Hid).
    + cbn [exec]. mcbn.
      erewrite bind_ok by
        (eapply with_buf_ok; erewrite bind_ok by exact Hr;
         unfold into_iter_fmt, into_iter_drop;
         erewrite bind_ok by (eapply finally_body_ok; [exact Hfmt|exact Hd]);
         reflexivity).
      reflexivity.
    + exact Hlog2.
    + exact D1.
    + unfold w2. cbn [wev next_id]. lia.
    + exact I.
    + exact A1.
    + exact HWn.
    + reflexivity.
    + rewrite Hcr. constructor.
    + rewrite Hcr. intros e [].
    + rewrite Han, Hcr, Hdr. cbn [given returned app]. rewrite ?app_nil_r. exact Hperm.
    + intros _. exact I.
  - destruct O1 as [-> F1].
    apply (fault_safe_assemble_leak (OIntoIterDebug pre) FFmt s w (Panic PUser)
             (new_buf (cap s) junk0) w2 (evf ++ drops D) (sres_items rs) Hnd Hid).
    + cbn [exec]. mcbn.
      erewrite bind_panic; [reflexivity|].
      eapply with_buf_panic. erewrite bind_ok by exact Hr.
      unfold into_iter_fmt, into_iter_drop.
      erewrite bind_panic; [reflexivity|].
      eapply finally_panic_ok; [exact Hfmt|exact Hd].
    + exact Hlog2.
    + exact D1.
    + unfold w2. cbn [wev next_id]. lia.
    + split; [reflexivity|exact F1].
    + left. exact F1.
    + exact HWn.
    + reflexivity.
    + rewrite Hcr. constructor.
    + rewrite Hcr. intros e [].
    + rewrite Han, Hcr, Hdr. cbn [given returned app]. rewrite ?app_nil_r.
      eapply Permutation_trans; [apply Permutation_app_comm|exact Hperm].
    + intros _. rewrite Hcr. intros e [].
Qed.

(* ======================================================================== *)
(* 3. range, script, {:?} of the Iter / IterMut                               *)

(* ---- list-level facts about scripts ------------------------------------------------ *)

Lemma script_taken_erase sc rs : script_taken sc (map erase_sres rs) = script_taken sc rs.
Proof. apply (zipflat_erase _ step_taken_erase). Qed.

Lemma script_handed_erase sc rs : script_handed sc (map erase_sres rs) = script_handed sc rs.
Proof. apply (zipflat_erase _ step_handed_erase). Qed.

(* a script without writes takes nothing and hands nothing back *)
Lemma no_writes_taken sc : no_writes sc = true ->
  forall rs, script_taken sc rs = [] /\ script_handed sc rs = [].
Proof.
  unfold script_taken, script_handed.
  induction sc as [|st sc IH]; intros Hn rs; [destruct rs; auto|].
  destruct rs as [|r rs]; [auto|].
  destruct st; cbn [no_writes] in Hn; try discriminate Hn;
    cbn [zipflat step_taken step_handed app]; apply IH; exact Hn.
Qed.

Lemma no_writes_args sc : no_writes sc = true -> script_args sc = [].
Proof.
  induction sc as [|st sc IH]; intros Hn; [reflexivity|].
  destruct st; cbn [no_writes] in Hn; try discriminate Hn; cbn [script_args]; apply IH; exact Hn.
Qed.

(* the window only shrinks *)
Lemma spec_script_window sc : forall l lo hi rs l' lo' hi',
  spec_script l lo hi sc = (rs, l', (lo', hi')) -> (lo <= hi)%nat ->
  (lo <= lo' /\ lo' <= hi' /\ hi' <= hi)%nat.
Proof.
  induction sc as [|st sc IH]; intros l lo hi rs l' lo' hi' H Hle.
  - cbn [spec_script] in H. inv H. lia.
  - destruct st; cbn [spec_script] in H.
    all: try (destruct (Nat.ltb_spec lo hi)).
    all: match type of H with context [spec_script ?a ?b ?c ?d] =>
           destruct (spec_script a b c d) as [[rs1 l1] [lo1 hi1]] eqn:E end.
    all: inv H; apply IH in E; lia.
Qed.

(* if the window is not empty when the script is over, every write found an
   element: all the values of the script were consumed *)
Lemma spec_script_taken_all sc : forall l lo hi rs l' lo' hi',
  spec_script l lo hi sc = (rs, l', (lo', hi')) -> (lo <= hi)%nat -> (hi <= length l)%nat ->
  (lo' < hi')%nat -> script_taken sc rs = script_args sc.
Proof.
  unfold script_taken.
  induction sc as [|st sc IH]; intros l lo hi rs l' lo' hi' H Hle Hlen Hlt.
  - cbn [spec_script] in H. inv H. reflexivity.
  - destruct st; cbn [spec_script] in H.
    all: try (destruct (Nat.ltb_spec lo hi) as [Hl|Hl]).
    all: match type of H with context [spec_script ?a ?b ?c ?d] =>
           destruct (spec_script a b c d) as [[rs1 l1] [lo1 hi1]] eqn:E end.
    all: inv H.
    all: pose proof (spec_script_window _ _ _ _ _ _ _ _ E ltac:(lia)) as Hw.
    all: try (exfalso; lia).
    all: apply IH in E; try lia; try (rewrite length_set_nth; lia).
    all: cbn [zipflat step_taken script_args app]; try exact E.
    all: try (destruct (nth_error l _); exact E).
    + destruct (nth_error_some l lo ltac:(lia)) as (x & ->). cbn [option_map epe app].
      rewrite E. reflexivity.
    + destruct (nth_error_some l (hi - 1) ltac:(lia)) as (x & ->). cbn [option_map epe app].
      rewrite E. reflexivity.
Qed.

(* the old values a script hands back were in the window it started with *)
Lemma spec_script_handed_old sc : forall l lo hi rs l' w,
  spec_script l lo hi sc = (rs, l', w) ->
  forall e, In e (script_handed sc rs) ->
  exists j, (lo <= j < hi)%nat /\ nth_error l j = Some e.
Proof.
  unfold script_handed.
  induction sc as [|st sc IH]; intros l lo hi rs l' w H e He.
  - cbn [spec_script] in H. inv H. destruct He.
  - destruct st; cbn [spec_script] in H.
    all: try (destruct (Nat.ltb_spec lo hi) as [Hl|Hl]).
    all: match type of H with context [spec_script ?a ?b ?c ?d] =>
           destruct (spec_script a b c d) as [[rs1 l1] w1] eqn:E end.
    all: inv H; cbn [zipflat step_handed app] in He.
    all: try (destruct (IH _ _ _ _ _ _ E e He) as (j & Hj & Hn); exists j; split; [lia|exact Hn]; fail).
    all: try (destruct (nth_error l _) as [x|]; cbn [option_map epe app] in He;
              destruct (IH _ _ _ _ _ _ E e He) as (j & Hj & Hn); exists j; split; [lia|exact Hn]; fail).
    + destruct (nth_error l lo) as [x|] eqn:Ex; cbn [option_map epe app] in He.
      * destruct He as [<-|He]; [exists lo; split; [lia|exact Ex]|].
        destruct (IH _ _ _ _ _ _ E e He) as (j & Hj & Hn). exists j. split; [lia|].
        rewrite nth_error_set_nth in Hn. replace (Nat.eqb lo j) with false in Hn; [exact Hn|].
        symmetry. apply Nat.eqb_neq. lia.
      * destruct (IH _ _ _ _ _ _ E e He) as (j & Hj & Hn). exists j. split; [lia|].
        rewrite nth_error_set_nth in Hn. replace (Nat.eqb lo j) with false in Hn; [exact Hn|].
        symmetry. apply Nat.eqb_neq. lia.
    + destruct (nth_error l (hi - 1)) as [x|] eqn:Ex; cbn [option_map epe app] in He.
      * destruct He as [<-|He]; [exists (hi - 1)%nat; split; [lia|exact Ex]|].
        destruct (IH _ _ _ _ _ _ E e He) as (j & Hj & Hn). exists j. split; [lia|].
        rewrite nth_error_set_nth in Hn. replace (Nat.eqb (hi - 1) j) with false in Hn; [exact Hn|].
        symmetry. apply Nat.eqb_neq. lia.
      * destruct (IH _ _ _ _ _ _ E e He) as (j & Hj & Hn). exists j. split; [lia|].
        rewrite nth_error_set_nth in Hn. replace (Nat.eqb (hi - 1) j) with false in Hn; [exact Hn|].
        symmetry. apply Nat.eqb_neq. lia.
Qed.

(* an exhausted iterator formats nothing, whatever the plan *)
Lemma iter_fmt_empty it s w :
  slen (it_right it) = 0 -> slen (it_left it) = 0 -> iter_fmt it s w = (Ok tt, s, w).
Proof.
  intros Hr Hl. unfold iter_fmt. mcbn.
  destruct it as [r l]. cbn [iter_clone it_right it_left] in *. rewrite Hr, Hl.
  cbn [Z.add Z.to_nat iter_for_each]. unfold iter_next, slice_take_first.
  cbn [iter_clone it_right it_left]. rewrite Hr, Hl. reflexivity.
Qed.

(* ---- the account of one call --------------------------------------------------------- *)

(* [rs]: the results of the script — returned when fmt returns, DISCARDED
   when fmt panics (the harness drops them while unwinding; the model has no
   event for that). The script exchanged the values it wrote ([script_taken])
   for the old ones ([script_handed]); fmt changes nothing. When fmt panics,
   the iterator was not exhausted, so every value of the script was written. *)
Theorem iter_debug_fmt_account sb eb pre s w k :
  spec_bounds (size s) sb eb <> None ->
  WF s -> op_ok s (OIterDebug sb eb pre) -> fault w = Some (FFmt, k) -> 0 <= k ->
  exists r s' w' evs rs,
    exec (OIterDebug sb eb pre) s w = (r, s', w') /\
    log w' = log w ++ evs /\ dbg w' = dbg w /\ next_id w' = next_id w /\
    (match r with Ok v => v = OutScript rs | Panic p => p = PUser /\ fault w' = None end) /\
    (fault w' = None \/ exists k', fault w' = Some (FFmt, k') /\ 0 <= k') /\
    WF s' /\ cap s' = cap s /\ created_of evs = [] /\ dropped_of evs = [] /\
    Permutation (abs s ++ script_taken pre rs) (abs s' ++ script_handed pre rs) /\
    (forall e, In e (script_handed pre rs) -> In e (abs s)) /\
    (match r with Ok _ => True | Panic _ => script_taken pre rs = script_args pre end).
Proof.
  intros Hvalid HW ((Hsb & Heb) & Hcs) Hf Hk. pose proof HW as HW'. wf HW'.
  pose proof (translate_bounds_ok s w sb eb Hsb Heb ltac:(lia)) as Ht.
  destruct (spec_bounds (size s) sb eb) as [[a b]|]; [|congruence].
  destruct Ht as (Ht & Hab & Hbn).
  destruct (iter_over_range_ok s w sb eb a b HW Ht Hab Hbn) as (it & Hn & Hi).
  rewrite <- (Z2Nat.id a), <- (Z2Nat.id b) in Hi by lia.
  destruct (iter_script_ok pre s w it (Z.to_nat a) (Z.to_nat b) HW Hi ltac:(lia) ltac:(lia) Hcs)
    as (rs & s' & wd & Hr & HW2 & Hc & Hz & Hs & Hsp).
  destruct (iter_after_inv s pre it (Z.to_nat a) (Z.to_nat b) (abs s) Hi ltac:(lia))
    as (lo' & hi' & Ewd & Hi' & L1 & L2 & L3).
  rewrite Hsp in Ewd. cbn [snd] in Ewd. subst wd.
  assert (Hi2 : inv s' (iter_after it pre) (Z.of_nat lo') (Z.of_nat hi'))
    by (eapply inv_same; [exact Hc|exact Hs|exact Hi']).
  pose proof Hi2 as (N1 & N2 & N3 & _).
  pose proof (spec_script_perm _ _ _ _ _ _ _ Hsp) as P.
  rewrite script_taken_erase, script_handed_erase in P.
  assert (Hold : forall e, In e (script_handed pre rs) -> In e (abs s)).
  { intros e He. rewrite <- script_handed_erase in He.
    destruct (spec_script_handed_old _ _ _ _ _ _ _ Hsp e He) as (j & _ & Hj).
    exact (nth_error_In _ _ Hj). }
  assert (Ha : armed FFmt w) by (right; exists k; split; assumption).
  destruct (Nat.eq_dec lo' hi') as [Eq|Hne].
  - (* the iterator is exhausted: nothing to format *)
    exists (Ok (OutScript rs)), s', w, [], rs.
    split.
    { cbn [exec]. erewrite bind_ok by exact Hn. erewrite bind_ok by exact Hr.
      erewrite bind_ok by (apply iter_fmt_empty; lia). reflexivity. }
    rewrite app_nil_r. repeat (split; [first [reflexivity | assumption]|]).
    exact I.
  - destruct (iter_fmt_quiet (iter_after it pre) s' N1 N2 w Ha)
      as (rf & w1 & evf & Hfmt & (Lg & Dg & Ng & Ag) & Og & (Sd & Sc) & Nid).
    assert (Hall : script_taken pre rs = script_args pre).
    { rewrite <- script_taken_erase.
      apply (spec_script_taken_all _ _ _ _ _ _ _ _ Hsp); [lia|rewrite abs_length; lia|lia]. }
    destruct rf as [[]|p].
    + exists (Ok (OutScript rs)), s', w1, evf, rs.
      split.
      { cbn [exec]. erewrite bind_ok by exact Hn. erewrite bind_ok by exact Hr.
        erewrite bind_ok by exact Hfmt. reflexivity. }
      repeat (split; [first [reflexivity | assumption]|]). exact I.
    + destruct Og as [-> Fg].
      exists (Panic PUser), s', w1, evf, rs.
      split.
      { cbn [exec]. erewrite bind_ok by exact Hn. erewrite bind_ok by exact Hr.
        erewrite bind_panic by exact Hfmt. reflexivity. }
      repeat (split; [first [reflexivity | assumption]|]).
      split; [split; [reflexivity|exact Fg]|].
      repeat (split; [first [reflexivity | assumption]|]). exact Hall.
Qed.

(* IterMut's Debug builds an Iter from its two views: the same computation *)
Theorem iter_mut_debug_fmt_account sb eb pre s w k :
  spec_bounds (size s) sb eb <> None ->
  WF s -> op_ok s (OIterMutDebug sb eb pre) -> fault w = Some (FFmt, k) -> 0 <= k ->
  exists r s' w' evs rs,
    exec (OIterMutDebug sb eb pre) s w = (r, s', w') /\
    log w' = log w ++ evs /\ dbg w' = dbg w /\ next_id w' = next_id w /\
    (match r with Ok v => v = OutScript rs | Panic p => p = PUser /\ fault w' = None end) /\
    (fault w' = None \/ exists k', fault w' = Some (FFmt, k') /\ 0 <= k') /\
    WF s' /\ cap s' = cap s /\ created_of evs = [] /\ dropped_of evs = [] /\
    Permutation (abs s ++ script_taken pre rs) (abs s' ++ script_handed pre rs) /\
    (forall e, In e (script_handed pre rs) -> In e (abs s)) /\
    (match r with Ok _ => True | Panic _ => script_taken pre rs = script_args pre end).
Proof. exact (iter_debug_fmt_account sb eb pre s w k). Qed.

(* ---- [fault_safe] is false when the script writes -------------------------------------- *)

(* [given] does not list the values a script writes through the iterator (it
   is [[]] for these two operations), so a written value is, for
   [fault_safe], an element from nowhere. One element, one write, a plan that
   does not even fire: *)
Lemma iter_debug_fmt_writes_false :
  ~ fault_safe (OIterDebug BUnb BUnb [SNextSet (mkE 7 7)]) FFmt.
Proof.
  intros H.
  assert (HW1 : 1 < W) by (rewrite W_eq; reflexivity).
  set (s := mkB 1 1 0 (fun _ => mkE 0 0)).
  set (w := mkW true 10 [] (Some (FFmt, 5))).
  set (o := OIterDebug BUnb BUnb [SNextSet (mkE 7 7)]).
  assert (Ha : abs s = [mkE 0 0]) by (vm_compute; reflexivity).
  assert (Ha' : abs (snd (fst (exec o s w))) = [mkE 7 7]) by (vm_compute; reflexivity).
  assert (Hl' : log (snd (exec o s w)) = []) by (vm_compute; reflexivity).
  destruct (H s w 5) as (r & s' & w' & evs & He & Hlog & _ & _ & _ & _ & _ & _ & _ & Hin & _).
  - unfold WF. cbn. lia.
  - cbn. auto.
  - reflexivity.
  - lia.
  - rewrite Ha. cbn. repeat constructor. intros [].
  - rewrite Ha. intros e [<-|[]]. cbn. lia.
  - fold o in He. rewrite He in Ha', Hl'. cbn [fst snd] in Ha', Hl'.
    rewrite Hl' in Hlog. cbn [log w app] in Hlog. subst evs.
    rewrite Ha, Ha' in Hin.
    specialize (Hin (mkE 7 7) (or_introl eq_refl)).
    cbn in Hin. destruct Hin as [E|[]]. discriminate E.
Qed.

Lemma iter_mut_debug_fmt_writes_false :
  ~ fault_safe (OIterMutDebug BUnb BUnb [SNextSet (mkE 7 7)]) FFmt.
Proof. exact iter_debug_fmt_writes_false. Qed.

(* ---- scripts without writes: [fault_safe] ------------------------------------------------ *)

Theorem iter_debug_fmt_fault sb eb pre :
  fault_safe_when (fun s => spec_bounds (size s) sb eb <> None /\ no_writes pre = true)
                  (OIterDebug sb eb pre) FFmt.
Proof.
  intros s w k (Hvalid & Hnw) HW Hok Hf Hk Hnd Hid.
  destruct (iter_debug_fmt_account sb eb pre s w k Hvalid HW Hok Hf Hk)
    as (r & s' & w' & evs & rs & He & Hlog & Hdbg & Hnid & Hr & Harm & HW' & Hc & Cr & Dr & P & _).
  destruct (no_writes_taken pre Hnw rs) as (T0 & H0). rewrite T0, H0, !app_nil_r in P.
  apply (fault_safe_assemble_leak (OIterDebug sb eb pre) FFmt s w r s' w' evs [] Hnd Hid He Hlog
           Hdbg ltac:(lia)).
  - destruct r; [exact I|exact Hr].
  - exact Harm.
  - exact HW'.
  - exact Hc.
  - rewrite Cr. constructor.
  - rewrite Cr. intros e [].
  - rewrite Cr, Dr. assert (Hret : returned (OIterDebug sb eb pre) r = []) by (destruct r; reflexivity).
    rewrite Hret. cbn [given app]. rewrite !app_nil_r. symmetry. exact P.
  - intros _. destruct r; [exact I|]. rewrite Cr. intros e [].
Qed.

Theorem iter_mut_debug_fmt_fault sb eb pre :
  fault_safe_when (fun s => spec_bounds (size s) sb eb <> None /\ no_writes pre = true)
                  (OIterMutDebug sb eb pre) FFmt.
Proof. exact (iter_debug_fmt_fault sb eb pre). Qed.

(* ---- all scripts: the statement in the vocabulary of the ledger ----------------------------- *)

(* [fault_safe_when] with [args] (every by-value argument, the values of a
   script included) for [given] and [out_of] (what the caller holds when the
   call is over: handed back, forgotten, not consumed) for [returned]. For
   the pairs of [fault_collect] the two vocabularies agree ([given_args]). *)
Definition fault_safe_args_when (P : cbuf -> Prop) (o : op) (fk : fkind) : Prop :=
  forall s w k,
    P s ->
    WF s -> op_ok s o -> fault w = Some (fk, k) -> 0 <= k ->
    NoDup (ids (abs s ++ args o)) ->
    (forall e, In e (abs s ++ args o) -> eid e < next_id w) ->
    exists r s' w' evs,
      exec o s w = (r, s', w') /\
      log w' = log w ++ evs /\ dbg w' = dbg w /\ next_id w <= next_id w' /\
      (match r with Ok _ => True | Panic p => p = PUser /\ fault w' = None end) /\
      (fault w' = None \/ exists k', fault w' = Some (fk, k') /\ 0 <= k') /\
      WF s' /\ cap s' = cap s /\
      NoDup (ids (abs s' ++ out_of o (abs s) r ++ dropped_of evs)) /\
      incl (abs s' ++ out_of o (abs s) r ++ dropped_of evs) (abs s ++ args o ++ created_of evs) /\
      (forall e, In e (abs s' ++ created_of evs) -> eid e < next_id w') /\
      (fk <> FDrop ->
       match r with
       | Ok _ => True
       | Panic _ => incl (args o ++ created_of evs) (abs s' ++ dropped_of evs)
       end).

(* true for every script: nothing twice, nothing from nowhere, and on a fmt
   panic every value of the script is in the buffer (only the replaced old
   elements, which the harness held, go down with the unwinding caller) *)
Theorem iter_debug_fmt_args sb eb pre :
  fault_safe_args_when (fun s => spec_bounds (size s) sb eb <> None) (OIterDebug sb eb pre) FFmt.
Proof.
  intros s w k Hvalid HW Hok Hf Hk Hnd Hid.
  destruct (iter_debug_fmt_account sb eb pre s w k Hvalid HW Hok Hf Hk)
    as (r & s' & w' & evs & rs & He & Hlog & Hdbg & Hnid & Hr & Harm & HW' & Hc & Cr & Dr & P
        & Hold & Hall).
  cbn [args] in *.
  pose proof (script_kept_args pre rs) as PK.
  assert (G : Permutation (abs s' ++ script_handed pre rs ++ script_kept pre rs)
                          (abs s ++ script_args pre)).
  { clear - P PK. perm. }
  assert (N : NoDup (ids (abs s' ++ script_handed pre rs ++ script_kept pre rs)))
    by exact (NoDup_ids_perm _ _ (Permutation_sym G) Hnd).
  exists r, s', w', evs. rewrite Cr, Dr, !app_nil_r.
  split; [exact He|]. split; [exact Hlog|]. split; [exact Hdbg|]. split; [lia|].
  split; [destruct r; [exact I|exact Hr]|]. split; [exact Harm|].
  split; [exact HW'|]. split; [exact Hc|].
  destruct r as [v|p].
  - subst v. cbn [out_of handed forgotten kept app].
    split; [exact N|]. split; [intros e Hi; exact (Permutation_in _ G Hi)|].
    split; [|intros _; exact I].
    intros e Hi. rewrite Hnid. apply Hid. apply (Permutation_in _ G). apply in_or_app. auto.
  - cbn [out_of]. rewrite app_nil_r.
    split; [rewrite ids_app' in N; exact (LedgerSpec.NoDup_app_l _ _ N)|].
    split; [intros e Hi; apply (Permutation_in _ G); apply in_or_app; auto|].
    split; [intros e Hi; rewrite Hnid; apply Hid; apply (Permutation_in _ G); apply in_or_app; auto|].
    intros _ e Hi. rewrite <- Hall in Hi.
    assert (Hi' : In e (abs s' ++ script_handed pre rs)).
    { apply (Permutation_in _ P). apply in_or_app. auto. }
    apply in_app_or in Hi' as [Hi'|Hi']; [exact Hi'|exfalso].
    rewrite Hall in Hi.
    exact (NoDup_ids_disjoint _ _ e Hnd (Hold e Hi') Hi).
Qed.

Theorem iter_mut_debug_fmt_args sb eb pre :
  fault_safe_args_when (fun s => spec_bounds (size s) sb eb <> None) (OIterMutDebug sb eb pre) FFmt.
Proof. exact (iter_debug_fmt_args sb eb pre). Qed.

(* ======================================================================== *)
(* 4. collected                                                               *)

(* every pair has a theorem now *)
Definition covered' (o : op) (fk : fkind) : bool := true.

Lemma covered_covered' o fk : covered o fk = true -> covered' o fk = true.
Proof. reflexivity. Qed.

(* the two operations whose script may write through the iterator: [given]
   (hence [fault_safe]) does not speak of the written values, so the
   collected statement is about scripts without writes; for the others see
   [iter_debug_fmt_args], [iter_mut_debug_fmt_args] *)
Definition plain_pre (o : op) : Prop :=
  match o with
  | OIterDebug _ _ pre | OIterMutDebug _ _ pre => no_writes pre = true
  | _ => True
  end.

Lemma nopanic_valid o s sb eb :
  (forall N l nid, spec_step N l o nid = SPanic <-> spec_bounds (zlen l) sb eb = None) ->
  WF s -> nopanic_spec o s -> spec_bounds (size s) sb eb <> None.
Proof.
  intros Hiff HW Hnp Hb. apply Hnp. apply Hiff.
  destruct HW as (_ & Hs & _). rewrite abs_zlen by lia. exact Hb.
Qed.

Theorem fault_collect_all o fk :
  ledger_op o = true -> may_call o fk = true -> covered' o fk = true ->
  fault_safe_when (fun s => nopanic_spec o s /\ plain_pre o) o fk.
Proof.
  intros Hl Hm _.
  destruct (covered o fk) eqn:Hc.
  - intros s w k (Hnp & _). exact (fault_collect o fk Hl Hm Hc s w k Hnp).
  - destruct fk; destruct o; cbn in Hc; try discriminate Hc.
    + intros s w k (Hnp & _) HW. apply drain_debug_drop_fault; [|exact HW].
      apply (nopanic_valid (ODrainDebug sb eb pre)); [|exact HW|exact Hnp].
      intros N l nid. apply (spec_panics_iff N l (ODrainDebug sb eb pre) nid).
    + intros s w k _. apply into_iter_debug_drop_fault.
    + intros s w k (Hnp & Hpl) HW. apply iter_debug_fmt_fault; [|exact HW].
      split; [|exact Hpl].
      apply (nopanic_valid (OIterDebug sb eb pre)); [|exact HW|exact Hnp].
      intros N l nid. apply (spec_panics_iff N l (OIterDebug sb eb pre) nid).
    + intros s w k (Hnp & Hpl) HW. apply iter_mut_debug_fmt_fault; [|exact HW].
      split; [|exact Hpl].
      apply (nopanic_valid (OIterMutDebug sb eb pre)); [|exact HW|exact Hnp].
      intros N l nid. apply (spec_panics_iff N l (OIterMutDebug sb eb pre) nid).
    + intros s w k (Hnp & _) HW. apply drain_debug_fmt_fault; [|exact HW].
      apply (nopanic_valid (ODrainDebug sb eb pre)); [|exact HW|exact Hnp].
      intros N l nid. apply (spec_panics_iff N l (ODrainDebug sb eb pre) nid).
    + intros s w k _. apply into_iter_debug_fmt_fault.
Qed.

Print Assumptions drain_debug_drop_fault.
Print Assumptions drain_debug_fmt_fault.
Print Assumptions into_iter_debug_drop_fault.
Print Assumptions into_iter_debug_fmt_fault.
Print Assumptions iter_debug_fmt_writes_false.
Print Assumptions iter_debug_fmt_args.
Print Assumptions fault_collect_all.
