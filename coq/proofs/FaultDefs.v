(* FaultDefs.v — the statement form of the fault-injection theorems (C05,
   C06): what must hold of one operation when the k-th call into user code of
   one kind (destructor, Clone, closure, iterator, eq, cmp, hash, fmt) panics.
   Definitions only, plus two Examples. *)

From CB Require Import Spec.
From CBP Require Import MonadLemmas RefDefs.

Definition ids (l : list elem) : list Z := map eid l.

(* elements whose destructor ran / that were created, according to a trace *)
Definition dropped_of (evs : list event) : list elem :=
  flat_map (fun ev => match ev with EvDrop e => [e] | _ => [] end) evs.

Definition created_of (evs : list event) : list elem :=
  flat_map (fun ev => match ev with EvClone _ c => [c] | EvCall c => [c] | _ => [] end) evs.

(* elements the caller hands over by value (ownership moves into the call) *)
Definition given (o : op) : list elem :=
  match o with
  | OPushBack e | OPushFront e | OTryPushBack e | OTryPushFront e => [e]
  | OExtend xs | OFromArray xs | OFromIter xs => xs
  | OFill v | OFillSpare v => [v]
  | _ => []
  end.

Definition sres_items (rs : list sres) : list elem :=
  flat_map (fun r => match r with RItem (Some (_, e)) => [e] | _ => [] end) rs.

(* elements handed back to the caller by value when the call returns *)
Definition returned (o : op) (r : outcome out) : list elem :=
  match o, r with
  | (OPushBack _ | OPushFront _ | OTryPushBack _ | OTryPushFront _
    | OPopBack | OPopFront | ORemove _ | OSwapRemoveBack _ | OSwapRemoveFront _),
    Ok (OutOpt (Some e)) => [e]
  | (ODrain _ _ _ _ | OIntoIter _ | ODrainDebug _ _ _ | OIntoIterDebug _), Ok (OutScript rs) =>
    sres_items rs
  | OToVec, Ok (OutList v) => v
  | _, _ => []
  end.

(* The operations whose harness form replaces the buffer by a new one and
   then destroys the old one; for them the old contents count as destroyed by
   the call. *)

(* [fault_safe o fk]: with the k-th user call of kind fk panicking (any k,
   also one that never comes), from any well-formed state holding pairwise
   distinct elements:
   - the call returns or unwinds with the injected panic — never an abort
     (double panic), never a bounds/overflow/assert panic, never out of fuel;
   - the buffer is well formed afterwards, same capacity;
   - no element is destroyed twice, none that is still in the buffer or was
     handed back is destroyed: the identities of (contents afterwards ++
     handed back ++ destroyed during the call) are pairwise distinct;
   - nothing comes from nowhere: those elements are drawn from the contents
     before, the arguments and the elements created during the call;
   - unless the panic came from a destructor (where leaking is allowed),
     nothing is leaked: every given or created element is in the buffer, was
     handed back or has been destroyed;
   - the fault plan afterwards is spent, or still armed with the same kind. *)
Definition fault_safe (o : op) (fk : fkind) : Prop :=
  forall s w k,
    WF s -> op_ok s o -> fault w = Some (fk, k) -> 0 <= k ->
    NoDup (ids (abs s ++ given o)) ->
    (forall e, In e (abs s ++ given o) -> eid e < next_id w) ->
    exists r s' w' evs,
      exec o s w = (r, s', w') /\
      log w' = log w ++ evs /\ dbg w' = dbg w /\ next_id w <= next_id w' /\
      (match r with Ok _ => True | Panic p => p = PUser /\ fault w' = None end) /\
      (fault w' = None \/ exists k', fault w' = Some (fk, k') /\ 0 <= k') /\
      WF s' /\ cap s' = cap s /\
      NoDup (ids (abs s' ++ returned o r ++ dropped_of evs)) /\
      incl (abs s' ++ returned o r ++ dropped_of evs) (abs s ++ given o ++ created_of evs) /\
      (forall e, In e (abs s' ++ created_of evs) -> eid e < next_id w') /\
      (fk <> FDrop ->
       match r with
       | Ok _ => True
       | Panic _ => incl (given o ++ created_of evs) (abs s' ++ dropped_of evs)
       end).

(* the hypotheses are satisfiable: a wrapped, partly filled buffer *)
Example fault_safe_hyps :
  let s := mkB 4 3 2 (fun p => mkE (100 + p) p) in
  let w := mkW true 500 [] (Some (FDrop, 1)) in
  WF s /\ NoDup (ids (abs s ++ given (OFill (mkE 7 7)))) /\
  (forall e, In e (abs s ++ given (OFill (mkE 7 7))) -> eid e < next_id w).
Proof.
  assert (4 < W) by (rewrite W_eq; reflexivity).
  cbv zeta. split; [unfold WF; cbn; lia|]. split.
  - cbn. repeat constructor; cbn; intuition congruence.
  - cbn. intros e [<-|[<-|[<-|[<-|[]]]]]; cbn; lia.
Qed.
