(* FaultDropA.v — destructor panics (fk = FDrop) in truncate_back,
   truncate_front, clear, new, drain, into_iter, fill, fill_with, fill_spare:
   the statements of FaultDefs.v. *)

From CB Require Import Spec.
From CBP Require Import MonadLemmas Arith AbsLemmas ListLemmas AbsOps Core Step PushPop
     Slices Truncate RefDefs RefTruncate DrainP FillExtend FaultDefs FaultPrims.
From Coq Require Import ZifyBool Permutation.
Ltac Zify.zify_post_hook ::= Z.div_mod_to_equations.

Ltac blem_user ::=
  first [ apply add_mod_ok; mcbn; lia | apply sub_mod_ok; mcbn; lia ].

(* [fault_safe] restricted to the states on which the call does not panic for
   a reason of its own (an invalid range) *)
Definition fault_safe_when (P : cbuf -> Prop) (o : op) (fk : fkind) : Prop :=
  forall s w k,
    P s ->
    WF s -> op_ok s o -> fault w = Some (fk, k) -> 0 <= k ->
    NoDup (ids (abs s ++ given o)) ->
    (forall e, In e (abs s ++ given o) -> eid e < next_id w) ->
    exists r s' w' evs,
      exec o s w = (r, s', w') /\
      log w' = log w ++ evs /\ dbg w' = dbg w /\ next_id w <= next_id w' /\
      (match r with Ok _ => True | Panic p => p = PUser /\ fault w' = None end) /\
      (fault w' = None \/ exists k', fault w' = Some (fk, k') /\ 0 <= k') /\
      WF s' /\ cap s' = cap s /\
      NoDup (ids (abs s' ++ returned o r ++ dropped_of evs)) /\
      incl (abs s' ++ returned o r ++ dropped_of evs) (abs s ++ given o ++ created_of evs) /\
      (forall e, In e (abs s' ++ created_of evs) -> eid e < next_id w') /\
      (fk <> FDrop ->
       match r with
       | Ok _ => True
       | Panic _ => incl (given o ++ created_of evs) (abs s' ++ dropped_of evs)
       end).

Lemma fault_safe_when_True o fk : fault_safe_when (fun _ => True) o fk -> fault_safe o fk.
Proof. intros H s w k. apply H. exact I. Qed.

(* ---- a function that only destroys elements ------------------------------------------ *)

(* "m destroys D (all of it, whatever the plan), leaves the contents l'" *)
Definition drop_step (m : M unit) (s : cbuf) (w : world) (l' D : list elem) : Prop :=
  exists s', m s w = (rdrops w D, s', wdrops w D) /\ abs s' = l' /\ WF s' /\ cap s' = cap s.

(* drop_range shrinks the buffer first, then destroys: the state afterwards
   does not depend on the plan *)
Theorem drop_range_gen s w a b :
  WF s -> 0 <= a < b -> b <= size s -> (a = 0 \/ b = size s) ->
  drop_step (drop_range a b) s w
    (if b =? size s then firstn (Z.to_nat a) (abs s) else skipn (Z.to_nat b) (abs s))
    (sublist (Z.to_nat a) (Z.to_nat b) (abs s)).
Proof.
  intros HW Hab Hb Hends. pose proof HW as HW'. wf HW'.
  specialize (Hst ltac:(lia)).
  pose proof (range_slices_elems s a b ltac:(lia) Hst ltac:(lia) Hab Hb) as Hrs.
  unfold range_slices in Hrs.
  pose proof (phys_range s a ltac:(lia)) as Hpa.
  assert (Hdt : 0 <= (start s + b) mod cap s < cap s) by (apply Z.mod_pos_bound; lia).
  unfold drop_step, drop_range. replace (b <=? a) with false by lia.
  mcbn. do 6 bstep. bstep. bstep. fold (phys s a) in *.
  set (s1 := if b =? size s then b_size s a
             else mkB (cap s) (size s - b) ((start s + b) mod cap s) (items s)).
  assert (Hbody : (if b =? size s then set_size a
                   else set_start ((start s + b) mod cap s);; v <- usub (size s) b;; set_size v)
                    s w = (Ok tt, s1, w)).
  { subst s1. destruct (b =? size s) eqn:Eb; [reflexivity|]. bgo. reflexivity. }
  assert (Hitems : items s1 = items s) by (subst s1; destruct (b =? size s); reflexivity).
  assert (Habs1 : abs s1 = if b =? size s then firstn (Z.to_nat a) (abs s)
                           else skipn (Z.to_nat b) (abs s)).
  { subst s1. destruct (b =? size s) eqn:Eb.
    - apply abs_truncate_back. lia.
    - apply abs_truncate_front; lia. }
  assert (HW1 : WF s1 /\ cap s1 = cap s).
  { subst s1. destruct (b =? size s) eqn:Eb; (split; [apply WF_mk; cbn; lia|reflexivity]). }
  exists s1. split; [|tauto].
  destruct (phys s a <? (start s + b) mod cap s) eqn:Elt; destruct Hrs as (Hel & Hr & Hl).
  - bgo. eapply finally_body_ok; [exact Hbody|].
    rewrite drop_two_gen. rewrite Hitems.
    rewrite ?Z.add_0_l. rewrite Hel. reflexivity.
  - bgo. eapply finally_body_ok; [exact Hbody|].
    rewrite drop_two_gen. rewrite Hitems.
    rewrite ?Z.add_0_l, ?Z.sub_0_r. rewrite Hel. reflexivity.
Qed.

Lemma drop_step_nothing (m : M unit) s w :
  WF s -> m s w = (Ok tt, s, w) -> drop_step m s w (abs s) [].
Proof.
  intros HW H. exists s. rewrite rdrops_nil, wdrops_nil. auto.
Qed.

Theorem truncate_back_gen s w k :
  WF s -> 0 <= k ->
  let m := Z.to_nat (Z.min k (size s)) in
  drop_step (truncate_back k) s w (firstn m (abs s)) (skipn m (abs s)).
Proof.
  intros HW Hk m. pose proof HW as HW'. wf HW'. unfold truncate_back.
  destruct ((cap s =? 0) || (size s <=? k)) eqn:E.
  - subst m. replace (Z.min k (size s)) with (size s) by lia.
    rewrite firstn_all2 by (rewrite abs_length; lia).
    rewrite skipn_all2 by (rewrite abs_length; lia).
    apply drop_step_nothing; [exact HW|]. mcbn. rewrite E. reflexivity.
  - destruct (drop_range_gen s w k (size s) HW ltac:(lia) ltac:(lia) ltac:(lia))
      as (s' & Hd & Ha & HW2 & Hc).
    exists s'. mcbn. rewrite E. rewrite Hd. subst m. replace (Z.min k (size s)) with k by lia.
    rewrite Z.eqb_refl in Ha.
    replace (Z.to_nat (size s)) with (length (abs s)) by (rewrite abs_length; reflexivity).
    rewrite sublist_to_end. auto.
Qed.

Theorem truncate_front_gen s w k :
  WF s -> 0 <= k ->
  let m := Z.to_nat (Z.min k (size s)) in
  drop_step (truncate_front k) s w (lastn m (abs s)) (firstn (length (abs s) - m) (abs s)).
Proof.
  intros HW Hk m. pose proof HW as HW'. wf HW'. unfold truncate_front.
  unfold lastn. rewrite abs_length.
  destruct ((cap s =? 0) || (size s <=? k)) eqn:E.
  - subst m. replace (Z.min k (size s)) with (size s) by lia.
    rewrite Nat.sub_diag. cbn [skipn firstn].
    apply drop_step_nothing; [exact HW|]. mcbn. rewrite E. reflexivity.
  - unfold drop_step. mcbn. rewrite E. bstep.
    destruct (drop_range_gen s w 0 (size s - k) HW ltac:(lia) ltac:(lia) ltac:(lia))
      as (s' & Hd & Ha & HW2 & Hc).
    exists s'. rewrite Hd. subst m. replace (Z.min k (size s)) with k by lia.
    rewrite sublist_from_0.
    replace (Z.to_nat (size s) - Z.to_nat k)%nat with (Z.to_nat (size s - k)) by lia.
    split; [reflexivity|]. split; [|auto].
    rewrite Ha. destruct (size s - k =? size s) eqn:E2; [|reflexivity].
    assert (k = 0) as -> by lia. rewrite Z.sub_0_r.
    rewrite skipn_all2 by (rewrite abs_length; lia). reflexivity.
Qed.

Theorem clear_gen s w : WF s -> drop_step clear s w [] (abs s).
Proof.
  intros HW. pose proof (truncate_back_gen s w 0 HW ltac:(lia)) as H.
  pose proof HW as HW'. wf HW'.
  cbv zeta in H. replace (Z.min 0 (size s)) with 0 in H by lia. exact H.
Qed.

Theorem drop_buf_gen s w : WF s -> drop_step drop_buf s w [] (abs s).
Proof. apply clear_gen. Qed.

(* let old = mem::replace(&mut buf, nb); drop(old) *)
Lemma replace_buf_gen nb s w :
  WF s -> replace_buf nb s w = (rdrops w (abs s), nb, wdrops w (abs s)).
Proof.
  intros HW. unfold replace_buf. mcbn.
  destruct (drop_buf_gen s w HW) as (s' & Hd & _).
  destruct (rdrops_cases w (abs s)) as [Hr|Hr]; rewrite Hr in *.
  - erewrite bind_ok by (apply with_buf_ok; exact Hd). reflexivity.
  - erewrite bind_panic by (eapply with_buf_panic; exact Hd). reflexivity.
Qed.

(* ---- from a drop_step to fault_safe ------------------------------------------------------- *)

Lemma drop_step_safe (o : op) (m : M unit) s w k l' D :
  (forall s w, exec o s w = (m;; ret OutUnit) s w) ->
  given o = [] -> (forall r, returned o r = []) ->
  fault w = Some (FDrop, k) -> 0 <= k ->
  NoDup (ids (abs s ++ given o)) ->
  (forall e, In e (abs s ++ given o) -> eid e < next_id w) ->
  drop_step m s w l' D -> Permutation (l' ++ D) (abs s) ->
  exists r s' w' evs,
    exec o s w = (r, s', w') /\
    log w' = log w ++ evs /\ dbg w' = dbg w /\ next_id w <= next_id w' /\
    (match r with Ok _ => True | Panic p => p = PUser /\ fault w' = None end) /\
    (fault w' = None \/ exists k', fault w' = Some (FDrop, k') /\ 0 <= k') /\
    WF s' /\ cap s' = cap s /\
    NoDup (ids (abs s' ++ returned o r ++ dropped_of evs)) /\
    incl (abs s' ++ returned o r ++ dropped_of evs) (abs s ++ given o ++ created_of evs) /\
    (forall e, In e (abs s' ++ created_of evs) -> eid e < next_id w') /\
    (FDrop <> FDrop ->
     match r with
     | Ok _ => True
     | Panic _ => incl (given o ++ created_of evs) (abs s' ++ dropped_of evs)
     end).
Proof.
  intros He Hg Hret Hf Hk Hnd Hid (s' & Hm & Ha & HW' & Hc) Hperm.
  destruct (drops_cases w D k Hf Hk) as [[Hr Hfa]|[Hr Hfa]].
  - (* a destructor panicked *)
    eapply fault_safe_assemble with (evs := drops D) (X := []) (r := Panic PUser)
                                    (s' := s') (w' := wdrops w D); try eassumption.
    + rewrite He. erewrite bind_panic by (rewrite Hm, Hr; reflexivity). reflexivity.
    + reflexivity.
    + reflexivity.
    + cbn. lia.
    + auto.
    + left. exact Hfa.
    + rewrite created_of_drops. constructor.
    + rewrite created_of_drops. intros e [].
    + rewrite Hret, Hg, created_of_drops, dropped_of_drops, Ha. cbn [app].
      rewrite ?app_nil_r. exact Hperm.
    + intros H. congruence.
  - eapply fault_safe_assemble with (evs := drops D) (X := []) (r := Ok OutUnit)
                                    (s' := s') (w' := wdrops w D); try eassumption.
    + rewrite He. erewrite bind_ok by (rewrite Hm, Hr; reflexivity). reflexivity.
    + reflexivity.
    + reflexivity.
    + cbn. lia.
    + exact I.
    + right. exact Hfa.
    + rewrite created_of_drops. constructor.
    + rewrite created_of_drops. intros e [].
    + rewrite Hret, Hg, created_of_drops, dropped_of_drops, Ha. cbn [app].
      rewrite ?app_nil_r. exact Hperm.
    + intros H. exact I.
Qed.

Theorem truncate_back_fault k : fault_safe (OTruncateBack k) FDrop.
Proof.
  intros s w k0 HW Hop Hf Hk Hnd Hid. cbn in Hop. unfold in_usize in Hop.
  eapply drop_step_safe with (m := truncate_back k); try eassumption; try reflexivity.
  - apply truncate_back_gen; [exact HW|lia].
  - rewrite firstn_skipn. apply Permutation_refl.
Qed.

Theorem truncate_front_fault k : fault_safe (OTruncateFront k) FDrop.
Proof.
  intros s w k0 HW Hop Hf Hk Hnd Hid. cbn in Hop. unfold in_usize in Hop.
  eapply drop_step_safe with (m := truncate_front k); try eassumption; try reflexivity.
  - apply truncate_front_gen; [exact HW|lia].
  - unfold lastn. rewrite abs_length. pose proof HW as HW'. wf HW'.
    set (m := Z.to_nat (Z.min k (size s))).
    apply firstn_skipn_perm.
Qed.

Theorem clear_fault : fault_safe OClear FDrop.
Proof.
  intros s w k0 HW Hop Hf Hk Hnd Hid.
  eapply drop_step_safe with (m := clear); try eassumption; try reflexivity.
  - apply clear_gen. exact HW.
  - apply Permutation_refl.
Qed.

Theorem new_fault : fault_safe ONew FDrop.
Proof.
  intros s w k0 HW Hop Hf Hk Hnd Hid. pose proof HW as HW'. wf HW'.
  eapply drop_step_safe with (m := s0 <- get;; replace_buf (new_buf (cap s0) junk0))
                             (l' := []) (D := abs s);
    try eassumption; try reflexivity.
  exists (new_buf (cap s) junk0). mcbn. rewrite replace_buf_gen by exact HW.
  split; [reflexivity|]. split; [apply abs_empty; reflexivity|].
  split; [apply WF_new; lia|reflexivity].
Qed.

(* ---- into_iter ----------------------------------------------------------------------------- *)

Lemma sres_items_cons_item o rs :
  sres_items (RItem (opt_pe o) :: rs) = opt_list o ++ sres_items rs.
Proof. destruct o; reflexivity. Qed.

Lemma sres_items_cons_len n rs : sres_items (RLen n :: rs) = sres_items rs.
Proof. reflexivity. Qed.

Lemma last_error_split (l : list elem) x : last_error l = Some x -> l = removelast l ++ [x].
Proof.
  unfold last_error. destruct (rev l) as [|y r] eqn:E; [discriminate|].
  intros H. inversion H. subst y.
  apply (f_equal (@rev elem)) in E. rewrite rev_involutive in E. cbn [rev] in E.
  rewrite E. rewrite removelast_last. reflexivity.
Qed.

Lemma last_error_none (l : list elem) : last_error l = None -> l = [].
Proof.
  unfold last_error. destruct (rev l) as [|y r] eqn:E; [|discriminate].
  intros _. apply (f_equal (@rev elem)) in E. rewrite rev_involutive in E. exact E.
Qed.

(* the script on an IntoIter calls no user code; what it hands out and what
   it leaves in the wrapped buffer are together the contents *)
Lemma into_iter_script_gen script : forall s w,
  WF s ->
  exists rs s1,
    run_into_iter_script script s w = (Ok rs, s1, w) /\ WF s1 /\ cap s1 = cap s /\
    Permutation (sres_items rs ++ abs s1) (abs s).
Proof.
  induction script as [|st rest IH]; intros s w HW.
  - exists [], s. cbn [run_into_iter_script]. unfold ret. cbn [sres_items flat_map app].
    auto using Permutation_refl.
  - assert (Hfront :
      exists rs s1,
        (o <- into_iter_next;; rs <- run_into_iter_script rest;; ret (RItem (opt_pe o) :: rs)) s w
          = (Ok rs, s1, w) /\ WF s1 /\ cap s1 = cap s /\
        Permutation (sres_items rs ++ abs s1) (abs s)).
    { destruct (pop_front_refines s w HW) as (s1 & Hp & Ha & HW1 & Hc1).
      destruct (IH s1 w HW1) as (rs & s2 & Hr & HW2 & Hc2 & Hperm).
      exists (RItem (opt_pe (hd_error (abs s))) :: rs), s2. unfold into_iter_next.
      erewrite bind_ok by exact Hp. erewrite bind_ok by exact Hr.
      split; [reflexivity|]. split; [exact HW2|]. split; [congruence|].
      rewrite sres_items_cons_item, Ha in *.
      destruct (abs s) as [|x t]; cbn [hd_error tl opt_list app] in *; [exact Hperm|].
      apply perm_skip. exact Hperm. }
    assert (Hback :
      exists rs s1,
        (o <- into_iter_next_back;; rs <- run_into_iter_script rest;; ret (RItem (opt_pe o) :: rs)) s w
          = (Ok rs, s1, w) /\ WF s1 /\ cap s1 = cap s /\
        Permutation (sres_items rs ++ abs s1) (abs s)).
    { destruct (pop_back_refines s w HW) as (s1 & Hp & Ha & HW1 & Hc1).
      destruct (IH s1 w HW1) as (rs & s2 & Hr & HW2 & Hc2 & Hperm).
      exists (RItem (opt_pe (last_error (abs s))) :: rs), s2. unfold into_iter_next_back.
      erewrite bind_ok by exact Hp. erewrite bind_ok by exact Hr.
      split; [reflexivity|]. split; [exact HW2|]. split; [congruence|].
      rewrite sres_items_cons_item, Ha in *.
      destruct (last_error (abs s)) as [x|] eqn:El; cbn [opt_list app].
      - rewrite (last_error_split _ _ El) at 1.
        eapply Permutation_trans; [|apply Permutation_cons_append].
        apply perm_skip. exact Hperm.
      - rewrite (last_error_none _ El) in *. exact Hperm. }
    assert (Hlen :
      exists rs s1,
        (n <- into_iter_len;; rs <- run_into_iter_script rest;; ret (RLen n :: rs)) s w
          = (Ok rs, s1, w) /\ WF s1 /\ cap s1 = cap s /\
        Permutation (sres_items rs ++ abs s1) (abs s)).
    { destruct (IH s w HW) as (rs & s2 & Hr & HW2 & Hc2 & Hperm).
      exists (RLen (size s) :: rs), s2. unfold into_iter_len, len. mcbn.
      erewrite bind_ok by exact Hr.
      split; [reflexivity|]. split; [exact HW2|]. split; [exact Hc2|].
      rewrite sres_items_cons_len. exact Hperm. }
    destruct st; cbn [run_into_iter_script]; assumption.
Qed.

Theorem into_iter_fault script : fault_safe (OIntoIter script) FDrop.
Proof.
  intros s w k HW Hop Hf Hk Hnd Hid. pose proof HW as HW'. wf HW'.
  destruct (into_iter_script_gen script s w HW) as (rs & s1 & Hr & HW1 & Hc1 & Hperm).
  destruct (drop_buf_gen s1 w HW1) as (s2 & Hd & Ha2 & HW2 & Hc2).
  assert (HWn : WF (new_buf (cap s) junk0)) by (apply WF_new; lia).
  assert (Han : abs (new_buf (cap s) junk0) = []) by (apply abs_empty; reflexivity).
  destruct (drops_cases w (abs s1) k Hf Hk) as [[Hro Hfa]|[Hro Hfa]].
  - (* a destructor of a remaining element panicked: the handed-out elements
       are lost with the unwinding caller, the others were all destroyed *)
    apply (fault_safe_assemble (OIntoIter script) FDrop s w (Panic PUser)
             (new_buf (cap s) junk0) (wdrops w (abs s1)) (drops (abs s1)) (sres_items rs)
             Hnd Hid).
    + cbn [exec]. mcbn.
      erewrite bind_panic; [reflexivity|].
      eapply with_buf_panic. erewrite bind_ok by exact Hr.
      unfold into_iter_drop. erewrite bind_panic by (rewrite Hd, Hro; reflexivity). reflexivity.
    + reflexivity.
    + reflexivity.
    + cbn. lia.
    + auto.
    + left. exact Hfa.
    + exact HWn.
    + reflexivity.
    + rewrite created_of_drops. constructor.
    + rewrite created_of_drops. intros e [].
    + rewrite Han, created_of_drops, dropped_of_drops. cbn [given returned app].
      rewrite ?app_nil_r. eapply Permutation_trans; [apply Permutation_app_comm|exact Hperm].
    + intros H. congruence.
  - apply (fault_safe_assemble (OIntoIter script) FDrop s w (Ok (OutScript rs))
             (new_buf (cap s) junk0) (wdrops w (abs s1)) (drops (abs s1)) []
             Hnd Hid).
    + cbn [exec]. mcbn.
      erewrite bind_ok by
        (eapply with_buf_ok; erewrite bind_ok by exact Hr;
         unfold into_iter_drop; erewrite bind_ok by (rewrite Hd, Hro; reflexivity);
         reflexivity).
      reflexivity.
    + reflexivity.
    + reflexivity.
    + cbn. lia.
    + exact I.
    + right. exact Hfa.
    + exact HWn.
    + reflexivity.
    + rewrite created_of_drops. constructor.
    + rewrite created_of_drops. intros e [].
    + rewrite Han, created_of_drops, dropped_of_drops. cbn [given returned app].
      rewrite ?app_nil_r. exact Hperm.
    + intros H. exact I.
Qed.

(* ---- the fill loops when the plan is not about their user calls ----------------------------- *)

Lemma fill_spare_with_loop_q k : forall fuel s w,
  WF s -> quiet FCall w -> cap s - size s = Z.of_nat k -> (k <= fuel)%nat ->
  ev_step (fill_spare_with_loop fuel) s w tt
          (abs s ++ calls (next_id w) k)
          (map EvCall (calls (next_id w) k)) (next_id w + Z.of_nat k).
Proof.
  induction k as [|k IH]; intros fuel s w HW Hf Hk Hfuel.
  - exists s. cbn [calls map]. rewrite app_nil_r. cbn [Z.of_nat]. rewrite Z.add_0_r, wev_nil.
    destruct fuel; cbn [fill_spare_with_loop]; mcbn;
      replace (size s <? cap s) with false by lia; auto.
  - destruct fuel as [|fuel]; [lia|].
    destruct (push_back_room s (wev w [EvCall (mkE (next_id w) closure_val)] (next_id w + 1))
                (mkE (next_id w) closure_val) HW ltac:(lia))
      as (s1 & Hp & Ha1 & HW1 & Hc1 & Hz1).
    destruct (IH fuel s1 (wev w [EvCall (mkE (next_id w) closure_val)] (next_id w + 1))
                HW1 Hf ltac:(lia) ltac:(lia)) as (s2 & Hl & Ha2 & HW2 & Hc2).
    exists s2. cbn [fill_spare_with_loop]. mcbn.
    replace (size s <? cap s) with true by lia.
    erewrite bind_ok by (apply call_closure_quiet; exact Hf).
    erewrite bind_ok by exact Hp.
    cbn [drop_opt]. mcbn. rewrite Hl.
    rewrite wev_wev, wev_next. cbn [calls map].
    split; [|split; [|split]].
    + f_equal. f_equal. lia.
    + rewrite Ha2, Ha1, wev_next, <- app_assoc. reflexivity.
    + exact HW2.
    + congruence.
Qed.

Lemma fill_spare_with_q s w :
  WF s -> quiet FCall w ->
  let k := Z.to_nat (cap s - size s) in
  ev_step fill_spare_with s w tt (abs s ++ calls (next_id w) k)
          (map EvCall (calls (next_id w) k)) (next_id w + (cap s - size s)).
Proof.
  intros HW Hf k. pose proof HW as HW'. wf HW'. unfold ev_step, fill_spare_with. mcbn.
  destruct (cap s =? 0) eqn:E.
  - exists s. subst k. replace (cap s - size s) with 0 by lia.
    cbn [Z.to_nat calls map]. rewrite app_nil_r, Z.add_0_r, wev_nil. auto.
  - pose proof (fill_spare_with_loop_q k k s w HW Hf ltac:(lia) ltac:(lia)) as H.
    replace (Z.of_nat k) with (cap s - size s) in H by lia. exact H.
Qed.

Lemma fill_spare_loop_q v k : forall fuel s w,
  WF s -> quiet FClone w -> 0 < cap s -> cap s - size s - 1 = Z.of_nat k -> (k <= fuel)%nat ->
  exists s',
    fill_spare_loop fuel v s w =
      (Ok tt, s', wev w (clone_evs (next_id w) (repeat v k)) (next_id w + Z.of_nat k)) /\
    abs s' = abs s ++ clones (next_id w) (repeat v k) /\
    WF s' /\ cap s' = cap s /\ size s' = cap s - 1.
Proof.
  induction k as [|k IH]; intros fuel s w HW Hf Hc Hk Hfuel.
  - exists s. cbn [repeat clones clone_evs]. rewrite app_nil_r. cbn [Z.of_nat].
    rewrite Z.add_0_r, wev_nil.
    destruct fuel; cbn [fill_spare_loop]; mcbn;
      (erewrite bind_ok by (apply usub_ok; lia)); cbv beta;
      replace (size s <? cap s - 1) with false by lia;
      (split; [reflexivity|]); (split; [reflexivity|]); (split; [exact HW|]); split; lia.
  - destruct fuel as [|fuel]; [lia|].
    set (c := mkE (next_id w) (eval v)).
    set (w1 := wev w [EvClone v c] (next_id w + 1)).
    destruct (push_back_room s w1 c HW ltac:(lia)) as (s1 & Hp & Ha1 & HW1 & Hc1 & Hz1).
    destruct (IH fuel s1 w1 HW1 Hf ltac:(lia) ltac:(lia) ltac:(lia))
      as (s2 & Hl & Ha2 & HW2 & Hc2 & Hz2).
    exists s2. cbn [fill_spare_loop]. mcbn.
    erewrite bind_ok by (apply usub_ok; lia). cbv beta.
    replace (size s <? cap s - 1) with true by lia.
    erewrite bind_ok by (apply clone_elem_quiet; exact Hf).
    fold c. fold w1.
    erewrite bind_ok by exact Hp.
    cbn [drop_opt]. mcbn. rewrite Hl.
    subst w1. rewrite wev_wev, wev_next. cbn [repeat clones clone_evs]. fold c.
    split; [|split; [|split; [|split]]].
    + f_equal. f_equal. lia.
    + rewrite Ha2, Ha1, wev_next, <- app_assoc. reflexivity.
    + exact HW2.
    + congruence.
    + lia.
Qed.

(* fill_spare on a buffer with room: only clones are called *)
Lemma fill_spare_room_q v s w :
  WF s -> quiet FClone w -> (cap s =? 0) || (size s =? cap s) = false ->
  let k := Z.to_nat (cap s - size s - 1) in
  ev_step (fill_spare v) s w tt
          (abs s ++ clones (next_id w) (repeat v k) ++ [v])
          (clone_evs (next_id w) (repeat v k))
          (next_id w + (cap s - size s - 1)).
Proof.
  intros HW Hf E k. pose proof HW as HW'. wf HW'. unfold ev_step, fill_spare. mcbn.
  rewrite E.
  destruct (fill_spare_loop_q v k (Z.to_nat (cap s - size s)) s w HW Hf
              ltac:(lia) ltac:(lia) ltac:(lia)) as (s1 & Hl & Ha1 & HW1 & Hc1 & Hz1).
  erewrite bind_ok by (apply on_unwind_ok; exact Hl).
  match goal with |- context [bind (push_back v) _ s1 ?w1] =>
    destruct (push_back_room s1 w1 v HW1 ltac:(lia)) as (s2 & Hp & Ha2 & HW2 & Hc2 & Hz2)
  end.
  exists s2. erewrite bind_ok by exact Hp. cbn [drop_opt]. unfold ret.
  replace (Z.of_nat k) with (cap s - size s - 1) by lia.
  split; [reflexivity|]. split; [|split; [exact HW2|congruence]].
  rewrite Ha2, Ha1, <- app_assoc. reflexivity.
Qed.

(* fill_spare on a full or zero-capacity buffer: the value is destroyed *)
Lemma fill_spare_full_gen v s w :
  (cap s =? 0) || (size s =? cap s) = true ->
  fill_spare v s w = (rdrops w [v], s, wdrops w [v]).
Proof.
  intros E. unfold fill_spare. mcbn. rewrite E. apply drop_elem_gen.
Qed.

Lemma quiet_drop_call w k : fault w = Some (FDrop, k) -> quiet FCall w.
Proof. intros H. eapply quiet_other; [exact H|reflexivity]. Qed.

Lemma quiet_drop_clone w k : fault w = Some (FDrop, k) -> quiet FClone w.
Proof. intros H. eapply quiet_other; [exact H|reflexivity]. Qed.

Lemma calls_ids_range nid n e : In e (calls nid n) -> nid <= eid e < nid + Z.of_nat n.
Proof.
  intros H. apply (in_map eid) in H. fold (ids (calls nid n)) in H.
  rewrite ids_calls in H. apply In_zseq in H. exact H.
Qed.

Lemma clones_ids_range nid xs e :
  In e (clones nid xs) -> nid <= eid e < nid + Z.of_nat (length xs).
Proof.
  intros H. apply (in_map eid) in H. fold (ids (clones nid xs)) in H.
  rewrite ids_clones in H. apply In_zseq in H. exact H.
Qed.

Lemma NoDup_ids_calls nid n : NoDup (ids (calls nid n)).
Proof. rewrite ids_calls. apply NoDup_zseq. Qed.

Lemma NoDup_ids_clones nid xs : NoDup (ids (clones nid xs)).
Proof. rewrite ids_clones. apply NoDup_zseq. Qed.

(* ---- fill_with ------------------------------------------------------------------------------ *)

Theorem fill_with_fault : fault_safe OFillWith FDrop.
Proof.
  intros s w k HW Hop Hf Hk Hnd Hid. pose proof HW as HW'. wf HW'.
  destruct (clear_gen s w HW) as (s1 & Hc & Ha1 & HW1 & Hc1).
  pose proof (abs_nil_size s1 HW1 Ha1) as Hz1.
  set (w1 := wdrops w (abs s)) in *.
  destruct (drops_cases w (abs s) k Hf Hk) as [[Hro Hfa]|[Hro (k' & Hfa & Hk')]].
  - (* clear unwinds *)
    apply (fault_safe_assemble OFillWith FDrop s w (Panic PUser) s1 w1 (drops (abs s)) []
             Hnd Hid).
    + cbn [exec]. unfold fill_with. rewrite bind_assoc.
      erewrite bind_panic by (rewrite Hc, Hro; reflexivity). reflexivity.
    + reflexivity.
    + reflexivity.
    + cbn. lia.
    + auto.
    + left. exact Hfa.
    + exact HW1.
    + exact Hc1.
    + rewrite created_of_drops. constructor.
    + rewrite created_of_drops. intros e [].
    + rewrite Ha1, created_of_drops, dropped_of_drops. cbn [given returned app].
      rewrite ?app_nil_r. apply Permutation_refl.
    + intros H. congruence.
  - (* clear returns; the closure calls do not panic *)
    destruct (fill_spare_with_q s1 w1 HW1 (quiet_drop_call w1 k' Hfa))
      as (s2 & Hl & Ha2 & HW2 & Hc2).
    rewrite Ha1, Hc1, Hz1, Z.sub_0_r in *. cbn [app] in Ha2.
    change (next_id w1) with (next_id w) in *.
    set (cs := calls (next_id w) (Z.to_nat (cap s))) in *.
    apply (fault_safe_assemble OFillWith FDrop s w (Ok OutUnit) s2
             (wev w1 (map EvCall cs) (next_id w + cap s))
             (drops (abs s) ++ map EvCall cs) [] Hnd Hid).
    + cbn [exec]. unfold fill_with. rewrite bind_assoc.
      erewrite bind_ok by (rewrite Hc, Hro; reflexivity).
      erewrite bind_ok by exact Hl. reflexivity.
    + cbn. rewrite app_assoc. reflexivity.
    + reflexivity.
    + cbn. lia.
    + exact I.
    + right. exists k'. split; [exact Hfa|exact Hk'].
    + exact HW2.
    + congruence.
    + rewrite created_of_app, created_of_drops, created_of_calls. cbn [app].
      apply NoDup_ids_calls.
    + rewrite created_of_app, created_of_drops, created_of_calls. cbn [app].
      intros e He. apply calls_ids_range in He. cbn [next_id wev]. lia.
    + rewrite Ha2, created_of_app, created_of_drops, created_of_calls,
        dropped_of_app, dropped_of_drops, dropped_of_calls.
      cbn [given returned app]. rewrite ?app_nil_r. apply Permutation_app_comm.
    + intros H. exact I.
Qed.

(* ---- fill_spare ---------------------------------------------------------------------------- *)

Theorem fill_spare_fault v : fault_safe (OFillSpare v) FDrop.
Proof.
  intros s w k HW Hop Hf Hk Hnd Hid. pose proof HW as HW'. wf HW'.
  cbn [given] in *.
  destruct ((cap s =? 0) || (size s =? cap s)) eqn:E.
  - (* nowhere to put it: the value is destroyed, and that may panic *)
    pose proof (fill_spare_full_gen v s w E) as Hfs.
    destruct (drops_cases w [v] k Hf Hk) as [[Hro Hfa]|[Hro Hfa]].
    + apply (fault_safe_assemble (OFillSpare v) FDrop s w (Panic PUser) s (wdrops w [v])
               (drops [v]) [] Hnd Hid).
      * cbn [exec]. erewrite bind_panic by (rewrite Hfs, Hro; reflexivity). reflexivity.
      * reflexivity.
      * reflexivity.
      * cbn. lia.
      * auto.
      * left. exact Hfa.
      * exact HW.
      * reflexivity.
      * constructor.
      * intros e [].
      * cbn [given returned app created_of dropped_of drops map flat_map].
        rewrite ?app_nil_r. apply Permutation_refl.
      * intros H. congruence.
    + apply (fault_safe_assemble (OFillSpare v) FDrop s w (Ok OutUnit) s (wdrops w [v])
               (drops [v]) [] Hnd Hid).
      * cbn [exec]. erewrite bind_ok by (rewrite Hfs, Hro; reflexivity). reflexivity.
      * reflexivity.
      * reflexivity.
      * cbn. lia.
      * exact I.
      * right. exact Hfa.
      * exact HW.
      * reflexivity.
      * constructor.
      * intros e [].
      * cbn [given returned app created_of dropped_of drops map flat_map].
        rewrite ?app_nil_r. apply Permutation_refl.
      * intros H. exact I.
  - (* room: clones only, no destructor runs *)
    destruct (fill_spare_room_q v s w HW (quiet_drop_clone w k Hf) E)
      as (s2 & Hl & Ha2 & HW2 & Hc2).
    set (n := Z.to_nat (cap s - size s - 1)) in *.
    set (cl := clones (next_id w) (repeat v n)) in *.
    apply (fault_safe_assemble (OFillSpare v) FDrop s w (Ok OutUnit) s2
             (wev w (clone_evs (next_id w) (repeat v n)) (next_id w + (cap s - size s - 1)))
             (clone_evs (next_id w) (repeat v n)) [] Hnd Hid).
    + cbn [exec]. erewrite bind_ok by exact Hl. reflexivity.
    + reflexivity.
    + reflexivity.
    + cbn. lia.
    + exact I.
    + right. exists k. split; [exact Hf|exact Hk].
    + exact HW2.
    + exact Hc2.
    + rewrite created_of_clone_evs. apply NoDup_ids_clones.
    + rewrite created_of_clone_evs. intros e He. apply clones_ids_range in He.
      rewrite repeat_length in He. cbn [next_id wev]. lia.
    + rewrite Ha2, created_of_clone_evs, dropped_of_clone_evs. fold cl.
      cbn [given returned app]. rewrite ?app_nil_r.
      apply Permutation_app_head. apply Permutation_app_comm.
    + intros H. exact I.
Qed.

(* ---- fill ------------------------------------------------------------------------------------ *)

Theorem fill_fault v : fault_safe (OFill v) FDrop.
Proof.
  intros s w k HW Hop Hf Hk Hnd Hid. pose proof HW as HW'. wf HW'.
  cbn [given] in *.
  destruct (clear_gen s w HW) as (s1 & Hc & Ha1 & HW1 & Hc1).
  pose proof (abs_nil_size s1 HW1 Ha1) as Hz1.
  set (w1 := wdrops w (abs s)) in *.
  assert (Hw2 : wdrops w1 [v] = wdrops w (abs s ++ [v])) by apply wdrops_app.
  assert (Hperm : Permutation ([] ++ [] ++ (abs s ++ [v]) ++ []) (abs s ++ [v] ++ [])).
  { cbn [app]. rewrite ?app_nil_r. apply Permutation_refl. }
  destruct (drops_cases w (abs s) k Hf Hk) as [[Hro Hfa]|[Hro (k' & Hfa & Hk')]];
    fold w1 in Hfa, Hro.
  - (* clear unwinds: the value, a live local, is destroyed by the cleanup;
       the plan is spent, so this cannot panic again *)
    apply (fault_safe_assemble (OFill v) FDrop s w (Panic PUser) s1 (wdrops w (abs s ++ [v]))
             (drops (abs s ++ [v])) [] Hnd Hid).
    + cbn [exec]. unfold fill. rewrite bind_assoc.
      erewrite bind_panic; [reflexivity|].
      eapply on_unwind_panic; [rewrite Hc, Hro; reflexivity|].
      rewrite drop_elem_gen, Hw2. rewrite rdrops_nofault by exact Hfa. reflexivity.
    + reflexivity.
    + reflexivity.
    + cbn. lia.
    + split; [reflexivity|]. rewrite <- Hw2. rewrite wdrops_fault, Hfa. reflexivity.
    + left. rewrite <- Hw2. rewrite wdrops_fault, Hfa. reflexivity.
    + exact HW1.
    + exact Hc1.
    + rewrite created_of_drops. constructor.
    + rewrite created_of_drops. intros e [].
    + rewrite Ha1, created_of_drops, dropped_of_drops. cbn [given returned]. exact Hperm.
    + intros H. congruence.
  - destruct ((cap s1 =? 0) || (size s1 =? cap s1)) eqn:E.
    + (* capacity 0: the value is destroyed, and that may panic *)
      pose proof (fill_spare_full_gen v s1 w1 E) as Hfs.
      destruct (drops_cases w1 [v] k' Hfa Hk') as [[Hro2 Hfa2]|[Hro2 Hfa2]];
        rewrite Hw2 in *.
      * apply (fault_safe_assemble (OFill v) FDrop s w (Panic PUser) s1
                 (wdrops w (abs s ++ [v])) (drops (abs s ++ [v])) [] Hnd Hid).
        -- cbn [exec]. unfold fill. rewrite bind_assoc.
           erewrite bind_ok by (apply on_unwind_ok; rewrite Hc, Hro; reflexivity).
           erewrite bind_panic by (rewrite Hfs, Hro2; reflexivity). reflexivity.
        -- reflexivity.
        -- reflexivity.
        -- cbn. lia.
        -- auto.
        -- left. exact Hfa2.
        -- exact HW1.
        -- exact Hc1.
        -- rewrite created_of_drops. constructor.
        -- rewrite created_of_drops. intros e [].
        -- rewrite Ha1, created_of_drops, dropped_of_drops. cbn [given returned]. exact Hperm.
        -- intros H. congruence.
      * apply (fault_safe_assemble (OFill v) FDrop s w (Ok OutUnit) s1
                 (wdrops w (abs s ++ [v])) (drops (abs s ++ [v])) [] Hnd Hid).
        -- cbn [exec]. unfold fill. rewrite bind_assoc.
           erewrite bind_ok by (apply on_unwind_ok; rewrite Hc, Hro; reflexivity).
           erewrite bind_ok by (rewrite Hfs, Hro2; reflexivity). reflexivity.
        -- reflexivity.
        -- reflexivity.
        -- cbn. lia.
        -- exact I.
        -- right. exact Hfa2.
        -- exact HW1.
        -- exact Hc1.
        -- rewrite created_of_drops. constructor.
        -- rewrite created_of_drops. intros e [].
        -- rewrite Ha1, created_of_drops, dropped_of_drops. cbn [given returned]. exact Hperm.
        -- intros H. exact I.
    + (* clear returned, there is room: clones only *)
      destruct (fill_spare_room_q v s1 w1 HW1 (quiet_drop_clone w1 k' Hfa) E)
        as (s2 & Hl & Ha2 & HW2 & Hc2).
      change (next_id w1) with (next_id w) in *.
      set (n := Z.to_nat (cap s1 - size s1 - 1)) in *.
      set (cl := clones (next_id w) (repeat v n)) in *.
      rewrite Ha1 in Ha2. cbn [app] in Ha2.
      apply (fault_safe_assemble (OFill v) FDrop s w (Ok OutUnit) s2
               (wev w1 (clone_evs (next_id w) (repeat v n)) (next_id w + (cap s1 - size s1 - 1)))
               (drops (abs s) ++ clone_evs (next_id w) (repeat v n)) [] Hnd Hid).
      * cbn [exec]. unfold fill. rewrite bind_assoc.
        erewrite bind_ok by (apply on_unwind_ok; rewrite Hc, Hro; reflexivity).
        erewrite bind_ok by exact Hl. reflexivity.
      * cbn. rewrite app_assoc. reflexivity.
      * reflexivity.
      * cbn. lia.
      * exact I.
      * right. exists k'. split; [exact Hfa|exact Hk'].
      * exact HW2.
      * congruence.
      * rewrite created_of_app, created_of_drops, created_of_clone_evs. cbn [app].
        apply NoDup_ids_clones.
      * rewrite created_of_app, created_of_drops, created_of_clone_evs. cbn [app].
        intros e He. apply clones_ids_range in He.
        rewrite repeat_length in He. cbn [next_id wev]. lia.
      * rewrite Ha2, created_of_app, created_of_drops, created_of_clone_evs,
          dropped_of_app, dropped_of_drops, dropped_of_clone_evs. fold cl.
        cbn [given returned app]. rewrite ?app_nil_r.
        eapply Permutation_trans; [apply Permutation_app_comm|].
        apply Permutation_app_head. apply Permutation_app_comm.
      * intros H. exact I.
Qed.

(* ---- drain: what the script hands out -------------------------------------------------------- *)

Lemma skipn_nth_error {A} (l : list A) : forall n x,
  nth_error l n = Some x -> skipn n l = x :: skipn (S n) l.
Proof.
  induction l as [|a l IH]; intros [|n] x H; cbn in *; try discriminate.
  - inversion H. reflexivity.
  - apply IH. exact H.
Qed.

Lemma nth_error_skipn' {A} (l : list A) : forall n i,
  nth_error (skipn n l) i = nth_error l (n + i).
Proof.
  induction l as [|a l IH]; intros [|n] i; cbn [skipn Nat.add]; try reflexivity.
  - destruct i; reflexivity.
  - cbn [nth_error]. apply IH.
Qed.

Lemma firstn_S_snoc {A} (t : list A) : forall k x,
  nth_error t k = Some x -> firstn (S k) t = firstn k t ++ [x].
Proof.
  induction t as [|a t IH]; intros [|k] x H; cbn in *; try discriminate.
  - inversion H. reflexivity.
  - f_equal. apply IH. exact H.
Qed.

Lemma sublist_cons {A} (l : list A) lo hi x :
  (lo < hi)%nat -> nth_error l lo = Some x -> sublist lo hi l = x :: sublist (S lo) hi l.
Proof.
  intros Hlt H. unfold sublist. rewrite (skipn_nth_error l lo x H).
  replace (hi - lo)%nat with (S (hi - S lo)) by lia. reflexivity.
Qed.

Lemma sublist_snoc {A} (l : list A) lo hi x :
  (lo < hi)%nat -> nth_error l (hi - 1) = Some x ->
  sublist lo hi l = sublist lo (hi - 1) l ++ [x].
Proof.
  intros Hlt H. unfold sublist.
  replace (hi - lo)%nat with (S (hi - 1 - lo)) by lia.
  apply firstn_S_snoc. rewrite nth_error_skipn'.
  replace (lo + (hi - 1 - lo))%nat with (hi - 1)%nat by lia. exact H.
Qed.

Lemma nth_error_some {A} (l : list A) n : (n < length l)%nat -> exists x, nth_error l n = Some x.
Proof.
  intros H. destruct (nth_error l n) as [x|] eqn:E; [eauto|].
  apply nth_error_None in E. lia.
Qed.

Lemma skipn_skipn' {A} : forall y x (l : list A), skipn x (skipn y l) = skipn (y + x) l.
Proof.
  induction y as [|y IH]; intros x l; [reflexivity|].
  destruct l as [|a l]; cbn [skipn Nat.add]; [destruct x; reflexivity|]. apply IH.
Qed.

Lemma list_split3 {A} (l : list A) a b :
  (a <= b)%nat -> l = firstn a l ++ sublist a b l ++ skipn b l.
Proof.
  intros H. unfold sublist.
  replace (skipn b l) with (skipn (b - a) (skipn a l))
    by (rewrite skipn_skipn'; f_equal; lia).
  rewrite firstn_skipn, firstn_skipn. reflexivity.
Qed.

Lemma sres_items_erase rs : sres_items (map erase_sres rs) = sres_items rs.
Proof.
  unfold sres_items. induction rs as [|r rs IH]; [reflexivity|].
  cbn [map flat_map]. rewrite IH. f_equal.
  destruct r as [[[p e]|]|n|l]; reflexivity.
Qed.

(* a read-only script on the window [lo, hi): what was handed out and what is
   left of the window are together the window *)
Lemma spec_script_items l : forall script lo hi rs l' lo' hi',
  (lo <= hi)%nat -> (hi <= length l)%nat ->
  spec_script l lo hi (map plain_step script) = (rs, l', (lo', hi')) ->
  Permutation (sres_items rs ++ sublist lo' hi' l) (sublist lo hi l).
Proof.
  induction script as [|st rest IH]; intros lo hi rs l' lo' hi' Hlh Hhi H.
  - cbn in H. inversion H. subst. apply Permutation_refl.
  - assert (Hfront :
      (if Nat.ltb lo hi then
         let '(rs, l', w) := spec_script l (S lo) hi (map plain_step rest) in
         (RItem (option_map epe (nth_error l lo)) :: rs, l', w)
       else
         let '(rs, l', w) := spec_script l lo hi (map plain_step rest) in
         (RItem None :: rs, l', w)) = (rs, l', (lo', hi')) ->
      Permutation (sres_items rs ++ sublist lo' hi' l) (sublist lo hi l)).
    { clear H. intros H. destruct (Nat.ltb_spec lo hi) as [Hlt|Hge].
      - destruct (spec_script l (S lo) hi (map plain_step rest)) as [[rs1 l1] [lo1 hi1]] eqn:E.
        inversion H. subst.
        destruct (nth_error_some l lo ltac:(lia)) as (x & Hx).
        rewrite Hx. cbn [option_map epe sres_items flat_map app].
        rewrite (sublist_cons l lo hi x Hlt Hx). apply perm_skip.
        apply (IH (S lo) hi rs1 l' lo' hi'); [lia|lia|exact E].
      - destruct (spec_script l lo hi (map plain_step rest)) as [[rs1 l1] [lo1 hi1]] eqn:E.
        inversion H. subst. cbn [sres_items flat_map app].
        apply (IH lo hi rs1 l' lo' hi'); [lia|lia|exact E]. }
    assert (Hback :
      (if Nat.ltb lo hi then
         let '(rs, l', w) := spec_script l lo (hi - 1) (map plain_step rest) in
         (RItem (option_map epe (nth_error l (hi - 1))) :: rs, l', w)
       else
         let '(rs, l', w) := spec_script l lo hi (map plain_step rest) in
         (RItem None :: rs, l', w)) = (rs, l', (lo', hi')) ->
      Permutation (sres_items rs ++ sublist lo' hi' l) (sublist lo hi l)).
    { clear H. intros H. destruct (Nat.ltb_spec lo hi) as [Hlt|Hge].
      - destruct (spec_script l lo (hi - 1) (map plain_step rest)) as [[rs1 l1] [lo1 hi1]] eqn:E.
        inversion H. subst.
        destruct (nth_error_some l (hi - 1) ltac:(lia)) as (x & Hx).
        rewrite Hx. cbn [option_map epe sres_items flat_map app].
        rewrite (sublist_snoc l lo hi x Hlt Hx).
        eapply Permutation_trans; [|apply Permutation_cons_append].
        apply perm_skip.
        apply (IH lo (hi - 1)%nat rs1 l' lo' hi'); [lia|lia|exact E].
      - destruct (spec_script l lo hi (map plain_step rest)) as [[rs1 l1] [lo1 hi1]] eqn:E.
        inversion H. subst. cbn [sres_items flat_map app].
        apply (IH lo hi rs1 l' lo' hi'); [lia|lia|exact E]. }
    assert (Hlen :
      (let '(rs, l', w) := spec_script l lo hi (map plain_step rest) in
       (RLen (Z.of_nat (hi - lo)) :: rs, l', w)) = (rs, l', (lo', hi')) ->
      Permutation (sres_items rs ++ sublist lo' hi' l) (sublist lo hi l)).
    { clear H. intros H.
      destruct (spec_script l lo hi (map plain_step rest)) as [[rs1 l1] [lo1 hi1]] eqn:E.
      inversion H. subst. cbn [sres_items flat_map app].
      apply (IH lo hi rs1 l' lo' hi'); [lia|lia|exact E]. }
    destruct st; cbn [map plain_step spec_script] in H; auto.
Qed.

(* ---- Drop for Drain under any plan ------------------------------------------------------------- *)

Ltac blem_user ::=
  first [ apply add_mod_ok; mcbn; lia | apply sub_mod_ok; mcbn; lia
        | apply csp_available_len_ok; cbn [c_len c_off]; lia
        | apply csp_as_ptr_ok; cbn [c_len c_off]; lia
        | apply csp_add_ok; cbn [c_len c_off]; lia ].

(* if a destructor of an un-yielded element panics, the back-fill does not
   run and the buffer stays empty (the tail is leaked); otherwise as without
   faults *)
Lemma drain_drop_gen s w n a b lo hi :
  geom s -> size s = 0 ->
  0 <= a <= lo -> lo <= hi -> hi <= b -> b <= n -> n <= cap s ->
  let D := lslots s lo (hi - lo) in
  (rdrops w D = Panic PUser ->
   drain_drop (mkD n a b lo hi) s w = (Panic PUser, s, wdrops w D)) /\
  (rdrops w D = Ok tt ->
   exists f',
    drain_drop (mkD n a b lo hi) s w =
      (Ok tt, b_size (b_items s f') (n - (b - a)), wdrops w D) /\
    (forall j, 0 <= j < a -> f' (phys s j) = items s (phys s j)) /\
    (forall j, a <= j < a + (n - b) -> f' (phys s j) = items s (phys s (j + (b - a))))).
Proof.
  intros Hg Hz Ha Hlh Hb Hbn Hn D.
  unfold drain_drop, drain_as_mut_slices.
  erewrite bind_ok by (apply drain_as_slices_ok; auto; lia).
  pose proof (drain_slices_elems s n lo hi Hg ltac:(lia) ltac:(lia) ltac:(lia)) as Hel.
  destruct (drain_slices_val s n lo hi) as [rgt lft]. cbn [fst snd] in Hel. cbv beta iota.
  pose proof (drop_two_gen rgt lft s w) as Hdrop. rewrite Hel in Hdrop. fold D in Hdrop.
  split; intros Hr; rewrite Hr in Hdrop.
  - erewrite bind_panic by exact Hdrop. reflexivity.
  - erewrite bind_ok by exact Hdrop.
    set (w1 := wdrops w D).
    destruct Hg as (Hc & H0 & Hst). mcbn.
    destruct (Z.eq_dec (cap s) 0) as [Hc0|Hc0].
    + ifb. exists (items s). rewrite b_items_same.
      replace (n - (b - a)) with 0 by lia.
      split; [|split; [reflexivity|intros; lia]].
      unfold ret. do 2 f_equal. destruct s. cbn in *. subst. reflexivity.
    + ifb. specialize (Hst ltac:(lia)).
      cbn [d_buf_size d_rs d_re d_is d_ie].
      unfold csp_new.
      bsteps. cbn [c_len c_off].
      destruct (fill_loop_ok n a b (Z.to_nat (n - b)) 0 s w1
                  (((0 + start s) mod cap s + a) mod cap s)
                  (((0 + start s) mod cap s + b) mod cap s) (n - b))
        as (f' & Hrun & HA & HB); try lia.
      { unfold phys. rewrite Zplus_mod_idemp_l. f_equal. lia. }
      { unfold phys. rewrite Zplus_mod_idemp_l. f_equal. lia. }
      exists f'. erewrite bind_ok by exact Hrun.
      assert (Hrl : range_len a b = b - a).
      { unfold range_len. destruct (a <? b) eqn:E; lia. }
      rewrite Hrl. bsteps.
      split; [reflexivity|]. split.
      * intros j Hj. apply HA. lia.
      * intros j Hj. apply HB. lia.
Qed.

(* ---- drain ------------------------------------------------------------------------------------------ *)

(* An invalid range makes the call panic with PAssert / PExpect whatever the
   plan is, so the statement is restricted to valid ranges. *)
Theorem drain_fault sb eb script :
  fault_safe_when (fun s => spec_bounds (size s) sb eb <> None)
                  (ODrain sb eb script false) FDrop.
Proof.
  intros s w k Hvalid HW (Hsb & Heb) Hf Hk Hnd Hid. pose proof HW as HW'. wf HW'.
  pose proof (translate_bounds_ok s w sb eb Hsb Heb ltac:(lia)) as Ht.
  destruct (spec_bounds (size s) sb eb) as [[a b]|]; [|congruence].
  destruct Ht as (Ht & Hab & Hbn).
  destruct (drain_script_ok (abs s) (b_size s 0) w (size s) a b (geom_b_size0 s HW)
              ltac:(lia) ltac:(lia) ltac:(cbn; lia) (abs_zlen s ltac:(lia))
              ltac:(intros i Hi; exact (zn_abs s i Hi)) script (Z.to_nat a) (Z.to_nat b)
              ltac:(lia) ltac:(lia) ltac:(lia))
    as (rs & lo' & hi' & Hr & Hs & H1 & H2 & H3).
  rewrite !Z2Nat.id in Hr by lia.
  pose proof (spec_script_items (abs s) script (Z.to_nat a) (Z.to_nat b) _ _ _ _
                ltac:(lia) ltac:(rewrite abs_length; lia) Hs) as Hitems.
  rewrite sres_items_erase in Hitems.
  destruct (drain_drop_gen (b_size s 0) w (size s) a b (Z.of_nat lo') (Z.of_nat hi')
              (geom_b_size0 s HW) eq_refl ltac:(lia) ltac:(lia) ltac:(lia) ltac:(lia)
              ltac:(cbn; lia)) as (Hpanic & Hok).
  change (lslots (b_size s 0)) with (lslots s) in *.
  rewrite lslots_sublist in * by lia.
  set (D := sublist lo' hi' (abs s)) in *.
  set (F := firstn (Z.to_nat a) (abs s)).
  set (S := skipn (Z.to_nat b) (abs s)).
  assert (Hsplit : abs s = F ++ sublist (Z.to_nat a) (Z.to_nat b) (abs s) ++ S)
    by (apply list_split3; lia).
  cbn [given] in *.
  destruct (drops_cases w D k Hf Hk) as [[Hro Hfa]|[Hro Hfa]].
  - (* a destructor panics: nothing is moved back, the buffer stays empty *)
    apply (fault_safe_assemble (ODrain sb eb script false) FDrop s w (Panic PUser)
             (b_size s 0) (wdrops w D) (drops D) (sres_items rs ++ F ++ S) Hnd Hid).
    + cbn [exec].
      erewrite bind_ok by (apply drain_over_range_ok; exact Ht).
      erewrite bind_ok by exact Hr. cbv beta iota.
      erewrite bind_panic by (apply Hpanic; exact Hro). reflexivity.
    + reflexivity.
    + reflexivity.
    + cbn. lia.
    + auto.
    + left. exact Hfa.
    + apply WF_mk; cbn; lia.
    + reflexivity.
    + rewrite created_of_drops. constructor.
    + rewrite created_of_drops. intros e [].
    + rewrite (abs_empty (b_size s 0)) by reflexivity.
      rewrite created_of_drops, dropped_of_drops. cbn [given returned app].
      rewrite ?app_nil_r. rewrite Hsplit at 1.
      rewrite app_assoc.
      eapply Permutation_trans;
        [apply Permutation_app_tail; eapply Permutation_trans;
           [apply Permutation_app_comm|exact Hitems]|].
      eapply Permutation_trans; [apply Permutation_app_comm|].
      rewrite <- app_assoc. apply Permutation_app_head. apply Permutation_app_comm.
    + intros H. congruence.
  - destruct (Hok Hro) as (f' & Hd & HA & HB).
    assert (Habs' : abs (b_size (b_items (b_size s 0) f') (size s - (b - a))) = F ++ S).
    { unfold F, S. rewrite <- (abs_after_drain s f' a b) by (auto; lia). reflexivity. }
    apply (fault_safe_assemble (ODrain sb eb script false) FDrop s w (Ok (OutScript rs))
             (b_size (b_items (b_size s 0) f') (size s - (b - a))) (wdrops w D) (drops D) []
             Hnd Hid).
    + cbn [exec].
      erewrite bind_ok by (apply drain_over_range_ok; exact Ht).
      erewrite bind_ok by exact Hr. cbv beta iota.
      erewrite bind_ok by exact Hd. reflexivity.
    + reflexivity.
    + reflexivity.
    + cbn. lia.
    + exact I.
    + right. exact Hfa.
    + apply WF_mk; cbn; lia.
    + reflexivity.
    + rewrite created_of_drops. constructor.
    + rewrite created_of_drops. intros e [].
    + rewrite Habs', created_of_drops, dropped_of_drops. cbn [given returned app].
      rewrite ?app_nil_r. rewrite Hsplit at 1.
      rewrite <- app_assoc. apply Permutation_app_head.
      eapply Permutation_trans; [apply Permutation_app_comm|].
      apply Permutation_app_tail. exact Hitems.
    + intros H. exact I.
Qed.

(* the full range is always valid *)
Corollary drain_all_fault script : fault_safe (ODrain BUnb BUnb script false) FDrop.
Proof.
  intros s w k HW. apply drain_fault; [|exact HW]. wf HW.
  unfold spec_bounds. replace ((size s <=? size s) && (0 <=? size s)) with true by lia.
  discriminate.
Qed.

(* Without the restriction the statement is false, for a reason that has
   nothing to do with faults: drain(1..0) panics with PAssert. *)
Lemma drain_fault_unrestricted_false :
  ~ fault_safe (ODrain (BIncl 1) (BExcl 0) [] false) FDrop.
Proof.
  intros H.
  assert (HW1 : 1 < W) by (rewrite W_eq; reflexivity).
  destruct (H (mkB 0 0 0 junk0) (mkW true 0 [] (Some (FDrop, 0))) 0)
    as (r & s' & w' & evs & He & _ & _ & _ & Hr & _).
  - unfold WF. cbn. lia.
  - cbn. unfold in_usize. lia.
  - reflexivity.
  - lia.
  - cbn. constructor.
  - cbn. intros e [].
  - cbn in He. inversion He. subst r. destruct Hr as [Hr _]. discriminate.
Qed.
