(* FaultDropB.v — destructor panics (fault kind FDrop) in the bulk
   constructors and mutators: extend, from_iter, from_array, clone, clone_from,
   extend_from_slice. Statement form: [fault_safe] of FaultDefs.v.

   Part 1: the primitives under ANY world whose plan is spent or of kind FDrop.
   Part 2: the functions. Part 3: the ledger and the theorems. *)

From CB Require Import Spec.
From CBP Require Import MonadLemmas Arith AbsLemmas ListLemmas AbsOps Core Step PushPop
     Slices Truncate RefDefs RefTruncate Views FillExtend FaultDefs Ctors.
From Coq Require Import ZifyBool Permutation.
Ltac Zify.zify_post_hook ::= Z.div_mod_to_equations.

Ltac blem_user ::=
  first [ apply add_mod_ok; mcbn; lia | apply sub_mod_ok; mcbn; lia ].

(* ================================================================== *)
(* Part 1: worlds, plans, primitives                                   *)

(* the world after emitting [evs], advancing the identity counter to [nid]
   and leaving the plan [f] *)
Definition wevf (w : world) (evs : list event) (nid : Z) (f : option (fkind * Z)) : world :=
  mkW (dbg w) nid (log w ++ evs) f.

Lemma wevf_wevf w e1 n1 f1 e2 n2 f2 :
  wevf (wevf w e1 n1 f1) e2 n2 f2 = wevf w (e1 ++ e2) n2 f2.
Proof. unfold wevf. cbn. rewrite app_assoc. reflexivity. Qed.

Lemma wev_wevf w evs nid : wev w evs nid = wevf w evs nid (fault w).
Proof. reflexivity. Qed.

Lemma wevf_nil w : wevf w [] (next_id w) (fault w) = w.
Proof. destruct w. unfold wevf. cbn. rewrite app_nil_r. reflexivity. Qed.

(* the plan is spent, or armed for a destructor *)
Definition dplan (f : option (fkind * Z)) : Prop :=
  f = None \/ exists k, f = Some (FDrop, k) /\ 0 <= k.

Lemma dplan_None : dplan None.
Proof. left. reflexivity. Qed.

(* what a computation started under plan [f] may end with: plan [f'] is
   again spent-or-FDrop; a panic is the injected one and spends the plan; a
   spent plan stays spent and nothing panics *)
Definition fpost {A} (f : option (fkind * Z)) (r : outcome A) (f' : option (fkind * Z)) : Prop :=
  dplan f' /\
  (match r with Ok _ => True | Panic p => p = PUser /\ f' = None end) /\
  (f = None -> f' = None /\ exists a, r = Ok a).

Lemma fpost_refl {A} f (a : A) : dplan f -> fpost f (Ok a) f.
Proof. intros H. split; [exact H|]. split; [exact I|]. intros ->. split; [reflexivity|eauto]. Qed.

Lemma fpost_trans {A B} f f1 f2 (a : A) (r : outcome B) :
  fpost f (Ok a) f1 -> fpost f1 r f2 -> fpost f r f2.
Proof.
  intros (_ & _ & H1) (D2 & M2 & H2). split; [exact D2|]. split; [exact M2|].
  intros Hf. apply H2. apply H1. exact Hf.
Qed.

Lemma fpost_dplan {A} f (r : outcome A) f' : fpost f r f' -> dplan f'.
Proof. intros (H & _). exact H. Qed.

Lemma fpost_panic {A} f p f' : @fpost A f (Panic p) f' -> p = PUser /\ f' = None.
Proof. intros (_ & H & _). exact H. Qed.

(* a panic is impossible once the plan is spent *)
Lemma fpost_None_ok {A} (r : outcome A) f' : fpost None r f' -> f' = None /\ exists a, r = Ok a.
Proof. intros (_ & _ & H). apply H. reflexivity. Qed.

Lemma fpost_map {A B} f (r : outcome A) f' (r' : outcome B) :
  fpost f r f' ->
  (match r with Ok _ => exists b, r' = Ok b | Panic p => r' = Panic p end) ->
  fpost f r' f'.
Proof.
  intros (D & M & H) Hr. split; [exact D|]. split.
  - destruct r as [a|p].
    + destruct Hr as (b & ->). exact I.
    + rewrite Hr. exact M.
  - intros Hf. destruct (H Hf) as (E & a & ->). split; [exact E|]. exact Hr.
Qed.

(* user calls of another kind do not see an FDrop plan *)
Lemma user_call_other fk s w :
  dplan (fault w) -> fk <> FDrop -> user_call fk s w = (Ok tt, s, w).
Proof.
  intros [H|(k & H & _)] Hk; unfold user_call; rewrite H; [reflexivity|].
  destruct fk; try reflexivity. congruence.
Qed.

Lemma clone_elem_d e s w :
  dplan (fault w) ->
  clone_elem e s w =
    (Ok (mkE (next_id w) (eval e)), s,
     wev w [EvClone e (mkE (next_id w) (eval e))] (next_id w + 1)).
Proof.
  intros H. unfold clone_elem.
  erewrite bind_ok by (apply user_call_other; [exact H|discriminate]).
  reflexivity.
Qed.

(* stepping the user iterator *)
Lemma iter_step_d xs s w :
  dplan (fault w) ->
  on_unwind (emit EvNext;; user_call FNext) (drop_list xs) s w =
    (Ok tt, s, wevf w [EvNext] (next_id w) (fault w)).
Proof.
  intros H. apply on_unwind_ok. erewrite bind_ok by apply emit_eq.
  rewrite user_call_other; [reflexivity|exact H|discriminate].
Qed.

(* ---- destructors ------------------------------------------------------------ *)

Lemma drop_elem_f e s w :
  dplan (fault w) ->
  exists r f',
    drop_elem e s w = (r, s, wevf w [EvDrop e] (next_id w) f') /\ fpost (fault w) r f'.
Proof.
  intros H. destruct w as [d n l f]. cbn [fault] in H.
  unfold drop_elem, bind, emit, user_call, wevf, w_log, w_fault. cbn [fault dbg next_id log].
  destruct H as [->|(k & -> & Hk)].
  - exists (Ok tt), None. split; [reflexivity|]. apply fpost_refl. apply dplan_None.
  - cbn [fkind_eqb]. destruct (k =? 0) eqn:E.
    + exists (Panic PUser), None. split; [reflexivity|].
      split; [apply dplan_None|]. split; [auto|]. discriminate.
    + exists (Ok tt), (Some (FDrop, k - 1)). split; [reflexivity|].
      split; [right; exists (k - 1); split; [reflexivity|lia]|]. split; [exact I|]. discriminate.
Qed.

Lemma finally_f {A} (body : M A) (cleanup : M unit) s w r1 s1 w1 r2 s2 w2 :
  body s w = (r1, s1, w1) -> cleanup s1 w1 = (r2, s2, w2) ->
  fpost (fault w) r1 (fault w1) -> fpost (fault w1) r2 (fault w2) ->
  exists r,
    finally body cleanup s w = (r, s2, w2) /\ fpost (fault w) r (fault w2) /\
    (match r with Ok a => r1 = Ok a | Panic _ => True end).
Proof.
  intros Hb Hc P1 P2. unfold finally. rewrite Hb, Hc.
  destruct r2 as [[]|p2].
  - exists r1. split; [reflexivity|]. split; [|destruct r1; auto].
    destruct r1 as [a|p1].
    + eapply fpost_trans; [exact P1|]. eapply fpost_map; [exact P2|]. cbn. eauto.
    + destruct (fpost_panic _ _ _ P1) as [-> E1]. rewrite E1 in P2.
      destruct (fpost_None_ok _ _ P2) as (E2 & _).
      split; [rewrite E2; apply dplan_None|]. split; [auto|].
      intros Hf. destruct P1 as (_ & _ & H1). destruct (H1 Hf) as (_ & a & Ha). discriminate.
  - destruct (fpost_panic _ _ _ P2) as [-> E2].
    destruct r1 as [a|p1].
    + exists (Panic PUser). split; [reflexivity|]. split; [|exact I].
      split; [rewrite E2; apply dplan_None|]. split; [auto|].
      intros Hf. destruct P1 as (_ & _ & H1). destruct (H1 Hf) as (E1 & _).
      rewrite E1 in P2. destruct (fpost_None_ok _ _ P2) as (_ & a' & Ha). discriminate.
    + exfalso. destruct (fpost_panic _ _ _ P1) as [_ E1]. rewrite E1 in P2.
      destruct (fpost_None_ok _ _ P2) as (_ & a' & Ha). discriminate.
Qed.

Lemma on_unwind_panic {A} (body : M A) (cleanup : M unit) s w p s1 w1 s2 w2 :
  body s w = (Panic p, s1, w1) -> cleanup s1 w1 = (Ok tt, s2, w2) ->
  on_unwind body cleanup s w = (Panic p, s2, w2).
Proof. intros H1 H2. unfold on_unwind. rewrite H1, H2. reflexivity. Qed.

(* every element is destroyed, whatever happens *)
Lemma drop_list_f es s : forall w,
  dplan (fault w) ->
  exists r f',
    drop_list es s w = (r, s, wevf w (drops es) (next_id w) f') /\ fpost (fault w) r f'.
Proof.
  induction es as [|e es IH]; intros w H.
  - exists (Ok tt), (fault w). cbn [drop_list drops map]. rewrite wevf_nil.
    split; [reflexivity|]. apply fpost_refl. exact H.
  - destruct (drop_elem_f e s w H) as (r1 & f1 & H1 & P1).
    destruct (IH (wevf w [EvDrop e] (next_id w) f1) (fpost_dplan _ _ _ P1))
      as (r2 & f2 & H2 & P2).
    destruct (finally_f _ _ _ _ _ _ _ _ _ _ H1 H2 P1 P2) as (r & Hr & P & _).
    exists r, f2. cbn [drop_list]. rewrite Hr. rewrite wevf_wevf. split; [reflexivity|exact P].
Qed.

Lemma drop_opt_f o s w :
  dplan (fault w) ->
  exists r f',
    drop_opt o s w = (r, s, wevf w (opt_drop o) (next_id w) f') /\ fpost (fault w) r f'.
Proof.
  intros H. destruct o as [e|]; cbn [drop_opt opt_drop].
  - apply drop_elem_f. exact H.
  - exists (Ok tt), (fault w). rewrite wevf_nil. split; [reflexivity|]. apply fpost_refl. exact H.
Qed.

Lemma drop_slice_f sl s w :
  dplan (fault w) ->
  exists r f',
    drop_slice sl s w = (r, s, wevf w (drops (sl_elems (items s) sl)) (next_id w) f') /\
    fpost (fault w) r f'.
Proof. intros H. unfold drop_slice. mcbn. apply drop_list_f. exact H. Qed.

Lemma drop_two_f R L s w :
  dplan (fault w) ->
  exists r f',
    finally (drop_slice R) (drop_slice L) s w =
      (r, s, wevf w (drops (sl_elems (items s) R ++ sl_elems (items s) L)) (next_id w) f') /\
    fpost (fault w) r f'.
Proof.
  intros H. destruct (drop_slice_f R s w H) as (r1 & f1 & H1 & P1).
  destruct (drop_slice_f L s (wevf w (drops (sl_elems (items s) R)) (next_id w) f1)
              (fpost_dplan _ _ _ P1)) as (r2 & f2 & H2 & P2).
  destruct (finally_f _ _ _ _ _ _ _ _ _ _ H1 H2 P1 P2) as (r & Hr & P & _).
  exists r, f2. rewrite Hr, wevf_wevf. unfold drops. rewrite map_app.
  split; [reflexivity|exact P].
Qed.

(* ---- drop_range / clear / truncate_front / replace_buf --------------------- *)

(* the buffer is shrunk before anything is destroyed: same state, same
   destroyed elements with or without a panic *)
Theorem drop_range_f s w a b :
  WF s -> dplan (fault w) -> 0 <= a < b -> b <= size s -> (a = 0 \/ b = size s) ->
  exists r s' f',
    drop_range a b s w =
      (r, s', wevf w (drops (sublist (Z.to_nat a) (Z.to_nat b) (abs s))) (next_id w) f') /\
    fpost (fault w) r f' /\
    abs s' = (if b =? size s then firstn (Z.to_nat a) (abs s) else skipn (Z.to_nat b) (abs s)) /\
    WF s' /\ cap s' = cap s.
Proof.
  intros HW Hf Hab Hb Hends. pose proof HW as HW'. wf HW'.
  specialize (Hst ltac:(lia)).
  pose proof (range_slices_elems s a b ltac:(lia) Hst ltac:(lia) Hab Hb) as Hrs.
  unfold range_slices in Hrs.
  pose proof (phys_range s a ltac:(lia)) as Hpa.
  assert (Hdt : 0 <= (start s + b) mod cap s < cap s) by (apply Z.mod_pos_bound; lia).
  unfold drop_range. replace (b <=? a) with false by lia.
  mcbn. do 6 bstep. bstep. bstep. fold (phys s a) in *.
  set (s1 := if b =? size s then b_size s a
             else mkB (cap s) (size s - b) ((start s + b) mod cap s) (items s)).
  assert (Hbody : (if b =? size s then set_size a
                   else set_start ((start s + b) mod cap s);; v <- usub (size s) b;; set_size v)
                    s w = (Ok tt, s1, w)).
  { subst s1. destruct (b =? size s) eqn:Eb; [reflexivity|]. bgo. reflexivity. }
  assert (Hitems : items s1 = items s) by (subst s1; destruct (b =? size s); reflexivity).
  assert (Habs1 : abs s1 = if b =? size s then firstn (Z.to_nat a) (abs s)
                           else skipn (Z.to_nat b) (abs s)).
  { subst s1. destruct (b =? size s) eqn:Eb.
    - apply abs_truncate_back. lia.
    - apply abs_truncate_front; lia. }
  assert (HW1 : WF s1 /\ cap s1 = cap s).
  { subst s1. destruct (b =? size s) eqn:Eb; (split; [apply WF_mk; cbn; lia|reflexivity]). }
  assert (Hfin : forall R L,
             sl_elems (items s) R ++ sl_elems (items s) L
             = sublist (Z.to_nat a) (Z.to_nat b) (abs s) ->
             exists r f',
               finally
                 (if b =? size s then set_size a
                  else set_start ((start s + b) mod cap s);; v <- usub (size s) b;; set_size v)
                 (finally (drop_slice R) (drop_slice L)) s w =
               (r, s1, wevf w (drops (sublist (Z.to_nat a) (Z.to_nat b) (abs s))) (next_id w) f') /\
               fpost (fault w) r f').
  { intros R L Hel. destruct (drop_two_f R L s1 w Hf) as (r & f' & Hd & P).
    rewrite Hitems, Hel in Hd.
    exists r, f'. split; [|exact P].
    unfold finally at 1. rewrite Hbody, Hd. destruct r as [[]|p]; reflexivity. }
  destruct (phys s a <? (start s + b) mod cap s) eqn:Elt; destruct Hrs as (Hel & Hr & Hl).
  - destruct (Hfin _ _ Hel) as (r & f' & Hd & P).
    exists r, s1, f'. split; [|tauto].
    bgo. rewrite ?Z.add_0_l. exact Hd.
  - destruct (Hfin _ _ Hel) as (r & f' & Hd & P).
    exists r, s1, f'. split; [|tauto].
    bgo. rewrite ?Z.add_0_l, ?Z.sub_0_r. exact Hd.
Qed.

Theorem clear_f s w :
  WF s -> dplan (fault w) ->
  exists r s' f',
    clear s w = (r, s', wevf w (drops (abs s)) (next_id w) f') /\
    fpost (fault w) r f' /\ abs s' = [] /\ WF s' /\ cap s' = cap s.
Proof.
  intros HW Hf. pose proof HW as HW'. wf HW'. unfold clear, truncate_back. mcbn.
  destruct ((cap s =? 0) || (size s <=? 0)) eqn:E.
  - exists (Ok tt), s, (fault w). rewrite (abs_empty s) by lia. cbn [drops map].
    rewrite wevf_nil. split; [reflexivity|]. split; [apply fpost_refl; exact Hf|]. auto.
  - destruct (drop_range_f s w 0 (size s) HW Hf ltac:(lia) ltac:(lia) ltac:(lia))
      as (r & s' & f' & Hd & P & Ha & HW2 & Hc).
    exists r, s', f'. rewrite Hd. rewrite Z.eqb_refl in Ha.
    replace (Z.to_nat (size s)) with (length (abs s)) by (rewrite abs_length; reflexivity).
    rewrite sublist_to_end. cbn [Z.to_nat skipn]. auto.
Qed.

Theorem drop_buf_f s w :
  WF s -> dplan (fault w) ->
  exists r s' f',
    drop_buf s w = (r, s', wevf w (drops (abs s)) (next_id w) f') /\
    fpost (fault w) r f' /\ abs s' = [] /\ WF s' /\ cap s' = cap s.
Proof. apply clear_f. Qed.

(* the new buffer is installed first; then the old one is destroyed *)
Lemma replace_buf_f nb s w :
  WF s -> dplan (fault w) ->
  exists r f',
    replace_buf nb s w = (r, nb, wevf w (drops (abs s)) (next_id w) f') /\ fpost (fault w) r f'.
Proof.
  intros HW Hf. destruct (drop_buf_f s w HW Hf) as (r & s' & f' & Hd & P & _).
  unfold replace_buf. mcbn. unfold bind, with_buf. rewrite Hd.
  destruct r as [[]|p].
  - exists (Ok tt), f'. split; [reflexivity|exact P].
  - exists (Panic p), f'. split; [reflexivity|exact P].
Qed.

(* ================================================================== *)
(* Part 2: bookkeeping of traces                                       *)

Lemma dropped_app a b : dropped_of (a ++ b) = dropped_of a ++ dropped_of b.
Proof. apply flat_map_app. Qed.

Lemma created_app a b : created_of (a ++ b) = created_of a ++ created_of b.
Proof. apply flat_map_app. Qed.

Lemma dropped_drops l : dropped_of (drops l) = l.
Proof. induction l as [|x l IH]; [reflexivity|]. cbn. f_equal. exact IH. Qed.

Lemma created_drops l : created_of (drops l) = [].
Proof. induction l as [|x l IH]; [reflexivity|]. cbn. exact IH. Qed.

Lemma dropped_opt_drop o :
  dropped_of (opt_drop o) = match o with Some e => [e] | None => [] end.
Proof. destruct o; reflexivity. Qed.

Lemma created_opt_drop o : created_of (opt_drop o) = [].
Proof. destruct o; reflexivity. Qed.

Lemma dropped_clone_evs l : forall nid, dropped_of (clone_evs nid l) = [].
Proof. induction l as [|x l IH]; intros nid; [reflexivity|]. cbn. apply IH. Qed.

Lemma created_clone_evs l : forall nid, created_of (clone_evs nid l) = clones nid l.
Proof. induction l as [|x l IH]; intros nid; [reflexivity|]. cbn. f_equal. apply IH. Qed.

Lemma clones_range l : forall nid e, In e (clones nid l) -> nid <= eid e < nid + zlen l.
Proof.
  induction l as [|x l IH]; intros nid e H; [destruct H|].
  rewrite zlen_cons. pose proof (zlen_nonneg l). cbn [clones] in H. destruct H as [<-|H].
  - cbn [eid]. lia.
  - apply IH in H. lia.
Qed.

Lemma clones_NoDup l : forall nid, NoDup (ids (clones nid l)).
Proof.
  induction l as [|x l IH]; intros nid; [constructor|].
  cbn [clones ids map]. constructor; [|apply IH].
  intros H. apply in_map_iff in H. destruct H as (e & He & Hin).
  apply clones_range in Hin. cbn [eid] in He. lia.
Qed.

Lemma NoDup_app_intro {A} (l1 l2 : list A) :
  NoDup l1 -> NoDup l2 -> (forall x, In x l1 -> ~ In x l2) -> NoDup (l1 ++ l2).
Proof.
  induction l1 as [|a l1 IH]; intros H1 H2 H; [exact H2|].
  inversion H1 as [|? ? Ha Hl]; subst. cbn. constructor.
  - intros Hin. apply in_app_or in Hin. destruct Hin as [Hin|Hin]; [auto|].
    apply (H a); [left; reflexivity|exact Hin].
  - apply IH; [exact Hl|exact H2|]. intros x Hx. apply H. right. exact Hx.
Qed.

(* the ledger: when what is in the buffer, handed back or destroyed is a
   rearrangement of what was there, was given or was created, all the
   identity conditions of [fault_safe] follow *)
Lemma ledger (old giv cre now drp : list elem) nid nid' :
  NoDup (ids (old ++ giv)) ->
  (forall e, In e (old ++ giv) -> eid e < nid) ->
  NoDup (ids cre) -> (forall e, In e cre -> nid <= eid e < nid') ->
  nid <= nid' ->
  Permutation (now ++ drp) (old ++ giv ++ cre) ->
  NoDup (ids (now ++ [] ++ drp)) /\
  incl (now ++ [] ++ drp) (old ++ giv ++ cre) /\
  (forall e, In e (now ++ cre) -> eid e < nid').
Proof.
  intros Hnd Hold Hndc Hcre Hn P. cbn [app].
  assert (Hall : NoDup (ids (old ++ giv ++ cre))).
  { rewrite app_assoc. unfold ids. rewrite map_app. apply NoDup_app_intro.
    - exact Hnd.
    - exact Hndc.
    - intros x H1 H2. apply in_map_iff in H1. destruct H1 as (e1 & E1 & I1).
      apply in_map_iff in H2. destruct H2 as (e2 & E2 & I2).
      apply Hold in I1. apply Hcre in I2. lia. }
  split; [|split].
  - eapply Permutation_NoDup; [|exact Hall]. symmetry. apply Permutation_map. exact P.
  - intros e He. eapply Permutation_in; [exact P|exact He].
  - intros e He. apply in_app_or in He. destruct He as [He|He].
    + assert (In e (old ++ giv ++ cre)) as Hin.
      { eapply Permutation_in; [exact P|]. apply in_or_app. left. exact He. }
      rewrite app_assoc in Hin. apply in_app_or in Hin. destruct Hin as [Hin|Hin].
      * apply Hold in Hin. lia.
      * apply Hcre in Hin. lia.
    + apply Hcre in He. lia.
Qed.

(* running [ret OutUnit] after a unit computation *)
Lemma bind_ret_out {A} (m : M A) (v : out) s w r s' w' :
  m s w = (r, s', w') ->
  (_ <- m;; ret v) s w =
    (match r with Ok _ => Ok v | Panic p => Panic p end, s', w').
Proof. intros H. unfold bind. rewrite H. destruct r; reflexivity. Qed.

(* from a function-level description to [fault_safe]'s conclusion *)
Lemma fault_safe_intro (o : op) s w k r s' evs nid f' :
  fault w = Some (FDrop, k) -> 0 <= k ->
  NoDup (ids (abs s ++ given o)) ->
  (forall e, In e (abs s ++ given o) -> eid e < next_id w) ->
  exec o s w = (r, s', wevf w evs nid f') ->
  fpost (fault w) r f' -> next_id w <= nid -> WF s' -> cap s' = cap s ->
  returned o r = [] ->
  NoDup (ids (created_of evs)) ->
  (forall e, In e (created_of evs) -> next_id w <= eid e < nid) ->
  Permutation (abs s' ++ dropped_of evs) (abs s ++ given o ++ created_of evs) ->
  exists r s' w' evs,
    exec o s w = (r, s', w') /\
    log w' = log w ++ evs /\ dbg w' = dbg w /\ next_id w <= next_id w' /\
    (match r with Ok _ => True | Panic p => p = PUser /\ fault w' = None end) /\
    (fault w' = None \/ exists k', fault w' = Some (FDrop, k') /\ 0 <= k') /\
    WF s' /\ cap s' = cap s /\
    NoDup (ids (abs s' ++ returned o r ++ dropped_of evs)) /\
    incl (abs s' ++ returned o r ++ dropped_of evs) (abs s ++ given o ++ created_of evs) /\
    (forall e, In e (abs s' ++ created_of evs) -> eid e < next_id w') /\
    (FDrop <> FDrop ->
     match r with
     | Ok _ => True
     | Panic _ => incl (given o ++ created_of evs) (abs s' ++ dropped_of evs)
     end).
Proof.
  intros Hf Hk Hnd Hold He (D & Mr & _) Hn HW Hc Hret Hndc Hcre P.
  destruct (ledger _ _ _ _ _ _ _ Hnd Hold Hndc Hcre Hn P) as (L1 & L2 & L3).
  exists r, s', (wevf w evs nid f'), evs. rewrite Hret.
  split; [exact He|]. split; [reflexivity|]. split; [reflexivity|]. split; [exact Hn|].
  split; [exact Mr|]. split; [exact D|]. split; [exact HW|]. split; [exact Hc|].
  split; [exact L1|]. split; [exact L2|]. split; [exact L3|]. intros H. congruence.
Qed.

Lemma dplan_of_fault w k : fault w = Some (FDrop, k) -> 0 <= k -> dplan (fault w).
Proof. intros H Hk. right. exists k. auto. Qed.

(* ================================================================== *)
(* Part 3: extend / from_iter                                          *)

(* self.push_back(x); the evicted element (if any) is destroyed: x is in the
   buffer in every case *)
Lemma push_discard_f x s w :
  WF s -> dplan (fault w) ->
  exists ev r s' f',
    (r0 <- push_back x;; drop_opt r0) s w = (r, s', wevf w (opt_drop ev) (next_id w) f') /\
    fpost (fault w) r f' /\ WF s' /\ cap s' = cap s /\
    Permutation (abs s' ++ dropped_of (opt_drop ev)) (abs s ++ [x]).
Proof.
  intros HW Hf.
  destruct (push_back_refines s w x HW) as (s' & Hm & Ha & HW2 & Hc).
  destruct (drop_opt_f (fst (spec_push_back (cap s) (abs s) x)) s' w Hf) as (r & f' & Hd & P).
  exists (fst (spec_push_back (cap s) (abs s) x)), r, s', f'.
  erewrite bind_ok by exact Hm. split; [exact Hd|]. split; [exact P|].
  split; [exact HW2|]. split; [exact Hc|].
  rewrite Ha, dropped_opt_drop. unfold spec_push_back. cbv zeta.
  destruct (zlen (abs s ++ [x]) <=? cap s); cbn [fst snd].
  - rewrite app_nil_r. reflexivity.
  - destruct (abs s ++ [x]) as [|h t]; cbn [hd_error tl]; [reflexivity|].
    symmetry. apply Permutation_cons_append.
Qed.

Theorem extend_loop_f xs : forall s w,
  WF s -> dplan (fault w) ->
  exists r s' evs f',
    extend_loop xs s w = (r, s', wevf w evs (next_id w) f') /\
    fpost (fault w) r f' /\ WF s' /\ cap s' = cap s /\
    created_of evs = [] /\
    Permutation (abs s' ++ dropped_of evs) (abs s ++ xs).
Proof.
  induction xs as [|x rest IH]; intros s w HW Hf.
  - exists (Ok tt), s, [EvNext], (fault w). cbn [extend_loop].
    erewrite bind_ok by (apply iter_step_d; exact Hf). unfold ret.
    split; [reflexivity|]. split; [apply fpost_refl; exact Hf|].
    split; [exact HW|]. split; [reflexivity|]. split; [reflexivity|]. reflexivity.
  - set (w1 := wevf w [EvNext] (next_id w) (fault w)).
    destruct (push_discard_f x s w1 HW Hf) as (ev & r1 & s1 & f1 & Hp & P1 & HW1 & Hc1 & Pm1).
    cbn [extend_loop].
    erewrite bind_ok by (apply iter_step_d; exact Hf). fold w1.
    destruct r1 as [[]|p].
    + (* the push went through: go on *)
      set (w2 := wevf w1 (opt_drop ev) (next_id w1) f1) in *.
      destruct (IH s1 w2 HW1 (fpost_dplan _ _ _ P1))
        as (r2 & s2 & evs2 & f2 & Hl & P2 & HW2 & Hc2 & Hcr2 & Pm2).
      exists r2, s2, ([EvNext] ++ opt_drop ev ++ evs2), f2.
      erewrite bind_ok by (apply on_unwind_ok; exact Hp).
      rewrite Hl. subst w2 w1. rewrite !wevf_wevf.
      split; [reflexivity|]. split; [exact (fpost_trans _ _ _ _ _ P1 P2)|].
      split; [exact HW2|]. split; [congruence|].
      split.
      * rewrite !created_app, created_opt_drop, Hcr2. reflexivity.
      * rewrite !dropped_app. cbn [dropped_of flat_map app].
        rewrite Permutation_app_swap_app. rewrite Pm2.
        rewrite app_assoc. rewrite (Permutation_app_comm (dropped_of (opt_drop ev)) (abs s1)).
        rewrite Pm1. rewrite <- app_assoc. reflexivity.
    + (* the evicted element's destructor panicked: the iterator destroys
         what it still owns *)
      destruct (fpost_panic _ _ _ P1) as [-> ->].
      set (w2 := wevf w1 (opt_drop ev) (next_id w1) None) in *.
      pose proof (drop_list_nofault rest s1 w2 eq_refl) as Hd.
      exists (Panic PUser), s1, ([EvNext] ++ opt_drop ev ++ drops rest), None.
      erewrite bind_panic by (eapply on_unwind_panic; [exact Hp|exact Hd]).
      rewrite wev_wevf. subst w2 w1. rewrite !wevf_wevf.
      split; [reflexivity|]. split; [exact P1|].
      split; [exact HW1|]. split; [exact Hc1|].
      split.
      * rewrite !created_app, created_opt_drop, created_drops. reflexivity.
      * rewrite !dropped_app, dropped_drops. cbn [dropped_of flat_map app].
        rewrite app_assoc, Pm1, <- app_assoc. reflexivity.
Qed.

Theorem extend_fault xs : fault_safe (OExtend xs) FDrop.
Proof.
  intros s w k HW _ Hf Hk Hnd Hold.
  destruct (extend_loop_f xs s w HW (dplan_of_fault w k Hf Hk))
    as (r & s' & evs & f' & He & P & HW' & Hc & Hcr & Pm).
  eapply fault_safe_intro with (evs := evs) (nid := next_id w) (f' := f'); try eassumption.
  - cbn [exec]. unfold extend. erewrite bind_ret_out by exact He. reflexivity.
  - eapply fpost_map; [exact P|]. destruct r; cbn; eauto.
  - lia.
  - reflexivity.
  - rewrite Hcr. constructor.
  - rewrite Hcr. intros e [].
  - rewrite Hcr, app_nil_r. exact Pm.
Qed.

(* the new buffer is a live local while the iterator runs *)
Lemma from_iter_f n xs s w :
  0 <= n < W -> dplan (fault w) ->
  exists r evs f',
    from_iter n junk0 xs s w = (r, s, wevf w evs (next_id w) f') /\
    fpost (fault w) r f' /\ created_of evs = [] /\
    match r with
    | Ok b => WF b /\ cap b = n /\ Permutation (abs b ++ dropped_of evs) xs
    | Panic _ => Permutation (dropped_of evs) xs
    end.
Proof.
  intros Hn Hf.
  destruct (extend_loop_f xs (new_buf n junk0) w (WF_new n junk0 Hn) Hf)
    as (r & b & evs & f' & Hl & P & HWb & Hcb & Hcr & Pm).
  rewrite (abs_empty (new_buf n junk0)) in Pm by reflexivity. cbn [app] in Pm.
  change (cap (new_buf n junk0)) with n in Hcb.
  unfold from_iter. destruct r as [[]|p].
  - exists (Ok b), evs, f'.
    erewrite bind_ok by (apply with_buf_ok; apply on_unwind_ok; exact Hl).
    unfold ret. split; [reflexivity|]. split; [eapply fpost_map; [exact P|]; cbn; eauto|].
    split; [exact Hcr|]. auto.
  - destruct (fpost_panic _ _ _ P) as [-> ->].
    destruct (drop_buf_ok b (wevf w evs (next_id w) None) HWb eq_refl) as (b' & Hd & _).
    exists (Panic PUser), (evs ++ drops (abs b)), None.
    unfold bind, with_buf. erewrite on_unwind_panic by (first [exact Hl|exact Hd]).
    rewrite wev_wevf, wevf_wevf. split; [reflexivity|].
    split; [eapply fpost_map; [exact P|]; reflexivity|].
    split; [rewrite created_app, created_drops, Hcr; reflexivity|].
    rewrite dropped_app, dropped_drops, Permutation_app_comm. exact Pm.
Qed.

Theorem from_iter_fault xs : fault_safe (OFromIter xs) FDrop.
Proof.
  intros s w k HW _ Hf Hk Hnd Hold. pose proof HW as HW'. wf HW'.
  pose proof (dplan_of_fault w k Hf Hk) as Hd.
  destruct (from_iter_f (cap s) xs s w Hcap Hd) as (r & evs & f1 & He & P1 & Hcr & Hr).
  destruct r as [b|p].
  - destruct Hr as (HWb & Hcb & Pm).
    destruct (replace_buf_f b s (wevf w evs (next_id w) f1) HW (fpost_dplan _ _ _ P1))
      as (r2 & f2 & Hrb & P2).
    eapply fault_safe_intro with (evs := evs ++ drops (abs s)) (nid := next_id w) (f' := f2)
                                 (s' := b); try eassumption.
    + cbn [exec]. mcbn. erewrite bind_ok by exact He.
      erewrite bind_ret_out by exact Hrb. rewrite wevf_wevf. reflexivity.
    + eapply fpost_trans; [exact P1|]. eapply fpost_map; [exact P2|]. destruct r2; cbn; eauto.
    + lia.
    + reflexivity.
    + rewrite created_app, created_drops, Hcr. constructor.
    + rewrite created_app, created_drops, Hcr. intros e [].
    + rewrite created_app, created_drops, Hcr, dropped_app, dropped_drops. cbn [given].
      rewrite !app_nil_r, app_assoc, Pm. apply Permutation_app_comm.
  - destruct (fpost_panic _ _ _ P1) as [-> ->].
    eapply fault_safe_intro with (evs := evs) (nid := next_id w) (f' := None) (s' := s);
      try eassumption.
    + cbn [exec]. mcbn. erewrite bind_panic by exact He. reflexivity.
    + eapply fpost_map; [exact P1|]. reflexivity.
    + lia.
    + reflexivity.
    + reflexivity.
    + rewrite Hcr. constructor.
    + rewrite Hcr. intros e [].
    + rewrite Hcr, app_nil_r. cbn [given]. apply Permutation_app_head. exact Hr.
Qed.

(* ================================================================== *)
(* Part 4: From<[T; M]>                                                *)

Lemma from_array_body_f n xs w :
  0 <= n < W -> dplan (fault w) -> zlen xs < W ->
  exists r b evs f',
    from_array_body xs (new_buf n junk0) w = (r, b, wevf w evs (next_id w) f') /\
    fpost (fault w) r f' /\ created_of evs = [] /\
    match r with
    | Ok _ => WF b /\ cap b = n /\ Permutation (abs b ++ dropped_of evs) xs
    | Panic _ => Permutation (dropped_of evs) xs
    end.
Proof.
  intros Hn Hf Hx. pose proof (zlen_nonneg xs) as Hx0.
  set (sz := Z.min n (zlen xs)).
  set (k := zlen xs - sz).
  set (b := mkB n sz 0
            (fun i => if (0 <=? i) && (i <? sz)
                      then nth (Z.to_nat (i + k)) xs (junk0 i) else junk0 i)).
  assert (Ha : abs b = skipn (Z.to_nat k) xs).
  { apply zn_ext.
    + rewrite abs_zlen by (cbn [size b]; lia). cbn [size b].
      rewrite zlen_skipn. unfold zlen in *. lia.
    + intros i Hi. rewrite abs_zlen in Hi by (cbn [size b]; lia). cbn [size b] in Hi.
      rewrite zn_abs by (cbn [size b]; lia). unfold b. rewrite phys_mkB. cbn [items].
      rewrite Z.add_0_l, Z.mod_small by lia.
      replace ((0 <=? i) && (i <? sz)) with true by lia.
      rewrite zn_skipn by lia. unfold zn.
      rewrite nth_indep with (d' := dflt) by (unfold zlen in *; lia).
      f_equal. lia. }
  assert (HWb : WF b) by (apply WF_mk; lia).
  destruct (drop_list_f (firstn (Z.to_nat k) xs) b w Hf) as (r1 & f1 & Hd & P1).
  assert (Hrun : from_array_body xs (new_buf n junk0) w =
                 on_unwind (drop_list (firstn (Z.to_nat k) xs)) drop_buf b w).
  { unfold from_array_body, new_buf. mcbn.
    assert (E : (if zlen xs <=? n then zlen xs else n) = sz)
      by (subst sz; destruct (zlen xs <=? n) eqn:E1; lia).
    rewrite E.
    erewrite bind_ok by (apply usub_ok; lia). mcbn. fold k. reflexivity. }
  rewrite Hrun. destruct r1 as [[]|p].
  - exists (Ok tt), b, (drops (firstn (Z.to_nat k) xs)), f1.
    erewrite on_unwind_ok by exact Hd.
    split; [reflexivity|]. split; [exact P1|]. split; [apply created_drops|].
    split; [exact HWb|]. split; [reflexivity|].
    rewrite dropped_drops, Ha, Permutation_app_comm, firstn_skipn. reflexivity.
  - destruct (fpost_panic _ _ _ P1) as [-> ->].
    destruct (drop_buf_ok b (wevf w (drops (firstn (Z.to_nat k) xs)) (next_id w) None)
                HWb eq_refl) as (b' & Hdb & _).
    exists (Panic PUser), b', (drops (firstn (Z.to_nat k) xs) ++ drops (abs b)), None.
    erewrite on_unwind_panic by (first [exact Hd|exact Hdb]).
    rewrite wev_wevf, wevf_wevf.
    split; [reflexivity|]. split; [exact P1|].
    split; [rewrite created_app, !created_drops; reflexivity|].
    rewrite dropped_app, !dropped_drops, Ha, firstn_skipn. reflexivity.
Qed.

Lemma from_array_f n xs s w :
  0 <= n < W -> dplan (fault w) -> zlen xs < W ->
  exists r evs f',
    from_array n junk0 xs s w = (r, s, wevf w evs (next_id w) f') /\
    fpost (fault w) r f' /\ created_of evs = [] /\
    match r with
    | Ok b => WF b /\ cap b = n /\ Permutation (abs b ++ dropped_of evs) xs
    | Panic _ => Permutation (dropped_of evs) xs
    end.
Proof.
  intros Hn Hf Hx.
  destruct (from_array_body_f n xs w Hn Hf Hx) as (r & b & evs & f' & Hb & P & Hcr & Hr).
  unfold from_array, bind, with_buf. rewrite Hb. destruct r as [[]|p].
  - exists (Ok b), evs, f'. split; [reflexivity|].
    split; [eapply fpost_map; [exact P|]; cbn; eauto|]. auto.
  - exists (Panic p), evs, f'. split; [reflexivity|].
    split; [eapply fpost_map; [exact P|]; reflexivity|]. auto.
Qed.

(* the harness form of a constructor: build the new buffer (the old one is
   untouched), then install it and destroy the old one *)
Lemma ctor_fault (o : op) (mk : cbuf -> M cbuf) xs :
  (forall s, exec o s = (s0 <- get;; nb <- mk s0;; replace_buf nb;; ret OutUnit) s) ->
  given o = xs -> (forall r, returned o r = []) ->
  (forall s w, WF s -> op_ok s o -> dplan (fault w) ->
     exists r evs f',
       mk s s w = (r, s, wevf w evs (next_id w) f') /\
       fpost (fault w) r f' /\ created_of evs = [] /\
       match r with
       | Ok b => WF b /\ cap b = cap s /\ Permutation (abs b ++ dropped_of evs) xs
       | Panic _ => Permutation (dropped_of evs) xs
       end) ->
  fault_safe o FDrop.
Proof.
  intros Hex Hgiv Hret Hmk s w k HW Hop Hf Hk Hnd Hold.
  pose proof (dplan_of_fault w k Hf Hk) as Hd.
  destruct (Hmk s w HW Hop Hd) as (r & evs & f1 & He & P1 & Hcr & Hr).
  destruct r as [b|p].
  - destruct Hr as (HWb & Hcb & Pm).
    destruct (replace_buf_f b s (wevf w evs (next_id w) f1) HW (fpost_dplan _ _ _ P1))
      as (r2 & f2 & Hrb & P2).
    eapply fault_safe_intro with (evs := evs ++ drops (abs s)) (nid := next_id w) (f' := f2)
                                 (s' := b); try eassumption.
    + rewrite Hex. mcbn. erewrite bind_ok by exact He.
      erewrite bind_ret_out by exact Hrb. rewrite wevf_wevf. reflexivity.
    + eapply fpost_trans; [exact P1|]. eapply fpost_map; [exact P2|]. destruct r2; cbn; eauto.
    + lia.
    + apply Hret.
    + rewrite created_app, created_drops, Hcr. constructor.
    + rewrite created_app, created_drops, Hcr. intros e [].
    + rewrite created_app, created_drops, Hcr, dropped_app, dropped_drops, Hgiv.
      rewrite !app_nil_r, app_assoc, Pm. apply Permutation_app_comm.
  - destruct (fpost_panic _ _ _ P1) as [-> ->].
    eapply fault_safe_intro with (evs := evs) (nid := next_id w) (f' := None) (s' := s);
      try eassumption.
    + rewrite Hex. mcbn. erewrite bind_panic by exact He. reflexivity.
    + eapply fpost_map; [exact P1|]. reflexivity.
    + lia.
    + reflexivity.
    + apply Hret.
    + rewrite Hcr. constructor.
    + rewrite Hcr. intros e [].
    + rewrite Hcr, app_nil_r, Hgiv. apply Permutation_app_head. exact Hr.
Qed.

Theorem from_array_fault xs : fault_safe (OFromArray xs) FDrop.
Proof.
  apply ctor_fault with (mk := fun s0 => from_array (cap s0) junk0 xs) (xs := xs).
  - intros s. reflexivity.
  - reflexivity.
  - intros r. reflexivity.
  - intros s w HW Hop Hd. cbn in Hop. pose proof HW as HW'. wf HW'.
    exact (from_array_f (cap s) xs s w Hcap Hd Hop).
Qed.

(* ================================================================== *)
(* Part 5: Clone::clone / Clone::clone_from                            *)

(* cloning into a buffer with room: no destructor runs, so an FDrop plan is
   neither consulted nor changed ([wev] keeps the plan) *)
Lemma cloned_loop_d src : forall ps fuel it d w,
  it_slots it = ps -> (length ps < fuel)%nat -> WF d -> dplan (fault w) ->
  size d + zlen ps <= cap d ->
  exists d',
    cloned_for_each fuel src it push_back_discard d w =
      (Ok tt, d',
       wev w (clone_evs (next_id w) (map (items src) ps)) (next_id w + zlen ps)) /\
    abs d' = abs d ++ clones (next_id w) (map (items src) ps) /\
    WF d' /\ cap d' = cap d.
Proof.
  induction ps as [|p ps IH]; intros fuel it d w Hsl Hfuel HW Hf Hroom.
  - destruct fuel as [|fuel]; [cbn in Hfuel; lia|].
    pose proof (iter_next_nil it Hsl) as Hn.
    exists d. cbn [cloned_for_each].
    destruct (iter_next it) as [it' o]. cbn [snd] in Hn. subst o.
    cbn [map clones clone_evs]. rewrite zlen_nil, Z.add_0_r, wev_nil, app_nil_r.
    unfold ret. auto.
  - destruct fuel as [|fuel]; [cbn in Hfuel; lia|].
    destruct (iter_next_cons it p ps Hsl) as (it' & Hn & Hsl').
    rewrite zlen_cons in Hroom. pose proof (zlen_nonneg ps) as Hps0.
    set (c := mkE (next_id w) (eval (items src p))).
    set (w1 := wev w [EvClone (items src p) c] (next_id w + 1)).
    destruct (push_back_room d w1 c HW ltac:(lia)) as (d1 & Hp & Ha1 & HW1 & Hc1 & Hz1).
    assert (Hpd : push_back_discard c d w1 = (Ok tt, d1, w1)).
    { unfold push_back_discard. erewrite bind_ok by exact Hp. reflexivity. }
    cbn [length] in Hfuel.
    destruct (IH fuel it' d1 w1 Hsl' ltac:(lia) HW1 Hf ltac:(lia))
      as (d2 & Hl & Ha2 & HW2 & Hc2).
    exists d2. cbn [cloned_for_each]. rewrite Hn.
    erewrite bind_ok by (apply clone_elem_d; exact Hf).
    fold c. fold w1.
    erewrite bind_ok by exact Hpd.
    rewrite Hl. subst w1. rewrite wev_wev, wev_next.
    cbn [map clones clone_evs]. fold c. rewrite zlen_cons.
    split; [|split; [|split]].
    + f_equal. f_equal. lia.
    + rewrite Ha2, Ha1, wev_next, <- app_assoc. reflexivity.
    + exact HW2.
    + congruence.
Qed.

Lemma cloned_all_d src d w :
  WF src -> WF d -> dplan (fault w) -> size d + size src <= cap d ->
  exists d',
    cloned_for_each (S (Z.to_nat (size src))) src
      (mkI (fst (as_slices_val src)) (snd (as_slices_val src))) push_back_discard d w =
      (Ok tt, d', wev w (clone_evs (next_id w) (abs src)) (next_id w + size src)) /\
    abs d' = abs d ++ clones (next_id w) (abs src) /\
    WF d' /\ cap d' = cap d.
Proof.
  intros HWs HW Hf Hroom. pose proof HWs as HWs'. wf HWs'.
  pose proof (cloned_loop_d src (map (phys src) (zseq 0 (Z.to_nat (size src))))
                (S (Z.to_nat (size src))) _ d w (iter_new_slots src HWs)) as H.
  rewrite <- abs_map in H.
  assert (Hlen : length (map (phys src) (zseq 0 (Z.to_nat (size src)))) = Z.to_nat (size src))
    by (rewrite map_length, zseq_length; reflexivity).
  unfold zlen in H. rewrite Hlen in H.
  replace (Z.of_nat (Z.to_nat (size src))) with (size src) in H by lia.
  apply H; [lia|exact HW|exact Hf|lia].
Qed.

Theorem clone_buf_d s w :
  WF s -> dplan (fault w) ->
  exists c,
    clone_buf junk0 s w =
      (Ok c, s, wev w (clone_evs (next_id w) (abs s)) (next_id w + size s)) /\
    abs c = clones (next_id w) (abs s) /\ WF c /\ cap c = cap s.
Proof.
  intros HW Hf. pose proof HW as HW'. wf HW'.
  destruct (cloned_all_d s (new_buf (cap s) junk0) w HW (WF_new (cap s) junk0 Hcap) Hf)
    as (c & Hl & Ha & HWc & Hcc); [cbn [new_buf size cap]; lia|].
  rewrite (abs_empty (new_buf (cap s) junk0)) in Ha by reflexivity. cbn [app] in Ha.
  exists c. unfold clone_buf. mcbn.
  erewrite bind_ok by (apply iter_new_ok; exact HW).
  erewrite bind_ok by (apply with_buf_ok; apply on_unwind_ok; exact Hl).
  unfold ret. auto.
Qed.

Lemma clones_fresh nid l n :
  zlen l = n ->
  NoDup (ids (clones nid l)) /\ (forall e, In e (clones nid l) -> nid <= eid e < nid + n).
Proof.
  intros <-. split; [apply clones_NoDup|apply clones_range].
Qed.

(* the clone is kept: the old buffer is destroyed after the clone is installed *)
Theorem clone_keep_fault : fault_safe OCloneKeepClone FDrop.
Proof.
  intros s w k HW _ Hf Hk Hnd Hold. pose proof HW as HW'. wf HW'.
  pose proof (dplan_of_fault w k Hf Hk) as Hd.
  destruct (clone_buf_d s w HW Hd) as (c & Hc & Ha & HWc & Hcc).
  set (nid := next_id w) in *.
  set (w1 := wev w (clone_evs nid (abs s)) (nid + size s)) in *.
  destruct (replace_buf_f c s w1 HW Hd) as (r2 & f2 & Hrb & P2).
  destruct (clones_fresh nid (abs s) (size s) ltac:(apply abs_zlen; lia)) as (Hcn & Hcr).
  eapply fault_safe_intro with (evs := clone_evs nid (abs s) ++ drops (abs s))
                               (nid := nid + size s) (f' := f2) (s' := c); try eassumption.
  - cbn [exec]. erewrite bind_ok by exact Hc. fold w1.
    erewrite bind_ret_out by exact Hrb.
    subst w1. rewrite wev_wevf, wevf_wevf. reflexivity.
  - eapply fpost_map; [exact P2|]. destruct r2; cbn; eauto.
  - fold nid. lia.
  - reflexivity.
  - rewrite created_app, created_drops, created_clone_evs, app_nil_r. exact Hcn.
  - rewrite created_app, created_drops, created_clone_evs, app_nil_r. exact Hcr.
  - rewrite created_app, created_drops, created_clone_evs, dropped_app, dropped_drops,
      dropped_clone_evs, Ha, app_nil_r. cbn [given app]. apply Permutation_app_comm.
Qed.

(* the clone is looked at and destroyed *)
Theorem clone_drop_fault : fault_safe OCloneDropClone FDrop.
Proof.
  intros s w k HW _ Hf Hk Hnd Hold. pose proof HW as HW'. wf HW'.
  pose proof (dplan_of_fault w k Hf Hk) as Hd.
  destruct (clone_buf_d s w HW Hd) as (c & Hc & Ha & HWc & Hcc).
  set (nid := next_id w) in *.
  set (w1 := wev w (clone_evs nid (abs s)) (nid + size s)) in *.
  assert (Hin : (s0 <- get;; '(a, b) <- as_slices;;
                 ret (sl_elems (items s0) a ++ sl_elems (items s0) b)) c w1
                = (Ok (abs c), c, w1)).
  { mcbn. erewrite bind_ok by (apply as_slices_ok; exact HWc).
    pose proof (as_slices_val_abs c HWc) as H.
    destruct (as_slices_val c) as [a b]. cbn [fst snd] in H. rewrite H. reflexivity. }
  destruct (drop_buf_f c w1 HWc Hd) as (r2 & c' & f2 & Hdb & P2 & _).
  destruct (clones_fresh nid (abs s) (size s) ltac:(apply abs_zlen; lia)) as (Hcn & Hcr).
  eapply fault_safe_intro with (evs := clone_evs nid (abs s) ++ drops (abs c))
                               (nid := nid + size s) (f' := f2) (s' := s)
                               (r := match r2 with Ok _ => Ok (OutList (abs c))
                                                 | Panic p => Panic p end);
    try eassumption.
  - cbn [exec]. erewrite bind_ok by exact Hc. fold w1.
    erewrite bind_ok by (apply with_buf_ok; exact Hin).
    cbv iota beta. unfold bind at 1. unfold with_buf. rewrite Hdb.
    subst w1. rewrite wev_wevf, wevf_wevf. destruct r2 as [[]|p]; reflexivity.
  - eapply fpost_map; [exact P2|]. destruct r2; cbn; eauto.
  - fold nid. lia.
  - reflexivity.
  - destruct r2; reflexivity.
  - rewrite created_app, created_drops, created_clone_evs, app_nil_r. exact Hcn.
  - rewrite created_app, created_drops, created_clone_evs, app_nil_r. exact Hcr.
  - rewrite created_app, created_drops, created_clone_evs, dropped_app, dropped_drops,
      dropped_clone_evs, Ha, app_nil_r. cbn [given app]. reflexivity.
Qed.

(* clone_from: the old contents are destroyed first; a panic there leaves an
   empty buffer and nothing has been cloned *)
Theorem clone_from_fault other : fault_safe (OCloneFrom other) FDrop.
Proof.
  intros s w k HW Hop Hf Hk Hnd Hold. cbn in Hop. destruct Hop as [HWo Hco].
  pose proof HWo as HWo'. wf HWo'.
  pose proof (dplan_of_fault w k Hf Hk) as Hd.
  destruct (clear_f s w HW Hd) as (r1 & s1 & f1 & Hcl & P1 & Ha1 & HW1 & Hc1).
  destruct r1 as [[]|p].
  - pose proof (abs_nil_size s1 HW1 Ha1) as Hz1.
    set (w1 := wevf w (drops (abs s)) (next_id w) f1) in *.
    destruct (cloned_all_d other s1 w1 HWo HW1 (fpost_dplan _ _ _ P1) ltac:(lia))
      as (s2 & Hl & Ha2 & HW2 & Hc2).
    destruct (clones_fresh (next_id w) (abs other) (size other) ltac:(apply abs_zlen; lia))
      as (Hcn & Hcr).
    eapply fault_safe_intro with (evs := drops (abs s) ++ clone_evs (next_id w) (abs other))
                                 (nid := next_id w + size other) (f' := f1) (s' := s2)
                                 (r := Ok OutUnit); try eassumption.
    + cbn [exec]. unfold clone_from. rewrite bind_assoc.
      erewrite bind_ok by exact Hcl. rewrite bind_assoc.
      erewrite bind_ok by (apply with_buf_ok; apply iter_new_ok; exact HWo).
      cbv iota beta. fold w1. erewrite bind_ok by exact Hl.
      subst w1. rewrite wev_wevf, wevf_wevf. reflexivity.
    + eapply fpost_map; [exact P1|]. cbn. eauto.
    + lia.
    + congruence.
    + reflexivity.
    + rewrite created_app, created_drops, created_clone_evs. exact Hcn.
    + rewrite created_app, created_drops, created_clone_evs. exact Hcr.
    + rewrite created_app, created_drops, created_clone_evs, dropped_app, dropped_drops,
        dropped_clone_evs, Ha2, Ha1, app_nil_r. cbn [given app]. apply Permutation_app_comm.
  - destruct (fpost_panic _ _ _ P1) as [-> ->].
    eapply fault_safe_intro with (evs := drops (abs s)) (nid := next_id w) (f' := None)
                                 (s' := s1) (r := Panic PUser); try eassumption.
    + cbn [exec]. unfold clone_from. rewrite bind_assoc.
      erewrite bind_panic by exact Hcl. reflexivity.
    + eapply fpost_map; [exact P1|]. reflexivity.
    + lia.
    + reflexivity.
    + rewrite created_drops. constructor.
    + rewrite created_drops. intros e [].
    + rewrite created_drops, dropped_drops, Ha1, app_nil_r. cbn [given app]. reflexivity.
Qed.

(* ================================================================== *)
(* Part 6: extend_from_slice                                           *)

Theorem truncate_front_f s w k :
  WF s -> dplan (fault w) -> 0 <= k ->
  let m := Z.to_nat (Z.min k (size s)) in
  exists r s' f',
    truncate_front k s w =
      (r, s', wevf w (drops (firstn (length (abs s) - m) (abs s))) (next_id w) f') /\
    fpost (fault w) r f' /\ abs s' = lastn m (abs s) /\ WF s' /\ cap s' = cap s.
Proof.
  intros HW Hf Hk m. pose proof HW as HW'. wf HW'. unfold truncate_front. mcbn.
  unfold lastn. rewrite abs_length.
  destruct ((cap s =? 0) || (size s <=? k)) eqn:E.
  - exists (Ok tt), s, (fault w). subst m. replace (Z.min k (size s)) with (size s) by lia.
    rewrite Nat.sub_diag. cbn [skipn firstn drops map]. rewrite wevf_nil.
    split; [reflexivity|]. split; [apply fpost_refl; exact Hf|]. auto.
  - bstep.
    destruct (drop_range_f s w 0 (size s - k) HW Hf ltac:(lia) ltac:(lia) ltac:(lia))
      as (r & s' & f' & Hd & P & Ha & HW2 & Hc).
    exists r, s', f'. rewrite Hd. subst m. replace (Z.min k (size s)) with k by lia.
    rewrite sublist_from_0.
    replace (Z.to_nat (size s) - Z.to_nat k)%nat with (Z.to_nat (size s - k)) by lia.
    split; [reflexivity|]. split; [exact P|]. split; [|auto].
    rewrite Ha. destruct (size s - k =? size s) eqn:E2; [|reflexivity].
    assert (k = 0) as -> by lia. rewrite Z.sub_0_r.
    rewrite skipn_all2 by (rewrite abs_length; lia). reflexivity.
Qed.

(* ---- the free part of the array -------------------------------------------- *)

Definition slices_uninit_val (s : cbuf) : slice * slice :=
  let en := (start s + size s) mod cap s in
  if en <? start s then (mkS en (start s - en), empty_slice)
  else (mkS en (cap s - en), mkS 0 (start s)).

Lemma slices_uninit_mut_ok s w :
  WF s -> 0 < cap s -> slices_uninit_mut s w = (Ok (slices_uninit_val s), s, w).
Proof.
  intros HW Hc. wf HW. specialize (Hst ltac:(lia)).
  unfold slices_uninit_mut, slices_uninit_val. mcbn.
  replace (cap s =? 0) with false by lia.
  bstep. bstep. bstep. cbv beta zeta.
  assert (Hen : 0 <= (start s + size s) mod cap s < cap s) by (apply Z.mod_pos_bound; lia).
  destruct ((start s + size s) mod cap s <? start s) eqn:E.
  - bsteps; try (unfold ret; rewrite ?Z.add_0_l, ?Z.sub_0_r; reflexivity).
  - bsteps; try (unfold ret; rewrite ?Z.add_0_l, ?Z.sub_0_r; reflexivity).
Qed.

(* the first free segment starts right behind the back; it is the whole free
   part unless that wraps around the array end *)
Lemma slices_uninit_fst s :
  WF s -> 0 < cap s ->
  exists len,
    fst (slices_uninit_val s) = mkS ((start s + size s) mod cap s) len /\
    0 <= len /\ (start s + size s) mod cap s + len <= cap s /\
    (cap s - size s <= len \/
     (start s + size s < cap s /\ len = cap s - (start s + size s))).
Proof.
  intros HW Hc. wf HW. specialize (Hst ltac:(lia)). unfold slices_uninit_val. cbv zeta.
  destruct (mod_small_or_wrap (start s + size s) (cap s) Hc ltac:(lia)) as [[H1 E]|[H1 E]];
    rewrite E.
  - destruct (start s + size s <? start s) eqn:E2; [lia|]. cbn [fst].
    eexists. split; [reflexivity|]. lia.
  - destruct (start s + size s - cap s <? start s) eqn:E2; cbn [fst].
    + eexists. split; [reflexivity|]. lia.
    + eexists. split; [reflexivity|]. lia.
Qed.

(* ---- cloning into free slots -------------------------------------------------- *)

Lemma skipn_nth_cons (l : list elem) : forall n,
  (n < length l)%nat -> skipn n l = nth n l dflt :: skipn (S n) l.
Proof.
  induction l as [|x l IH]; intros n H; [cbn in H; lia|].
  destruct n; [reflexivity|]. cbn [skipn nth]. apply IH. cbn in H. lia.
Qed.

Lemma skipn_zn_cons l i :
  0 <= i < zlen l -> skipn (Z.to_nat i) l = zn l i :: skipn (Z.to_nat (i + 1)) l.
Proof.
  intros H. unfold zn. replace (Z.to_nat (i + 1)) with (S (Z.to_nat i)) by lia.
  apply skipn_nth_cons. unfold zlen in H. lia.
Qed.

Lemma b_items_id s : b_items s (items s) = s.
Proof. destruct s. reflexivity. Qed.

Lemma wusc_loop_d dst src : forall n i s w,
  dplan (fault w) -> 0 <= i -> i + Z.of_nat n <= slen dst -> i + Z.of_nat n <= zlen src ->
  exists f',
    wusc_loop dst src n i s w =
      (Ok tt, b_items s f',
       wev w (clone_evs (next_id w) (firstn n (skipn (Z.to_nat i) src)))
           (next_id w + Z.of_nat n)) /\
    (forall p, ~ (soff dst + i <= p < soff dst + i + Z.of_nat n) -> f' p = items s p) /\
    (forall j, i <= j < i + Z.of_nat n ->
               f' (soff dst + j) = mkE (next_id w + (j - i)) (eval (zn src j))).
Proof.
  induction n as [|n IH]; intros i s w Hf Hi Hd Hs.
  - exists (items s). cbn [wusc_loop firstn clone_evs Z.of_nat].
    rewrite b_items_id, Z.add_0_r, wev_nil. unfold ret.
    split; [reflexivity|]. split; [reflexivity|]. intros j Hj. lia.
  - set (c := mkE (next_id w) (eval (zn src i))).
    set (w1 := wev w [EvClone (zn src i) c] (next_id w + 1)).
    set (s1 := b_items s (s_write (items s) (soff dst + i) c)).
    assert (Hbody : (p <- sl_index dst i;;
                     e <- match nth_error src (Z.to_nat i) with
                          | Some e => ret e
                          | None => panic PBounds
                          end;;
                     c0 <- clone_elem e;; write_slot p c0) s w = (Ok tt, s1, w1)).
    { erewrite bind_ok by (apply sl_index_ok; lia).
      rewrite zn_nth_error by lia. mcbn.
      erewrite bind_ok by (apply clone_elem_d; exact Hf). reflexivity. }
    destruct (IH (i + 1) s1 w1 Hf ltac:(lia) ltac:(lia) ltac:(lia)) as (f' & Hl & Hout & Hin).
    exists f'. cbn [wusc_loop].
    erewrite bind_ok by (apply on_unwind_ok; exact Hbody).
    rewrite Hl. subst w1. rewrite wev_wev, wev_next.
    rewrite (skipn_zn_cons src i) by lia. cbn [firstn clone_evs app]. fold c.
    split; [|split].
    + subst s1. cbn [b_items cap size start]. f_equal. f_equal. lia.
    + intros p Hp. rewrite Hout by lia. subst s1. cbn [items b_items]. unfold s_write.
      replace (p =? soff dst + i) with false by lia. reflexivity.
    + intros j Hj. destruct (Z.eq_dec j i) as [->|Hne].
      * rewrite Hout by lia. subst s1. cbn [items b_items]. unfold s_write.
        rewrite Z.eqb_refl. subst c. f_equal. lia.
      * rewrite Hin by lia. rewrite wev_next. f_equal. lia.
Qed.

Lemma wusc_d d ys s w :
  dplan (fault w) -> slen d = zlen ys ->
  exists f',
    write_uninit_slice_cloned d ys s w =
      (Ok tt, b_items s f', wev w (clone_evs (next_id w) ys) (next_id w + zlen ys)) /\
    (forall p, ~ (soff d <= p < soff d + zlen ys) -> f' p = items s p) /\
    (forall j, 0 <= j < zlen ys -> f' (soff d + j) = mkE (next_id w + j) (eval (zn ys j))).
Proof.
  intros Hf Hl. pose proof (zlen_nonneg ys) as H0.
  destruct (wusc_loop_d d ys (Z.to_nat (slen d)) 0 s w Hf ltac:(lia) ltac:(lia) ltac:(lia))
    as (f' & Hw & Hout & Hin).
  exists f'. unfold write_uninit_slice_cloned.
  erewrite bind_ok by (apply dassert_ok; lia).
  rewrite Hw. cbn [Z.to_nat skipn].
  replace (Z.to_nat (slen d)) with (length ys) by (unfold zlen in Hl; lia).
  rewrite firstn_all. replace (Z.of_nat (length ys)) with (zlen ys) by reflexivity.
  split; [reflexivity|]. split.
  - intros p Hp. apply Hout. unfold zlen in *. lia.
  - intros j Hj. rewrite Hin by (unfold zlen in *; lia). f_equal. lia.
Qed.

Lemma zlen_clones ys : forall nid, zlen (clones nid ys) = zlen ys.
Proof.
  induction ys as [|y ys IH]; intros nid; [reflexivity|].
  cbn [clones]. rewrite !zlen_cons, IH. reflexivity.
Qed.

Lemma zn_clones ys : forall nid j,
  0 <= j < zlen ys -> zn (clones nid ys) j = mkE (nid + j) (eval (zn ys j)).
Proof.
  induction ys as [|y ys IH]; intros nid j H; [unfold zlen in H; cbn [length] in H; lia|].
  rewrite zlen_cons in H. cbn [clones]. destruct (Z.eq_dec j 0) as [->|Hne].
  - rewrite !zn_cons0, Z.add_0_r. reflexivity.
  - rewrite !zn_consS by lia. rewrite IH by lia. f_equal. lia.
Qed.

Lemma clones_app a : forall nid b,
  clones nid (a ++ b) = clones nid a ++ clones (nid + zlen a) b.
Proof.
  induction a as [|x a IH]; intros nid b.
  - cbn [app clones]. rewrite zlen_nil, Z.add_0_r. reflexivity.
  - cbn [app clones]. rewrite IH, zlen_cons. f_equal. f_equal. f_equal. lia.
Qed.

Lemma clone_evs_app a : forall nid b,
  clone_evs nid (a ++ b) = clone_evs nid a ++ clone_evs (nid + zlen a) b.
Proof.
  induction a as [|x a IH]; intros nid b.
  - cbn [app clone_evs]. rewrite zlen_nil, Z.add_0_r. reflexivity.
  - cbn [app clone_evs]. rewrite IH, zlen_cons. f_equal. f_equal. f_equal. lia.
Qed.

(* new elements behind the back, written before the size is raised *)
Lemma abs_append_free s f' cs :
  0 < cap s -> 0 <= start s < cap s -> 0 <= size s -> size s + zlen cs <= cap s ->
  (forall i, 0 <= i < size s -> f' (phys s i) = items s (phys s i)) ->
  (forall j, 0 <= j < zlen cs -> f' (phys s (size s + j)) = zn cs j) ->
  abs (mkB (cap s) (size s + zlen cs) (start s) f') = abs s ++ cs.
Proof.
  intros Hc Hs Hz Hroom Hold Hnew. pose proof (zlen_nonneg cs) as H0. apply zn_ext.
  - rewrite zlen_app, !abs_zlen by (cbn [size]; lia). reflexivity.
  - intros i Hi. rewrite abs_zlen in Hi by (cbn [size]; lia). cbn [size] in Hi.
    rewrite zn_abs by (cbn [size]; lia). rewrite phys_mkB. fold (phys s i). cbn [items].
    destruct (Z_lt_ge_dec i (size s)) as [Hlt|Hge].
    + rewrite zn_app1 by (rewrite abs_zlen; lia). rewrite zn_abs by lia. apply Hold. lia.
    + rewrite zn_app2 by (rewrite abs_zlen; lia). rewrite abs_zlen by lia.
      replace i with (size s + (i - size s)) at 1 by lia. apply Hnew. lia.
Qed.

Lemma phys_free s j :
  0 < cap s -> 0 <= j -> (start s + size s) mod cap s + j < cap s ->
  phys s (size s + j) = (start s + size s) mod cap s + j.
Proof.
  intros Hc Hj Hlt. unfold phys.
  pose proof (Z.mod_pos_bound (start s + size s) (cap s) Hc) as Hen.
  replace (start s + (size s + j)) with (start s + size s + j) by lia.
  rewrite <- Zplus_mod_idemp_l. apply Z.mod_small. lia.
Qed.

(* one segment: clone [ys] into the slots right behind the back *)
Lemma seg_write s w ys en L :
  WF s -> 0 < cap s -> dplan (fault w) -> L = zlen ys ->
  en = (start s + size s) mod cap s -> en + L <= cap s -> size s + L <= cap s ->
  exists f',
    write_uninit_slice_cloned (mkS en L) ys s w =
      (Ok tt, b_items s f', wev w (clone_evs (next_id w) ys) (next_id w + L)) /\
    abs (mkB (cap s) (size s + L) (start s) f') = abs s ++ clones (next_id w) ys.
Proof.
  intros HW Hc Hf HL Hen Hfit Hroom. subst L. pose proof HW as HW'. wf HW'.
  specialize (Hst ltac:(lia)). pose proof (zlen_nonneg ys) as H0.
  destruct (wusc_d (mkS en (zlen ys)) ys s w Hf eq_refl) as (f' & Hw & Hout & Hin).
  cbn [soff] in Hout, Hin.
  exists f'. split; [exact Hw|].
  rewrite <- (zlen_clones ys (next_id w)). apply abs_append_free; try lia.
  - rewrite zlen_clones. lia.
  - intros i Hi. apply Hout. intros Hp.
    assert (E : phys s (size s + (phys s i - en)) = phys s i).
    { rewrite phys_free by lia. lia. }
    apply phys_inj in E; lia.
  - intros j Hj. rewrite zlen_clones in Hj. rewrite phys_free by lia. rewrite <- Hen.
    rewrite Hin by lia. rewrite zn_clones by lia. reflexivity.
Qed.

(* ---- the cloning part of extend_from_slice, when everything fits -------------- *)

Definition efs_tail (other : list elem) (final_size : Z) : M unit :=
  '(rgt, _) <- slices_uninit_mut;;
  let write_len := Z.min (slen rgt) (zlen other) in
  d <- sl_range rgt 0 write_len;;
  write_uninit_slice_cloned d (firstn (Z.to_nat write_len) other);;
  sz <- get_size;;
  v <- uadd sz write_len;;
  set_size v;;
  let other2 := skipn (Z.to_nat write_len) other in
  '(lft, _) <- slices_uninit_mut;;
  dassert (zlen other2 <=? slen lft);;
  let write_len2 := zlen other2 in
  d2 <- sl_range lft 0 write_len2;;
  write_uninit_slice_cloned d2 other2;;
  sz <- get_size;;
  v <- uadd sz write_len2;;
  set_size v;;
  sz <- get_size;;
  dassert (sz =? final_size).

Lemma efs_tail_d xs s w fin :
  WF s -> 0 < cap s -> dplan (fault w) -> size s + zlen xs <= cap s ->
  fin = size s + zlen xs ->
  exists s',
    efs_tail xs fin s w =
      (Ok tt, s', wev w (clone_evs (next_id w) xs) (next_id w + zlen xs)) /\
    abs s' = abs s ++ clones (next_id w) xs /\ WF s' /\ cap s' = cap s.
Proof.
  intros HW Hc Hf Hroom Hfin. pose proof HW as HW'. wf HW'. specialize (Hst ltac:(lia)).
  pose proof (zlen_nonneg xs) as Hx0.
  unfold efs_tail.
  erewrite bind_ok by (apply slices_uninit_mut_ok; [exact HW|exact Hc]).
  destruct (slices_uninit_fst s HW Hc) as (len1 & E1 & Hl1 & Hfit1 & Hsp1).
  destruct (slices_uninit_val s) as [rgt x1]. cbn [fst] in E1. subst rgt. cbn [slen].
  set (en1 := (start s + size s) mod cap s) in *.
  set (wl := Z.min len1 (zlen xs)).
  erewrite bind_ok by (apply sl_range_ok; cbn [slen]; lia).
  cbn [soff]. rewrite Z.add_0_r, Z.sub_0_r.
  set (ys1 := firstn (Z.to_nat wl) xs). set (ys2 := skipn (Z.to_nat wl) xs).
  assert (Hy1 : zlen ys1 = wl) by (subst ys1; rewrite zlen_firstn; lia).
  assert (Hy2 : zlen ys2 = zlen xs - wl) by (subst ys2; rewrite zlen_skipn; lia).
  assert (Hce : clone_evs (next_id w) xs
                = clone_evs (next_id w) ys1 ++ clone_evs (next_id w + wl) ys2).
  { rewrite <- (firstn_skipn (Z.to_nat wl) xs) at 1. fold ys1 ys2.
    rewrite clone_evs_app, Hy1. reflexivity. }
  assert (Hcl : clones (next_id w) xs
                = clones (next_id w) ys1 ++ clones (next_id w + wl) ys2).
  { rewrite <- (firstn_skipn (Z.to_nat wl) xs) at 1. fold ys1 ys2.
    rewrite clones_app, Hy1. reflexivity. }
  destruct (seg_write s w ys1 en1 wl HW Hc Hf (eq_sym Hy1) eq_refl ltac:(lia) ltac:(lia))
    as (f1 & Hw1 & Ha1).
  erewrite bind_ok by exact Hw1. mcbn.
  erewrite bind_ok by (apply uadd_ok; lia). mcbn.
  set (w1 := wev w (clone_evs (next_id w) ys1) (next_id w + wl)) in *.
  set (s2 := mkB (cap s) (size s + wl) (start s) f1) in *.
  change (b_size (b_items s f1) (size s + wl)) with s2.
  assert (HW2 : WF s2) by (apply WF_mk; lia).
  assert (Hs2z : size s2 = size s + wl) by reflexivity.
  assert (Hs2c : cap s2 = cap s) by reflexivity.
  assert (Hs2s : start s2 = start s) by reflexivity.
  erewrite bind_ok by (apply slices_uninit_mut_ok; [exact HW2|exact Hc]).
  destruct (slices_uninit_fst s2 HW2 Hc) as (len2 & E2 & Hl2 & Hfit2 & Hsp2).
  destruct (slices_uninit_val s2) as [lft x2]. cbn [fst] in E2. subst lft. cbn [slen].
  cbn [cap size start s2] in Hfit2, Hsp2, Hl2 |- *.
  set (en2 := (start s + (size s + wl)) mod cap s) in *.
  assert (Hle2 : zlen ys2 <= len2) by lia.
  erewrite bind_ok by (apply dassert_ok; lia).
  erewrite bind_ok by (apply sl_range_ok; cbn [slen]; lia).
  cbn [soff]. rewrite Z.add_0_r, Z.sub_0_r.
  destruct (seg_write s2 w1 ys2 en2 (zlen ys2) HW2 Hc Hf eq_refl eq_refl
              ltac:(unfold s2; cbn [cap]; lia) ltac:(unfold s2; cbn [cap size]; lia))
    as (f2 & Hw2 & Ha2).
  erewrite bind_ok by exact Hw2. mcbn.
  erewrite bind_ok by (apply uadd_ok; lia). mcbn.
  rewrite dassert_ok by lia.
  cbn [cap size start s2] in Ha2.
  eexists. split; [|split; [|split]].
  - f_equal. subst w1. rewrite wev_wev, wev_next. rewrite Hce. f_equal. lia.
  - transitivity (abs s2 ++ clones (next_id w1) ys2); [exact Ha2|].
    subst w1. rewrite wev_next. subst s2.
    rewrite Ha1, <- app_assoc, Hcl. reflexivity.
  - apply WF_mk; cbn; lia.
  - reflexivity.
Qed.

(* ---- extend_from_slice: a destructor can only run in truncate_front / clear,
   before anything is cloned; a panic there unwinds at once, the buffer
   having been shrunk already ---------------------------------------------------- *)

Lemma wevf_plain w f : wevf w [] (next_id w) f = w_fault w f.
Proof. unfold wevf, w_fault. rewrite app_nil_r. reflexivity. Qed.

Theorem extend_from_slice_f xs s w :
  WF s -> zlen xs < W -> dplan (fault w) ->
  exists r s' gone kept ys f',
    extend_from_slice xs s w =
      (r, s', wevf w (drops gone ++ clone_evs (next_id w) ys) (next_id w + zlen ys) f') /\
    fpost (fault w) r f' /\ WF s' /\ cap s' = cap s /\
    abs s = gone ++ kept /\ abs s' = kept ++ clones (next_id w) ys.
Proof.
  intros HW Hx Hf. pose proof HW as HW'. wf HW'. pose proof (zlen_nonneg xs) as Hx0.
  unfold extend_from_slice. mcbn.
  destruct (Z.eq_dec (cap s) 0) as [Hc0|Hc0].
  - replace (cap s =? 0) with true by lia.
    exists (Ok tt), s, [], (abs s), [], (fault w).
    cbn [drops map clone_evs clones app]. rewrite zlen_nil, Z.add_0_r, wevf_nil, app_nil_r.
    unfold ret. split; [reflexivity|]. split; [apply fpost_refl; exact Hf|]. auto.
  - replace (cap s =? 0) with false by lia. specialize (Hst ltac:(lia)).
    bstep. bstep.
    destruct (zlen xs <? cap s) eqn:Esmall.
    + bstep.
      destruct (zlen xs <? cap s - size s) eqn:Efree.
      * (* enough room: nothing is destroyed *)
        bstep.
        destruct (efs_tail_d xs s w (size s + zlen xs) HW ltac:(lia) Hf ltac:(lia) eq_refl)
          as (s' & Ht & Ha & HW2 & Hc2).
        exists (Ok tt), s', [], (abs s), xs, (fault w).
        split; [|split; [apply fpost_refl; exact Hf|auto]].
        cbn [drops map app]. rewrite <- wev_wevf. exact Ht.
      * (* the front is cut off first *)
        rewrite bind_assoc. bstep. rewrite bind_assoc.
        destruct (truncate_front_f s w (cap s - zlen xs) HW Hf ltac:(lia))
          as (r1 & s1 & f1 & Htr & P1 & Ha1 & HW1 & Hc1).
        cbv zeta in Htr, Ha1.
        set (m := Z.to_nat (Z.min (cap s - zlen xs) (size s))) in *.
        set (gone := firstn (length (abs s) - m) (abs s)) in *.
        assert (Hsplit : abs s = gone ++ lastn m (abs s)).
        { unfold lastn, gone. symmetry. apply firstn_skipn. }
        destruct r1 as [[]|p].
        -- erewrite bind_ok by exact Htr. mcbn.
           set (w1 := wevf w (drops gone) (next_id w) f1) in *.
           assert (Hz1 : size s1 = cap s - zlen xs).
           { pose proof HW1 as HW1'. wf HW1'.
             rewrite <- (abs_zlen s1) by lia. rewrite Ha1. unfold lastn.
             rewrite zlen_skipn. unfold zlen at 1. rewrite abs_length. lia. }
           destruct (efs_tail_d xs s1 w1 (cap s) HW1 ltac:(lia) (fpost_dplan _ _ _ P1)
                       ltac:(lia) ltac:(lia)) as (s' & Ht & Ha & HW2 & Hc2).
           exists (Ok tt), s', gone, (lastn m (abs s)), xs, f1.
           split; [|split; [exact P1|]].
           ++ etransitivity; [exact Ht|]. subst w1. rewrite wev_wevf, wevf_wevf. reflexivity.
           ++ split; [exact HW2|]. split; [congruence|]. split; [exact Hsplit|].
              rewrite Ha, Ha1. reflexivity.
        -- erewrite bind_panic by exact Htr.
           exists (Panic p), s1, gone, (lastn m (abs s)), [], f1.
           cbn [clone_evs clones]. rewrite zlen_nil, Z.add_0_r, !app_nil_r.
           split; [reflexivity|]. split; [exact P1|]. auto.
    + (* the source covers the whole buffer: everything is destroyed first *)
      destruct (clear_f s w HW Hf) as (r1 & s1 & f1 & Hcl & P1 & Ha1 & HW1 & Hc1).
      destruct r1 as [[]|p].
      * erewrite bind_ok by exact Hcl. mcbn.
        pose proof (abs_nil_size s1 HW1 Ha1) as Hz1.
        set (w1 := wevf w (drops (abs s)) (next_id w) f1) in *.
        erewrite bind_ok by (apply usub_ok; lia). mcbn.
        set (ys := skipn (Z.to_nat (zlen xs - cap s)) xs).
        assert (Hys : zlen ys = cap s) by (subst ys; rewrite zlen_skipn; lia).
        erewrite bind_ok by (apply dassert_ok; lia). mcbn.
        set (s1' := b_start s1 0).
        assert (HW1' : WF s1') by (pose proof HW1 as Q; wf Q; apply WF_mk; lia).
        destruct (seg_write s1' w1 ys 0 (cap s1) HW1' ltac:(cbn [cap b_start s1']; lia)
                    (fpost_dplan _ _ _ P1) ltac:(lia)
                    ltac:(unfold s1'; cbn [cap size start b_start]; rewrite Hz1;
                          symmetry; apply Z.mod_0_l; lia)
                    ltac:(unfold s1'; cbn [cap b_start]; lia)
                    ltac:(unfold s1'; cbn [cap size b_start]; lia)) as (f2 & Hw2 & Ha2).
        erewrite bind_ok by exact Hw2. mcbn.
        eexists (Ok tt), _, (abs s), [], ys, f1.
        split; [|split; [exact P1|split; [|split; [|split]]]].
        -- unfold ret. f_equal. subst w1. rewrite wev_wevf, wevf_wevf. cbn [next_id wevf].
           rewrite Hys, Hc1. reflexivity.
        -- apply WF_mk; cbn [cap size start b_start b_items b_size s1'];
             pose proof HW1 as Q; wf Q; lia.
        -- cbn [cap b_size b_items b_start s1']. exact Hc1.
        -- rewrite app_nil_r. reflexivity.
        -- cbn [app].
           assert (E : b_size (b_items s1' f2) (cap s)
                       = mkB (cap s1') (size s1' + cap s1) (start s1') f2).
           { unfold s1', b_size, b_items, b_start. cbn [cap size start items].
             rewrite Hz1, Hc1, Z.add_0_l. reflexivity. }
           rewrite E, Ha2. unfold s1'.
           rewrite (abs_empty (b_start s1 0)) by (cbn [size b_start]; exact Hz1).
           reflexivity.
      * erewrite bind_panic by exact Hcl.
        exists (Panic p), s1, (abs s), [], [], f1.
        cbn [clone_evs clones]. rewrite zlen_nil, Z.add_0_r, !app_nil_r.
        split; [reflexivity|]. split; [exact P1|]. auto.
Qed.

Theorem extend_from_slice_fault xs : fault_safe (OExtendFromSlice xs) FDrop.
Proof.
  intros s w k HW Hop Hf Hk Hnd Hold. cbn in Hop.
  pose proof (dplan_of_fault w k Hf Hk) as Hd.
  destruct (extend_from_slice_f xs s w HW Hop Hd)
    as (r & s' & gone & kept & ys & f' & He & P & HW' & Hc & Hs & Hs').
  destruct (clones_fresh (next_id w) ys (zlen ys) eq_refl) as (Hcn & Hcr).
  pose proof (zlen_nonneg ys) as Hy0.
  eapply fault_safe_intro with (evs := drops gone ++ clone_evs (next_id w) ys)
                               (nid := next_id w + zlen ys) (f' := f') (s' := s');
    try eassumption.
  - cbn [exec]. erewrite bind_ret_out by exact He. reflexivity.
  - eapply fpost_map; [exact P|]. destruct r; cbn; eauto.
  - lia.
  - reflexivity.
  - rewrite created_app, created_drops, created_clone_evs. exact Hcn.
  - rewrite created_app, created_drops, created_clone_evs. exact Hcr.
  - rewrite created_app, created_drops, created_clone_evs, dropped_app, dropped_drops,
      dropped_clone_evs, app_nil_r, Hs, Hs'. cbn [given app].
    rewrite <- app_assoc. rewrite (Permutation_app_comm gone). rewrite <- app_assoc.
    apply Permutation_app_head. apply Permutation_app_comm.
Qed.
