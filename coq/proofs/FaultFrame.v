(* FaultFrame.v — the FRAME theorem for injected faults.

   The fault-injection theorems ([fault_safe o fk]) describe an operation
   together with the kinds of user code it calls. This file proves the
   complement: an operation that never calls user code of kind [fk] is
   completely unaffected by an armed plan of kind [fk]: it behaves exactly as
   in the fault-free world and hands the plan back, armed and untouched
   ([fault_frame]). No well-formedness premise is needed: the proof is a
   syntactic closure argument over the monad combinators ([blind]).
   Consequently every fault-free theorem transfers ([fault_frame_refines],
   [history_frame]). *)

From CB Require Import Spec.
From CBP Require Import MonadLemmas Arith AbsLemmas ListLemmas AbsOps Core Step RefDefs
     FaultDefs FaultPrims PhysMoves AllOps.
From Coq Require Import ZifyBool.
Ltac Zify.zify_post_hook ::= Z.div_mod_to_equations.

(* ---- (1) which kinds of user code an operation can reach ---------------------- *)

Definition may_call (o : op) (fk : fkind) : bool :=
  match fk with
  | FDrop =>
    match o with
    | OTruncateBack _ | OTruncateFront _ | OClear
    | OExtend _ | OExtendFromSlice _
    | OFill _ | OFillWith | OFillSpare _
    | OIntoIter _ | ONew | OFromArray _ | OFromIter _
    | OCloneDropClone | OCloneKeepClone | OCloneFrom _
    | OWrite _ _ | ORead _ _ | OConsume _ _
    | OBoxed | ODefault | ODrainDebug _ _ _ | OIntoIterDebug _ => true
    (* a forgotten Drain destroys nothing *)
    | ODrain _ _ _ forget => negb forget
    (* OFillSpareWith: false. push_back never evicts while size < N.
       OToVec: false. Its only destructor calls sit in the cleanup that runs
       when a clone panics, which a plan of kind FDrop cannot cause. *)
    | _ => false
    end
  | FClone =>
    match o with
    | OFill _ | OFillSpare _ | OExtendFromSlice _
    | OCloneDropClone | OCloneKeepClone | OCloneFrom _
    | OToVec | OWrite _ _ => true
    | _ => false
    end
  | FCall => match o with OFillWith | OFillSpareWith => true | _ => false end
  | FNext => match o with OExtend _ | OFromIter _ => true | _ => false end
  | FEq => match o with OEq _ | OEqSlice _ _ => true | _ => false end
  | FCmp => match o with OPartialCmp _ | OCmp _ => true | _ => false end
  | FHash => match o with OHash => true | _ => false end
  | FFmt =>
    match o with
    | ODebug | OIterDebug _ _ _ | OIterMutDebug _ _ _ | ODrainDebug _ _ _ | OIntoIterDebug _ => true
    | _ => false
    end
  end.

(* ---- the closure predicate ------------------------------------------------------ *)

Definition arm (fk : fkind) (k : Z) (w : world) : world := w_fault w (Some (fk, k)).

(* [m], started in state [s], does not see a plan of kind [fk]: whatever it
   does in a world without a plan, it does the same with the plan armed, and
   the plan comes back as it was. A computation never creates a plan. *)
Definition blind_at (fk : fkind) {A} (m : M A) (s : cbuf) : Prop :=
  forall w0 k r s' w',
    fault w0 = None -> m s w0 = (r, s', w') ->
    fault w' = None /\ m s (arm fk k w0) = (r, s', arm fk k w').

Definition blind (fk : fkind) {A} (m : M A) : Prop := forall s, blind_at fk m s.

Lemma w_fault_same w f : fault w = f -> w_fault w f = w.
Proof. destruct w. cbn. intros ->. reflexivity. Qed.

Lemma arm_disarm fk k w : fault w = Some (fk, k) -> arm fk k (w_fault w None) = w.
Proof. destruct w. cbn. intros ->. reflexivity. Qed.

(* ---- combinators ------------------------------------------------------------------ *)

Lemma blind_at_bind fk {A B} (m : M A) (f : A -> M B) s :
  blind_at fk m s ->
  (forall a s1 w0 w1, fault w0 = None -> m s w0 = (Ok a, s1, w1) -> blind_at fk (f a) s1) ->
  blind_at fk (bind m f) s.
Proof.
  intros Hm Hf w0 k r s' w' H0 H. unfold bind in *.
  destruct (m s w0) as [[[a|p] s1] w1] eqn:E;
    destruct (Hm w0 k _ _ _ H0 E) as [F1 E1]; rewrite E1.
  - exact (Hf a s1 w0 w1 H0 E w1 k r s' w' F1 H).
  - inversion H; subst. split; [assumption|reflexivity].
Qed.

Lemma blind_bind fk {A B} (m : M A) (f : A -> M B) :
  blind fk m -> (forall a, blind fk (f a)) -> blind fk (bind m f).
Proof. intros Hm Hf s. apply blind_at_bind; [apply Hm|]. intros. apply Hf. Qed.

Lemma blind_finally fk {A} (body : M A) cleanup :
  blind fk body -> blind fk cleanup -> blind fk (finally body cleanup).
Proof.
  intros Hb Hc s w0 k r s' w' H0 H. unfold finally in *.
  destruct (body s w0) as [[r1 s1] w1] eqn:E1.
  destruct (Hb s w0 k _ _ _ H0 E1) as [F1 E1']. rewrite E1'.
  destruct (cleanup s1 w1) as [[r2 s2] w2] eqn:E2.
  destruct (Hc s1 w1 k _ _ _ F1 E2) as [F2 E2']. rewrite E2'.
  destruct r2 as [u|p]; [|destruct r1]; inversion H; subst; (split; [assumption|reflexivity]).
Qed.

Lemma blind_on_unwind fk {A} (body : M A) cleanup :
  blind fk body -> blind fk cleanup -> blind fk (on_unwind body cleanup).
Proof.
  intros Hb Hc s w0 k r s' w' H0 H. unfold on_unwind in *.
  destruct (body s w0) as [[[a|p] s1] w1] eqn:E1;
    destruct (Hb s w0 k _ _ _ H0 E1) as [F1 E1']; rewrite E1'.
  - inversion H; subst. split; [assumption|reflexivity].
  - destruct (cleanup s1 w1) as [[r2 s2] w2] eqn:E2.
    destruct (Hc s1 w1 k _ _ _ F1 E2) as [F2 E2']. rewrite E2'.
    destruct r2; inversion H; subst; (split; [assumption|reflexivity]).
Qed.

Lemma blind_with_buf fk {A} (b : cbuf) (m : M A) :
  blind fk m -> blind fk (with_buf b m).
Proof.
  intros Hm s w0 k r s' w' H0 H. unfold with_buf in *.
  destruct (m b w0) as [[[a|p] s1] w1] eqn:E1;
    destruct (Hm b w0 k _ _ _ H0 E1) as [F1 E1']; rewrite E1';
    inversion H; subst; (split; [assumption|reflexivity]).
Qed.

(* ---- leaves: computations that neither read nor write the plan ------------------------ *)

Definition fault_indep {A} (m : M A) : Prop :=
  forall s w f, m s (w_fault w f) = let '(r, s', w') := m s w in (r, s', w_fault w' f).

Lemma fault_indep_blind fk {A} (m : M A) : fault_indep m -> blind fk m.
Proof.
  intros Hi s w0 k r s' w' H0 H. split.
  - pose proof (Hi s w0 None) as Hn. rewrite (w_fault_same w0 None H0), H in Hn.
    injection Hn as Hw. rewrite Hw. reflexivity.
  - unfold arm. rewrite Hi, H. reflexivity.
Qed.

Ltac leaf :=
  apply fault_indep_blind; intros s [d n l f0] f;
  cbv [ret panic get put get_cap get_size get_start set_size set_start set_items get_items
       dassert assert_ emit fresh_id uadd usub umul urem read_slot write_slot
       sl_range sl_split_at sl_index
       dbg next_id log fault w_fault w_log w_next];
  repeat match goal with |- context [if ?c then _ else _] => destruct c end;
  reflexivity.

Lemma blind_ret fk {A} (a : A) : blind fk (ret a). Proof. leaf. Qed.
Lemma blind_panic fk {A} p : blind fk (@panic A p). Proof. leaf. Qed.
Lemma blind_get fk : blind fk get. Proof. leaf. Qed.
Lemma blind_put fk b : blind fk (put b). Proof. leaf. Qed.
Lemma blind_get_cap fk : blind fk get_cap. Proof. leaf. Qed.
Lemma blind_get_size fk : blind fk get_size. Proof. leaf. Qed.
Lemma blind_get_start fk : blind fk get_start. Proof. leaf. Qed.
Lemma blind_get_items fk : blind fk get_items. Proof. leaf. Qed.
Lemma blind_set_size fk z : blind fk (set_size z). Proof. leaf. Qed.
Lemma blind_set_start fk z : blind fk (set_start z). Proof. leaf. Qed.
Lemma blind_set_items fk g : blind fk (set_items g). Proof. leaf. Qed.
Lemma blind_len fk : blind fk len. Proof. exact (blind_get_size fk). Qed.
Lemma blind_capacity fk : blind fk capacity. Proof. exact (blind_get_cap fk). Qed.
Lemma blind_dassert fk c : blind fk (dassert c). Proof. leaf. Qed.
Lemma blind_assert fk c : blind fk (assert_ c). Proof. leaf. Qed.
Lemma blind_emit fk ev : blind fk (emit ev). Proof. leaf. Qed.
Lemma blind_fresh_id fk : blind fk fresh_id. Proof. leaf. Qed.
Lemma blind_uadd fk x y : blind fk (uadd x y). Proof. leaf. Qed.
Lemma blind_usub fk x y : blind fk (usub x y). Proof. leaf. Qed.
Lemma blind_umul fk x y : blind fk (umul x y). Proof. leaf. Qed.
Lemma blind_urem fk x y : blind fk (urem x y). Proof. leaf. Qed.
Lemma blind_read_slot fk p : blind fk (read_slot p). Proof. leaf. Qed.
Lemma blind_write_slot fk p e : blind fk (write_slot p e). Proof. leaf. Qed.
Lemma blind_sl_range fk sl a b : blind fk (sl_range sl a b). Proof. leaf. Qed.
Lemma blind_sl_split_at fk sl x : blind fk (sl_split_at sl x). Proof. leaf. Qed.
Lemma blind_sl_index fk sl i : blind fk (sl_index sl i). Proof. leaf. Qed.

(* a call into user code of another kind *)
Lemma blind_user_call fk k' : fkind_eqb k' fk = false -> blind fk (user_call k').
Proof.
  intros Hk s w0 k r s' w' H0 H. unfold user_call in *. rewrite H0 in H.
  inversion H; subst. split; [assumption|].
  unfold arm. cbn [fault w_fault]. rewrite Hk. reflexivity.
Qed.

Create HintDb blind.
#[local] Hint Resolve blind_ret blind_panic blind_get blind_put blind_get_cap blind_get_size
  blind_get_start blind_get_items blind_set_size blind_set_start blind_set_items blind_len
  blind_capacity blind_dassert blind_assert blind_emit blind_fresh_id blind_uadd blind_usub
  blind_umul blind_urem blind_read_slot blind_write_slot blind_sl_range blind_sl_split_at
  blind_sl_index blind_user_call : blind.
#[local] Hint Extern 1 (fkind_eqb _ _ = false) => reflexivity : blind.

(* hook: special cases tried before the general combinator lemmas *)
Ltac blind_extra := fail.

Ltac blind_tac :=
  cbv beta zeta;
  repeat first
    [ assumption
    | match goal with |- fkind_eqb _ _ = false => reflexivity end
    | solve [auto 2 with blind nocore]
    | blind_extra
    | match goal with
      | |- blind _ (finally _ _) => apply blind_finally
      | |- blind _ (on_unwind _ _) => apply blind_on_unwind
      | |- blind _ (with_buf _ _) => apply blind_with_buf
      | |- blind _ (bind _ _) => apply blind_bind; [|intros ?; cbv beta zeta]
      end
    | match goal with |- blind _ (match ?x with _ => _ end) => destruct x end ].

(* ---- Machine.v ------------------------------------------------------------------------ *)

Lemma blind_items_slice fk : blind fk items_slice. Proof. unfold items_slice. blind_tac. Qed.
#[local] Hint Resolve blind_items_slice : blind.
Lemma blind_idx fk p : blind fk (idx p). Proof. unfold idx. blind_tac. Qed.
Lemma blind_raw_copy fk a b n : blind fk (raw_copy a b n). Proof. unfold raw_copy. blind_tac. Qed.
#[local] Hint Resolve blind_idx blind_raw_copy : blind.

Lemma blind_drop_elem fk e : fkind_eqb FDrop fk = false -> blind fk (drop_elem e).
Proof. intros. unfold drop_elem. blind_tac. Qed.
#[local] Hint Resolve blind_drop_elem : blind.
Lemma blind_drop_list fk es : fkind_eqb FDrop fk = false -> blind fk (drop_list es).
Proof. intros. induction es; cbn [drop_list]; blind_tac. Qed.
Lemma blind_drop_opt fk o : fkind_eqb FDrop fk = false -> blind fk (drop_opt o).
Proof. intros. unfold drop_opt. blind_tac. Qed.
#[local] Hint Resolve blind_drop_list blind_drop_opt : blind.
Lemma blind_drop_slice fk sl : fkind_eqb FDrop fk = false -> blind fk (drop_slice sl).
Proof. intros. unfold drop_slice. blind_tac. Qed.
#[local] Hint Resolve blind_drop_slice : blind.

Lemma blind_clone_elem fk e : fkind_eqb FClone fk = false -> blind fk (clone_elem e).
Proof. intros. unfold clone_elem. blind_tac. Qed.
Lemma blind_call_closure fk : fkind_eqb FCall fk = false -> blind fk call_closure.
Proof. intros. unfold call_closure. blind_tac. Qed.
#[local] Hint Resolve blind_clone_elem blind_call_closure : blind.

(* the cleanup of a clone never runs under a plan that is not about Clone,
   so it does not matter what it calls *)
Lemma on_unwind_clone_quiet e cl s w :
  quiet FClone w -> on_unwind (clone_elem e) cl s w = clone_elem e s w.
Proof. intros H. unfold on_unwind. rewrite (clone_elem_quiet e s w H). reflexivity. Qed.

Lemma blind_on_unwind_clone fk e cl :
  fkind_eqb FClone fk = false -> blind fk (on_unwind (clone_elem e) cl).
Proof.
  intros Hk s w0 k r s' w' H0 H.
  rewrite on_unwind_clone_quiet in H by (apply quiet_nofault; exact H0).
  rewrite on_unwind_clone_quiet by (eapply quiet_other; [reflexivity|exact Hk]).
  exact (blind_clone_elem fk e Hk s w0 k r s' w' H0 H).
Qed.

Ltac blind_extra ::=
  match goal with
  | |- blind _ (on_unwind (clone_elem _) _) => apply blind_on_unwind_clone
  end.

(* ---- Buf.v ------------------------------------------------------------------------------ *)

Lemma blind_add_mod fk x y m : blind fk (add_mod x y m).
Proof. unfold add_mod. blind_tac. Qed.
#[local] Hint Resolve blind_add_mod : blind.
Lemma blind_sub_mod fk x y m : blind fk (sub_mod x y m).
Proof. unfold sub_mod. blind_tac. Qed.
#[local] Hint Resolve blind_sub_mod : blind.

Lemma blind_boxed fk n junk : blind fk (boxed n junk).
Proof. unfold boxed. blind_tac. Qed.
#[local] Hint Resolve blind_boxed : blind.

Lemma blind_is_empty fk : blind fk is_empty. Proof. unfold is_empty. blind_tac. Qed.
Lemma blind_is_full fk : blind fk is_full. Proof. unfold is_full. blind_tac. Qed.
Lemma blind_make_contiguous fk : blind fk make_contiguous.
Proof. unfold make_contiguous. blind_tac. Qed.
Lemma blind_as_slices fk : blind fk as_slices. Proof. unfold as_slices. blind_tac. Qed.
Lemma blind_as_mut_slices fk : blind fk as_mut_slices. Proof. exact (blind_as_slices fk). Qed.
#[local] Hint Resolve blind_is_empty blind_is_full blind_make_contiguous blind_as_slices
  blind_as_mut_slices : blind.

Lemma blind_front_maybe_uninit_mut fk : blind fk front_maybe_uninit_mut.
Proof. unfold front_maybe_uninit_mut. blind_tac. Qed.
Lemma blind_front_maybe_uninit fk : blind fk front_maybe_uninit.
Proof. unfold front_maybe_uninit. blind_tac. Qed.
Lemma blind_back_maybe_uninit fk : blind fk back_maybe_uninit.
Proof. unfold back_maybe_uninit. blind_tac. Qed.
Lemma blind_back_maybe_uninit_mut fk : blind fk back_maybe_uninit_mut.
Proof. exact (blind_back_maybe_uninit fk). Qed.
Lemma blind_get_maybe_uninit fk i : blind fk (get_maybe_uninit i).
Proof. unfold get_maybe_uninit. blind_tac. Qed.
Lemma blind_get_maybe_uninit_mut fk i : blind fk (get_maybe_uninit_mut i).
Proof. exact (blind_get_maybe_uninit fk i). Qed.
Lemma blind_slices_uninit_mut fk : blind fk slices_uninit_mut.
Proof. unfold slices_uninit_mut. blind_tac. Qed.
#[local] Hint Resolve blind_front_maybe_uninit_mut blind_front_maybe_uninit blind_back_maybe_uninit
  blind_back_maybe_uninit_mut blind_get_maybe_uninit blind_get_maybe_uninit_mut
  blind_slices_uninit_mut : blind.

Lemma blind_inc_start fk : blind fk inc_start. Proof. unfold inc_start. blind_tac. Qed.
Lemma blind_dec_start fk : blind fk dec_start. Proof. unfold dec_start. blind_tac. Qed.
Lemma blind_inc_size fk : blind fk inc_size. Proof. unfold inc_size. blind_tac. Qed.
Lemma blind_dec_size fk : blind fk dec_size. Proof. unfold dec_size. blind_tac. Qed.
#[local] Hint Resolve blind_inc_start blind_dec_start blind_inc_size blind_dec_size : blind.

Lemma blind_drop_range fk a b : fkind_eqb FDrop fk = false -> blind fk (drop_range a b).
Proof. intros. unfold drop_range. blind_tac. Qed.
#[local] Hint Resolve blind_drop_range : blind.

Lemma blind_back fk : blind fk back. Proof. unfold back. blind_tac. Qed.
Lemma blind_back_mut fk : blind fk back_mut. Proof. unfold back_mut. blind_tac. Qed.
Lemma blind_front fk : blind fk front. Proof. unfold front. blind_tac. Qed.
Lemma blind_front_mut fk : blind fk front_mut. Proof. unfold front_mut. blind_tac. Qed.
Lemma blind_get_ fk i : blind fk (get_ i). Proof. unfold get_. blind_tac. Qed.
Lemma blind_get_mut fk i : blind fk (get_mut i). Proof. unfold get_mut. blind_tac. Qed.
#[local] Hint Resolve blind_back blind_back_mut blind_front blind_front_mut blind_get_
  blind_get_mut : blind.
Lemma blind_nth_front fk i : blind fk (nth_front i). Proof. exact (blind_get_ fk i). Qed.
Lemma blind_nth_front_mut fk i : blind fk (nth_front_mut i). Proof. exact (blind_get_mut fk i). Qed.
Lemma blind_nth_back fk i : blind fk (nth_back i). Proof. unfold nth_back. blind_tac. Qed.
Lemma blind_nth_back_mut fk i : blind fk (nth_back_mut i).
Proof. unfold nth_back_mut. blind_tac. Qed.
#[local] Hint Resolve blind_nth_front blind_nth_front_mut blind_nth_back blind_nth_back_mut : blind.

Lemma blind_push_back fk e : blind fk (push_back e). Proof. unfold push_back. blind_tac. Qed.
Lemma blind_try_push_back fk e : blind fk (try_push_back e).
Proof. unfold try_push_back. blind_tac. Qed.
Lemma blind_push_front fk e : blind fk (push_front e). Proof. unfold push_front. blind_tac. Qed.
Lemma blind_try_push_front fk e : blind fk (try_push_front e).
Proof. unfold try_push_front. blind_tac. Qed.
Lemma blind_pop_back fk : blind fk pop_back. Proof. unfold pop_back. blind_tac. Qed.
Lemma blind_pop_front fk : blind fk pop_front. Proof. unfold pop_front. blind_tac. Qed.
#[local] Hint Resolve blind_push_back blind_try_push_back blind_push_front blind_try_push_front
  blind_pop_back blind_pop_front : blind.

Lemma blind_remove fk i : blind fk (remove i). Proof. unfold remove. blind_tac. Qed.
Lemma blind_swap fk i j : blind fk (swap i j). Proof. unfold swap. blind_tac. Qed.
#[local] Hint Resolve blind_remove blind_swap : blind.
Lemma blind_swap_remove_back fk i : blind fk (swap_remove_back i).
Proof. unfold swap_remove_back. blind_tac. Qed.
Lemma blind_swap_remove_front fk i : blind fk (swap_remove_front i).
Proof. unfold swap_remove_front. blind_tac. Qed.
#[local] Hint Resolve blind_swap_remove_back blind_swap_remove_front : blind.

Lemma blind_truncate_back fk n : fkind_eqb FDrop fk = false -> blind fk (truncate_back n).
Proof. intros. unfold truncate_back. blind_tac. Qed.
Lemma blind_truncate_front fk n : fkind_eqb FDrop fk = false -> blind fk (truncate_front n).
Proof. intros. unfold truncate_front. blind_tac. Qed.
#[local] Hint Resolve blind_truncate_back blind_truncate_front : blind.
Lemma blind_clear fk : fkind_eqb FDrop fk = false -> blind fk clear.
Proof. intros. unfold clear. blind_tac. Qed.
#[local] Hint Resolve blind_clear : blind.
Lemma blind_drop_buf fk : fkind_eqb FDrop fk = false -> blind fk drop_buf.
Proof. exact (blind_clear fk). Qed.
#[local] Hint Resolve blind_drop_buf : blind.

Lemma blind_fill_spare_loop fk v :
  fkind_eqb FDrop fk = false -> fkind_eqb FClone fk = false ->
  forall fuel, blind fk (fill_spare_loop fuel v).
Proof. intros ? ?. induction fuel; cbn [fill_spare_loop]; blind_tac. Qed.
#[local] Hint Resolve blind_fill_spare_loop : blind.
Lemma blind_fill_spare fk v :
  fkind_eqb FDrop fk = false -> fkind_eqb FClone fk = false -> blind fk (fill_spare v).
Proof. intros. unfold fill_spare. blind_tac. Qed.
#[local] Hint Resolve blind_fill_spare : blind.
Lemma blind_fill fk v :
  fkind_eqb FDrop fk = false -> fkind_eqb FClone fk = false -> blind fk (fill v).
Proof. intros. unfold fill. blind_tac. Qed.

Lemma blind_fill_spare_with_loop fk :
  fkind_eqb FDrop fk = false -> fkind_eqb FCall fk = false ->
  forall fuel, blind fk (fill_spare_with_loop fuel).
Proof. intros ? ?. induction fuel; cbn [fill_spare_with_loop]; blind_tac. Qed.
#[local] Hint Resolve blind_fill_spare_with_loop : blind.
Lemma blind_fill_spare_with fk :
  fkind_eqb FDrop fk = false -> fkind_eqb FCall fk = false -> blind fk fill_spare_with.
Proof. intros. unfold fill_spare_with. blind_tac. Qed.
#[local] Hint Resolve blind_fill_spare_with : blind.
Lemma blind_fill_with fk :
  fkind_eqb FDrop fk = false -> fkind_eqb FCall fk = false -> blind fk fill_with.
Proof. intros. unfold fill_with. blind_tac. Qed.

Lemma blind_wusc_loop fk dst src :
  fkind_eqb FDrop fk = false -> fkind_eqb FClone fk = false ->
  forall n i, blind fk (wusc_loop dst src n i).
Proof. intros ? ?. induction n; intros i; cbn [wusc_loop]; blind_tac. Qed.
#[local] Hint Resolve blind_wusc_loop : blind.
Lemma blind_write_uninit_slice_cloned fk dst src :
  fkind_eqb FDrop fk = false -> fkind_eqb FClone fk = false ->
  blind fk (write_uninit_slice_cloned dst src).
Proof. intros. unfold write_uninit_slice_cloned. blind_tac. Qed.
#[local] Hint Resolve blind_write_uninit_slice_cloned : blind.
Lemma blind_extend_from_slice fk xs :
  fkind_eqb FDrop fk = false -> fkind_eqb FClone fk = false -> blind fk (extend_from_slice xs).
Proof. intros. unfold extend_from_slice. blind_tac. Qed.
#[local] Hint Resolve blind_fill blind_fill_with blind_extend_from_slice : blind.

(* ---- Iter.v ----------------------------------------------------------------------------- *)

Lemma blind_translate_range_bounds fk sb eb : blind fk (translate_range_bounds sb eb).
Proof. unfold translate_range_bounds. blind_tac. Qed.
Lemma blind_slice_take fk sl sb eb : blind fk (slice_take sl sb eb).
Proof. unfold slice_take. blind_tac. Qed.
#[local] Hint Resolve blind_translate_range_bounds blind_slice_take : blind.
Lemma blind_iter_new fk : blind fk iter_new. Proof. unfold iter_new. blind_tac. Qed.
Lemma blind_iter_mut_new fk : blind fk iter_mut_new. Proof. unfold iter_mut_new. blind_tac. Qed.
Lemma blind_advance_front_by fk it n : blind fk (advance_front_by it n).
Proof. unfold advance_front_by. blind_tac. Qed.
Lemma blind_advance_back_by fk it n : blind fk (advance_back_by it n).
Proof. unfold advance_back_by. blind_tac. Qed.
Lemma blind_iter_len fk it : blind fk (iter_len it). Proof. unfold iter_len. blind_tac. Qed.
#[local] Hint Resolve blind_iter_new blind_iter_mut_new blind_advance_front_by
  blind_advance_back_by blind_iter_len : blind.
Lemma blind_iter_over_range fk sb eb : blind fk (iter_over_range sb eb).
Proof. unfold iter_over_range. blind_tac. Qed.
Lemma blind_iter_mut_over_range fk sb eb : blind fk (iter_mut_over_range sb eb).
Proof. unfold iter_mut_over_range. blind_tac. Qed.
Lemma blind_into_iter_next fk : blind fk into_iter_next. Proof. exact (blind_pop_front fk). Qed.
Lemma blind_into_iter_next_back fk : blind fk into_iter_next_back.
Proof. exact (blind_pop_back fk). Qed.
Lemma blind_into_iter_len fk : blind fk into_iter_len. Proof. exact (blind_len fk). Qed.
Lemma blind_into_iter_drop fk : fkind_eqb FDrop fk = false -> blind fk into_iter_drop.
Proof. exact (blind_drop_buf fk). Qed.
#[local] Hint Resolve blind_iter_over_range blind_iter_mut_over_range blind_into_iter_next
  blind_into_iter_next_back blind_into_iter_len blind_into_iter_drop : blind.

(* ---- Drain.v ---------------------------------------------------------------------------- *)

Lemma blind_drain_over_range fk sb eb : blind fk (drain_over_range sb eb).
Proof. unfold drain_over_range. blind_tac. Qed.
Lemma blind_drain_read fk d i : blind fk (drain_read d i).
Proof. unfold drain_read. blind_tac. Qed.
#[local] Hint Resolve blind_drain_over_range blind_drain_read : blind.
Lemma blind_drain_as_slices fk d : blind fk (drain_as_slices d).
Proof. unfold drain_as_slices. blind_tac. Qed.
Lemma blind_drain_as_mut_slices fk d : blind fk (drain_as_mut_slices d).
Proof. exact (blind_drain_as_slices fk d). Qed.
Lemma blind_drain_next fk d : blind fk (drain_next d). Proof. unfold drain_next. blind_tac. Qed.
Lemma blind_drain_next_back fk d : blind fk (drain_next_back d).
Proof. unfold drain_next_back. blind_tac. Qed.
Lemma blind_csp_as_ptr fk c : blind fk (csp_as_ptr c). Proof. unfold csp_as_ptr. blind_tac. Qed.
Lemma blind_csp_available_len fk c : blind fk (csp_available_len c).
Proof. unfold csp_available_len. blind_tac. Qed.
Lemma blind_csp_add fk c n : blind fk (csp_add c n). Proof. unfold csp_add. blind_tac. Qed.
#[local] Hint Resolve blind_drain_as_slices blind_drain_as_mut_slices blind_drain_next
  blind_drain_next_back blind_csp_as_ptr blind_csp_available_len blind_csp_add : blind.
Lemma blind_drain_fill_loop fk :
  forall fuel hole backfill remaining, blind fk (drain_fill_loop fuel hole backfill remaining).
Proof. induction fuel; intros; cbn [drain_fill_loop]; blind_tac. Qed.
#[local] Hint Resolve blind_drain_fill_loop : blind.
Lemma blind_drain_drop fk d : fkind_eqb FDrop fk = false -> blind fk (drain_drop d).
Proof. intros. unfold drain_drop. blind_tac. Qed.
#[local] Hint Resolve blind_drain_drop : blind.

(* ---- Traits.v --------------------------------------------------------------------------- *)

(* only Clone matters for to_vec: the destructor calls sit in a cleanup that
   cannot run ([blind_on_unwind_clone]) *)
Lemma blind_to_vec_loop fk src :
  fkind_eqb FClone fk = false ->
  forall fuel it acc, blind fk (to_vec_loop fuel src it acc).
Proof. intros ?. induction fuel; intros; cbn [to_vec_loop]; blind_tac. Qed.
#[local] Hint Resolve blind_to_vec_loop : blind.
Lemma blind_to_vec fk : fkind_eqb FClone fk = false -> blind fk to_vec.
Proof. intros. unfold to_vec. blind_tac. Qed.

Lemma blind_from_array_body fk arr :
  fkind_eqb FDrop fk = false -> blind fk (from_array_body arr).
Proof. intros. unfold from_array_body. blind_tac. Qed.
#[local] Hint Resolve blind_to_vec blind_from_array_body : blind.
Lemma blind_from_array fk n junk arr :
  fkind_eqb FDrop fk = false -> blind fk (from_array n junk arr).
Proof. intros. unfold from_array. blind_tac. Qed.

Lemma blind_extend_loop fk :
  fkind_eqb FDrop fk = false -> fkind_eqb FNext fk = false ->
  forall xs, blind fk (extend_loop xs).
Proof. intros ? ?. induction xs; cbn [extend_loop]; blind_tac. Qed.
#[local] Hint Resolve blind_from_array blind_extend_loop : blind.
Lemma blind_extend fk xs :
  fkind_eqb FDrop fk = false -> fkind_eqb FNext fk = false -> blind fk (extend xs).
Proof. intros. unfold extend. blind_tac. Qed.
Lemma blind_from_iter fk n junk xs :
  fkind_eqb FDrop fk = false -> fkind_eqb FNext fk = false -> blind fk (from_iter n junk xs).
Proof. intros. unfold from_iter. blind_tac. Qed.
Lemma blind_extend_ref fk : forall xs, blind fk (extend_ref xs).
Proof. induction xs; cbn [extend_ref]; blind_tac. Qed.
Lemma blind_index fk i : blind fk (index i). Proof. unfold index. blind_tac. Qed.
Lemma blind_index_mut fk i : blind fk (index_mut i). Proof. unfold index_mut. blind_tac. Qed.
#[local] Hint Resolve blind_extend blind_from_iter blind_extend_ref blind_index blind_index_mut
  : blind.

Lemma blind_list_eq_loop fk eqf :
  fkind_eqb FEq fk = false -> forall xs ys, blind fk (list_eq_loop eqf xs ys).
Proof.
  intros ?. induction xs as [|x xs IH]; intros ys; cbn [list_eq_loop]; [blind_tac|].
  destruct ys; blind_tac.
Qed.
#[local] Hint Resolve blind_list_eq_loop : blind.
Lemma blind_slice_eq fk eqf xs ys :
  fkind_eqb FEq fk = false -> blind fk (slice_eq eqf xs ys).
Proof. intros. unfold slice_eq. blind_tac. Qed.
Lemma blind_and_then fk a b : blind fk a -> blind fk b -> blind fk (and_then a b).
Proof. intros. unfold and_then. blind_tac. Qed.
Lemma blind_sl_to fk sl x : blind fk (sl_to sl x). Proof. unfold sl_to. blind_tac. Qed.
Lemma blind_sl_from fk sl x : blind fk (sl_from sl x). Proof. unfold sl_from. blind_tac. Qed.
#[local] Hint Resolve blind_slice_eq blind_sl_to blind_sl_from : blind.

Ltac blind_extra ::=
  match goal with
  | |- blind _ (on_unwind (clone_elem _) _) => apply blind_on_unwind_clone
  | |- blind _ (and_then _ _) => apply blind_and_then
  end.

Lemma blind_buf_eq fk eqf other : fkind_eqb FEq fk = false -> blind fk (buf_eq eqf other).
Proof. intros. unfold buf_eq. blind_tac. Qed.
Lemma blind_buf_eq_slice fk eqf other :
  fkind_eqb FEq fk = false -> blind fk (buf_eq_slice eqf other).
Proof. intros. unfold buf_eq_slice. blind_tac. Qed.
#[local] Hint Resolve blind_buf_eq blind_buf_eq_slice : blind.

Lemma blind_iter_cmp_loop fk cmpf a b :
  fkind_eqb FCmp fk = false -> forall fuel ia ib, blind fk (iter_cmp_loop cmpf fuel a b ia ib).
Proof. intros ?. induction fuel; intros; cbn [iter_cmp_loop]; blind_tac. Qed.
#[local] Hint Resolve blind_iter_cmp_loop : blind.
Lemma blind_buf_partial_cmp fk cmpf other :
  fkind_eqb FCmp fk = false -> blind fk (buf_partial_cmp cmpf other).
Proof. intros. unfold buf_partial_cmp. blind_tac. Qed.
Lemma blind_buf_cmp fk cmpf other : fkind_eqb FCmp fk = false -> blind fk (buf_cmp cmpf other).
Proof. exact (blind_buf_partial_cmp fk cmpf other). Qed.
#[local] Hint Resolve blind_buf_partial_cmp blind_buf_cmp : blind.

Lemma blind_iter_for_each fk src body :
  (forall e, blind fk (body e)) -> forall fuel it, blind fk (iter_for_each fuel src it body).
Proof. intros ?. induction fuel; intros; cbn [iter_for_each]; blind_tac. Qed.
Lemma blind_buf_hash fk : fkind_eqb FHash fk = false -> blind fk buf_hash.
Proof.
  intros. unfold buf_hash. blind_tac. apply blind_iter_for_each. intros. blind_tac.
Qed.
Lemma blind_buf_fmt fk : fkind_eqb FFmt fk = false -> blind fk buf_fmt.
Proof.
  intros. unfold buf_fmt. blind_tac. apply blind_iter_for_each. intros. blind_tac.
Qed.
#[local] Hint Resolve blind_buf_hash blind_buf_fmt : blind.

(* IntoIterator for &CircularBuffer, Debug for Iter / IterMut / Drain / IntoIter *)
Lemma blind_ref_into_iter fk : blind fk ref_into_iter.
Proof. exact (blind_iter_new fk). Qed.
Lemma blind_iter_fmt fk it : fkind_eqb FFmt fk = false -> blind fk (iter_fmt it).
Proof.
  intros. unfold iter_fmt. blind_tac. apply blind_iter_for_each. intros. blind_tac.
Qed.
#[local] Hint Resolve blind_ref_into_iter blind_iter_fmt : blind.
Lemma blind_iter_mut_fmt fk it : fkind_eqb FFmt fk = false -> blind fk (iter_mut_fmt it).
Proof. intros. unfold iter_mut_fmt. blind_tac. Qed.
Lemma blind_drain_fmt fk d : fkind_eqb FFmt fk = false -> blind fk (drain_fmt d).
Proof. intros. unfold drain_fmt. blind_tac. Qed.
Lemma blind_into_iter_fmt fk : fkind_eqb FFmt fk = false -> blind fk into_iter_fmt.
Proof. exact (blind_buf_fmt fk). Qed.
#[local] Hint Resolve blind_iter_mut_fmt blind_drain_fmt blind_into_iter_fmt : blind.

Lemma blind_cloned_for_each fk src body :
  fkind_eqb FClone fk = false -> (forall e, blind fk (body e)) ->
  forall fuel it, blind fk (cloned_for_each fuel src it body).
Proof. intros ? ?. induction fuel; intros; cbn [cloned_for_each]; blind_tac. Qed.
Lemma blind_push_back_discard fk c :
  fkind_eqb FDrop fk = false -> blind fk (push_back_discard c).
Proof. intros. unfold push_back_discard. blind_tac. Qed.
#[local] Hint Resolve blind_push_back_discard : blind.
Lemma blind_clone_buf fk junk :
  fkind_eqb FDrop fk = false -> fkind_eqb FClone fk = false -> blind fk (clone_buf junk).
Proof.
  intros. unfold clone_buf. blind_tac. apply blind_cloned_for_each; [assumption|]. intros. blind_tac.
Qed.
Lemma blind_clone_from fk other :
  fkind_eqb FDrop fk = false -> fkind_eqb FClone fk = false -> blind fk (clone_from other).
Proof.
  intros. unfold clone_from. blind_tac. apply blind_cloned_for_each; [assumption|]. intros. blind_tac.
Qed.
#[local] Hint Resolve blind_clone_buf blind_clone_from : blind.

(* ---- Io.v ------------------------------------------------------------------------------- *)

Lemma blind_fam_write fk fam src :
  fkind_eqb FDrop fk = false -> fkind_eqb FClone fk = false -> blind fk (fam_write fam src).
Proof. intros. destruct fam; cbn [fam_write]; unfold io_write, eio_write, aio_write; blind_tac. Qed.
Lemma blind_fam_flush fk fam : blind fk (fam_flush fam).
Proof. destruct fam; cbn [fam_flush]; unfold io_flush, eio_flush, aio_flush; blind_tac. Qed.
Lemma blind_fam_read fk fam dst : fkind_eqb FDrop fk = false -> blind fk (fam_read fam dst).
Proof. intros. destruct fam; cbn [fam_read]; unfold io_read, eio_read, aio_read; blind_tac. Qed.
Lemma blind_fam_fill_buf fk fam : blind fk (fam_fill_buf fam).
Proof.
  destruct fam; cbn [fam_fill_buf]; unfold io_fill_buf, eio_fill_buf, aio_fill_buf; blind_tac.
Qed.
Lemma blind_fam_consume fk fam amt : fkind_eqb FDrop fk = false -> blind fk (fam_consume fam amt).
Proof.
  intros. destruct fam; cbn [fam_consume]; unfold io_consume, eio_consume, aio_consume; blind_tac.
Qed.
#[local] Hint Resolve blind_fam_write blind_fam_flush blind_fam_read blind_fam_fill_buf
  blind_fam_consume : blind.

(* ---- System.v --------------------------------------------------------------------------- *)

Lemma blind_deref fk o : blind fk (deref o). Proof. unfold deref. blind_tac. Qed.
Lemma blind_deref_set fk o v : blind fk (deref_set o v). Proof. unfold deref_set. blind_tac. Qed.
Lemma blind_write_through fk : forall ps ws, blind fk (write_through ps ws).
Proof.
  induction ps as [|p ps IH]; intros ws; cbn [write_through]; [blind_tac|].
  destruct ws; blind_tac.
Qed.
Lemma blind_run_iter_script fk : forall script it, blind fk (run_iter_script it script).
Proof.
  induction script as [|st rest IH]; intros it; cbn [run_iter_script]; [blind_tac|].
  destruct st; unfold iter_mut_next, iter_mut_next_back; blind_tac.
Qed.
Lemma blind_run_drain_script fk : forall script d, blind fk (run_drain_script d script).
Proof.
  induction script as [|st rest IH]; intros d; cbn [run_drain_script]; [blind_tac|].
  destruct st; blind_tac.
Qed.
Lemma blind_run_into_iter_script fk : forall script, blind fk (run_into_iter_script script).
Proof.
  induction script as [|st rest IH]; cbn [run_into_iter_script]; [blind_tac|].
  destruct st; blind_tac.
Qed.
Lemma blind_replace_buf fk nb : fkind_eqb FDrop fk = false -> blind fk (replace_buf nb).
Proof. intros. unfold replace_buf. blind_tac. Qed.
Lemma blind_eq_form fk form eqf xs : fkind_eqb FEq fk = false -> blind fk (eq_form form eqf xs).
Proof. intros. destruct form; exact (blind_buf_eq_slice fk eqf xs H). Qed.
#[local] Hint Resolve blind_deref blind_deref_set blind_write_through blind_run_iter_script
  blind_run_drain_script blind_run_into_iter_script blind_replace_buf blind_eq_form : blind.

(* ---- fill_spare_with and destructors: a semantic case -------------------------------------

   fill_spare_with contains [drop_opt r] for the result of push_back, but the
   loop only pushes while size < N (and N <> 0), where push_back returns None
   (or panics): no destructor is ever reached. This needs the state, not
   well-formedness: [blind_at]. *)

Definition samecap (s s' : cbuf) : Prop := cap s' = cap s.

Lemma bind_inv {A B} (m : M A) (f : A -> M B) s w r s' w' :
  bind m f s w = (Ok r, s', w') ->
  exists a s1 w1, m s w = (Ok a, s1, w1) /\ f a s1 w1 = (Ok r, s', w').
Proof.
  unfold bind. destruct (m s w) as [[[a|p] s1] w1]; [|discriminate].
  intros H. exists a, s1, w1. split; [reflexivity|exact H].
Qed.

Lemma push_back_spare c s w r s1 w1 :
  cap s <> 0 -> size s < cap s ->
  push_back c s w = (Ok r, s1, w1) -> r = None /\ cap s1 = cap s.
Proof.
  intros Hc Hs H.
  assert (E : push_back c s w =
              (inc_size;; p <- back_maybe_uninit_mut;; write_slot p c;; ret None) s w).
  { unfold push_back. erewrite bind_ok by (unfold get; reflexivity). cbv beta.
    replace (cap s =? 0) with false by lia. replace (cap s <=? size s) with false by lia.
    reflexivity. }
  rewrite E in H. split.
  - apply bind_inv in H. destruct H as (? & ? & ? & _ & H).
    apply bind_inv in H. destruct H as (? & ? & ? & _ & H).
    apply bind_inv in H. destruct H as (? & ? & ? & _ & H).
    unfold ret in H. congruence.
  - assert (Rr : forall a, samecap a a) by reflexivity.
    assert (Rt : forall a b c, samecap a b -> samecap b c -> samecap a c)
      by (unfold samecap; intros; congruence).
    assert (Hr : runs samecap
                   (inc_size;; p <- back_maybe_uninit_mut;; write_slot p c;;
                    ret (@None elem))).
    { apply (runs_bind samecap Rt);
        [exact (runs_inc_size samecap Rr Rt (fun _ _ => eq_refl))|intros ?].
      apply (runs_bind samecap Rt);
        [exact (runs_back_maybe_uninit_mut samecap Rr Rt)|intros ?].
      apply (runs_bind samecap Rt);
        [exact (runs_write_slot samecap (fun _ _ => eq_refl) _ _)|intros ?].
      exact (@runs_ret samecap Rr (option elem) None). }
    exact (Hr _ _ _ _ _ H).
Qed.

Lemma blind_at_fill_spare_with_loop_drop :
  forall fuel s, cap s <> 0 -> blind_at FDrop (fill_spare_with_loop fuel) s.
Proof.
  induction fuel as [|fuel IH]; intros s Hc; cbn [fill_spare_with_loop];
    (apply blind_at_bind; [apply blind_get|]);
    intros a s1 w0 w1 _ E; unfold get in E; inversion E; subst a s1; clear E;
    (destruct (size s <? cap s) eqn:Hlt; [|apply blind_ret]).
  - apply blind_panic.
  - apply blind_at_bind; [apply blind_call_closure; reflexivity|].
    intros c s2 w2 w3 Hf2 E2. rewrite call_closure_nofault in E2 by exact Hf2.
    inversion E2; subst s2. clear E2.
    apply blind_at_bind; [apply blind_push_back|].
    intros r s3 w4 w5 _ E4.
    destruct (push_back_spare _ s _ _ _ _ Hc ltac:(lia) E4) as [-> Hc3].
    apply blind_at_bind; [apply (blind_ret FDrop tt)|].
    intros [] s4 w6 w7 _ E6. unfold drop_opt, ret in E6. inversion E6; subst s4.
    apply IH. congruence.
Qed.

Lemma blind_fill_spare_with_drop : blind FDrop fill_spare_with.
Proof.
  intros s. unfold fill_spare_with. apply blind_at_bind; [apply blind_get|].
  intros a s1 w0 w1 _ E. unfold get in E. inversion E; subst a s1.
  destruct (cap s =? 0) eqn:Hc; [apply blind_ret|].
  apply blind_at_fill_spare_with_loop_drop. lia.
Qed.
#[local] Hint Resolve blind_fill_spare_with_drop : blind.

(* ---- (2) the frame theorem ------------------------------------------------------------------ *)

Lemma blind_exec o fk : may_call o fk = false -> blind fk (exec o).
Proof.
  destruct fk; destruct o; cbn [may_call]; intros Hm; try discriminate Hm;
    try (match goal with f : bool |- _ => destruct f; try discriminate Hm end);
    cbn [exec]; blind_tac.
Qed.

Theorem fault_frame o fk s w k :
  may_call o fk = false -> fault w = Some (fk, k) ->
  exec o s w =
    let '(r, s', w') := exec o s (w_fault w None) in (r, s', w_fault w' (Some (fk, k))).
Proof.
  intros Hm Hf.
  destruct (exec o s (w_fault w None)) as [[r s'] w'] eqn:E.
  destruct (blind_exec o fk Hm s (w_fault w None) k r s' w' eq_refl E) as [_ H].
  rewrite arm_disarm in H by exact Hf. exact H.
Qed.

(* the fault-free run never arms a plan, so [w'] above has none *)
Lemma fault_frame_none o fk s w0 r s' w' :
  may_call o fk = false -> fault w0 = None -> exec o s w0 = (r, s', w') -> fault w' = None.
Proof. intros Hm Hf E. exact (proj1 (blind_exec o fk Hm s w0 0 r s' w' Hf E)). Qed.

(* whatever it calls, an operation started without a plan ends without one *)
Lemma exec_keeps_none o s w0 r s' w' :
  fault w0 = None -> exec o s w0 = (r, s', w') -> fault w' = None.
Proof.
  destruct (may_call o FHash) eqn:E.
  - apply (fault_frame_none o FFmt). destruct o; try discriminate E. reflexivity.
  - apply (fault_frame_none o FHash). exact E.
Qed.

(* ---- (3) transfer of refinement ---------------------------------------------------------------- *)

(* [refines_at] with a plan of kind [fk] armed that the operation cannot
   trigger: same results, contents, events and fresh identities as in the
   fault-free world, and the plan is retained *)
Definition refines_at_armed (o : op) (s : cbuf) (w : world) (fk : fkind) (k : Z) : Prop :=
  match spec_step (cap s) (abs s) o (next_id w) with
  | SRet r =>
    exists v s',
      exec o s w =
        (Ok v, s', w_fault (wev (w_fault w None) (sr_evs r) (sr_nid r)) (Some (fk, k))) /\
      out_ok o (sr_out r) v /\ abs s' = sr_list r /\ WF s' /\ cap s' = cap s
  | SPanic =>
    exists kd, exec o s w = (Panic kd, s, w) /\ documented_kind kd
  end.

Theorem fault_frame_refines o fk s w k :
  may_call o fk = false -> WF s -> op_ok s o -> fault w = Some (fk, k) ->
  refines_at_armed o s w fk k.
Proof.
  intros Hm HW Hok Hf.
  pose proof (exec_refines o s (w_fault w None) HW eq_refl Hok) as H.
  unfold refines_at in H. unfold refines_at_armed.
  change (next_id (w_fault w None)) with (next_id w) in H.
  rewrite (fault_frame o fk s w k Hm Hf).
  destruct (spec_step (cap s) (abs s) o (next_id w)) as [r|].
  - destruct H as (v & s' & He & H). exists v, s'. rewrite He. split; [reflexivity|exact H].
  - destruct H as (kd & He & H). exists kd. rewrite He. split; [|exact H].
    change (w_fault (w_fault w None) (Some (fk, k))) with (arm fk k (w_fault w None)).
    rewrite arm_disarm by exact Hf. reflexivity.
Qed.

(* the same in the form of [step_cases] *)
Corollary fault_frame_step_cases o fk s w k :
  may_call o fk = false -> WF s -> op_ok s o -> fault w = Some (fk, k) ->
  (exists r v s',
     spec_step (cap s) (abs s) o (next_id w) = SRet r /\
     exec o s w =
       (Ok v, s', w_fault (wev (w_fault w None) (sr_evs r) (sr_nid r)) (Some (fk, k))) /\
     out_ok o (sr_out r) v /\ abs s' = sr_list r /\ WF s' /\ cap s' = cap s) \/
  (exists kd,
     spec_step (cap s) (abs s) o (next_id w) = SPanic /\
     exec o s w = (Panic kd, s, w) /\ documented_kind kd).
Proof.
  intros Hm HW Hok Hf. pose proof (fault_frame_refines o fk s w k Hm HW Hok Hf) as H.
  unfold refines_at_armed in H.
  destruct (spec_step (cap s) (abs s) o (next_id w)) as [r|].
  - left. destruct H as (v & s' & H). exists r, v, s'. tauto.
  - right. destruct H as (kd & H). exists kd. tauto.
Qed.

(* whole histories of operations none of which can call [fk]: the plan rides
   along, untouched, and every result is the fault-free one *)
Theorem history_frame fk k : forall ops s w,
  Forall (fun o => may_call o fk = false) ops -> fault w = Some (fk, k) ->
  run_history ops s w =
    let '(rs, s', w') := run_history ops s (w_fault w None) in
    (rs, s', w_fault w' (Some (fk, k))).
Proof.
  induction ops as [|o ops IH]; intros s w Hall Hf.
  - cbn [run_history]. change (w_fault (w_fault w None) (Some (fk, k))) with (arm fk k (w_fault w None)).
    rewrite arm_disarm by exact Hf. reflexivity.
  - inversion Hall as [|? ? Ho Hrest]; subst. cbn [run_history].
    rewrite (fault_frame o fk s w k Ho Hf).
    destruct (exec o s (w_fault w None)) as [[r s1] w1] eqn:E.
    assert (F1 : fault w1 = None) by (eapply exec_keeps_none; [|exact E]; reflexivity).
    rewrite (IH s1 (w_fault w1 (Some (fk, k))) Hrest eq_refl).
    change (w_fault (w_fault w1 (Some (fk, k))) None) with (w_fault w1 None).
    rewrite (w_fault_same w1 None F1).
    destruct (run_history ops s1 w1) as [[rs s'] w']. reflexivity.
Qed.

(* ---- (4) an example ---------------------------------------------------------------------------- *)

(* a full, wrapped buffer (front at slot 2) with a destructor plan armed:
   push_back evicts the front element and hands it back by value; nothing is
   destroyed, the plan is still armed and will hit the first destructor *)
Example push_back_under_drop_plan :
  let s := mkB 4 4 2 (fun p => mkE (100 + p) p) in
  let w := mkW true 500 [] (Some (FDrop, 0)) in
  exec (OPushBack (mkE 7 7)) s w =
    (Ok (OutOpt (Some (mkE 102 2))),
     mkB 4 4 3 (s_write (fun p => mkE (100 + p) p) 2 (mkE 7 7)), w)
  /\ abs (snd (fst (exec (OPushBack (mkE 7 7)) s w))) =
       [mkE 103 3; mkE 100 0; mkE 101 1; mkE 7 7]
  /\ may_call (OPushBack (mkE 7 7)) FDrop = false
  (* whereas the next clear meets the plan at its first destructor call *)
  /\ fst (fst (exec OClear s w)) = Panic PUser.
Proof. vm_compute. repeat split; reflexivity. Qed.

(* ---- the table is tight --------------------------------------------------------------------------

   Every entry [true] of [may_call] is needed: for each (constructor, kind)
   marked true, here is an instance on a small buffer where the plan fires
   (the call unwinds with the injected panic), so the frame equation fails.
   One line per true entry of the table. *)

Definition tight_full : cbuf := mkB 4 4 2 (fun p => mkE (100 + p) p).
Definition tight_part : cbuf := mkB 4 1 3 (fun p => mkE (100 + p) p).
Definition tight_world (fk : fkind) : world := mkW true 500 [] (Some (fk, 0)).

Definition tight_cases : list (op * fkind * cbuf) :=
  let e := mkE 7 7 in
  [ (OTruncateBack 1, FDrop, tight_full); (OTruncateFront 1, FDrop, tight_full);
    (OClear, FDrop, tight_full); (OExtend [e], FDrop, tight_full);
    (OExtendFromSlice [e], FDrop, tight_full); (OFill e, FDrop, tight_full);
    (OFillWith, FDrop, tight_full); (OFillSpare e, FDrop, tight_full);
    (ODrain BUnb BUnb [] false, FDrop, tight_full); (OIntoIter [], FDrop, tight_full);
    (ONew, FDrop, tight_full); (OFromArray [e], FDrop, tight_full);
    (OFromIter [e], FDrop, tight_full); (OCloneDropClone, FDrop, tight_full);
    (OCloneKeepClone, FDrop, tight_full); (OCloneFrom tight_part, FDrop, tight_full);
    (OWrite Std [e], FDrop, tight_full); (OWrite Eio [e], FDrop, tight_full);
    (OWrite Aio [e], FDrop, tight_full);
    (ORead Std [e], FDrop, tight_full); (ORead Eio [e], FDrop, tight_full);
    (ORead Aio [e], FDrop, tight_full);
    (OConsume Std 1, FDrop, tight_full); (OConsume Eio 1, FDrop, tight_full);
    (OConsume Aio 1, FDrop, tight_full);
    (OFill e, FClone, tight_full); (OFillSpare e, FClone, tight_part);
    (OExtendFromSlice [e], FClone, tight_full); (OCloneDropClone, FClone, tight_full);
    (OCloneKeepClone, FClone, tight_full); (OCloneFrom tight_part, FClone, tight_full);
    (OToVec, FClone, tight_full); (OWrite Std [e], FClone, tight_full);
    (OFillWith, FCall, tight_full); (OFillSpareWith, FCall, tight_part);
    (OExtend [e], FNext, tight_full); (OFromIter [e], FNext, tight_full);
    (OEq tight_full, FEq, tight_full); (OEqSlice EqSlice [e; e; e; e], FEq, tight_full);
    (OPartialCmp tight_full, FCmp, tight_full); (OCmp tight_full, FCmp, tight_full);
    (OHash, FHash, tight_full); (ODebug, FFmt, tight_full);
    (OBoxed, FDrop, tight_full); (ODefault, FDrop, tight_full);
    (ODrainDebug BUnb BUnb [], FDrop, tight_full); (OIntoIterDebug [], FDrop, tight_full);
    (OIterDebug BUnb BUnb [], FFmt, tight_full); (OIterMutDebug BUnb BUnb [], FFmt, tight_full);
    (ODrainDebug BUnb BUnb [], FFmt, tight_full); (OIntoIterDebug [], FFmt, tight_full) ].

Definition is_user_panic {A} (r : outcome A) : bool :=
  match r with Panic PUser => true | _ => false end.

Example may_call_tight :
  forallb (fun '(o, fk, s) =>
             may_call o fk && is_user_panic (fst (fst (exec o s (tight_world fk)))))
          tight_cases = true.
Proof. vm_compute. reflexivity. Qed.
