(* FaultGeneric.v — two facts about EVERY operation in EVERY world (armed or
   not, well-formed state or not), proved once by a closure argument over the
   monad combinators, in the style of FaultFrame.v:

   [frs]  created elements are fresh: the events a computation appends to the
          log create exactly the identities next_id w, next_id w + 1, ...,
          next_id w' - 1, in this order; dbg is never changed;
   [unf]  the one-shot plan: it is never armed or re-armed, its kind never
          changes, its counter only decreases (and stays non-negative if it
          was); a computation that spends it ends in a panic; and a run that
          does NOT spend it is, step for step, the fault-free run ("unfired").

   Results: [exec_fresh], [exec_plan], [exec_spent_panics], [exec_unfired]. *)

From CB Require Import Spec.
From CBP Require Import MonadLemmas Arith AbsLemmas ListLemmas AbsOps Core Step RefDefs
     FaultDefs FaultPrims.
From Coq Require Import ZifyBool.
Ltac Zify.zify_post_hook ::= Z.div_mod_to_equations.

Definition disarm (w : world) : world := w_fault w None.

(* ---- freshness ------------------------------------------------------------------- *)

Definition fr_post (w w' : world) : Prop :=
  exists evs,
    log w' = log w ++ evs /\ dbg w' = dbg w /\ next_id w <= next_id w' /\
    ids (created_of evs) = zseq (next_id w) (Z.to_nat (next_id w' - next_id w)).

Definition frs {A} (m : M A) : Prop :=
  forall s w r s' w', m s w = (r, s', w') -> fr_post w w'.

Lemma zseq_app a n m : zseq a (n + m) = zseq a n ++ zseq (a + Z.of_nat n) m.
Proof.
  revert a. induction n as [|n IH]; intros a.
  - cbn [Nat.add]. change (zseq a 0) with (@nil Z). cbn [app]. f_equal. lia.
  - change (S n + m)%nat with (S (n + m)). rewrite !zseq_cons, IH. cbn [app]. do 3 f_equal. lia.
Qed.

Lemma fr_post_refl w : fr_post w w.
Proof.
  exists []. rewrite app_nil_r, Z.sub_diag. repeat split; first [reflexivity | lia].
Qed.

Lemma fr_post_trans w w1 w2 : fr_post w w1 -> fr_post w1 w2 -> fr_post w w2.
Proof.
  intros (e1 & L1 & D1 & N1 & C1) (e2 & L2 & D2 & N2 & C2).
  exists (e1 ++ e2). rewrite L2, L1, app_assoc. split; [reflexivity|].
  split; [congruence|]. split; [lia|].
  rewrite created_of_app. unfold ids in *. rewrite map_app, C1, C2.
  replace (Z.to_nat (next_id w2 - next_id w))
    with (Z.to_nat (next_id w1 - next_id w) + Z.to_nat (next_id w2 - next_id w1))%nat by lia.
  rewrite zseq_app. do 2 f_equal. lia.
Qed.

Lemma frs_bind {A B} (m : M A) (f : A -> M B) :
  frs m -> (forall a, frs (f a)) -> frs (bind m f).
Proof.
  intros Hm Hf s w r s' w' H. unfold bind in H.
  destruct (m s w) as [[[a|p] s1] w1] eqn:E.
  - eapply fr_post_trans; [exact (Hm _ _ _ _ _ E)|exact (Hf a _ _ _ _ _ H)].
  - inversion H; subst. exact (Hm _ _ _ _ _ E).
Qed.

Lemma frs_finally {A} (body : M A) cleanup : frs body -> frs cleanup -> frs (finally body cleanup).
Proof.
  intros Hb Hc s w r s' w' H. unfold finally in H.
  destruct (body s w) as [[r1 s1] w1] eqn:E1.
  destruct (cleanup s1 w1) as [[r2 s2] w2] eqn:E2.
  assert (P : fr_post w w2)
    by (eapply fr_post_trans; [exact (Hb _ _ _ _ _ E1)|exact (Hc _ _ _ _ _ E2)]).
  destruct r2 as [u|p]; [|destruct r1]; inversion H; subst; exact P.
Qed.

Lemma frs_on_unwind {A} (body : M A) cleanup :
  frs body -> frs cleanup -> frs (on_unwind body cleanup).
Proof.
  intros Hb Hc s w r s' w' H. unfold on_unwind in H.
  destruct (body s w) as [[[a|p] s1] w1] eqn:E1.
  - inversion H; subst. exact (Hb _ _ _ _ _ E1).
  - destruct (cleanup s1 w1) as [[r2 s2] w2] eqn:E2.
    assert (P : fr_post w w2)
      by (eapply fr_post_trans; [exact (Hb _ _ _ _ _ E1)|exact (Hc _ _ _ _ _ E2)]).
    destruct r2; inversion H; subst; exact P.
Qed.

Lemma frs_with_buf {A} (b : cbuf) (m : M A) : frs m -> frs (with_buf b m).
Proof.
  intros Hm s w r s' w' H. unfold with_buf in H.
  destruct (m b w) as [[[a|p] s1] w1] eqn:E1; inversion H; subst; exact (Hm _ _ _ _ _ E1).
Qed.

(* ---- the plan ---------------------------------------------------------------------- *)

(* how a plan may evolve *)
Definition plan_step (f f' : option (fkind * Z)) : Prop :=
  match f with
  | None => f' = None
  | Some (fk, k) =>
    f' = None \/ exists k', f' = Some (fk, k') /\ k' <= k /\ (0 <= k -> 0 <= k')
  end.

Lemma plan_step_refl f : plan_step f f.
Proof. destruct f as [[fk k]|]; cbn; [|reflexivity]. right. exists k. split; [reflexivity|lia]. Qed.

Lemma plan_step_trans f f1 f2 : plan_step f f1 -> plan_step f1 f2 -> plan_step f f2.
Proof.
  destruct f as [[fk k]|]; cbn.
  - intros [->|(k1 & -> & L1 & P1)]; cbn.
    + intros ->. left. reflexivity.
    + intros [->|(k2 & -> & L2 & P2)]; [left; reflexivity|].
      right. exists k2. split; [reflexivity|]. split; [lia|]. auto.
  - intros ->. cbn. auto.
Qed.

Lemma plan_step_none f f' : plan_step f f' -> f = None -> f' = None.
Proof. intros H ->. exact H. Qed.

Lemma plan_step_some f f' : plan_step f f' -> f' <> None -> f <> None.
Proof. intros H Hn ->. apply Hn. exact H. Qed.

Definition un_post {A} (m : M A) (s : cbuf) (w : world) (r : outcome A) (s' : cbuf) (w' : world)
  : Prop :=
  plan_step (fault w) (fault w') /\
  (fault w <> None -> fault w' = None -> exists p, r = Panic p) /\
  (fault w' <> None -> m s (disarm w) = (r, s', disarm w')).

Definition unf {A} (m : M A) : Prop :=
  forall s w r s' w', m s w = (r, s', w') -> un_post m s w r s' w'.

Lemma unf_bind {A B} (m : M A) (f : A -> M B) :
  unf m -> (forall a, unf (f a)) -> unf (bind m f).
Proof.
  intros Hm Hf s w r s' w' H. unfold bind in H.
  destruct (m s w) as [[[a|p] s1] w1] eqn:E.
  - destruct (Hm _ _ _ _ _ E) as (P1 & S1 & U1).
    destruct (Hf a _ _ _ _ _ H) as (P2 & S2 & U2).
    split; [eapply plan_step_trans; eassumption|]. split.
    + intros Hw Hw'. destruct (fault w1) as [x|] eqn:E1.
      * apply S2; [congruence|exact Hw'].
      * destruct (S1 Hw eq_refl) as (p & Hp). discriminate Hp.
    + intros Hw'. assert (H1 : fault w1 <> None) by (eapply plan_step_some; eassumption).
      unfold bind. rewrite (U1 H1). exact (U2 Hw').
  - inversion H; subst. destruct (Hm _ _ _ _ _ E) as (P1 & S1 & U1).
    split; [exact P1|]. split.
    + intros _ _. eauto.
    + intros Hw'. unfold bind. rewrite (U1 Hw'). reflexivity.
Qed.

Lemma unf_finally {A} (body : M A) cleanup : unf body -> unf cleanup -> unf (finally body cleanup).
Proof.
  intros Hb Hc s w r s' w' H. unfold finally in H.
  destruct (body s w) as [[r1 s1] w1] eqn:E1.
  destruct (cleanup s1 w1) as [[r2 s2] w2] eqn:E2.
  destruct (Hb _ _ _ _ _ E1) as (P1 & S1 & U1).
  destruct (Hc _ _ _ _ _ E2) as (P2 & S2 & U2).
  assert (Hw2 : w' = w2 /\ s' = s2).
  { destruct r2 as [u|p]; [|destruct r1]; inversion H; subst; auto. }
  destruct Hw2 as [-> ->].
  split; [eapply plan_step_trans; eassumption|]. split.
  - intros Hw Hw'. destruct (fault w1) as [x|] eqn:F1.
    + destruct (S2 ltac:(congruence) Hw') as (p & ->).
      destruct r1; inversion H; eauto.
    + destruct (S1 Hw eq_refl) as (p & ->).
      destruct r2; inversion H; eauto.
  - intros Hw'. assert (H1 : fault w1 <> None) by (eapply plan_step_some; eassumption).
    unfold finally. rewrite (U1 H1), (U2 Hw').
    destruct r2 as [u|p]; [|destruct r1]; inversion H; subst; reflexivity.
Qed.

Lemma unf_on_unwind {A} (body : M A) cleanup :
  unf body -> unf cleanup -> unf (on_unwind body cleanup).
Proof.
  intros Hb Hc s w r s' w' H. unfold on_unwind in H.
  destruct (body s w) as [[[a|p] s1] w1] eqn:E1.
  - inversion H; subst. destruct (Hb _ _ _ _ _ E1) as (P1 & S1 & U1).
    split; [exact P1|]. split; [exact S1|].
    intros Hw'. unfold on_unwind. rewrite (U1 Hw'). reflexivity.
  - destruct (cleanup s1 w1) as [[r2 s2] w2] eqn:E2.
    destruct (Hb _ _ _ _ _ E1) as (P1 & S1 & U1).
    destruct (Hc _ _ _ _ _ E2) as (P2 & S2 & U2).
    assert (Hw2 : w' = w2 /\ s' = s2 /\ exists q, r = Panic q).
    { destruct r2; inversion H; subst; eauto. }
    destruct Hw2 as (-> & -> & Hq).
    split; [eapply plan_step_trans; eassumption|]. split; [intros _ _; exact Hq|].
    intros Hw'. assert (H1 : fault w1 <> None) by (eapply plan_step_some; eassumption).
    unfold on_unwind. rewrite (U1 H1), (U2 Hw').
    destruct r2; inversion H; subst; reflexivity.
Qed.

Lemma unf_with_buf {A} (b : cbuf) (m : M A) : unf m -> unf (with_buf b m).
Proof.
  intros Hm s w r s' w' H. unfold with_buf in H.
  destruct (m b w) as [[[a|p] s1] w1] eqn:E1; destruct (Hm _ _ _ _ _ E1) as (P1 & S1 & U1);
    inversion H; subst.
  - split; [exact P1|]. split.
    + intros Hw Hw'. destruct (S1 Hw Hw') as (q & Hq). discriminate Hq.
    + intros Hw'. unfold with_buf. rewrite (U1 Hw'). reflexivity.
  - split; [exact P1|]. split; [intros _ _; eauto|].
    intros Hw'. unfold with_buf. rewrite (U1 Hw'). reflexivity.
Qed.

(* ---- both ---------------------------------------------------------------------------- *)

Definition good {A} (m : M A) : Prop := frs m /\ unf m.

Lemma good_bind {A B} (m : M A) (f : A -> M B) :
  good m -> (forall a, good (f a)) -> good (bind m f).
Proof.
  intros [F U] H. split; [apply frs_bind|apply unf_bind]; try assumption; intros a; apply H.
Qed.

Lemma good_finally {A} (body : M A) cleanup :
  good body -> good cleanup -> good (finally body cleanup).
Proof. intros [F1 U1] [F2 U2]. split; [apply frs_finally|apply unf_finally]; assumption. Qed.

Lemma good_on_unwind {A} (body : M A) cleanup :
  good body -> good cleanup -> good (on_unwind body cleanup).
Proof. intros [F1 U1] [F2 U2]. split; [apply frs_on_unwind|apply unf_on_unwind]; assumption. Qed.

Lemma good_with_buf {A} (b : cbuf) (m : M A) : good m -> good (with_buf b m).
Proof. intros [F U]. split; [apply frs_with_buf|apply unf_with_buf]; assumption. Qed.

(* ---- leaves ---------------------------------------------------------------------------- *)

(* computations that return the world they got, whatever its plan *)
Definition wleaf {A} (m : M A) : Prop :=
  forall s w, exists r s', forall f, m s (w_fault w f) = (r, s', w_fault w f).

Lemma w_fault_id w : w_fault w (fault w) = w.
Proof. destruct w. reflexivity. Qed.

Lemma wleaf_good {A} (m : M A) : wleaf m -> good m.
Proof.
  intros Hl. split; intros s w r s' w' H; destruct (Hl s w) as (r0 & s0 & H0);
    pose proof (H0 (fault w)) as E; rewrite w_fault_id, H in E; inversion E; subst.
  - apply fr_post_refl.
  - split; [apply plan_step_refl|]. split; [intros A1 A2; contradiction|].
    intros _. exact (H0 None).
Qed.

Ltac leaf :=
  apply wleaf_good; intros s [d n l f0];
  cbv [ret panic get put get_cap get_size get_start set_size set_start set_items get_items
       dassert assert_ uadd usub umul urem read_slot write_slot
       sl_range sl_split_at sl_index
       dbg next_id log fault w_fault w_log w_next];
  repeat match goal with |- context [if ?c then _ else _] => destruct c end;
  do 2 eexists; intros f; reflexivity.

Lemma good_ret {A} (a : A) : good (ret a). Proof. leaf. Qed.
Lemma good_panic {A} p : good (@panic A p). Proof. leaf. Qed.
Lemma good_get : good get. Proof. leaf. Qed.
Lemma good_put b : good (put b). Proof. leaf. Qed.
Lemma good_get_cap : good get_cap. Proof. leaf. Qed.
Lemma good_get_size : good get_size. Proof. leaf. Qed.
Lemma good_get_start : good get_start. Proof. leaf. Qed.
Lemma good_get_items : good get_items. Proof. leaf. Qed.
Lemma good_set_size z : good (set_size z). Proof. leaf. Qed.
Lemma good_set_start z : good (set_start z). Proof. leaf. Qed.
Lemma good_set_items g : good (set_items g). Proof. leaf. Qed.
Lemma good_len : good len. Proof. exact good_get_size. Qed.
Lemma good_capacity : good capacity. Proof. exact good_get_cap. Qed.
Lemma good_dassert c : good (dassert c). Proof. leaf. Qed.
Lemma good_assert c : good (assert_ c). Proof. leaf. Qed.
Lemma good_uadd x y : good (uadd x y). Proof. leaf. Qed.
Lemma good_usub x y : good (usub x y). Proof. leaf. Qed.
Lemma good_umul x y : good (umul x y). Proof. leaf. Qed.
Lemma good_urem x y : good (urem x y). Proof. leaf. Qed.
Lemma good_read_slot p : good (read_slot p). Proof. leaf. Qed.
Lemma good_write_slot p e : good (write_slot p e). Proof. leaf. Qed.
Lemma good_sl_range sl a b : good (sl_range sl a b). Proof. leaf. Qed.
Lemma good_sl_split_at sl x : good (sl_split_at sl x). Proof. leaf. Qed.
Lemma good_sl_index sl i : good (sl_index sl i). Proof. leaf. Qed.

(* an event is logged; the plan is not looked at *)
Lemma unf_emit ev : unf (emit ev).
Proof.
  intros s w r s' w' H. unfold emit in H. inversion H; subst.
  split; [apply plan_step_refl|]. split; [intros A1 A2; contradiction|].
  intros _. destruct w. reflexivity.
Qed.

Lemma good_emit ev : created_of [ev] = [] -> good (emit ev).
Proof.
  intros Hc. split; [|apply unf_emit].
  intros s w r s' w' H. unfold emit in H. inversion H; subst.
  exists [ev]. cbn [w_log log dbg next_id]. rewrite Hc, Z.sub_diag.
  repeat split; first [reflexivity | lia].
Qed.

Lemma unf_fresh_id : unf fresh_id.
Proof.
  intros s w r s' w' H. unfold fresh_id in H. inversion H; subst.
  split; [apply plan_step_refl|]. split; [intros A1 A2; contradiction|].
  intros _. destruct w. reflexivity.
Qed.

Lemma frs_user_call k : frs (user_call k).
Proof.
  intros s w r s' w' H. unfold user_call in H.
  assert (E : log w' = log w /\ dbg w' = dbg w /\ next_id w' = next_id w).
  { destruct (fault w) as [[k' n]|]; [destruct (fkind_eqb k k'); [destruct (n =? 0)|]|];
      inversion H; subst; auto. }
  destruct E as (E1 & E2 & E3). exists []. rewrite E1, E2, E3, app_nil_r, Z.sub_diag.
  repeat split; first [reflexivity | lia].
Qed.

Lemma unf_user_call k : unf (user_call k).
Proof.
  intros s w r s' w' H. unfold user_call in H. unfold un_post, user_call, disarm.
  destruct w as [d n l f]. cbn [fault w_fault dbg next_id log] in *.
  destruct f as [[k' c]|].
  - destruct (fkind_eqb k k').
    + destruct (c =? 0) eqn:E; inversion H; subst; cbn [fault].
      * split; [left; reflexivity|]. split; [eauto|]. intros A1. contradiction.
      * split; [right; exists (c - 1); split; [reflexivity|lia]|].
        split; [intros _ A2; discriminate A2|]. intros _. reflexivity.
    + inversion H; subst; cbn [fault].
      split; [apply plan_step_refl|]. split; [intros _ A2; discriminate A2|]. intros _. reflexivity.
  - inversion H; subst. cbn [fault]. split; [reflexivity|]. split; [intros A1; contradiction|].
    intros A1. contradiction.
Qed.

Lemma good_user_call k : good (user_call k).
Proof. split; [apply frs_user_call|apply unf_user_call]. Qed.

(* the two places where an element is created *)
Lemma one_fresh n : Z.to_nat (n + 1 - n) = 1%nat.
Proof. lia. Qed.

Lemma good_clone_elem e : good (clone_elem e).
Proof.
  split.
  - intros s w r s' w' H. unfold clone_elem, bind, user_call, fresh_id, emit, ret in H.
    destruct w as [d n l f]. cbn [fault w_fault w_next w_log dbg next_id log] in H.
    assert (E : (log w' = l /\ dbg w' = d /\ next_id w' = n) \/
                (log w' = l ++ [EvClone e (mkE n (eval e))] /\ dbg w' = d /\ next_id w' = n + 1)).
    { destruct f as [[k' c]|]; [destruct (fkind_eqb FClone k'); [destruct (c =? 0)|]|];
        inversion H; subst; cbn; auto. }
    destruct E as [(E1 & E2 & E3)|(E1 & E2 & E3)]; unfold fr_post; cbn [log dbg next_id].
    + exists []. rewrite E1, E2, E3, app_nil_r, Z.sub_diag. repeat split; first [reflexivity | lia].
    + eexists. rewrite E1, E2, E3, one_fresh. split; [reflexivity|]. split; [reflexivity|].
      split; [lia|]. rewrite zseq_cons. reflexivity.
  - unfold clone_elem. apply unf_bind; [apply unf_user_call|intros _].
    apply unf_bind; [apply unf_fresh_id|intros i].
    apply unf_bind; [apply unf_emit|intros _]. apply (proj2 (good_ret _)).
Qed.

Lemma good_call_closure : good call_closure.
Proof.
  split.
  - intros s w r s' w' H. unfold call_closure, bind, user_call, fresh_id, emit, ret in H.
    destruct w as [d n l f]. cbn [fault w_fault w_next w_log dbg next_id log] in H.
    assert (E : (log w' = l /\ dbg w' = d /\ next_id w' = n) \/
                (log w' = l ++ [EvCall (mkE n closure_val)] /\ dbg w' = d /\ next_id w' = n + 1)).
    { destruct f as [[k' c]|]; [destruct (fkind_eqb FCall k'); [destruct (c =? 0)|]|];
        inversion H; subst; cbn; auto. }
    destruct E as [(E1 & E2 & E3)|(E1 & E2 & E3)]; unfold fr_post; cbn [log dbg next_id].
    + exists []. rewrite E1, E2, E3, app_nil_r, Z.sub_diag. repeat split; first [reflexivity | lia].
    + eexists. rewrite E1, E2, E3, one_fresh. split; [reflexivity|]. split; [reflexivity|].
      split; [lia|]. rewrite zseq_cons. reflexivity.
  - unfold call_closure. apply unf_bind; [apply unf_user_call|intros _].
    apply unf_bind; [apply unf_fresh_id|intros i].
    apply unf_bind; [apply unf_emit|intros _]. apply (proj2 (good_ret _)).
Qed.

Create HintDb good.
#[local] Hint Resolve good_ret good_panic good_get good_put good_get_cap good_get_size
  good_get_start good_get_items good_set_size good_set_start good_set_items good_len
  good_capacity good_dassert good_assert good_emit good_uadd good_usub
  good_umul good_urem good_read_slot good_write_slot good_sl_range good_sl_split_at
  good_sl_index good_user_call good_clone_elem good_call_closure : good.
#[local] Hint Extern 1 (created_of _ = []) => reflexivity : good.

(* hook: special cases tried before the general combinator lemmas *)
Ltac good_extra := fail.

Ltac good_tac :=
  cbv beta zeta;
  repeat first
    [ assumption
    | solve [auto 2 with good nocore]
    | good_extra
    | match goal with
      | |- good (finally _ _) => apply good_finally
      | |- good (on_unwind _ _) => apply good_on_unwind
      | |- good (with_buf _ _) => apply good_with_buf
      | |- good (bind _ _) => apply good_bind; [|intros ?; cbv beta zeta]
      end
    | match goal with |- good (match ?x with _ => _ end) => destruct x end ].

(* ---- Machine.v ------------------------------------------------------------------------ *)

Lemma good_items_slice : good items_slice. Proof. unfold items_slice. good_tac. Qed.
#[local] Hint Resolve good_items_slice : good.
Lemma good_idx p : good (idx p). Proof. unfold idx. good_tac. Qed.
Lemma good_raw_copy a b n : good (raw_copy a b n). Proof. unfold raw_copy. good_tac. Qed.
#[local] Hint Resolve good_idx good_raw_copy : good.

Lemma good_drop_elem e : good (drop_elem e).
Proof. intros. unfold drop_elem. good_tac. Qed.
#[local] Hint Resolve good_drop_elem : good.
Lemma good_drop_list es : good (drop_list es).
Proof. intros. induction es; cbn [drop_list]; good_tac. Qed.
Lemma good_drop_opt o : good (drop_opt o).
Proof. intros. unfold drop_opt. good_tac. Qed.
#[local] Hint Resolve good_drop_list good_drop_opt : good.
Lemma good_drop_slice sl : good (drop_slice sl).
Proof. intros. unfold drop_slice. good_tac. Qed.
#[local] Hint Resolve good_drop_slice : good.



(* ---- Buf.v ------------------------------------------------------------------------------ *)

Lemma good_add_mod x y m : good (add_mod x y m).
Proof. unfold add_mod. good_tac. Qed.
#[local] Hint Resolve good_add_mod : good.
Lemma good_sub_mod x y m : good (sub_mod x y m).
Proof. unfold sub_mod. good_tac. Qed.
#[local] Hint Resolve good_sub_mod : good.

Lemma good_boxed n junk : good (boxed n junk).
Proof. unfold boxed. good_tac. Qed.
#[local] Hint Resolve good_boxed : good.

Lemma good_is_empty : good is_empty. Proof. unfold is_empty. good_tac. Qed.
Lemma good_is_full : good is_full. Proof. unfold is_full. good_tac. Qed.
Lemma good_make_contiguous : good make_contiguous.
Proof. unfold make_contiguous. good_tac. Qed.
Lemma good_as_slices : good as_slices. Proof. unfold as_slices. good_tac. Qed.
Lemma good_as_mut_slices : good as_mut_slices. Proof. exact (good_as_slices ). Qed.
#[local] Hint Resolve good_is_empty good_is_full good_make_contiguous good_as_slices
  good_as_mut_slices : good.

Lemma good_front_maybe_uninit_mut : good front_maybe_uninit_mut.
Proof. unfold front_maybe_uninit_mut. good_tac. Qed.
Lemma good_front_maybe_uninit : good front_maybe_uninit.
Proof. unfold front_maybe_uninit. good_tac. Qed.
Lemma good_back_maybe_uninit : good back_maybe_uninit.
Proof. unfold back_maybe_uninit. good_tac. Qed.
Lemma good_back_maybe_uninit_mut : good back_maybe_uninit_mut.
Proof. exact (good_back_maybe_uninit ). Qed.
Lemma good_get_maybe_uninit i : good (get_maybe_uninit i).
Proof. unfold get_maybe_uninit. good_tac. Qed.
Lemma good_get_maybe_uninit_mut i : good (get_maybe_uninit_mut i).
Proof. exact (good_get_maybe_uninit i). Qed.
Lemma good_slices_uninit_mut : good slices_uninit_mut.
Proof. unfold slices_uninit_mut. good_tac. Qed.
#[local] Hint Resolve good_front_maybe_uninit_mut good_front_maybe_uninit good_back_maybe_uninit
  good_back_maybe_uninit_mut good_get_maybe_uninit good_get_maybe_uninit_mut
  good_slices_uninit_mut : good.

Lemma good_inc_start : good inc_start. Proof. unfold inc_start. good_tac. Qed.
Lemma good_dec_start : good dec_start. Proof. unfold dec_start. good_tac. Qed.
Lemma good_inc_size : good inc_size. Proof. unfold inc_size. good_tac. Qed.
Lemma good_dec_size : good dec_size. Proof. unfold dec_size. good_tac. Qed.
#[local] Hint Resolve good_inc_start good_dec_start good_inc_size good_dec_size : good.

Lemma good_drop_range a b : good (drop_range a b).
Proof. intros. unfold drop_range. good_tac. Qed.
#[local] Hint Resolve good_drop_range : good.

Lemma good_back : good back. Proof. unfold back. good_tac. Qed.
Lemma good_back_mut : good back_mut. Proof. unfold back_mut. good_tac. Qed.
Lemma good_front : good front. Proof. unfold front. good_tac. Qed.
Lemma good_front_mut : good front_mut. Proof. unfold front_mut. good_tac. Qed.
Lemma good_get_ i : good (get_ i). Proof. unfold get_. good_tac. Qed.
Lemma good_get_mut i : good (get_mut i). Proof. unfold get_mut. good_tac. Qed.
#[local] Hint Resolve good_back good_back_mut good_front good_front_mut good_get_
  good_get_mut : good.
Lemma good_nth_front i : good (nth_front i). Proof. exact (good_get_ i). Qed.
Lemma good_nth_front_mut i : good (nth_front_mut i). Proof. exact (good_get_mut i). Qed.
Lemma good_nth_back i : good (nth_back i). Proof. unfold nth_back. good_tac. Qed.
Lemma good_nth_back_mut i : good (nth_back_mut i).
Proof. unfold nth_back_mut. good_tac. Qed.
#[local] Hint Resolve good_nth_front good_nth_front_mut good_nth_back good_nth_back_mut : good.

Lemma good_push_back e : good (push_back e). Proof. unfold push_back. good_tac. Qed.
Lemma good_try_push_back e : good (try_push_back e).
Proof. unfold try_push_back. good_tac. Qed.
Lemma good_push_front e : good (push_front e). Proof. unfold push_front. good_tac. Qed.
Lemma good_try_push_front e : good (try_push_front e).
Proof. unfold try_push_front. good_tac. Qed.
Lemma good_pop_back : good pop_back. Proof. unfold pop_back. good_tac. Qed.
Lemma good_pop_front : good pop_front. Proof. unfold pop_front. good_tac. Qed.
#[local] Hint Resolve good_push_back good_try_push_back good_push_front good_try_push_front
  good_pop_back good_pop_front : good.

Lemma good_remove i : good (remove i). Proof. unfold remove. good_tac. Qed.
Lemma good_swap i j : good (swap i j). Proof. unfold swap. good_tac. Qed.
#[local] Hint Resolve good_remove good_swap : good.
Lemma good_swap_remove_back i : good (swap_remove_back i).
Proof. unfold swap_remove_back. good_tac. Qed.
Lemma good_swap_remove_front i : good (swap_remove_front i).
Proof. unfold swap_remove_front. good_tac. Qed.
#[local] Hint Resolve good_swap_remove_back good_swap_remove_front : good.

Lemma good_truncate_back n : good (truncate_back n).
Proof. intros. unfold truncate_back. good_tac. Qed.
Lemma good_truncate_front n : good (truncate_front n).
Proof. intros. unfold truncate_front. good_tac. Qed.
#[local] Hint Resolve good_truncate_back good_truncate_front : good.
Lemma good_clear : good clear.
Proof. intros. unfold clear. good_tac. Qed.
#[local] Hint Resolve good_clear : good.
Lemma good_drop_buf : good drop_buf.
Proof. exact (good_clear ). Qed.
#[local] Hint Resolve good_drop_buf : good.

Lemma good_fill_spare_loop v :
  
  forall fuel, good (fill_spare_loop fuel v).
Proof. induction fuel; cbn [fill_spare_loop]; good_tac. Qed.
#[local] Hint Resolve good_fill_spare_loop : good.
Lemma good_fill_spare v :
  good (fill_spare v).
Proof. intros. unfold fill_spare. good_tac. Qed.
#[local] Hint Resolve good_fill_spare : good.
Lemma good_fill v :
  good (fill v).
Proof. intros. unfold fill. good_tac. Qed.

Lemma good_fill_spare_with_loop :
  
  forall fuel, good (fill_spare_with_loop fuel).
Proof. induction fuel; cbn [fill_spare_with_loop]; good_tac. Qed.
#[local] Hint Resolve good_fill_spare_with_loop : good.
Lemma good_fill_spare_with :
  good fill_spare_with.
Proof. intros. unfold fill_spare_with. good_tac. Qed.
#[local] Hint Resolve good_fill_spare_with : good.
Lemma good_fill_with :
  good fill_with.
Proof. intros. unfold fill_with. good_tac. Qed.

Lemma good_wusc_loop dst src :
  
  forall n i, good (wusc_loop dst src n i).
Proof. induction n; intros i; cbn [wusc_loop]; good_tac. Qed.
#[local] Hint Resolve good_wusc_loop : good.
Lemma good_write_uninit_slice_cloned dst src :
  
  good (write_uninit_slice_cloned dst src).
Proof. intros. unfold write_uninit_slice_cloned. good_tac. Qed.
#[local] Hint Resolve good_write_uninit_slice_cloned : good.
Lemma good_extend_from_slice xs :
  good (extend_from_slice xs).
Proof. intros. unfold extend_from_slice. good_tac. Qed.
#[local] Hint Resolve good_fill good_fill_with good_extend_from_slice : good.

(* ---- Iter.v ----------------------------------------------------------------------------- *)

Lemma good_translate_range_bounds sb eb : good (translate_range_bounds sb eb).
Proof. unfold translate_range_bounds. good_tac. Qed.
Lemma good_slice_take sl sb eb : good (slice_take sl sb eb).
Proof. unfold slice_take. good_tac. Qed.
#[local] Hint Resolve good_translate_range_bounds good_slice_take : good.
Lemma good_iter_new : good iter_new. Proof. unfold iter_new. good_tac. Qed.
Lemma good_iter_mut_new : good iter_mut_new. Proof. unfold iter_mut_new. good_tac. Qed.
Lemma good_advance_front_by it n : good (advance_front_by it n).
Proof. unfold advance_front_by. good_tac. Qed.
Lemma good_advance_back_by it n : good (advance_back_by it n).
Proof. unfold advance_back_by. good_tac. Qed.
Lemma good_iter_len it : good (iter_len it). Proof. unfold iter_len. good_tac. Qed.
#[local] Hint Resolve good_iter_new good_iter_mut_new good_advance_front_by
  good_advance_back_by good_iter_len : good.
Lemma good_iter_over_range sb eb : good (iter_over_range sb eb).
Proof. unfold iter_over_range. good_tac. Qed.
Lemma good_iter_mut_over_range sb eb : good (iter_mut_over_range sb eb).
Proof. unfold iter_mut_over_range. good_tac. Qed.
Lemma good_into_iter_next : good into_iter_next. Proof. exact (good_pop_front ). Qed.
Lemma good_into_iter_next_back : good into_iter_next_back.
Proof. exact (good_pop_back ). Qed.
Lemma good_into_iter_len : good into_iter_len. Proof. exact (good_len ). Qed.
Lemma good_into_iter_drop : good into_iter_drop.
Proof. exact (good_drop_buf ). Qed.
#[local] Hint Resolve good_iter_over_range good_iter_mut_over_range good_into_iter_next
  good_into_iter_next_back good_into_iter_len good_into_iter_drop : good.

(* ---- Drain.v ---------------------------------------------------------------------------- *)

Lemma good_drain_over_range sb eb : good (drain_over_range sb eb).
Proof. unfold drain_over_range. good_tac. Qed.
Lemma good_drain_read d i : good (drain_read d i).
Proof. unfold drain_read. good_tac. Qed.
#[local] Hint Resolve good_drain_over_range good_drain_read : good.
Lemma good_drain_as_slices d : good (drain_as_slices d).
Proof. unfold drain_as_slices. good_tac. Qed.
Lemma good_drain_as_mut_slices d : good (drain_as_mut_slices d).
Proof. exact (good_drain_as_slices d). Qed.
Lemma good_drain_next d : good (drain_next d). Proof. unfold drain_next. good_tac. Qed.
Lemma good_drain_next_back d : good (drain_next_back d).
Proof. unfold drain_next_back. good_tac. Qed.
Lemma good_csp_as_ptr c : good (csp_as_ptr c). Proof. unfold csp_as_ptr. good_tac. Qed.
Lemma good_csp_available_len c : good (csp_available_len c).
Proof. unfold csp_available_len. good_tac. Qed.
Lemma good_csp_add c n : good (csp_add c n). Proof. unfold csp_add. good_tac. Qed.
#[local] Hint Resolve good_drain_as_slices good_drain_as_mut_slices good_drain_next
  good_drain_next_back good_csp_as_ptr good_csp_available_len good_csp_add : good.
Lemma good_drain_fill_loop :
  forall fuel hole backfill remaining, good (drain_fill_loop fuel hole backfill remaining).
Proof. induction fuel; intros; cbn [drain_fill_loop]; good_tac. Qed.
#[local] Hint Resolve good_drain_fill_loop : good.
Lemma good_drain_drop d : good (drain_drop d).
Proof. intros. unfold drain_drop. good_tac. Qed.
#[local] Hint Resolve good_drain_drop : good.

(* ---- Traits.v --------------------------------------------------------------------------- *)

(* only Clone matters for to_vec: the destructor calls sit in a cleanup that
   cannot run ([good_on_unwind_clone]) *)
Lemma good_to_vec_loop src :
  
  forall fuel it acc, good (to_vec_loop fuel src it acc).
Proof. induction fuel; intros; cbn [to_vec_loop]; good_tac. Qed.
#[local] Hint Resolve good_to_vec_loop : good.
Lemma good_to_vec : good to_vec.
Proof. intros. unfold to_vec. good_tac. Qed.

Lemma good_from_array_body arr :
  good (from_array_body arr).
Proof. intros. unfold from_array_body. good_tac. Qed.
#[local] Hint Resolve good_to_vec good_from_array_body : good.
Lemma good_from_array n junk arr :
  good (from_array n junk arr).
Proof. intros. unfold from_array. good_tac. Qed.

Lemma good_extend_loop :
  
  forall xs, good (extend_loop xs).
Proof. induction xs; cbn [extend_loop]; good_tac. Qed.
#[local] Hint Resolve good_from_array good_extend_loop : good.
Lemma good_extend xs :
  good (extend xs).
Proof. intros. unfold extend. good_tac. Qed.
Lemma good_from_iter n junk xs :
  good (from_iter n junk xs).
Proof. intros. unfold from_iter. good_tac. Qed.
Lemma good_extend_ref : forall xs, good (extend_ref xs).
Proof. induction xs; cbn [extend_ref]; good_tac. Qed.
Lemma good_index i : good (index i). Proof. unfold index. good_tac. Qed.
Lemma good_index_mut i : good (index_mut i). Proof. unfold index_mut. good_tac. Qed.
#[local] Hint Resolve good_extend good_from_iter good_extend_ref good_index good_index_mut
  : good.

Lemma good_list_eq_loop eqf :
  forall xs ys, good (list_eq_loop eqf xs ys).
Proof.
  induction xs as [|x xs IH]; intros ys; cbn [list_eq_loop]; [good_tac|].
  destruct ys; good_tac.
Qed.
#[local] Hint Resolve good_list_eq_loop : good.
Lemma good_slice_eq eqf xs ys :
  good (slice_eq eqf xs ys).
Proof. intros. unfold slice_eq. good_tac. Qed.
Lemma good_and_then a b : good a -> good b -> good (and_then a b).
Proof. intros. unfold and_then. good_tac. Qed.
Lemma good_sl_to sl x : good (sl_to sl x). Proof. unfold sl_to. good_tac. Qed.
Lemma good_sl_from sl x : good (sl_from sl x). Proof. unfold sl_from. good_tac. Qed.
#[local] Hint Resolve good_slice_eq good_sl_to good_sl_from : good.

Ltac good_extra ::=
  match goal with
  | |- good (and_then _ _) => apply good_and_then
  end.


Lemma good_buf_eq eqf other : good (buf_eq eqf other).
Proof. intros. unfold buf_eq. good_tac. Qed.
Lemma good_buf_eq_slice eqf other :
  good (buf_eq_slice eqf other).
Proof. intros. unfold buf_eq_slice. good_tac. Qed.
#[local] Hint Resolve good_buf_eq good_buf_eq_slice : good.

Lemma good_iter_cmp_loop cmpf a b :
  forall fuel ia ib, good (iter_cmp_loop cmpf fuel a b ia ib).
Proof. induction fuel; intros; cbn [iter_cmp_loop]; good_tac. Qed.
#[local] Hint Resolve good_iter_cmp_loop : good.
Lemma good_buf_partial_cmp cmpf other :
  good (buf_partial_cmp cmpf other).
Proof. intros. unfold buf_partial_cmp. good_tac. Qed.
Lemma good_buf_cmp cmpf other : good (buf_cmp cmpf other).
Proof. exact (good_buf_partial_cmp cmpf other). Qed.
#[local] Hint Resolve good_buf_partial_cmp good_buf_cmp : good.

Lemma good_iter_for_each src body :
  (forall e, good (body e)) -> forall fuel it, good (iter_for_each fuel src it body).
Proof. intros ?. induction fuel; intros; cbn [iter_for_each]; good_tac. Qed.
Lemma good_buf_hash : good buf_hash.
Proof.
  intros. unfold buf_hash. good_tac. apply good_iter_for_each. intros. good_tac.
Qed.
Lemma good_buf_fmt : good buf_fmt.
Proof.
  intros. unfold buf_fmt. good_tac. apply good_iter_for_each. intros. good_tac.
Qed.
#[local] Hint Resolve good_buf_hash good_buf_fmt : good.

(* IntoIterator for &CircularBuffer, Debug for Iter / IterMut / Drain / IntoIter *)
Lemma good_ref_into_iter : good ref_into_iter.
Proof. exact (good_iter_new ). Qed.
Lemma good_iter_fmt it : good (iter_fmt it).
Proof.
  intros. unfold iter_fmt. good_tac. apply good_iter_for_each. intros. good_tac.
Qed.
#[local] Hint Resolve good_ref_into_iter good_iter_fmt : good.
Lemma good_iter_mut_fmt it : good (iter_mut_fmt it).
Proof. intros. unfold iter_mut_fmt. good_tac. Qed.
Lemma good_drain_fmt d : good (drain_fmt d).
Proof. intros. unfold drain_fmt. good_tac. Qed.
Lemma good_into_iter_fmt : good into_iter_fmt.
Proof. exact (good_buf_fmt ). Qed.
#[local] Hint Resolve good_iter_mut_fmt good_drain_fmt good_into_iter_fmt : good.

Lemma good_cloned_for_each src body :
  (forall e, good (body e)) ->
  forall fuel it, good (cloned_for_each fuel src it body).
Proof. intros ?. induction fuel; intros; cbn [cloned_for_each]; good_tac. Qed.
Lemma good_push_back_discard c :
  good (push_back_discard c).
Proof. intros. unfold push_back_discard. good_tac. Qed.
#[local] Hint Resolve good_push_back_discard : good.
Lemma good_clone_buf junk :
  good (clone_buf junk).
Proof.
  intros. unfold clone_buf. good_tac. apply good_cloned_for_each. intros. good_tac.
Qed.
Lemma good_clone_from other :
  good (clone_from other).
Proof.
  intros. unfold clone_from. good_tac. apply good_cloned_for_each. intros. good_tac.
Qed.
#[local] Hint Resolve good_clone_buf good_clone_from : good.

(* ---- Io.v ------------------------------------------------------------------------------- *)

Lemma good_fam_write fam src :
  good (fam_write fam src).
Proof. intros. destruct fam; cbn [fam_write]; unfold io_write, eio_write, aio_write; good_tac. Qed.
Lemma good_fam_flush fam : good (fam_flush fam).
Proof. destruct fam; cbn [fam_flush]; unfold io_flush, eio_flush, aio_flush; good_tac. Qed.
Lemma good_fam_read fam dst : good (fam_read fam dst).
Proof. intros. destruct fam; cbn [fam_read]; unfold io_read, eio_read, aio_read; good_tac. Qed.
Lemma good_fam_fill_buf fam : good (fam_fill_buf fam).
Proof.
  destruct fam; cbn [fam_fill_buf]; unfold io_fill_buf, eio_fill_buf, aio_fill_buf; good_tac.
Qed.
Lemma good_fam_consume fam amt : good (fam_consume fam amt).
Proof.
  intros. destruct fam; cbn [fam_consume]; unfold io_consume, eio_consume, aio_consume; good_tac.
Qed.
#[local] Hint Resolve good_fam_write good_fam_flush good_fam_read good_fam_fill_buf
  good_fam_consume : good.

(* ---- System.v --------------------------------------------------------------------------- *)

Lemma good_deref o : good (deref o). Proof. unfold deref. good_tac. Qed.
Lemma good_deref_set o v : good (deref_set o v). Proof. unfold deref_set. good_tac. Qed.
Lemma good_write_through : forall ps ws, good (write_through ps ws).
Proof.
  induction ps as [|p ps IH]; intros ws; cbn [write_through]; [good_tac|].
  destruct ws; good_tac.
Qed.
Lemma good_run_iter_script : forall script it, good (run_iter_script it script).
Proof.
  induction script as [|st rest IH]; intros it; cbn [run_iter_script]; [good_tac|].
  destruct st; unfold iter_mut_next, iter_mut_next_back; good_tac.
Qed.
Lemma good_run_drain_script : forall script d, good (run_drain_script d script).
Proof.
  induction script as [|st rest IH]; intros d; cbn [run_drain_script]; [good_tac|].
  destruct st; good_tac.
Qed.
Lemma good_run_into_iter_script : forall script, good (run_into_iter_script script).
Proof.
  induction script as [|st rest IH]; cbn [run_into_iter_script]; [good_tac|].
  destruct st; good_tac.
Qed.
Lemma good_replace_buf nb : good (replace_buf nb).
Proof. intros. unfold replace_buf. good_tac. Qed.
Lemma good_eq_form form eqf xs : good (eq_form form eqf xs).
Proof. destruct form; exact (good_buf_eq_slice eqf xs). Qed.
#[local] Hint Resolve good_deref good_deref_set good_write_through good_run_iter_script
  good_run_drain_script good_run_into_iter_script good_replace_buf good_eq_form : good.

(* ---- every operation ------------------------------------------------------------------------ *)

Lemma good_exec o : good (exec o).
Proof. destruct o; cbn [exec]; good_tac. Qed.

(* the events of a call create exactly the identities next_id w .. next_id w' - 1 *)
Theorem exec_fresh o s w r s' w' : exec o s w = (r, s', w') -> fr_post w w'.
Proof. exact (proj1 (good_exec o) s w r s' w'). Qed.

Theorem exec_plan o s w r s' w' : exec o s w = (r, s', w') -> plan_step (fault w) (fault w').
Proof. intros H. exact (proj1 (proj2 (good_exec o) s w r s' w' H)). Qed.

(* a call that spends the plan unwinds *)
Theorem exec_spent_panics o s w r s' w' :
  exec o s w = (r, s', w') -> fault w <> None -> fault w' = None -> exists p, r = Panic p.
Proof. intros H. exact (proj1 (proj2 (proj2 (good_exec o) s w r s' w' H))). Qed.

(* a call that does not spend the plan is the fault-free call *)
Theorem exec_unfired o s w r s' w' :
  exec o s w = (r, s', w') -> fault w' <> None ->
  exec o s (disarm w) = (r, s', disarm w').
Proof. intros H. exact (proj2 (proj2 (proj2 (good_exec o) s w r s' w' H))). Qed.
