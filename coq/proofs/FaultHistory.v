(* FaultHistory.v — properties C05 / C06 along whole HISTORIES of operations
   run in a world whose one-shot fault plan may be armed with any kind of
   user-code panic (destructor, Clone, closure, iterator, eq, cmp, hash, fmt).

   1. [fault_collect]: the per-operation fault theorems, collected;
   2. [step_safe]: one uniform statement about one call in ANY world;
   3. [fault_run], [fault_history]: the ledger along histories in which calls
      may end in a caught panic; at most one call unwinds with the injected
      panic; [fault_history_no_leak] (C06);
   4. an example. *)

From CB Require Import Spec.
From CBP Require Import MonadLemmas Arith AbsLemmas ListLemmas AbsOps Core Step RefDefs
     DrainP Iters FaultDefs FaultPrims FaultDropA FaultDropB FaultUser FaultClone MoreOps
     AllOps LedgerSpec FaultFrame FaultGeneric.
From Coq Require Import Permutation ZifyBool.
Ltac Zify.zify_post_hook ::= Z.div_mod_to_equations.

(* ======================================================================== *)
(* 1. the per-operation theorems, collected                                   *)

(* the specification does not demand a (documented) panic of this call *)
Definition nopanic_spec (o : op) (s : cbuf) : Prop :=
  spec_step (cap s) (abs s) o 0 <> SPanic.

(* whether the specification demands a panic does not depend on the next
   fresh identity *)
Lemma spec_panic_nid N l o nid nid' :
  spec_step N l o nid = SPanic -> spec_step N l o nid' = SPanic.
Proof. intros H. apply spec_panics_iff. apply spec_panics_iff in H. exact H. Qed.

(* The pairs (operation, kind) with [may_call o fk = true] for which there is
   a per-operation theorem [fault_safe o fk]. The six pairs marked [false]
   have none yet: the Debug impls of the iterators (added to the model later)
   under a panicking fmt, and the two of them that own elements (Drain,
   IntoIter) under a panicking destructor. *)
Definition covered (o : op) (fk : fkind) : bool :=
  match fk, o with
  | FDrop, (ODrainDebug _ _ _ | OIntoIterDebug _) => false
  | FFmt, (OIterDebug _ _ _ | OIterMutDebug _ _ _ | ODrainDebug _ _ _ | OIntoIterDebug _) => false
  | _, _ => true
  end.

Lemma fsw_of (P : cbuf -> Prop) o fk : fault_safe o fk -> fault_safe_when P o fk.
Proof. intros H s w k _. apply H. Qed.

Theorem fault_collect o fk :
  ledger_op o = true -> may_call o fk = true -> covered o fk = true ->
  fault_safe_when (nopanic_spec o) o fk.
Proof.
  intros Hl Hm Hc.
  destruct fk; destruct o; cbn in Hl, Hm, Hc; try discriminate;
    try (apply fsw_of;
         first
           [ apply truncate_back_fault | apply truncate_front_fault | exact clear_fault
           | exact new_fault | apply into_iter_fault | exact fill_with_fault
           | apply fill_spare_fault | apply fill_fault | apply extend_fault
           | apply from_iter_fault | apply from_array_fault | exact clone_keep_fault
           | exact clone_drop_fault | apply clone_from_fault | apply extend_from_slice_fault
           | exact default_fault | exact boxed_fault
           | apply fill_spare_clone_fault | apply fill_clone_fault | exact to_vec_clone_fault
           | exact clone_keep_clone_fault | exact clone_drop_clone_fault
           | apply clone_from_clone_fault | apply extend_from_slice_clone_fault
           | exact fill_spare_with_call_fault | exact fill_with_call_fault
           | apply extend_next_fault | apply from_iter_next_fault
           | apply eq_fault | apply eq_slice_fault | apply partial_cmp_fault | apply cmp_fault
           | exact hash_fault | exact debug_fault ]; fail).
  (* the Drain that is dropped: valid ranges only *)
  destruct forget; [discriminate Hm|].
  intros s w k Hnp HW. apply drain_fault; [|exact HW].
  intros Hb. apply Hnp. apply spec_panics_iff.
  destruct HW as (_ & Hs & _). rewrite abs_zlen by lia. exact Hb.
Qed.

(* for these pairs the two vocabularies agree: what FaultDefs.v calls [given]
   and [returned] is what LedgerSpec.v calls [args] and [handed] *)
Lemma given_args o fk : may_call o fk = true -> covered o fk = true -> given o = args o.
Proof. destruct fk; destruct o; cbn; intros H1 H2; try discriminate; reflexivity. Qed.

(* ======================================================================== *)
(* 2. one call in any world                                                   *)

(* ---- the by-value arguments the call did not consume ----------------------- *)

Definition step_kept (st : sstep) (r : sres) : list elem :=
  match st, r with
  | (SNextSet v | SNextBackSet v), RItem (Some _) => []
  | (SNextSet v | SNextBackSet v), _ => [v]
  | _, _ => []
  end.

Fixpoint script_kept (sc : list sstep) (rs : list sres) : list elem :=
  match sc with
  | [] => []
  | st :: sc' =>
    match rs with
    | [] => script_args sc
    | r :: rs' => step_kept st r ++ script_kept sc' rs'
    end
  end.

(* [args o] is [taken o l r] plus [kept o l r] *)
Definition kept (o : op) (l : list elem) (r : out) : list elem :=
  match o with
  | OGetMutSet _ v | ONthFrontMutSet _ v | ONthBackMutSet _ v
  | OFrontMutSet v | OBackMutSet v | OIndexMutSet _ v =>
    match r with OutRef (Some _) => [] | _ => [v] end
  | OMakeContiguous ws | OAsMutSlicesSet ws =>
    skipn (Nat.min (length l) (length ws)) ws
  | OIter sc | OIterMut sc | ORange _ _ sc | ORangeMut _ _ sc
  | OIterDefault sc | OIterMutDefault sc | ORefIntoIter sc
  | OIterDebug _ _ sc | OIterMutDebug _ _ sc =>
    match r with OutScript rs => script_kept sc rs | _ => script_args sc end
  | _ => []
  end.

Lemma script_kept_args sc : forall rs,
  Permutation (script_args sc) (script_taken sc rs ++ script_kept sc rs).
Proof.
  unfold script_taken.
  induction sc as [|st sc IH]; intros rs; [destruct rs; reflexivity|].
  destruct rs as [|r rs].
  - destruct st; reflexivity.
  - specialize (IH rs).
    destruct st; cbn [script_args zipflat step_taken script_kept step_kept app]; try exact IH.
    all: destruct r as [[x|]| |]; cbn [app]; perm.
Qed.

Lemma kept_args o l r : Permutation (args o) (taken o l r ++ kept o l r).
Proof.
  destruct o; cbn [args taken kept];
    try reflexivity;
    try (rewrite app_nil_r; reflexivity);
    try (destruct r as [| | | |[x|]| | | | |]; reflexivity);
    try (rewrite firstn_skipn; reflexivity);
    try (destruct r; first [ apply script_kept_args | reflexivity ]).
Qed.

(* what the caller holds because of this call, when it is over *)
Definition out_of (o : op) (l : list elem) (r : outcome out) : list elem :=
  match r with
  | Ok v => handed o v ++ forgotten o l ++ kept o l v
  | Panic _ => []
  end.

(* ---- documented panics in any world -------------------------------------------- *)

(* a call the specification says must panic does so before it reaches any
   user code: also under an armed plan, whatever its kind *)
Lemma spec_panic_exec o s w :
  WF s -> op_ok s o -> spec_step (cap s) (abs s) o (next_id w) = SPanic ->
  exists k, exec o s w = (Panic k, s, w) /\ documented_kind k.
Proof.
  intros HW Hok Hs.
  assert (Hframe : (forall fk, may_call o fk = false) ->
                   exists k, exec o s w = (Panic k, s, w) /\ documented_kind k).
  { intros Hmc. destruct (fault w) as [[fk k]|] eqn:Hf.
    - pose proof (fault_frame_refines o fk s w k (Hmc fk) HW Hok Hf) as H.
      unfold refines_at_armed in H. rewrite Hs in H. exact H.
    - pose proof (exec_refines o s w HW Hf Hok) as H.
      unfold refines_at in H. rewrite Hs in H. exact H. }
  assert (Hsz : zlen (abs s) = size s /\ 0 <= size s).
  { destruct HW as (_ & Hz & _). rewrite abs_zlen by lia. lia. }
  destruct Hsz as [Hsz Hz].
  pose proof Hs as Hcond. apply spec_panics_iff in Hcond.
  destruct o; cbn in Hcond; try contradiction;
    try (apply Hframe; intros fk; destruct fk; reflexivity);
    rewrite Hsz in Hcond; cbn [op_ok] in Hok.
  - (* drain *)
    destruct Hok as [Hsb Heb].
    pose proof (translate_bounds_ok s w sb eb Hsb Heb Hz) as Ht. rewrite Hcond in Ht.
    destruct Ht as (k & Ht & Hk). exists k. split; [|exact Hk].
    cbn [exec]. erewrite bind_panic by (apply drain_over_range_panic; exact Ht). reflexivity.
  - (* Debug of a range *)
    destruct Hok as [[Hsb Heb] _].
    pose proof (translate_bounds_ok s w sb eb Hsb Heb Hz) as Ht. rewrite Hcond in Ht.
    destruct Ht as (k & Ht & Hk). exists k. split; [|exact Hk].
    cbn [exec]. erewrite bind_panic by (apply iter_over_range_panic; exact Ht). reflexivity.
  - destruct Hok as [[Hsb Heb] _].
    pose proof (translate_bounds_ok s w sb eb Hsb Heb Hz) as Ht. rewrite Hcond in Ht.
    destruct Ht as (k & Ht & Hk). exists k. split; [|exact Hk].
    cbn [exec]. unfold iter_mut_over_range.
    erewrite bind_panic by (apply iter_over_range_panic; exact Ht). reflexivity.
  - destruct Hok as [Hsb Heb].
    pose proof (translate_bounds_ok s w sb eb Hsb Heb Hz) as Ht. rewrite Hcond in Ht.
    destruct Ht as (k & Ht & Hk). exists k. split; [|exact Hk].
    cbn [exec]. erewrite bind_panic by (apply drain_over_range_panic; exact Ht). reflexivity.
Qed.

(* ---- user code that only looks ----------------------------------------------------- *)

(* eq, cmp, hash and fmt get shared references: the calls that reach them
   change nothing, whether or not they unwind *)
Definition looks_only (fk : fkind) : bool :=
  match fk with FEq | FCmp | FHash | FFmt => true | _ => false end.

Lemma exec_quiet o fk s :
  looks_only fk = true -> may_call o fk = true -> covered o fk = true ->
  WF s -> op_ok s o -> FaultUser.quiet fk (exec o) s.
Proof.
  intros Hl Hm Hc HW Ho.
  destruct fk; try discriminate Hl; destruct o; try discriminate Hm; try discriminate Hc;
    cbn [op_ok] in Ho; cbn [exec].
  - apply quiet_map. apply buf_eq_quiet; assumption.
  - assert (Hform : eq_form form = buf_eq_slice) by (destruct form; reflexivity).
    rewrite Hform. apply quiet_map. apply buf_eq_slice_quiet. exact HW.
  - apply quiet_map. apply buf_partial_cmp_quiet; assumption.
  - destruct Ho as [Ho _]. apply quiet_map. unfold buf_cmp.
    apply buf_partial_cmp_quiet; assumption.
  - change (FaultUser.quiet FHash (x <- buf_hash;; ret ((fun _ : unit => OutUnit) x)) s).
    apply quiet_map. unfold buf_hash.
    apply quiet_bind_det with (a := s); [reflexivity|].
    apply quiet_bind; [apply quiet_emit; split; reflexivity|]. intros _.
    destruct (iter_new_det s HW) as (it & Hi & Hlen).
    apply quiet_bind_det with (a := it); [exact Hi|].
    apply iter_for_each_quiet; [|lia].
    intros e. apply quiet_emit_call. split; reflexivity.
  - change (FaultUser.quiet FFmt (x <- buf_fmt;; ret ((fun _ : unit => OutUnit) x)) s).
    apply quiet_map. unfold buf_fmt.
    apply quiet_bind_det with (a := s); [reflexivity|].
    destruct (iter_new_det s HW) as (it & Hi & Hlen).
    apply quiet_bind_det with (a := it); [exact Hi|].
    apply iter_for_each_quiet; [|lia].
    intros e. apply quiet_emit_call. split; reflexivity.
Qed.

Lemma looks_only_args o fk :
  looks_only fk = true -> may_call o fk = true -> covered o fk = true -> args o = [].
Proof.
  intros Hl Hm Hc.
  destruct fk; try discriminate Hl; destruct o; try discriminate Hm; try discriminate Hc;
    reflexivity.
Qed.

(* ---- a call that behaves as in the fault-free world --------------------------------- *)

Lemma step_clean o s w r s' w' sr :
  ledger_op o = true -> op_ok s o -> WF s -> fault w = None ->
  spec_step (cap s) (abs s) o (next_id w) = SRet sr ->
  exec o s w = (r, s', w') ->
  exists v evs,
    r = Ok v /\ log w' = log w ++ evs /\
    Permutation (abs s ++ taken o (abs s) v ++ created_of evs)
                (abs s' ++ handed o v ++ forgotten o (abs s) ++ dropped_of evs) /\
    WF s' /\ cap s' = cap s.
Proof.
  intros Hop Hok HW Hf Hs He.
  pose proof (exec_refines o s w HW Hf Hok) as Href.
  pose proof Href as Href'. unfold refines_at in Href'. rewrite Hs in Href'.
  destruct Href' as (v & s1 & He1 & _). rewrite He in He1. injection He1 as -> -> ->.
  destruct (model_conservation _ _ _ _ _ _ Href HW Hop He)
    as (evs & Hlog & P & _ & _ & _ & HW' & Hc & _).
  rewrite taken_erase, handed_erase in P. exists v, evs. auto.
Qed.

Definition plan_nonneg (f : option (fkind * Z)) : Prop :=
  match f with Some (_, k) => 0 <= k | None => True end.

(* if the plan can fire in this call, there is a per-operation theorem for it *)
Definition covered_in (o : op) (w : world) : Prop :=
  forall fk k, fault w = Some (fk, k) -> may_call o fk = true -> covered o fk = true.

Lemma ids_app' a b : ids (a ++ b) = ids a ++ ids b.
Proof. apply map_app. Qed.

Lemma in_ids' x l : In x (ids l) <-> exists e, In e l /\ eid e = x.
Proof. unfold ids. rewrite in_map_iff. split; intros (e & A & B); exists e; auto. Qed.

Lemma NoDup_ids_perm a b : Permutation a b -> NoDup (ids a) -> NoDup (ids b).
Proof. intros P. apply Permutation_NoDup. apply Permutation_map. exact P. Qed.

(* old elements and new elements together are pairwise distinct *)
Lemma NoDup_old_new (old cre : list elem) nid nid' :
  NoDup (ids old) -> (forall e, In e old -> eid e < nid) ->
  NoDup (ids cre) -> (forall e, In e cre -> nid <= eid e < nid') ->
  NoDup (ids (old ++ cre)).
Proof.
  intros H1 H2 H3 H4. rewrite ids_app'. apply LedgerSpec.NoDup_app_intro; [exact H1|exact H3|].
  intros x Hx Hx'. apply in_ids' in Hx as (e & He & <-). apply in_ids' in Hx' as (c & Hc & Hce).
  specialize (H2 e He). specialize (H4 c Hc). lia.
Qed.

(* THE step lemma: one call of a ledger operation, in any world. *)
Theorem step_safe o s w r s' w' :
  ledger_op o = true -> op_ok s o -> WF s ->
  plan_nonneg (fault w) -> covered_in o w ->
  NoDup (ids (abs s ++ args o)) ->
  (forall e, In e (abs s ++ args o) -> eid e < next_id w) ->
  exec o s w = (r, s', w') ->
  exists evs,
    log w' = log w ++ evs /\ dbg w' = dbg w /\ next_id w <= next_id w' /\
    (* (a) the outcome *)
    ((exists v, r = Ok v) \/
     (r = Panic PUser /\ fault w <> None /\ fault w' = None) \/
     (exists p, r = Panic p /\ documented_kind p /\ s' = s /\ w' = w)) /\
    (* (b) the buffer *)
    WF s' /\ cap s' = cap s /\
    (* (c) nothing twice, nothing from nowhere *)
    NoDup (ids (abs s' ++ out_of o (abs s) r ++ dropped_of evs)) /\
    incl (abs s' ++ out_of o (abs s) r ++ dropped_of evs) (abs s ++ args o ++ created_of evs) /\
    (* (d) created elements are new *)
    NoDup (ids (created_of evs)) /\
    (forall e, In e (created_of evs) -> next_id w <= eid e < next_id w') /\
    (* (e) the plan *)
    plan_step (fault w) (fault w') /\
    (* (f) no leak of arguments and created elements, unless a destructor panicked *)
    (forall fk k, fault w = Some (fk, k) -> fk <> FDrop -> r = Panic PUser ->
       incl (args o ++ created_of evs) (abs s' ++ dropped_of evs)) /\
    (* (g) a call that returns conserves everything, whatever the plan *)
    (forall v, r = Ok v ->
       Permutation (abs s' ++ out_of o (abs s) r ++ dropped_of evs)
                   (abs s ++ args o ++ created_of evs)) /\
    (* (h) a panic in eq / cmp / hash / fmt leaves everything as it was *)
    (forall fk k, fault w = Some (fk, k) -> looks_only fk = true -> r = Panic PUser ->
       s' = s /\ args o = [] /\ created_of evs = [] /\ dropped_of evs = []).
Proof.
  intros Hop Hok HW Hk0 Hcov Hnd Hid He.
  destruct (exec_fresh _ _ _ _ _ _ He) as (evs & Hlog & Hdbg & Hnid & Hcre).
  pose proof (exec_plan _ _ _ _ _ _ He) as Hplan.
  exists evs. split; [exact Hlog|]. split; [exact Hdbg|]. split; [exact Hnid|].
  assert (Hcnd : NoDup (ids (created_of evs))) by (rewrite Hcre; apply LedgerSpec.NoDup_zseq).
  assert (Hcid : forall e, In e (created_of evs) -> next_id w <= eid e < next_id w').
  { intros e Hi. assert (Hi' : In (eid e) (ids (created_of evs))) by (apply in_map; exact Hi).
    rewrite Hcre in Hi'. apply LedgerSpec.in_zseq in Hi'. lia. }
  assert (Hall : NoDup (ids (abs s ++ args o ++ created_of evs))).
  { rewrite app_assoc. eapply NoDup_old_new; eassumption. }
  (* everything except (d), (e) *)
  cut (((exists v, r = Ok v) \/
        (r = Panic PUser /\ fault w <> None /\ fault w' = None) \/
        (exists p, r = Panic p /\ documented_kind p /\ s' = s /\ w' = w)) /\
       WF s' /\ cap s' = cap s /\
       NoDup (ids (abs s' ++ out_of o (abs s) r ++ dropped_of evs)) /\
       incl (abs s' ++ out_of o (abs s) r ++ dropped_of evs) (abs s ++ args o ++ created_of evs) /\
       (forall fk k, fault w = Some (fk, k) -> fk <> FDrop -> r = Panic PUser ->
          incl (args o ++ created_of evs) (abs s' ++ dropped_of evs)) /\
       (forall v, r = Ok v ->
          Permutation (abs s' ++ out_of o (abs s) r ++ dropped_of evs)
                      (abs s ++ args o ++ created_of evs)) /\
       (forall fk k, fault w = Some (fk, k) -> looks_only fk = true -> r = Panic PUser ->
          s' = s /\ args o = [] /\ created_of evs = [] /\ dropped_of evs = [])).
  { intros (A & B1 & B2 & C1 & C2 & F & G & H). tauto. }
  destruct (spec_step (cap s) (abs s) o (next_id w)) as [sr|] eqn:Hs.
  2:{ (* the documented panic *)
    destruct (spec_panic_exec o s w HW Hok Hs) as (p & He' & Hp).
    rewrite He in He'. injection He' as -> -> ->.
    assert (evs = []).
    { rewrite <- (app_nil_r (log w)) in Hlog at 1. apply app_inv_head in Hlog. auto. }
    subst evs. cbn [out_of dropped_of created_of flat_map app]. rewrite !app_nil_r.
    split; [right; right; exists p; auto|]. split; [exact HW|]. split; [reflexivity|].
    split; [rewrite ids_app' in Hnd; exact (LedgerSpec.NoDup_app_l _ _ Hnd)|].
    split; [apply incl_appl, incl_refl|].
    split; [intros fk k _ _ E; destruct Hp as [->| ->]; discriminate E|].
    split; [intros v E; discriminate E|].
    intros fk k _ _ E; destruct Hp as [->| ->]; discriminate E. }
  (* the call is the fault-free call, or it spent the plan *)
  assert (Hcase : (exists w0 w0', fault w0 = None /\ next_id w0 = next_id w /\
                     log w0 = log w /\ log w0' = log w' /\ exec o s w0 = (r, s', w0')) \/
                  (exists fk k, fault w = Some (fk, k) /\ fault w' = None)).
  { destruct (fault w) as [[fk k]|] eqn:Hf.
    - destruct (fault w') as [x|] eqn:Hf'.
      + left. exists (disarm w), (disarm w'). repeat split.
        apply (exec_unfired _ _ _ _ _ _ He). congruence.
      + right. eauto.
    - left. exists w, w'. auto. }
  destruct Hcase as [(w0 & w0' & Hf0 & Hn0 & Hl0 & Hl0' & He0)|(fk & k & Hf & Hf')].
  - rewrite <- Hn0 in Hs.
    destruct (step_clean o s w0 r s' w0' sr Hop Hok HW Hf0 Hs He0)
      as (v & evs' & -> & Hlog' & P & HW' & Hc').
    assert (evs' = evs).
    { rewrite Hl0', Hl0, Hlog in Hlog'. apply app_inv_head in Hlog'. auto. }
    subst evs'. pose proof (kept_args o (abs s) v) as PK.
    assert (G : Permutation (abs s' ++ out_of o (abs s) (Ok v) ++ dropped_of evs)
                            (abs s ++ args o ++ created_of evs)).
    { cbn [out_of]. clear - P PK. perm. }
    split; [left; eauto|]. split; [exact HW'|]. split; [exact Hc'|].
    split; [exact (NoDup_ids_perm _ _ (Permutation_sym G) Hall)|].
    split; [intros e Hi; exact (Permutation_in _ G Hi)|].
    split; [intros ? ? _ _ E; discriminate E|].
    split; [intros ? _; exact G|].
    intros ? ? _ _ E; discriminate E.
  - (* the plan was spent in this call: the per-operation theorem *)
    destruct (exec_spent_panics _ _ _ _ _ _ He ltac:(congruence) Hf') as (p & ->).
    assert (Hmc : may_call o fk = true).
    { destruct (may_call o fk) eqn:E; [reflexivity|exfalso].
      rewrite (fault_frame o fk s w k E Hf) in He.
      destruct (exec o s (w_fault w None)) as [[r1 s1] w1]. injection He as _ _ <-.
      discriminate Hf'. }
    pose proof (Hcov fk k Hf Hmc) as Hc.
    assert (Hnp : nopanic_spec o s).
    { intros E. apply (spec_panic_nid _ _ _ _ (next_id w)) in E. congruence. }
    rewrite <- (given_args o fk Hmc Hc) in *.
    rewrite Hf in Hk0. cbn in Hk0.
    destruct (fault_collect o fk Hop Hmc Hc s w k Hnp HW Hok Hf Hk0 Hnd Hid)
      as (r1 & s1 & w1 & evs1 & He1 & Hlog1 & _ & _ & Hr1 & _ & HW1 & Hc1 & Hnd1 & Hin1 & _ & Hleak).
    rewrite He in He1. injection He1 as <- <- <-.
    assert (evs1 = evs) by (rewrite Hlog in Hlog1; apply app_inv_head in Hlog1; auto).
    subst evs1. destruct Hr1 as [-> _]. rewrite returned_panic in *. cbn [out_of].
    split; [right; left; split; [reflexivity|split; [congruence|exact Hf']]|].
    split; [exact HW1|]. split; [exact Hc1|]. split; [exact Hnd1|]. split; [exact Hin1|].
    split; [|split].
    + intros fk' k' E Hne _. rewrite Hf in E. injection E as <- <-. exact (Hleak Hne).
    + intros v E. discriminate E.
    + intros fk' k' E Hlk _. rewrite Hf in E. injection E as <- <-.
      assert (Harm : armed fk w) by (right; exists k; split; assumption).
      destruct (exec_quiet o fk s Hlk Hmc Hc HW Hok w Harm)
        as (r2 & w2 & evs2 & He2 & (Hlog2 & _) & _ & (Sd & Sc) & _).
      rewrite He in He2. injection He2 as _ -> <-.
      assert (evs2 = evs) by (rewrite Hlog in Hlog2; apply app_inv_head in Hlog2; auto).
      subst evs2. rewrite (given_args o fk Hmc Hc).
      split; [reflexivity|]. split; [exact (looks_only_args o fk Hlk Hmc Hc)|]. auto.
Qed.

(* ======================================================================== *)
(* 3. histories                                                               *)

(* The ledger of LedgerSpec.v with one more column: the contents of the buffer
   at the moment the injected panic struck (empty before). These are the only
   elements the per-operation theorems do not account for when the panic is
   not a destructor's (see [fault_history_no_leak]). *)
Record fledger := mkFL {
  fl_caller : list elem;      (* held by the caller: handed back, forgotten, not consumed *)
  fl_destroyed : list elem;   (* destructor ran *)
  fl_entered : list elem;     (* initial contents, all by-value arguments, everything created *)
  fl_at_risk : list elem      (* contents before the call that unwound with the injected panic *)
}.

Definition is_documented (p : pkind) : bool :=
  match p with PAssert | PExpect => true | _ => false end.

(* A documented panic (assert!/expect of the crate, state and world
   untouched) leaves the ledger alone: the call consumed nothing. Any other
   outcome books the by-value arguments and the created elements as entered,
   what the caller holds afterwards to the caller, what was destroyed to
   destroyed. *)
Definition fledger_step (o : op) (l : list elem) (r : outcome out) (evs : list event)
    (L : fledger) : fledger :=
  match r with
  | Panic p =>
    if is_documented p then L
    else mkFL (fl_caller L) (fl_destroyed L ++ dropped_of evs)
              (fl_entered L ++ args o ++ created_of evs) l
  | Ok _ =>
    mkFL (fl_caller L ++ out_of o l r) (fl_destroyed L ++ dropped_of evs)
         (fl_entered L ++ args o ++ created_of evs) (fl_at_risk L)
  end.

(* a history from (s0, w0), the plan of w0 armed or not; every call returns
   or unwinds (the caller catches the panic and goes on); [rs] are the
   outcomes, in order *)
Inductive fault_run (s0 : cbuf) (w0 : world)
  : list op -> list (outcome out) -> cbuf -> world -> fledger -> Prop :=
| fr_nil : fault_run s0 w0 [] [] s0 w0 (mkFL [] [] (abs s0) [])
| fr_snoc ops rs s w L o r s' w' evs :
    fault_run s0 w0 ops rs s w L ->
    ledger_op o = true -> op_ok s o -> covered_in o w ->
    fresh_args (next_id w0) (fl_entered L) (args o) ->
    exec o s w = (r, s', w') ->
    log w' = log w ++ evs ->                    (* the events of this call *)
    fault_run s0 w0 (ops ++ [o]) (rs ++ [r]) s' w' (fledger_step o (abs s) r evs L).

(* [fault_run] follows [run_history] of System.v *)
Lemma fault_run_history s0 w0 ops rs s w L :
  fault_run s0 w0 ops rs s w L -> run_history ops s0 w0 = (rs, s, w).
Proof.
  induction 1 as [|ops rs s w L o r s' w' evs Hr IH Hop Hok Hcv Hf He Hl]; [reflexivity|].
  rewrite run_history_app, IH. cbn [run_history]. rewrite He. reflexivity.
Qed.

(* the calls that unwound with the injected panic *)
Definition user_panics (rs : list (outcome out)) : nat :=
  length (filter (@is_user_panic out) rs).

Lemma user_panics_snoc rs r :
  user_panics (rs ++ [r]) = (user_panics rs + (if is_user_panic r then 1 else 0))%nat.
Proof.
  unfold user_panics. rewrite filter_app, app_length. cbn [filter].
  destruct (is_user_panic r); reflexivity.
Qed.

(* from "no duplicates, all from there" to "these, and some more, are those" *)
Lemma incl_perm_rest (l1 : list elem) : forall l2,
  NoDup l1 -> incl l1 l2 -> exists X, Permutation (l1 ++ X) l2.
Proof.
  induction l1 as [|a l1 IH]; intros l2 Hnd Hin.
  - exists l2. reflexivity.
  - inversion Hnd as [|? ? Ha Hnd']; subst.
    destruct (in_split a l2 (Hin a (or_introl eq_refl))) as (p & q & ->).
    destruct (IH (p ++ q) Hnd') as (X & PX).
    { intros x Hx. assert (Hx' : In x (p ++ a :: q)) by (apply Hin; right; exact Hx).
      apply in_app_or in Hx' as [Hx'|[->|Hx']]; [apply in_or_app; auto|contradiction|apply in_or_app; auto]. }
    exists X. cbn [app]. rewrite PX. apply Permutation_middle.
Qed.

Lemma NoDup_app_r' {A} (a b : list A) : NoDup (a ++ b) -> NoDup b.
Proof.
  induction a as [|x a IH]; intros H; [exact H|].
  cbn [app] in H. inversion H; subst. auto.
Qed.

Lemma NoDup_ids_NoDup (l : list elem) : NoDup (ids l) -> NoDup l.
Proof. apply NoDup_map_inv. Qed.

Lemma NoDup_ids_disjoint (a b : list elem) e :
  NoDup (ids (a ++ b)) -> In e a -> In e b -> False.
Proof.
  intros H Ha Hb. apply in_split in Ha as (p & q & ->).
  rewrite <- app_assoc in H. cbn [app] in H. rewrite ids_app' in H. cbn [ids map] in H.
  apply NoDup_remove_2 in H. apply H. apply in_or_app. right.
  fold (ids (q ++ b)). apply in_ids'. exists e. split; [|reflexivity]. apply in_or_app. auto.
Qed.

Section FaultHistory.

Variables (s0 : cbuf) (w0 : world).
Hypothesis WF0 : WF s0.
Hypothesis plan0 : plan_nonneg (fault w0).
(* the initial contents are distinct elements made before the history starts *)
Hypothesis distinct0 : NoDup (ids (abs s0)).
Hypothesis old0 : forall e, In e (abs s0) -> eid e < next_id w0.

(* the outcomes a caller can see: a result, the injected panic, or an
   assert!/expect of the crate. Never an abort (panic while unwinding), never a
   bounds / overflow / memory fault, never out of fuel. *)
Definition outcome_ok (r : outcome out) : Prop :=
  match r with Ok _ => True | Panic p => p = PUser \/ documented_kind p end.

Definition fault_inv (rs : list (outcome out)) (s : cbuf) (w : world) (L : fledger) : Prop :=
  Forall outcome_ok rs /\
  WF s /\ cap s = cap s0 /\ next_id w0 <= next_id w /\
  plan_step (fault w0) (fault w) /\
  NoDup (ids (fl_entered L)) /\
  (forall e, In e (fl_entered L) -> eid e < next_id w) /\
  (* at most one injected panic; it spends the plan; without a plan, none *)
  (user_panics rs <= 1)%nat /\
  (user_panics rs = 1%nat -> fault w = None) /\
  (fault w0 = None -> user_panics rs = 0%nat) /\
  (user_panics rs = 0%nat -> fl_at_risk L = []) /\
  (* everything that entered is in exactly one place, or lost *)
  exists lost,
    Permutation (abs s ++ fl_caller L ++ fl_destroyed L ++ lost) (fl_entered L) /\
    (user_panics rs = 0%nat -> lost = []) /\
    (forall fk k, fault w0 = Some (fk, k) -> fk <> FDrop -> incl lost (fl_at_risk L)) /\
    (forall fk k, fault w0 = Some (fk, k) -> looks_only fk = true -> lost = []).

Lemma plan_nonneg_step f f' : plan_step f f' -> plan_nonneg f -> plan_nonneg f'.
Proof.
  destruct f as [[fk k]|]; cbn.
  - intros [->|(k' & -> & _ & H)] Hk; cbn; auto.
  - intros -> _. exact I.
Qed.

Lemma fault_inv_run ops rs s w L : fault_run s0 w0 ops rs s w L -> fault_inv rs s w L.
Proof.
  induction 1 as [|ops rs s w L o r s' w' evs Hr IH Hop Hok Hcv Hfr He Hlog].
  - unfold fault_inv. cbn [fl_caller fl_destroyed fl_entered fl_at_risk user_panics filter length].
    split; [constructor|].
    split; [exact WF0|]. split; [reflexivity|]. split; [lia|]. split; [apply plan_step_refl|].
    split; [exact distinct0|]. split; [exact old0|]. split; [lia|].
    split; [intros E; discriminate E|]. split; [reflexivity|]. split; [reflexivity|].
    exists []. rewrite !app_nil_r. split; [reflexivity|]. split; [reflexivity|].
    split; [intros ? ? _ _ e []|reflexivity].
  - destruct IH as (Hout & HW & Hc0 & Hn0 & Hp0 & Hnd & Hlt & Hup1 & Hupf & Hup0 & Hrisk & lost & HP & Hlost0 & Hlostr & Hlostq).
    destruct Hfr as [And Afresh].
    set (A := abs s) in *. set (C := fl_caller L) in *. set (D := fl_destroyed L) in *.
    set (E := fl_entered L) in *.
    assert (HndP : NoDup (ids (A ++ C ++ D ++ lost)))
      by exact (NoDup_ids_perm _ _ (Permutation_sym HP) Hnd).
    assert (HAE : incl A E).
    { intros e Hi. apply (Permutation_in _ HP). apply in_or_app. auto. }
    (* the premises of the step lemma *)
    assert (Hnd1 : NoDup (ids (A ++ args o))).
    { rewrite ids_app'. apply LedgerSpec.NoDup_app_intro.
      - rewrite ids_app' in HndP. exact (LedgerSpec.NoDup_app_l _ _ HndP).
      - exact And.
      - intros x Hx Hx'. apply in_ids' in Hx' as (e & Hi & <-). apply Afresh in Hi as [_ Hi].
        apply Hi. apply in_ids' in Hx as (a & Ha & Hae). apply in_ids'. exists a. auto. }
    assert (Hid1 : forall e, In e (A ++ args o) -> eid e < next_id w).
    { intros e Hi. apply in_app_or in Hi as [Hi|Hi]; [apply Hlt, HAE, Hi|].
      apply Afresh in Hi. lia. }
    assert (Hk0 : plan_nonneg (fault w)) by exact (plan_nonneg_step _ _ Hp0 plan0).
    destruct (step_safe o s w r s' w' Hop Hok HW Hk0 Hcv Hnd1 Hid1 He)
      as (evs' & Hlog' & _ & Hnid & Ha & HW' & Hc' & Cnd & Cin & Crnd & Crid & Hpl & Hf & Hg & Hh).
    assert (evs' = evs) by (rewrite Hlog in Hlog'; apply app_inv_head in Hlog'; auto).
    subst evs'. fold A in Cnd, Cin, Hg, Hf.
    (* the entered elements after the call *)
    assert (HndE' : NoDup (ids (E ++ args o ++ created_of evs))).
    { rewrite app_assoc. apply (NoDup_old_new _ _ (next_id w) (next_id w')); try assumption.
      - rewrite ids_app'. apply LedgerSpec.NoDup_app_intro; [exact Hnd|exact And|].
        intros x Hx Hx'. apply in_ids' in Hx' as (e & Hi & <-). apply Afresh in Hi. tauto.
      - intros e Hi. apply in_app_or in Hi as [Hi|Hi]; [apply Hlt, Hi|].
        apply Afresh in Hi. lia. }
    assert (HltE' : forall e, In e (E ++ args o ++ created_of evs) -> eid e < next_id w').
    { intros e Hi. apply in_app_or in Hi as [Hi|Hi]; [apply Hlt in Hi; lia|].
      apply in_app_or in Hi as [Hi|Hi]; [apply Afresh in Hi; lia|apply Crid in Hi; lia]. }
    destruct Ha as [(v & ->)|[(-> & Hfw & Hfw')|(p & -> & Hdoc & -> & ->)]].
    + (* the call returns *)
      specialize (Hg v eq_refl).
      unfold fault_inv, fledger_step.
      cbn [fl_caller fl_destroyed fl_entered fl_at_risk is_user_panic].
      rewrite user_panics_snoc. cbn [is_user_panic]. rewrite Nat.add_0_r.
      fold A C D E.
      split; [apply Forall_app; split; [exact Hout|repeat constructor]|].
      split; [exact HW'|]. split; [congruence|]. split; [lia|].
      split; [eapply plan_step_trans; eassumption|]. split; [exact HndE'|]. split; [exact HltE'|].
      split; [exact Hup1|]. split.
      { intros U. specialize (Hupf U). rewrite Hupf in Hpl. exact Hpl. }
      split; [exact Hup0|]. split; [exact Hrisk|].
      exists lost. split; [clear - HP Hg; perm|]. split; [exact Hlost0|].
      split; [exact Hlostr|exact Hlostq].
    + (* the call unwinds with the injected panic *)
      assert (U0 : user_panics rs = 0%nat).
      { destruct (user_panics rs) as [|[|n]] eqn:U; [reflexivity| |lia].
        exfalso. apply Hfw. apply Hupf. reflexivity. }
      specialize (Hlost0 U0). subst lost. rewrite app_nil_r in HP, HndP.
      cbn [out_of app] in Cnd, Cin.
      unfold fault_inv, fledger_step.
      cbn [fl_caller fl_destroyed fl_entered fl_at_risk is_documented].
      rewrite user_panics_snoc. cbn [is_user_panic]. rewrite U0. cbn [Nat.add].
      fold A C D E.
      split; [apply Forall_app; split; [exact Hout|constructor; [left; reflexivity|constructor]]|].
      split; [exact HW'|]. split; [congruence|]. split; [lia|].
      split; [eapply plan_step_trans; eassumption|]. split; [exact HndE'|]. split; [exact HltE'|].
      split; [lia|]. split; [intros _; exact Hfw'|].
      split.
      { intros F0. exfalso. apply Hfw. exact (plan_step_none _ _ Hp0 F0). }
      split; [intros U; discriminate U|].
      (* what is there afterwards: pairwise distinct, and all of it entered *)
      assert (Hnd' : NoDup (ids ((abs s' ++ dropped_of evs) ++ C ++ D))).
      { rewrite ids_app'. apply LedgerSpec.NoDup_app_intro.
        - exact Cnd.
        - rewrite ids_app' in HndP. exact (NoDup_app_r' _ _ HndP).
        - intros x Hx Hx'. apply in_ids' in Hx as (e & Hi & <-). apply Cin in Hi.
          apply in_ids' in Hx' as (c & Hci & Hce).
          assert (HcE : In c E).
          { apply (Permutation_in _ HP). apply in_or_app. right. exact Hci. }
          apply in_app_or in Hi as [Hi|Hi].
          + (* e was in the buffer: it cannot also be with the caller or destroyed *)
            rewrite ids_app' in HndP.
            assert (Hx : In (eid e) (ids A)) by (apply in_ids'; eauto).
            assert (Hy : In (eid e) (ids (C ++ D))) by (apply in_ids'; eauto).
            clear - HndP Hx Hy. induction (ids A) as [|a l IH]; [contradiction|].
            cbn [app] in HndP. inversion HndP as [|? ? Hna Hnd']; subst.
            destruct Hx as [->|Hx]; [apply Hna; apply in_or_app; auto|auto].
          + apply in_app_or in Hi as [Hi|Hi].
            * apply Afresh in Hi as [_ Hi]. apply Hi. apply in_ids'. eauto.
            * apply Crid in Hi. apply Hlt in HcE. lia. }
      assert (Hin' : incl ((abs s' ++ dropped_of evs) ++ C ++ D) (E ++ args o ++ created_of evs)).
      { intros e Hi. apply in_app_or in Hi as [Hi|Hi].
        - apply Cin in Hi. apply in_app_or in Hi as [Hi|Hi]; [|apply in_or_app; auto].
          apply in_or_app. left. apply HAE, Hi.
        - apply in_or_app. left. apply (Permutation_in _ HP). apply in_or_app. auto. }
      destruct (incl_perm_rest _ _ (NoDup_ids_NoDup _ Hnd') Hin') as (lost' & PL).
      exists lost'. split; [clear - PL; perm|]. split; [intros U; discriminate U|].
      split.
      2:{ (* eq / cmp / hash / fmt: the call changed nothing, so nothing is lost *)
        intros fk k F0 Hlk.
        assert (Hkind : exists k', fault w = Some (fk, k')).
        { rewrite F0 in Hp0. cbn in Hp0. destruct Hp0 as [Hp0|(k' & Hp0 & _)]; [contradiction|eauto]. }
        destruct Hkind as (k' & Hfk).
        destruct (Hh fk k' Hfk Hlk eq_refl) as (-> & Ea & Ec & Ed).
        rewrite Ea, Ec, Ed in PL. fold A in PL. rewrite !app_nil_r in PL.
        apply Permutation_length in PL. apply Permutation_length in HP.
        rewrite app_length in PL. rewrite <- HP in PL.
        destruct lost'; [reflexivity|cbn [length] in PL; lia]. }
      intros fk k F0 Hne e Hi.
      (* a lost element is none of: argument, created, with the caller, destroyed *)
      assert (HndL : NoDup (ids (((abs s' ++ dropped_of evs) ++ C ++ D) ++ lost')))
        by exact (NoDup_ids_perm _ _ (Permutation_sym PL) HndE').
      assert (HiE : In e (E ++ args o ++ created_of evs)).
      { apply (Permutation_in _ PL). apply in_or_app. auto. }
      assert (Hnot : forall x, In x ((abs s' ++ dropped_of evs) ++ C ++ D) -> x <> e).
      { intros x Hx ->. exact (NoDup_ids_disjoint _ _ e HndL Hx Hi). }
      assert (Hkind : exists k', fault w = Some (fk, k')).
      { rewrite F0 in Hp0. cbn in Hp0. destruct Hp0 as [Hp0|(k' & Hp0 & _)]; [contradiction|eauto]. }
      destruct Hkind as (k' & Hfk).
      apply in_app_or in HiE as [HiE|HiE].
      * apply (Permutation_in _ (Permutation_sym HP)) in HiE.
        apply in_app_or in HiE as [HiE|HiE]; [exact HiE|].
        exfalso. apply (Hnot e); [apply in_or_app; auto|reflexivity].
      * exfalso. apply (Hf fk k' Hfk Hne eq_refl) in HiE.
        apply (Hnot e); [apply in_or_app; auto|reflexivity].
    + (* a documented panic: nothing happened *)
      assert (Hdp : is_documented p = true) by (destruct Hdoc as [->| ->]; reflexivity).
      assert (Hnu : is_user_panic (@Panic out p) = false) by (destruct Hdoc as [->| ->]; reflexivity).
      unfold fault_inv, fledger_step. rewrite Hdp. rewrite user_panics_snoc, Hnu, Nat.add_0_r.
      fold A C D E.
      split; [apply Forall_app; split; [exact Hout|constructor; [right; exact Hdoc|constructor]]|].
      split; [exact HW|]. split; [exact Hc0|]. split; [exact Hn0|]. split; [exact Hp0|].
      split; [exact Hnd|]. split; [exact Hlt|]. split; [exact Hup1|]. split; [exact Hupf|].
      split; [exact Hup0|]. split; [exact Hrisk|].
      exists lost. auto.
Qed.

(* C05 along histories. From a well-formed buffer of distinct elements, in a
   world whose plan is armed with ANY kind and counter (or not armed), after
   every history of ledger operations with machine-valued arguments ([op_ok])
   and fresh by-value arguments ([fresh_args]), every call of which returned
   or unwound and was caught (every prefix of a history is a history, so all
   of this holds after every step):
   - every outcome was a result, the injected panic, or a documented panic;
     at most one call unwound with the injected panic, it spent the plan, and
     without a plan there is none;
   - the buffer is well formed, of the same capacity;
   - the elements in the buffer, with the caller and destroyed have pairwise
     distinct identities: no destructor ran twice on an element (neither
     during unwinding nor later), none ran on an element the buffer or the
     caller still holds, the buffer holds no element twice;
   - all of them entered through the initial contents, an argument or a
     creation: nothing comes from nowhere. (Elements may be missing: leaked.) *)
Theorem fault_history ops rs s w L :
  fault_run s0 w0 ops rs s w L ->
  Forall outcome_ok rs /\
  (user_panics rs <= 1)%nat /\
  (user_panics rs = 1%nat -> fault w = None) /\
  (fault w0 = None -> user_panics rs = 0%nat) /\
  WF s /\ cap s = cap s0 /\
  NoDup (ids (abs s ++ fl_caller L ++ fl_destroyed L)) /\
  incl (abs s ++ fl_caller L ++ fl_destroyed L) (fl_entered L) /\
  NoDup (ids (fl_entered L)) /\
  (forall e, In e (fl_entered L) -> eid e < next_id w) /\
  plan_step (fault w0) (fault w).
Proof.
  intros Hr.
  destruct (fault_inv_run _ _ _ _ _ Hr)
    as (Hout & HW & Hc & _ & Hp & Hnd & Hlt & U1 & Uf & U0 & _ & lost & P & _).
  repeat (split; [assumption|]).
  assert (P' : Permutation ((abs s ++ fl_caller L ++ fl_destroyed L) ++ lost) (fl_entered L)).
  { rewrite <- !app_assoc. exact P. }
  split.
  - pose proof (NoDup_ids_perm _ _ (Permutation_sym P') Hnd) as H.
    rewrite ids_app' in H. exact (LedgerSpec.NoDup_app_l _ _ H).
  - split; [|auto]. intros e Hi. apply (Permutation_in _ P'). apply in_or_app. auto.
Qed.

(* Conservation. As long as no call has unwound with the injected panic —
   whatever the kind of the plan, also while it is armed and being counted
   down — everything that entered is in exactly one place: in the buffer, with
   the caller (forgotten Drains included: their elements are booked to the
   caller who forgot them) or destroyed. *)
Theorem fault_history_conserved ops rs s w L :
  fault_run s0 w0 ops rs s w L -> user_panics rs = 0%nat ->
  Permutation (abs s ++ fl_caller L ++ fl_destroyed L) (fl_entered L).
Proof.
  intros Hr U.
  destruct (fault_inv_run _ _ _ _ _ Hr)
    as (_ & _ & _ & _ & _ & _ & _ & _ & _ & _ & _ & lost & P & L0 & _).
  rewrite (L0 U), app_nil_r in P. exact P.
Qed.

(* C06 along histories, as far as the per-operation theorems reach. If the
   plan's kind is not FDrop, then after every history the elements that
   entered are in the buffer, with the caller, destroyed — or [lost], and
   every lost element was in the buffer when the call that unwound with the
   injected panic was made: no argument of any call, nothing any call
   created, nothing the caller held is ever lost. *)
Theorem fault_history_no_leak ops rs s w L fk k :
  fault_run s0 w0 ops rs s w L -> fault w0 = Some (fk, k) -> fk <> FDrop ->
  exists lost,
    Permutation (abs s ++ fl_caller L ++ fl_destroyed L ++ lost) (fl_entered L) /\
    incl lost (fl_at_risk L) /\
    (user_panics rs = 0%nat -> lost = [] /\ fl_at_risk L = []).
Proof.
  intros Hr F0 Hne.
  destruct (fault_inv_run _ _ _ _ _ Hr)
    as (_ & _ & _ & _ & _ & _ & _ & _ & _ & _ & R0 & lost & P & L0 & LR & _).
  exists lost. split; [exact P|]. split; [exact (LR fk k F0 Hne)|]. auto.
Qed.

(* C06 in full for the kinds of user code that only look (eq, cmp, hash, fmt):
   nothing is ever lost, the panic changes nothing *)
Theorem fault_history_no_leak_looks ops rs s w L fk k :
  fault_run s0 w0 ops rs s w L -> fault w0 = Some (fk, k) -> looks_only fk = true ->
  Permutation (abs s ++ fl_caller L ++ fl_destroyed L) (fl_entered L).
Proof.
  intros Hr F0 Hlk.
  destruct (fault_inv_run _ _ _ _ _ Hr)
    as (_ & _ & _ & _ & _ & _ & _ & _ & _ & _ & _ & lost & P & _ & _ & LQ).
  rewrite (LQ fk k F0 Hlk), app_nil_r in P. exact P.
Qed.

(* the same for any kind, destructors included: what is missing is lost *)
Theorem fault_history_accounted ops rs s w L :
  fault_run s0 w0 ops rs s w L ->
  exists lost,
    Permutation (abs s ++ fl_caller L ++ fl_destroyed L ++ lost) (fl_entered L) /\
    (user_panics rs = 0%nat -> lost = []).
Proof.
  intros Hr.
  destruct (fault_inv_run _ _ _ _ _ Hr)
    as (_ & _ & _ & _ & _ & _ & _ & _ & _ & _ & _ & lost & P & L0 & _).
  exists lost. auto.
Qed.

End FaultHistory.

(* the theorems with the section hypotheses as explicit premises *)
Check fault_history :
  forall (s0 : cbuf) (w0 : world),
  WF s0 -> plan_nonneg (fault w0) -> NoDup (ids (abs s0)) ->
  (forall e, In e (abs s0) -> eid e < next_id w0) ->
  forall ops rs s w L,
  fault_run s0 w0 ops rs s w L ->
  Forall outcome_ok rs /\
  (user_panics rs <= 1)%nat /\
  (user_panics rs = 1%nat -> fault w = None) /\
  (fault w0 = None -> user_panics rs = 0%nat) /\
  WF s /\ cap s = cap s0 /\
  NoDup (ids (abs s ++ fl_caller L ++ fl_destroyed L)) /\
  incl (abs s ++ fl_caller L ++ fl_destroyed L) (fl_entered L) /\
  NoDup (ids (fl_entered L)) /\
  (forall e, In e (fl_entered L) -> eid e < next_id w) /\
  plan_step (fault w0) (fault w).

(* ======================================================================== *)
(* 4. an example                                                              *)

Module FaultHistoryExample.

(* a wrapped buffer of capacity 4 holding three elements, front at slot 2;
   the second destructor call will panic *)
Definition s0 : cbuf := mkB 4 3 2 (fun p => mkE (100 + p) p).
Definition w0 : world := mkW true 500 [] (Some (FDrop, 1)).
Definition x : elem := mkE 7 70.
Definition ops : list op := [OClear; OPushBack x; OPopFront].

Example start : abs s0 = [mkE 102 2; mkE 103 3; mkE 100 0].
Proof. vm_compute. reflexivity. Qed.

(* the premises of [fault_history] *)
Example premises :
  WF s0 /\ plan_nonneg (fault w0) /\ NoDup (ids (abs s0)) /\
  (forall e, In e (abs s0) -> eid e < next_id w0).
Proof.
  assert (4 < W) by (rewrite W_eq; reflexivity).
  rewrite start. split; [unfold WF; cbn; lia|].
  split; [cbn; lia|]. split.
  - cbn. repeat constructor; cbn; intuition congruence.
  - intros e [<-|[<-|[<-|[]]]]; cbn; lia.
Qed.

Ltac run_exec :=
  match goal with
  | |- ?lhs = _ =>
    let r := eval vm_compute in lhs in
    transitivity r; [vm_cast_no_check (eq_refl r) | reflexivity]
  end.

(* clear: the destructor of the second element panics; the third element is
   still destroyed during unwinding, the call unwinds with the injected panic
   and leaves an empty, usable buffer. push_back and pop_front then behave
   normally: x goes in and comes back out. Nothing was destroyed twice; the
   three old elements are destroyed, x is with the caller; nothing is lost. *)
Example history_run :
  exists rs s w L,
    fault_run s0 w0 ops rs s w L /\
    rs = [Panic PUser; Ok (OutOpt None); Ok (OutOpt (Some x))] /\
    abs s = [] /\ (cap s, size s) = (4, 0) /\ fault w = None /\
    log w = [EvDrop (mkE 102 2); EvDrop (mkE 103 3); EvDrop (mkE 100 0)] /\
    fl_caller L = [x] /\
    fl_destroyed L = [mkE 102 2; mkE 103 3; mkE 100 0] /\
    fl_entered L = [mkE 102 2; mkE 103 3; mkE 100 0; x] /\
    fl_at_risk L = [mkE 102 2; mkE 103 3; mkE 100 0] /\
    user_panics rs = 1%nat.
Proof.
  assert (F0 : forall b seen, fresh_args b seen []).
  { intros b seen. split; [constructor|]. intros e []. }
  assert (CN : forall o w, fault w = None -> covered_in o w).
  { intros o w H fk k E. rewrite H in E. discriminate E. }
  do 4 eexists. split.
  - unfold ops.
    change [OClear; OPushBack x; OPopFront] with ((([] ++ [OClear]) ++ [OPushBack x]) ++ [OPopFront]).
    eapply fr_snoc; [ eapply fr_snoc; [ eapply fr_snoc; [ apply fr_nil | .. ] | .. ] | .. ].
    (* clear *)
    + reflexivity.
    + exact I.
    + intros fk k _ _. destruct fk; reflexivity.
    + apply F0.
    + run_exec.
    + reflexivity.
    (* push_back x *)
    + reflexivity.
    + exact I.
    + apply CN. reflexivity.
    + split.
      * vm_compute. repeat constructor; cbn; intuition congruence.
      * vm_compute. intros e [<-|[]]; cbn [eid]; split; try lia; intuition congruence.
    + run_exec.
    + reflexivity.
    (* pop_front *)
    + reflexivity.
    + exact I.
    + apply CN. reflexivity.
    + apply F0.
    + run_exec.
    + reflexivity.
  - vm_compute. repeat split; reflexivity.
Qed.

(* and the theorem applies to it *)
Example history_run_safe :
  forall rs s w L, fault_run s0 w0 ops rs s w L ->
    NoDup (ids (abs s ++ fl_caller L ++ fl_destroyed L)) /\ WF s /\ (user_panics rs <= 1)%nat.
Proof.
  intros rs s w L Hr. destruct premises as (P1 & P2 & P3 & P4).
  destruct (fault_history s0 w0 P1 P2 P3 P4 _ _ _ _ _ Hr) as (_ & U & _ & _ & HW & _ & Hnd & _).
  auto.
Qed.

End FaultHistoryExample.

Print Assumptions fault_collect.
Print Assumptions step_safe.
Print Assumptions fault_history.
Print Assumptions fault_history_conserved.
Print Assumptions fault_history_no_leak.
Print Assumptions FaultHistoryExample.history_run.
