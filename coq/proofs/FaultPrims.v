(* FaultPrims.v — the primitives of the machine layer under ANY world, armed
   or not: destructors (drop_elem, drop_list, drop_opt, drop_slice) as exact
   equations in terms of [rdrops] / [wdrops], user calls of a kind the plan is
   not about ([quiet]), the panic paths of [finally] / [on_unwind] /
   [with_buf], and the lemma that assembles a [fault_safe] conclusion from a
   permutation between the elements before and after the call. *)

From CB Require Import Spec.
From CBP Require Import MonadLemmas Arith AbsLemmas ListLemmas AbsOps Core Step Slices
     RefDefs FaultDefs.
From Coq Require Import ZifyBool Permutation.
Ltac Zify.zify_post_hook ::= Z.div_mod_to_equations.

(* ---- the monad's unwinding paths ------------------------------------------- *)

(* the body returns; whatever the cleanup does is the result *)
Lemma finally_body_ok (body cleanup : M unit) s w s1 w1 r s2 w2 :
  body s w = (Ok tt, s1, w1) -> cleanup s1 w1 = (r, s2, w2) ->
  finally body cleanup s w = (r, s2, w2).
Proof.
  intros H1 H2. unfold finally. rewrite H1, H2. destruct r as [[]|p]; reflexivity.
Qed.

Lemma finally_panic_ok {A} (body : M A) (cleanup : M unit) s w p s1 w1 s2 w2 :
  body s w = (Panic p, s1, w1) -> cleanup s1 w1 = (Ok tt, s2, w2) ->
  finally body cleanup s w = (Panic p, s2, w2).
Proof. intros H1 H2. unfold finally. rewrite H1, H2. reflexivity. Qed.

Lemma on_unwind_panic {A} (body : M A) (cleanup : M unit) s w p s1 w1 s2 w2 :
  body s w = (Panic p, s1, w1) -> cleanup s1 w1 = (Ok tt, s2, w2) ->
  on_unwind body cleanup s w = (Panic p, s2, w2).
Proof. intros H1 H2. unfold on_unwind. rewrite H1, H2. reflexivity. Qed.

Lemma with_buf_panic {A} (b : cbuf) (m : M A) s w p b' w' :
  m b w = (Panic p, b', w') -> with_buf b m s w = (Panic p, s, w').
Proof. intros H. unfold with_buf. rewrite H. reflexivity. Qed.

(* ---- user calls of a kind the plan is not about ------------------------------- *)

Definition quiet (k : fkind) (w : world) : Prop :=
  match fault w with Some (k', _) => fkind_eqb k k' = false | None => True end.

Lemma quiet_nofault k w : fault w = None -> quiet k w.
Proof. intros H. unfold quiet. rewrite H. exact I. Qed.

Lemma quiet_other k k' n w : fault w = Some (k', n) -> fkind_eqb k k' = false -> quiet k w.
Proof. intros H E. unfold quiet. rewrite H. exact E. Qed.

Lemma quiet_wev k w evs nid : quiet k w -> quiet k (wev w evs nid).
Proof. intros H. exact H. Qed.

Lemma user_call_quiet k s w : quiet k w -> user_call k s w = (Ok tt, s, w).
Proof.
  unfold quiet, user_call. destruct (fault w) as [[k' n]|]; [|reflexivity].
  intros ->. reflexivity.
Qed.

Lemma clone_elem_quiet e s w :
  quiet FClone w ->
  clone_elem e s w =
    (Ok (mkE (next_id w) (eval e)), s,
     wev w [EvClone e (mkE (next_id w) (eval e))] (next_id w + 1)).
Proof.
  intros H. unfold clone_elem.
  erewrite bind_ok by (apply user_call_quiet; exact H).
  reflexivity.
Qed.

Lemma call_closure_quiet s w :
  quiet FCall w ->
  call_closure s w =
    (Ok (mkE (next_id w) closure_val), s,
     wev w [EvCall (mkE (next_id w) closure_val)] (next_id w + 1)).
Proof.
  intros H. unfold call_closure.
  erewrite bind_ok by (apply user_call_quiet; exact H).
  reflexivity.
Qed.

(* ---- destructors under any plan ---------------------------------------------------- *)

(* does the plan [f] fire within the next [n] destructor calls? *)
Definition fires (f : option (fkind * Z)) (n : Z) : bool :=
  match f with
  | Some (FDrop, k) => (0 <=? k) && (k <? n)
  | _ => false
  end.

(* the plan after [n] destructor calls (all of them run: the plan is one-shot,
   so the cleanup that continues after the injected panic never panics) *)
Definition fault_after (f : option (fkind * Z)) (n : Z) : option (fkind * Z) :=
  match f with
  | Some (FDrop, k) => if (0 <=? k) && (k <? n) then None else Some (FDrop, k - n)
  | _ => f
  end.

(* outcome and world after destroying [es] in world [w] *)
Definition rdrops (w : world) (es : list elem) : outcome unit :=
  if fires (fault w) (zlen es) then Panic PUser else Ok tt.

Definition wdrops (w : world) (es : list elem) : world :=
  mkW (dbg w) (next_id w) (log w ++ drops es) (fault_after (fault w) (zlen es)).

Lemma fires_app f n m :
  0 <= n -> 0 <= m -> fires f (n + m) = fires f n || fires (fault_after f n) m.
Proof.
  intros Hn Hm. unfold fires, fault_after.
  destruct f as [[[] k]|]; try reflexivity.
  destruct ((0 <=? k) && (k <? n)) eqn:E; cbn [orb]; lia.
Qed.

Lemma fires_excl f n m : fires f n = true -> fires (fault_after f n) m = false.
Proof.
  unfold fires, fault_after. destruct f as [[[] k]|]; try discriminate.
  intros ->. reflexivity.
Qed.

Lemma fault_after_app f n m :
  0 <= n -> 0 <= m -> fault_after (fault_after f n) m = fault_after f (n + m).
Proof.
  intros Hn Hm. unfold fault_after.
  destruct f as [[[] k]|]; try reflexivity.
  destruct ((0 <=? k) && (k <? n)) eqn:E1.
  - replace ((0 <=? k) && (k <? n + m)) with true by lia. reflexivity.
  - destruct ((0 <=? k - n) && (k - n <? m)) eqn:E2.
    + replace ((0 <=? k) && (k <? n + m)) with true by lia. reflexivity.
    + replace ((0 <=? k) && (k <? n + m)) with false by lia.
      do 2 f_equal. lia.
Qed.

Lemma drops_app' l1 l2 : drops (l1 ++ l2) = drops l1 ++ drops l2.
Proof. unfold drops. apply map_app. Qed.

Lemma wdrops_app w ea eb : wdrops (wdrops w ea) eb = wdrops w (ea ++ eb).
Proof.
  unfold wdrops. cbn [dbg next_id log fault].
  rewrite zlen_app, drops_app', app_assoc.
  rewrite fault_after_app by apply zlen_nonneg. reflexivity.
Qed.

Lemma wdrops_nil w : wdrops w [] = w.
Proof.
  destruct w as [d n l f]. unfold wdrops. cbn [dbg next_id log fault drops map].
  rewrite app_nil_r. f_equal. unfold fault_after. change (zlen (@nil elem)) with 0.
  destruct f as [[[] k]|]; try reflexivity.
  replace ((0 <=? k) && (k <? 0)) with false by lia. rewrite Z.sub_0_r. reflexivity.
Qed.

Lemma rdrops_nil w : rdrops w [] = Ok tt.
Proof.
  unfold rdrops, fires. change (zlen (@nil elem)) with 0.
  destruct (fault w) as [[[] k]|]; try reflexivity.
  replace ((0 <=? k) && (k <? 0)) with false by lia. reflexivity.
Qed.

Lemma wdrops_log w es : log (wdrops w es) = log w ++ drops es.
Proof. reflexivity. Qed.
Lemma wdrops_dbg w es : dbg (wdrops w es) = dbg w.
Proof. reflexivity. Qed.
Lemma wdrops_next w es : next_id (wdrops w es) = next_id w.
Proof. reflexivity. Qed.
Lemma wdrops_fault w es : fault (wdrops w es) = fault_after (fault w) (zlen es).
Proof. reflexivity. Qed.

(* a world without an armed fault: the known behaviour *)
Lemma wdrops_nofault w es : fault w = None -> wdrops w es = wev w (drops es) (next_id w).
Proof. intros H. unfold wdrops, wev. rewrite H. reflexivity. Qed.

Lemma rdrops_nofault w es : fault w = None -> rdrops w es = Ok tt.
Proof. intros H. unfold rdrops. rewrite H. reflexivity. Qed.

(* a plan about another kind of user call is not touched by destructors *)
Lemma rdrops_other w es fk k :
  fault w = Some (fk, k) -> fk <> FDrop -> rdrops w es = Ok tt.
Proof. intros H Hn. unfold rdrops, fires. rewrite H. destruct fk; congruence. Qed.

Lemma wdrops_other w es fk k :
  fault w = Some (fk, k) -> fk <> FDrop -> wdrops w es = wev w (drops es) (next_id w).
Proof.
  intros H Hn. unfold wdrops, wev, fault_after. rewrite H. destruct fk; congruence.
Qed.

(* the two ways it can go with an armed destructor plan *)
Lemma drops_cases w es k :
  fault w = Some (FDrop, k) -> 0 <= k ->
  (rdrops w es = Panic PUser /\ fault (wdrops w es) = None) \/
  (rdrops w es = Ok tt /\ exists k', fault (wdrops w es) = Some (FDrop, k') /\ 0 <= k').
Proof.
  intros H Hk. unfold rdrops, wdrops, fires, fault_after. cbn [fault]. rewrite H.
  destruct ((0 <=? k) && (k <? zlen es)) eqn:E.
  - left. auto.
  - right. split; [reflexivity|]. exists (k - zlen es). split; [reflexivity|lia].
Qed.

Lemma rdrops_cases w es : rdrops w es = Ok tt \/ rdrops w es = Panic PUser.
Proof. unfold rdrops. destruct (fires (fault w) (zlen es)); auto. Qed.

(* a panicking destructor spends the plan *)
Lemma rdrops_panic_fault w es p : rdrops w es = Panic p -> p = PUser /\ fault (wdrops w es) = None.
Proof.
  unfold rdrops, wdrops, fires, fault_after. cbn [fault].
  destruct (fault w) as [[[] k]|]; try discriminate.
  destruct ((0 <=? k) && (k <? zlen es)); [|discriminate].
  intros H. inversion H. auto.
Qed.

(* with no destructor panic, a plan about destructors stays one *)
Lemma rdrops_ok_fault w es k :
  fault w = Some (FDrop, k) -> 0 <= k -> rdrops w es = Ok tt ->
  exists k', fault (wdrops w es) = Some (FDrop, k') /\ 0 <= k'.
Proof.
  intros H Hk Hr. destruct (drops_cases w es k H Hk) as [[Hp _]|[_ Hx]]; [congruence|exact Hx].
Qed.

Lemma drop_elem_gen e s w : drop_elem e s w = (rdrops w [e], s, wdrops w [e]).
Proof.
  unfold drop_elem, emit, user_call, bind, rdrops, wdrops, fires, fault_after, w_log, w_fault.
  cbn [fault log dbg next_id]. change (zlen [e]) with 1.
  destruct (fault w) as [[[] k]|]; cbn [fkind_eqb]; try reflexivity.
  destruct (k =? 0) eqn:E.
  - replace ((0 <=? k) && (k <? 1)) with true by lia. reflexivity.
  - replace ((0 <=? k) && (k <? 1)) with false by lia. reflexivity.
Qed.

(* two groups of destructors, the second one running also when the first
   unwinds: all run, at most one panics, never an abort *)
Lemma finally_drops (A B : M unit) s w ea eb :
  A s w = (rdrops w ea, s, wdrops w ea) ->
  B s (wdrops w ea) = (rdrops (wdrops w ea) eb, s, wdrops (wdrops w ea) eb) ->
  finally A B s w = (rdrops w (ea ++ eb), s, wdrops w (ea ++ eb)).
Proof.
  intros HA HB. unfold finally. rewrite HA, HB. rewrite wdrops_app.
  unfold rdrops. rewrite wdrops_fault, zlen_app.
  rewrite fires_app by apply zlen_nonneg.
  destruct (fires (fault w) (zlen ea)) eqn:E1.
  - rewrite fires_excl by exact E1. reflexivity.
  - cbn [orb]. destruct (fires (fault_after (fault w) (zlen ea)) (zlen eb)); reflexivity.
Qed.

Lemma drop_list_gen es : forall s w, drop_list es s w = (rdrops w es, s, wdrops w es).
Proof.
  induction es as [|e es IH]; intros s w.
  - cbn [drop_list]. rewrite rdrops_nil, wdrops_nil. reflexivity.
  - cbn [drop_list]. change (e :: es) with ([e] ++ es).
    apply finally_drops; [apply drop_elem_gen|apply IH].
Qed.

Definition opt_list (o : option elem) : list elem :=
  match o with Some e => [e] | None => [] end.

Lemma drop_opt_gen o s w : drop_opt o s w = (rdrops w (opt_list o), s, wdrops w (opt_list o)).
Proof.
  destruct o; cbn [drop_opt opt_list].
  - apply drop_elem_gen.
  - rewrite rdrops_nil, wdrops_nil. reflexivity.
Qed.

Lemma drop_slice_gen sl s w :
  drop_slice sl s w = (rdrops w (sl_elems (items s) sl), s, wdrops w (sl_elems (items s) sl)).
Proof. unfold drop_slice. mcbn. apply drop_list_gen. Qed.

(* drop(right); drop(left) with left a live local *)
Lemma drop_two_gen R L s w :
  finally (drop_slice R) (drop_slice L) s w =
    (rdrops w (sl_elems (items s) R ++ sl_elems (items s) L), s,
     wdrops w (sl_elems (items s) R ++ sl_elems (items s) L)).
Proof. apply finally_drops; apply drop_slice_gen. Qed.

(* ---- traces ------------------------------------------------------------------------- *)

Lemma dropped_of_app a b : dropped_of (a ++ b) = dropped_of a ++ dropped_of b.
Proof. apply flat_map_app. Qed.

Lemma created_of_app a b : created_of (a ++ b) = created_of a ++ created_of b.
Proof. apply flat_map_app. Qed.

Lemma dropped_of_drops l : dropped_of (drops l) = l.
Proof. induction l as [|e l IH]; [reflexivity|]. cbn. f_equal. exact IH. Qed.

Lemma created_of_drops l : created_of (drops l) = [].
Proof. induction l as [|e l IH]; [reflexivity|]. cbn. exact IH. Qed.

Lemma dropped_of_calls l : dropped_of (map EvCall l) = [].
Proof. induction l as [|e l IH]; [reflexivity|]. cbn. exact IH. Qed.

Lemma created_of_calls l : created_of (map EvCall l) = l.
Proof. induction l as [|e l IH]; [reflexivity|]. cbn. f_equal. exact IH. Qed.

Lemma dropped_of_clone_evs xs : forall nid, dropped_of (clone_evs nid xs) = [].
Proof. induction xs as [|x xs IH]; intros nid; [reflexivity|]. cbn. apply IH. Qed.

Lemma created_of_clone_evs xs : forall nid, created_of (clone_evs nid xs) = clones nid xs.
Proof. induction xs as [|x xs IH]; intros nid; [reflexivity|]. cbn. f_equal. apply IH. Qed.

(* fresh identities are consecutive *)
Lemma ids_clones xs : forall nid, ids (clones nid xs) = zseq nid (length xs).
Proof.
  induction xs as [|x xs IH]; intros nid; [reflexivity|].
  cbn [clones ids map length]. rewrite zseq_cons. f_equal. apply IH.
Qed.

Lemma ids_calls n : forall nid, ids (calls nid n) = zseq nid n.
Proof.
  induction n as [|n IH]; intros nid; [reflexivity|].
  cbn [calls ids map]. rewrite zseq_cons. f_equal. apply IH.
Qed.

Lemma In_zseq a n x : In x (zseq a n) <-> a <= x < a + Z.of_nat n.
Proof.
  rewrite zseq_map_seq. rewrite in_map_iff. split.
  - intros (i & <- & Hi). apply in_seq in Hi. lia.
  - intros H. exists (Z.to_nat (x - a)). split; [lia|]. apply in_seq. lia.
Qed.

Lemma NoDup_zseq a n : NoDup (zseq a n).
Proof.
  revert a. induction n as [|n IH]; intros a; [constructor|].
  rewrite zseq_cons. constructor; [|apply IH].
  rewrite In_zseq. lia.
Qed.

(* ---- lists without repetition ---------------------------------------------------------- *)

Lemma NoDup_app_intro {A} (l1 l2 : list A) :
  NoDup l1 -> NoDup l2 -> (forall x, In x l1 -> ~ In x l2) -> NoDup (l1 ++ l2).
Proof.
  intros H1 H2 H. induction H1 as [|a l1 Ha H1 IH]; [exact H2|].
  cbn. constructor.
  - rewrite in_app_iff. intros [Hi|Hi]; [exact (Ha Hi)|]. exact (H a (or_introl eq_refl) Hi).
  - apply IH. intros x Hx. apply H. right. exact Hx.
Qed.

Lemma NoDup_app_l {A} (l1 l2 : list A) : NoDup (l1 ++ l2) -> NoDup l1.
Proof.
  induction l1 as [|a l1 IH]; intros H; [constructor|].
  cbn in H. inversion H as [|? ? Ha H']. subst. constructor.
  - intros Hi. apply Ha. apply in_or_app. left. exact Hi.
  - apply IH. exact H'.
Qed.

Lemma firstn_skipn_perm {A} n (l : list A) : Permutation (skipn n l ++ firstn n l) l.
Proof.
  rewrite <- (firstn_skipn n l) at 3. apply Permutation_app_comm.
Qed.

(* ---- assembling a [fault_safe] conclusion ------------------------------------------------ *)

Lemma returned_panic o p : returned o (Panic p) = [].
Proof. destruct o; reflexivity. Qed.

(* [X]: the elements that were leaked (allowed only after a destructor panic) *)
Lemma fault_safe_assemble (o : op) (fk : fkind) s w r s' w' evs X :
  NoDup (ids (abs s ++ given o)) ->
  (forall e, In e (abs s ++ given o) -> eid e < next_id w) ->
  exec o s w = (r, s', w') ->
  log w' = log w ++ evs -> dbg w' = dbg w -> next_id w <= next_id w' ->
  (match r with Ok _ => True | Panic p => p = PUser /\ fault w' = None end) ->
  (fault w' = None \/ exists k', fault w' = Some (fk, k') /\ 0 <= k') ->
  WF s' -> cap s' = cap s ->
  NoDup (ids (created_of evs)) ->
  (forall e, In e (created_of evs) -> next_id w <= eid e < next_id w') ->
  Permutation (abs s' ++ returned o r ++ dropped_of evs ++ X)
              (abs s ++ given o ++ created_of evs) ->
  (fk <> FDrop -> match r with Ok _ => True | Panic _ => X = [] end) ->
  exists r s' w' evs,
    exec o s w = (r, s', w') /\
    log w' = log w ++ evs /\ dbg w' = dbg w /\ next_id w <= next_id w' /\
    (match r with Ok _ => True | Panic p => p = PUser /\ fault w' = None end) /\
    (fault w' = None \/ exists k', fault w' = Some (fk, k') /\ 0 <= k') /\
    WF s' /\ cap s' = cap s /\
    NoDup (ids (abs s' ++ returned o r ++ dropped_of evs)) /\
    incl (abs s' ++ returned o r ++ dropped_of evs) (abs s ++ given o ++ created_of evs) /\
    (forall e, In e (abs s' ++ created_of evs) -> eid e < next_id w') /\
    (fk <> FDrop ->
     match r with
     | Ok _ => True
     | Panic _ => incl (given o ++ created_of evs) (abs s' ++ dropped_of evs)
     end).
Proof.
  intros Hnd Hid He Hlog Hdbg Hnid Hr Hfault HW Hcap Hcnd Hcid Hperm Hleak.
  exists r, s', w', evs.
  assert (Hall : NoDup (ids (abs s ++ given o ++ created_of evs))).
  { rewrite app_assoc. unfold ids. rewrite map_app. apply NoDup_app_intro.
    - exact Hnd.
    - exact Hcnd.
    - intros x H1 H2. apply in_map_iff in H1. destruct H1 as (e1 & <- & H1).
      apply in_map_iff in H2. destruct H2 as (e2 & E & H2).
      specialize (Hid e1 H1). specialize (Hcid e2 H2). lia. }
  assert (Hin : forall e, In e (abs s' ++ returned o r ++ dropped_of evs) ->
                          In e (abs s ++ given o ++ created_of evs)).
  { intros e H. eapply Permutation_in; [exact Hperm|].
    rewrite !app_assoc. apply in_or_app. left. rewrite <- !app_assoc. exact H. }
  repeat (split; [assumption|]).
  split; [|split; [|split]].
  - apply (Permutation_NoDup (Permutation_map eid (Permutation_sym Hperm))) in Hall.
    rewrite !app_assoc in Hall. unfold ids in *. rewrite map_app in Hall.
    apply NoDup_app_l in Hall. rewrite <- !app_assoc in Hall. exact Hall.
  - exact Hin.
  - intros e H. apply in_app_or in H. destruct H as [H|H].
    + assert (H' : In e (abs s ++ given o ++ created_of evs)).
      { apply Hin. apply in_or_app. left. exact H. }
      rewrite app_assoc in H'. apply in_app_or in H'. destruct H' as [H'|H'].
      * specialize (Hid e H'). lia.
      * specialize (Hcid e H'). lia.
    + specialize (Hcid e H). lia.
  - intros Hfk. specialize (Hleak Hfk). destruct r as [v|p]; [exact I|].
    subst X. rewrite returned_panic in Hperm. cbn [app] in Hperm. rewrite app_nil_r in Hperm.
    intros e H. eapply Permutation_in; [apply Permutation_sym; exact Hperm|].
    apply in_or_app. right. exact H.
Qed.
