(* FaultUser.v — fault injection into user code other than destructors and
   Clone: the closure of fill_with / fill_spare_with (FCall), the user
   iterator of extend / from_iter (FNext), PartialEq (FEq), PartialOrd / Ord
   (FCmp), Hash (FHash), Debug (FFmt). Every theorem has the form
   [fault_safe o fk] of FaultDefs.v. *)

From CB Require Import Spec.
From CBP Require Import MonadLemmas Arith AbsLemmas ListLemmas AbsOps Core Step PushPop
     Slices Truncate RefDefs RefTruncate Views FillExtend FaultDefs CmpHash.
From Coq Require Import ZifyBool Permutation.
Ltac Zify.zify_post_hook ::= Z.div_mod_to_equations.

Ltac blem_user ::=
  first [ apply add_mod_ok; mcbn; lia | apply sub_mod_ok; mcbn; lia ].

(* ================================================================== *)
(* worlds with an armed plan                                           *)

(* the plan is spent, or armed with kind [fk] and a non-negative counter *)
Definition armed (fk : fkind) (w : world) : Prop :=
  fault w = None \/ exists k, fault w = Some (fk, k) /\ 0 <= k.

(* destructors cannot panic *)
Definition nodrop (w : world) : Prop := forall k, fault w <> Some (FDrop, k).

(* [w'] extends [w] by the events [evs] *)
Definition wrel (fk : fkind) (w w' : world) (evs : list event) : Prop :=
  log w' = log w ++ evs /\ dbg w' = dbg w /\ next_id w <= next_id w' /\ armed fk w'.

(* the only panic is the injected one, and it spends the plan *)
Definition okp {A} (r : outcome A) (w' : world) : Prop :=
  match r with Ok _ => True | Panic p => p = PUser /\ fault w' = None end.

Lemma armed_nodrop fk w : fk <> FDrop -> armed fk w -> nodrop w.
Proof.
  intros Hk [Hn|(k & Hf & _)] k' E; rewrite E in *; [discriminate|].
  injection Hf as <- _. congruence.
Qed.

Lemma none_nodrop w : fault w = None -> nodrop w.
Proof. intros H k E. rewrite E in H. discriminate. Qed.

Lemma nodrop_wev w evs n : nodrop w -> nodrop (wev w evs n).
Proof. intros H. exact H. Qed.

Lemma armed_wev fk w evs n : armed fk w -> armed fk (wev w evs n).
Proof. intros H. exact H. Qed.

Lemma wrel_refl fk w : armed fk w -> wrel fk w w [].
Proof. intros H. unfold wrel. rewrite app_nil_r. repeat split; try lia. exact H. Qed.

Lemma wrel_trans fk w w1 w2 e1 e2 :
  wrel fk w w1 e1 -> wrel fk w1 w2 e2 -> wrel fk w w2 (e1 ++ e2).
Proof.
  intros (L1 & D1 & N1 & _) (L2 & D2 & N2 & A2). unfold wrel.
  rewrite L2, L1, D2, D1, app_assoc. repeat split; try lia. exact A2.
Qed.

Lemma wrel_wev fk w evs n : armed fk w -> next_id w <= n -> wrel fk w (wev w evs n) evs.
Proof. intros H Hn. unfold wrel, wev. cbn. repeat split; try lia. exact H. Qed.

Lemma wrel_armed fk w w' evs : wrel fk w w' evs -> armed fk w'.
Proof. intros (_ & _ & _ & H). exact H. Qed.

Lemma fkind_eqb_refl fk : fkind_eqb fk fk = true.
Proof. destruct fk; reflexivity. Qed.

Lemma fkind_eqb_neq a b : a <> b -> fkind_eqb a b = false.
Proof. destruct a, b; try reflexivity; congruence. Qed.

(* the call whose kind is the armed one *)
Lemma user_call_armed fk s w :
  armed fk w ->
  exists r w', user_call fk s w = (r, s, w') /\ wrel fk w w' [] /\ okp r w' /\
               next_id w' = next_id w.
Proof.
  intros [Hn|(k & Hk & Hk0)]; unfold user_call.
  - rewrite Hn. exists (Ok tt), w. split; [reflexivity|].
    split; [apply wrel_refl; left; exact Hn|]. split; [exact I|reflexivity].
  - rewrite Hk, fkind_eqb_refl. destruct (k =? 0) eqn:E.
    + exists (Panic PUser), (w_fault w None). split; [reflexivity|].
      split; [|split; [split; reflexivity|reflexivity]].
      unfold wrel. cbn. rewrite app_nil_r. repeat split; try lia. left. reflexivity.
    + exists (Ok tt), (w_fault w (Some (fk, k - 1))). split; [reflexivity|].
      split; [|split; [exact I|reflexivity]].
      unfold wrel. cbn. rewrite app_nil_r. repeat split; try lia.
      right. exists (k - 1). split; [reflexivity|lia].
Qed.

(* a call of another kind *)
Lemma user_call_other fk fk' s w :
  armed fk w -> fk' <> fk -> user_call fk' s w = (Ok tt, s, w).
Proof.
  intros [Hn|(k & Hk & _)] Hne; unfold user_call.
  - rewrite Hn. reflexivity.
  - rewrite Hk, fkind_eqb_neq by exact Hne. reflexivity.
Qed.

(* ---- destructors when the plan is not about destructors ---------------- *)

Lemma user_call_drop_nd s w : nodrop w -> user_call FDrop s w = (Ok tt, s, w).
Proof.
  intros H. unfold user_call. destruct (fault w) as [[k' n]|] eqn:E; [|reflexivity].
  destruct k'; try reflexivity. exfalso. apply (H n). exact E.
Qed.

Lemma drop_elem_nd e s w :
  nodrop w -> drop_elem e s w = (Ok tt, s, wev w [EvDrop e] (next_id w)).
Proof.
  intros H. unfold drop_elem. erewrite bind_ok by apply emit_eq.
  apply user_call_drop_nd. exact H.
Qed.

Lemma drop_list_nd es s w :
  nodrop w -> drop_list es s w = (Ok tt, s, wev w (drops es) (next_id w)).
Proof.
  revert w. induction es as [|e es IH]; intros w H.
  - cbn. rewrite wev_nil. reflexivity.
  - cbn [drop_list]. erewrite finally_ok.
    + reflexivity.
    + apply drop_elem_nd. exact H.
    + rewrite IH by exact H. rewrite wev_wev. reflexivity.
Qed.

Lemma drop_opt_nd o s w :
  nodrop w -> drop_opt o s w = (Ok tt, s, wev w (opt_drop o) (next_id w)).
Proof.
  intros H. destruct o; cbn.
  - apply drop_elem_nd. exact H.
  - rewrite wev_nil. reflexivity.
Qed.

Lemma drop_slice_nd sl s w :
  nodrop w ->
  drop_slice sl s w = (Ok tt, s, wev w (drops (sl_elems (items s) sl)) (next_id w)).
Proof. intros H. unfold drop_slice. mcbn. apply drop_list_nd. exact H. Qed.

Lemma drop_two_nd R L s w :
  nodrop w ->
  finally (drop_slice R) (drop_slice L) s w =
    (Ok tt, s, wev w (drops (sl_elems (items s) R ++ sl_elems (items s) L)) (next_id w)).
Proof.
  intros Hf. erewrite finally_ok.
  - reflexivity.
  - apply drop_slice_nd. exact Hf.
  - rewrite drop_slice_nd by exact Hf. rewrite wev_wev.
    unfold drops. rewrite map_app. reflexivity.
Qed.

(* ---- traces -------------------------------------------------------------- *)

Definition silent (evs : list event) : Prop := dropped_of evs = [] /\ created_of evs = [].

Lemma dropped_of_app a b : dropped_of (a ++ b) = dropped_of a ++ dropped_of b.
Proof. unfold dropped_of. apply flat_map_app. Qed.

Lemma created_of_app a b : created_of (a ++ b) = created_of a ++ created_of b.
Proof. unfold created_of. apply flat_map_app. Qed.

Lemma dropped_of_drops l : dropped_of (drops l) = l.
Proof. induction l as [|x l IH]; [reflexivity|]. cbn. f_equal. exact IH. Qed.

Lemma created_of_drops l : created_of (drops l) = [].
Proof. induction l as [|x l IH]; [reflexivity|]. cbn. exact IH. Qed.

Lemma silent_nil : silent [].
Proof. split; reflexivity. Qed.

Lemma silent_app a b : silent a -> silent b -> silent (a ++ b).
Proof.
  intros [A1 A2] [B1 B2]. split.
  - rewrite dropped_of_app, A1, B1. reflexivity.
  - rewrite created_of_app, A2, B2. reflexivity.
Qed.

(* ================================================================== *)
(* computations that only look: the state is unchanged, nothing is
   created or destroyed, and the only possible panic is the injected one *)

Definition quiet {A} (fk : fkind) (m : M A) (s : cbuf) : Prop :=
  forall w, armed fk w ->
    exists r w' evs, m s w = (r, s, w') /\ wrel fk w w' evs /\ okp r w' /\ silent evs /\
                     next_id w' = next_id w.

Lemma quiet_det {A} fk (m : M A) s a :
  (forall w, m s w = (Ok a, s, w)) -> quiet fk m s.
Proof.
  intros H w Ha. exists (Ok a), w, []. split; [apply H|].
  split; [apply wrel_refl; exact Ha|]. split; [exact I|]. split; [exact silent_nil|reflexivity].
Qed.

Lemma quiet_ret {A} fk (a : A) s : quiet fk (ret a) s.
Proof. apply quiet_det with (a := a). reflexivity. Qed.

Lemma quiet_bind {A B} fk (m : M A) (k : A -> M B) s :
  quiet fk m s -> (forall a, quiet fk (k a) s) -> quiet fk (bind m k) s.
Proof.
  intros Hm Hk w Ha. destruct (Hm w Ha) as (r & w1 & e1 & E1 & R1 & O1 & S1 & N1).
  destruct r as [a|p].
  - destruct (Hk a w1 (wrel_armed _ _ _ _ R1)) as (r2 & w2 & e2 & E2 & R2 & O2 & S2 & N2).
    exists r2, w2, (e1 ++ e2). unfold bind. rewrite E1. split; [exact E2|].
    split; [eapply wrel_trans; eassumption|]. split; [exact O2|].
    split; [apply silent_app; assumption|congruence].
  - exists (Panic p), w1, e1. unfold bind. rewrite E1. split; [reflexivity|].
    split; [exact R1|]. split; [exact O1|]. split; [exact S1|exact N1].
Qed.

Lemma quiet_bind_det {A B} fk (m : M A) (k : A -> M B) s a :
  (forall w, m s w = (Ok a, s, w)) -> quiet fk (k a) s -> quiet fk (bind m k) s.
Proof.
  intros Hm Hk w Ha. unfold bind. rewrite Hm. apply Hk. exact Ha.
Qed.

Lemma quiet_emit fk ev s : silent [ev] -> quiet fk (emit ev) s.
Proof.
  intros Hs w Ha. exists (Ok tt), (wev w [ev] (next_id w)), [ev].
  split; [apply emit_eq|]. split; [apply wrel_wev; [exact Ha|lia]|].
  split; [exact I|]. split; [exact Hs|reflexivity].
Qed.

Lemma quiet_user_call fk s : quiet fk (user_call fk) s.
Proof.
  intros w Ha. destruct (user_call_armed fk s w Ha) as (r & w' & E & R & O & N).
  exists r, w', []. split; [exact E|]. split; [exact R|]. split; [exact O|].
  split; [exact silent_nil|exact N].
Qed.

Lemma quiet_emit_call fk ev s : silent [ev] -> quiet fk (emit ev;; user_call fk) s.
Proof.
  intros Hs. apply quiet_bind; [apply quiet_emit; exact Hs|].
  intros _. apply quiet_user_call.
Qed.

(* for_each over an iterator *)
Lemma iter_for_each_quiet fk src (body : elem -> M unit) s :
  (forall e, quiet fk (body e) s) ->
  forall fuel it, (length (it_slots it) < fuel)%nat ->
    quiet fk (iter_for_each fuel src it body) s.
Proof.
  intros Hb. induction fuel as [|fuel IH]; intros it Hl; [lia|].
  cbn [iter_for_each]. pose proof (iter_next_spec it) as Hs.
  destruct (it_slots it) as [|p rest] eqn:Es.
  - destruct Hs as (it' & ->). apply quiet_ret.
  - destruct Hs as (it' & -> & Es'). apply quiet_bind; [apply Hb|].
    intros _. apply IH. rewrite Es'. cbn in Hl. lia.
Qed.

(* ---- from a quiet [exec] to [fault_safe] -------------------------------- *)

Lemma quiet_fault_safe o fk :
  given o = [] -> (forall r, returned o r = []) ->
  (forall s, WF s -> op_ok s o -> quiet fk (exec o) s) ->
  fault_safe o fk.
Proof.
  intros Hg Hr Hq s w k HW Ho Hf Hk Hnd Hlt.
  assert (Ha : armed fk w) by (right; exists k; split; assumption).
  destruct (Hq s HW Ho w Ha) as (r & w' & evs & E & (L & D & N & A) & O & (Sd & Sc) & Nid).
  exists r, s, w', evs. rewrite Hr, Hg, Sd, Sc in *. cbn [app] in *.
  split; [exact E|]. split; [exact L|]. split; [exact D|]. split; [exact N|].
  split; [destruct r; exact O|]. split; [exact A|]. split; [exact HW|]. split; [reflexivity|].
  split; [exact Hnd|]. split; [apply incl_refl|].
  split; [intros e He; specialize (Hlt e He); lia|].
  intros _. destruct r; [exact I|]. rewrite app_nil_r. intros e [].
Qed.

Lemma quiet_map {A} fk (m : M A) (f : A -> out) s :
  quiet fk m s -> quiet fk (a <- m;; ret (f a)) s.
Proof. intros H. apply quiet_bind; [exact H|]. intros a. apply quiet_ret. Qed.

(* ================================================================== *)
(* Hash, Debug                                                         *)

Lemma iter_new_det s :
  WF s ->
  exists it, (forall w, iter_new s w = (Ok it, s, w)) /\
             length (it_slots it) = Z.to_nat (size s).
Proof.
  intros HW. exists (mkI (fst (as_slices_val s)) (snd (as_slices_val s))). split.
  - intros w. unfold iter_new. erewrite bind_ok by (apply as_slices_ok; exact HW).
    destruct (as_slices_val s). reflexivity.
  - rewrite <- abs_length. rewrite <- (as_slices_val_abs s HW).
    unfold it_slots, sl_slots. cbn [it_right it_left].
    rewrite !app_length, !sl_elems_length, !zseq_length. reflexivity.
Qed.

Theorem hash_fault : fault_safe OHash FHash.
Proof.
  apply quiet_fault_safe; [reflexivity|intros r; reflexivity|].
  intros s HW _. cbn [exec].
  change (quiet FHash (x <- buf_hash;; ret ((fun _ : unit => OutUnit) x)) s).
  apply quiet_map. unfold buf_hash.
  apply quiet_bind_det with (a := s); [reflexivity|].
  apply quiet_bind; [apply quiet_emit; split; reflexivity|]. intros _.
  destruct (iter_new_det s HW) as (it & Hi & Hl).
  apply quiet_bind_det with (a := it); [exact Hi|].
  apply iter_for_each_quiet; [|lia].
  intros e. apply quiet_emit_call. split; reflexivity.
Qed.

Theorem debug_fault : fault_safe ODebug FFmt.
Proof.
  apply quiet_fault_safe; [reflexivity|intros r; reflexivity|].
  intros s HW _. cbn [exec].
  change (quiet FFmt (x <- buf_fmt;; ret ((fun _ : unit => OutUnit) x)) s).
  apply quiet_map. unfold buf_fmt.
  apply quiet_bind_det with (a := s); [reflexivity|].
  destruct (iter_new_det s HW) as (it & Hi & Hl).
  apply quiet_bind_det with (a := it); [exact Hi|].
  apply iter_for_each_quiet; [|lia].
  intros e. apply quiet_emit_call. split; reflexivity.
Qed.

(* ================================================================== *)
(* PartialEq                                                           *)

Section EqF.
Variable eqf : elem -> elem -> bool.

Lemma list_eq_loop_quiet : forall xs ys s, quiet FEq (list_eq_loop eqf xs ys) s.
Proof.
  induction xs as [|x xs IH]; intros ys s.
  - apply quiet_ret.
  - destruct ys as [|y ys]; [apply quiet_ret|].
    cbn [list_eq_loop].
    apply quiet_bind; [apply quiet_emit; split; reflexivity|]. intros _.
    apply quiet_bind; [apply quiet_user_call|]. intros _.
    destruct (eqf x y); [apply IH|apply quiet_ret].
Qed.

Lemma slice_eq_quiet xs ys s : quiet FEq (slice_eq eqf xs ys) s.
Proof.
  unfold slice_eq. destruct (zlen xs =? zlen ys); [apply list_eq_loop_quiet|apply quiet_ret].
Qed.

Lemma and_then_quiet fk m1 m2 s :
  quiet fk m1 s -> quiet fk m2 s -> quiet fk (and_then m1 m2) s.
Proof.
  intros H1 H2. unfold and_then. apply quiet_bind; [exact H1|].
  intros [|]; [exact H2|apply quiet_ret].
Qed.

Lemma buf_eq_core_quiet (fa fb : store) al ar bl br s :
  0 <= slen al -> 0 <= slen ar -> 0 <= slen bl -> 0 <= slen br ->
  slen al + slen ar = slen bl + slen br ->
  let ea := sl_elems fa in
  let eb := sl_elems fb in
  quiet FEq
    (match slen al ?= slen bl with
     | Lt =>
       let x := slen al in
       y <- usub (slen bl) x;;
       and_then (s2 <- sl_to bl x;; slice_eq eqf (ea al) (eb s2))
      (and_then (s1 <- sl_to ar y;; s2 <- sl_from bl x;; slice_eq eqf (ea s1) (eb s2))
                (s1 <- sl_from ar y;; slice_eq eqf (ea s1) (eb br)))
     | Gt =>
       let x := slen bl in
       y <- usub (slen al) x;;
       and_then (s1 <- sl_to al x;; slice_eq eqf (ea s1) (eb bl))
      (and_then (s1 <- sl_from al x;; s2 <- sl_to br y;; slice_eq eqf (ea s1) (eb s2))
                (s2 <- sl_from br y;; slice_eq eqf (ea ar) (eb s2)))
     | Eq =>
       dassert (slen al =? slen bl);;
       dassert (slen ar =? slen br);;
       and_then (slice_eq eqf (ea al) (eb bl)) (slice_eq eqf (ea ar) (eb br))
     end) s.
Proof.
  intros Hal Har Hbl Hbr Hsum ea eb. subst ea eb.
  destruct (Z.compare_spec (slen al) (slen bl)) as [He|Hlt|Hgt]; cbv zeta.
  - eapply quiet_bind_det; [intros; apply dassert_ok; lia|].
    eapply quiet_bind_det; [intros; apply dassert_ok; lia|].
    apply and_then_quiet; apply slice_eq_quiet.
  - eapply quiet_bind_det; [intros; apply usub_ok; lia|].
    apply and_then_quiet.
    + eapply quiet_bind_det; [intros; apply sl_to_ok; lia|]. apply slice_eq_quiet.
    + apply and_then_quiet.
      * eapply quiet_bind_det; [intros; apply sl_to_ok; lia|].
        eapply quiet_bind_det; [intros; apply sl_from_ok; lia|]. apply slice_eq_quiet.
      * eapply quiet_bind_det; [intros; apply sl_from_ok; lia|]. apply slice_eq_quiet.
  - eapply quiet_bind_det; [intros; apply usub_ok; lia|].
    apply and_then_quiet.
    + eapply quiet_bind_det; [intros; apply sl_to_ok; lia|]. apply slice_eq_quiet.
    + apply and_then_quiet.
      * eapply quiet_bind_det; [intros; apply sl_from_ok; lia|].
        eapply quiet_bind_det; [intros; apply sl_to_ok; lia|]. apply slice_eq_quiet.
      * eapply quiet_bind_det; [intros; apply sl_from_ok; lia|]. apply slice_eq_quiet.
Qed.

Lemma buf_eq_quiet other s : WF s -> WF other -> quiet FEq (buf_eq eqf other) s.
Proof.
  intros HW HWo. pose proof HW as HW'. wf HW'.
  pose proof (WF_size other HWo) as Hso.
  unfold buf_eq. apply quiet_bind_det with (a := s); [reflexivity|].
  destruct (size s =? size other) eqn:E; cbn [negb]; [|apply quiet_ret].
  eapply quiet_bind_det; [intros; apply as_slices_ok; exact HW|].
  pose proof (as_slices_val_ok s HW) as Hva.
  pose proof (as_slices_val_abs s HW) as Haa.
  destruct (as_slices_val s) as [al ar]. cbn [fst snd] in Haa.
  eapply quiet_bind_det; [intros; apply with_buf_ok; apply as_slices_ok; exact HWo|].
  pose proof (as_slices_val_ok other HWo) as Hvb.
  pose proof (as_slices_val_abs other HWo) as Hab.
  destruct (as_slices_val other) as [bl br]. cbn [fst snd] in Hab.
  unfold sl_ok in Hva, Hvb.
  apply (f_equal (@length elem)) in Haa, Hab.
  rewrite app_length, !sl_elems_length, abs_length in Haa, Hab.
  apply (buf_eq_core_quiet (items s) (items other) al ar bl br s); lia.
Qed.

Lemma buf_eq_slice_quiet xs s : WF s -> quiet FEq (buf_eq_slice eqf xs) s.
Proof.
  intros HW. pose proof HW as HW'. wf HW'.
  unfold buf_eq_slice. apply quiet_bind_det with (a := s); [reflexivity|].
  destruct (size s =? zlen xs) eqn:E; cbn [negb]; [|apply quiet_ret].
  eapply quiet_bind_det; [intros; apply as_slices_ok; exact HW|].
  pose proof (as_slices_val_ok s HW) as Hva.
  pose proof (as_slices_val_abs s HW) as Haa.
  destruct (as_slices_val s) as [al ar]. cbn [fst snd] in Haa.
  unfold sl_ok in Hva.
  apply (f_equal (@length elem)) in Haa.
  rewrite app_length, !sl_elems_length, abs_length in Haa.
  replace (slen al <=? zlen xs) with true by lia.
  apply quiet_bind_det with (a := tt); [reflexivity|].
  eapply quiet_bind_det; [intros; apply dassert_ok; rewrite zlen_firstn; lia|].
  eapply quiet_bind_det; [intros; apply dassert_ok; rewrite zlen_skipn; lia|].
  apply and_then_quiet; apply slice_eq_quiet.
Qed.

End EqF.

Theorem eq_fault other : fault_safe (OEq other) FEq.
Proof.
  apply quiet_fault_safe; [reflexivity|intros r; reflexivity|].
  intros s HW Ho. cbn [op_ok] in Ho. cbn [exec].
  apply quiet_map. apply buf_eq_quiet; assumption.
Qed.

Theorem eq_slice_fault form xs : fault_safe (OEqSlice form xs) FEq.
Proof.
  apply quiet_fault_safe; [reflexivity|intros r; reflexivity|].
  intros s HW Ho. cbn [exec].
  assert (Hform : eq_form form = buf_eq_slice) by (destruct form; reflexivity).
  rewrite Hform. apply quiet_map. apply buf_eq_slice_quiet. exact HW.
Qed.

(* ================================================================== *)
(* PartialOrd / Ord                                                    *)

Section OrdF.
Variable cmpf : elem -> elem -> option comparison.

Lemma iter_cmp_loop_quiet a b s :
  forall fuel ia ib, (length (it_slots ia) < fuel)%nat ->
    quiet FCmp (iter_cmp_loop cmpf fuel a b ia ib) s.
Proof.
  induction fuel as [|fuel IH]; intros ia ib Hl; [lia|].
  cbn [iter_cmp_loop].
  pose proof (iter_next_spec ia) as Ha. pose proof (iter_next_spec ib) as Hb.
  destruct (it_slots ia) as [|p ps] eqn:Ea.
  - destruct Ha as (ia' & ->).
    destruct (it_slots ib) as [|q qs] eqn:Eb.
    + destruct Hb as (ib' & ->). apply quiet_ret.
    + destruct Hb as (ib' & -> & _). apply quiet_ret.
  - destruct Ha as (ia' & -> & Ea').
    destruct (it_slots ib) as [|q qs] eqn:Eb.
    + destruct Hb as (ib' & ->). apply quiet_ret.
    + destruct Hb as (ib' & -> & Eb').
      cbv zeta.
      apply quiet_bind; [apply quiet_emit; split; reflexivity|]. intros _.
      apply quiet_bind; [apply quiet_user_call|]. intros _.
      destruct (cmpf (items a p) (items b q)) as [[| |]|]; try apply quiet_ret.
      apply IH. rewrite Ea'. cbn in Hl. lia.
Qed.

Lemma buf_partial_cmp_quiet other s :
  WF s -> WF other -> quiet FCmp (buf_partial_cmp cmpf other) s.
Proof.
  intros HW HWo. pose proof HW as HW'. wf HW'.
  unfold buf_partial_cmp. apply quiet_bind_det with (a := s); [reflexivity|].
  destruct (iter_new_det s HW) as (ia & Hia & Hla).
  apply quiet_bind_det with (a := ia); [exact Hia|].
  destruct (iter_new_det other HWo) as (ib & Hib & Hlb).
  eapply quiet_bind_det; [intros; apply with_buf_ok; apply Hib|].
  apply iter_cmp_loop_quiet. lia.
Qed.

End OrdF.

Theorem partial_cmp_fault other : fault_safe (OPartialCmp other) FCmp.
Proof.
  apply quiet_fault_safe; [reflexivity|intros r; reflexivity|].
  intros s HW Ho. cbn [op_ok] in Ho. cbn [exec].
  apply quiet_map. apply buf_partial_cmp_quiet; assumption.
Qed.

Theorem cmp_fault other : fault_safe (OCmp other) FCmp.
Proof.
  apply quiet_fault_safe; [reflexivity|intros r; reflexivity|].
  intros s HW Ho. cbn [op_ok] in Ho. destruct Ho as [Ho _]. cbn [exec].
  apply quiet_map. unfold buf_cmp. apply buf_partial_cmp_quiet; assumption.
Qed.

(* ================================================================== *)
(* clear / drop_buf / replace_buf when destructors cannot panic         *)

Theorem drop_range_nd s w a b :
  WF s -> nodrop w -> 0 <= a < b -> b <= size s -> (a = 0 \/ b = size s) ->
  exists s',
    drop_range a b s w =
      (Ok tt, s', wev w (drops (sublist (Z.to_nat a) (Z.to_nat b) (abs s))) (next_id w)) /\
    abs s' = (if b =? size s then firstn (Z.to_nat a) (abs s) else skipn (Z.to_nat b) (abs s)) /\
    WF s' /\ cap s' = cap s.
Proof.
  intros HW Hf Hab Hb Hends. pose proof HW as HW'. wf HW'.
  specialize (Hst ltac:(lia)).
  pose proof (range_slices_elems s a b ltac:(lia) Hst ltac:(lia) Hab Hb) as Hrs.
  unfold range_slices in Hrs.
  pose proof (phys_range s a ltac:(lia)) as Hpa.
  assert (Hdt : 0 <= (start s + b) mod cap s < cap s) by (apply Z.mod_pos_bound; lia).
  unfold drop_range. replace (b <=? a) with false by lia.
  mcbn. do 6 bstep. bstep. bstep. fold (phys s a) in *.
  set (s1 := if b =? size s then b_size s a
             else mkB (cap s) (size s - b) ((start s + b) mod cap s) (items s)).
  assert (Hbody : (if b =? size s then set_size a
                   else set_start ((start s + b) mod cap s);; v <- usub (size s) b;; set_size v)
                    s w = (Ok tt, s1, w)).
  { subst s1. destruct (b =? size s) eqn:Eb; [reflexivity|]. bgo. reflexivity. }
  assert (Hitems : items s1 = items s) by (subst s1; destruct (b =? size s); reflexivity).
  assert (Habs1 : abs s1 = if b =? size s then firstn (Z.to_nat a) (abs s)
                           else skipn (Z.to_nat b) (abs s)).
  { subst s1. destruct (b =? size s) eqn:Eb.
    - apply abs_truncate_back. lia.
    - apply abs_truncate_front; lia. }
  assert (HW1 : WF s1 /\ cap s1 = cap s).
  { subst s1. destruct (b =? size s) eqn:Eb; (split; [apply WF_mk; cbn; lia|reflexivity]). }
  exists s1. split; [|tauto].
  destruct (phys s a <? (start s + b) mod cap s) eqn:Elt; destruct Hrs as (Hel & Hr & Hl).
  - bgo. eapply finally_ok; [exact Hbody|].
    rewrite drop_two_nd by exact Hf. rewrite Hitems.
    rewrite ?Z.add_0_l. rewrite Hel. reflexivity.
  - bgo. eapply finally_ok; [exact Hbody|].
    rewrite drop_two_nd by exact Hf. rewrite Hitems.
    rewrite ?Z.add_0_l, ?Z.sub_0_r. rewrite Hel. reflexivity.
Qed.

Theorem clear_nd s w :
  WF s -> nodrop w -> ev_step clear s w tt [] (drops (abs s)) (next_id w).
Proof.
  intros HW Hf. pose proof HW as HW'. wf HW'. unfold ev_step, clear, truncate_back. mcbn.
  destruct ((cap s =? 0) || (size s <=? 0)) eqn:E.
  - exists s. rewrite (abs_empty s) by lia. cbn [drops map]. rewrite wev_nil. auto.
  - destruct (drop_range_nd s w 0 (size s) HW Hf ltac:(lia) ltac:(lia) ltac:(lia))
      as (s' & Hd & Ha & HW2 & Hc).
    exists s'. rewrite Hd. rewrite Z.eqb_refl in Ha. change (Z.to_nat 0) with 0%nat in *.
    cbn [firstn] in Ha.
    replace (Z.to_nat (size s)) with (length (abs s)) by (rewrite abs_length; reflexivity).
    rewrite sublist_to_end. cbn [skipn]. auto.
Qed.

Lemma replace_buf_nd nb s w :
  WF s -> nodrop w ->
  replace_buf nb s w = (Ok tt, nb, wev w (drops (abs s)) (next_id w)).
Proof.
  intros HW Hf. unfold replace_buf. mcbn.
  destruct (clear_nd s w HW Hf) as (s' & Hd & _).
  erewrite bind_ok by (apply with_buf_ok; exact Hd). reflexivity.
Qed.

Lemma on_unwind_panic {A} (body : M A) (cleanup : M unit) s w p s1 w1 s2 w2 :
  body s w = (Panic p, s1, w1) -> cleanup s1 w1 = (Ok tt, s2, w2) ->
  on_unwind body cleanup s w = (Panic p, s2, w2).
Proof. intros H1 H2. unfold on_unwind. rewrite H1, H2. reflexivity. Qed.

Lemma with_buf_panic {A} (b : cbuf) (m : M A) s w p b' w' :
  m b w = (Panic p, b', w') -> with_buf b m s w = (Panic p, s, w').
Proof. intros H. unfold with_buf. rewrite H. reflexivity. Qed.

(* ================================================================== *)
(* the ledger: from a permutation to the conjuncts of [fault_safe]      *)

Lemma NoDup_app_intro {A} (l1 l2 : list A) :
  NoDup l1 -> NoDup l2 -> (forall x, In x l1 -> ~ In x l2) -> NoDup (l1 ++ l2).
Proof.
  induction l1 as [|a l1 IH]; intros H1 H2 Hd; [exact H2|].
  inversion H1 as [|a' l' Hna Hnd]; subst. cbn. constructor.
  - rewrite in_app_iff. intros [H|H]; [exact (Hna H)|]. apply (Hd a); [left; reflexivity|exact H].
  - apply IH; [exact Hnd|exact H2|]. intros x Hx. apply Hd. right. exact Hx.
Qed.

Definition out_unit {A} (r : outcome A) : outcome out :=
  match r with Ok _ => Ok OutUnit | Panic p => Panic p end.

Lemma exec_unit (m : M unit) s w r s' w' :
  m s w = (r, s', w') -> (m;; ret OutUnit) s w = (out_unit r, s', w').
Proof. intros H. unfold bind. rewrite H. destruct r; reflexivity. Qed.

Lemma okp_unit {A} (r : outcome A) w' : okp r w' -> okp (out_unit r) w'.
Proof. destruct r; exact (fun H => H). Qed.

Lemma safe_fault_safe o fk :
  (forall r, returned o r = []) ->
  (forall s w, WF s -> op_ok s o -> armed fk w ->
     exists r s' w' evs,
       exec o s w = (r, s', w') /\ wrel fk w w' evs /\ okp r w' /\ WF s' /\ cap s' = cap s /\
       Permutation (abs s' ++ dropped_of evs) (abs s ++ given o ++ created_of evs) /\
       NoDup (ids (created_of evs)) /\
       (forall e, In e (created_of evs) -> next_id w <= eid e < next_id w')) ->
  fault_safe o fk.
Proof.
  intros Hr Hq s w k HW Ho Hf Hk Hnd Hlt.
  assert (Ha : armed fk w) by (right; exists k; split; assumption).
  destruct (Hq s w HW Ho Ha)
    as (r & s' & w' & evs & E & (L & D & N & A) & O & HW' & Hc & P & Hcn & Hcr).
  exists r, s', w', evs. rewrite Hr. cbn [app].
  split; [exact E|]. split; [exact L|]. split; [exact D|]. split; [exact N|].
  split; [destruct r; exact O|]. split; [exact A|]. split; [exact HW'|]. split; [exact Hc|].
  assert (Hin : forall e, In e (abs s ++ given o ++ created_of evs) -> eid e < next_id w').
  { intros e He. rewrite app_assoc in He. apply in_app_or in He. destruct He as [He|He].
    - specialize (Hlt e He). lia.
    - specialize (Hcr e He). lia. }
  split.
  { apply (Permutation_NoDup (Permutation_map eid (Permutation_sym P))).
    rewrite app_assoc. unfold ids. rewrite map_app. apply NoDup_app_intro.
    - exact Hnd.
    - exact Hcn.
    - intros x H1 H2. apply in_map_iff in H1. destruct H1 as (e1 & <- & H1).
      apply in_map_iff in H2. destruct H2 as (e2 & E2 & H2).
      specialize (Hlt e1 H1). specialize (Hcr e2 H2). lia. }
  split; [intros e He; exact (Permutation_in e P He)|].
  split.
  { intros e He. apply Hin. apply in_app_or in He. destruct He as [He|He].
    - apply (Permutation_in e P). apply in_or_app. left. exact He.
    - apply in_or_app. right. apply in_or_app. right. exact He. }
  intros _. destruct r; [exact I|].
  intros e He. apply (Permutation_in e (Permutation_sym P)). apply in_or_app. right. exact He.
Qed.

(* ================================================================== *)
(* fill_spare_with / fill_with: the closure panics                      *)

Lemma calls_ids j : forall n e, In e (calls n j) -> n <= eid e < n + Z.of_nat j.
Proof.
  induction j as [|j IH]; intros n e He; [destruct He|].
  cbn [calls] in He. destruct He as [<-|He]; [cbn; lia|].
  specialize (IH (n + 1) e He). lia.
Qed.

Lemma calls_NoDup j : forall n, NoDup (ids (calls n j)).
Proof.
  induction j as [|j IH]; intros n; [constructor|].
  cbn [calls ids map]. constructor; [|apply IH].
  intros H. apply in_map_iff in H. destruct H as (e & E & He).
  pose proof (calls_ids j (n + 1) e He) as Hb. cbn [eid] in E. lia.
Qed.

Lemma dropped_of_calls cs : dropped_of (map EvCall cs) = [].
Proof. induction cs as [|c cs IH]; [reflexivity|exact IH]. Qed.

Lemma created_of_calls cs : created_of (map EvCall cs) = cs.
Proof. induction cs as [|c cs IH]; [reflexivity|]. cbn. f_equal. exact IH. Qed.

Lemma call_closure_armed s w :
  armed FCall w ->
  (exists w', call_closure s w = (Panic PUser, s, w') /\ wrel FCall w w' [] /\
              fault w' = None /\ next_id w' = next_id w) \/
  (exists w', call_closure s w = (Ok (mkE (next_id w) closure_val), s, w') /\
              wrel FCall w w' [EvCall (mkE (next_id w) closure_val)] /\
              next_id w' = next_id w + 1).
Proof.
  intros Ha. destruct (user_call_armed FCall s w Ha) as (r & w1 & E & R & O & N).
  unfold call_closure. destruct r as [[]|p].
  - right. eexists. erewrite bind_ok by exact E.
    cbv beta iota zeta delta [bind fresh_id emit ret]. rewrite N.
    split; [reflexivity|].
    destruct R as (L & D & _ & A). unfold wrel, armed in *.
    cbn [log dbg next_id fault w_log w_next]. rewrite L, app_nil_r.
    repeat split; try lia; assumption.
  - left. destruct O as [-> F]. exists w1. erewrite bind_panic by exact E.
    split; [reflexivity|]. split; [exact R|]. split; [exact F|exact N].
Qed.

Lemma fill_spare_with_loop_armed k : forall fuel s w,
  WF s -> armed FCall w -> cap s - size s = Z.of_nat k -> (k <= fuel)%nat ->
  exists r s' w' j,
    fill_spare_with_loop fuel s w = (r, s', w') /\
    wrel FCall w w' (map EvCall (calls (next_id w) j)) /\ okp r w' /\
    next_id w' = next_id w + Z.of_nat j /\
    abs s' = abs s ++ calls (next_id w) j /\ WF s' /\ cap s' = cap s.
Proof.
  induction k as [|k IH]; intros fuel s w HW Ha Hk Hfuel.
  - exists (Ok tt), s, w, 0%nat. cbn [calls map]. rewrite app_nil_r. cbn [Z.of_nat].
    rewrite Z.add_0_r.
    split.
    { destruct fuel; cbn [fill_spare_with_loop]; mcbn;
        replace (size s <? cap s) with false by lia; reflexivity. }
    split; [apply wrel_refl; exact Ha|]. split; [exact I|]. auto.
  - destruct fuel as [|fuel]; [lia|].
    cbn [fill_spare_with_loop]. mcbn. replace (size s <? cap s) with true by lia.
    destruct (call_closure_armed s w Ha) as [(w1 & E & R & F & N)|(w1 & E & R & N)].
    + exists (Panic PUser), s, w1, 0%nat. erewrite bind_panic by exact E.
      cbn [calls map]. rewrite app_nil_r. cbn [Z.of_nat]. rewrite Z.add_0_r.
      split; [reflexivity|]. split; [exact R|].
      split; [split; [reflexivity|exact F]|]. auto.
    + set (c := mkE (next_id w) closure_val) in *.
      destruct (push_back_room s w1 c HW ltac:(lia)) as (s1 & Hp & Ha1 & HW1 & Hc1 & Hz1).
      destruct (IH fuel s1 w1 HW1 (wrel_armed _ _ _ _ R) ltac:(lia) ltac:(lia))
        as (r & s2 & w2 & j & El & R2 & O2 & N2 & Ha2 & HW2 & Hc2).
      exists r, s2, w2, (S j).
      erewrite bind_ok by exact E. erewrite bind_ok by exact Hp. cbn [drop_opt]. mcbn.
      split; [exact El|].
      cbn [calls map]. fold c. rewrite N in *.
      split; [exact (wrel_trans _ _ _ _ _ _ R R2)|].
      split; [exact O2|]. split; [lia|].
      split; [rewrite Ha2, Ha1, <- app_assoc; reflexivity|].
      split; [exact HW2|congruence].
Qed.

Lemma fill_spare_with_armed s w :
  WF s -> armed FCall w ->
  exists r s' w' j,
    fill_spare_with s w = (r, s', w') /\
    wrel FCall w w' (map EvCall (calls (next_id w) j)) /\ okp r w' /\
    next_id w' = next_id w + Z.of_nat j /\
    abs s' = abs s ++ calls (next_id w) j /\ WF s' /\ cap s' = cap s.
Proof.
  intros HW Ha. pose proof HW as HW'. wf HW'. unfold fill_spare_with. mcbn.
  destruct (cap s =? 0) eqn:E.
  - exists (Ok tt), s, w, 0%nat. cbn [calls map]. rewrite app_nil_r. cbn [Z.of_nat].
    rewrite Z.add_0_r. split; [reflexivity|].
    split; [apply wrel_refl; exact Ha|]. split; [exact I|]. auto.
  - apply (fill_spare_with_loop_armed (Z.to_nat (cap s - size s))); [exact HW|exact Ha|lia|lia].
Qed.

Theorem fill_spare_with_call_fault : fault_safe OFillSpareWith FCall.
Proof.
  apply safe_fault_safe; [intros r; reflexivity|].
  intros s w HW _ Ha.
  destruct (fill_spare_with_armed s w HW Ha) as (r & s' & w' & j & E & R & O & N & Hab & HW' & Hc).
  exists (out_unit r), s', w', (map EvCall (calls (next_id w) j)).
  split; [cbn [exec]; apply exec_unit; exact E|]. split; [exact R|].
  split; [apply okp_unit; exact O|]. split; [exact HW'|]. split; [exact Hc|].
  rewrite dropped_of_calls, created_of_calls, Hab. cbn [given app]. rewrite app_nil_r.
  split; [apply Permutation_refl|]. split; [apply calls_NoDup|].
  intros e He. pose proof (calls_ids _ _ _ He). lia.
Qed.

Theorem fill_with_call_fault : fault_safe OFillWith FCall.
Proof.
  apply safe_fault_safe; [intros r; reflexivity|].
  intros s w HW _ Ha.
  assert (Hnd : nodrop w) by (apply (armed_nodrop FCall); [discriminate|exact Ha]).
  destruct (clear_nd s w HW Hnd) as (s1 & Hcl & Ha1 & HW1 & Hc1).
  set (w1 := wev w (drops (abs s)) (next_id w)) in *.
  assert (Ha' : armed FCall w1) by exact Ha.
  destruct (fill_spare_with_armed s1 w1 HW1 Ha')
    as (r & s' & w' & j & E & R & O & N & Hab & HW' & Hc).
  change (next_id w1) with (next_id w) in *.
  exists (out_unit r), s', w', (drops (abs s) ++ map EvCall (calls (next_id w) j)).
  split.
  { cbn [exec]. apply exec_unit. unfold fill_with. erewrite bind_ok by exact Hcl. exact E. }
  split.
  { eapply wrel_trans; [|exact R]. apply wrel_wev; [exact Ha|lia]. }
  split; [apply okp_unit; exact O|]. split; [exact HW'|]. split; [congruence|].
  rewrite dropped_of_app, created_of_app, dropped_of_drops, created_of_drops.
  rewrite dropped_of_calls, created_of_calls, Hab, Ha1. cbn [given app]. rewrite app_nil_r.
  split; [apply Permutation_app_comm|]. split; [apply calls_NoDup|].
  intros e He. pose proof (calls_ids _ _ _ He). lia.
Qed.

(* ================================================================== *)
(* extend / from_iter: the user iterator panics                         *)

Lemma spec_push_back_perm N l x :
  Permutation (snd (spec_push_back N l x) ++ dropped_of (opt_drop (fst (spec_push_back N l x))))
              (l ++ [x]).
Proof.
  unfold spec_push_back. destruct (zlen (l ++ [x]) <=? N); cbn [fst snd opt_drop dropped_of flat_map].
  - rewrite app_nil_r. apply Permutation_refl.
  - destruct (l ++ [x]) as [|h t]; cbn [hd_error tl opt_drop dropped_of flat_map app].
    + apply Permutation_refl.
    + apply Permutation_sym. apply Permutation_cons_append.
Qed.

Lemma created_of_opt_drop o : created_of (opt_drop o) = [].
Proof. destruct o; reflexivity. Qed.

Lemma push_discard_nd x s w :
  WF s -> nodrop w ->
  ev_step (r <- push_back x;; drop_opt r) s w tt
          (snd (spec_push_back (cap s) (abs s) x))
          (opt_drop (fst (spec_push_back (cap s) (abs s) x))) (next_id w).
Proof.
  intros HW Hf.
  destruct (push_back_refines s w x HW) as (s' & Hm & Ha & HW2 & Hc).
  exists s'. erewrite bind_ok by exact Hm.
  rewrite drop_opt_nd by exact Hf. auto.
Qed.

(* one step of the user iterator that still owns [xs] *)
Lemma next_step_armed xs s w :
  armed FNext w ->
  (exists w', on_unwind (emit EvNext;; user_call FNext) (drop_list xs) s w = (Ok tt, s, w') /\
              wrel FNext w w' [EvNext] /\ next_id w' = next_id w) \/
  (exists w', on_unwind (emit EvNext;; user_call FNext) (drop_list xs) s w = (Panic PUser, s, w') /\
              wrel FNext w w' (EvNext :: drops xs) /\ fault w' = None /\
              next_id w' = next_id w).
Proof.
  intros Ha. set (w0 := wev w [EvNext] (next_id w)).
  assert (R0 : wrel FNext w w0 [EvNext]) by (apply wrel_wev; [exact Ha|lia]).
  destruct (user_call_armed FNext s w0 (wrel_armed _ _ _ _ R0)) as (r & w1 & E & R & O & N).
  assert (Eb : (emit EvNext;; user_call FNext) s w = (r, s, w1)).
  { erewrite bind_ok by apply emit_eq. exact E. }
  pose proof (wrel_trans _ _ _ _ _ _ R0 R) as R1. rewrite app_nil_r in R1.
  destruct r as [[]|p].
  - left. exists w1. split; [apply on_unwind_ok; exact Eb|]. split; [exact R1|exact N].
  - right. destruct O as [-> F].
    exists (wev w1 (drops xs) (next_id w1)). split.
    + eapply on_unwind_panic; [exact Eb|]. apply drop_list_nd. apply none_nodrop. exact F.
    + split.
      * change (EvNext :: drops xs) with ([EvNext] ++ drops xs).
        eapply wrel_trans; [exact R1|]. apply wrel_wev; [left; exact F|lia].
      * split; [exact F|exact N].
Qed.

Lemma extend_loop_armed xs : forall s w,
  WF s -> armed FNext w ->
  exists r s' w' evs,
    extend_loop xs s w = (r, s', w') /\ wrel FNext w w' evs /\ okp r w' /\
    WF s' /\ cap s' = cap s /\ created_of evs = [] /\
    Permutation (abs s' ++ dropped_of evs) (abs s ++ xs).
Proof.
  induction xs as [|x rest IH]; intros s w HW Ha.
  - cbn [extend_loop].
    destruct (next_step_armed [] s w Ha) as [(w1 & E & R & N)|(w1 & E & R & F & N)].
    + exists (Ok tt), s, w1, [EvNext]. erewrite bind_ok by exact E.
      split; [reflexivity|]. split; [exact R|]. split; [exact I|].
      split; [exact HW|]. split; [reflexivity|]. split; [reflexivity|].
      cbn. apply Permutation_refl.
    + exists (Panic PUser), s, w1, (EvNext :: drops []). erewrite bind_panic by exact E.
      split; [reflexivity|]. split; [exact R|]. split; [split; [reflexivity|exact F]|].
      split; [exact HW|]. split; [reflexivity|]. split; [reflexivity|].
      cbn. apply Permutation_refl.
  - cbn [extend_loop].
    destruct (next_step_armed (x :: rest) s w Ha) as [(w1 & E & R & N)|(w1 & E & R & F & N)].
    + erewrite bind_ok by exact E.
      pose proof (wrel_armed _ _ _ _ R) as Ha1.
      assert (Hnd1 : nodrop w1) by (apply (armed_nodrop FNext); [discriminate|exact Ha1]).
      destruct (push_discard_nd x s w1 HW Hnd1) as (s1 & Hp & Hab1 & HW1 & Hc1).
      set (od := opt_drop (fst (spec_push_back (cap s) (abs s) x))) in *.
      set (w2 := wev w1 od (next_id w1)) in *.
      assert (R2 : wrel FNext w1 w2 od) by (apply wrel_wev; [exact Ha1|lia]).
      destruct (IH s1 w2 HW1 (wrel_armed _ _ _ _ R2))
        as (r & s2 & w3 & evs & El & R3 & O3 & HW2 & Hc2 & Cr & P).
      exists r, s2, w3, ([EvNext] ++ od ++ evs).
      erewrite bind_ok by (apply on_unwind_ok; exact Hp).
      split; [exact El|].
      split; [eapply wrel_trans; [exact R|]; eapply wrel_trans; [exact R2|exact R3]|].
      split; [exact O3|]. split; [exact HW2|]. split; [congruence|].
      split.
      { rewrite !created_of_app, Cr. subst od. rewrite created_of_opt_drop. reflexivity. }
      rewrite !dropped_of_app. cbn [dropped_of flat_map app].
      pose proof (spec_push_back_perm (cap s) (abs s) x) as Pp. fold od in Pp.
      rewrite <- Hab1 in Pp.
      (* abs s2 ++ D od ++ D evs ~ abs s ++ x :: rest *)
      apply Permutation_trans with (l' := dropped_of od ++ (abs s2 ++ dropped_of evs)).
      { rewrite !app_assoc. apply Permutation_app_tail. apply Permutation_app_comm. }
      apply Permutation_trans with (l' := dropped_of od ++ (abs s1 ++ rest)).
      { apply Permutation_app_head. exact P. }
      rewrite app_assoc.
      change (x :: rest) with ([x] ++ rest). rewrite (app_assoc (abs s)).
      apply Permutation_app_tail.
      apply Permutation_trans with (l' := abs s1 ++ dropped_of od); [apply Permutation_app_comm|exact Pp].
    + exists (Panic PUser), s, w1, (EvNext :: drops (x :: rest)). erewrite bind_panic by exact E.
      split; [reflexivity|]. split; [exact R|]. split; [split; [reflexivity|exact F]|].
      split; [exact HW|]. split; [reflexivity|].
      change (EvNext :: drops (x :: rest)) with ([EvNext] ++ drops (x :: rest)).
      rewrite created_of_app, dropped_of_app, created_of_drops, dropped_of_drops.
      split; [reflexivity|]. cbn [dropped_of flat_map app]. apply Permutation_refl.
Qed.

Theorem extend_next_fault xs : fault_safe (OExtend xs) FNext.
Proof.
  apply safe_fault_safe; [intros r; reflexivity|].
  intros s w HW _ Ha.
  destruct (extend_loop_armed xs s w HW Ha) as (r & s' & w' & evs & E & R & O & HW' & Hc & Cr & P).
  exists (out_unit r), s', w', evs.
  split; [cbn [exec]; apply exec_unit; exact E|]. split; [exact R|].
  split; [apply okp_unit; exact O|]. split; [exact HW'|]. split; [exact Hc|].
  rewrite Cr. cbn [given]. rewrite app_nil_r.
  split; [exact P|]. split; [constructor|]. intros e [].
Qed.

Theorem from_iter_next_fault xs : fault_safe (OFromIter xs) FNext.
Proof.
  apply safe_fault_safe; [intros r; reflexivity|].
  intros s w HW _ Ha. pose proof HW as HWs. wf HWs.
  set (b0 := new_buf (cap s) junk0).
  assert (HW0 : WF b0) by (apply WF_new; lia).
  destruct (extend_loop_armed xs b0 w HW0 Ha)
    as (r & b1 & w1 & evs & E & R & O & HW1 & Hc1 & Cr & P).
  rewrite (abs_empty b0) in P by reflexivity. cbn [app] in P.
  pose proof (wrel_armed _ _ _ _ R) as Ha1.
  assert (Hnd1 : nodrop w1) by (apply (armed_nodrop FNext); [discriminate|exact Ha1]).
  cbn [exec]. mcbn. unfold from_iter. fold b0.
  destruct r as [[]|p].
  - (* the iterator is exhausted: the old buffer is replaced and destroyed *)
    exists (Ok OutUnit), b1, (wev w1 (drops (abs s)) (next_id w1)), (evs ++ drops (abs s)).
    split.
    { rewrite bind_assoc.
      erewrite bind_ok by (apply with_buf_ok; apply on_unwind_ok; exact E).
      mcbn. erewrite bind_ok by (apply replace_buf_nd; [exact HW|exact Hnd1]).
      reflexivity. }
    split; [eapply wrel_trans; [exact R|]; apply wrel_wev; [exact Ha1|lia]|].
    split; [exact I|]. split; [exact HW1|]. split; [exact Hc1|].
    rewrite dropped_of_app, created_of_app, dropped_of_drops, created_of_drops, Cr.
    cbn [given app]. rewrite app_nil_r.
    split.
    { rewrite app_assoc. apply Permutation_trans with (l' := xs ++ abs s).
      - apply Permutation_app_tail. exact P.
      - apply Permutation_app_comm. }
    split; [constructor|]. intros e [].
  - (* the iterator panics: the partial buffer is destroyed, [self] untouched *)
    destruct O as [-> F].
    destruct (clear_nd b1 w1 HW1 Hnd1) as (b2 & Hcl & _).
    exists (Panic PUser), s, (wev w1 (drops (abs b1)) (next_id w1)), (evs ++ drops (abs b1)).
    split.
    { rewrite bind_assoc.
      erewrite bind_panic; [reflexivity|].
      eapply with_buf_panic. eapply on_unwind_panic; [exact E|exact Hcl]. }
    split; [eapply wrel_trans; [exact R|]; apply wrel_wev; [exact Ha1|lia]|].
    split; [split; [reflexivity|exact F]|]. split; [exact HW|]. split; [reflexivity|].
    rewrite dropped_of_app, created_of_app, dropped_of_drops, created_of_drops, Cr.
    cbn [given app]. rewrite app_nil_r.
    split.
    { apply Permutation_app_head.
      apply Permutation_trans with (l' := abs b1 ++ dropped_of evs); [apply Permutation_app_comm|exact P]. }
    split; [constructor|]. intros e [].
Qed.
