(* FillExtend.v — the loops that push many elements: fill_spare_with,
   fill_with, fill_spare, fill, extend (user iterator), extend (&T, Copy),
   from_iter. Function-level results first, then the operation-level
   theorems in the form of RefDefs.v. *)

From CB Require Import Spec.
From CBP Require Import MonadLemmas Arith AbsLemmas ListLemmas AbsOps Core Step PushPop
     Slices Truncate RefDefs RefTruncate.
From Coq Require Import ZifyBool.
Ltac Zify.zify_post_hook ::= Z.div_mod_to_equations.

(* ---- one push_back, then the evicted element (if any) is destroyed ------------ *)

(* on a buffer with room nothing is evicted *)
Lemma push_back_room s w x :
  WF s -> size s < cap s ->
  exists s', push_back x s w = (Ok None, s', w) /\ abs s' = abs s ++ [x] /\
             WF s' /\ cap s' = cap s /\ size s' = size s + 1.
Proof.
  intros HW Hlt. pose proof HW as HW'. wf HW'.
  destruct (push_back_refines s w x HW) as (s' & Hm & Ha & HW2 & Hc).
  rewrite spec_push_back_cases in Hm, Ha by (rewrite ?abs_zlen; lia).
  rewrite abs_zlen in Hm, Ha by lia.
  replace (size s <? cap s) with true in Hm, Ha by lia.
  cbn [fst snd] in Hm, Ha.
  exists s'. split; [exact Hm|]. split; [exact Ha|]. split; [exact HW2|]. split; [exact Hc|].
  pose proof (f_equal (@zlen elem) Ha) as Hl. rewrite zlen_app in Hl.
  pose proof HW2 as HW2'. wf HW2'.
  rewrite !abs_zlen in Hl by lia. change (zlen [x]) with 1 in Hl. exact Hl.
Qed.

(* self.push_back(x); with the returned Option<T> dropped at the semicolon *)
Lemma push_discard_ok x s w :
  WF s -> fault w = None ->
  ev_step (r <- push_back x;; drop_opt r) s w tt
          (snd (spec_push_back (cap s) (abs s) x))
          (opt_drop (fst (spec_push_back (cap s) (abs s) x))) (next_id w).
Proof.
  intros HW Hf.
  destruct (push_back_refines s w x HW) as (s' & Hm & Ha & HW2 & Hc).
  exists s'. erewrite bind_ok by exact Hm.
  rewrite drop_opt_nofault by exact Hf. auto.
Qed.

(* ---- fill_spare_with / fill_with ------------------------------------------------ *)

Lemma fill_spare_with_loop_ok k : forall fuel s w,
  WF s -> fault w = None -> cap s - size s = Z.of_nat k -> (k <= fuel)%nat ->
  ev_step (fill_spare_with_loop fuel) s w tt
          (abs s ++ calls (next_id w) k)
          (map EvCall (calls (next_id w) k)) (next_id w + Z.of_nat k).
Proof.
  induction k as [|k IH]; intros fuel s w HW Hf Hk Hfuel.
  - exists s. cbn [calls map]. rewrite app_nil_r. cbn [Z.of_nat]. rewrite Z.add_0_r, wev_nil.
    destruct fuel; cbn [fill_spare_with_loop]; mcbn;
      replace (size s <? cap s) with false by lia; auto.
  - destruct fuel as [|fuel]; [lia|].
    destruct (push_back_room s (wev w [EvCall (mkE (next_id w) closure_val)] (next_id w + 1))
                (mkE (next_id w) closure_val) HW ltac:(lia))
      as (s1 & Hp & Ha1 & HW1 & Hc1 & Hz1).
    destruct (IH fuel s1 (wev w [EvCall (mkE (next_id w) closure_val)] (next_id w + 1))
                HW1 Hf ltac:(lia) ltac:(lia)) as (s2 & Hl & Ha2 & HW2 & Hc2).
    exists s2. cbn [fill_spare_with_loop]. mcbn.
    replace (size s <? cap s) with true by lia.
    erewrite bind_ok by (apply call_closure_nofault; exact Hf).
    erewrite bind_ok by exact Hp.
    cbn [drop_opt]. mcbn. rewrite Hl.
    rewrite wev_wev, wev_next. cbn [calls map].
    split; [|split; [|split]].
    + f_equal. f_equal. lia.
    + rewrite Ha2, Ha1, wev_next, <- app_assoc. reflexivity.
    + exact HW2.
    + congruence.
Qed.

Theorem fill_spare_with_ok s w :
  WF s -> fault w = None ->
  let k := Z.to_nat (cap s - size s) in
  ev_step fill_spare_with s w tt (abs s ++ calls (next_id w) k)
          (map EvCall (calls (next_id w) k)) (next_id w + (cap s - size s)).
Proof.
  intros HW Hf k. pose proof HW as HW'. wf HW'. unfold ev_step, fill_spare_with. mcbn.
  destruct (cap s =? 0) eqn:E.
  - exists s. subst k. replace (cap s - size s) with 0 by lia.
    cbn [Z.to_nat calls map]. rewrite app_nil_r, Z.add_0_r, wev_nil. auto.
  - pose proof (fill_spare_with_loop_ok k k s w HW Hf ltac:(lia) ltac:(lia)) as H.
    replace (Z.of_nat k) with (cap s - size s) in H by lia. exact H.
Qed.

Lemma abs_nil_size s : WF s -> abs s = [] -> size s = 0.
Proof.
  intros HW H. wf HW. apply (f_equal (@zlen elem)) in H. rewrite abs_zlen in H by lia. exact H.
Qed.

Theorem fill_with_ok s w :
  WF s -> fault w = None ->
  let k := Z.to_nat (cap s) in
  ev_step fill_with s w tt (calls (next_id w) k)
          (drops (abs s) ++ map EvCall (calls (next_id w) k)) (next_id w + cap s).
Proof.
  intros HW Hf k.
  destruct (clear_ok s w HW Hf) as (s1 & Hc & Ha1 & HW1 & Hc1).
  pose proof (abs_nil_size s1 HW1 Ha1) as Hz1.
  destruct (fill_spare_with_ok s1 (wev w (drops (abs s)) (next_id w)) HW1 Hf)
    as (s2 & Hl & Ha2 & HW2 & Hc2).
  exists s2. unfold fill_with. erewrite bind_ok by exact Hc. rewrite Hl.
  rewrite wev_wev, wev_next, Hc1, Hz1, Z.sub_0_r.
  split; [reflexivity|]. split; [|split; [exact HW2|congruence]].
  rewrite Ha2, Ha1, wev_next, Hc1, Hz1, Z.sub_0_r. reflexivity.
Qed.

(* ---- fill_spare / fill ------------------------------------------------------------ *)

Lemma fill_spare_loop_ok v k : forall fuel s w,
  WF s -> fault w = None -> 0 < cap s -> cap s - size s - 1 = Z.of_nat k -> (k <= fuel)%nat ->
  exists s',
    fill_spare_loop fuel v s w =
      (Ok tt, s', wev w (clone_evs (next_id w) (repeat v k)) (next_id w + Z.of_nat k)) /\
    abs s' = abs s ++ clones (next_id w) (repeat v k) /\
    WF s' /\ cap s' = cap s /\ size s' = cap s - 1.
Proof.
  induction k as [|k IH]; intros fuel s w HW Hf Hc Hk Hfuel.
  - exists s. cbn [repeat clones clone_evs]. rewrite app_nil_r. cbn [Z.of_nat].
    rewrite Z.add_0_r, wev_nil.
    destruct fuel; cbn [fill_spare_loop]; mcbn;
      (erewrite bind_ok by (apply usub_ok; lia)); cbv beta;
      replace (size s <? cap s - 1) with false by lia;
      (split; [reflexivity|]); (split; [reflexivity|]); (split; [exact HW|]); split; lia.
  - destruct fuel as [|fuel]; [lia|].
    set (c := mkE (next_id w) (eval v)).
    set (w1 := wev w [EvClone v c] (next_id w + 1)).
    destruct (push_back_room s w1 c HW ltac:(lia)) as (s1 & Hp & Ha1 & HW1 & Hc1 & Hz1).
    destruct (IH fuel s1 w1 HW1 Hf ltac:(lia) ltac:(lia) ltac:(lia))
      as (s2 & Hl & Ha2 & HW2 & Hc2 & Hz2).
    exists s2. cbn [fill_spare_loop]. mcbn.
    erewrite bind_ok by (apply usub_ok; lia). cbv beta.
    replace (size s <? cap s - 1) with true by lia.
    erewrite bind_ok by (apply clone_elem_nofault; exact Hf).
    fold c. fold w1.
    erewrite bind_ok by exact Hp.
    cbn [drop_opt]. mcbn. rewrite Hl.
    subst w1. rewrite wev_wev, wev_next. cbn [repeat clones clone_evs]. fold c.
    split; [|split; [|split; [|split]]].
    + f_equal. f_equal. lia.
    + rewrite Ha2, Ha1, wev_next, <- app_assoc. reflexivity.
    + exact HW2.
    + congruence.
    + lia.
Qed.

Theorem fill_spare_ok v s w :
  WF s -> fault w = None ->
  let k := Z.to_nat (cap s - size s - 1) in
  ev_step (fill_spare v) s w tt
          (if (cap s =? 0) || (size s =? cap s) then abs s
           else abs s ++ clones (next_id w) (repeat v k) ++ [v])
          (if (cap s =? 0) || (size s =? cap s) then [EvDrop v]
           else clone_evs (next_id w) (repeat v k))
          (if (cap s =? 0) || (size s =? cap s) then next_id w
           else next_id w + (cap s - size s - 1)).
Proof.
  intros HW Hf k. pose proof HW as HW'. wf HW'. unfold ev_step, fill_spare. mcbn.
  destruct ((cap s =? 0) || (size s =? cap s)) eqn:E.
  - exists s. rewrite drop_elem_nofault by exact Hf. auto.
  - destruct (fill_spare_loop_ok v k (Z.to_nat (cap s - size s)) s w HW Hf
                ltac:(lia) ltac:(lia) ltac:(lia)) as (s1 & Hl & Ha1 & HW1 & Hc1 & Hz1).
    erewrite bind_ok by (apply on_unwind_ok; exact Hl).
    match goal with |- context [bind (push_back v) _ s1 ?w1] =>
      destruct (push_back_room s1 w1 v HW1 ltac:(lia)) as (s2 & Hp & Ha2 & HW2 & Hc2 & Hz2)
    end.
    exists s2. erewrite bind_ok by exact Hp. cbn [drop_opt]. unfold ret.
    replace (Z.of_nat k) with (cap s - size s - 1) by lia.
    split; [reflexivity|]. split; [|split; [exact HW2|congruence]].
    rewrite Ha2, Ha1, <- app_assoc. reflexivity.
Qed.

Theorem fill_ok v s w :
  WF s -> fault w = None ->
  let k := Z.to_nat (cap s - 1) in
  ev_step (fill v) s w tt
          (if cap s =? 0 then [] else clones (next_id w) (repeat v k) ++ [v])
          (if cap s =? 0 then [EvDrop v] else drops (abs s) ++ clone_evs (next_id w) (repeat v k))
          (if cap s =? 0 then next_id w else next_id w + (cap s - 1)).
Proof.
  intros HW Hf k. pose proof HW as HW'. wf HW'.
  destruct (clear_ok s w HW Hf) as (s1 & Hc & Ha1 & HW1 & Hc1).
  pose proof (abs_nil_size s1 HW1 Ha1) as Hz1.
  destruct (fill_spare_ok v s1 (wev w (drops (abs s)) (next_id w)) HW1 Hf)
    as (s2 & Hl & Ha2 & HW2 & Hc2).
  exists s2. unfold fill. erewrite bind_ok by (apply on_unwind_ok; exact Hc). rewrite Hl.
  rewrite wev_wev, wev_next, Hc1, Hz1, ?Z.sub_0_r in *.
  replace ((cap s =? 0) || (0 =? cap s)) with (cap s =? 0) in * by lia.
  split; [|split; [|split; [exact HW2|congruence]]].
  - destruct (cap s =? 0) eqn:E; [|reflexivity].
    rewrite (WF_cap0 s HW) by lia. reflexivity.
  - rewrite Ha2, Ha1. reflexivity.
Qed.

(* ---- extend (user iterator) / from_iter / extend (&T) ------------------------------ *)

Lemma spec_extend_cons N l x r :
  spec_extend N l (x :: r) =
    (fst (spec_extend N (snd (spec_push_back N l x)) r),
     EvNext :: opt_drop (fst (spec_push_back N l x)) ++
       snd (spec_extend N (snd (spec_push_back N l x)) r)).
Proof.
  cbn [spec_extend]. destruct (spec_push_back N l x) as [ev l1]. cbn [fst snd].
  destruct (spec_extend N l1 r) as [l2 evs]. reflexivity.
Qed.

(* stepping the user iterator *)
Lemma iter_step_ok xs s w :
  fault w = None ->
  on_unwind (emit EvNext;; user_call FNext) (drop_list xs) s w =
    (Ok tt, s, wev w [EvNext] (next_id w)).
Proof.
  intros Hf. apply on_unwind_ok. erewrite bind_ok by apply emit_eq.
  apply user_call_nofault. exact Hf.
Qed.

Theorem extend_loop_ok xs : forall s w,
  WF s -> fault w = None ->
  ev_step (extend_loop xs) s w tt
          (fst (spec_extend (cap s) (abs s) xs)) (snd (spec_extend (cap s) (abs s) xs))
          (next_id w).
Proof.
  induction xs as [|x r IH]; intros s w HW Hf.
  - exists s. cbn [extend_loop spec_extend fst snd].
    erewrite bind_ok by (apply iter_step_ok; exact Hf). unfold ret. auto.
  - rewrite spec_extend_cons. cbn [fst snd].
    set (w1 := wev w [EvNext] (next_id w)).
    destruct (push_discard_ok x s w1 HW Hf) as (s1 & Hp & Ha1 & HW1 & Hc1).
    set (w2 := wev w1 (opt_drop (fst (spec_push_back (cap s) (abs s) x))) (next_id w1)) in *.
    destruct (IH s1 w2 HW1 Hf) as (s2 & Hl & Ha2 & HW2 & Hc2).
    exists s2. cbn [extend_loop].
    erewrite bind_ok by (apply iter_step_ok; exact Hf). fold w1.
    erewrite bind_ok by (apply on_unwind_ok; exact Hp).
    rewrite Hl. rewrite Hc1, Ha1 in *.
    subst w2 w1. rewrite !wev_wev, !wev_next.
    split; [reflexivity|]. split; [exact Ha2|]. split; [exact HW2|congruence].
Qed.

Theorem extend_ok xs s w :
  WF s -> fault w = None ->
  ev_step (extend xs) s w tt
          (fst (spec_extend (cap s) (abs s) xs)) (snd (spec_extend (cap s) (abs s) xs))
          (next_id w).
Proof. apply extend_loop_ok. Qed.

(* the result is a new buffer; [self] and its contents are not touched *)
Theorem from_iter_ok n xs s w :
  0 <= n < W -> fault w = None ->
  exists b,
    from_iter n junk0 xs s w = (Ok b, s, wev w (snd (spec_extend n [] xs)) (next_id w)) /\
    abs b = fst (spec_extend n [] xs) /\ WF b /\ cap b = n.
Proof.
  intros Hn Hf.
  destruct (extend_loop_ok xs (new_buf n junk0) w (WF_new n junk0 Hn) Hf)
    as (b & Hl & Ha & HWb & Hcb).
  rewrite (abs_empty (new_buf n junk0)) in * by reflexivity.
  change (cap (new_buf n junk0)) with n in *.
  exists b. unfold from_iter.
  erewrite bind_ok by (apply with_buf_ok; apply on_unwind_ok; exact Hl).
  unfold ret. auto.
Qed.

Theorem extend_ref_ok xs : forall s w,
  WF s -> pure_step (extend_ref xs) s w tt (spec_extend_ref (cap s) (abs s) xs).
Proof.
  induction xs as [|x r IH]; intros s w HW.
  - exists s. cbn [extend_ref spec_extend_ref]. unfold ret. auto.
  - destruct (push_back_refines s w x HW) as (s1 & Hp & Ha1 & HW1 & Hc1).
    destruct (IH s1 w HW1) as (s2 & Hl & Ha2 & HW2 & Hc2).
    exists s2. cbn [extend_ref spec_extend_ref].
    erewrite bind_ok by exact Hp. rewrite Hl. rewrite Hc1, Ha1 in *.
    split; [reflexivity|]. split; [exact Ha2|]. split; [exact HW2|congruence].
Qed.

(* ---- operation level ------------------------------------------------------------------ *)

Theorem fill_spare_with_op : refines_op OFillSpareWith.
Proof.
  intros s w HW Hf _. pose proof HW as HW'. wf HW'.
  eapply refines_ev with (m := fill_spare_with) (f := fun _ => OutUnit) (v := tt);
    [reflexivity| |exact (fill_spare_with_ok s w HW Hf)|reflexivity].
  cbn [spec_step]. rewrite abs_zlen by lia. unfold nat_of.
  destruct (cap s =? 0) eqn:E; [|reflexivity].
  replace (cap s - size s) with 0 by lia.
  cbn [Z.to_nat calls map]. rewrite app_nil_r, Z.add_0_r. reflexivity.
Qed.

Theorem fill_with_op : refines_op OFillWith.
Proof.
  intros s w HW Hf _. pose proof HW as HW'. wf HW'.
  eapply refines_ev with (m := fill_with) (f := fun _ => OutUnit) (v := tt);
    [reflexivity| |exact (fill_with_ok s w HW Hf)|reflexivity].
  cbn [spec_step]. unfold nat_of.
  destruct (cap s =? 0) eqn:E; [|reflexivity].
  replace (cap s) with 0 by lia. rewrite (WF_cap0 s HW) by lia.
  cbn [Z.to_nat calls map drops app]. rewrite Z.add_0_r. reflexivity.
Qed.

Theorem fill_spare_op v : refines_op (OFillSpare v).
Proof.
  intros s w HW Hf _. pose proof HW as HW'. wf HW'.
  eapply refines_ev with (m := fill_spare v) (f := fun _ => OutUnit) (v := tt);
    [reflexivity| |exact (fill_spare_ok v s w HW Hf)|reflexivity].
  cbn [spec_step]. rewrite abs_zlen by lia. unfold nat_of.
  destruct ((cap s =? 0) || (size s =? cap s)) eqn:E; reflexivity.
Qed.

Theorem fill_op v : refines_op (OFill v).
Proof.
  intros s w HW Hf _. pose proof HW as HW'. wf HW'.
  eapply refines_ev with (m := fill v) (f := fun _ => OutUnit) (v := tt);
    [reflexivity| |exact (fill_ok v s w HW Hf)|reflexivity].
  cbn [spec_step]. unfold nat_of.
  destruct (cap s =? 0) eqn:E; reflexivity.
Qed.

Theorem extend_op xs : refines_op (OExtend xs).
Proof.
  intros s w HW Hf _.
  eapply refines_ev with (m := extend xs) (f := fun _ => OutUnit) (v := tt);
    [reflexivity| |exact (extend_ok xs s w HW Hf)|reflexivity].
  cbn [spec_step]. destruct (spec_extend (cap s) (abs s) xs) as [l' evs]. reflexivity.
Qed.

Theorem extend_ref_op xs : refines_op (OExtendRef xs).
Proof.
  intros s w HW Hf _.
  eapply refines_pure with (m := extend_ref xs) (f := fun _ => OutUnit) (v := tt);
    [reflexivity|reflexivity|exact (extend_ref_ok xs s w HW)|reflexivity].
Qed.

Theorem from_iter_op xs : refines_op (OFromIter xs).
Proof.
  intros s w HW Hf _. pose proof HW as HW'. wf HW'.
  destruct (from_iter_ok (cap s) xs s w Hcap Hf) as (b & Hb & Ha & HWb & Hcb).
  unfold refines_at. cbn [spec_step exec].
  destruct (spec_extend (cap s) [] xs) as [l' evs] eqn:Es. cbn [fst snd] in *.
  exists OutUnit, b. mcbn.
  erewrite bind_ok by exact Hb.
  erewrite bind_ok by (apply replace_buf_ok; [exact HW|exact Hf]).
  cbn [sr_evs sr_nid sr_out sr_list]. unfold ret. rewrite wev_wev, wev_next.
  split; [reflexivity|]. split; [reflexivity|]. auto.
Qed.
