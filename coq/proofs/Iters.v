(* Iters.v — operation-level refinement for the iterators: iter, range,
   iter_mut, range_mut (a pair of views consumed from both ends, with writes
   through the yielded references) and into_iter (pop_front / pop_back on the
   moved buffer, then its destructor). *)

From CB Require Import Spec.
From CBP Require Import MonadLemmas Arith AbsLemmas ListLemmas AbsOps Core Step PushPop Slices
     RefDefs Truncate RefTruncate Views DrainP.
From Coq Require Import ZifyBool.
Ltac Zify.zify_post_hook ::= Z.div_mod_to_equations.

Ltac blem_user ::=
  first [ apply add_mod_ok; mcbn; lia | apply sub_mod_ok; mcbn; lia ].

(* ---- the invariant: the iterator stands for the window [lo, hi) ------------- *)

(* the slots of the right view, then those of the left view, are the slots of
   the logical positions lo, lo + 1, ..., hi - 1 *)
Definition inv (s : cbuf) (it : iter) (lo hi : Z) : Prop :=
  0 <= slen (it_right it) /\ 0 <= slen (it_left it) /\
  slen (it_right it) + slen (it_left it) = hi - lo /\
  (forall i, 0 <= i < slen (it_right it) -> soff (it_right it) + i = phys s (lo + i)) /\
  (forall i, 0 <= i < slen (it_left it) ->
     soff (it_left it) + i = phys s (lo + slen (it_right it) + i)).

Ltac inv_split :=
  split; [lia|split; [lia|split; [lia|split; intros i Hi]]].

Lemma inv_same s s' it lo hi :
  cap s' = cap s -> start s' = start s -> inv s it lo hi -> inv s' it lo hi.
Proof.
  intros Hc Hs (H1 & H2 & H3 & Hr & Hl). unfold inv, phys in *. rewrite Hc, Hs.
  repeat split; auto.
Qed.

Lemma inv_empty s lo : inv s iter_empty lo lo.
Proof. unfold inv. cbn. repeat split; try lia; intros; lia. Qed.

Lemma inv_clone s it lo hi : inv s it lo hi -> inv s (iter_clone it) lo hi.
Proof. destruct it. exact (fun H => H). Qed.

Lemma iter_next_some s it lo hi :
  inv s it lo hi -> lo < hi ->
  exists it', iter_next it = (it', Some (phys s lo)) /\ inv s it' (lo + 1) hi.
Proof.
  destruct it as [[ro rl] [lo_ ll]]. unfold inv, iter_next, slice_take_first.
  cbn [it_right it_left soff slen]. intros (H1 & H2 & H3 & Hr & Hl) Hlt.
  destruct (0 <? rl) eqn:E.
  - eexists. split.
    + rewrite <- (Z.add_0_r lo), <- Hr by lia. rewrite Z.add_0_r. reflexivity.
    + cbn [it_right it_left soff slen]. inv_split.
      * replace (lo + 1 + i) with (lo + (i + 1)) by lia.
        rewrite <- Hr by lia. lia.
      * replace (lo + 1 + (rl - 1) + i) with (lo + rl + i) by lia.
        apply Hl. lia.
  - destruct (0 <? ll) eqn:E2; [|exfalso; lia].
    eexists. split.
    + replace lo with (lo + rl + 0) at 1 by lia. rewrite <- Hl by lia.
      rewrite Z.add_0_r. reflexivity.
    + cbn [it_right it_left soff slen]. inv_split.
      * lia.
      * replace (lo + 1 + rl + i) with (lo + rl + (i + 1)) by lia.
        rewrite <- Hl by lia. lia.
Qed.

Lemma iter_next_none s it lo hi :
  inv s it lo hi -> hi <= lo -> iter_next it = (it, None).
Proof.
  destruct it as [[ro rl] [lo_ ll]]. unfold inv, iter_next, slice_take_first.
  cbn [it_right it_left soff slen]. intros (H1 & H2 & H3 & Hr & Hl) Hge.
  replace (0 <? rl) with false by lia. replace (0 <? ll) with false by lia. reflexivity.
Qed.

Lemma iter_next_back_some s it lo hi :
  inv s it lo hi -> lo < hi ->
  exists it', iter_next_back it = (it', Some (phys s (hi - 1))) /\ inv s it' lo (hi - 1).
Proof.
  destruct it as [[ro rl] [lo_ ll]]. unfold inv, iter_next_back, slice_take_last.
  cbn [it_right it_left soff slen]. intros (H1 & H2 & H3 & Hr & Hl) Hlt.
  destruct (0 <? ll) eqn:E.
  - eexists. split.
    + replace (hi - 1) with (lo + rl + (ll - 1)) by lia. rewrite <- Hl by lia.
      replace (lo_ + ll - 1) with (lo_ + (ll - 1)) by lia. reflexivity.
    + cbn [it_right it_left soff slen]. inv_split.
      * apply Hr. lia.
      * apply Hl. lia.
  - destruct (0 <? rl) eqn:E2; [|exfalso; lia].
    eexists. split.
    + replace (hi - 1) with (lo + (rl - 1)) by lia. rewrite <- Hr by lia.
      replace (ro + rl - 1) with (ro + (rl - 1)) by lia. reflexivity.
    + cbn [it_right it_left soff slen]. inv_split.
      * apply Hr. lia.
      * lia.
Qed.

Lemma iter_next_back_none s it lo hi :
  inv s it lo hi -> hi <= lo -> iter_next_back it = (it, None).
Proof.
  destruct it as [[ro rl] [lo_ ll]]. unfold inv, iter_next_back, slice_take_last.
  cbn [it_right it_left soff slen]. intros (H1 & H2 & H3 & Hr & Hl) Hge.
  replace (0 <? rl) with false by lia. replace (0 <? ll) with false by lia. reflexivity.
Qed.

(* IterMut: slice_take_first_mut / slice_take_last_mut leave `&mut []` in a field
   they find empty (core::mem::take), so the exhausted iterator is iter_empty; the
   window it stands for is the same as for Iter *)
Lemma iter_mut_next_some s it lo hi :
  inv s it lo hi -> lo < hi ->
  exists it', iter_mut_next it = (it', Some (phys s lo)) /\ inv s it' (lo + 1) hi.
Proof.
  destruct it as [[ro rl] [lo_ ll]]. unfold inv, iter_mut_next, slice_take_first_mut.
  cbn [it_right it_left soff slen]. intros (H1 & H2 & H3 & Hr & Hl) Hlt.
  destruct (0 <? rl) eqn:E.
  - eexists. split.
    + rewrite <- (Z.add_0_r lo), <- Hr by lia. rewrite Z.add_0_r. reflexivity.
    + cbn [it_right it_left soff slen]. inv_split.
      * replace (lo + 1 + i) with (lo + (i + 1)) by lia.
        rewrite <- Hr by lia. lia.
      * replace (lo + 1 + (rl - 1) + i) with (lo + rl + i) by lia.
        apply Hl. lia.
  - destruct (0 <? ll) eqn:E2; [|exfalso; lia].
    eexists. split.
    + replace lo with (lo + rl + 0) at 1 by lia. rewrite <- Hl by lia.
      rewrite Z.add_0_r. reflexivity.
    + cbn [it_right it_left soff slen empty_slice]. inv_split.
      * lia.
      * replace (lo + 1 + 0 + i) with (lo + rl + (i + 1)) by lia.
        rewrite <- Hl by lia. lia.
Qed.

Lemma iter_mut_next_none s it lo hi :
  inv s it lo hi -> hi <= lo -> iter_mut_next it = (iter_empty, None) /\ inv s iter_empty lo hi.
Proof.
  destruct it as [[ro rl] [lo_ ll]]. unfold inv, iter_mut_next, slice_take_first_mut.
  cbn [it_right it_left soff slen]. intros (H1 & H2 & H3 & Hr & Hl) Hge.
  replace (0 <? rl) with false by lia. replace (0 <? ll) with false by lia.
  split; [reflexivity|]. unfold iter_empty. cbn [it_right it_left soff slen empty_slice].
  inv_split; lia.
Qed.

Lemma iter_mut_next_back_some s it lo hi :
  inv s it lo hi -> lo < hi ->
  exists it', iter_mut_next_back it = (it', Some (phys s (hi - 1))) /\ inv s it' lo (hi - 1).
Proof.
  destruct it as [[ro rl] [lo_ ll]]. unfold inv, iter_mut_next_back, slice_take_last_mut.
  cbn [it_right it_left soff slen]. intros (H1 & H2 & H3 & Hr & Hl) Hlt.
  destruct (0 <? ll) eqn:E.
  - eexists. split.
    + replace (hi - 1) with (lo + rl + (ll - 1)) by lia. rewrite <- Hl by lia.
      replace (lo_ + ll - 1) with (lo_ + (ll - 1)) by lia. reflexivity.
    + cbn [it_right it_left soff slen]. inv_split.
      * apply Hr. lia.
      * apply Hl. lia.
  - destruct (0 <? rl) eqn:E2; [|exfalso; lia].
    eexists. split.
    + replace (hi - 1) with (lo + (rl - 1)) by lia. rewrite <- Hr by lia.
      replace (ro + rl - 1) with (ro + (rl - 1)) by lia. reflexivity.
    + cbn [it_right it_left soff slen empty_slice]. inv_split.
      * apply Hr. lia.
      * lia.
Qed.

Lemma iter_mut_next_back_none s it lo hi :
  inv s it lo hi -> hi <= lo ->
  iter_mut_next_back it = (iter_empty, None) /\ inv s iter_empty lo hi.
Proof.
  destruct it as [[ro rl] [lo_ ll]]. unfold inv, iter_mut_next_back, slice_take_last_mut.
  cbn [it_right it_left soff slen]. intros (H1 & H2 & H3 & Hr & Hl) Hge.
  replace (0 <? rl) with false by lia. replace (0 <? ll) with false by lia.
  split; [reflexivity|]. unfold iter_empty. cbn [it_right it_left soff slen empty_slice].
  inv_split; lia.
Qed.

Lemma iter_len_ok s0 it lo hi s w :
  inv s0 it lo hi -> hi - lo < W -> iter_len it s w = (Ok (hi - lo), s, w).
Proof.
  intros (H1 & H2 & H3 & _) Hw. unfold iter_len. rewrite uadd_ok by lia.
  rewrite H3. reflexivity.
Qed.

(* ---- creation ------------------------------------------------------------------- *)

Lemma inv_as_slices s :
  WF s -> inv s (mkI (fst (as_slices_val s)) (snd (as_slices_val s))) 0 (size s).
Proof.
  intros HW. wf HW. unfold as_slices_val, inv.
  destruct ((cap s =? 0) || (size s =? 0)) eqn:E0.
  - cbn. repeat split; try lia; intros; lia.
  - specialize (Hst ltac:(lia)).
    destruct (start s + size s <? cap s) eqn:E1; cbn [fst snd it_right it_left soff slen empty_slice].
    + inv_split.
      * unfold phys. rewrite Z.mod_small by lia. lia.
      * lia.
    + inv_split.
      * unfold phys. rewrite Z.mod_small by lia. lia.
      * unfold phys. apply Z.mod_unique with (q := 1); lia.
Qed.

Lemma iter_new_ok s w :
  WF s -> exists it, iter_new s w = (Ok it, s, w) /\ inv s it 0 (size s).
Proof.
  intros HW. exists (mkI (fst (as_slices_val s)) (snd (as_slices_val s))). split.
  - unfold iter_new. erewrite bind_ok by (apply as_slices_ok; exact HW).
    destruct (as_slices_val s). reflexivity.
  - apply inv_as_slices. exact HW.
Qed.

Lemma slice_take_front_ok sl k s w :
  0 <= k <= slen sl ->
  slice_take sl BUnb (BExcl k) s w =
    (Ok (mkS (soff sl + k) (slen sl - k), Some (mkS (soff sl) k)), s, w).
Proof.
  intros H. unfold slice_take. replace (slen sl <? k) with false by lia.
  erewrite bind_ok by (apply sl_split_at_ok; lia). reflexivity.
Qed.

Lemma slice_take_back_ok sl k s w :
  0 <= k <= slen sl ->
  slice_take sl (BIncl k) BUnb s w =
    (Ok (mkS (soff sl) k, Some (mkS (soff sl + k) (slen sl - k))), s, w).
Proof.
  intros H. unfold slice_take. replace (slen sl <? k) with false by lia.
  erewrite bind_ok by (apply sl_split_at_ok; lia). reflexivity.
Qed.

Lemma advance_front_by_ok s0 it lo hi k s w :
  inv s0 it lo hi -> 0 <= k <= hi - lo ->
  exists it', advance_front_by it k s w = (Ok it', s, w) /\ inv s0 it' (lo + k) hi.
Proof.
  destruct it as [[ro rl] [lo_ ll]]. unfold inv, advance_front_by.
  cbn [it_right it_left soff slen]. intros (H1 & H2 & H3 & Hr & Hl) Hk.
  destruct (k <? rl) eqn:E.
  - erewrite bind_ok by (apply slice_take_front_ok; cbn [slen]; lia). cbv beta iota.
    eexists. split; [reflexivity|].
    cbn [it_right it_left soff slen]. inv_split.
    + replace (lo + k + i) with (lo + (k + i)) by lia.
      rewrite <- Hr by lia. lia.
    + replace (lo + k + (rl - k) + i) with (lo + rl + i) by lia.
      apply Hl. lia.
  - erewrite bind_ok by (apply usub_ok; lia). cbv beta.
    erewrite bind_ok by (apply dassert_ok; lia). cbv beta.
    erewrite bind_ok by (apply slice_take_front_ok; cbn [slen]; lia). cbv beta iota.
    eexists. split; [reflexivity|].
    cbn [it_right it_left soff slen empty_slice]. inv_split.
    + lia.
    + replace (lo + k + 0 + i) with (lo + rl + (k - rl + i)) by lia.
      rewrite <- Hl by lia. lia.
Qed.

Lemma advance_back_by_ok s0 it lo hi k s w :
  inv s0 it lo hi -> 0 <= k <= hi - lo ->
  exists it', advance_back_by it k s w = (Ok it', s, w) /\ inv s0 it' lo (hi - k).
Proof.
  destruct it as [[ro rl] [lo_ ll]]. unfold inv, advance_back_by.
  cbn [it_right it_left soff slen]. intros (H1 & H2 & H3 & Hr & Hl) Hk.
  destruct (k <? ll) eqn:E.
  - erewrite bind_ok by (apply usub_ok; lia). cbv beta.
    erewrite bind_ok by (apply slice_take_back_ok; cbn [slen]; lia). cbv beta iota.
    eexists. split; [reflexivity|].
    cbn [it_right it_left soff slen]. inv_split.
    + apply Hr. lia.
    + apply Hl. lia.
  - erewrite bind_ok by (apply usub_ok; lia). cbv beta.
    erewrite bind_ok by (apply usub_ok; lia). cbv beta.
    erewrite bind_ok by (apply dassert_ok; lia). cbv beta.
    erewrite bind_ok by (apply slice_take_back_ok; cbn [slen]; lia). cbv beta iota.
    eexists. split; [reflexivity|].
    cbn [it_right it_left soff slen empty_slice]. inv_split.
    + apply Hr. lia.
    + lia.
Qed.

Lemma iter_over_range_ok s w sb eb a b :
  WF s -> translate_range_bounds sb eb s w = (Ok (a, b), s, w) -> 0 <= a <= b -> b <= size s ->
  exists it, iter_over_range sb eb s w = (Ok it, s, w) /\ inv s it a b.
Proof.
  intros HW Ht Hab Hb. unfold iter_over_range.
  erewrite bind_ok by exact Ht. cbv beta iota.
  destruct (b <=? a) eqn:E.
  - exists iter_empty. split; [reflexivity|].
    assert (b = a) as -> by lia. apply inv_empty.
  - destruct (iter_new_ok s w HW) as (it0 & Hn & Hi0).
    destruct (advance_front_by_ok s it0 0 (size s) a s w Hi0 ltac:(lia)) as (it1 & Hf & Hi1).
    destruct (advance_back_by_ok s it1 (0 + a) (size s) (size s - b) s w Hi1 ltac:(lia))
      as (it2 & Hbk & Hi2).
    exists it2. split.
    + unfold len. mcbn.
      erewrite bind_ok by exact Hn. erewrite bind_ok by exact Hf.
      erewrite bind_ok by (apply usub_ok; lia). exact Hbk.
    + replace (0 + a) with a in Hi2 by lia.
      replace (size s - (size s - b)) with b in Hi2 by lia. exact Hi2.
Qed.

Lemma iter_over_range_panic s w sb eb k :
  translate_range_bounds sb eb s w = (Panic k, s, w) ->
  iter_over_range sb eb s w = (Panic k, s, w).
Proof.
  intros H. unfold iter_over_range. erewrite bind_panic by exact H. reflexivity.
Qed.

(* ---- exhausting a clone ------------------------------------------------------------ *)

Lemma iter_exhaust_ok s : forall fuel it lo hi,
  inv s it lo hi -> (Z.to_nat (hi - lo) < fuel)%nat ->
  map erase_pe (iter_exhaust fuel (items s) it) = map epe (lslots s lo (hi - lo)).
Proof.
  induction fuel as [|fuel IH]; intros it lo hi Hi Hf; [exfalso; lia|].
  cbn [iter_exhaust]. destruct (Z_lt_ge_dec lo hi) as [Hlt|Hge].
  - destruct (iter_next_some s it lo hi Hi Hlt) as (it' & Hn & Hi').
    rewrite Hn. unfold lslots.
    replace (Z.to_nat (hi - lo)) with (S (Z.to_nat (hi - (lo + 1)))) by lia.
    rewrite zseq_cons. cbn [map]. f_equal.
    rewrite (IH it' (lo + 1) hi Hi') by lia. reflexivity.
  - rewrite (iter_next_none s it lo hi Hi) by lia. unfold lslots.
    replace (Z.to_nat (hi - lo)) with 0%nat by lia. reflexivity.
Qed.

(* ---- scripts: which ones the specification describes ---------------------------------- *)

(* no write through a yielded reference *)
Lemma no_writes_safe script : no_writes script = true -> clone_safe script = true.
Proof.
  induction script as [|st rest IH]; [reflexivity|].
  destruct st; cbn [no_writes clone_safe]; intros H; try discriminate; auto.
  rewrite H, IH by exact H. reflexivity.
Qed.

Lemma no_clone_safe script : no_clone script = true -> clone_safe script = true.
Proof.
  induction script as [|st rest IH]; [reflexivity|].
  destruct st; cbn [no_clone clone_safe]; intros H; try discriminate; auto.
Qed.

Lemma spec_script_no_writes : forall script l lo hi,
  no_writes script = true -> snd (fst (spec_script l lo hi script)) = l.
Proof.
  induction script as [|st rest IH]; intros l lo hi H; [reflexivity|].
  destruct st; cbn [no_writes] in H; try discriminate; cbn [spec_script].
  - destruct (Nat.ltb lo hi).
    + specialize (IH l (S lo) hi H). destruct (spec_script l (S lo) hi rest) as [[rs l'] wd]. exact IH.
    + specialize (IH l lo hi H). destruct (spec_script l lo hi rest) as [[rs l'] wd]. exact IH.
  - destruct (Nat.ltb lo hi).
    + specialize (IH l lo (hi - 1)%nat H).
      destruct (spec_script l lo (hi - 1) rest) as [[rs l'] wd]. exact IH.
    + specialize (IH l lo hi H). destruct (spec_script l lo hi rest) as [[rs l'] wd]. exact IH.
  - specialize (IH l lo hi H). destruct (spec_script l lo hi rest) as [[rs l'] wd]. exact IH.
  - specialize (IH l lo hi H). destruct (spec_script l lo hi rest) as [[rs l'] wd]. exact IH.
Qed.

(* ---- the script on an Iter / IterMut --------------------------------------------------- *)

Lemma iter_script_ok : forall script s w it lo hi,
  WF s -> inv s it (Z.of_nat lo) (Z.of_nat hi) -> (lo <= hi)%nat -> Z.of_nat hi <= size s ->
  clone_safe script = true ->
  exists rs s' wd,
    run_iter_script it script s w = (Ok rs, s', w) /\
    WF s' /\ cap s' = cap s /\ size s' = size s /\ start s' = start s /\
    spec_script (abs s) lo hi script = (map erase_sres rs, abs s', wd).
Proof.
  induction script as [|st rest IH]; intros s w it lo hi HW Hi Hlh Hhi Hcs.
  - exists [], s, (lo, hi). split; [reflexivity|]. split; [exact HW|]. auto.
  - pose proof HW as HW'. wf HW'.
    destruct st; cbn [clone_safe] in Hcs; cbn [run_iter_script spec_script].
    + (* next *)
      destruct (Nat.ltb_spec lo hi) as [Hlt|Hge].
      * destruct (iter_next_some s it _ _ Hi ltac:(lia)) as (it' & Hn & Hi').
        replace (Z.of_nat lo + 1) with (Z.of_nat (S lo)) in Hi' by lia.
        destruct (IH s w it' (S lo) hi HW Hi' ltac:(lia) Hhi Hcs)
          as (rs & s' & wd & Hr & HW2 & Hc & Hz & Hs & Hsp).
        rewrite Hn. mcbn. erewrite bind_ok by exact Hr.
        eexists _, s', wd. split; [reflexivity|]. repeat (split; [assumption|]).
        rewrite Hsp. rewrite nth_error_zn_nat by (rewrite abs_zlen; lia).
        rewrite zn_abs by lia. reflexivity.
      * destruct (IH s w it lo hi HW Hi Hlh Hhi Hcs)
          as (rs & s' & wd & Hr & HW2 & Hc & Hz & Hs & Hsp).
        rewrite (iter_next_none s it _ _ Hi) by lia. mcbn. erewrite bind_ok by exact Hr.
        eexists _, s', wd. split; [reflexivity|]. repeat (split; [assumption|]).
        rewrite Hsp. reflexivity.
    + (* next_back *)
      destruct (Nat.ltb_spec lo hi) as [Hlt|Hge].
      * destruct (iter_next_back_some s it _ _ Hi ltac:(lia)) as (it' & Hn & Hi').
        replace (Z.of_nat hi - 1) with (Z.of_nat (hi - 1)) in Hi', Hn by lia.
        destruct (IH s w it' lo (hi - 1)%nat HW Hi' ltac:(lia) ltac:(lia) Hcs)
          as (rs & s' & wd & Hr & HW2 & Hc & Hz & Hs & Hsp).
        rewrite Hn. mcbn. erewrite bind_ok by exact Hr.
        eexists _, s', wd. split; [reflexivity|]. repeat (split; [assumption|]).
        rewrite Hsp. rewrite nth_error_zn_nat by (rewrite abs_zlen; lia).
        rewrite zn_abs by lia. reflexivity.
      * destruct (IH s w it lo hi HW Hi Hlh Hhi Hcs)
          as (rs & s' & wd & Hr & HW2 & Hc & Hz & Hs & Hsp).
        rewrite (iter_next_back_none s it _ _ Hi) by lia. mcbn. erewrite bind_ok by exact Hr.
        eexists _, s', wd. split; [reflexivity|]. repeat (split; [assumption|]).
        rewrite Hsp. reflexivity.
    + (* len *)
      destruct (IH s w it lo hi HW Hi Hlh Hhi Hcs)
        as (rs & s' & wd & Hr & HW2 & Hc & Hz & Hs & Hsp).
      erewrite bind_ok by (eapply iter_len_ok; [exact Hi|lia]). cbv beta.
      erewrite bind_ok by exact Hr.
      exists (RLen (Z.of_nat (hi - lo)) :: rs), s', wd.
      split; [replace (Z.of_nat hi - Z.of_nat lo) with (Z.of_nat (hi - lo)) by lia; reflexivity|]. repeat (split; [assumption|]).
      rewrite Hsp. reflexivity.
    + (* clone *)
      apply andb_prop in Hcs. destruct Hcs as (Hnw & Hcs).
      destruct (IH s w it lo hi HW Hi Hlh Hhi Hcs)
        as (rs & s' & wd & Hr & HW2 & Hc & Hz & Hs & Hsp).
      erewrite bind_ok by exact Hr. mcbn.
      pose proof (inv_clone s it _ _ Hi) as Hic.
      erewrite bind_ok by (eapply iter_len_ok; [exact Hic|lia]). cbv beta.
      eexists _, s', wd. split; [reflexivity|]. repeat (split; [assumption|]).
      rewrite Hsp. cbn [map erase_sres].
      pose proof (spec_script_no_writes rest (abs s) lo hi Hnw) as Hsame.
      rewrite Hsp in Hsame. cbn [fst snd] in Hsame.
      rewrite (iter_exhaust_ok s' _ (iter_clone it) (Z.of_nat lo) (Z.of_nat hi))
        by (try lia; eapply inv_same; eauto).
      rewrite lslots_sublist by lia. rewrite Hsame. reflexivity.
    + (* next, write *)
      destruct (Nat.ltb_spec lo hi) as [Hlt|Hge].
      * destruct (iter_mut_next_some s it _ _ Hi ltac:(lia)) as (it' & Hn & Hi').
        replace (Z.of_nat lo + 1) with (Z.of_nat (S lo)) in Hi' by lia.
        specialize (Hst ltac:(lia)).
        set (s1 := b_items s (s_write (items s) (phys s (Z.of_nat lo)) v)).
        assert (HW1 : WF s1) by exact HW.
        destruct (IH s1 w it' (S lo) hi HW1 Hi' ltac:(lia) Hhi Hcs)
          as (rs & s' & wd & Hr & HW2 & Hc & Hz & Hs & Hsp).
        rewrite Hn. mcbn. fold s1. erewrite bind_ok by exact Hr.
        eexists _, s', wd. split; [reflexivity|]. repeat (split; [assumption|]).
        unfold s1 in Hsp. rewrite abs_set in Hsp by lia. rewrite Nat2Z.id in Hsp.
        rewrite Hsp. rewrite nth_error_zn_nat by (rewrite abs_zlen; lia).
        rewrite zn_abs by lia. reflexivity.
      * destruct (iter_mut_next_none s it _ _ Hi ltac:(lia)) as (Hn & Hi').
        destruct (IH s w iter_empty lo hi HW Hi' Hlh Hhi Hcs)
          as (rs & s' & wd & Hr & HW2 & Hc & Hz & Hs & Hsp).
        rewrite Hn. mcbn. erewrite bind_ok by exact Hr.
        eexists _, s', wd. split; [reflexivity|]. repeat (split; [assumption|]).
        rewrite Hsp. reflexivity.
    + (* next_back, write *)
      destruct (Nat.ltb_spec lo hi) as [Hlt|Hge].
      * destruct (iter_mut_next_back_some s it _ _ Hi ltac:(lia)) as (it' & Hn & Hi').
        replace (Z.of_nat hi - 1) with (Z.of_nat (hi - 1)) in Hi', Hn by lia.
        specialize (Hst ltac:(lia)).
        set (s1 := b_items s (s_write (items s) (phys s (Z.of_nat (hi - 1))) v)).
        assert (HW1 : WF s1) by exact HW.
        destruct (IH s1 w it' lo (hi - 1)%nat HW1 Hi' ltac:(lia) ltac:(cbn; lia) Hcs)
          as (rs & s' & wd & Hr & HW2 & Hc & Hz & Hs & Hsp).
        rewrite Hn. mcbn. fold s1. erewrite bind_ok by exact Hr.
        eexists _, s', wd. split; [reflexivity|]. repeat (split; [assumption|]).
        unfold s1 in Hsp. rewrite abs_set in Hsp by lia. rewrite Nat2Z.id in Hsp.
        rewrite Hsp. rewrite nth_error_zn_nat by (rewrite abs_zlen; lia).
        rewrite zn_abs by lia. reflexivity.
      * destruct (iter_mut_next_back_none s it _ _ Hi ltac:(lia)) as (Hn & Hi').
        destruct (IH s w iter_empty lo hi HW Hi' Hlh Hhi Hcs)
          as (rs & s' & wd & Hr & HW2 & Hc & Hz & Hs & Hsp).
        rewrite Hn. mcbn. erewrite bind_ok by exact Hr.
        eexists _, s', wd. split; [reflexivity|]. repeat (split; [assumption|]).
        rewrite Hsp. reflexivity.
Qed.

(* ---- iter / iter_mut -------------------------------------------------------------------- *)

Theorem iter_op_safe script : clone_safe script = true -> refines_op (OIter script).
Proof.
  intros Hcs s w HW Hf _. pose proof HW as HW'. wf HW'.
  unfold refines_at. cbn [spec_step].
  destruct (iter_new_ok s w HW) as (it & Hn & Hi).
  assert (Hlen : Z.of_nat (length (abs s)) = size s) by (rewrite abs_length; lia).
  rewrite <- Hlen in Hi.
  destruct (iter_script_ok script s w it 0%nat (length (abs s)) HW Hi ltac:(lia) ltac:(lia) Hcs)
    as (rs & s' & wd & Hr & HW2 & Hc & Hz & Hs & Hsp).
  rewrite Hsp.
  exists (OutScript rs), s'. cbn [exec].
  erewrite bind_ok by exact Hn. erewrite bind_ok by exact Hr.
  cbn [sr_evs sr_nid sr_out sr_list]. rewrite wev_nil.
  split; [reflexivity|]. split; [reflexivity|]. auto.
Qed.

Theorem iter_mut_op_safe script : clone_safe script = true -> refines_op (OIterMut script).
Proof. exact (iter_op_safe script). Qed.

(* ---- range / range_mut ------------------------------------------------------------------ *)

Theorem range_op_safe sb eb script :
  clone_safe script = true -> refines_op (ORange sb eb script).
Proof.
  intros Hcs s w HW Hf ((Hsb & Heb) & _). pose proof HW as HW'. wf HW'.
  unfold refines_at. cbn [spec_step]. rewrite abs_zlen by lia.
  pose proof (translate_bounds_ok s w sb eb Hsb Heb ltac:(lia)) as Ht.
  destruct (spec_bounds (size s) sb eb) as [[a b]|].
  - destruct Ht as (Ht & Hab & Hbn).
    destruct (iter_over_range_ok s w sb eb a b HW Ht Hab Hbn) as (it & Hn & Hi).
    rewrite <- (Z2Nat.id a), <- (Z2Nat.id b) in Hi by lia.
    destruct (iter_script_ok script s w it (Z.to_nat a) (Z.to_nat b) HW Hi ltac:(lia) ltac:(lia) Hcs)
      as (rs & s' & wd & Hr & HW2 & Hc & Hz & Hs & Hsp).
    unfold nat_of. rewrite Hsp.
    exists (OutScript rs), s'. cbn [exec].
    erewrite bind_ok by exact Hn. erewrite bind_ok by exact Hr.
    cbn [sr_evs sr_nid sr_out sr_list]. rewrite wev_nil.
    split; [reflexivity|]. split; [reflexivity|]. auto.
  - destruct Ht as (k & Ht & Hk). exists k. split; [|exact Hk].
    cbn [exec]. erewrite bind_panic by (apply iter_over_range_panic; exact Ht). reflexivity.
Qed.

Theorem range_mut_op_safe sb eb script :
  clone_safe script = true -> refines_op (ORangeMut sb eb script).
Proof. exact (range_op_safe sb eb script). Qed.

(* the scripts of the harness: Iter cannot write, IterMut cannot be cloned *)

Theorem iter_op_nowrite script : no_writes script = true -> refines_op (OIter script).
Proof. intros H. apply iter_op_safe, no_writes_safe, H. Qed.

Theorem range_op_nowrite sb eb script :
  no_writes script = true -> refines_op (ORange sb eb script).
Proof. intros H. apply range_op_safe, no_writes_safe, H. Qed.

Theorem iter_mut_op_noclone script : no_clone script = true -> refines_op (OIterMut script).
Proof. intros H. apply iter_mut_op_safe, no_clone_safe, H. Qed.

Theorem range_mut_op_noclone sb eb script :
  no_clone script = true -> refines_op (ORangeMut sb eb script).
Proof. intros H. apply range_mut_op_safe, no_clone_safe, H. Qed.

(* ---- into_iter ------------------------------------------------------------------------------ *)

Lemma sublist_nil (l : list elem) lo hi : (hi <= lo)%nat -> sublist lo hi l = [].
Proof. intros H. unfold sublist. replace (hi - lo)%nat with 0%nat by lia. reflexivity. Qed.

Lemma sublist_nonempty (l : list elem) lo hi :
  (lo < hi)%nat -> (hi <= length l)%nat -> sublist lo hi l <> [].
Proof.
  intros H1 H2 E. apply (f_equal (@zlen elem)) in E.
  rewrite zlen_sublist in E by lia. cbn in E. lia.
Qed.

Lemma hd_sublist (l : list elem) lo hi :
  (lo < hi)%nat -> (hi <= length l)%nat -> hd_error (sublist lo hi l) = nth_error l lo.
Proof.
  intros H1 H2. rewrite hd_error_zn by (apply sublist_nonempty; lia).
  rewrite zn_sublist by lia. rewrite nth_error_zn_nat by (unfold zlen; lia).
  do 2 f_equal. lia.
Qed.

Lemma tl_sublist (l : list elem) lo hi :
  (lo < hi)%nat -> (hi <= length l)%nat -> tl (sublist lo hi l) = sublist (S lo) hi l.
Proof.
  intros H1 H2. apply zn_ext.
  - rewrite zlen_tl, !zlen_sublist by lia. lia.
  - intros i Hi. rewrite zlen_tl, zlen_sublist in Hi by lia.
    rewrite zn_tl by lia. rewrite !zn_sublist by lia. f_equal. lia.
Qed.

Lemma last_sublist (l : list elem) lo hi :
  (lo < hi)%nat -> (hi <= length l)%nat ->
  last_error (sublist lo hi l) = nth_error l (hi - 1).
Proof.
  intros H1 H2. rewrite zn_last by (apply sublist_nonempty; lia).
  rewrite zlen_sublist by lia.
  rewrite zn_sublist by lia. rewrite nth_error_zn_nat by (unfold zlen; lia).
  do 2 f_equal. lia.
Qed.

Lemma removelast_sublist (l : list elem) lo hi :
  (lo < hi)%nat -> (hi <= length l)%nat ->
  removelast (sublist lo hi l) = sublist lo (hi - 1) l.
Proof.
  intros H1 H2. apply zn_ext.
  - rewrite zlen_removelast, !zlen_sublist by lia. lia.
  - intros i Hi. rewrite zlen_removelast, zlen_sublist in Hi by lia.
    rewrite zn_removelast by (rewrite zlen_sublist by lia; lia).
    rewrite !zn_sublist by lia. reflexivity.
Qed.

Lemma erase_opt_pe o : option_map erase_pe (opt_pe o) = option_map epe o.
Proof. destruct o; reflexivity. Qed.

(* the moved buffer holds the window [lo, hi) of the original contents l0 *)
Lemma into_iter_script_ok l0 : forall script s w lo hi,
  WF s -> (lo <= hi)%nat -> (hi <= length l0)%nat -> abs s = sublist lo hi l0 ->
  exists rs s' lo' hi',
    run_into_iter_script script s w = (Ok rs, s', w) /\ WF s' /\
    spec_script l0 lo hi (map plain_step script) = (map erase_sres rs, l0, (lo', hi')) /\
    (lo' <= hi')%nat /\ (hi' <= length l0)%nat /\ abs s' = sublist lo' hi' l0.
Proof.
  assert (Hfront : forall rest s w lo hi,
    (forall s w lo hi,
      WF s -> (lo <= hi)%nat -> (hi <= length l0)%nat -> abs s = sublist lo hi l0 ->
      exists rs s' lo' hi',
        run_into_iter_script rest s w = (Ok rs, s', w) /\ WF s' /\
        spec_script l0 lo hi (map plain_step rest) = (map erase_sres rs, l0, (lo', hi')) /\
        (lo' <= hi')%nat /\ (hi' <= length l0)%nat /\ abs s' = sublist lo' hi' l0) ->
    WF s -> (lo <= hi)%nat -> (hi <= length l0)%nat -> abs s = sublist lo hi l0 ->
    exists rs s' lo' hi',
      (o <- into_iter_next;; rs <- run_into_iter_script rest;; ret (RItem (opt_pe o) :: rs)) s w
        = (Ok rs, s', w) /\ WF s' /\
      (if Nat.ltb lo hi then
         let '(rs, l', w) := spec_script l0 (S lo) hi (map plain_step rest) in
         (RItem (option_map epe (nth_error l0 lo)) :: rs, l', w)
       else
         let '(rs, l', w) := spec_script l0 lo hi (map plain_step rest) in
         (RItem None :: rs, l', w)) = (map erase_sres rs, l0, (lo', hi')) /\
      (lo' <= hi')%nat /\ (hi' <= length l0)%nat /\ abs s' = sublist lo' hi' l0).
  { intros rest s w lo hi IH HW Hlh Hhi Ha.
    destruct (pop_front_refines s w HW) as (s1 & Hp & Ha1 & HW1 & _).
    unfold into_iter_next. erewrite bind_ok by exact Hp.
    destruct (Nat.ltb_spec lo hi) as [Hlt|Hge].
    - rewrite Ha, tl_sublist in Ha1 by lia.
      destruct (IH s1 w (S lo) hi HW1 ltac:(lia) Hhi Ha1)
        as (rs & s' & lo' & hi' & Hr & HW2 & Hsp & H1 & H2 & H3).
      erewrite bind_ok by exact Hr.
      eexists _, s', lo', hi'. split; [reflexivity|]. split; [exact HW2|].
      split; [|auto]. rewrite Hsp. cbn [map erase_sres]. rewrite erase_opt_pe.
      rewrite Ha, hd_sublist by lia. reflexivity.
    - rewrite Ha, sublist_nil in Ha1 by lia. cbn [tl] in Ha1.
      rewrite <- (sublist_nil l0 lo hi) in Ha1 by lia.
      destruct (IH s1 w lo hi HW1 Hlh Hhi Ha1)
        as (rs & s' & lo' & hi' & Hr & HW2 & Hsp & H1 & H2 & H3).
      erewrite bind_ok by exact Hr.
      eexists _, s', lo', hi'. split; [reflexivity|]. split; [exact HW2|].
      split; [|auto]. rewrite Hsp. cbn [map erase_sres]. rewrite erase_opt_pe.
      rewrite Ha, sublist_nil by lia. reflexivity. }
  assert (Hback : forall rest s w lo hi,
    (forall s w lo hi,
      WF s -> (lo <= hi)%nat -> (hi <= length l0)%nat -> abs s = sublist lo hi l0 ->
      exists rs s' lo' hi',
        run_into_iter_script rest s w = (Ok rs, s', w) /\ WF s' /\
        spec_script l0 lo hi (map plain_step rest) = (map erase_sres rs, l0, (lo', hi')) /\
        (lo' <= hi')%nat /\ (hi' <= length l0)%nat /\ abs s' = sublist lo' hi' l0) ->
    WF s -> (lo <= hi)%nat -> (hi <= length l0)%nat -> abs s = sublist lo hi l0 ->
    exists rs s' lo' hi',
      (o <- into_iter_next_back;; rs <- run_into_iter_script rest;; ret (RItem (opt_pe o) :: rs)) s w
        = (Ok rs, s', w) /\ WF s' /\
      (if Nat.ltb lo hi then
         let '(rs, l', w) := spec_script l0 lo (hi - 1) (map plain_step rest) in
         (RItem (option_map epe (nth_error l0 (hi - 1))) :: rs, l', w)
       else
         let '(rs, l', w) := spec_script l0 lo hi (map plain_step rest) in
         (RItem None :: rs, l', w)) = (map erase_sres rs, l0, (lo', hi')) /\
      (lo' <= hi')%nat /\ (hi' <= length l0)%nat /\ abs s' = sublist lo' hi' l0).
  { intros rest s w lo hi IH HW Hlh Hhi Ha.
    destruct (pop_back_refines s w HW) as (s1 & Hp & Ha1 & HW1 & _).
    unfold into_iter_next_back. erewrite bind_ok by exact Hp.
    destruct (Nat.ltb_spec lo hi) as [Hlt|Hge].
    - rewrite Ha, removelast_sublist in Ha1 by lia.
      destruct (IH s1 w lo (hi - 1)%nat HW1 ltac:(lia) ltac:(lia) Ha1)
        as (rs & s' & lo' & hi' & Hr & HW2 & Hsp & H1 & H2 & H3).
      erewrite bind_ok by exact Hr.
      eexists _, s', lo', hi'. split; [reflexivity|]. split; [exact HW2|].
      split; [|auto]. rewrite Hsp. cbn [map erase_sres]. rewrite erase_opt_pe.
      rewrite Ha, last_sublist by lia. reflexivity.
    - rewrite Ha, sublist_nil in Ha1 by lia. cbn [removelast] in Ha1.
      rewrite <- (sublist_nil l0 lo hi) in Ha1 by lia.
      destruct (IH s1 w lo hi HW1 Hlh Hhi Ha1)
        as (rs & s' & lo' & hi' & Hr & HW2 & Hsp & H1 & H2 & H3).
      erewrite bind_ok by exact Hr.
      eexists _, s', lo', hi'. split; [reflexivity|]. split; [exact HW2|].
      split; [|auto]. rewrite Hsp. cbn [map erase_sres]. rewrite erase_opt_pe.
      rewrite Ha, sublist_nil by lia. reflexivity. }
  assert (Hlen : forall rest s w lo hi,
    (forall s w lo hi,
      WF s -> (lo <= hi)%nat -> (hi <= length l0)%nat -> abs s = sublist lo hi l0 ->
      exists rs s' lo' hi',
        run_into_iter_script rest s w = (Ok rs, s', w) /\ WF s' /\
        spec_script l0 lo hi (map plain_step rest) = (map erase_sres rs, l0, (lo', hi')) /\
        (lo' <= hi')%nat /\ (hi' <= length l0)%nat /\ abs s' = sublist lo' hi' l0) ->
    WF s -> (lo <= hi)%nat -> (hi <= length l0)%nat -> abs s = sublist lo hi l0 ->
    exists rs s' lo' hi',
      (n <- into_iter_len;; rs <- run_into_iter_script rest;; ret (RLen n :: rs)) s w
        = (Ok rs, s', w) /\ WF s' /\
      (let '(rs, l', w) := spec_script l0 lo hi (map plain_step rest) in
       (RLen (Z.of_nat (hi - lo)) :: rs, l', w)) = (map erase_sres rs, l0, (lo', hi')) /\
      (lo' <= hi')%nat /\ (hi' <= length l0)%nat /\ abs s' = sublist lo' hi' l0).
  { intros rest s w lo hi IH HW Hlh Hhi Ha.
    destruct (IH s w lo hi HW Hlh Hhi Ha)
      as (rs & s' & lo' & hi' & Hr & HW2 & Hsp & H1 & H2 & H3).
    unfold into_iter_len, len. mcbn. erewrite bind_ok by exact Hr.
    eexists _, s', lo', hi'. split; [reflexivity|]. split; [exact HW2|].
    split; [|auto]. rewrite Hsp. cbn [map erase_sres].
    pose proof HW as HW'. wf HW'.
    rewrite <- (abs_zlen s) by lia. rewrite Ha, zlen_sublist by lia. reflexivity. }
  induction script as [|st rest IH]; intros s w lo hi HW Hlh Hhi Ha.
  - exists [], s, lo, hi. cbn [map spec_script run_into_iter_script]. unfold ret. auto 10.
  - destruct st; cbn [map plain_step spec_script run_into_iter_script];
      [ apply Hfront | apply Hback | apply Hlen | apply Hlen | apply Hfront | apply Hback ];
      auto.
Qed.

Theorem into_iter_op script : refines_op (OIntoIter script).
Proof.
  intros s w HW Hf _. pose proof HW as HW'. wf HW'.
  unfold refines_at. cbn [spec_step].
  destruct (into_iter_script_ok (abs s) script s w 0%nat (length (abs s)) HW
              ltac:(lia) ltac:(lia))
    as (rs & s1 & lo' & hi' & Hr & HW1 & Hsp & H1 & H2 & H3).
  { rewrite sublist_from_0. symmetry. apply firstn_all. }
  rewrite Hsp.
  destruct (drop_buf_ok s1 w HW1 Hf) as (s2 & Hd & _).
  exists (OutScript rs), (new_buf (cap s) junk0). cbn [exec]. mcbn.
  erewrite bind_ok.
  2:{ apply with_buf_ok. erewrite bind_ok by exact Hr. unfold into_iter_drop.
      erewrite bind_ok by exact Hd. reflexivity. }
  cbn [sr_evs sr_nid sr_out sr_list]. rewrite H3.
  split; [reflexivity|]. split; [reflexivity|].
  split; [apply abs_empty; reflexivity|]. split; [apply WF_new; lia|reflexivity].
Qed.

(* ---- why the side condition: a write after a clone ---------------------------------------- *)

(* The model exhausts the clone when the script is over and so sees the
   elements written in the meantime; the specification lists the window as it
   was when the clone was taken. One slot holding (0,0); clone, then replace
   the front by (1,1): the model's clone yields (1,1), the specification's (0,0).
   (No Rust program can do this: Iter has no writes, IterMut is not Clone.) *)
Definition cx_s : cbuf := mkB 1 1 0 (fun _ => mkE 0 0).
Definition cx_w : world := mkW false 0 [] None.
Definition cx_script : list sstep := [SClone; SNextSet (mkE 1 1)].

(* the model and the specification differ on this (ill-typed) script *)
Lemma iter_clone_then_write_differs :
  WF cx_s /\ fault cx_w = None /\ clone_safe cx_script = false /\
  ~ refines_at (OIter cx_script) cx_s cx_w.
Proof.
  assert (H1W : 1 < W) by (rewrite W_eq; reflexivity).
  split; [unfold WF, cx_s; cbn; lia|]. split; [reflexivity|]. split; [reflexivity|].
  intros H. unfold refines_at in H.
  set (sp := spec_step _ _ _ _) in H. vm_compute in sp. subst sp. cbv beta iota in H.
  destruct H as (v & s' & He & Ho & _).
  apply (f_equal (fun x => fst (fst x))) in He. vm_compute in He.
  inversion He; subst v. vm_compute in Ho. discriminate Ho.
Qed.

(* ---- the operation-level theorems ([op_ok] demands [clone_safe]) ------------------------------ *)

Theorem iter_op script : refines_op (OIter script).
Proof. intros s w HW Hf Hok. exact (iter_op_safe script Hok s w HW Hf Hok). Qed.

Theorem iter_mut_op script : refines_op (OIterMut script).
Proof. intros s w HW Hf Hok. exact (iter_mut_op_safe script Hok s w HW Hf Hok). Qed.

Theorem range_op sb eb script : refines_op (ORange sb eb script).
Proof. intros s w HW Hf Hok. exact (range_op_safe sb eb script (proj2 Hok) s w HW Hf Hok). Qed.

Theorem range_mut_op sb eb script : refines_op (ORangeMut sb eb script).
Proof. intros s w HW Hf Hok. exact (range_mut_op_safe sb eb script (proj2 Hok) s w HW Hf Hok). Qed.
