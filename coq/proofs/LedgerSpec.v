(* LedgerSpec.v — property C03 (ownership ledger): every element ever given to
   or created by the buffer is, at every moment, in exactly one place: in the
   buffer, with the caller, or destroyed.

   1. list-level definitions: [taken] (caller -> call), [handed] (call ->
      caller), [forgotten] (un-yielded elements of a forgotten Drain, leaked on
      purpose by the caller), [ledger_op];
   2. [spec_conservation]: one multiset equation per operation of [spec_step];
      [spec_fresh]: created elements carry the identities nid, nid+1, ...;
   3. [model_conservation]: the same for one step of the model, from
      [refines_at];
   4. [ledger_history]: the ledger along whole panic-free histories, under the
      section hypothesis that every operation refines the specification;
   5. examples. *)

From CB Require Import Spec.
From CBP Require Import MonadLemmas AbsLemmas ListLemmas Step RefDefs FaultDefs RemoveSwap.
From Coq Require Import Permutation ZifyBool.
Ltac Zify.zify_post_hook ::= Z.div_mod_to_equations.

(* ======================================================================== *)
(* 0. multisets of elements: Permutation goals by counting                   *)

Definition opt_list {A} (o : option A) : list A :=
  match o with Some x => [x] | None => [] end.

Lemma elem_eq_dec (x y : elem) : {x = y} + {x <> y}.
Proof. decide equality; apply Z.eq_dec. Defined.

Notation cnt := (count_occ elem_eq_dec).

Lemma cnt_cons a l x : cnt (a :: l) x = (cnt [a] x + cnt l x)%nat.
Proof. change (a :: l) with ([a] ++ l). apply count_occ_app. Qed.

Lemma cnt_nil x : cnt [] x = 0%nat.
Proof. reflexivity. Qed.

Ltac cnt_cons_step :=
  match goal with
  | |- context [count_occ elem_eq_dec (?a :: ?l) ?x] =>
    lazymatch l with nil => fail | _ => rewrite (cnt_cons a l x) end
  | H : context [count_occ elem_eq_dec (?a :: ?l) ?x] |- _ =>
    lazymatch l with nil => fail | _ => rewrite (cnt_cons a l x) in H end
  end.

Ltac cnt_norm :=
  cbn [opt_list option_map] in *;
  repeat first [ rewrite count_occ_app in * | rewrite cnt_nil in * | cnt_cons_step ].

(* turn every Permutation hypothesis into a counting fact about [x] *)
Ltac perm_hyps x :=
  repeat match goal with
  | H : Permutation _ _ |- _ =>
    let H' := fresh "Hc" in
    pose proof (proj1 (Permutation_count_occ elem_eq_dec _ _) H x) as H'; clear H
  end.

(* decides a Permutation goal on [list elem] built from ++ and :: over atoms,
   using the Permutation hypotheses in the context *)
Ltac perm :=
  apply (Permutation_count_occ elem_eq_dec);
  let x := fresh "x" in intro x; perm_hyps x; cnt_norm; lia.

Ltac inv H := inversion H; subst; clear H.

(* ======================================================================== *)
(* 1. definitions                                                            *)

(* one step of a script on a (mutable) iterator against its result *)
Definition step_taken (st : sstep) (r : sres) : list elem :=
  match st, r with
  | (SNextSet v | SNextBackSet v), RItem (Some _) => [v]
  | _, _ => []
  end.

Definition step_handed (st : sstep) (r : sres) : list elem :=
  match st, r with
  | (SNextSet _ | SNextBackSet _), RItem (Some (_, old)) => [old]
  | _, _ => []
  end.

Fixpoint zipflat {A B C} (f : A -> B -> list C) (xs : list A) (ys : list B) : list C :=
  match xs, ys with
  | x :: xs', y :: ys' => f x y ++ zipflat f xs' ys'
  | _, _ => []
  end.

(* the values written by the successful set-steps / the old values they replaced *)
Definition script_taken (sc : list sstep) (rs : list sres) : list elem := zipflat step_taken sc rs.
Definition script_handed (sc : list sstep) (rs : list sres) : list elem := zipflat step_handed sc rs.

(* elements whose ownership moves from the caller into the call; [l] is the
   contents before, [r] the result (positions are irrelevant) *)
Definition taken (o : op) (l : list elem) (r : out) : list elem :=
  match o with
  | OPushBack e | OPushFront e | OTryPushBack e | OTryPushFront e => [e]
  | OExtend xs | OFromArray xs | OFromIter xs => xs
  | OFill v | OFillSpare v => [v]
  | OGetMutSet _ v | ONthFrontMutSet _ v | ONthBackMutSet _ v
  | OFrontMutSet v | OBackMutSet v | OIndexMutSet _ v =>
    match r with OutRef (Some _) => [v] | _ => [] end
  | OMakeContiguous ws | OAsMutSlicesSet ws =>
    firstn (Nat.min (length l) (length ws)) ws
  | OIter sc | OIterMut sc | ORange _ _ sc | ORangeMut _ _ sc
  | OIterDefault sc | OIterMutDefault sc | ORefIntoIter sc
  | OIterDebug _ _ sc | OIterMutDebug _ _ sc =>
    match r with OutScript rs => script_taken sc rs | _ => [] end
  | _ => []
  end.

(* elements whose ownership moves from the call to the caller *)
Definition handed (o : op) (r : out) : list elem :=
  match o, r with
  | (OPushBack _ | OPushFront _ | OTryPushBack _ | OTryPushFront _
    | OPopBack | OPopFront | ORemove _ | OSwapRemoveBack _ | OSwapRemoveFront _),
    OutOpt (Some e) => [e]
  | (OGetMutSet _ _ | ONthFrontMutSet _ _ | ONthBackMutSet _ _
    | OFrontMutSet _ | OBackMutSet _ | OIndexMutSet _ _),
    OutRef (Some (_, old)) => [old]
  | (OMakeContiguous ws | OAsMutSlicesSet ws), OutSlices a b =>
    firstn (Nat.min (length (a ++ b)) (length ws)) (map snd (a ++ b))
  | (OIter sc | OIterMut sc | ORange _ _ sc | ORangeMut _ _ sc
    | OIterDefault sc | OIterMutDefault sc | ORefIntoIter sc
    | OIterDebug _ _ sc | OIterMutDebug _ _ sc), OutScript rs =>
    script_handed sc rs
  | (ODrain _ _ _ _ | OIntoIter _ | ODrainDebug _ _ _ | OIntoIterDebug _), OutScript rs =>
    sres_items rs
  | OToVec, OutList v => v
  | _, _ => []
  end.

(* mem::forget of a Drain: the buffer is left empty and everything that was
   not yielded (inside AND outside the drained range) is leaked, on purpose,
   by the caller. These elements are never destroyed; the ledger books them
   to the caller. *)
Definition forgotten (o : op) (l : list elem) : list elem :=
  match o with
  | ODrain sb eb sc true =>
    match spec_bounds (zlen l) sb eb with
    | Some (a, b) =>
      let '(_, _, (lo, hi)) := spec_script l (nat_of a) (nat_of b) (map plain_step sc) in
      firstn (nat_of a) l ++ sublist lo hi l ++ skipn (nat_of b) l
    | None => []
    end
  | _ => []
  end.

(* operations on owned elements. extend(&T) and the byte I/O traits move Copy
   data: no ownership, evicted copies vanish without a destructor *)
Definition ledger_op (o : op) : bool :=
  match o with
  | OExtendRef _ | OWrite _ _ | ORead _ _ | OFillBuf _ | OConsume _ _ | OFlush _ => false
  | _ => true
  end.

(* ======================================================================== *)
(* 2a. list lemmas                                                           *)

Lemma skipn_nth_error {A} k (l : list A) :
  skipn k l = opt_list (nth_error l k) ++ skipn (S k) l.
Proof.
  revert l. induction k as [|k IH]; intros [|a l]; try reflexivity.
  cbn [skipn nth_error]. rewrite IH. reflexivity.
Qed.

Lemma split_nth {A} k (l : list A) :
  l = firstn k l ++ opt_list (nth_error l k) ++ skipn (S k) l.
Proof. rewrite <- skipn_nth_error. symmetry. apply firstn_skipn. Qed.

Lemma perm_split k (l : list elem) : Permutation l (firstn k l ++ skipn k l).
Proof. rewrite firstn_skipn. reflexivity. Qed.

Lemma perm_split_nth k (l : list elem) :
  Permutation l (firstn k l ++ opt_list (nth_error l k) ++ skipn (S k) l).
Proof. rewrite <- split_nth. reflexivity. Qed.

Lemma set_nth_nil {A} k (v : A) : set_nth k v [] = [].
Proof. reflexivity. Qed.

Lemma set_nth_0 {A} (v a : A) l : set_nth 0 v (a :: l) = v :: l.
Proof. reflexivity. Qed.

Lemma set_nth_S {A} k (v a : A) l : set_nth (S k) v (a :: l) = a :: set_nth k v l.
Proof.
  unfold set_nth. cbn [length].
  change (Nat.ltb (S k) (S (length l))) with (Nat.ltb k (length l)).
  destruct (Nat.ltb k (length l)); reflexivity.
Qed.

Lemma nth_error_set_nth {A} i (v : A) l j :
  nth_error (set_nth i v l) j =
    if Nat.eqb i j then option_map (fun _ => v) (nth_error l j) else nth_error l j.
Proof.
  revert i j. induction l as [|a l IH]; intros i j.
  - rewrite set_nth_nil. destruct (Nat.eqb i j), j; reflexivity.
  - destruct i as [|i].
    + rewrite set_nth_0. destruct j; reflexivity.
    + rewrite set_nth_S. destruct j as [|j]; [reflexivity|]. cbn [nth_error]. rewrite IH. reflexivity.
Qed.

Lemma perm_set_nth k v (l : list elem) :
  Permutation (set_nth k v l ++ opt_list (nth_error l k))
              (l ++ opt_list (option_map (fun _ => v) (nth_error l k))).
Proof.
  revert k. induction l as [|a l IH]; intros k.
  - rewrite set_nth_nil. destruct k; reflexivity.
  - destruct k as [|k].
    + rewrite set_nth_0. cbn [nth_error option_map opt_list]. perm.
    + rewrite set_nth_S. cbn [nth_error]. specialize (IH k). perm.
Qed.

Lemma perm_swap_nth i j (l : list elem) : Permutation (swap_nth i j l) l.
Proof.
  unfold swap_nth. destruct (nth_error l i) as [x|] eqn:Ei; [|reflexivity].
  destruct (nth_error l j) as [y|] eqn:Ej; [|reflexivity].
  pose proof (perm_set_nth i y l) as H1. rewrite Ei in H1.
  pose proof (perm_set_nth j x (set_nth i y l)) as H2.
  rewrite nth_error_set_nth, Ej in H2.
  assert (E : (if Nat.eqb i j then option_map (fun _ : elem => y) (Some y) else Some y) = Some y)
    by (destruct (Nat.eqb i j); reflexivity).
  rewrite E in H2. cbn [option_map opt_list] in H1, H2. perm.
Qed.

Lemma removelast_last_error {A} (m : list A) : m = removelast m ++ opt_list (last_error m).
Proof.
  destruct m as [|a m] using rev_ind; [reflexivity|].
  rewrite removelast_last. unfold last_error. rewrite rev_unit. reflexivity.
Qed.

Lemma perm_removelast (m : list elem) : Permutation m (removelast m ++ opt_list (last_error m)).
Proof. rewrite <- removelast_last_error. reflexivity. Qed.

Lemma perm_tl (m : list elem) : Permutation m (opt_list (hd_error m) ++ tl m).
Proof. destruct m; reflexivity. Qed.

Lemma last_error_nth {A} (m : list A) : last_error m = nth_error m (length m - 1).
Proof.
  destruct m as [|a m] using rev_ind; [reflexivity|].
  unfold last_error. rewrite rev_unit. rewrite app_length. cbn [length].
  rewrite nth_error_app2 by lia.
  replace (length m + 1 - 1 - length m)%nat with 0%nat by lia. reflexivity.
Qed.

Lemma hd_error_nth {A} (m : list A) : hd_error m = nth_error m 0.
Proof. destruct m; reflexivity. Qed.

Lemma nth_error_rev {A} (l : list A) k :
  (k < length l)%nat -> nth_error (rev l) k = nth_error l (length l - 1 - k).
Proof.
  intros H. destruct l as [|d t] eqn:E; [cbn in H; lia|]. rewrite <- E in *. clear E t.
  rewrite (nth_error_nth' (rev l) d) by (rewrite rev_length; lia).
  rewrite (nth_error_nth' l d) by lia.
  rewrite rev_nth by lia. do 2 f_equal. lia.
Qed.

Lemma idx_cases {A} i (l : list A) : i < zlen l -> (nat_of i < length l)%nat \/ l = [].
Proof.
  intros H. destruct l; [right; reflexivity|left].
  unfold zlen, nat_of in *. cbn [length] in *. lia.
Qed.

Lemma swap_nth_nil {A} i j : swap_nth i j (@nil A) = [].
Proof. unfold swap_nth. destruct i; reflexivity. Qed.

Lemma perm_swap_remove_back k (l : list elem) :
  (k < length l)%nat \/ l = [] ->
  Permutation l (removelast (swap_nth k (length l - 1) l) ++ opt_list (nth_error l k)).
Proof.
  intros [H| ->].
  - rewrite <- (last_error_swap_nth k l H).
    rewrite <- perm_removelast. symmetry. apply perm_swap_nth.
  - rewrite swap_nth_nil. destruct k; reflexivity.
Qed.

Lemma perm_swap_remove_front k (l : list elem) :
  (k < length l)%nat \/ l = [] ->
  Permutation l (tl (swap_nth k 0 l) ++ opt_list (nth_error l k)).
Proof.
  intros [H| ->].
  - rewrite <- (hd_error_swap_nth k l H).
    pose proof (perm_tl (swap_nth k 0 l)) as H1. pose proof (perm_swap_nth k 0 l) as H2. perm.
  - rewrite swap_nth_nil. destruct k; reflexivity.
Qed.

Lemma firstn_add {A} n m (l : list A) : firstn (n + m) l = firstn n l ++ firstn m (skipn n l).
Proof.
  revert l. induction n as [|n IH]; intros l; [reflexivity|].
  destruct l as [|a l]; [rewrite skipn_nil, !firstn_nil; reflexivity|].
  cbn [Nat.add firstn skipn app]. rewrite IH. reflexivity.
Qed.

Lemma skipn_add {A} n m (l : list A) : skipn m (skipn n l) = skipn (n + m) l.
Proof.
  revert l. induction n as [|n IH]; intros l; [reflexivity|].
  destruct l as [|a l]; [rewrite !skipn_nil; reflexivity|].
  cbn [Nat.add skipn]. apply IH.
Qed.

Lemma sublist_split {A} a m b (l : list A) :
  (a <= m <= b)%nat -> sublist a b l = sublist a m l ++ sublist m b l.
Proof.
  intros H. unfold sublist. replace (b - a)%nat with ((m - a) + (b - m))%nat by lia.
  rewrite firstn_add, skipn_add. do 3 f_equal. lia.
Qed.

Lemma sublist_one {A} k (l : list A) : sublist k (S k) l = opt_list (nth_error l k).
Proof.
  unfold sublist. replace (S k - k)%nat with 1%nat by lia.
  rewrite skipn_nth_error. destruct (nth_error l k) eqn:E; [reflexivity|].
  apply nth_error_None in E.
  cbn [opt_list app]. rewrite skipn_all2 by lia. reflexivity.
Qed.

Lemma perm_range a b (l : list elem) :
  (a <= b)%nat -> Permutation l (firstn a l ++ sublist a b l ++ skipn b l).
Proof.
  intros H. unfold sublist.
  rewrite <- (firstn_skipn a l) at 1. apply Permutation_app_head.
  rewrite <- (firstn_skipn (b - a) (skipn a l)) at 1. apply Permutation_app_head.
  rewrite skipn_add. replace (a + (b - a))%nat with b by lia. reflexivity.
Qed.

Lemma sublist_all {A} (l : list A) : sublist 0 (length l) l = l.
Proof. unfold sublist. rewrite Nat.sub_0_r. cbn [skipn]. apply firstn_all. Qed.

Lemma sublist_empty {A} a (l : list A) : sublist a a l = [].
Proof. unfold sublist. rewrite Nat.sub_diag. reflexivity. Qed.

(* ---- events --------------------------------------------------------------- *)

Lemma dropped_of_app a b : dropped_of (a ++ b) = dropped_of a ++ dropped_of b.
Proof. apply flat_map_app. Qed.

Lemma created_of_app a b : created_of (a ++ b) = created_of a ++ created_of b.
Proof. apply flat_map_app. Qed.

Lemma dropped_nil : dropped_of [] = [].
Proof. reflexivity. Qed.

Lemma created_nil : created_of [] = [].
Proof. reflexivity. Qed.

Lemma dropped_cons ev evs :
  dropped_of (ev :: evs) = match ev with EvDrop e => [e] | _ => [] end ++ dropped_of evs.
Proof. reflexivity. Qed.

Lemma created_cons ev evs :
  created_of (ev :: evs) =
    match ev with EvClone _ c => [c] | EvCall c => [c] | _ => [] end ++ created_of evs.
Proof. reflexivity. Qed.

Lemma dropped_drops l : dropped_of (drops l) = l.
Proof. induction l as [|a l IH]; [reflexivity|]. unfold drops. cbn [map]. rewrite dropped_cons. fold (drops l). rewrite IH. reflexivity. Qed.

Lemma created_drops l : created_of (drops l) = [].
Proof. induction l as [|a l IH]; [reflexivity|]. unfold drops. cbn [map]. rewrite created_cons. fold (drops l). rewrite IH. reflexivity. Qed.

Lemma dropped_opt_drop o : dropped_of (opt_drop o) = opt_list o.
Proof. destruct o; reflexivity. Qed.

Lemma created_opt_drop o : created_of (opt_drop o) = [].
Proof. destruct o; reflexivity. Qed.

Lemma dropped_clone_evs nid l : dropped_of (clone_evs nid l) = [].
Proof.
  revert nid. induction l as [|a l IH]; intros nid; [reflexivity|].
  cbn [clone_evs]. rewrite dropped_cons. rewrite IH. reflexivity.
Qed.

Lemma created_clone_evs nid l : created_of (clone_evs nid l) = clones nid l.
Proof.
  revert nid. induction l as [|a l IH]; intros nid; [reflexivity|].
  cbn [clone_evs clones]. rewrite created_cons. rewrite IH. reflexivity.
Qed.

Lemma dropped_calls cs : dropped_of (map EvCall cs) = [].
Proof. induction cs as [|a l IH]; [reflexivity|]. cbn [map]. rewrite dropped_cons, IH. reflexivity. Qed.

Lemma created_calls cs : created_of (map EvCall cs) = cs.
Proof. induction cs as [|a l IH]; [reflexivity|]. cbn [map]. rewrite created_cons, IH. reflexivity. Qed.

Lemma dropped_fmt l : dropped_of (map EvFmt l) = [].
Proof. induction l as [|a l IH]; [reflexivity|]. cbn [map]. rewrite dropped_cons, IH. reflexivity. Qed.

Lemma created_fmt l : created_of (map EvFmt l) = [].
Proof. induction l as [|a l IH]; [reflexivity|]. cbn [map]. rewrite created_cons, IH. reflexivity. Qed.

Lemma dropped_hash l : dropped_of (map EvHash l) = [].
Proof. induction l as [|a l IH]; [reflexivity|]. cbn [map]. rewrite dropped_cons, IH. reflexivity. Qed.

Lemma created_hash l : created_of (map EvHash l) = [].
Proof. induction l as [|a l IH]; [reflexivity|]. cbn [map]. rewrite created_cons, IH. reflexivity. Qed.

(* comparisons neither create nor destroy *)
Definition neutral (evs : list event) : Prop := dropped_of evs = [] /\ created_of evs = [].

Lemma spec_list_eq_neutral f xs : forall ys b evs,
  spec_list_eq f xs ys = (b, evs) -> neutral evs.
Proof.
  induction xs as [|x xs IH]; intros ys b evs H.
  - cbn [spec_list_eq] in H. inv H. split; reflexivity.
  - destruct ys as [|y ys]; cbn [spec_list_eq] in H; [inv H; split; reflexivity|].
    destruct (f x y).
    + destruct (spec_list_eq f xs ys) as [b' evs'] eqn:E. inv H.
      apply IH in E as [E1 E2]. split; [rewrite dropped_cons|rewrite created_cons]; assumption.
    + inv H. split; reflexivity.
Qed.

Lemma spec_eq_neutral f xs ys b evs : spec_eq f xs ys = (b, evs) -> neutral evs.
Proof.
  unfold spec_eq. destruct (zlen xs =? zlen ys).
  - apply spec_list_eq_neutral.
  - intros H. inv H. split; reflexivity.
Qed.

Lemma spec_cmp_neutral f xs : forall ys r evs, spec_cmp f xs ys = (r, evs) -> neutral evs.
Proof.
  induction xs as [|x xs IH]; intros ys r evs H.
  - destruct ys; cbn [spec_cmp] in H; inv H; split; reflexivity.
  - destruct ys as [|y ys]; cbn [spec_cmp] in H; [inv H; split; reflexivity|].
    destruct (f x y) as [[| |]|].
    + destruct (spec_cmp f xs ys) as [r' evs'] eqn:E. inv H.
      apply IH in E as [E1 E2]. split; [rewrite dropped_cons|rewrite created_cons]; assumption.
    + inv H. split; reflexivity.
    + inv H. split; reflexivity.
    + inv H. split; reflexivity.
Qed.

(* ---- push / extend ------------------------------------------------------------ *)

Lemma push_back_perm N l x ev l' :
  spec_push_back N l x = (ev, l') -> Permutation (l ++ [x]) (l' ++ opt_list ev).
Proof.
  unfold spec_push_back. destruct (zlen (l ++ [x]) <=? N); intros H; inv H.
  - cbn [opt_list]. rewrite app_nil_r. reflexivity.
  - pose proof (perm_tl (l ++ [x])) as P. perm.
Qed.

Lemma push_front_perm N l x ev l' :
  spec_push_front N l x = (ev, l') -> Permutation (l ++ [x]) (l' ++ opt_list ev).
Proof.
  unfold spec_push_front.
  assert (Pm : Permutation (x :: l) (l ++ [x])) by perm.
  remember (x :: l) as m eqn:Em. clear Em.
  destruct (zlen m <=? N); intros H; inv H.
  - cbn [opt_list]. perm.
  - pose proof (perm_removelast m) as P. perm.
Qed.

Lemma spec_extend_perm N xs : forall l l' evs,
  spec_extend N l xs = (l', evs) ->
  Permutation (l ++ xs) (l' ++ dropped_of evs) /\ created_of evs = [].
Proof.
  induction xs as [|x xs IH]; intros l l' evs H; cbn [spec_extend] in H.
  - inv H. split; [|reflexivity]. rewrite dropped_cons, dropped_nil. perm.
  - destruct (spec_push_back N l x) as [ev l1] eqn:E1.
    destruct (spec_extend N l1 xs) as [l2 evs2] eqn:E2. inv H.
    apply IH in E2 as [P C]. apply push_back_perm in E1.
    rewrite dropped_cons, created_cons, dropped_of_app, created_of_app,
      dropped_opt_drop, created_opt_drop, C.
    split; [|reflexivity]. perm.
Qed.

(* ---- scripts -------------------------------------------------------------------- *)

Lemma sres_items_some p e rs : sres_items (RItem (Some (p, e)) :: rs) = e :: sres_items rs.
Proof. reflexivity. Qed.
Lemma sres_items_none rs : sres_items (RItem None :: rs) = sres_items rs.
Proof. reflexivity. Qed.
Lemma sres_items_len n rs : sres_items (RLen n :: rs) = sres_items rs.
Proof. reflexivity. Qed.

(* a script on a mutable iterator exchanges the written values for the old ones *)
Lemma spec_script_perm sc : forall l lo hi rs l' w,
  spec_script l lo hi sc = (rs, l', w) ->
  Permutation (l ++ script_taken sc rs) (l' ++ script_handed sc rs).
Proof.
  unfold script_taken, script_handed.
  induction sc as [|st sc IH]; intros l lo hi rs l' w H.
  - cbn [spec_script] in H. inv H. reflexivity.
  - destruct st; cbn [spec_script] in H.
    all: try (destruct (Nat.ltb lo hi)).
    all: match type of H with context [spec_script ?a ?b ?c ?d] =>
           destruct (spec_script a b c d) as [[rs1 l1] w1] eqn:E end.
    all: inv H; apply IH in E; cbn [zipflat step_taken step_handed app].
    all: try exact E.
    all: try (destruct (nth_error l _); exact E).
    + pose proof (perm_set_nth lo v l) as P.
      destruct (nth_error l lo); cbn [option_map epe app]; perm.
    + pose proof (perm_set_nth (hi - 1) v l) as P.
      destruct (nth_error l (hi - 1)); cbn [option_map epe app]; perm.
Qed.

(* a script on a Drain / IntoIter yields exactly the elements that leave the window *)
Lemma plain_script_perm sc : forall l lo hi rs l' lo' hi',
  (lo <= hi <= length l)%nat ->
  spec_script l lo hi (map plain_step sc) = (rs, l', (lo', hi')) ->
  (lo <= lo' /\ lo' <= hi' /\ hi' <= hi)%nat /\
  Permutation (sublist lo hi l) (sres_items rs ++ sublist lo' hi' l).
Proof.
  induction sc as [|st sc IH]; intros l lo hi rs l' lo' hi' R H.
  - cbn [map spec_script] in H. inv H. split; [lia|reflexivity].
  - assert (Hnext : forall rs0,
      spec_script l lo hi (SNext :: map plain_step sc) = (rs0, l', (lo', hi')) ->
      (lo <= lo' /\ lo' <= hi' /\ hi' <= hi)%nat /\
      Permutation (sublist lo hi l) (sres_items rs0 ++ sublist lo' hi' l)).
    { intros rs0 H0. cbn [spec_script] in H0. destruct (Nat.ltb lo hi) eqn:Elt.
      - apply Nat.ltb_lt in Elt.
        destruct (spec_script l (S lo) hi (map plain_step sc)) as [[rs1 l1] [lo1 hi1]] eqn:E.
        inv H0. apply IH in E; [|lia]. destruct E as [R1 P].
        destruct (nth_error l lo) as [e|] eqn:En; [|apply nth_error_None in En; lia].
        cbn [option_map]. unfold epe. rewrite sres_items_some. split; [lia|].
        rewrite (sublist_split lo (S lo) hi) by lia. rewrite sublist_one, En. perm.
      - destruct (spec_script l lo hi (map plain_step sc)) as [[rs1 l1] [lo1 hi1]] eqn:E.
        inv H0. apply IH in E; [|lia]. rewrite sres_items_none. exact E. }
    assert (Hback : forall rs0,
      spec_script l lo hi (SNextBack :: map plain_step sc) = (rs0, l', (lo', hi')) ->
      (lo <= lo' /\ lo' <= hi' /\ hi' <= hi)%nat /\
      Permutation (sublist lo hi l) (sres_items rs0 ++ sublist lo' hi' l)).
    { intros rs0 H0. cbn [spec_script] in H0. destruct (Nat.ltb lo hi) eqn:Elt.
      - apply Nat.ltb_lt in Elt.
        destruct (spec_script l lo (hi - 1) (map plain_step sc)) as [[rs1 l1] [lo1 hi1]] eqn:E.
        inv H0. apply IH in E; [|lia]. destruct E as [R1 P].
        destruct (nth_error l (hi - 1)) as [e|] eqn:En; [|apply nth_error_None in En; lia].
        cbn [option_map]. unfold epe. rewrite sres_items_some. split; [lia|].
        rewrite (sublist_split lo (hi - 1) hi) by lia.
        replace (sublist (hi - 1) hi l) with (sublist (hi - 1) (S (hi - 1)) l)
          by (f_equal; lia).
        rewrite sublist_one, En. perm.
      - destruct (spec_script l lo hi (map plain_step sc)) as [[rs1 l1] [lo1 hi1]] eqn:E.
        inv H0. apply IH in E; [|lia]. rewrite sres_items_none. exact E. }
    assert (Hlen : forall rs0,
      spec_script l lo hi (SLen :: map plain_step sc) = (rs0, l', (lo', hi')) ->
      (lo <= lo' /\ lo' <= hi' /\ hi' <= hi)%nat /\
      Permutation (sublist lo hi l) (sres_items rs0 ++ sublist lo' hi' l)).
    { intros rs0 H0. cbn [spec_script] in H0.
      destruct (spec_script l lo hi (map plain_step sc)) as [[rs1 l1] [lo1 hi1]] eqn:E.
      inv H0. apply IH in E; [|lia]. rewrite sres_items_len. exact E. }
    destruct st; cbn [map plain_step] in H; auto.
Qed.

Lemma spec_bounds_range n sb eb a b : spec_bounds n sb eb = Some (a, b) -> a <= b <= n.
Proof.
  intros H. destruct sb as [x|x|], eb as [y|y|];
    cbv beta iota zeta delta [spec_bounds checked_add] in H;
    repeat match type of H with
           | context [if ?c then _ else _] => destruct c eqn:?; cbv beta iota zeta in H; try discriminate
           end;
    inv H; lia.
Qed.

(* ======================================================================== *)
(* 2b. conservation, operation by operation                                   *)

Definition conserves (o : op) : Prop :=
  forall N l nid r, 0 <= N -> zlen l <= N -> spec_step N l o nid = SRet r ->
  Permutation (l ++ taken o l (sr_out r) ++ created_of (sr_evs r))
              (sr_list r ++ handed o (sr_out r) ++ forgotten o l ++ dropped_of (sr_evs r)).

Ltac evs_simpl :=
  repeat first
    [ rewrite dropped_of_app | rewrite created_of_app
    | rewrite dropped_drops | rewrite created_drops
    | rewrite dropped_clone_evs | rewrite created_clone_evs
    | rewrite dropped_calls | rewrite created_calls
    | rewrite dropped_fmt | rewrite created_fmt
    | rewrite dropped_hash | rewrite created_hash
    | rewrite dropped_cons | rewrite created_cons
    | rewrite dropped_nil | rewrite created_nil ].

Ltac hifs H :=
  repeat match type of H with
         | context [if ?c then _ else _] => destruct c eqn:?; try discriminate H
         end.

Ltac sret H := injection H as H; subst.

Ltac cfin :=
  cbn [sr_out sr_list sr_evs sr_nid taken handed forgotten sref];
  evs_simpl.

Ltac ctriv H := hifs H; sret H; cfin; perm.

Ltac cs := intros N l nid r HN Hl H; cbv beta iota zeta delta [spec_step] in H.

Lemma c_push_back e : conserves (OPushBack e).
Proof.
  cs. destruct (spec_push_back N l e) as [ev l1] eqn:E. sret H. cfin.
  apply push_back_perm in E. destruct ev; perm.
Qed.

Lemma c_push_front e : conserves (OPushFront e).
Proof.
  cs. destruct (spec_push_front N l e) as [ev l1] eqn:E. sret H. cfin.
  apply push_front_perm in E. destruct ev; perm.
Qed.

Lemma c_pop_back : conserves OPopBack.
Proof. cs. sret H. cfin. pose proof (perm_removelast l) as P. destruct (last_error l); perm. Qed.

Lemma c_pop_front : conserves OPopFront.
Proof. cs. sret H. cfin. pose proof (perm_tl l) as P. destruct (hd_error l); perm. Qed.

Lemma c_remove i : conserves (ORemove i).
Proof.
  cs. hifs H; sret H; cfin; [|perm]. unfold remove_nth.
  pose proof (perm_split_nth (nat_of i) l) as P. destruct (nth_error l (nat_of i)); perm.
Qed.

Lemma c_swap i j : conserves (OSwap i j).
Proof. cs. hifs H. sret H. cfin. pose proof (perm_swap_nth (nat_of i) (nat_of j) l). perm. Qed.

Lemma c_swap_remove_back i : conserves (OSwapRemoveBack i).
Proof.
  cs. hifs H; sret H; cfin; [|perm].
  pose proof (perm_swap_remove_back (nat_of i) l (idx_cases i l ltac:(lia))) as P.
  destruct (nth_error l (nat_of i)); perm.
Qed.

Lemma c_swap_remove_front i : conserves (OSwapRemoveFront i).
Proof.
  cs. hifs H; sret H; cfin; [|perm].
  pose proof (perm_swap_remove_front (nat_of i) l (idx_cases i l ltac:(lia))) as P.
  destruct (nth_error l (nat_of i)); perm.
Qed.

Lemma c_truncate_back k : conserves (OTruncateBack k).
Proof. cs. sret H. cfin. pose proof (perm_split (nat_of (Z.min k (zlen l))) l). perm. Qed.

Lemma c_truncate_front k : conserves (OTruncateFront k).
Proof.
  cs. sret H. cfin. unfold lastn.
  pose proof (perm_split (length l - nat_of (Z.min k (zlen l))) l). perm.
Qed.

Lemma c_extend xs : conserves (OExtend xs).
Proof.
  cs. destruct (spec_extend N l xs) as [l1 evs] eqn:E. sret H. cfin.
  apply spec_extend_perm in E as [P C]. rewrite C. perm.
Qed.

Lemma c_extend_from_slice xs : conserves (OExtendFromSlice xs).
Proof.
  cs. destruct (spec_extend_from_slice N l xs nid) as [[l1 evs] nid1] eqn:E. sret H. cfin.
  unfold spec_extend_from_slice in E. destruct (N =? 0).
  - inv E. evs_simpl. perm.
  - injection E as <- <- <-. evs_simpl.
    match goal with |- context [skipn ?d l] => pose proof (perm_split d l) end. perm.
Qed.

Lemma zlen_0_nil {A} (l : list A) : zlen l <= 0 -> l = [].
Proof. destruct l; [reflexivity|]. unfold zlen. cbn [length]. lia. Qed.

Lemma c_fill v : conserves (OFill v).
Proof.
  cs. hifs H; sret H; cfin; [|perm].
  rewrite (zlen_0_nil l) by lia. perm.
Qed.

Lemma c_fill_with : conserves OFillWith.
Proof.
  cs. hifs H; sret H; cfin; [|perm].
  rewrite (zlen_0_nil l) by lia. perm.
Qed.

Lemma c_drain sb eb sc forget : conserves (ODrain sb eb sc forget).
Proof.
  cs. destruct (spec_bounds (zlen l) sb eb) as [[a b]|] eqn:Eb; [|discriminate H].
  destruct (spec_script l (nat_of a) (nat_of b) (map plain_step sc)) as [[rs l'] [lo hi]] eqn:Es.
  apply spec_bounds_range in Eb as Hr.
  assert (Hab : (nat_of a <= nat_of b <= length l)%nat) by (unfold nat_of, zlen in *; lia).
  pose proof (plain_script_perm sc l _ _ _ _ _ _ Hab Es) as [R P].
  pose proof (perm_range (nat_of a) (nat_of b) l ltac:(lia)) as P2.
  destruct forget; sret H; cfin.
  - rewrite Eb, Es. perm.
  - perm.
Qed.

Lemma map_snd_epe l : map snd (map epe l) = l.
Proof. rewrite map_map. cbn [epe snd]. apply map_id. Qed.

Lemma overwrite_conserve ws l :
  Permutation (l ++ firstn (Nat.min (length l) (length ws)) ws ++ [])
    (overwrite l ws ++
     firstn (Nat.min (length (map epe l ++ [])) (length ws)) (map snd (map epe l ++ [])) ++ [] ++ []).
Proof.
  rewrite !app_nil_r, map_length, map_snd_epe. unfold overwrite.
  pose proof (perm_split (Nat.min (length l) (length ws)) l). perm.
Qed.

Lemma c_make_contiguous ws : conserves (OMakeContiguous ws).
Proof. cs. sret H. cfin. apply overwrite_conserve. Qed.

Lemma c_as_mut_slices_set ws : conserves (OAsMutSlicesSet ws).
Proof. cs. sret H. cfin. apply overwrite_conserve. Qed.

(* all six mutable accessors *)
Lemma set_conserve k v (l : list elem) :
  Permutation
    (l ++ match OutRef (option_map epe (nth_error l k)) with OutRef (Some _) => [v] | _ => [] end ++ [])
    (set_nth k v l ++
     match OutRef (option_map epe (nth_error l k)) with OutRef (Some (_, old)) => [old] | _ => [] end
     ++ [] ++ []).
Proof.
  pose proof (perm_set_nth k v l) as P. destruct (nth_error l k); cbn [option_map epe]; perm.
Qed.

Lemma c_get_mut_set i v : conserves (OGetMutSet i v).
Proof. cs. sret H. cfin. apply set_conserve. Qed.

Lemma c_nth_front_mut_set i v : conserves (ONthFrontMutSet i v).
Proof. cs. sret H. cfin. apply set_conserve. Qed.

Lemma c_index_mut_set i v : conserves (OIndexMutSet i v).
Proof. cs. hifs H. sret H. cfin. apply set_conserve. Qed.

Lemma c_front_mut_set v : conserves (OFrontMutSet v).
Proof. cs. sret H. cfin. rewrite hd_error_nth. apply set_conserve. Qed.

Lemma c_back_mut_set v : conserves (OBackMutSet v).
Proof. cs. sret H. cfin. rewrite last_error_nth. apply set_conserve. Qed.

Lemma c_nth_back_mut_set i v : conserves (ONthBackMutSet i v).
Proof.
  cs. hifs H; sret H; cfin; [|cbn [option_map]; perm].
  destruct (idx_cases i l ltac:(lia)) as [Hk| ->].
  - rewrite nth_error_rev by exact Hk. apply set_conserve.
  - rewrite set_nth_nil. destruct (nat_of i); cbn [rev nth_error option_map]; perm.
Qed.

Lemma c_iter sc : conserves (OIter sc).
Proof.
  cs. destruct (spec_script l 0 (length l) sc) as [[rs l'] w] eqn:E. sret H. cfin.
  apply spec_script_perm in E. perm.
Qed.

Lemma c_iter_mut sc : conserves (OIterMut sc).
Proof.
  cs. destruct (spec_script l 0 (length l) sc) as [[rs l'] w] eqn:E. sret H. cfin.
  apply spec_script_perm in E. perm.
Qed.

Lemma c_range sb eb sc : conserves (ORange sb eb sc).
Proof.
  cs. destruct (spec_bounds (zlen l) sb eb) as [[a b]|] eqn:Eb; [|discriminate H].
  destruct (spec_script l (nat_of a) (nat_of b) sc) as [[rs l'] w] eqn:E. sret H. cfin.
  apply spec_script_perm in E. perm.
Qed.

Lemma c_range_mut sb eb sc : conserves (ORangeMut sb eb sc).
Proof.
  cs. destruct (spec_bounds (zlen l) sb eb) as [[a b]|] eqn:Eb; [|discriminate H].
  destruct (spec_script l (nat_of a) (nat_of b) sc) as [[rs l'] w] eqn:E. sret H. cfin.
  apply spec_script_perm in E. perm.
Qed.

Lemma c_into_iter sc : conserves (OIntoIter sc).
Proof.
  cs. destruct (spec_script l 0 (length l) (map plain_step sc)) as [[rs l'] [lo hi]] eqn:Es.
  assert (Hr : (0 <= length l <= length l)%nat) by lia.
  pose proof (plain_script_perm sc l _ _ _ _ _ _ Hr Es) as [R P].
  rewrite sublist_all in P. sret H. cfin. perm.
Qed.

(* the operations added later: like their counterparts; formatting neither
   creates nor destroys; boxed / default destroy the old contents *)
Lemma c_ref_into_iter sc : conserves (ORefIntoIter sc).
Proof.
  cs. destruct (spec_script l 0 (length l) sc) as [[rs l'] w] eqn:E. sret H. cfin.
  apply spec_script_perm in E. perm.
Qed.

Lemma c_iter_default sc : conserves (OIterDefault sc).
Proof.
  cs. destruct (spec_script l 0 0 sc) as [[rs l'] w] eqn:E. sret H. cfin.
  apply spec_script_perm in E. perm.
Qed.

Lemma c_iter_mut_default sc : conserves (OIterMutDefault sc).
Proof.
  cs. destruct (spec_script l 0 0 sc) as [[rs l'] w] eqn:E. sret H. cfin.
  apply spec_script_perm in E. perm.
Qed.

Lemma c_iter_debug sb eb sc : conserves (OIterDebug sb eb sc).
Proof.
  cs. destruct (spec_bounds (zlen l) sb eb) as [[a b]|] eqn:Eb; [|discriminate H].
  destruct (spec_script l (nat_of a) (nat_of b) sc) as [[rs l'] [lo hi]] eqn:E. sret H. cfin.
  apply spec_script_perm in E. perm.
Qed.

Lemma c_iter_mut_debug sb eb sc : conserves (OIterMutDebug sb eb sc).
Proof.
  cs. destruct (spec_bounds (zlen l) sb eb) as [[a b]|] eqn:Eb; [|discriminate H].
  destruct (spec_script l (nat_of a) (nat_of b) sc) as [[rs l'] [lo hi]] eqn:E. sret H. cfin.
  apply spec_script_perm in E. perm.
Qed.

Lemma c_drain_debug sb eb sc : conserves (ODrainDebug sb eb sc).
Proof.
  cs. destruct (spec_bounds (zlen l) sb eb) as [[a b]|] eqn:Eb; [|discriminate H].
  destruct (spec_script l (nat_of a) (nat_of b) (map plain_step sc)) as [[rs l'] [lo hi]] eqn:Es.
  apply spec_bounds_range in Eb as Hr.
  assert (Hab : (nat_of a <= nat_of b <= length l)%nat) by (unfold nat_of, zlen in *; lia).
  pose proof (plain_script_perm sc l _ _ _ _ _ _ Hab Es) as [R P].
  pose proof (perm_range (nat_of a) (nat_of b) l ltac:(lia)) as P2.
  sret H; cfin. perm.
Qed.

Lemma c_into_iter_debug sc : conserves (OIntoIterDebug sc).
Proof.
  cs. destruct (spec_script l 0 (length l) (map plain_step sc)) as [[rs l'] [lo hi]] eqn:Es.
  assert (Hr : (0 <= length l <= length l)%nat) by lia.
  pose proof (plain_script_perm sc l _ _ _ _ _ _ Hr Es) as [R P].
  rewrite sublist_all in P. sret H. cfin. perm.
Qed.

Lemma c_to_vec : conserves OToVec.
Proof. cs. sret H. cfin. destruct (0 <? zlen l); evs_simpl; perm. Qed.

Lemma c_from_array xs : conserves (OFromArray xs).
Proof.
  cs. sret H. cfin. unfold lastn. rewrite skipn_length.
  set (m := nat_of (Z.min N (zlen xs))).
  assert (m <= length xs)%nat by (unfold m, nat_of, zlen; lia).
  replace (length xs - (length xs - (length xs - m)))%nat with (length xs - m)%nat by lia.
  pose proof (perm_split (length xs - m) xs). perm.
Qed.

Lemma c_from_iter xs : conserves (OFromIter xs).
Proof.
  cs. destruct (spec_extend N [] xs) as [l1 evs] eqn:E. sret H. cfin.
  apply spec_extend_perm in E as [P C]. rewrite C. perm.
Qed.

Lemma c_eq other : conserves (OEq other).
Proof.
  cs. destruct (spec_eq val_eqb l (abs other)) as [b evs] eqn:E. sret H. cfin.
  apply spec_eq_neutral in E as [E1 E2]. rewrite E1, E2. perm.
Qed.

Lemma c_eq_slice form xs : conserves (OEqSlice form xs).
Proof.
  cs. destruct (spec_eq val_eqb l xs) as [b evs] eqn:E. sret H. cfin.
  apply spec_eq_neutral in E as [E1 E2]. rewrite E1, E2. perm.
Qed.

Lemma c_partial_cmp other : conserves (OPartialCmp other).
Proof.
  cs. destruct (spec_cmp val_cmp l (abs other)) as [b evs] eqn:E. sret H. cfin.
  apply spec_cmp_neutral in E as [E1 E2]. rewrite E1, E2. perm.
Qed.

Lemma c_cmp other : conserves (OCmp other).
Proof.
  cs. destruct (spec_cmp val_ord l (abs other)) as [b evs] eqn:E. sret H. cfin.
  apply spec_cmp_neutral in E as [E1 E2]. rewrite E1, E2. perm.
Qed.

Theorem spec_conservation_all o : ledger_op o = true -> conserves o.
Proof.
  intros Hop. destruct o; try discriminate Hop; clear Hop;
  first
  [ apply c_push_back | apply c_push_front | apply c_pop_back | apply c_pop_front
  | apply c_remove | apply c_swap | apply c_swap_remove_back | apply c_swap_remove_front
  | apply c_truncate_back | apply c_truncate_front | apply c_extend | apply c_extend_from_slice
  | apply c_fill | apply c_fill_with | apply c_drain | apply c_make_contiguous
  | apply c_as_mut_slices_set | apply c_get_mut_set | apply c_nth_front_mut_set
  | apply c_index_mut_set | apply c_front_mut_set | apply c_back_mut_set
  | apply c_nth_back_mut_set | apply c_iter | apply c_iter_mut | apply c_range
  | apply c_range_mut | apply c_into_iter | apply c_to_vec | apply c_from_array
  | apply c_from_iter | apply c_eq | apply c_eq_slice | apply c_partial_cmp | apply c_cmp
  | apply c_ref_into_iter | apply c_iter_default | apply c_iter_mut_default
  | apply c_iter_debug | apply c_iter_mut_debug | apply c_drain_debug | apply c_into_iter_debug
  | (intros N l nid r HN Hl H; cbv beta iota zeta delta [spec_step] in H; ctriv H) ].
Qed.

(* the statement asked for: [forgotten] is the extra output of a forgotten Drain
   and is [] for every other operation *)
Theorem spec_conservation N l o nid r :
  0 <= N -> zlen l <= N -> ledger_op o = true ->
  spec_step N l o nid = SRet r ->
  Permutation (l ++ taken o l (sr_out r) ++ created_of (sr_evs r))
              (sr_list r ++ handed o (sr_out r) ++ forgotten o l ++ dropped_of (sr_evs r)).
Proof. intros HN Hl Hop H. exact (spec_conservation_all o Hop N l nid r HN Hl H). Qed.

(* ======================================================================== *)
(* 2c. freshness of created elements                                          *)

Lemma ids_app a b : ids (a ++ b) = ids a ++ ids b.
Proof. apply map_app. Qed.

Lemma ids_clones nid xs : ids (clones nid xs) = zseq nid (length xs).
Proof.
  revert nid. induction xs as [|x xs IH]; intros nid; [reflexivity|].
  cbn [clones length]. rewrite zseq_cons. unfold ids in *. cbn [map eid]. rewrite IH. reflexivity.
Qed.

Lemma ids_calls nid n : ids (calls nid n) = zseq nid n.
Proof.
  revert nid. induction n as [|n IH]; intros nid; [reflexivity|].
  cbn [calls]. rewrite zseq_cons. unfold ids in *. cbn [map eid]. rewrite IH. reflexivity.
Qed.

Definition fresh_ok (o : op) : Prop :=
  forall N l nid r, 0 <= N -> zlen l <= N -> spec_step N l o nid = SRet r ->
  nid <= sr_nid r /\
  ids (created_of (sr_evs r)) = zseq nid (Z.to_nat (sr_nid r - nid)).

Ltac hlets H :=
  repeat match type of H with
         | context [match ?x with (_, _) => _ end] => destruct x eqn:?; cbv beta iota in H
         | context [match ?x with Some _ => _ | None => _ end] =>
           destruct x eqn:?; cbv beta iota in H; try discriminate H
         | context [if ?c then _ else _] => destruct c eqn:?; try discriminate H
         end.

Ltac fresh_none := split; [lia|]; rewrite Z.sub_diag; reflexivity.

Ltac ffin H :=
  sret H; cbn [sr_evs sr_nid]; evs_simpl; cbn [app]; rewrite ?app_nil_r.

Ltac fs := intros N l nid r HN Hl H; cbv beta iota zeta delta [spec_step] in H.

Ltac fresh_clones :=
  rewrite ?ids_app, ?ids_clones, ?ids_calls; cbn [ids map app]; rewrite ?app_nil_r;
  rewrite ?repeat_length; unfold zlen, nat_of in *; split; [lia|]; f_equal; lia.

Lemma f_extend xs : fresh_ok (OExtend xs).
Proof.
  fs. destruct (spec_extend N l xs) as [l1 evs] eqn:E. ffin H.
  apply spec_extend_perm in E as [_ C]. rewrite C. fresh_none.
Qed.

Lemma f_from_iter xs : fresh_ok (OFromIter xs).
Proof.
  fs. destruct (spec_extend N [] xs) as [l1 evs] eqn:E. ffin H.
  apply spec_extend_perm in E as [_ C]. rewrite C. fresh_none.
Qed.

Lemma extend_from_slice_fresh N l xs nid l1 evs nid1 :
  spec_extend_from_slice N l xs nid = (l1, evs, nid1) ->
  nid <= nid1 /\ ids (created_of evs) = zseq nid (Z.to_nat (nid1 - nid)).
Proof.
  unfold spec_extend_from_slice. destruct (N =? 0); intros E.
  - inv E. fresh_none.
  - injection E as <- <- <-. evs_simpl. cbn [app]. fresh_clones.
Qed.

Lemma f_extend_from_slice xs : fresh_ok (OExtendFromSlice xs).
Proof.
  fs. destruct (spec_extend_from_slice N l xs nid) as [[l1 evs] nid1] eqn:E. ffin H.
  eapply extend_from_slice_fresh; eassumption.
Qed.

Lemma f_write fam xs : fresh_ok (OWrite fam xs).
Proof.
  fs. destruct (spec_extend_from_slice N l xs nid) as [[l1 evs] nid1] eqn:E. ffin H.
  eapply extend_from_slice_fresh; eassumption.
Qed.

Lemma f_fill v : fresh_ok (OFill v).
Proof. fs. hifs H; ffin H; [fresh_none|fresh_clones]. Qed.

Lemma f_fill_with : fresh_ok OFillWith.
Proof. fs. hifs H; ffin H; [fresh_none|fresh_clones]. Qed.

Lemma f_fill_spare v : fresh_ok (OFillSpare v).
Proof. fs. hifs H; ffin H; [fresh_none|fresh_clones]. Qed.

Lemma f_fill_spare_with : fresh_ok OFillSpareWith.
Proof. fs. hifs H; ffin H; [fresh_none|fresh_clones]. Qed.

Lemma f_to_vec : fresh_ok OToVec.
Proof. fs. ffin H. destruct (0 <? zlen l); evs_simpl; cbn [app]; fresh_clones. Qed.

Lemma f_clone_drop_clone : fresh_ok OCloneDropClone.
Proof. fs. ffin H. fresh_clones. Qed.

Lemma f_clone_keep_clone : fresh_ok OCloneKeepClone.
Proof. fs. ffin H. fresh_clones. Qed.

Lemma f_clone_from other : fresh_ok (OCloneFrom other).
Proof. fs. ffin H. fresh_clones. Qed.

Lemma f_eq other : fresh_ok (OEq other).
Proof.
  fs. destruct (spec_eq val_eqb l (abs other)) as [b evs] eqn:E. ffin H.
  apply spec_eq_neutral in E as [_ E2]. rewrite E2. fresh_none.
Qed.

Lemma f_eq_slice form xs : fresh_ok (OEqSlice form xs).
Proof.
  fs. destruct (spec_eq val_eqb l xs) as [b evs] eqn:E. ffin H.
  apply spec_eq_neutral in E as [_ E2]. rewrite E2. fresh_none.
Qed.

Lemma f_partial_cmp other : fresh_ok (OPartialCmp other).
Proof.
  fs. destruct (spec_cmp val_cmp l (abs other)) as [b evs] eqn:E. ffin H.
  apply spec_cmp_neutral in E as [_ E2]. rewrite E2. fresh_none.
Qed.

Lemma f_cmp other : fresh_ok (OCmp other).
Proof.
  fs. destruct (spec_cmp val_ord l (abs other)) as [b evs] eqn:E. ffin H.
  apply spec_cmp_neutral in E as [_ E2]. rewrite E2. fresh_none.
Qed.

Theorem spec_fresh_all o : fresh_ok o.
Proof.
  destruct o;
  first
  [ apply f_extend | apply f_from_iter | apply f_extend_from_slice | apply f_write
  | apply f_fill | apply f_fill_with | apply f_fill_spare | apply f_fill_spare_with
  | apply f_to_vec | apply f_clone_drop_clone | apply f_clone_keep_clone | apply f_clone_from
  | apply f_eq | apply f_eq_slice | apply f_partial_cmp | apply f_cmp
  | (intros N l nid r HN Hl H; cbv beta iota zeta delta [spec_step] in H;
     hlets H; ffin H; fresh_none) ].
Qed.

Lemma in_zseq a n x : In x (zseq a n) <-> a <= x < a + Z.of_nat n.
Proof.
  rewrite zseq_map_seq. rewrite in_map_iff. split.
  - intros (i & <- & Hi). apply in_seq in Hi. lia.
  - intros H. exists (Z.to_nat (x - a)). split; [lia|]. apply in_seq. lia.
Qed.

Lemma NoDup_zseq a n : NoDup (zseq a n).
Proof.
  revert a. induction n as [|n IH]; intros a; [constructor|].
  rewrite zseq_cons. constructor; [|apply IH]. rewrite in_zseq. lia.
Qed.

(* created elements carry the identities nid, nid+1, ..., sr_nid - 1, in order of
   creation; so they are pairwise distinct and lie in [nid, sr_nid) *)
Theorem spec_fresh N l o nid r :
  0 <= N -> zlen l <= N -> spec_step N l o nid = SRet r ->
  nid <= sr_nid r /\
  ids (created_of (sr_evs r)) = zseq nid (Z.to_nat (sr_nid r - nid)) /\
  NoDup (ids (created_of (sr_evs r))) /\
  (forall e, In e (created_of (sr_evs r)) -> nid <= eid e < sr_nid r).
Proof.
  intros HN Hl H. destruct (spec_fresh_all o N l nid r HN Hl H) as [H1 H2].
  split; [exact H1|]. split; [exact H2|]. split.
  - rewrite H2. apply NoDup_zseq.
  - intros e He. assert (Hi : In (eid e) (ids (created_of (sr_evs r)))) by (apply in_map; exact He).
    rewrite H2 in Hi. apply in_zseq in Hi. lia.
Qed.

(* ======================================================================== *)
(* 3. one step of the model                                                   *)

(* [taken] and [handed] do not look at physical positions *)
Lemma zipflat_erase {C} (f : sstep -> sres -> list C) :
  (forall st r, f st (erase_sres r) = f st r) ->
  forall sc rs, zipflat f sc (map erase_sres rs) = zipflat f sc rs.
Proof.
  intros Hf. induction sc as [|st sc IH]; intros [|r rs]; try reflexivity.
  cbn [map zipflat]. rewrite Hf, IH. reflexivity.
Qed.

Lemma step_taken_erase st r : step_taken st (erase_sres r) = step_taken st r.
Proof. destruct st, r as [[[p e]|]| |]; reflexivity. Qed.

Lemma step_handed_erase st r : step_handed st (erase_sres r) = step_handed st r.
Proof. destruct st, r as [[[p e]|]| |]; reflexivity. Qed.

Lemma sres_items_erase rs : sres_items (map erase_sres rs) = sres_items rs.
Proof.
  induction rs as [|r rs IH]; [reflexivity|].
  destruct r as [[[p e]|]|n|pl]; cbn [map erase_sres option_map]; unfold erase_pe; cbn [snd];
    rewrite ?sres_items_some, ?sres_items_none, ?sres_items_len, ?IH; try reflexivity.
  change (sres_items (RList (map (fun x => (-1, snd x)) pl) :: map erase_sres rs))
    with (sres_items (map erase_sres rs)).
  rewrite IH. reflexivity.
Qed.

Lemma map_snd_erase (x : list pe) : map snd (map erase_pe x) = map snd x.
Proof. rewrite map_map. apply map_ext. intros [p e]. reflexivity. Qed.

Lemma taken_erase o l v : taken o l (erase_out v) = taken o l v.
Proof.
  destruct v; try reflexivity; cbn [erase_out].
  - destruct o; try reflexivity; destruct o0 as [[p e]|]; reflexivity.
  - destruct o; try reflexivity; cbn [taken]; apply (zipflat_erase _ step_taken_erase).
Qed.

Lemma handed_erase o v : handed o (erase_out v) = handed o v.
Proof.
  destruct v; try reflexivity; cbn [erase_out].
  - destruct o; try reflexivity; destruct o0 as [[p e]|]; reflexivity.
  - destruct o; try reflexivity; cbn [handed];
      rewrite app_nil_r, map_length, map_snd_erase; reflexivity.
  - destruct o; try reflexivity; cbn [handed];
      first [ apply (zipflat_erase _ step_handed_erase) | apply sres_items_erase ].
Qed.

Lemma out_ok_ledger o sp v : ledger_op o = true -> out_ok o sp v -> erase_out v = sp.
Proof. destruct o; intros H; try discriminate H; intros E; exact E. Qed.

Lemma WF_abs_bound s : WF s -> 0 <= cap s /\ zlen (abs s) <= cap s.
Proof. intros (Hc & Hs & _). rewrite abs_zlen by lia. lia. Qed.

(* One step of the model, given the refinement statement for this operation at
   this state. [evs] are the events the call appended to the log. *)
Theorem model_conservation o s w v s' w' :
  refines_at o s w -> WF s -> ledger_op o = true ->
  exec o s w = (Ok v, s', w') ->
  exists evs,
    log w' = log w ++ evs /\
    Permutation (abs s ++ taken o (abs s) (erase_out v) ++ created_of evs)
                (abs s' ++ handed o (erase_out v) ++ forgotten o (abs s) ++ dropped_of evs) /\
    (* created elements are new *)
    next_id w <= next_id w' /\
    NoDup (ids (created_of evs)) /\
    (forall e, In e (created_of evs) -> next_id w <= eid e < next_id w') /\
    (* and the step can be iterated *)
    WF s' /\ cap s' = cap s /\ fault w' = fault w.
Proof.
  intros Href HW Hop He. unfold refines_at in Href.
  destruct (spec_step (cap s) (abs s) o (next_id w)) as [r|] eqn:Es.
  - destruct Href as (v0 & s0 & He0 & Ho & Ha & HW' & Hc).
    rewrite He in He0. injection He0 as -> -> ->.
    apply (out_ok_ledger _ _ _ Hop) in Ho.
    destruct (WF_abs_bound s HW) as [HN Hl].
    pose proof (spec_conservation _ _ _ _ _ HN Hl Hop Es) as P.
    pose proof (spec_fresh _ _ _ _ _ HN Hl Es) as (F1 & _ & F3 & F4).
    exists (sr_evs r). rewrite Ho, Ha. cbn [wev log next_id fault].
    split; [reflexivity|]. split; [exact P|]. split; [exact F1|]. split; [exact F3|].
    split; [exact F4|]. auto.
  - destruct Href as (k & He0 & _). rewrite He in He0. discriminate He0.
Qed.

(* the same with the model's own result: positions do not matter *)
Corollary model_conservation' o s w v s' w' :
  refines_at o s w -> WF s -> ledger_op o = true ->
  exec o s w = (Ok v, s', w') ->
  exists evs,
    log w' = log w ++ evs /\
    Permutation (abs s ++ taken o (abs s) v ++ created_of evs)
                (abs s' ++ handed o v ++ forgotten o (abs s) ++ dropped_of evs).
Proof.
  intros Href HW Hop He.
  destruct (model_conservation _ _ _ _ _ _ Href HW Hop He) as (evs & Hl & P & _).
  rewrite taken_erase, handed_erase in P. exists evs. auto.
Qed.

(* ======================================================================== *)
(* 4. histories                                                               *)

Fixpoint script_args (sc : list sstep) : list elem :=
  match sc with
  | [] => []
  | SNextSet v :: sc' | SNextBackSet v :: sc' => v :: script_args sc'
  | _ :: sc' => script_args sc'
  end.

(* every element the caller passes by value; [taken] is the part of it that
   the call actually consumes (the rest never leaves the caller) *)
Definition args (o : op) : list elem :=
  match o with
  | OPushBack e | OPushFront e | OTryPushBack e | OTryPushFront e => [e]
  | OExtend xs | OFromArray xs | OFromIter xs => xs
  | OFill v | OFillSpare v => [v]
  | OGetMutSet _ v | ONthFrontMutSet _ v | ONthBackMutSet _ v
  | OFrontMutSet v | OBackMutSet v | OIndexMutSet _ v => [v]
  | OMakeContiguous ws | OAsMutSlicesSet ws => ws
  | OIter sc | OIterMut sc | ORange _ _ sc | ORangeMut _ _ sc
  | OIterDefault sc | OIterMutDefault sc | ORefIntoIter sc
  | OIterDebug _ _ sc | OIterMutDebug _ _ sc => script_args sc
  | _ => []
  end.

Lemma script_taken_args sc : forall rs,
  exists rest, Permutation (script_args sc) (script_taken sc rs ++ rest).
Proof.
  unfold script_taken.
  induction sc as [|st sc IH]; intros rs.
  - exists []. destruct rs; reflexivity.
  - destruct rs as [|r rs].
    + exists (script_args (st :: sc)). reflexivity.
    + destruct (IH rs) as (rest & P).
      destruct st; cbn [script_args zipflat step_taken app];
        try (exists rest; exact P).
      all: destruct r as [[x|]| |]; cbn [app];
        first [ exists rest; perm | exists (v :: rest); perm ].
Qed.

Lemma taken_args o l r : exists rest, Permutation (args o) (taken o l r ++ rest).
Proof.
  destruct o; cbn [args taken];
    try (exists []; reflexivity);
    try (exists []; rewrite app_nil_r; reflexivity);
    try (destruct r as [| | | |[x|]| | | | |];
         first [ exists []; reflexivity | eexists; cbn [app]; reflexivity ]);
    try (eexists; rewrite firstn_skipn; reflexivity);
    try (destruct r; first [ apply script_taken_args | eexists; cbn [app]; reflexivity ]).
Qed.

(* the ledger: where every element that ever entered the system is now.
   In the buffer: [abs s]. *)
Record ledger := mkL {
  lg_caller : list elem;      (* handed to the caller, or forgotten by it *)
  lg_destroyed : list elem;   (* destructor ran *)
  lg_entered : list elem      (* initial contents, everything taken, everything created *)
}.

Definition ledger_step (o : op) (l : list elem) (v : out) (evs : list event) (L : ledger) : ledger :=
  mkL (lg_caller L ++ handed o v ++ forgotten o l)
      (lg_destroyed L ++ dropped_of evs)
      (lg_entered L ++ taken o l v ++ created_of evs).

(* "the caller passes in fresh elements": pairwise distinct, never seen by the
   ledger, and with identities below [bound] (the initial [next_id]: elements
   the crate creates itself are numbered from there upwards) *)
Definition fresh_args (bound : Z) (seen xs : list elem) : Prop :=
  NoDup (ids xs) /\
  forall e, In e xs -> eid e < bound /\ ~ In (eid e) (ids seen).

(* a panic-free history of ledger operations from (s0, w0): after [ops] the
   buffer is [s], the world [w], the ledger [L] *)
Inductive ledger_run (s0 : cbuf) (w0 : world) : list op -> cbuf -> world -> ledger -> Prop :=
| lr_nil : ledger_run s0 w0 [] s0 w0 (mkL [] [] (abs s0))
| lr_snoc ops s w L o v s' w' evs :
    ledger_run s0 w0 ops s w L ->
    ledger_op o = true -> op_ok s o ->
    fresh_args (next_id w0) (lg_entered L) (args o) ->
    exec o s w = (Ok v, s', w') ->              (* no panic *)
    log w' = log w ++ evs ->                    (* the events of this call *)
    ledger_run s0 w0 (ops ++ [o]) s' w' (ledger_step o (abs s) v evs L).

Lemma run_history_app ops1 : forall ops2 s w,
  run_history (ops1 ++ ops2) s w =
    let '(rs1, s1, w1) := run_history ops1 s w in
    let '(rs2, s2, w2) := run_history ops2 s1 w1 in
    (rs1 ++ rs2, s2, w2).
Proof.
  induction ops1 as [|o ops1 IH]; intros ops2 s w.
  - cbn [app run_history]. destruct (run_history ops2 s w) as [[rs2 s2] w2]. reflexivity.
  - cbn [app run_history]. destruct (exec o s w) as [[r s1] w1]. rewrite IH.
    destruct (run_history ops1 s1 w1) as [[rs1 s2] w2].
    destruct (run_history ops2 s2 w2) as [[rs2 s3] w3]. reflexivity.
Qed.

(* [ledger_run] follows [run_history] of System.v *)
Lemma ledger_run_history s0 w0 ops s w L :
  ledger_run s0 w0 ops s w L ->
  exists vs, run_history ops s0 w0 = (map Ok vs, s, w).
Proof.
  induction 1 as [|ops s w L o v s' w' evs Hr (vs & IH) Hop Hok Hf He Hl].
  - exists []. reflexivity.
  - exists (vs ++ [v]). rewrite run_history_app, IH. cbn [run_history]. rewrite He.
    rewrite map_app. reflexivity.
Qed.

Lemma NoDup_app_intro {A} (a b : list A) :
  NoDup a -> NoDup b -> (forall x, In x a -> ~ In x b) -> NoDup (a ++ b).
Proof.
  intros Ha Hb Hd. induction Ha as [|x a Hx Ha IH]; [exact Hb|].
  cbn [app]. constructor.
  - rewrite in_app_iff. intros [H|H]; [exact (Hx H)|]. exact (Hd x (or_introl eq_refl) H).
  - apply IH. intros y Hy. apply Hd. right. exact Hy.
Qed.

Lemma NoDup_app_l {A} (a b : list A) : NoDup (a ++ b) -> NoDup a.
Proof.
  induction a as [|x a IH]; intros H; [constructor|].
  cbn [app] in H. inversion H as [|? ? Hx Hn]; subst. constructor.
  - intros Hi. apply Hx. apply in_or_app. left. exact Hi.
  - apply IH. exact Hn.
Qed.

Lemma in_ids x l : In x (ids l) <-> exists e, In e l /\ eid e = x.
Proof. unfold ids. rewrite in_map_iff. split; intros (e & A & B); exists e; auto. Qed.

Section History.

(* every operation refines the specification (proofs/: one theorem per
   operation; this hypothesis becomes a premise when the section closes) *)
Hypothesis all_refine : forall o, refines_op o.

Variables (s0 : cbuf) (w0 : world).
Hypothesis WF0 : WF s0.
Hypothesis nofault0 : fault w0 = None.
(* the initial contents are distinct elements made before the history starts *)
Hypothesis distinct0 : NoDup (ids (abs s0)).
Hypothesis old0 : forall e, In e (abs s0) -> eid e < next_id w0.

Definition ledger_inv (s : cbuf) (w : world) (L : ledger) : Prop :=
  WF s /\ fault w = None /\ next_id w0 <= next_id w /\
  NoDup (ids (lg_entered L)) /\
  (forall e, In e (lg_entered L) -> eid e < next_id w) /\
  Permutation (abs s ++ lg_caller L ++ lg_destroyed L) (lg_entered L).

Lemma ledger_inv_run ops s w L : ledger_run s0 w0 ops s w L -> ledger_inv s w L.
Proof.
  induction 1 as [|ops s w L o v s' w' evs Hr IH Hop Hok Hf He Hlog].
  - unfold ledger_inv. cbn [lg_caller lg_destroyed lg_entered].
    repeat (split; [first [assumption | lia]|]). rewrite !app_nil_r. reflexivity.
  - destruct IH as (HW & Hnf & Hn0 & Hnd & Hlt & HP).
    pose proof (all_refine o s w HW Hnf Hok) as Href.
    destruct (model_conservation _ _ _ _ _ _ Href HW Hop He)
      as (evs' & Hlog' & P & Hn & Cnd & Crange & HW' & _ & Hf').
    rewrite Hlog in Hlog'. apply app_inv_head in Hlog'. subst evs'.
    rewrite taken_erase, handed_erase in P.
    destruct Hf as [And Afresh].
    destruct (taken_args o (abs s) v) as (rest & PA).
    set (T := taken o (abs s) v) in *.
    assert (Tin : forall e, In e T -> In e (args o)).
    { intros e He'. apply (Permutation_in _ (Permutation_sym PA)). apply in_or_app. left. exact He'. }
    assert (Tnd : NoDup (ids T)).
    { apply (Permutation_map eid) in PA. fold (ids (args o)) in PA.
      apply (Permutation_NoDup PA) in And. unfold ids in And. rewrite map_app in And.
      apply NoDup_app_l in And. exact And. }
    unfold ledger_inv, ledger_step. cbn [lg_caller lg_destroyed lg_entered]. fold T.
    split; [exact HW'|]. split; [congruence|]. split; [lia|]. split; [|split].
    + rewrite !ids_app. apply NoDup_app_intro; [exact Hnd| |].
      * apply NoDup_app_intro; [exact Tnd|exact Cnd|].
        intros x Hx Hx'. apply in_ids in Hx as (e & He1 & <-). apply in_ids in Hx' as (c & Hc1 & Hc2).
        apply Tin, Afresh in He1. apply Crange in Hc1. lia.
      * intros x Hx Hx'. apply in_app_or in Hx' as [Hx'|Hx'].
        -- apply in_ids in Hx' as (e & He1 & <-). apply Tin, Afresh in He1. tauto.
        -- apply in_ids in Hx as (e & He1 & <-). apply in_ids in Hx' as (c & Hc1 & Hc2).
           apply Hlt in He1. apply Crange in Hc1. lia.
    + intros e Hi. apply in_app_or in Hi as [Hi|Hi]; [apply Hlt in Hi; lia|].
      apply in_app_or in Hi as [Hi|Hi].
      * apply Tin, Afresh in Hi. lia.
      * apply Crange in Hi. lia.
    + clear - P HP. perm.
Qed.

(* C03 along histories. After every panic-free history of ledger operations,
   each with machine-valued arguments ([op_ok]) and fresh by-value arguments
   ([fresh_args]):
   - the elements in the buffer, with the caller (handed back or forgotten)
     and destroyed have pairwise distinct identities: nothing is in two
     places, nothing is destroyed twice, nothing is destroyed while the buffer
     or the caller still has it;
   - together they are exactly the elements that ever entered (initial
     contents, everything taken, everything created): nothing is leaked,
     nothing comes from nowhere.
   Every prefix of a history is a history, so this holds after every step. *)
Theorem ledger_history ops s w L :
  ledger_run s0 w0 ops s w L ->
  NoDup (ids (abs s ++ lg_caller L ++ lg_destroyed L)) /\
  Permutation (abs s ++ lg_caller L ++ lg_destroyed L) (lg_entered L) /\
  NoDup (ids (lg_entered L)).
Proof.
  intros Hr. destruct (ledger_inv_run _ _ _ _ Hr) as (_ & _ & _ & Hnd & _ & HP).
  split; [|split; assumption].
  apply (Permutation_map eid) in HP. apply Permutation_sym in HP.
  exact (Permutation_NoDup HP Hnd).
Qed.

(* the bookkeeping stays usable: the next operation can again be run *)
Theorem ledger_history_wf ops s w L :
  ledger_run s0 w0 ops s w L ->
  WF s /\ fault w = None /\ next_id w0 <= next_id w /\
  (forall e, In e (lg_entered L) -> eid e < next_id w).
Proof. intros Hr. destruct (ledger_inv_run _ _ _ _ Hr) as (? & ? & ? & ? & ? & ?). auto. Qed.

End History.

(* ======================================================================== *)
(* 5. examples: the premises are satisfiable, the equations say something      *)

Module LedgerExamples.

Definition e (i : Z) : elem := mkE i (10 * i).

(* a full buffer of capacity 3; extend by two owned elements: the two oldest
   elements are evicted and destroyed *)
Example spec_extend_step :
  spec_step 3 [e 1; e 2; e 3] (OExtend [e 4; e 5]) 100 =
  SRet (mkSR OutUnit [e 3; e 4; e 5]
             [EvNext; EvDrop (e 1); EvNext; EvDrop (e 2); EvNext] 100).
Proof. vm_compute. reflexivity. Qed.

Example spec_extend_conserved :
  Permutation ([e 1; e 2; e 3] ++ [e 4; e 5] ++ [])
              ([e 3; e 4; e 5] ++ [] ++ [] ++ [e 1; e 2]).
Proof.
  assert (Hl : zlen [e 1; e 2; e 3] <= 3) by (vm_compute; discriminate).
  exact (spec_conservation 3 _ (OExtend [e 4; e 5]) 100 _ ltac:(lia) Hl eq_refl spec_extend_step).
Qed.

(* a Drain over 1..3 of four elements that yields one element from each end
   and is then forgotten: the buffer is left empty, two elements are with the
   caller as results, the other two are forgotten; nothing is destroyed *)
Example spec_drain_forget_step :
  let o := ODrain (BIncl 1) (BExcl 3) [SNext; SNextBack; SNext] true in
  let l := [e 1; e 2; e 3; e 4] in
  spec_step 4 l o 100 =
    SRet (mkSR (OutScript [RItem (Some (-1, e 2)); RItem (Some (-1, e 3)); RItem None]) [] [] 100)
  /\ handed o (OutScript [RItem (Some (-1, e 2)); RItem (Some (-1, e 3)); RItem None]) = [e 2; e 3]
  /\ forgotten o l = [e 1; e 4].
Proof. vm_compute. repeat split; reflexivity. Qed.

(* writes through iter_mut: the written values are taken, the old ones handed back;
   the third write finds the iterator exhausted and its value stays with the caller *)
Example spec_iter_mut_step :
  let o := OIterMut [SNextSet (e 7); SNextBackSet (e 8); SNextSet (e 9)] in
  let l := [e 1; e 2] in
  exists r, spec_step 2 l o 100 = SRet r /\
    sr_list r = [e 7; e 8] /\
    taken o l (sr_out r) = [e 7; e 8] /\ handed o (sr_out r) = [e 1; e 2] /\
    args o = [e 7; e 8; e 9].
Proof. eexists. vm_compute. repeat split; reflexivity. Qed.

(* why [taken]/[handed] treat Iter/Range scripts like IterMut/RangeMut ones:
   the specification (like the model's run_iter_script) performs the set-steps
   of a script on a shared iterator too *)
Example spec_iter_set_step :
  spec_step 1 [e 1] (OIter [SNextSet (e 7)]) 100 =
  SRet (mkSR (OutScript [RItem (Some (-1, e 1))]) [e 7] [] 100).
Proof. vm_compute. reflexivity. Qed.

(* the model: a wrapped, full buffer *)
Definition s0 : cbuf := mkB 3 3 1 (fun p => e (1 + (p + 2) mod 3)).
Definition w0 : world := mkW true 100 [] None.

Example model_start : abs s0 = [e 1; e 2; e 3] /\ WF s0 /\ fault w0 = None.
Proof.
  split; [vm_compute; reflexivity|]. split; [|reflexivity].
  unfold WF. cbn [cap size start s0]. rewrite W_eq. lia.
Qed.

(* the premises of [ledger_history] about the initial state *)
Example history_premises :
  WF s0 /\ fault w0 = None /\ NoDup (ids (abs s0)) /\
  (forall x, In x (abs s0) -> eid x < next_id w0).
Proof.
  destruct model_start as (Ha & HW & Hf). rewrite Ha.
  split; [exact HW|]. split; [exact Hf|]. split.
  - cbn. repeat constructor; cbn; intuition congruence.
  - intros x [<-|[<-|[<-|[]]]]; cbn; lia.
Qed.

Example model_extend_step :
  let '(r, s', w') := exec (OExtend [e 4; e 5]) s0 w0 in
  r = Ok OutUnit /\ abs s' = [e 3; e 4; e 5] /\
  log w' = [EvNext; EvDrop (e 1); EvNext; EvDrop (e 2); EvNext] /\ next_id w' = 100.
Proof. vm_compute. repeat split; reflexivity. Qed.

(* a history: extend (evicts and destroys e1, e2), pop_front (hands e3 to the
   caller), to_vec (creates clones 100, 101 for the caller), clear (destroys
   e4, e5) *)
Definition ops : list op := [OExtend [e 4; e 5]; OPopFront; OToVec; OClear].

Ltac run_exec :=
  match goal with
  | |- ?lhs = _ =>
    let r := eval vm_compute in lhs in
    transitivity r; [vm_cast_no_check (eq_refl r) | reflexivity]
  end.

Example history_run :
  exists s w L,
    ledger_run s0 w0 ops s w L /\
    abs s = [] /\
    lg_caller L = [e 3; mkE 100 40; mkE 101 50] /\
    lg_destroyed L = [e 1; e 2; e 4; e 5] /\
    lg_entered L = [e 1; e 2; e 3; e 4; e 5; mkE 100 40; mkE 101 50].
Proof.
  assert (F0 : forall b seen, fresh_args b seen []).
  { intros b seen. split; [constructor|]. intros x []. }
  do 3 eexists. split.
  - unfold ops.
    change [OExtend [e 4; e 5]; OPopFront; OToVec; OClear]
      with (((([] ++ [OExtend [e 4; e 5]]) ++ [OPopFront]) ++ [OToVec]) ++ [OClear]).
    eapply lr_snoc; [ eapply lr_snoc; [ eapply lr_snoc; [ eapply lr_snoc; [ apply lr_nil | .. ] | .. ] | .. ] | .. ].
    (* extend *)
    + reflexivity.
    + vm_compute. reflexivity.
    + split.
      * vm_compute. repeat constructor; cbn; intuition congruence.
      * vm_compute. intros x [<-|[<-|[]]]; cbn [eid]; split; try lia; intuition congruence.
    + run_exec.
    + reflexivity.
    (* pop_front *)
    + reflexivity.
    + exact I.
    + apply F0.
    + run_exec.
    + reflexivity.
    (* to_vec *)
    + reflexivity.
    + exact I.
    + apply F0.
    + run_exec.
    + reflexivity.
    (* clear *)
    + reflexivity.
    + exact I.
    + apply F0.
    + run_exec.
    + reflexivity.
  - vm_compute. repeat split; reflexivity.
Qed.

End LedgerExamples.

(* the history theorem with its section hypotheses as explicit premises *)
Check ledger_history :
  (forall o, refines_op o) ->
  forall (s0 : cbuf) (w0 : world),
  WF s0 -> fault w0 = None -> NoDup (ids (abs s0)) ->
  (forall e, In e (abs s0) -> eid e < next_id w0) ->
  forall ops s w L,
  ledger_run s0 w0 ops s w L ->
  NoDup (ids (abs s ++ lg_caller L ++ lg_destroyed L)) /\
  Permutation (abs s ++ lg_caller L ++ lg_destroyed L) (lg_entered L) /\
  NoDup (ids (lg_entered L)).

Print Assumptions spec_conservation.
Print Assumptions spec_fresh.
Print Assumptions model_conservation.
Print Assumptions ledger_history.
