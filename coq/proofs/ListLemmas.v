(* ListLemmas.v — lengths and Z-indexed reading of the list functions the
   specification uses. [zn l i] is the i-th element (Z index). *)

From CB Require Import Spec.
From CBP Require Import MonadLemmas AbsLemmas.
From Coq Require Import ZifyBool.
Ltac Zify.zify_post_hook ::= Z.div_mod_to_equations.

Definition zn (l : list elem) (i : Z) : elem := nth (Z.to_nat i) l dflt.

Lemma zlen_nonneg {A} (l : list A) : 0 <= zlen l.
Proof. unfold zlen. lia. Qed.

Lemma zlen_app {A} (l1 l2 : list A) : zlen (l1 ++ l2) = zlen l1 + zlen l2.
Proof. unfold zlen. rewrite app_length. lia. Qed.

Lemma zlen_cons {A} (x : A) l : zlen (x :: l) = 1 + zlen l.
Proof. unfold zlen. cbn [length]. lia. Qed.

Lemma zlen_nil {A} : zlen (@nil A) = 0.
Proof. reflexivity. Qed.

Lemma length_removelast {A} (l : list A) : length (removelast l) = (length l - 1)%nat.
Proof.
  induction l as [|x l IH]; [reflexivity|].
  destruct l as [|y l]; [reflexivity|].
  change (removelast (x :: y :: l)) with (x :: removelast (y :: l)).
  cbn [length] in *. lia.
Qed.

Lemma length_tl {A} (l : list A) : length (tl l) = (length l - 1)%nat.
Proof. destruct l; cbn; lia. Qed.

Lemma zlen_removelast {A} (l : list A) : zlen (removelast l) = Z.max 0 (zlen l - 1).
Proof. unfold zlen. rewrite length_removelast. lia. Qed.

Lemma zlen_tl {A} (l : list A) : zlen (tl l) = Z.max 0 (zlen l - 1).
Proof. unfold zlen. rewrite length_tl. lia. Qed.

Lemma zlen_firstn {A} k (l : list A) : zlen (firstn k l) = Z.min (Z.of_nat k) (zlen l).
Proof. unfold zlen. rewrite firstn_length. lia. Qed.

Lemma zlen_skipn {A} k (l : list A) : zlen (skipn k l) = Z.max 0 (zlen l - Z.of_nat k).
Proof. unfold zlen. rewrite skipn_length. lia. Qed.

Lemma zlen_map {A B} (f : A -> B) l : zlen (map f l) = zlen l.
Proof. unfold zlen. rewrite map_length. reflexivity. Qed.

(* ---- zn ------------------------------------------------------------------ *)

Lemma zn_app1 l1 l2 i : 0 <= i < zlen l1 -> zn (l1 ++ l2) i = zn l1 i.
Proof. intros H. unfold zn. apply app_nth1. unfold zlen in H. lia. Qed.

Lemma zn_app2 l1 l2 i : zlen l1 <= i -> zn (l1 ++ l2) i = zn l2 (i - zlen l1).
Proof.
  intros H. unfold zn, zlen in *. rewrite app_nth2 by lia. f_equal. lia.
Qed.

Lemma zn_cons0 x l : zn (x :: l) 0 = x.
Proof. reflexivity. Qed.

Lemma zn_consS x l i : 0 < i -> zn (x :: l) i = zn l (i - 1).
Proof.
  intros H. unfold zn. replace (Z.to_nat i) with (S (Z.to_nat (i - 1))) by lia. reflexivity.
Qed.

Lemma zn_tl l i : 0 <= i -> zn (tl l) i = zn l (i + 1).
Proof.
  intros H. unfold zn. replace (Z.to_nat (i + 1)) with (S (Z.to_nat i)) by lia.
  destruct l as [|x l]; [destruct (Z.to_nat i); reflexivity|reflexivity].
Qed.

Lemma nth_removelast {A} (l : list A) k d :
  (k < length l - 1)%nat -> nth k (removelast l) d = nth k l d.
Proof.
  revert k. induction l as [|x l IH]; intros k H; [cbn in H; lia|].
  destruct l as [|y l]; [cbn in H; lia|].
  change (removelast (x :: y :: l)) with (x :: removelast (y :: l)).
  destruct k; [reflexivity|]. cbn [nth]. apply IH. cbn [length] in *. lia.
Qed.

Lemma zn_removelast l i : 0 <= i < zlen l - 1 -> zn (removelast l) i = zn l i.
Proof. intros H. unfold zn. apply nth_removelast. unfold zlen in H. lia. Qed.

Lemma nth_firstn_lt {A} (l : list A) k n d : (n < k)%nat -> nth n (firstn k l) d = nth n l d.
Proof.
  revert k n. induction l as [|x l IH]; intros k n H.
  - rewrite firstn_nil. reflexivity.
  - destruct k; [lia|]. destruct n; [reflexivity|]. cbn. apply IH. lia.
Qed.

Lemma zn_firstn l k i : 0 <= i < Z.of_nat k -> zn (firstn k l) i = zn l i.
Proof. intros H. unfold zn. apply nth_firstn_lt. lia. Qed.

Lemma nth_skipn_add {A} (l : list A) k n d : nth n (skipn k l) d = nth (k + n) l d.
Proof.
  revert l. induction k as [|k IH]; intros l; [reflexivity|].
  destruct l as [|x l]; [destruct n; reflexivity|]. cbn. apply IH.
Qed.

Lemma zn_skipn l k i : 0 <= i -> zn (skipn k l) i = zn l (i + Z.of_nat k).
Proof.
  intros H. unfold zn. rewrite nth_skipn_add. f_equal. lia.
Qed.

Lemma zn_abs s i : 0 <= i < size s -> zn (abs s) i = items s (phys s i).
Proof. intros. unfold zn. apply abs_nth_Z. assumption. Qed.

Lemma zn_ext l1 l2 :
  zlen l1 = zlen l2 -> (forall i, 0 <= i < zlen l1 -> zn l1 i = zn l2 i) -> l1 = l2.
Proof. intros Hl H. apply list_ext_Z; [unfold zlen in Hl; lia|exact H]. Qed.

Lemma zn_nth_error l i :
  0 <= i < zlen l -> nth_error l (Z.to_nat i) = Some (zn l i).
Proof.
  intros H. unfold zn. apply nth_error_nth'. unfold zlen in H. lia.
Qed.

Lemma nth_error_none_Z {A} (l : list A) i : zlen l <= i -> nth_error l (Z.to_nat i) = None.
Proof. intros H. apply nth_error_None. unfold zlen in H. lia. Qed.

Lemma zn_last l : l <> [] -> last_error l = Some (zn l (zlen l - 1)).
Proof.
  intros H. unfold last_error, zn, zlen.
  destruct (rev l) as [|x r] eqn:E.
  - apply (f_equal (@rev elem)) in E. rewrite rev_involutive in E. cbn in E. congruence.
  - assert (l = rev r ++ [x]) as ->.
    { apply (f_equal (@rev elem)) in E. rewrite rev_involutive in E. exact E. }
    rewrite app_length. cbn [length].
    rewrite app_nth2 by lia.
    replace (Z.to_nat (Z.of_nat (length (rev r) + 1) - 1) - length (rev r))%nat with 0%nat by lia.
    reflexivity.
Qed.

Lemma last_error_nil : @last_error elem [] = None.
Proof. reflexivity. Qed.

Lemma hd_error_zn l : l <> [] -> hd_error l = Some (zn l 0).
Proof. destruct l; [congruence|reflexivity]. Qed.
