(* MonadLemmas.v — evaluation lemmas for the monad and the machine layer, and
   the tactics every later proof uses to run model code symbolically. *)

From CB Require Import Spec.
From Coq Require Import ZifyBool.

Ltac Zify.zify_post_hook ::= Z.div_mod_to_equations.

Lemma W_eq : W = 2 ^ 64.
Proof. reflexivity. Qed.

Lemma W_pos : 0 < W.
Proof. reflexivity. Qed.

Global Opaque W.

(* ---- machine operations under their no-overflow conditions --------------- *)

Lemma dassert_ok c s w : c = true -> dassert c s w = (Ok tt, s, w).
Proof. intros ->. unfold dassert. rewrite andb_false_r. reflexivity. Qed.

Lemma assert_ok c s w : c = true -> assert_ c s w = (Ok tt, s, w).
Proof. intros ->. reflexivity. Qed.

Lemma assert_fail c s w : c = false -> assert_ c s w = (Panic PAssert, s, w).
Proof. intros ->. reflexivity. Qed.

Lemma uadd_ok x y s w : x + y < W -> uadd x y s w = (Ok (x + y), s, w).
Proof. intros H. unfold uadd. replace (x + y <? W) with true by lia. reflexivity. Qed.

Lemma usub_ok x y s w : y <= x -> usub x y s w = (Ok (x - y), s, w).
Proof. intros H. unfold usub. replace (y <=? x) with true by lia. reflexivity. Qed.

Lemma umul_ok x y s w : x * y < W -> umul x y s w = (Ok (x * y), s, w).
Proof. intros H. unfold umul. replace (x * y <? W) with true by lia. reflexivity. Qed.

Lemma urem_ok x m s w : m <> 0 -> urem x m s w = (Ok (x mod m), s, w).
Proof. intros H. unfold urem. replace (m =? 0) with false by lia. reflexivity. Qed.

Lemma sl_range_ok sl a b s w :
  a <= b -> b <= slen sl -> sl_range sl a b s w = (Ok (mkS (soff sl + a) (b - a)), s, w).
Proof. intros. unfold sl_range. replace ((a <=? b) && (b <=? slen sl)) with true by lia. reflexivity. Qed.

Lemma sl_split_at_ok sl k s w :
  k <= slen sl ->
  sl_split_at sl k s w = (Ok (mkS (soff sl) k, mkS (soff sl + k) (slen sl - k)), s, w).
Proof. intros. unfold sl_split_at. replace (k <=? slen sl) with true by lia. reflexivity. Qed.

Lemma sl_index_ok sl i s w :
  0 <= i < slen sl -> sl_index sl i s w = (Ok (soff sl + i), s, w).
Proof. intros. unfold sl_index. replace ((0 <=? i) && (i <? slen sl)) with true by lia. reflexivity. Qed.

Lemma idx_ok p s w : 0 <= p < cap s -> idx p s w = (Ok p, s, w).
Proof.
  intros. unfold idx, items_slice, bind, get_cap, ret.
  rewrite sl_index_ok by (cbn; lia). reflexivity.
Qed.

Lemma raw_copy_ok src dst n s w :
  0 <= src -> src + n <= cap s -> 0 <= dst -> dst + n <= cap s -> 0 <= n ->
  raw_copy src dst n s w = (Ok tt, b_items s (s_copy (items s) src dst n), w).
Proof.
  intros. unfold raw_copy, bind, get_cap.
  replace ((0 <=? src) && (src + n <=? cap s) && (0 <=? dst) && (dst + n <=? cap s) && (0 <=? n))
    with true by lia.
  reflexivity.
Qed.

(* ---- bind ------------------------------------------------------------------ *)

Lemma bind_ok {A B} (m : M A) (k : A -> M B) s w a s' w' :
  m s w = (Ok a, s', w') -> bind m k s w = k a s' w'.
Proof. intros H. unfold bind. rewrite H. reflexivity. Qed.

Lemma bind_panic {A B} (m : M A) (k : A -> M B) s w p s' w' :
  m s w = (Panic p, s', w') -> bind m k s w = (Panic p, s', w').
Proof. intros H. unfold bind. rewrite H. reflexivity. Qed.

Lemma bind_assoc {A B C} (m : M A) (f : A -> M B) (g : B -> M C) s w :
  bind (bind m f) g s w = bind m (fun x => bind (f x) g) s w.
Proof. unfold bind. destruct (m s w) as [[[a|p] s1] w1]; reflexivity. Qed.

Lemma bind_ret_l {A B} (a : A) (k : A -> M B) s w : bind (ret a) k s w = k a s w.
Proof. reflexivity. Qed.

(* ---- tactics ------------------------------------------------------------------ *)

(* unfold the state plumbing *)
Ltac mcbn :=
  cbn [bind ret get put get_cap get_size get_start set_size set_start set_items get_items
       read_slot write_slot panic b_size b_start b_items cap size start items fst snd
       soff slen empty_slice items_slice].

(* decide one closed boolean test *)
Ltac ifb :=
  match goal with
  | |- context [if ?c then _ else _] =>
    first [ replace c with true by (symmetry; lia)
          | replace c with false by (symmetry; lia) ]
  end.

(* discharge one checked machine operation *)
Ltac mop :=
  first
    [ rewrite dassert_ok by lia
    | rewrite assert_ok by lia
    | rewrite uadd_ok by lia
    | rewrite usub_ok by lia
    | rewrite umul_ok by lia
    | rewrite urem_ok by lia
    | rewrite idx_ok by (mcbn; lia)
    | rewrite sl_range_ok by (mcbn; lia)
    | rewrite sl_split_at_ok by (mcbn; lia)
    | rewrite sl_index_ok by (mcbn; lia)
    | rewrite raw_copy_ok by (mcbn; lia) ].

Ltac msimp := repeat (mcbn; first [ mop | ifb ]); mcbn.

(* run the first computation of a bind with one of the machine lemmas;
   [blem_user] is extended file by file with the lemmas proved so far *)
Ltac blem_user := fail.

Ltac blem :=
  first [ apply dassert_ok; lia
        | apply assert_ok; lia
        | apply uadd_ok; lia
        | apply usub_ok; lia
        | apply umul_ok; lia
        | apply urem_ok; lia
        | apply idx_ok; mcbn; lia
        | apply sl_range_ok; mcbn; lia
        | apply sl_split_at_ok; mcbn; lia
        | apply sl_index_ok; mcbn; lia
        | apply raw_copy_ok; mcbn; lia
        | blem_user ].

Ltac bstep := erewrite bind_ok by blem; cbv beta.

(* the state-plumbing binds compute by themselves *)
Ltac bsteps := repeat first [ progress mcbn | ifb | rewrite bind_assoc | bstep ]; try solve [ reflexivity | blem ].

(* like bsteps, but never decides an [if] and never closes the goal *)
Ltac bgo := repeat first [ rewrite bind_assoc | progress mcbn | bstep ].
