(* MoreOps.v — operation-level refinement for the rest of the API surface:
   boxed, Default, Iter::default, IterMut::default, IntoIterator for
   &CircularBuffer, and the Debug impls of Iter, IterMut, Drain and IntoIter;
   and what a panicking destructor does to boxed / default (as for new). *)

From CB Require Import Spec.
From CBP Require Import MonadLemmas Arith AbsLemmas ListLemmas AbsOps Core Step PushPop Slices
     RefDefs Truncate RefTruncate Views DrainP CmpHash Iters FaultDefs FaultDropA.
From Coq Require Import ZifyBool.
Ltac Zify.zify_post_hook ::= Z.div_mod_to_equations.

(* ---- boxed / default ----------------------------------------------------------------------- *)

Lemma boxed_ok n junk s w :
  boxed n junk s w = (Ok (new_buf n junk), s, wev w [EvAlloc] (next_id w)).
Proof. reflexivity. Qed.

Theorem boxed_op : refines_op OBoxed.
Proof.
  intros s w HW Hf _. pose proof HW as HW'. wf HW'.
  unfold refines_at. cbn [spec_step exec].
  exists OutUnit, (new_buf (cap s) junk0). mcbn.
  erewrite bind_ok by apply boxed_ok.
  erewrite bind_ok by (apply replace_buf_ok; [exact HW|rewrite wev_fault; exact Hf]).
  cbn [sr_evs sr_nid sr_out sr_list]. unfold ret. rewrite wev_wev, wev_next.
  split; [reflexivity|]. split; [reflexivity|].
  split; [apply abs_empty; reflexivity|]. split; [apply WF_new; lia|reflexivity].
Qed.

(* Default::default() is Self::new() *)
Theorem default_op : refines_op ODefault.
Proof. intros s w HW Hf _. exact (new_op s w HW Hf I). Qed.

(* ---- Iter::default / IterMut::default: an iterator over nothing ------------------------------ *)

Theorem iter_default_op_safe script :
  clone_safe script = true -> refines_op (OIterDefault script).
Proof.
  intros Hcs s w HW Hf _. pose proof HW as HW'. wf HW'.
  unfold refines_at. cbn [spec_step].
  destruct (iter_script_ok script s w iter_default 0%nat 0%nat HW (inv_empty s 0)
              ltac:(lia) ltac:(lia) Hcs)
    as (rs & s' & wd & Hr & HW2 & Hc & Hz & Hs & Hsp).
  rewrite Hsp.
  exists (OutScript rs), s'. cbn [exec].
  erewrite bind_ok by exact Hr.
  cbn [sr_evs sr_nid sr_out sr_list]. rewrite wev_nil.
  split; [reflexivity|]. split; [reflexivity|]. auto.
Qed.

Theorem iter_mut_default_op_safe script :
  clone_safe script = true -> refines_op (OIterMutDefault script).
Proof. exact (iter_default_op_safe script). Qed.

Theorem iter_default_op script : refines_op (OIterDefault script).
Proof. intros s w HW Hf Hok. exact (iter_default_op_safe script Hok s w HW Hf Hok). Qed.

Theorem iter_mut_default_op script : refines_op (OIterMutDefault script).
Proof. intros s w HW Hf Hok. exact (iter_mut_default_op_safe script Hok s w HW Hf Hok). Qed.

(* the contents are untouched, whatever the script *)
Lemma spec_script_empty_window : forall script (l : list elem) lo,
  spec_script l lo lo script =
    (fst (fst (spec_script l lo lo script)), l, (lo, lo)).
Proof.
  induction script as [|st rest IH]; intros l lo; [reflexivity|].
  destruct st; cbn [spec_script]; rewrite ?Nat.ltb_irrefl;
    rewrite (IH l lo); destruct (spec_script l lo lo rest) as [[rs l'] wd]; reflexivity.
Qed.

Lemma iter_default_spec N l script nid r :
  spec_step N l (OIterDefault script) nid = SRet r \/
  spec_step N l (OIterMutDefault script) nid = SRet r ->
  sr_list r = l /\ sr_evs r = [] /\ sr_nid r = nid.
Proof.
  cbn [spec_step]. rewrite (spec_script_empty_window script l 0).
  intros [H|H]; inversion H; subst; cbn [sr_list sr_evs sr_nid]; auto.
Qed.

(* ---- (&buf).into_iter() is buf.iter() ----------------------------------------------------------- *)

Theorem ref_into_iter_op script : refines_op (ORefIntoIter script).
Proof. intros s w HW Hf Hok. exact (iter_op_safe script Hok s w HW Hf Hok). Qed.

(* ---- where the iterator stands after a script ------------------------------------------------------ *)

Lemma iter_after_inv s : forall script it lo hi (l : list elem),
  inv s it (Z.of_nat lo) (Z.of_nat hi) -> (lo <= hi)%nat ->
  exists lo' hi',
    snd (spec_script l lo hi script) = (lo', hi') /\
    inv s (iter_after it script) (Z.of_nat lo') (Z.of_nat hi') /\
    (lo <= lo')%nat /\ (lo' <= hi')%nat /\ (hi' <= hi)%nat.
Proof.
  induction script as [|st rest IH]; intros it lo hi l Hi Hlh.
  - exists lo, hi. cbn [spec_script snd iter_after]. auto.
  - assert (Hstay : forall it0 l1,
      inv s it0 (Z.of_nat lo) (Z.of_nat hi) ->
      exists lo' hi',
        snd (let '(rs, l', w) := spec_script l1 lo hi rest in (RItem None :: rs, l', w))
          = (lo', hi') /\
        inv s (iter_after it0 rest) (Z.of_nat lo') (Z.of_nat hi') /\
        (lo <= lo')%nat /\ (lo' <= hi')%nat /\ (hi' <= hi)%nat).
    { intros it0 l1 Hi0. destruct (IH it0 lo hi l1 Hi0 Hlh) as (lo' & hi' & E & H).
      exists lo', hi'. destruct (spec_script l1 lo hi rest) as [[rs l'] wd]. auto. }
    assert (Hfront : forall it' l1,
      inv s it' (Z.of_nat lo + 1) (Z.of_nat hi) -> (lo < hi)%nat ->
      exists lo' hi',
        snd (let '(rs, l', w) := spec_script l1 (S lo) hi rest in
             (RItem (option_map epe (nth_error l lo)) :: rs, l', w)) = (lo', hi') /\
        inv s (iter_after it' rest) (Z.of_nat lo') (Z.of_nat hi') /\
        (lo <= lo')%nat /\ (lo' <= hi')%nat /\ (hi' <= hi)%nat).
    { intros it' l1 Hi' Hlt.
      replace (Z.of_nat lo + 1) with (Z.of_nat (S lo)) in Hi' by lia.
      destruct (IH it' (S lo) hi l1 Hi' ltac:(lia)) as (lo' & hi' & E & H1 & H2 & H3 & H4).
      exists lo', hi'.
      destruct (spec_script l1 (S lo) hi rest) as [[rs l'] wd].
      split; [exact E|]. split; [exact H1|]. lia. }
    assert (Hback : forall it' l1,
      inv s it' (Z.of_nat lo) (Z.of_nat hi - 1) -> (lo < hi)%nat ->
      exists lo' hi',
        snd (let '(rs, l', w) := spec_script l1 lo (hi - 1) rest in
             (RItem (option_map epe (nth_error l (hi - 1))) :: rs, l', w)) = (lo', hi') /\
        inv s (iter_after it' rest) (Z.of_nat lo') (Z.of_nat hi') /\
        (lo <= lo')%nat /\ (lo' <= hi')%nat /\ (hi' <= hi)%nat).
    { intros it' l1 Hi' Hlt.
      replace (Z.of_nat hi - 1) with (Z.of_nat (hi - 1)) in Hi' by lia.
      destruct (IH it' lo (hi - 1)%nat l1 Hi' ltac:(lia)) as (lo' & hi' & E & H1 & H2 & H3 & H4).
      exists lo', hi'.
      destruct (spec_script l1 lo (hi - 1) rest) as [[rs l'] wd].
      split; [exact E|]. split; [exact H1|]. lia. }
    destruct st; cbn [spec_script iter_after].
    + destruct (Nat.ltb_spec lo hi) as [Hlt|Hge].
      * destruct (iter_next_some s it _ _ Hi ltac:(lia)) as (it' & Hn & Hi').
        rewrite Hn. cbn [fst]. apply Hfront; assumption.
      * rewrite (iter_next_none s it _ _ Hi) by lia. cbn [fst]. apply Hstay. exact Hi.
    + destruct (Nat.ltb_spec lo hi) as [Hlt|Hge].
      * destruct (iter_next_back_some s it _ _ Hi ltac:(lia)) as (it' & Hn & Hi').
        rewrite Hn. cbn [fst]. apply Hback; assumption.
      * rewrite (iter_next_back_none s it _ _ Hi) by lia. cbn [fst]. apply Hstay. exact Hi.
    + destruct (IH it lo hi l Hi Hlh) as (lo' & hi' & E & H).
      exists lo', hi'. destruct (spec_script l lo hi rest) as [[rs l'] wd]. auto.
    + destruct (IH it lo hi l Hi Hlh) as (lo' & hi' & E & H).
      exists lo', hi'. destruct (spec_script l lo hi rest) as [[rs l'] wd]. auto.
    + destruct (Nat.ltb_spec lo hi) as [Hlt|Hge].
      * destruct (iter_mut_next_some s it _ _ Hi ltac:(lia)) as (it' & Hn & Hi').
        rewrite Hn. cbn [fst]. apply Hfront; assumption.
      * destruct (iter_mut_next_none s it _ _ Hi ltac:(lia)) as (Hn & Hi').
        rewrite Hn. cbn [fst]. apply Hstay. exact Hi'.
    + destruct (Nat.ltb_spec lo hi) as [Hlt|Hge].
      * destruct (iter_mut_next_back_some s it _ _ Hi ltac:(lia)) as (it' & Hn & Hi').
        rewrite Hn. cbn [fst]. apply Hback; assumption.
      * destruct (iter_mut_next_back_none s it _ _ Hi ltac:(lia)) as (Hn & Hi').
        rewrite Hn. cbn [fst]. apply Hstay. exact Hi'.
Qed.

(* ---- Debug for Iter -------------------------------------------------------------------------------- *)

Lemma it_slots_clone it : it_slots (iter_clone it) = it_slots it.
Proof. destruct it. reflexivity. Qed.

Lemma it_slots_elems f it :
  map f (it_slots it) = sl_elems f (it_right it) ++ sl_elems f (it_left it).
Proof. unfold it_slots, sl_slots, sl_elems. apply map_app. Qed.

(* formatting an iterator formats the elements in the slots it still has to visit *)
Lemma iter_fmt_slots s w it rest :
  fault w = None -> 0 <= slen (it_right it) -> 0 <= slen (it_left it) ->
  map (items s) (it_slots it) = rest ->
  iter_fmt it s w = (Ok tt, s, wev w (map EvFmt rest) (next_id w)).
Proof.
  intros Hf Hr Hl Hm. unfold iter_fmt. mcbn.
  apply iter_for_each_ok with (evf := EvFmt).
  - intros e s0 w0 H0. apply ev_call_ok. exact H0.
  - exact Hf.
  - rewrite it_slots_clone. exact Hm.
  - rewrite <- Hm, map_length. unfold it_slots, sl_slots.
    rewrite app_length, !zseq_length. destruct it as [r l]. cbn [iter_clone it_right it_left] in *.
    lia.
Qed.

Lemma inv_slots s it lo hi :
  inv s it lo hi -> map (items s) (it_slots it) = lslots s lo (hi - lo).
Proof.
  intros (H1 & H2 & H3 & Hr & Hl). rewrite it_slots_elems. apply zn_ext.
  - rewrite zlen_app, !sl_elems_zlen, lslots_zlen by lia. lia.
  - intros i Hi. rewrite zlen_app, !sl_elems_zlen in Hi by lia.
    rewrite zn_lslots by lia.
    destruct (Z_lt_ge_dec i (slen (it_right it))) as [Hlt|Hge].
    + rewrite zn_app1 by (rewrite sl_elems_zlen; lia).
      rewrite zn_sl_elems by lia. rewrite Hr by lia. reflexivity.
    + rewrite zn_app2 by (rewrite sl_elems_zlen; lia).
      rewrite sl_elems_zlen by lia. rewrite zn_sl_elems by lia. rewrite Hl by lia.
      do 2 f_equal. lia.
Qed.

Lemma iter_fmt_ok s w it lo hi :
  WF s -> fault w = None -> inv s it (Z.of_nat lo) (Z.of_nat hi) ->
  (lo <= hi)%nat -> Z.of_nat hi <= size s ->
  iter_fmt it s w = (Ok tt, s, wev w (map EvFmt (sublist lo hi (abs s))) (next_id w)).
Proof.
  intros HW Hf Hi Hlh Hhi. pose proof HW as HW'. wf HW'.
  pose proof Hi as (H1 & H2 & _).
  apply iter_fmt_slots; try assumption.
  rewrite (inv_slots s it _ _ Hi). apply lslots_sublist; lia.
Qed.

(* Debug for CircularBuffer, function level *)
Lemma buf_fmt_ok s w :
  WF s -> fault w = None ->
  buf_fmt s w = (Ok tt, s, wev w (map EvFmt (abs s)) (next_id w)).
Proof.
  intros HW Hf. pose proof HW as HW'. wf HW'.
  unfold buf_fmt. mcbn.
  destruct (CmpHash.iter_new_ok s w HW) as (it & Hi & Hm).
  erewrite bind_ok by exact Hi.
  apply iter_for_each_ok with (evf := EvFmt) (rest := abs s).
  - intros e s0 w0 H0. apply ev_call_ok. exact H0.
  - exact Hf.
  - exact Hm.
  - rewrite abs_length. lia.
Qed.

(* ---- range, script, {:?} ------------------------------------------------------------------------------ *)

Theorem iter_debug_op_safe sb eb pre :
  clone_safe pre = true -> refines_op (OIterDebug sb eb pre).
Proof.
  intros Hcs s w HW Hf ((Hsb & Heb) & _). pose proof HW as HW'. wf HW'.
  unfold refines_at. cbn [spec_step]. rewrite abs_zlen by lia.
  pose proof (translate_bounds_ok s w sb eb Hsb Heb ltac:(lia)) as Ht.
  destruct (spec_bounds (size s) sb eb) as [[a b]|].
  - destruct Ht as (Ht & Hab & Hbn).
    destruct (iter_over_range_ok s w sb eb a b HW Ht Hab Hbn) as (it & Hn & Hi).
    rewrite <- (Z2Nat.id a), <- (Z2Nat.id b) in Hi by lia.
    destruct (iter_script_ok pre s w it (Z.to_nat a) (Z.to_nat b) HW Hi ltac:(lia) ltac:(lia) Hcs)
      as (rs & s' & wd & Hr & HW2 & Hc & Hz & Hs & Hsp).
    destruct (iter_after_inv s pre it (Z.to_nat a) (Z.to_nat b) (abs s) Hi ltac:(lia))
      as (lo' & hi' & Ewd & Hi' & L1 & L2 & L3).
    rewrite Hsp in Ewd. cbn [snd] in Ewd. subst wd.
    unfold nat_of. rewrite Hsp.
    exists (OutScript rs), s'. cbn [exec].
    erewrite bind_ok by exact Hn. erewrite bind_ok by exact Hr.
    erewrite bind_ok.
    2:{ apply (iter_fmt_ok s' w (iter_after it pre) lo' hi' HW2 Hf); [|lia|lia].
        eapply inv_same; [exact Hc|exact Hs|exact Hi']. }
    cbn [sr_evs sr_nid sr_out sr_list].
    split; [reflexivity|]. split; [reflexivity|]. auto.
  - destruct Ht as (k & Ht & Hk). exists k. split; [|exact Hk].
    cbn [exec]. erewrite bind_panic by (apply iter_over_range_panic; exact Ht). reflexivity.
Qed.

(* IterMut's Debug builds an Iter from its two views *)
Theorem iter_mut_debug_op_safe sb eb pre :
  clone_safe pre = true -> refines_op (OIterMutDebug sb eb pre).
Proof. exact (iter_debug_op_safe sb eb pre). Qed.

Theorem iter_debug_op sb eb pre : refines_op (OIterDebug sb eb pre).
Proof. intros s w HW Hf Hok. exact (iter_debug_op_safe sb eb pre (proj2 Hok) s w HW Hf Hok). Qed.

Theorem iter_mut_debug_op sb eb pre : refines_op (OIterMutDebug sb eb pre).
Proof.
  intros s w HW Hf Hok. exact (iter_mut_debug_op_safe sb eb pre (proj2 Hok) s w HW Hf Hok).
Qed.

(* ---- drain, script, {:?}, drop ------------------------------------------------------------------------------ *)

Lemma drain_slices_nonneg s n lo hi :
  geom s -> 0 <= lo -> hi <= n -> n <= cap s ->
  0 <= slen (fst (drain_slices_val s n lo hi)) /\ 0 <= slen (snd (drain_slices_val s n lo hi)).
Proof.
  intros (Hc & H0 & Hst) Hlo Hhi Hn. unfold drain_slices_val.
  destruct ((cap s =? 0) || (n =? 0) || (hi <=? lo)) eqn:E0; [cbn; lia|].
  specialize (Hst ltac:(lia)).
  pose proof (phys_range s lo ltac:(lia)) as Rl.
  pose proof (phys_range s hi ltac:(lia)) as Rh.
  destruct (phys s lo <? phys s hi) eqn:E1; cbn [fst snd slen empty_slice]; lia.
Qed.

Lemma drain_fmt_ok s w n a b lo hi :
  geom s -> fault w = None -> 0 <= lo -> hi <= n -> n <= cap s ->
  drain_fmt (mkD n a b lo hi) s w =
    (Ok tt, s, wev w (map EvFmt (lslots s lo (hi - lo))) (next_id w)).
Proof.
  intros Hg Hf Hlo Hhi Hn. unfold drain_fmt.
  erewrite bind_ok by (apply drain_as_slices_ok; auto).
  pose proof (drain_slices_elems s n lo hi Hg Hlo Hhi Hn) as Hel.
  pose proof (drain_slices_nonneg s n lo hi Hg Hlo Hhi Hn) as (N1 & N2).
  destruct (drain_slices_val s n lo hi) as [rgt lft]. cbn [fst snd] in *. cbv beta iota.
  apply iter_fmt_slots; try assumption.
  rewrite it_slots_elems. exact Hel.
Qed.

Theorem drain_debug_op sb eb pre : refines_op (ODrainDebug sb eb pre).
Proof.
  intros s w HW Hf (Hsb & Heb). pose proof HW as HW'. wf HW'.
  unfold refines_at. cbn [spec_step]. rewrite abs_zlen by lia.
  pose proof (translate_bounds_ok s w sb eb Hsb Heb ltac:(lia)) as Ht.
  destruct (spec_bounds (size s) sb eb) as [[a b]|].
  - destruct Ht as (Ht & Hab & Hbn).
    destruct (drain_script_ok (abs s) (b_size s 0) w (size s) a b (geom_b_size0 s HW)
                ltac:(lia) ltac:(lia) ltac:(cbn; lia) (abs_zlen s ltac:(lia))
                ltac:(intros i Hi; exact (zn_abs s i Hi)) pre (Z.to_nat a) (Z.to_nat b)
                ltac:(lia) ltac:(lia) ltac:(lia))
      as (rs & lo' & hi' & Hr & Hs & H1 & H2 & H3).
    rewrite !Z2Nat.id in Hr by lia.
    unfold nat_of. rewrite Hs.
    pose proof (drain_fmt_ok (b_size s 0) w (size s) a b (Z.of_nat lo') (Z.of_nat hi')
                  (geom_b_size0 s HW) Hf ltac:(lia) ltac:(lia) ltac:(cbn; lia)) as Hfmt.
    assert (Hls : lslots (b_size s 0) (Z.of_nat lo') (Z.of_nat hi' - Z.of_nat lo')
                  = sublist lo' hi' (abs s)).
    { change (lslots (b_size s 0)) with (lslots s). apply lslots_sublist; lia. }
    rewrite Hls in Hfmt.
    set (w1 := wev w (map EvFmt (sublist lo' hi' (abs s))) (next_id w)) in Hfmt.
    destruct (drain_drop_ok (b_size s 0) w1 (size s) a b (Z.of_nat lo') (Z.of_nat hi')
                (geom_b_size0 s HW) eq_refl Hf)
      as (f' & Hd & HA & HB); try (cbn; lia).
    rewrite Hls in Hd. unfold w1 in Hd at 2. rewrite wev_wev in Hd.
    change (next_id w1) with (next_id w) in Hd.
    exists (OutScript rs), (b_size (b_items (b_size s 0) f') (size s - (b - a))). cbn [exec].
    erewrite bind_ok by (apply drain_over_range_ok; exact Ht).
    erewrite bind_ok by exact Hr. cbv beta iota.
    erewrite bind_ok by (eapply finally_ok; [exact Hfmt|exact Hd]).
    cbn [sr_evs sr_nid sr_out sr_list].
    split; [reflexivity|]. split; [reflexivity|].
    split; [|split; [apply WF_mk; cbn; lia|reflexivity]].
    rewrite <- (abs_after_drain s f' a b) by (auto; lia). reflexivity.
  - destruct Ht as (k & Ht & Hk). exists k. split; [|exact Hk].
    cbn [exec]. erewrite bind_panic by (apply drain_over_range_panic; exact Ht). reflexivity.
Qed.

(* ---- into_iter, script, {:?}, drop ------------------------------------------------------------------------------ *)

Theorem into_iter_debug_op pre : refines_op (OIntoIterDebug pre).
Proof.
  intros s w HW Hf _. pose proof HW as HW'. wf HW'.
  unfold refines_at. cbn [spec_step].
  destruct (into_iter_script_ok (abs s) pre s w 0%nat (length (abs s)) HW
              ltac:(lia) ltac:(lia))
    as (rs & s1 & lo' & hi' & Hr & HW1 & Hsp & H1 & H2 & H3).
  { rewrite sublist_from_0. symmetry. apply firstn_all. }
  rewrite Hsp.
  pose proof (buf_fmt_ok s1 w HW1 Hf) as Hfmt.
  destruct (drop_buf_ok s1 (wev w (map EvFmt (abs s1)) (next_id w)) HW1 Hf) as (s2 & Hd & _).
  rewrite wev_wev, wev_next in Hd.
  exists (OutScript rs), (new_buf (cap s) junk0). cbn [exec]. mcbn.
  erewrite bind_ok.
  2:{ apply with_buf_ok. erewrite bind_ok by exact Hr.
      unfold into_iter_fmt, into_iter_drop.
      erewrite bind_ok by (eapply finally_ok; [exact Hfmt|exact Hd]). reflexivity. }
  cbn [sr_evs sr_nid sr_out sr_list]. rewrite H3.
  split; [reflexivity|]. split; [reflexivity|].
  split; [apply abs_empty; reflexivity|]. split; [apply WF_new; lia|reflexivity].
Qed.

(* ---- a panicking destructor while the old buffer is destroyed -------------------------------------------------- *)

(* Default::default() is Self::new() *)
Theorem default_fault : fault_safe ODefault FDrop.
Proof. intros s w k HW Hop Hf Hk Hnd Hid. exact (new_fault s w k HW I Hf Hk Hnd Hid). Qed.

(* boxed: the allocation happens first and is not user code; the rest is [new] *)
Theorem boxed_fault : fault_safe OBoxed FDrop.
Proof.
  intros s w k HW Hop Hf Hk Hnd Hid.
  set (w1 := wev w [EvAlloc] (next_id w)).
  destruct (new_fault s w1 k HW I Hf Hk Hnd Hid)
    as (r & s' & w' & evs & He & Hlog & Hdbg & Hnid & Hr & Hfa & HW' & Hc & Hnd' & Hincl & Hid' & Hleak).
  exists r, s', w', (EvAlloc :: evs).
  split; [exact He|].
  split; [rewrite Hlog; unfold w1, wev; cbn [log]; rewrite <- app_assoc; reflexivity|].
  split; [exact Hdbg|]. split; [exact Hnid|]. split; [exact Hr|]. split; [exact Hfa|].
  split; [exact HW'|]. split; [exact Hc|].
  split; [exact Hnd'|]. split; [exact Hincl|]. split; [exact Hid'|exact Hleak].
Qed.
