(* PhysMoves.v — C20: how many surviving elements an operation relocates in
   memory. An element is identified by its identity [eid]; the logical element
   i of a state s lives in the physical slot [phys s i]. "Relocated" = in the
   buffer before and after the call, in another slot afterwards.

   - operations documented as O(1) relocate at most two survivors whatever the
     length (most of them none at all);
   - remove(i) relocates at most len - i, drain(a..b) at most len - b;
   - make_contiguous on contiguous contents relocates nothing. *)

From CB Require Import Spec.
From CBP Require Import MonadLemmas Arith AbsLemmas ListLemmas AbsOps Core Step PushPop
  Slices RefDefs RefPushPop Truncate RefTruncate RemoveSwap Access Views DrainP FaultDefs.
From Coq Require Import ZifyBool FinFun.
Ltac Zify.zify_post_hook ::= Z.div_mod_to_equations.

(* ---- the statement ------------------------------------------------------------- *)

(* logical indices of s whose element is still in s' but in another slot *)
Definition relocated (s s' : cbuf) : list Z :=
  filter (fun i =>
    existsb (fun j => (eid (items s (phys s i)) =? eid (items s' (phys s' j)))
                      && negb (phys s i =? phys s' j))
            (zseq 0 (Z.to_nat (size s'))))
    (zseq 0 (Z.to_nat (size s))).

Definition moves_at_most (o : op) (bound : cbuf -> Z) : Prop :=
  forall s w v s' w',
    WF s -> op_ok s o -> fault w = None ->
    NoDup (map eid (abs s ++ given o)) ->
    exec o s w = (Ok v, s', w') ->
    zlen (relocated s s') <= bound s.

(* ---- counting ------------------------------------------------------------------- *)

Lemma In_zseq a n i : In i (zseq a n) <-> a <= i < a + Z.of_nat n.
Proof.
  rewrite zseq_map_seq. rewrite in_map_iff. split.
  - intros (k & <- & Hk). apply in_seq in Hk. lia.
  - intros H. exists (Z.to_nat (i - a)). split; [lia|]. apply in_seq. lia.
Qed.

Lemma NoDup_zseq a n : NoDup (zseq a n).
Proof.
  rewrite zseq_map_seq. apply Injective_map_NoDup; [|apply seq_NoDup].
  intros x y H. lia.
Qed.

Lemma in_relocated s s' i :
  In i (relocated s s') <->
  0 <= i < size s /\
  exists j, 0 <= j < size s' /\
    eid (items s (phys s i)) = eid (items s' (phys s' j)) /\ phys s i <> phys s' j.
Proof.
  unfold relocated. rewrite filter_In, In_zseq, existsb_exists. split.
  - intros (Hi & j & Hj & Hb). apply In_zseq in Hj. split; [lia|].
    exists j. split; [lia|]. lia.
  - intros (Hi & j & Hj & He & Hp). split; [lia|].
    exists j. split; [apply In_zseq; lia|]. lia.
Qed.

Lemma zn_In (l : list elem) i : 0 <= i < zlen l -> In (zn l i) l.
Proof. intros H. unfold zn. apply nth_In. unfold zlen in H. lia. Qed.

Lemma ids_inj l i j :
  NoDup (ids l) -> 0 <= i < zlen l -> 0 <= j < zlen l ->
  eid (zn l i) = eid (zn l j) -> i = j.
Proof.
  intros Hnd Hi Hj He. unfold ids in Hnd. unfold zlen in *.
  assert (Z.to_nat i = Z.to_nat j); [|lia].
  apply (proj1 (NoDup_nth (map eid l) 0) Hnd); rewrite ?map_length; try lia.
  rewrite !nth_map_lt with (d0 := dflt) by lia. exact He.
Qed.

Lemma NoDup_map_in {A B} (g : A -> B) l :
  NoDup l -> (forall x y, In x l -> In y l -> g x = g y -> x = y) -> NoDup (map g l).
Proof.
  induction 1 as [|a l Hna Hnd IH]; intros Hinj; cbn; constructor.
  - intros Hin. apply in_map_iff in Hin. destruct Hin as (y & Hy & Hyl).
    assert (y = a) by (apply Hinj; cbn; auto). subst. contradiction.
  - apply IH. intros x y Hx Hy. apply Hinj; cbn; auto.
Qed.

(* every relocated element has its identity in L: at most |L| of them *)
Lemma relocated_le s s' (L : list Z) :
  0 <= size s -> NoDup (ids (abs s)) ->
  (forall i j, 0 <= i < size s -> 0 <= j < size s' ->
     eid (items s (phys s i)) = eid (items s' (phys s' j)) -> phys s i <> phys s' j ->
     In (eid (items s (phys s i))) L) ->
  zlen (relocated s s') <= zlen L.
Proof.
  intros Hz Hnd H.
  set (g := fun i => eid (items s (phys s i))).
  assert (Hn : NoDup (map g (relocated s s'))).
  { apply NoDup_map_in.
    - unfold relocated. apply NoDup_filter. apply NoDup_zseq.
    - intros x y Hx Hy Hg. apply in_relocated in Hx, Hy.
      destruct Hx as (Hx & _), Hy as (Hy & _).
      unfold g in Hg. rewrite <- !zn_abs in Hg by lia.
      eapply ids_inj; eauto; rewrite abs_zlen; lia. }
  assert (Hi : incl (map g (relocated s s')) L).
  { intros e He. apply in_map_iff in He. destruct He as (i & <- & Hi).
    apply in_relocated in Hi. destruct Hi as (Hi & j & Hj & He & Hp).
    unfold g. eapply H; eauto. }
  pose proof (NoDup_incl_length Hn Hi) as Hl. rewrite map_length in Hl. unfold zlen. lia.
Qed.

(* slot by slot description of the state afterwards: each occupied slot of s'
   holds (A) the element that occupied that very slot in s, or (B) an element
   whose identity is in L, or (C) an element that was not in s *)
Lemma relocated_desc s s' L :
  0 <= size s -> NoDup (ids (abs s)) ->
  (forall j, 0 <= j < size s' ->
     (exists i', 0 <= i' < size s /\
        items s' (phys s' j) = items s (phys s i') /\ phys s' j = phys s i')
     \/ In (eid (items s' (phys s' j))) L
     \/ ~ In (eid (items s' (phys s' j))) (ids (abs s))) ->
  zlen (relocated s s') <= zlen L.
Proof.
  intros Hz Hnd H. apply relocated_le; auto.
  intros i j Hi Hj He Hp. destruct (H j Hj) as [(i' & Hi' & Hit & Hph)|[HB|HC]].
  - exfalso. apply Hp. rewrite Hph. f_equal. rewrite Hit in He.
    rewrite <- !zn_abs in He by lia.
    eapply ids_inj; eauto; rewrite abs_zlen; lia.
  - rewrite He. exact HB.
  - exfalso. apply HC. rewrite <- He. unfold ids. rewrite <- zn_abs by lia.
    apply in_map. apply zn_In. rewrite abs_zlen; lia.
Qed.

(* the same in terms of the abstract contents, when the front of s' is the
   logical position k0 of s (k0 may be negative: push_front) *)
Lemma relocated_shift s s' k0 L :
  0 <= size s -> NoDup (ids (abs s)) ->
  cap s' = cap s -> start s' = (start s + k0) mod cap s ->
  (forall j, 0 <= j < size s' ->
     (0 <= k0 + j < size s /\ zn (abs s') j = zn (abs s) (k0 + j))
     \/ In (eid (zn (abs s') j)) L
     \/ ~ In (eid (zn (abs s') j)) (ids (abs s))) ->
  zlen (relocated s s') <= zlen L.
Proof.
  intros Hz Hnd Hc Hs H. apply relocated_desc; auto.
  intros j Hj. rewrite <- (zn_abs s' j) by lia.
  destruct (H j Hj) as [(Hk & Hzn)|[HB|HC]]; [left|right; left; exact HB|right; right; exact HC].
  exists (k0 + j). split; [lia|]. split.
  - rewrite Hzn. apply zn_abs. lia.
  - unfold phys. rewrite Hc, Hs, Zplus_mod_idemp_l. f_equal. lia.
Qed.

Lemma zlen_le0_nil {A} (l : list A) : zlen l <= 0 -> l = [].
Proof. destruct l; [reflexivity|]. unfold zlen. cbn [length]. lia. Qed.

Lemma NoDup_app_l {A} (l l' : list A) : NoDup (l ++ l') -> NoDup l.
Proof.
  induction l' as [|a l' IH]; intros H.
  - rewrite app_nil_r in H. exact H.
  - apply IH. eapply NoDup_remove_1. exact H.
Qed.

Lemma NoDup_ids_app_l (l g : list elem) : NoDup (map eid (l ++ g)) -> NoDup (ids l).
Proof. rewrite map_app. apply NoDup_app_l. Qed.

Lemma NoDup_ids_new (l : list elem) x : NoDup (map eid (l ++ [x])) -> ~ In (eid x) (ids l).
Proof.
  rewrite map_app. cbn [map]. intros H. apply NoDup_remove_2 in H.
  rewrite app_nil_r in H. exact H.
Qed.

(* ---- what a function can do to the bookkeeping, by its syntax ---------------------- *)

(* [runs R m]: every run of m, returning or panicking, relates the state before
   to the state after by R. For R = equality: m is read-only. For
   R = "same start, same capacity": m never moves the front. *)
Section Runs.
Variable R : cbuf -> cbuf -> Prop.
Hypothesis Rrefl : forall s, R s s.
Hypothesis Rtrans : forall a b c, R a b -> R b c -> R a c.

Definition runs {A} (m : M A) : Prop :=
  forall s w r s' w', m s w = (r, s', w') -> R s s'.

Lemma runs_bind {A B} (m : M A) (k : A -> M B) :
  runs m -> (forall a, runs (k a)) -> runs (bind m k).
Proof.
  intros Hm Hk s w r s' w' H. unfold bind in H.
  destruct (m s w) as [[[a|p] s1] w1] eqn:E.
  - eapply Rtrans; [eapply Hm; exact E|eapply Hk; exact H].
  - inversion H; subst. eapply Hm; exact E.
Qed.

Lemma runs_same {A} (m : M A) : (forall s w, snd (fst (m s w)) = s) -> runs m.
Proof.
  intros Hs s w r s' w' H. specialize (Hs s w). rewrite H in Hs. cbn in Hs. subst.
  apply Rrefl.
Qed.

Ltac same :=
  apply runs_same; intros ? ?;
  repeat match goal with |- context [match ?c with _ => _ end] => destruct c end;
  reflexivity.

Lemma runs_ret {A} (a : A) : runs (ret a). Proof. same. Qed.
Lemma runs_panic {A} k : runs (@panic A k). Proof. same. Qed.
Lemma runs_get : runs get. Proof. same. Qed.
Lemma runs_get_cap : runs get_cap. Proof. same. Qed.
Lemma runs_get_size : runs get_size. Proof. same. Qed.
Lemma runs_get_start : runs get_start. Proof. same. Qed.
Lemma runs_get_items : runs get_items. Proof. same. Qed.
Lemma runs_len : runs len. Proof. same. Qed.
Lemma runs_capacity : runs capacity. Proof. same. Qed.
Lemma runs_read_slot p : runs (read_slot p). Proof. same. Qed.
Lemma runs_dassert c : runs (dassert c). Proof. unfold dassert. same. Qed.
Lemma runs_assert c : runs (assert_ c). Proof. unfold assert_, ret, panic. same. Qed.
Lemma runs_emit ev : runs (emit ev). Proof. same. Qed.
Lemma runs_fresh_id : runs fresh_id. Proof. same. Qed.
Lemma runs_user_call k : runs (user_call k). Proof. unfold user_call. same. Qed.
Lemma runs_uadd x y : runs (uadd x y). Proof. unfold uadd. same. Qed.
Lemma runs_usub x y : runs (usub x y). Proof. unfold usub. same. Qed.
Lemma runs_umul x y : runs (umul x y). Proof. unfold umul. same. Qed.
Lemma runs_urem x m : runs (urem x m). Proof. unfold urem, ret, panic. same. Qed.
Lemma runs_sl_range sl a b : runs (sl_range sl a b).
Proof. unfold sl_range, ret, panic. same. Qed.
Lemma runs_sl_split_at sl k : runs (sl_split_at sl k).
Proof. unfold sl_split_at, ret, panic. same. Qed.
Lemma runs_sl_index sl i : runs (sl_index sl i).
Proof. unfold sl_index, ret, panic. same. Qed.

Lemma runs_finally {A} (body : M A) cleanup :
  runs body -> runs cleanup -> runs (finally body cleanup).
Proof.
  intros Hb Hc s w r s' w' H. unfold finally in H.
  destruct (body s w) as [[r1 s1] w1] eqn:E1.
  destruct (cleanup s1 w1) as [[[u|p] s2] w2] eqn:E2.
  - inversion H; subst. eapply Rtrans; [eapply Hb; exact E1|eapply Hc; exact E2].
  - destruct r1; inversion H; subst;
      (eapply Rtrans; [eapply Hb; exact E1|eapply Hc; exact E2]).
Qed.

Create HintDb runs.
Hint Resolve runs_ret runs_panic runs_get runs_get_cap runs_get_size runs_get_start
  runs_get_items runs_len runs_capacity runs_read_slot runs_dassert runs_assert runs_emit
  runs_fresh_id runs_user_call runs_uadd runs_usub runs_umul runs_urem runs_sl_range
  runs_sl_split_at runs_sl_index : runs.

Ltac runs_tac :=
  repeat first
    [ solve [auto 1 with runs nocore]
    | apply runs_finally
    | apply runs_bind; [|intros ?; cbv beta]
    | match goal with |- runs (match ?x with _ => _ end) => destruct x end ].

Lemma runs_items_slice : runs items_slice. Proof. unfold items_slice. runs_tac. Qed.
Hint Resolve runs_items_slice : runs.
Lemma runs_idx p : runs (idx p). Proof. unfold idx. runs_tac. Qed.
Hint Resolve runs_idx : runs.
Lemma runs_add_mod x y m : runs (add_mod x y m). Proof. unfold add_mod. runs_tac. Qed.
Hint Resolve runs_add_mod : runs.
Lemma runs_sub_mod x y m : runs (sub_mod x y m). Proof. unfold sub_mod. runs_tac. Qed.
Hint Resolve runs_sub_mod : runs.

Lemma runs_drop_elem e : runs (drop_elem e). Proof. unfold drop_elem. runs_tac. Qed.
Hint Resolve runs_drop_elem : runs.
Lemma runs_drop_list es : runs (drop_list es).
Proof. induction es; cbn [drop_list]; runs_tac. Qed.
Hint Resolve runs_drop_list : runs.
Lemma runs_drop_slice sl : runs (drop_slice sl). Proof. unfold drop_slice. runs_tac. Qed.
Hint Resolve runs_drop_slice : runs.

(* accessors *)
Lemma runs_front_maybe_uninit : runs front_maybe_uninit.
Proof. unfold front_maybe_uninit. runs_tac. Qed.
Lemma runs_front_maybe_uninit_mut : runs front_maybe_uninit_mut.
Proof. unfold front_maybe_uninit_mut. runs_tac. Qed.
Lemma runs_back_maybe_uninit : runs back_maybe_uninit.
Proof. unfold back_maybe_uninit. runs_tac. Qed.
Lemma runs_back_maybe_uninit_mut : runs back_maybe_uninit_mut.
Proof. exact runs_back_maybe_uninit. Qed.
Lemma runs_get_maybe_uninit i : runs (get_maybe_uninit i).
Proof. unfold get_maybe_uninit. runs_tac. Qed.
Lemma runs_get_maybe_uninit_mut i : runs (get_maybe_uninit_mut i).
Proof. exact (runs_get_maybe_uninit i). Qed.
Hint Resolve runs_front_maybe_uninit runs_front_maybe_uninit_mut runs_back_maybe_uninit
  runs_back_maybe_uninit_mut runs_get_maybe_uninit runs_get_maybe_uninit_mut : runs.

Lemma runs_back : runs back. Proof. unfold back. runs_tac. Qed.
Lemma runs_back_mut : runs back_mut. Proof. unfold back_mut. runs_tac. Qed.
Lemma runs_front : runs front. Proof. unfold front. runs_tac. Qed.
Lemma runs_front_mut : runs front_mut. Proof. unfold front_mut. runs_tac. Qed.
Lemma runs_get_ i : runs (get_ i). Proof. unfold get_. runs_tac. Qed.
Lemma runs_get_mut i : runs (get_mut i). Proof. unfold get_mut. runs_tac. Qed.
Hint Resolve runs_back runs_back_mut runs_front runs_front_mut runs_get_ runs_get_mut : runs.
Lemma runs_nth_front i : runs (nth_front i). Proof. exact (runs_get_ i). Qed.
Lemma runs_nth_front_mut i : runs (nth_front_mut i). Proof. exact (runs_get_mut i). Qed.
Lemma runs_nth_back i : runs (nth_back i). Proof. unfold nth_back. runs_tac. Qed.
Lemma runs_nth_back_mut i : runs (nth_back_mut i). Proof. unfold nth_back_mut. runs_tac. Qed.
Lemma runs_index i : runs (index i). Proof. unfold index. runs_tac. Qed.
Lemma runs_index_mut i : runs (index_mut i). Proof. unfold index_mut. runs_tac. Qed.
Lemma runs_as_slices : runs as_slices. Proof. unfold as_slices. runs_tac. Qed.
Lemma runs_as_mut_slices : runs as_mut_slices. Proof. exact runs_as_slices. Qed.
Lemma runs_deref o : runs (deref o). Proof. unfold deref. runs_tac. Qed.
Hint Resolve runs_nth_front runs_nth_front_mut runs_nth_back runs_nth_back_mut runs_index
  runs_index_mut runs_as_slices runs_as_mut_slices runs_deref : runs.

(* the operations that only look *)
Definition ro_op (o : op) : Prop :=
  match o with
  | OLen | OIsEmpty | OIsFull | OCapacity
  | OGet _ | ONthFront _ | ONthBack _ | OFront | OBack | OIndex _ | OAsSlices => True
  | _ => False
  end.

Lemma runs_exec_ro o : ro_op o -> runs (exec o).
Proof.
  destruct o; cbn [ro_op]; intros []; cbn [exec]; unfold is_empty, is_full; runs_tac.
Qed.

(* ---- functions that change the length and the slots, never the front ------------ *)

Hypothesis Rsize : forall s z, R s (b_size s z).
Hypothesis Ritems : forall s f, R s (b_items s f).

Lemma runs_set_size z : runs (set_size z).
Proof. intros s w r s' w' H. inversion H; subst. apply Rsize. Qed.
Lemma runs_set_items f : runs (set_items f).
Proof. intros s w r s' w' H. inversion H; subst. apply Ritems. Qed.
Lemma runs_write_slot p e : runs (write_slot p e).
Proof. intros s w r s' w' H. inversion H; subst. apply Ritems. Qed.
Hint Resolve runs_set_size runs_set_items runs_write_slot : runs.

Lemma runs_raw_copy src dst n : runs (raw_copy src dst n).
Proof. unfold raw_copy. runs_tac. Qed.
Lemma runs_dec_size : runs dec_size. Proof. unfold dec_size. runs_tac. Qed.
Lemma runs_inc_size : runs inc_size. Proof. unfold inc_size. runs_tac. Qed.
Hint Resolve runs_raw_copy runs_dec_size runs_inc_size : runs.

Lemma runs_pop_back : runs pop_back. Proof. unfold pop_back. runs_tac. Qed.
Lemma runs_swap i j : runs (swap i j). Proof. unfold swap. runs_tac. Qed.
Hint Resolve runs_pop_back runs_swap : runs.
Lemma runs_remove i : runs (remove i). Proof. unfold remove. runs_tac. Qed.
Lemma runs_swap_remove_back i : runs (swap_remove_back i).
Proof. unfold swap_remove_back. runs_tac. Qed.

Lemma runs_translate_range_bounds sb eb : runs (translate_range_bounds sb eb).
Proof. unfold translate_range_bounds. runs_tac. Qed.
Hint Resolve runs_translate_range_bounds : runs.
Lemma runs_drain_over_range sb eb : runs (drain_over_range sb eb).
Proof. unfold drain_over_range. runs_tac. Qed.
Lemma runs_drain_read d i : runs (drain_read d i).
Proof. unfold drain_read. runs_tac. Qed.
Hint Resolve runs_drain_read : runs.
Lemma runs_drain_next d : runs (drain_next d). Proof. unfold drain_next. runs_tac. Qed.
Lemma runs_drain_next_back d : runs (drain_next_back d).
Proof. unfold drain_next_back. runs_tac. Qed.
Hint Resolve runs_drain_next runs_drain_next_back : runs.
Lemma runs_run_drain_script script : forall d, runs (run_drain_script d script).
Proof.
  induction script as [|st rest IH]; intros d; cbn [run_drain_script]; [runs_tac|].
  destruct st; runs_tac.
Qed.
Lemma runs_drain_as_slices d : runs (drain_as_slices d).
Proof. unfold drain_as_slices. runs_tac. Qed.
Lemma runs_drain_as_mut_slices d : runs (drain_as_mut_slices d).
Proof. exact (runs_drain_as_slices d). Qed.
Lemma runs_csp_as_ptr c : runs (csp_as_ptr c). Proof. unfold csp_as_ptr. runs_tac. Qed.
Lemma runs_csp_available_len c : runs (csp_available_len c).
Proof. unfold csp_available_len. runs_tac. Qed.
Lemma runs_csp_add c k : runs (csp_add c k). Proof. unfold csp_add. runs_tac. Qed.
Hint Resolve runs_drain_as_mut_slices runs_csp_as_ptr runs_csp_available_len runs_csp_add : runs.
Lemma runs_drain_fill_loop : forall fuel hole backfill remaining,
  runs (drain_fill_loop fuel hole backfill remaining).
Proof.
  induction fuel as [|fuel IH]; intros; cbn [drain_fill_loop]; runs_tac.
Qed.
Hint Resolve runs_drain_fill_loop runs_run_drain_script runs_drain_over_range : runs.
Lemma runs_drain_drop d : runs (drain_drop d). Proof. unfold drain_drop. runs_tac. Qed.
Hint Resolve runs_drain_drop runs_remove runs_swap_remove_back : runs.

Definition ks_op (o : op) : Prop :=
  match o with
  | ORemove _ | OSwap _ _ | OSwapRemoveBack _ | ODrain _ _ _ _ | OPopBack => True
  | _ => False
  end.

Lemma runs_exec_ks o : ks_op o -> runs (exec o).
Proof. destruct o; cbn [ks_op]; intros []; cbn [exec]; runs_tac. Qed.

End Runs.

(* read-only operations leave the state as it is *)
Lemma exec_ro o s w r s' w' : ro_op o -> exec o s w = (r, s', w') -> s' = s.
Proof.
  intros Ho H. symmetry.
  exact (runs_exec_ro eq (@eq_refl _) (@eq_trans _) o Ho s w r s' w' H).
Qed.

Definition keeps (s s' : cbuf) : Prop := start s' = start s /\ cap s' = cap s.

Lemma exec_ks o s w r s' w' : ks_op o -> exec o s w = (r, s', w') -> keeps s s'.
Proof.
  intros Ho H.
  refine (runs_exec_ks keeps _ _ _ _ o Ho s w r s' w' H); unfold keeps; cbn; intros; try tauto.
  destruct H0, H1. split; congruence.
Qed.

(* ---- the description of the slots as a fact about two lists -------------------------- *)

(* l = contents before, l' = contents afterwards, the front of the state
   afterwards is the logical position k0 of the state before *)
Definition slots_ok (l l' : list elem) (k0 : Z) (L : list Z) : Prop :=
  forall j, 0 <= j < zlen l' ->
    (0 <= k0 + j < zlen l /\ zn l' j = zn l (k0 + j))
    \/ In (eid (zn l' j)) L
    \/ ~ In (eid (zn l' j)) (ids l).

Lemma relocated_lists s s' k0 L :
  WF s -> WF s' -> NoDup (ids (abs s)) ->
  cap s' = cap s -> start s' = (start s + k0) mod cap s ->
  slots_ok (abs s) (abs s') k0 L ->
  zlen (relocated s s') <= zlen L.
Proof.
  intros HW HW' Hnd Hc Hs H. wf HW. wf HW'.
  apply relocated_shift with (k0 := k0); auto; try lia.
  intros j Hj. specialize (H j). rewrite !abs_zlen in H by lia. apply H. lia.
Qed.

Lemma relocated_empty s s' : size s <= 0 -> relocated s s' = [].
Proof.
  intros H. unfold relocated. replace (Z.to_nat (size s)) with 0%nat by lia. reflexivity.
Qed.

Lemma WF_start_0 s : WF s -> start s = (start s + 0) mod cap s.
Proof.
  intros HW. wf HW. rewrite Z.add_0_r. destruct (Z.eq_dec (cap s) 0) as [E|E].
  - rewrite (Hst0 E). rewrite Zmod_0_l. reflexivity.
  - symmetry. apply Z.mod_small. lia.
Qed.

Lemma slots_ok_nil l k0 L : slots_ok l [] k0 L.
Proof. intros j Hj. change (zlen (@nil elem)) with 0 in Hj. lia. Qed.

Lemma slots_ok_same l : slots_ok l l 0 [].
Proof. intros j Hj. left. split; [lia|]. f_equal. Qed.

Lemma slots_ok_removelast l : slots_ok l (removelast l) 0 [].
Proof.
  intros j Hj. rewrite zlen_removelast in Hj. left. split; [lia|].
  rewrite zn_removelast by lia. f_equal.
Qed.

Lemma slots_ok_tl l : slots_ok l (tl l) 1 [].
Proof.
  intros j Hj. rewrite zlen_tl in Hj. left. split; [lia|].
  rewrite zn_tl by lia. f_equal. lia.
Qed.

Lemma slots_ok_firstn m l : slots_ok l (firstn m l) 0 [].
Proof.
  intros j Hj. rewrite zlen_firstn in Hj. left. split; [lia|].
  rewrite zn_firstn by lia. f_equal.
Qed.

Lemma slots_ok_skipn m l : slots_ok l (skipn m l) (Z.of_nat m) [].
Proof.
  intros j Hj. rewrite zlen_skipn in Hj. left. split; [lia|].
  rewrite zn_skipn by lia. f_equal. lia.
Qed.

Lemma slots_ok_app_new l x : ~ In (eid x) (ids l) -> slots_ok l (l ++ [x]) 0 [].
Proof.
  intros Hx j Hj. rewrite zlen_app in Hj. change (zlen [x]) with 1 in Hj.
  destruct (Z_lt_ge_dec j (zlen l)) as [Hlt|Hge].
  - left. split; [lia|]. rewrite zn_app1 by lia. f_equal.
  - right. right. rewrite zn_app2 by lia. replace (j - zlen l) with 0 by lia. exact Hx.
Qed.

Lemma slots_ok_cons_new l x : ~ In (eid x) (ids l) -> slots_ok l (x :: l) (-1) [].
Proof.
  intros Hx j Hj. rewrite zlen_cons in Hj.
  destruct (Z.eq_dec j 0) as [->|Hne].
  - right. right. exact Hx.
  - left. split; [lia|]. rewrite zn_consS by lia. f_equal. lia.
Qed.

Lemma slots_ok_tl_app_new l x : ~ In (eid x) (ids l) -> slots_ok l (tl (l ++ [x])) 1 [].
Proof.
  intros Hx j Hj. rewrite zlen_tl, zlen_app in Hj. change (zlen [x]) with 1 in Hj.
  rewrite zn_tl by lia.
  destruct (Z_lt_ge_dec (j + 1) (zlen l)) as [Hlt|Hge].
  - left. split; [lia|]. rewrite zn_app1 by lia. f_equal. lia.
  - right. right. rewrite zn_app2 by lia. replace (j + 1 - zlen l) with 0 by lia. exact Hx.
Qed.

Lemma slots_ok_removelast_cons_new l x :
  ~ In (eid x) (ids l) -> slots_ok l (removelast (x :: l)) (-1) [].
Proof.
  intros Hx j Hj. rewrite zlen_removelast, zlen_cons in Hj.
  rewrite zn_removelast by (rewrite zlen_cons; lia).
  destruct (Z.eq_dec j 0) as [->|Hne].
  - right. right. exact Hx.
  - left. split; [lia|]. rewrite zn_consS by lia. f_equal. lia.
Qed.

Lemma slots_ok_weaken l l' k0 L L' : incl L L' -> slots_ok l l' k0 L -> slots_ok l l' k0 L'.
Proof.
  intros Hi H j Hj. destruct (H j Hj) as [HA|[HB|HC]]; auto.
Qed.

Lemma slots_ok_swap i j l :
  (i < length l)%nat -> (j < length l)%nat ->
  slots_ok l (swap_nth i j l) 0 [eid (zn l (Z.of_nat i)); eid (zn l (Z.of_nat j))].
Proof.
  intros Hi Hj k Hk. unfold zlen in Hk. rewrite length_swap_nth in Hk.
  rewrite zn_swap_nth by lia.
  destruct (k =? Z.of_nat j) eqn:E1; [right; left; cbn; auto|].
  destruct (k =? Z.of_nat i) eqn:E2; [right; left; cbn; auto|].
  left. unfold zlen. split; [lia|]. f_equal.
Qed.

(* a slot description survives dropping elements at the ends of l' *)
Lemma slots_ok_removelast' l l' k0 L : slots_ok l l' k0 L -> slots_ok l (removelast l') k0 L.
Proof.
  intros H j Hj. rewrite zlen_removelast in Hj. rewrite zn_removelast by lia. apply H. lia.
Qed.

Lemma slots_ok_tl' l l' k0 L : slots_ok l l' k0 L -> slots_ok l (tl l') (k0 + 1) L.
Proof.
  intros H j Hj. rewrite zlen_tl in Hj. rewrite zn_tl by lia.
  replace (k0 + 1 + j) with (k0 + (j + 1)) by lia. apply H. lia.
Qed.

Lemma In_zn_skipn (l : list elem) m k :
  Z.of_nat m <= k < zlen l -> In (zn l k) (skipn m l).
Proof.
  intros H. replace k with (k - Z.of_nat m + Z.of_nat m) by lia.
  rewrite <- zn_skipn by lia. apply zn_In. rewrite zlen_skipn. lia.
Qed.

Lemma slots_ok_remove_nth i l :
  (i < length l)%nat -> slots_ok l (remove_nth i l) 0 (ids (skipn i l)).
Proof.
  intros Hi j Hj. unfold remove_nth in *.
  rewrite zlen_app, zlen_firstn, zlen_skipn in Hj. unfold zlen in Hj.
  assert (Hl : zlen (firstn i l) = Z.of_nat i) by (rewrite zlen_firstn; unfold zlen; lia).
  destruct (Z_lt_ge_dec j (Z.of_nat i)) as [Hlt|Hge].
  - left. unfold zlen. split; [lia|]. rewrite zn_app1 by lia. rewrite zn_firstn by lia. f_equal.
  - right. left. rewrite zn_app2 by lia. rewrite Hl. rewrite zn_skipn by lia.
    unfold ids. apply in_map. apply In_zn_skipn. unfold zlen. lia.
Qed.

Lemma slots_ok_drain a b l :
  (a <= b <= length l)%nat -> slots_ok l (firstn a l ++ skipn b l) 0 (ids (skipn b l)).
Proof.
  intros Hab j Hj.
  rewrite zlen_app, zlen_firstn, zlen_skipn in Hj. unfold zlen in Hj.
  assert (Hl : zlen (firstn a l) = Z.of_nat a) by (rewrite zlen_firstn; unfold zlen; lia).
  destruct (Z_lt_ge_dec j (Z.of_nat a)) as [Hlt|Hge].
  - left. unfold zlen. split; [lia|]. rewrite zn_app1 by lia. rewrite zn_firstn by lia. f_equal.
  - right. left. rewrite zn_app2 by lia. rewrite Hl. rewrite zn_skipn by lia.
    unfold ids. apply in_map. apply In_zn_skipn. unfold zlen. lia.
Qed.

Lemma zlen_ids_skipn m (l : list elem) : zlen (ids (skipn m l)) = Z.max 0 (zlen l - Z.of_nat m).
Proof. unfold ids. rewrite zlen_map, zlen_skipn. reflexivity. Qed.

(* ---- operation by operation ------------------------------------------------------------ *)

Ltac blem_user ::=
  first [ apply add_mod_ok; mcbn; lia | apply sub_mod_ok; mcbn; lia
        | apply inc_start_ok; mcbn; lia | apply dec_start_ok; mcbn; lia
        | apply inc_size_ok; mcbn; lia | apply dec_size_ok; mcbn; lia
        | apply front_maybe_uninit_ok; mcbn; lia
        | apply front_maybe_uninit_mut_ok; mcbn; lia
        | apply back_maybe_uninit_ok; mcbn; lia
        | apply get_maybe_uninit_ok; mcbn; lia ].

Lemma bind_ret_inv {A} (m : M A) (f : A -> out) s w v s' w' :
  bind m (fun a => ret (f a)) s w = (Ok v, s', w') ->
  exists a, m s w = (Ok a, s', w') /\ v = f a.
Proof.
  unfold bind, ret. destruct (m s w) as [[[a|p] s1] w1]; intros H; inversion H; subst; eauto.
Qed.

Lemma moves_weaken o (b b' : cbuf -> Z) :
  (forall s, b s <= b' s) -> moves_at_most o b -> moves_at_most o b'.
Proof.
  intros Hb H s w v s' w' HW Ho Hf Hnd He.
  specialize (H s w v s' w' HW Ho Hf Hnd He). specialize (Hb s). lia.
Qed.

Lemma relocated_same s : 0 <= size s -> NoDup (ids (abs s)) -> relocated s s = [].
Proof.
  intros Hz Hnd. apply zlen_le0_nil.
  apply (relocated_desc s s []); auto.
  intros j Hj. left. exists j. auto.
Qed.

(* -- read-only operations: nothing moves -- *)

Theorem ro_moves o : ro_op o -> moves_at_most o (fun _ => 0).
Proof.
  intros Ho s w v s' w' HW _ _ Hnd He. apply exec_ro in He; [|exact Ho]. subst s'.
  wf HW. rewrite relocated_same; [unfold zlen; cbn [length]; lia|lia|].
  eapply NoDup_ids_app_l; exact Hnd.
Qed.

Ltac by_ro := apply moves_weaken with (b := fun _ => 0); [intros; lia|apply ro_moves; exact I].

Theorem get_moves i : moves_at_most (OGet i) (fun _ => 2). Proof. by_ro. Qed.
Theorem nth_front_moves i : moves_at_most (ONthFront i) (fun _ => 2). Proof. by_ro. Qed.
Theorem nth_back_moves i : moves_at_most (ONthBack i) (fun _ => 2). Proof. by_ro. Qed.
Theorem front_moves : moves_at_most OFront (fun _ => 2). Proof. by_ro. Qed.
Theorem back_moves : moves_at_most OBack (fun _ => 2). Proof. by_ro. Qed.
Theorem index_moves i : moves_at_most (OIndex i) (fun _ => 2). Proof. by_ro. Qed.
Theorem as_slices_moves : moves_at_most OAsSlices (fun _ => 2). Proof. by_ro. Qed.
Theorem len_moves : moves_at_most OLen (fun _ => 2). Proof. by_ro. Qed.
Theorem is_empty_moves : moves_at_most OIsEmpty (fun _ => 2). Proof. by_ro. Qed.
Theorem is_full_moves : moves_at_most OIsFull (fun _ => 2). Proof. by_ro. Qed.
Theorem capacity_moves : moves_at_most OCapacity (fun _ => 2). Proof. by_ro. Qed.

(* -- mem::replace through a &mut to one element: one slot is written -- *)

Definition wt_op (o : op) (v : elem) : Prop :=
  match o with
  | OGetMutSet _ v' | ONthFrontMutSet _ v' | ONthBackMutSet _ v'
  | OFrontMutSet v' | OBackMutSet v' | OIndexMutSet _ v' => v' = v
  | _ => False
  end.

Lemma deref_set_inv {A} (m : M A) (k : A -> M out) v0 s w v s' w' :
  bind m k s w = (Ok v, s', w') ->
  runs eq m -> (forall a, exists o, k a = deref_set o v0) ->
  s' = s \/ exists p, s' = b_items s (s_write (items s) p v0).
Proof.
  intros H Hm Hk. unfold bind in H.
  destruct (m s w) as [[[a|p] s1] w1] eqn:E; [|discriminate].
  apply Hm in E. subst s1. destruct (Hk a) as (o & Eo). rewrite Eo in H.
  destruct o as [p|]; unfold deref_set, bind, read_slot, write_slot, ret in H.
  - right. exists p. inversion H. reflexivity.
  - left. inversion H. reflexivity.
Qed.

Lemma exec_wt o v0 s w v s' w' :
  wt_op o v0 -> exec o s w = (Ok v, s', w') ->
  s' = s \/ exists p, s' = b_items s (s_write (items s) p v0).
Proof.
  destruct o; cbn [wt_op]; intros Hw; try contradiction; subst; cbn [exec]; intros He;
    (eapply deref_set_inv; [exact He| |intros a; eexists; reflexivity]);
    first [ apply runs_get_mut | apply runs_nth_front_mut | apply runs_nth_back_mut
          | apply runs_front_mut | apply runs_back_mut | apply runs_index_mut ];
    intros; congruence.
Qed.

Lemma write_one_le s p v :
  0 <= size s -> NoDup (ids (abs s)) ->
  zlen (relocated s (b_items s (s_write (items s) p v))) <= 1.
Proof.
  intros Hz Hnd. apply (relocated_desc s _ [eid v]); auto.
  intros j Hj. cbn [size b_items] in Hj. rewrite phys_b_items. cbn [items b_items].
  unfold s_write. destruct (phys s j =? p).
  - right. left. cbn. auto.
  - left. exists j. auto.
Qed.

Lemma write_one_fresh s p v :
  0 <= size s -> NoDup (ids (abs s)) -> ~ In (eid v) (ids (abs s)) ->
  relocated s (b_items s (s_write (items s) p v)) = [].
Proof.
  intros Hz Hnd Hv. apply zlen_le0_nil. apply (relocated_desc s _ []); auto.
  intros j Hj. cbn [size b_items] in Hj. rewrite phys_b_items. cbn [items b_items].
  unfold s_write. destruct (phys s j =? p).
  - right. right. exact Hv.
  - left. exists j. auto.
Qed.

(* whatever is written: at most one survivor (the one with the identity of
   the written value, if the caller duplicated an identity) *)
Theorem wt_moves o v0 : wt_op o v0 -> moves_at_most o (fun _ => 1).
Proof.
  intros Ho s w v s' w' HW _ _ Hnd He. wf HW.
  apply NoDup_ids_app_l in Hnd.
  destruct (exec_wt o v0 s w v s' w' Ho He) as [->|(p & ->)].
  - rewrite relocated_same by (auto; lia). unfold zlen; cbn [length]; lia.
  - apply write_one_le; auto; lia.
Qed.

(* the written element is new, the replaced one is gone: nothing moves *)
Theorem wt_moves_fresh o v0 s w v s' w' :
  wt_op o v0 -> WF s -> NoDup (ids (abs s)) -> ~ In (eid v0) (ids (abs s)) ->
  exec o s w = (Ok v, s', w') -> relocated s s' = [].
Proof.
  intros Ho HW Hnd Hv He. wf HW.
  destruct (exec_wt o v0 s w v s' w' Ho He) as [->|(p & ->)].
  - apply relocated_same; auto; lia.
  - apply write_one_fresh; auto; lia.
Qed.

Ltac by_wt v := apply moves_weaken with (b := fun _ => 1);
  [intros; lia|apply (wt_moves _ v); reflexivity].

Theorem get_mut_set_moves i v : moves_at_most (OGetMutSet i v) (fun _ => 2). Proof. by_wt v. Qed.
Theorem nth_front_mut_set_moves i v : moves_at_most (ONthFrontMutSet i v) (fun _ => 2).
Proof. by_wt v. Qed.
Theorem nth_back_mut_set_moves i v : moves_at_most (ONthBackMutSet i v) (fun _ => 2).
Proof. by_wt v. Qed.
Theorem front_mut_set_moves v : moves_at_most (OFrontMutSet v) (fun _ => 2). Proof. by_wt v. Qed.
Theorem back_mut_set_moves v : moves_at_most (OBackMutSet v) (fun _ => 2). Proof. by_wt v. Qed.
Theorem index_mut_set_moves i v : moves_at_most (OIndexMutSet i v) (fun _ => 2).
Proof. by_wt v. Qed.

(* -- operations that never move the front: pop_back, swap, swap_remove_back,
      remove, drain -- *)

Lemma ks_lists o s w v s' w' L :
  ks_op o -> WF s -> WF s' -> NoDup (ids (abs s)) ->
  exec o s w = (Ok v, s', w') ->
  slots_ok (abs s) (abs s') 0 L ->
  zlen (relocated s s') <= zlen L.
Proof.
  intros Ho HW HW' Hnd He H. destruct (exec_ks o s w _ s' w' Ho He) as [Hs Hc].
  apply relocated_lists with (k0 := 0); auto.
  rewrite Hs. apply WF_start_0. exact HW.
Qed.

Theorem pop_back_moves0 : moves_at_most OPopBack (fun _ => 0).
Proof.
  intros s w v s' w' HW _ Hf Hnd He.
  pose proof He as He2. cbn [exec] in He2. apply bind_ret_inv in He2.
  destruct He2 as (r & Hr & ->).
  destruct (pop_back_refines s w HW) as (s2 & Hm & Ha & HW2 & Hc2).
  assert (s2 = s') by congruence. subst s2.
  refine (ks_lists OPopBack s w _ s' w' [] I HW HW2 _ He _).
  - eapply NoDup_ids_app_l; eauto.
  - rewrite Ha. apply slots_ok_removelast.
Qed.

Theorem pop_back_moves : moves_at_most OPopBack (fun _ => 2).
Proof. apply moves_weaken with (b := fun _ => 0); [intros; lia|apply pop_back_moves0]. Qed.

Theorem swap_moves i j : moves_at_most (OSwap i j) (fun _ => 2).
Proof.
  intros s w v s' w' HW Hok Hf Hnd He. cbn [op_ok] in Hok. unfold in_usize in Hok.
  destruct Hok as [[Hi _] [Hj _]].
  pose proof HW as HW'. wf HW'.
  pose proof He as He2. cbn [exec] in He2. apply bind_ret_inv in He2.
  destruct He2 as (r & Hr & ->).
  destruct (Z_lt_ge_dec i (size s)) as [Hil|Hil];
    [destruct (Z_lt_ge_dec j (size s)) as [Hjl|Hjl]|].
  2,3: rewrite swap_panics in Hr by (auto; lia); discriminate.
  destruct (swap_refines s w i j HW ltac:(lia) ltac:(lia)) as (s2 & Hm & Ha & HW2 & Hc2).
  assert (s2 = s') by congruence. subst s2.
  refine (ks_lists (OSwap i j) s w _ s' w'
           [eid (zn (abs s) (Z.of_nat (Z.to_nat i))); eid (zn (abs s) (Z.of_nat (Z.to_nat j)))]
           I HW HW2 _ He _).
  - eapply NoDup_ids_app_l; eauto.
  - rewrite Ha. apply slots_ok_swap; rewrite abs_length; lia.
Qed.

Theorem swap_remove_back_moves i : moves_at_most (OSwapRemoveBack i) (fun _ => 2).
Proof.
  intros s w v s' w' HW Hok Hf Hnd He. cbn [op_ok] in Hok. unfold in_usize in Hok.
  pose proof HW as HW'. wf HW'.
  pose proof He as He2. cbn [exec] in He2. apply bind_ret_inv in He2.
  destruct He2 as (r & Hr & ->).
  destruct (swap_remove_back_refines s w i HW ltac:(lia)) as (s2 & Hm & Ha & HW2 & Hc2).
  assert (s2 = s') by congruence. subst s2.
  refine (ks_lists (OSwapRemoveBack i) s w _ s' w'
           [eid (zn (abs s) (Z.of_nat (Z.to_nat i)));
            eid (zn (abs s) (Z.of_nat (length (abs s) - 1)))] I HW HW2 _ He _).
  - eapply NoDup_ids_app_l; eauto.
  - rewrite Ha. destruct (i <? size s) eqn:E.
    + apply slots_ok_removelast'. apply slots_ok_swap; rewrite abs_length; lia.
    + eapply slots_ok_weaken; [|apply slots_ok_same]. intros x [].
Qed.

Theorem remove_moves i : moves_at_most (ORemove i) (fun s => Z.max 0 (size s - i)).
Proof.
  intros s w v s' w' HW Hok Hf Hnd He. cbn [op_ok] in Hok. unfold in_usize in Hok.
  pose proof HW as HW'. wf HW'.
  pose proof He as He2. cbn [exec] in He2. apply bind_ret_inv in He2.
  destruct He2 as (r & Hr & ->).
  destruct (remove_refines s w i HW Hok) as (s2 & Hm & Ha & HW2 & Hc2).
  assert (s2 = s') by congruence. subst s2.
  assert (H : zlen (relocated s s') <= zlen (ids (skipn (Z.to_nat i) (abs s)))).
  { refine (ks_lists (ORemove i) s w _ s' w' _ I HW HW2 _ He _).
    - eapply NoDup_ids_app_l; eauto.
    - rewrite Ha. destruct (i <? size s) eqn:E.
      + apply slots_ok_remove_nth. rewrite abs_length. lia.
      + eapply slots_ok_weaken; [|apply slots_ok_same]. intros x []. }
  rewrite zlen_ids_skipn, abs_zlen in H by lia. lia.
Qed.

Theorem drain_moves sb eb script s w v s' w' a b :
  WF s -> op_ok s (ODrain sb eb script false) -> fault w = None ->
  NoDup (map eid (abs s ++ given (ODrain sb eb script false))) ->
  spec_bounds (size s) sb eb = Some (a, b) ->
  exec (ODrain sb eb script false) s w = (Ok v, s', w') ->
  zlen (relocated s s') <= size s - b.
Proof.
  intros HW Hok Hf Hnd Hsb He. pose proof HW as HW'. wf HW'.
  pose proof (drain_drop_op sb eb script s w HW Hf Hok) as H.
  destruct Hok as (Hsbo & Hebo).
  pose proof (translate_bounds_ok s w sb eb Hsbo Hebo ltac:(lia)) as Ht.
  rewrite Hsb in Ht. destruct Ht as (_ & Hab & Hbn).
  unfold refines_at in H. cbn [spec_step] in H. rewrite abs_zlen in H by lia.
  rewrite Hsb in H.
  destruct (spec_script (abs s) (nat_of a) (nat_of b) (map plain_step script))
    as [[rs l2] [lo hi]].
  cbv beta iota in H.
  destruct H as (v2 & s2 & Hm & _ & Ha & HW2 & Hc2). cbn [sr_list] in Ha.
  assert (s2 = s') by congruence. subst s2.
  assert (H : zlen (relocated s s') <= zlen (ids (skipn (nat_of b) (abs s)))).
  { refine (ks_lists (ODrain sb eb script false) s w _ s' w' _ I HW HW2 _ He _).
    - eapply NoDup_ids_app_l; eauto.
    - rewrite Ha. apply slots_ok_drain. unfold nat_of. rewrite abs_length. lia. }
  unfold nat_of in H. rewrite zlen_ids_skipn, abs_zlen in H by lia. lia.
Qed.

(* -- operations that move the front: where it goes -- *)

Lemma push_back_start s w x r s' w' :
  WF s -> push_back x s w = (r, s', w') ->
  start s' = if (0 <? cap s) && (size s =? cap s) then (start s + 1) mod cap s else start s.
Proof.
  intros HW. pose proof HW as HW'. wf HW'. unfold push_back.
  destruct (Z.eq_dec (cap s) 0) as [Hc0|Hc0].
  - bsteps. intros H. inversion H; subst. reflexivity.
  - specialize (Hst ltac:(lia)). destruct (Z.eq_dec (size s) (cap s)) as [Hfull|Hnf].
    + bsteps. intros H. inversion H; subst. reflexivity.
    + bsteps. intros H. inversion H; subst. reflexivity.
Qed.

Lemma push_front_start s w x r s' w' :
  WF s -> push_front x s w = (r, s', w') ->
  start s' = if cap s =? 0 then start s else (start s + (cap s - 1)) mod cap s.
Proof.
  intros HW. pose proof HW as HW'. wf HW'. unfold push_front.
  destruct (Z.eq_dec (cap s) 0) as [Hc0|Hc0].
  - bsteps. intros H. inversion H; subst. reflexivity.
  - specialize (Hst ltac:(lia)). destruct (Z.eq_dec (size s) (cap s)) as [Hfull|Hnf].
    + bsteps. intros H. inversion H; subst. reflexivity.
    + bsteps. intros H. inversion H; subst. reflexivity.
Qed.

Lemma try_push_back_start s w x r s' w' :
  WF s -> try_push_back x s w = (r, s', w') -> start s' = start s.
Proof.
  intros HW. pose proof HW as HW'. wf HW'. unfold try_push_back.
  destruct (Z.eq_dec (cap s) 0) as [Hc0|Hc0].
  - bsteps. intros H. inversion H; subst. reflexivity.
  - specialize (Hst ltac:(lia)). destruct (Z.eq_dec (size s) (cap s)) as [Hfull|Hnf].
    + bsteps. intros H. inversion H; subst. reflexivity.
    + bsteps. intros H. inversion H; subst. reflexivity.
Qed.

Lemma try_push_front_start s w x r s' w' :
  WF s -> try_push_front x s w = (r, s', w') ->
  start s' = if (0 <? cap s) && (size s <? cap s)
             then (start s + (cap s - 1)) mod cap s else start s.
Proof.
  intros HW. pose proof HW as HW'. wf HW'. unfold try_push_front.
  destruct (Z.eq_dec (cap s) 0) as [Hc0|Hc0].
  - bsteps. intros H. inversion H; subst. reflexivity.
  - specialize (Hst ltac:(lia)). destruct (Z.eq_dec (size s) (cap s)) as [Hfull|Hnf].
    + bsteps. intros H. inversion H; subst. reflexivity.
    + bsteps. intros H. inversion H; subst. reflexivity.
Qed.

Lemma pop_front_start s w r s' w' :
  WF s -> pop_front s w = (r, s', w') ->
  start s' = if 0 <? size s then (start s + 1) mod cap s else start s.
Proof.
  intros HW. pose proof HW as HW'. wf HW'. unfold pop_front.
  destruct (Z.eq_dec (size s) 0) as [Hz|Hz].
  - bsteps. intros H. inversion H; subst. reflexivity.
  - specialize (Hst ltac:(lia)).
    bsteps. intros H. inversion H; subst. reflexivity.
Qed.

Lemma start_minus_1 s : 0 < cap s -> (start s + (cap s - 1)) mod cap s = (start s + -1) mod cap s.
Proof.
  intros Hc. replace (start s + (cap s - 1)) with (start s + -1 + 1 * cap s) by lia.
  apply Z.mod_add. lia.
Qed.

Ltac zero_bound := rewrite relocated_empty by lia; unfold zlen; cbn [length]; lia.

Theorem push_back_moves0 x : moves_at_most (OPushBack x) (fun _ => 0).
Proof.
  intros s w v s' w' HW _ Hf Hnd He. cbn [given] in Hnd. cbv beta.
  pose proof HW as HW'. wf HW'.
  destruct (Z.eq_dec (cap s) 0) as [Hc0|Hc0]; [zero_bound|].
  specialize (Hst ltac:(lia)).
  cbn [exec] in He. apply bind_ret_inv in He. destruct He as (r & Hr & ->).
  pose proof (push_back_start s w x _ s' w' HW Hr) as Hs.
  destruct (push_back_refines s w x HW) as (s2 & Hm & Ha & HW2 & Hc2).
  assert (s2 = s') by congruence. subst s2.
  rewrite spec_push_back_cases in Ha by (rewrite ?abs_zlen; lia). rewrite abs_zlen in Ha by lia.
  pose proof (NoDup_ids_new _ _ Hnd) as Hx. pose proof (NoDup_ids_app_l _ _ Hnd) as Hl.
  destruct (Z.eq_dec (size s) (cap s)) as [Hfull|Hnf].
  - replace (size s <? cap s) with false in Ha by lia. cbn [snd] in Ha.
    replace ((0 <? cap s) && (size s =? cap s)) with true in Hs by lia.
    apply (relocated_lists s s' 1 []); auto.
    rewrite Ha. apply slots_ok_tl_app_new; exact Hx.
  - replace (size s <? cap s) with true in Ha by lia. cbn [snd] in Ha.
    replace ((0 <? cap s) && (size s =? cap s)) with false in Hs by lia.
    apply (relocated_lists s s' 0 []); auto.
    + rewrite Hs. apply WF_start_0; exact HW.
    + rewrite Ha. apply slots_ok_app_new; exact Hx.
Qed.

Theorem push_front_moves0 x : moves_at_most (OPushFront x) (fun _ => 0).
Proof.
  intros s w v s' w' HW _ Hf Hnd He. cbn [given] in Hnd. cbv beta.
  pose proof HW as HW'. wf HW'.
  destruct (Z.eq_dec (cap s) 0) as [Hc0|Hc0]; [zero_bound|].
  specialize (Hst ltac:(lia)).
  cbn [exec] in He. apply bind_ret_inv in He. destruct He as (r & Hr & ->).
  pose proof (push_front_start s w x _ s' w' HW Hr) as Hs.
  destruct (push_front_refines s w x HW) as (s2 & Hm & Ha & HW2 & Hc2).
  assert (s2 = s') by congruence. subst s2.
  rewrite spec_push_front_cases in Ha by (rewrite ?abs_zlen; lia). rewrite abs_zlen in Ha by lia.
  pose proof (NoDup_ids_new _ _ Hnd) as Hx. pose proof (NoDup_ids_app_l _ _ Hnd) as Hl.
  replace (cap s =? 0) with false in Hs by lia. rewrite start_minus_1 in Hs by lia.
  apply (relocated_lists s s' (-1) []); auto.
  destruct (Z.eq_dec (size s) (cap s)) as [Hfull|Hnf].
  - replace (size s <? cap s) with false in Ha by lia. cbn [snd] in Ha.
    rewrite Ha. apply slots_ok_removelast_cons_new; exact Hx.
  - replace (size s <? cap s) with true in Ha by lia. cbn [snd] in Ha.
    rewrite Ha. apply slots_ok_cons_new; exact Hx.
Qed.

Theorem try_push_back_moves0 x : moves_at_most (OTryPushBack x) (fun _ => 0).
Proof.
  intros s w v s' w' HW _ Hf Hnd He. cbn [given] in Hnd. cbv beta.
  pose proof HW as HW'. wf HW'.
  cbn [exec] in He. apply bind_ret_inv in He. destruct He as (r & Hr & ->).
  pose proof (try_push_back_start s w x _ s' w' HW Hr) as Hs.
  destruct (try_push_back_refines s w x HW) as (s2 & Hm & Ha & HW2 & Hc2).
  assert (s2 = s') by congruence. subst s2.
  pose proof (NoDup_ids_new _ _ Hnd) as Hx. pose proof (NoDup_ids_app_l _ _ Hnd) as Hl.
  apply (relocated_lists s s' 0 []); auto.
  - rewrite Hs. apply WF_start_0; exact HW.
  - rewrite Ha. destruct (size s <? cap s).
    + apply slots_ok_app_new; exact Hx.
    + apply slots_ok_same.
Qed.

Theorem try_push_front_moves0 x : moves_at_most (OTryPushFront x) (fun _ => 0).
Proof.
  intros s w v s' w' HW _ Hf Hnd He. cbn [given] in Hnd. cbv beta.
  pose proof HW as HW'. wf HW'.
  destruct (Z.eq_dec (cap s) 0) as [Hc0|Hc0]; [zero_bound|].
  specialize (Hst ltac:(lia)).
  cbn [exec] in He. apply bind_ret_inv in He. destruct He as (r & Hr & ->).
  pose proof (try_push_front_start s w x _ s' w' HW Hr) as Hs.
  destruct (try_push_front_refines s w x HW) as (s2 & Hm & Ha & HW2 & Hc2).
  assert (s2 = s') by congruence. subst s2.
  pose proof (NoDup_ids_new _ _ Hnd) as Hx. pose proof (NoDup_ids_app_l _ _ Hnd) as Hl.
  destruct (size s <? cap s) eqn:E.
  - replace ((0 <? cap s) && true) with true in Hs by lia.
    rewrite start_minus_1 in Hs by lia.
    apply (relocated_lists s s' (-1) []); auto.
    rewrite Ha. apply slots_ok_cons_new; exact Hx.
  - rewrite andb_false_r in Hs.
    apply (relocated_lists s s' 0 []); auto.
    + rewrite Hs. apply WF_start_0; exact HW.
    + rewrite Ha. apply slots_ok_same.
Qed.

Theorem pop_front_moves0 : moves_at_most OPopFront (fun _ => 0).
Proof.
  intros s w v s' w' HW _ Hf Hnd He. cbv beta.
  pose proof HW as HW'. wf HW'.
  destruct (Z.eq_dec (size s) 0) as [Hz|Hz]; [zero_bound|].
  cbn [exec] in He. apply bind_ret_inv in He. destruct He as (r & Hr & ->).
  pose proof (pop_front_start s w _ s' w' HW Hr) as Hs.
  destruct (pop_front_refines s w HW) as (s2 & Hm & Ha & HW2 & Hc2).
  assert (s2 = s') by congruence. subst s2.
  pose proof (NoDup_ids_app_l _ _ Hnd) as Hl.
  replace (0 <? size s) with true in Hs by lia.
  apply (relocated_lists s s' 1 []); auto.
  rewrite Ha. apply slots_ok_tl.
Qed.

Ltac by_zero H := apply moves_weaken with (b := fun _ => 0); [intros; lia|apply H].

Theorem push_back_moves x : moves_at_most (OPushBack x) (fun _ => 2).
Proof. by_zero push_back_moves0. Qed.
Theorem push_front_moves x : moves_at_most (OPushFront x) (fun _ => 2).
Proof. by_zero push_front_moves0. Qed.
Theorem try_push_back_moves x : moves_at_most (OTryPushBack x) (fun _ => 2).
Proof. by_zero try_push_back_moves0. Qed.
Theorem try_push_front_moves x : moves_at_most (OTryPushFront x) (fun _ => 2).
Proof. by_zero try_push_front_moves0. Qed.
Theorem pop_front_moves : moves_at_most OPopFront (fun _ => 2).
Proof. by_zero pop_front_moves0. Qed.

(* -- swap_remove_front: two slots exchanged, then the front advances -- *)

Lemma swap_remove_front_start s w i r s' w' :
  WF s -> 0 <= i -> swap_remove_front i s w = (r, s', w') ->
  start s' = if i <? size s then (start s + 1) mod cap s else start s.
Proof.
  intros HW Hi. pose proof HW as HW'. wf HW'. unfold swap_remove_front. mcbn.
  destruct (Z_lt_ge_dec i (size s)) as [Hlt|Hge].
  2:{ replace (size s <=? i) with true by lia. replace (i <? size s) with false by lia.
      intros H. inversion H; subst. reflexivity. }
  replace (size s <=? i) with false by lia. replace (i <? size s) with true by lia.
  destruct (swap_refines s w i 0 HW ltac:(lia) ltac:(lia)) as (s1 & Hm1 & Ha1 & HW1 & Hc1).
  erewrite bind_ok by exact Hm1. intros H.
  assert (Hk : keeps s s1).
  { apply (exec_ks (OSwap i 0) s w (Ok OutUnit) s1 w I).
    cbn [exec]. erewrite bind_ok by exact Hm1. reflexivity. }
  destruct Hk as [Hs1 Hcs1].
  assert (Hz1 : size s1 = size s).
  { pose proof (abs_length s1) as Hl. rewrite Ha1, length_swap_nth, abs_length in Hl.
    wf HW1. lia. }
  apply pop_front_start in H; [|exact HW1].
  rewrite Hz1, Hs1, Hcs1 in H. replace (0 <? size s) with true in H by lia. exact H.
Qed.

Theorem swap_remove_front_moves i : moves_at_most (OSwapRemoveFront i) (fun _ => 2).
Proof.
  intros s w v s' w' HW Hok Hf Hnd He. cbn [op_ok] in Hok. unfold in_usize in Hok.
  pose proof HW as HW'. wf HW'.
  destruct (Z.eq_dec (size s) 0) as [Hz|Hz]; [zero_bound|].
  cbn [exec] in He. apply bind_ret_inv in He. destruct He as (r & Hr & ->).
  pose proof (swap_remove_front_start s w i _ s' w' HW ltac:(lia) Hr) as Hs.
  destruct (swap_remove_front_refines s w i HW ltac:(lia)) as (s2 & Hm & Ha & HW2 & Hc2).
  assert (s2 = s') by congruence. subst s2.
  pose proof (NoDup_ids_app_l _ _ Hnd) as Hl.
  destruct (i <? size s) eqn:E.
  - apply (relocated_lists s s' (0 + 1)
             [eid (zn (abs s) (Z.of_nat (Z.to_nat i))); eid (zn (abs s) (Z.of_nat 0))]); auto.
    rewrite Ha. apply slots_ok_tl'. apply slots_ok_swap; rewrite abs_length; lia.
  - apply (relocated_lists s s' 0
             [eid (zn (abs s) (Z.of_nat (Z.to_nat i))); eid (zn (abs s) (Z.of_nat 0))]); auto.
    + rewrite Hs. apply WF_start_0; exact HW.
    + rewrite Ha. eapply slots_ok_weaken; [|apply slots_ok_same]. intros x [].
Qed.

(* -- truncate_back / truncate_front / clear -- *)

Lemma drop_range_start s w a b :
  WF s -> fault w = None -> 0 <= a < b -> b <= size s -> (a = 0 \/ b = size s) ->
  exists s' w',
    drop_range a b s w = (Ok tt, s', w') /\
    start s' = (if b =? size s then start s else (start s + b) mod cap s).
Proof.
  intros HW Hf Hab Hb Hends. pose proof HW as HW'. wf HW'.
  specialize (Hst ltac:(lia)).
  pose proof (phys_range s a ltac:(lia)) as Hpa.
  assert (Hdt : 0 <= (start s + b) mod cap s < cap s) by (apply Z.mod_pos_bound; lia).
  unfold drop_range. replace (b <=? a) with false by lia.
  mcbn. do 6 bstep. bstep. bstep. fold (phys s a) in *.
  set (s1 := if b =? size s then b_size s a
             else mkB (cap s) (size s - b) ((start s + b) mod cap s) (items s)).
  assert (Hbody : (if b =? size s then set_size a
                   else set_start ((start s + b) mod cap s);; v <- usub (size s) b;; set_size v)
                    s w = (Ok tt, s1, w)).
  { subst s1. destruct (b =? size s) eqn:Eb; [reflexivity|]. bgo. reflexivity. }
  assert (Hs1 : start s1 = if b =? size s then start s else (start s + b) mod cap s).
  { subst s1. destruct (b =? size s); reflexivity. }
  destruct (phys s a <? (start s + b) mod cap s) eqn:Elt.
  - exists s1. eexists. split; [|exact Hs1].
    bgo. eapply finally_ok; [exact Hbody|].
    rewrite drop_two_ok by exact Hf. reflexivity.
  - exists s1. eexists. split; [|exact Hs1].
    bgo. eapply finally_ok; [exact Hbody|].
    rewrite drop_two_ok by exact Hf. reflexivity.
Qed.

Lemma truncate_back_start s w k r s' w' :
  WF s -> fault w = None -> 0 <= k -> truncate_back k s w = (r, s', w') -> start s' = start s.
Proof.
  intros HW Hf Hk. pose proof HW as HW'. wf HW'. unfold truncate_back. mcbn.
  destruct ((cap s =? 0) || (size s <=? k)) eqn:E.
  - intros H. inversion H; subst. reflexivity.
  - destruct (drop_range_start s w k (size s) HW Hf ltac:(lia) ltac:(lia) ltac:(lia))
      as (s1 & w1 & Hd & Hs1).
    rewrite Hd. intros H. assert (s' = s1) by congruence. subst s'.
    rewrite Hs1, Z.eqb_refl. reflexivity.
Qed.

Lemma truncate_front_start s w k r s' w' :
  WF s -> fault w = None -> 0 <= k -> truncate_front k s w = (r, s', w') ->
  start s' = if (0 <? k) && (k <? size s) then (start s + (size s - k)) mod cap s else start s.
Proof.
  intros HW Hf Hk. pose proof HW as HW'. wf HW'. unfold truncate_front. mcbn.
  destruct ((cap s =? 0) || (size s <=? k)) eqn:E.
  - intros H. assert (s' = s) by (inversion H; reflexivity). subst s'.
    replace ((0 <? k) && (k <? size s)) with false by lia. reflexivity.
  - bstep.
    destruct (drop_range_start s w 0 (size s - k) HW Hf ltac:(lia) ltac:(lia) ltac:(lia))
      as (s1 & w1 & Hd & Hs1).
    rewrite Hd. intros H. assert (s' = s1) by congruence. subst s'. rewrite Hs1.
    destruct (Z.eq_dec k 0) as [->|Hk0].
    + rewrite Z.sub_0_r, Z.eqb_refl. reflexivity.
    + replace (size s - k =? size s) with false by lia.
      replace ((0 <? k) && (k <? size s)) with true by lia. reflexivity.
Qed.

Theorem truncate_back_moves0 k : moves_at_most (OTruncateBack k) (fun _ => 0).
Proof.
  intros s w v s' w' HW Hok Hf Hnd He. cbn [op_ok] in Hok. unfold in_usize in Hok. cbv beta.
  cbn [exec] in He. apply bind_ret_inv in He. destruct He as (r & Hr & ->).
  pose proof (truncate_back_start s w k _ s' w' HW Hf ltac:(lia) Hr) as Hs.
  destruct (truncate_back_ok s w k HW Hf ltac:(lia)) as (s2 & Hm & Ha & HW2 & Hc2).
  assert (s2 = s') by congruence. subst s2.
  pose proof (NoDup_ids_app_l _ _ Hnd) as Hl.
  apply (relocated_lists s s' 0 []); auto.
  - rewrite Hs. apply WF_start_0; exact HW.
  - rewrite Ha. apply slots_ok_firstn.
Qed.

Theorem truncate_front_moves0 k : moves_at_most (OTruncateFront k) (fun _ => 0).
Proof.
  intros s w v s' w' HW Hok Hf Hnd He. cbn [op_ok] in Hok. unfold in_usize in Hok. cbv beta.
  pose proof HW as HW'. wf HW'.
  cbn [exec] in He. apply bind_ret_inv in He. destruct He as (r & Hr & ->).
  pose proof (truncate_front_start s w k _ s' w' HW Hf ltac:(lia) Hr) as Hs.
  destruct (truncate_front_ok s w k HW Hf ltac:(lia)) as (s2 & Hm & Ha & HW2 & Hc2).
  assert (s2 = s') by congruence. subst s2.
  pose proof (NoDup_ids_app_l _ _ Hnd) as Hl.
  unfold lastn in Ha.
  destruct ((0 <? k) && (k <? size s)) eqn:E.
  - apply (relocated_lists s s'
             (Z.of_nat (length (abs s) - Z.to_nat (Z.min k (size s)))) []); auto.
    + rewrite Hs. f_equal. f_equal. rewrite abs_length. lia.
    + rewrite Ha. apply slots_ok_skipn.
  - apply (relocated_lists s s' 0 []); auto.
    + rewrite Hs. apply WF_start_0; exact HW.
    + rewrite Ha. destruct (Z.eq_dec k 0) as [->|Hk0].
      * rewrite skipn_all2 by (rewrite abs_length; lia). apply slots_ok_nil.
      * replace (length (abs s) - Z.to_nat (Z.min k (size s)))%nat with 0%nat
          by (rewrite abs_length; lia).
        apply slots_ok_same.
Qed.

Theorem clear_moves0 : moves_at_most OClear (fun _ => 0).
Proof.
  intros s w v s' w' HW _ Hf Hnd He.
  apply (truncate_back_moves0 0 s w v s' w'); auto.
  cbn [op_ok]. unfold in_usize. pose proof W_pos. lia.
Qed.

Theorem truncate_back_moves k : moves_at_most (OTruncateBack k) (fun _ => 2).
Proof. by_zero truncate_back_moves0. Qed.
Theorem truncate_front_moves k : moves_at_most (OTruncateFront k) (fun _ => 2).
Proof. by_zero truncate_front_moves0. Qed.
Theorem clear_moves : moves_at_most OClear (fun _ => 2).
Proof. by_zero clear_moves0. Qed.

(* -- make_contiguous on contiguous contents: returns the view, touches nothing -- *)

Lemma make_contiguous_contig s w :
  WF s -> start s + size s <= cap s \/ size s = 0 ->
  exists sl, make_contiguous s w = (Ok sl, s, w).
Proof.
  intros HW Hcontig. pose proof HW as HW'. wf HW'. unfold make_contiguous. mcbn.
  destruct ((cap s =? 0) || (size s =? 0)) eqn:E0.
  - eexists. reflexivity.
  - specialize (Hst ltac:(lia)).
    bstep. bstep. bstep.
    replace (size s <=? cap s - start s) with true by lia.
    eexists. bsteps.
Qed.

Theorem make_contiguous_moves s w v s' w' :
  WF s -> op_ok s (OMakeContiguous []) -> fault w = None ->
  NoDup (map eid (abs s ++ given (OMakeContiguous []))) ->
  start s + size s <= cap s \/ size s = 0 ->
  exec (OMakeContiguous []) s w = (Ok v, s', w') ->
  relocated s s' = [].
Proof.
  intros HW _ Hf Hnd Hcontig He. pose proof HW as HW'. wf HW'.
  destruct (make_contiguous_contig s w HW Hcontig) as (sl & Hm).
  cbn [exec] in He. erewrite bind_ok in He by exact Hm.
  unfold get_items at 1 in He. unfold bind at 1 in He.
  assert (Hw : forall ps, write_through ps [] s w = (Ok tt, s, w)) by (destruct ps; reflexivity).
  erewrite bind_ok in He by apply Hw.
  unfold ret in He. inversion He; subst.
  apply relocated_same; [lia|]. eapply NoDup_ids_app_l; exact Hnd.
Qed.

(* ---- the hypotheses are satisfiable: a wrapped, partly filled buffer --------------- *)

Example moves_hyps :
  let s := mkB 4 3 2 (fun p => mkE (100 + p) p) in
  let w := mkW true 500 [] None in
  WF s /\ ~ (start s + size s <= cap s) /\ fault w = None /\
  op_ok s (ORemove 1) /\
  NoDup (map eid (abs s ++ given (OPushBack (mkE 7 7)))) /\
  NoDup (map eid (abs s ++ given (ORemove 1))) /\
  (exists v s' w', exec (ORemove 1) s w = (Ok v, s', w') /\ relocated s s' = [2]) /\
  (exists v s' w', exec (OSwapRemoveFront 1) s w = (Ok v, s', w') /\ relocated s s' = [0]).
Proof.
  assert (4 < W) by (rewrite W_eq; reflexivity).
  cbv zeta. split; [unfold WF; cbn; lia|]. split; [cbn; lia|]. split; [reflexivity|].
  split; [cbn; unfold in_usize; lia|].
  split; [cbn; repeat constructor; cbn; intuition congruence|].
  split; [cbn; repeat constructor; cbn; intuition congruence|].
  split.
  - eexists _, _, _. split; [vm_compute; reflexivity|vm_compute; reflexivity].
  - eexists _, _, _. split; [vm_compute; reflexivity|vm_compute; reflexivity].
Qed.
