(* PushPop.v — push_back / push_front / try_push_* / pop_* refine the
   specification's deque operations on every well-formed state. *)

From CB Require Import Spec.
From CBP Require Import MonadLemmas Arith AbsLemmas ListLemmas AbsOps Core Step.
From Coq Require Import ZifyBool.
Ltac Zify.zify_post_hook ::= Z.div_mod_to_equations.

Ltac blem_user ::=
  first [ apply add_mod_ok; mcbn; lia | apply sub_mod_ok; mcbn; lia
        | apply inc_start_ok; mcbn; lia | apply dec_start_ok; mcbn; lia
        | apply inc_size_ok; mcbn; lia | apply dec_size_ok; mcbn; lia
        | apply front_maybe_uninit_ok; mcbn; lia
        | apply front_maybe_uninit_mut_ok; mcbn; lia
        | apply back_maybe_uninit_ok; mcbn; lia
        | apply get_maybe_uninit_ok; mcbn; lia ].

Lemma spec_push_back_cases N l x :
  0 <= N -> zlen l <= N ->
  spec_push_back N l x =
    if zlen l <? N then (None, l ++ [x]) else (hd_error (l ++ [x]), tl (l ++ [x])).
Proof.
  intros. unfold spec_push_back. rewrite zlen_app.
  change (zlen [x]) with 1.
  destruct (zlen l <? N) eqn:E.
  - replace (zlen l + 1 <=? N) with true by lia. reflexivity.
  - replace (zlen l + 1 <=? N) with false by lia. reflexivity.
Qed.

Theorem push_back_refines s w x :
  WF s ->
  pure_step (push_back x) s w (fst (spec_push_back (cap s) (abs s) x))
            (snd (spec_push_back (cap s) (abs s) x)).
Proof.
  intros HW. pose proof HW as HW'. wf HW'.
  rewrite spec_push_back_cases by (rewrite ?abs_zlen; lia).
  rewrite abs_zlen by lia.
  unfold pure_step, push_back.
  destruct (Z.eq_dec (cap s) 0) as [Hc0|Hc0].
  - (* zero capacity: the element comes straight back *)
    exists s. rewrite (WF_cap0 s HW Hc0).
    bsteps. cbn. auto.
  - specialize (Hst ltac:(lia)).
    destruct (Z.eq_dec (size s) (cap s)) as [Hfull|Hnf].
    + (* full: evict the front *)
      destruct (abs_front s ltac:(lia) Hst ltac:(lia)) as (t & El).
      pose proof (abs_push_back_full s x ltac:(lia) Hst Hfull) as Ha.
      rewrite El in *. cbn [app hd_error tl fst snd] in *.
      eexists. bsteps. split; [reflexivity|].
      split; [|split].
      * rewrite <- Ha. reflexivity.
      * apply WF_mk; cbn; lia.
      * reflexivity.
    + (* room left *)
      eexists. bsteps. split; [reflexivity|]. cbn [fst snd].
      split; [|split].
      * rewrite <- abs_push_back by lia. unfold phys. cbn [cap start size items b_size].
        replace (size s + 1 - 1) with (size s) by lia. reflexivity.
      * apply WF_mk; cbn; lia.
      * reflexivity.
Qed.

Lemma spec_push_front_cases N l x :
  0 <= N -> zlen l <= N ->
  spec_push_front N l x =
    if zlen l <? N then (None, x :: l) else (last_error (x :: l), removelast (x :: l)).
Proof.
  intros. unfold spec_push_front. rewrite zlen_cons.
  destruct (zlen l <? N) eqn:E.
  - replace (1 + zlen l <=? N) with true by lia. reflexivity.
  - replace (1 + zlen l <=? N) with false by lia. reflexivity.
Qed.

Lemma last_error_cons (x : elem) l : l <> [] -> last_error (x :: l) = last_error l.
Proof.
  intros H. unfold last_error. cbn [rev].
  destruct (rev l) as [|y r] eqn:E.
  - apply (f_equal (@rev elem)) in E. rewrite rev_involutive in E. cbn in E. congruence.
  - reflexivity.
Qed.

Theorem push_front_refines s w x :
  WF s ->
  pure_step (push_front x) s w (fst (spec_push_front (cap s) (abs s) x))
            (snd (spec_push_front (cap s) (abs s) x)).
Proof.
  intros HW. pose proof HW as HW'. wf HW'.
  rewrite spec_push_front_cases by (rewrite ?abs_zlen; lia).
  rewrite abs_zlen by lia.
  unfold pure_step, push_front.
  destruct (Z.eq_dec (cap s) 0) as [Hc0|Hc0].
  - exists s. rewrite (WF_cap0 s HW Hc0).
    bsteps. cbn. auto.
  - specialize (Hst ltac:(lia)).
    destruct (Z.eq_dec (size s) (cap s)) as [Hfull|Hnf].
    + (* full: evict the back *)
      pose proof (abs_push_front_full s x ltac:(lia) Hst Hfull) as Ha.
      pose proof (abs_back s ltac:(lia)) as Hb.
      pose proof (abs_nonempty s ltac:(lia)) as Hne.
      assert (Hrl : removelast (x :: abs s) = x :: removelast (abs s)).
      { destruct (abs s); [congruence|reflexivity]. }
      eexists. bsteps. cbn [fst snd]. rewrite last_error_cons by exact Hne. rewrite Hb, Hrl.
      split; [reflexivity|].
      split; [|split].
      * rewrite <- Ha. reflexivity.
      * apply WF_mk; cbn; lia.
      * reflexivity.
    + (* room left *)
      pose proof (abs_push_front s x ltac:(lia) Hst ltac:(lia)) as Ha. cbv zeta in Ha.
      eexists. bsteps. split; [reflexivity|]. cbn [fst snd].
      split; [|split].
      * rewrite <- Ha. reflexivity.
      * apply WF_mk; cbn; lia.
      * reflexivity.
Qed.

Theorem try_push_back_refines s w x :
  WF s ->
  pure_step (try_push_back x) s w
            (if size s <? cap s then None else Some x)
            (if size s <? cap s then abs s ++ [x] else abs s).
Proof.
  intros HW. pose proof HW as HW'. wf HW'.
  unfold pure_step, try_push_back.
  destruct (Z.eq_dec (cap s) 0) as [Hc0|Hc0].
  - exists s. bsteps. auto.
  - specialize (Hst ltac:(lia)).
    destruct (Z.eq_dec (size s) (cap s)) as [Hfull|Hnf].
    + exists s. bsteps. auto.
    + eexists. bsteps. split; [reflexivity|].
      split; [|split].
      * rewrite <- abs_push_back by lia. unfold phys. cbn [cap start size items b_size].
        replace (size s + 1 - 1) with (size s) by lia. reflexivity.
      * apply WF_mk; cbn; lia.
      * reflexivity.
Qed.

Theorem try_push_front_refines s w x :
  WF s ->
  pure_step (try_push_front x) s w
            (if size s <? cap s then None else Some x)
            (if size s <? cap s then x :: abs s else abs s).
Proof.
  intros HW. pose proof HW as HW'. wf HW'.
  unfold pure_step, try_push_front.
  destruct (Z.eq_dec (cap s) 0) as [Hc0|Hc0].
  - exists s. bsteps. auto.
  - specialize (Hst ltac:(lia)).
    destruct (Z.eq_dec (size s) (cap s)) as [Hfull|Hnf].
    + exists s. bsteps. auto.
    + pose proof (abs_push_front s x ltac:(lia) Hst ltac:(lia)) as Ha. cbv zeta in Ha.
      eexists. bsteps. split; [reflexivity|].
      split; [|split].
      * rewrite <- Ha. reflexivity.
      * apply WF_mk; cbn; lia.
      * reflexivity.
Qed.

Theorem pop_back_refines s w :
  WF s -> pure_step pop_back s w (last_error (abs s)) (removelast (abs s)).
Proof.
  intros HW. pose proof HW as HW'. wf HW'.
  unfold pure_step, pop_back.
  destruct (Z.eq_dec (size s) 0) as [Hz|Hz].
  - exists s. rewrite (abs_empty s Hz). bsteps. cbn. auto.
  - specialize (Hst ltac:(lia)).
    rewrite abs_back by lia.
    eexists. bsteps. split; [reflexivity|].
    split; [|split].
    * rewrite <- abs_pop_back by lia. reflexivity.
    * apply WF_mk; cbn; lia.
    * reflexivity.
Qed.

Theorem pop_front_refines s w :
  WF s -> pure_step pop_front s w (hd_error (abs s)) (tl (abs s)).
Proof.
  intros HW. pose proof HW as HW'. wf HW'.
  unfold pure_step, pop_front.
  destruct (Z.eq_dec (size s) 0) as [Hz|Hz].
  - exists s. rewrite (abs_empty s Hz). bsteps. cbn. auto.
  - specialize (Hst ltac:(lia)).
    destruct (abs_front s ltac:(lia) Hst ltac:(lia)) as (t & El).
    pose proof (abs_pop_front s ltac:(lia) Hst ltac:(lia)) as Ha.
    rewrite El in *. cbn [hd_error tl] in *.
    eexists. bsteps. split; [reflexivity|].
    split; [|split].
    * rewrite <- Ha. reflexivity.
    * apply WF_mk; cbn; lia.
    * reflexivity.
Qed.
